import HapVerif.Model.C09DynViews
import HapVerif.Generated.CodeC09
/-!
# C09 — regenerated tie of `validateAllowDeny` / `buildGlobalDynamic` (pkg/converters/ingress/annotations)

Both are TRANSLATED on every run (Generated/CodeC09.lean).  They compute the four cross-namespace permission bits every
getter of the cache facade passes to `buildResourceName`.  `validateAllowDeny_tie`: a permission is granted exactly
when the value of ITS key is `allow` (any case) — a missing, empty, `deny` or invalid value is deny;
`buildGlobalDynamic_tie`: the translated code is the model's `buildGlobalDynamic` (each bit reads its own key; the
static command-line flag grants the three SECRET bits and never the service bit).
-/
namespace HapVerif.C09DynTie
open HapVerif HapVerif.C09 HapVerif.C09Dyn

theorem validateAllowDeny_tie (get : GKey → List Char) (k : GKey) :
    CodeC09.validateAllowDeny get k = allowOf (get k) := by
  unfold CodeC09.validateAllowDeny allowOf C09Dyn.toLower
  simp only [GoLib.chars, sAllow]
  have : "allow".toList = ['a', 'l', 'l', 'o', 'w'] := by decide
  rw [this]
  by_cases h : List.map lowerChar (get k) = ['a', 'l', 'l', 'o', 'w'] <;> simp [h]

/-- **invalid value ⇒ deny**: only (a spelling of) `allow` grants -/
theorem only_allow_grants (get : GKey → List Char) (k : GKey) (h : CodeC09.validateAllowDeny get k = true) :
    (get k).map lowerChar = sAllow := by
  rw [validateAllowDeny_tie] at h
  simpa [allowOf] using h

theorem buildGlobalDynamic_tie (static : Bool) (cm : GlobalCM) :
    CodeC09.buildGlobalDynamic static (getOf cm) = C09.buildGlobalDynamic static cm := by
  unfold CodeC09.buildGlobalDynamic C09.buildGlobalDynamic
  simp only [validateAllowDeny_tie, getOf]

/-- the command-line flag never grants cross-namespace SERVICE reads -/
theorem static_does_not_grant_services (get : GKey → List Char) :
    (CodeC09.buildGlobalDynamic true get).svc = allowOf (get .svc) := by
  unfold CodeC09.buildGlobalDynamic
  simp only [validateAllowDeny_tie]

/-- each bit depends on its own key only -/
theorem bits_read_own_key (static : Bool) (g₁ g₂ : GKey → List Char) :
    (g₁ .ca = g₂ .ca → (CodeC09.buildGlobalDynamic static g₁).ca = (CodeC09.buildGlobalDynamic static g₂).ca) ∧
    (g₁ .crt = g₂ .crt → (CodeC09.buildGlobalDynamic static g₁).crt = (CodeC09.buildGlobalDynamic static g₂).crt) ∧
    (g₁ .pw = g₂ .pw → (CodeC09.buildGlobalDynamic static g₁).pw = (CodeC09.buildGlobalDynamic static g₂).pw) ∧
    (g₁ .svc = g₂ .svc → (CodeC09.buildGlobalDynamic static g₁).svc = (CodeC09.buildGlobalDynamic static g₂).svc) := by
  unfold CodeC09.buildGlobalDynamic
  simp only [validateAllowDeny_tie]
  refine ⟨?_, ?_, ?_, ?_⟩ <;> intro h <;> rw [h]

example : CodeC09.buildGlobalDynamic false (getOf { crt := "Allow".toList, svc := "yes".toList })
    = { crt := true, ca := false, pw := false, svc := false } := by decide

end HapVerif.C09DynTie
