import HapVerif.Lemmas.C18Hist
import HapVerif.Props.C18
import HapVerif.Drv.C18
import HapVerif.Generated.Facts
/-!
# C18 over histories: a full sync followed by any number of partial syncs

Model: `runHist v w0 ho0 bo0 bs` (Model/C18Hist.lean) = `run` (a fresh controller, full sync) followed
by one `partialSync` per batch: the dirty hosts / backends are dropped and re-created
(`resetRecs`: `Hosts().RemoveAll`, `Frontend().RemoveAuthBackendByTarget`, `Backends().RemoveAll`,
fresh records), then `partialSyncAnnotations` walks the dirty hosts and the dirty backends — in
any order — with the same builders as a full sync, on the bind list and the records carried
over; the clean-up of an exhausted range keeps the names in use by ALL current backend paths and
host paths (`usedOf` over every slot).

What a history needs to be well formed is `ChainClosed`: the dirty sets of every batch are closed
(`Closed`: a path outside the dirty backends/hosts is unchanged, and is not a user of a dirty
service backend).  The tracker guarantees it (C01 proves the closure of the tracker model); here the
dirty sets are computed by `dirtyOf` from the links of the grammar's ingresses and the driver
checks `closedOk` (sound: `closedOk_sound`) on every batch of every case it replays.
-/
namespace HapVerif.C18

/-! ## the invariant, over every history -/

/-- **binds match targets, by induction over partial syncs**: after a full sync and any number of
partial syncs with closed dirty sets — whatever the ingresses added, removed and changed, the port
range, the iteration orders, the variant — the bind list is strictly sorted (no port twice); every
backend-path record that names `_auth_<P>` belongs to a live path with an auth-url and port `P`
forwards to the backend of exactly that URL; and (clean-up keeping frontend names) every
`HostPath.AuthExt` that names `_auth_<P>` sits on a host whose auth-url's backend is what `P`
forwards to.  Paths that were not processed by the later syncs included: that is the clause
`stale-auth-bind-after-partial-sync` of the oracle. -/
theorem hist_binds_match_targets (v : Variant) (w0 : World) (ho0 bo0 : List Nat) (bs : List Batch)
    (hch : ChainClosed w0 bs) :
    Sorted (runHist v w0 ho0 bo0 bs).binds ∧
    (∀ i P, ((runHist v w0 ho0 bo0 bs).brec i).name = .proxy P →
      ∃ p u, (lastWorld w0 bs).paths[i]? = some p ∧ p.url = .val u ∧
        targetOf (runHist v w0 ho0 bo0 bs).binds P = some u.target) ∧
    (v.usedFront = true → ∀ i r P, (runHist v w0 ho0 bo0 bs).frec i = some r → r.name = .proxy P →
      ∃ p u, (lastWorld w0 bs).paths[i]? = some p ∧ hostUrl (lastWorld w0 bs) p.host = .val u ∧
        targetOf (runHist v w0 ho0 bo0 bs).binds P = some u.target) := by
  obtain ⟨⟨hs, hrec⟩, hfrec⟩ := runHist_inv2 v w0 ho0 bo0 bs hch
  refine ⟨hs, ?_, ?_⟩
  · intro i P hn
    obtain ⟨p, u, hp, hu, hb⟩ := hrec i P hn
    exact ⟨p, u, hp, hu, targetOf_of_mem hs hb⟩
  · intro hv i r P hr hn
    obtain ⟨p, u, hp, _, hu, hshape⟩ := hfrec i r hr
    refine ⟨p, u, hp, hu, ?_⟩
    rcases hshape with hd | ⟨P', hok, _, hb⟩
    · rw [hd] at hn; simp [denyRec] at hn
    · rw [hok] at hn
      simp only [okRec, AuthName.proxy.injEq] at hn
      subst hn
      exact targetOf_of_mem hs (hb hv)

/-- one partial sync, as a step: the invariant of the state before is the invariant of the state
after (the induction step of `hist_binds_match_targets`) -/
theorem partial_sync_keeps_invariant (v : Variant) (w w' : World) (d : Dirty) (ho bo : List Nat)
    (st : St) (hc : Closed w w' d) (hi : Inv2 v w st) :
    Inv2 v w' (partialSync v w' d ho bo st) :=
  partialSync_inv2 ho bo hc hi

/-- the side condition is decidable: what the driver evaluates is sound -/
theorem closed_of_check (w w' : World) (d : Dirty) (h : closedOk w w' d = true) : Closed w w' d :=
  closedOk_sound h

/-! ## fail closed over histories -/

/-- the property on the model, over histories -/
def HistFailClosed (v : Variant) : Prop :=
  ∀ (w0 : World) (ho0 bo0 : List Nat) (bs : List Batch), bo0.Nodup →
    (∀ (i : Nat) (p : PathIn), w0.paths[i]? = some p → isDead p = false → p.backend ∈ bo0) →
    ChainClosed w0 bs → (∀ b ∈ bs, OrderOk b) →
    ∀ (i : Nat) (p : PathIn), (lastWorld w0 bs).paths[i]? = some p → isDead p = false →
      pathOk (lastWorld w0 bs) (runHist v w0 ho0 bo0 bs).binds p
        (obsOf (lastWorld w0 bs) (runHist v w0 ho0 bo0 bs) i) = true

/- Full-strength statement: `theorem hist_fail_closed : HistFailClosed vBoth`.  It fails already
   for the empty history (`hist_fail_closed_fails`: frontend placement of a begin path, the known
   finding of the one-batch mode); what is proved is the part that rests on the backend section: -/

/-- **fail closed over histories, backend placement and oauth**: after a full sync and any number
of partial syncs (closed dirty sets, every dirty backend walked once) every live path that
declares an auth-url with backend placement, or oauth without an auth-url of its own, gets from
its backend section `deny`, or the intercept through a port bound to the backend of its own URL /
through its oauth2-proxy backend, followed by deny-or-redirect unless successful — whether or not
the later syncs processed it again.  Side condition as in `fail_closed_partial`. -/
theorem hist_fail_closed_partial (v : Variant) (hv : v.oauthOwn = true) (w0 : World)
    (ho0 bo0 : List Nat) (bs : List Batch) (hbo0 : bo0.Nodup)
    (hcov : ∀ (i : Nat) (p : PathIn), w0.paths[i]? = some p → isDead p = false → p.backend ∈ bo0)
    (hch : ChainClosed w0 bs) (hok : ∀ b ∈ bs, OrderOk b)
    (i : Nat) (p : PathIn) (hp : (lastWorld w0 bs).paths[i]? = some p) (hlive : isDead p = false)
    (hside : ¬ (p.url.nonEmpty = true ∧ ownPlc p ≠ .backend)) :
    pathOk (lastWorld w0 bs) (runHist v w0 ho0 bo0 bs).binds p
      (obsOf (lastWorld w0 bs) (runHist v w0 ho0 bo0 bs) i) = true := by
  cases hd : declared p with
  | false => simp [pathOk, hd]
  | true =>
    have hshape : ShapeInv (lastWorld w0 bs) (runHist v w0 ho0 bo0 bs) := by
      unfold runHist
      exact foldl_partialSync_shape hv bs w0 _ (run_shape hv hbo0 hcov) hch hok
    obtain ⟨r1, hpost, hfin⟩ := hshape i p hp hlive
    obtain ⟨⟨hs, hrec⟩, _⟩ := runHist_inv2 v w0 ho0 bo0 bs hch
    have hrb : (obsOf (lastWorld w0 bs) (runHist v w0 ho0 bo0 bs) i).rb =
        rulesOf (oauthRec true (lastWorld w0 bs) p r1) := by
      unfold obsOf
      rw [hp]
      simp only
      rw [backendRules_eq _ _ (mem_backendIdxs.mpr ⟨p, hp, rfl⟩), hfin]
    have hcov' := final_rules_covered (w := lastWorld w0 bs)
      (binds := (runHist v w0 ho0 bo0 bs).binds) hs hpost
      (by
        intro P hn
        obtain ⟨p', u, hp', hu, hb⟩ := hrec i P (by rw [hfin]; exact hn)
        rw [hp] at hp'
        injection hp' with hp'
        subst hp'
        exact ⟨u, hu, hb⟩) hd hside
    simp only [pathOk, hrb, hcov', Bool.or_true, Bool.true_or]

/-! ### witnesses -/

def hPath (host backend : Nat) (key : String) (url : UrlAnn) (plc : Plc) : PathIn :=
  { host := host, backend := backend, ord := host * 16 + backend, key := key, hamatch := "str", sub := key,
    url := url, plc := plc, oauth := .absent, signin := false }

def hSlot (p : PathIn) : Slot :=
  { path := p, hostKey := "H" ++ toString p.host, svcKey := "S" ++ toString p.backend,
    authKey := none, authBack := none }

/-- the trigger of seed C18b (harness: `hist x0l0r1 0.0.0.b.h1.b.-.- a:1.1.1.b.h2.b.-.-`): a range
of one port, taken by ing01 -/
def hA : PathIn := hPath 0 0 "h0.local#/a" (.val (uOk 1 "/auth")) .backend
def hB : PathIn := hPath 1 1 "h1.local#/b" (.val (uOk 2 "/check")) .backend
def wSeed0 : World := mkWorld 14415 14415 [hA]
def wSeed1 : World := mkWorld 14415 14415 [hA, hB]
def dSeed : Dirty := dirtyOf [some (hSlot hA)] [some (hSlot hA), some (hSlot hB)] [1]

/-- the tracker leaves ing01 alone: only the host and the backend of the new ingress are dirty -/
theorem seed_dirty : dSeed = ⟨[1], [1], []⟩ ∧ closedOk wSeed0 wSeed1 dSeed = true := by
  decide +kernel

/-- the code as it is: the new path finds the range full, the clean-up keeps the port of the
untouched ing01, the new path is denied and ing01 is still served by its own service -/
theorem partial_sync_keeps_untouched_bind :
    let st := partialSync vBoth wSeed1 dSeed [1] [1] (run vBoth wSeed0 [0] [0])
    st.binds = [⟨14415, 1⟩] ∧ st.brec 0 = { name := .proxy 14415, authPath := "/auth" } ∧
    st.brec 1 = { alwaysDeny := true } ∧
    histOracle wSeed1 st.binds [obsOf wSeed1 st 0, obsOf wSeed1 st 1] = none := by
  decide +kernel

/-- the seeded defect (`BuildUsedAuthBackends` over `itemsAdd`): the clean-up does not see the
name in use by ing01, hands its port to the service of the new ingress, and ing01 — never
processed — is now authenticated by a service it did not declare: the oracle says so -/
theorem seeded_used_set_goes_stale :
    let st := partialSyncSeeded vBoth wSeed1 dSeed [1] [1] (run vBoth wSeed0 [0] [0])
    st.binds = [⟨14415, 2⟩] ∧ st.brec 0 = { name := .proxy 14415, authPath := "/auth" } ∧
    st.brec 1 = { name := .proxy 14415, authPath := "/check" } ∧
    histOracle wSeed1 st.binds [obsOf wSeed1 st 0, obsOf wSeed1 st 1] =
      some "stale-auth-bind-after-partial-sync" := by
  decide +kernel

/-- non-vacuity of `hist_binds_match_targets` / `hist_fail_closed_partial`: the history above is
closed, its order is fine, and after it two declared paths are alive, one intercepted through a
bound port and one denied -/
example : ChainClosed wSeed0 [⟨wSeed1, dSeed, [1], [1]⟩] :=
  ⟨closedOk_sound seed_dirty.2, trivial⟩
example : OrderOk ⟨wSeed1, dSeed, [1], [1]⟩ := by
  constructor
  · decide
  · intro x; rw [seed_dirty.1]
example : (lastWorld wSeed0 [⟨wSeed1, dSeed, [1], [1]⟩]).paths.all declared = true ∧
    (obsOf wSeed1 (runHist vBoth wSeed0 [0] [0] [⟨wSeed1, dSeed, [1], [1]⟩]) 0).rb =
      [.icpt (.proxy 14415) "/auth" "", .unless false ""] ∧
    (obsOf wSeed1 (runHist vBoth wSeed0 [0] [0] [⟨wSeed1, dSeed, [1], [1]⟩]) 1).rb = [.deny] := by
  decide +kernel

/-- a deleted ingress leaves a dead slot and, for a while, its bind; the clean-up of a later
partial sync recycles the port (harness: `hist x0l0r1 0.0.0.b.h1.b.-.- d:1/a:1.1.1.b.h2.b.-.-`) -/
theorem deleted_holder_port_recycled :
    let d1 := dirtyOf [some (hSlot hA)] [none] [0]
    let w1 := mkWorld 14415 14415 [deadPath]
    let d2 := dirtyOf [none] [none, some (hSlot hB)] [1]
    let w2 := mkWorld 14415 14415 [deadPath, hB]
    let st1 := partialSync vBoth w1 d1 [0] [0] (run vBoth wSeed0 [0] [0])
    let st2 := partialSync vBoth w2 d2 [1] [1] st1
    closedOk wSeed0 w1 d1 = true ∧ closedOk w1 w2 d2 = true ∧
    st1.binds = [⟨14415, 1⟩] ∧ st2.binds = [⟨14415, 2⟩] ∧ st2.cleaned = true ∧
    histOracle (mkWorld 14415 14415 [hB]) st2.binds [obsOf w2 st2 1] = none := by
  decide +kernel

/-- a service as auth target: its backend is dirty together with every user (tracker link of the
`svc://` auth-url), `RemoveAuthBackendByTarget` drops the bind and the users acquire it again -/
theorem service_target_users_dirty_together :
    let pa := hPath 0 0 "h0.local#/a" (.val { uOk 5 "/auth" with proto := .svc }) .backend
    let pb := hPath 1 1 "h1.local#/b" (.val { uOk 5 "/auth" with proto := .svc }) .backend
    let sa : Slot := { hSlot pa with authKey := some "A:default/authsvc", authBack := some 5 }
    let sb : Slot := { hSlot pb with authKey := some "A:default/authsvc", authBack := some 5 }
    let w := mkWorld 14415 14416 [pa, pb]
    let d := dirtyOf [some sa, some sb] [some sa, some sb] [0]
    d = ⟨[0, 1], [0, 1], [5]⟩ ∧ closedOk w w d = true ∧
    (resetRecs w d (run vBoth w [0, 1] [0, 1])).binds = [] ∧
    (partialSync vBoth w d [0, 1] [1, 0] (run vBoth w [0, 1] [0, 1])).binds = [⟨14415, 5⟩] := by
  decide +kernel

/-- the full statement fails already without any partial sync (frontend placement, begin path) -/
theorem hist_fail_closed_fails : ¬ HistFailClosed vBoth := by
  intro h
  have := h wFrontBegin [0] [0] [] (by decide) (by
    intro i p hp _
    match i, hp with
    | 0, hp => simp [wFrontBegin, mkWorld] at hp; subst hp; decide
    | i + 1, hp => simp [wFrontBegin, mkWorld] at hp) trivial (fun _ hb => by cases hb) 0 _ rfl (by decide)
  revert this
  decide +kernel

/-! ## facts regenerated from the Go sources -/

/-- `BuildUsedAuthBackends` walks `b.items` (every current backend, not the ones of the running
sync); `syncPartial` drops the dirty hosts, the binds whose target is a dirty backend, then the
dirty backends; `partialSyncAnnotations` rebuilds the annotations of `Hosts().ItemsAdd()`, then of
`Backends().ItemsAdd()`; `RemoveAuthBackendByTarget` keeps a bind unless its target is listed -/
theorem facts_c18_hist :
    Facts.c18UsedAuthRanges = ["b.items", "backend.Paths"] ∧
    Facts.c18SyncPartialRemovals = ["c.haproxy.TCPServices().RemoveAll(dirtyTCPServices)",
      "c.haproxy.Hosts().RemoveAll(dirtyHosts)",
      "c.haproxy.Frontend().RemoveAuthBackendByTarget(dirtyBacks)",
      "c.haproxy.Backends().RemoveAll(dirtyBacks)", "c.haproxy.Userlists().RemoveAll(dirtyUsers)",
      "c.haproxy.AcmeData().Storages().RemoveAll(dirtyStorages)"] ∧
    -- 67da5a0 / 85c4ee0: the dirty hosts / backends are visited in a stable (sorted) order; before, in Go
    -- map order.  Both are "each dirty host, then each dirty backend, once, in SOME order", which is what
    -- the theorems quantify over
    (Facts.c18PartialSyncRanges = ["sortedHosts(c.haproxy.Hosts().ItemsAdd())", "sortedBackends(c.haproxy.Backends().ItemsAdd())"] ∨
     Facts.c18PartialSyncRanges = ["c.haproxy.Hosts().ItemsAdd()", "c.haproxy.Backends().ItemsAdd()"]) ∧
    Facts.c18PartialSyncOrder = ["c.updater.UpdateHostConfig", "c.updater.UpdateBackendConfig"] ∧
    Facts.c18RemoveByTargetConds = ["!hasBackend(backends, bind.Backend.String())"] := by
  decide +kernel

end HapVerif.C18
