import HapVerif.Model.C16
import HapVerif.Generated.Facts
/-!
# C16 — weighted balancing: property theorems

Model: `HapVerif.C16.rebalance` = `RebalanceWeight` with binary32 modelled exactly
(`f32`), tied to the Go code by the bit-exact correspondence run.
-/
namespace HapVerif.C16

theorem f32_zero : f32 0 = 0 := by simp [f32]

/-- the blue/green annotation clamp always yields a legal HAProxy weight -/
theorem clamp_range (w : Int) : 0 ≤ clampWeight w ∧ clampWeight w ≤ 256 := by
  unfold clampWeight; split
  · omega
  · split <;> omega

theorem truncI_zero : truncI 0 = 0 := by decide +kernel
theorem rat_zero_div (x : Rat) : 0 / x = 0 := by rw [Rat.div_def, Rat.zero_mul]

/-- One cluster: the written weight is zero exactly when the configured one is
(for every rounding function that maps 0 to 0, in particular `f32`). -/
theorem newWeight_zero_iff (rnd : Rat → Rat) (h0 : rnd 0 = 0) (lcm g : Int) (wfm wf : Rat)
    (cl : Cluster) (hw : 0 ≤ cl.weight) (w : Int)
    (h : newWeight rnd lcm g wfm wf cl = some w) : w = 0 ↔ cl.weight = 0 := by
  unfold newWeight at h
  split at h
  · cases h
  · by_cases hz : cl.weight = 0
    · simp [hz, h0, Rat.mul_zero, rat_zero_div, truncI_zero] at h
      simp [hz]; omega
    · have hpos : cl.weight > 0 := by omega
      simp [hpos] at h
      split at h <;> simp at h <;> (split at h <;> omega)

theorem mem_zip_self {α} {l : List α} {a b : α} (h : (a, b) ∈ l.zip l) : a = b ∧ a ∈ l := by
  induction l with
  | nil => simp at h
  | cons x xs ih =>
    simp only [List.zip_cons_cons, List.mem_cons, Prod.mk.injEq] at h
    rcases h with ⟨h1, h2⟩ | h
    · subst h1 h2; simp
    · have := ih h; exact ⟨this.1, List.mem_cons_of_mem _ this.2⟩

theorem mem_zip_map {α β} {l : List α} {f : α → β} {a : α} {b : β}
    (h : (a, b) ∈ l.zip (l.map f)) : a ∈ l ∧ b = f a := by
  rw [List.zip_map_right] at h
  simp only [List.mem_map, Prod.map, id, Prod.mk.injEq] at h
  obtain ⟨⟨x, y⟩, hxy, h1, h2⟩ := h
  have := mem_zip_self hxy
  simp only at h1 h2
  obtain ⟨e, hx⟩ := this
  subst e h1; exact ⟨hx, h2.symm⟩

/-- **zero-iff** (C16, second clause): for every input vector with non-negative weights
and every `initial`, a group that has replicas is written weight 0 iff its configured
weight is 0 — for the exact binary32 model of the code. -/
theorem zero_iff (cls : List Cluster) (initial : Int) (hw : ∀ c ∈ cls, 0 ≤ c.weight)
    (c : Cluster) (w : Int) (hm : (c, some w) ∈ cls.zip (rebalance cls initial)) :
    w = 0 ↔ c.weight = 0 := by
  unfold rebalance rebalanceWith at hm
  simp only at hm
  split at hm
  · have := (mem_zip_map hm).2; simp at this; omega
  · split at hm
    · have := (mem_zip_map hm).2; simp at this; omega
    · have := mem_zip_map hm
      exact newWeight_zero_iff f32 f32_zero _ _ _ _ c (hw c this.1) w this.2.symm

/-- facts regenerated from the Go source on every run: both clamps are present in the
blue/green parser and the Gateway base weight is itself a legal non-zero weight -/
theorem facts_c16 : Facts.c16ClampLow = true ∧ Facts.c16ClampHigh = true ∧
    1 ≤ Facts.c16GatewayBase ∧ Facts.c16GatewayBase ≤ 256 ∧ Facts.c16MaxWeightUses = 1 := by decide

/-- non-vacuity: the former failing input (41/59, one replica each, initial 1) now gets (1,1) -/
example : rebalance [⟨41, 1⟩, ⟨59, 1⟩] 1 = [some 1, some 1] := by decide +kernel

end HapVerif.C16
