import HapVerif.Model.C16
import HapVerif.Generated.Facts
import HapVerif.Lemmas.C16Exact24
/-!
# C16 — weighted balancing: property theorems

Model: `HapVerif.C16.rebalance` = `RebalanceWeight` with binary32 modelled exactly
(`f32`), tied to the Go code by the bit-exact correspondence run.
-/
namespace HapVerif.C16

theorem f32_zero : f32 0 = 0 := by simp [f32]

/-- the blue/green annotation clamp always yields a legal HAProxy weight -/
theorem clamp_range (w : Int) : 0 ≤ clampWeight w ∧ clampWeight w ≤ 256 := by
  unfold clampWeight; split
  · omega
  · split <;> omega

theorem truncI_zero : truncI 0 = 0 := by decide +kernel
theorem rat_zero_div (x : Rat) : 0 / x = 0 := by rw [Rat.div_def, Rat.zero_mul]

/-- One cluster: the written weight is zero exactly when the configured one is
(for every rounding function that maps 0 to 0, in particular `f32`). -/
theorem newWeight_zero_iff (rnd : Rat → Rat) (h0 : rnd 0 = 0) (lcm g : Int) (wfm wf : Rat)
    (cl : Cluster) (hw : 0 ≤ cl.weight) (w : Int)
    (h : newWeight rnd lcm g wfm wf cl = some w) : w = 0 ↔ cl.weight = 0 := by
  unfold newWeight at h
  split at h
  · cases h
  · by_cases hz : cl.weight = 0
    · simp [hz, h0, Rat.mul_zero, rat_zero_div, truncI_zero] at h
      simp [hz]; omega
    · have hpos : cl.weight > 0 := by omega
      simp [hpos] at h
      split at h <;> simp at h <;> (split at h <;> omega)

theorem mem_zip_self {α} {l : List α} {a b : α} (h : (a, b) ∈ l.zip l) : a = b ∧ a ∈ l := by
  induction l with
  | nil => simp at h
  | cons x xs ih =>
    simp only [List.zip_cons_cons, List.mem_cons, Prod.mk.injEq] at h
    rcases h with ⟨h1, h2⟩ | h
    · subst h1 h2; simp
    · have := ih h; exact ⟨this.1, List.mem_cons_of_mem _ this.2⟩

theorem mem_zip_map {α β} {l : List α} {f : α → β} {a : α} {b : β}
    (h : (a, b) ∈ l.zip (l.map f)) : a ∈ l ∧ b = f a := by
  rw [List.zip_map_right] at h
  simp only [List.mem_map, Prod.map, id, Prod.mk.injEq] at h
  obtain ⟨⟨x, y⟩, hxy, h1, h2⟩ := h
  have := mem_zip_self hxy
  simp only at h1 h2
  obtain ⟨e, hx⟩ := this
  subst e h1; exact ⟨hx, h2.symm⟩

/-- **zero-iff** (C16, second clause): for every input vector with non-negative weights
and every `initial`, a group that has replicas is written weight 0 iff its configured
weight is 0 — for the exact binary32 model of the code. -/
theorem zero_iff (cls : List Cluster) (initial : Int) (hw : ∀ c ∈ cls, 0 ≤ c.weight)
    (c : Cluster) (w : Int) (hm : (c, some w) ∈ cls.zip (rebalance cls initial)) :
    w = 0 ↔ c.weight = 0 := by
  unfold rebalance rebalanceWith at hm
  simp only at hm
  split at hm
  · have := (mem_zip_map hm).2; simp at this; omega
  · split at hm
    · have := (mem_zip_map hm).2; simp at this; omega
    · have := mem_zip_map hm
      exact newWeight_zero_iff f32 f32_zero _ _ _ _ c (hw c this.1) w this.2.symm

/-- facts regenerated from the Go source on every run: both clamps are present in the
blue/green parser and the Gateway base weight is itself a legal non-zero weight -/
theorem facts_c16 : Facts.c16ClampLow = true ∧ Facts.c16ClampHigh = true ∧
    1 ≤ Facts.c16GatewayBase ∧ Facts.c16GatewayBase ≤ 256 ∧ Facts.c16MaxWeightUses = 1 := by decide

/-- non-vacuity: the former failing input (41/59, one replica each, initial 1) now gets (1,1) -/
example : rebalance [⟨41, 1⟩, ⟨59, 1⟩] 1 = [some 1, some 1] := by decide +kernel

/-! # E1 — exact rational arithmetic (`rebalanceExact`) meets the whole Spec

Hypothesis `WFIn cls initial`: weights in `0..256`, lengths `≥ 0`, `1 ≤ initial ≤ 256`.
All statements range over `live cls out` = clusters that carry replicas, paired with the
weight written for them.  Proofs: Lemmas/C16Int, C16Core, C16Exact. -/

/-- E1: `0 ≤ w ≤ 256` -/
theorem exact_range {cls : List Cluster} {initial : Int} (h : WFIn cls initial) :
    ∀ p ∈ live cls (rebalanceExact cls initial), 0 ≤ p.2 ∧ p.2 ≤ 256 := exact_range' h

/-- E1: written weight is 0 iff the configured weight is 0 -/
theorem exact_zero_iff {cls : List Cluster} {initial : Int} (h : WFIn cls initial) :
    ∀ p ∈ live cls (rebalanceExact cls initial), (p.2 = 0 ↔ p.1.weight = 0) := exact_zero_iff' h

/-- E1: order, non-strict form (stronger than the Spec clause) -/
theorem exact_order_le {cls : List Cluster} {initial : Int} (h : WFIn cls initial) :
    ∀ p ∈ live cls (rebalanceExact cls initial), ∀ q ∈ live cls (rebalanceExact cls initial),
      ratio p.1 ≤ ratio q.1 → p.2 ≤ q.2 := exact_order_le' h

/-- E1: order, the Spec clause -/
theorem exact_order {cls : List Cluster} {initial : Int} (h : WFIn cls initial) :
    ∀ p ∈ live cls (rebalanceExact cls initial), ∀ q ∈ live cls (rebalanceExact cls initial),
      ratio p.1 < ratio q.1 → p.2 ≤ q.2 :=
  fun p hp q hq hr => exact_order_le' h p hp q hq (le_of_lt hr)

/-- E1: share with the bound of exactly ONE unit (stronger than the Spec clause, whose bound is
`ratio q * (1 + 1/1024)`) -/
theorem exact_share {cls : List Cluster} {initial : Int} (h : WFIn cls initial) :
    ∀ p ∈ live cls (rebalanceExact cls initial), ∀ q ∈ live cls (rebalanceExact cls initial),
      0 < ratio p.1 → ratio p.1 ≤ ratio q.1 →
      |(p.2 : Rat) * ratio q.1 - (q.2 : Rat) * ratio p.1| ≤ ratio q.1 := exact_share' h

/-- **E1**: for every well-formed input the exact-arithmetic algorithm satisfies the oracle -/
theorem exact_oracle {cls : List Cluster} {initial : Int} (h : WFIn cls initial) :
    oracle cls (rebalanceExact cls initial) = none := exact_oracle' h

/-- the facts of the integer layer that E1 rests on: every non-empty cluster's length
divides `lcmCount`; in the non-degenerate case `0 < g`, `g ∣ cw`, `0 < mn ≤ cw ≤ mx` for every
active cluster and `mn`, `mx` are attained -/
theorem integer_layer {cls : List Cluster} {initial : Int} (h : WFIn cls initial) :
    (∀ c ∈ cls, c.length ≠ 0 → c.length ∣ lcmCount cls ∧ 0 < lcmCount cls) ∧
    ((accAll (lcmCount cls) cls).g ≠ 0 →
      0 < (accAll (lcmCount cls) cls).g ∧ 0 < (accAll (lcmCount cls) cls).mn ∧
      (accAll (lcmCount cls) cls).mn ≤ (accAll (lcmCount cls) cls).mx ∧
      ∀ c ∈ cls, active c → (accAll (lcmCount cls) cls).g ∣ clusterWeight (lcmCount cls) c ∧
        (accAll (lcmCount cls) cls).mn ≤ clusterWeight (lcmCount cls) c ∧
        clusterWeight (lcmCount cls) c ≤ (accAll (lcmCount cls) cls).mx) :=
  ⟨fun _ hc h0 => len_dvd_lcmCount h.len hc h0,
   fun hg => let s := accAll_spec h hg; ⟨s.1, s.2.1, s.2.2.1, s.2.2.2.1⟩⟩

/-- the input used for the non-vacuity examples and for the share counter-example -/
def wit : List Cluster := [⟨229, 157⟩, ⟨241, 162⟩, ⟨17, 162⟩]

theorem wit_wf : WFIn wit 75 := ⟨by decide, by decide, by decide, by decide, by decide⟩
theorem wit_small : SmallLcm wit ∧ Exact24 wit 75 := by decide +kernel

/-- non-vacuity of E1: the hypothesis is satisfiable and the result is non-trivial -/
example : rebalanceExact wit 75 = [some 251, some 256, some 18] ∧
    oracle wit (rebalanceExact wit 75) = none := by decide +kernel
example : oracle wit (rebalanceExact wit 75) = none := exact_oracle wit_wf
example : live wit (rebalanceExact wit 75) ≠ [] := by decide +kernel

/-! # E2 — the rounding interface and its binary32 instance

`f32` models the NORMAL range with unbounded exponent: no subnormals, no overflow.  Hence
the relative-error bound is stated for every rational; for IEEE binary32 it is the bound
for `2^-126 ≤ |x| < 2^128`.  Proofs: Lemmas/C16Round. -/

/-- `2^e ≤ x < 2^(e+1)` for `e = ilog2 x`, from the `Nat.log2` bounds -/
theorem ilog2_spec {x : Rat} (hx : 0 < x) : pow2 (ilog2 x) ≤ x ∧ x < pow2 (ilog2 x + 1) :=
  ilog2_bounds hx

/-- `roundEven` is within 1/2 and monotone -/
theorem roundEven_spec : (∀ q : Rat, |(roundEven q : Rat) - q| ≤ 1 / 2) ∧
    (∀ p q : Rat, p ≤ q → roundEven p ≤ roundEven q) :=
  ⟨roundEven_err, fun _ _ h => roundEven_mono h⟩

theorem f32_mono {x y : Rat} (h : x ≤ y) : f32 x ≤ f32 y := f32_monotone h

/-- integers `|z| ≤ 2^24` are representable … -/
theorem f32_exact_int (z : Int) (hz : |z| ≤ 2 ^ 24) : f32 (z : Rat) = (z : Rat) := f32_exact_of_int z hz

/-- … and so are their products with powers of two -/
theorem f32_exact_int_pow2 (z k : Int) (hz : |z| ≤ 2 ^ 24) :
    f32 ((z : Rat) * pow2 k) = (z : Rat) * pow2 k := f32_exact_of_int_pow2 z k hz

/-- relative error `≤ 2^-24` (normal range, see above) -/
theorem f32_rel_err (x : Rat) : |f32 x - x| ≤ |x| * (1 / 2 ^ 24) := f32_relative_error x

/-- **E2**: `f32` is a `Rounding` (monotone, `0 ↦ 0`, exact on `z·2^k` with `|z| ≤ 2^24`,
relative error `≤ 2^-24`) -/
theorem f32_is_rounding : Rounding f32 := f32_rounding

/-- non-vacuity of E2: a value that is really rounded, an exact integer, the largest exact
integer, and the first integer that is not representable -/
example : f32 (1 / 41) ≠ 1 / 41 ∧ f32 16777215 = 16777215 ∧ f32 16777216 = 16777216 ∧
    f32 16777217 = 16777216 ∧ ilog2 (1 / 41) = -6 := by decide +kernel

/-! # E3 — the binary32 model `rebalance`

Proved for `rebalanceWith rnd` with ANY `Rounding rnd` (only the relative-error bound is
used; an int → float conversion is treated as one more rounding, so `Exact24` is not needed;
`Exact24` and the exactness of the conversions under it are in Lemmas/C16Exact24).
`SmallLcm cls` is `256 * lcmCount cls < 2^24`.  Proofs: Lemmas/C16Near, C16Float. -/

theorem f32_range_lower {cls : List Cluster} {initial : Int} (h : WFIn cls initial) :
    ∀ p ∈ live cls (rebalance cls initial), 0 ≤ p.2 :=
  fun p hp => (float_range' f32_rounding h p hp).1

theorem f32_range_upper {cls : List Cluster} {initial : Int} (h : WFIn cls initial) :
    ∀ p ∈ live cls (rebalance cls initial), p.2 ≤ 256 :=
  fun p hp => (float_range' f32_rounding h p hp).2

/-- the zero-iff clause on `live` (same content as `zero_iff` above) -/
theorem f32_zero_iff {cls : List Cluster} {initial : Int} (h : WFIn cls initial) :
    ∀ p ∈ live cls (rebalance cls initial), (p.2 = 0 ↔ p.1.weight = 0) :=
  float_zero_iff' f32_rounding h

/-- **order** for the binary32 model, the STRICT Spec clause, under `256·lcm < 2^24`:
two distinct configured ratios differ by a factor `≥ 1 + 2^-16` (`ratio_gap`), the chain of
at most 15 roundings perturbs by a factor `< 1 + 2^-19`. -/
theorem f32_order {cls : List Cluster} {initial : Int} (h : WFIn cls initial) (hs : SmallLcm cls) :
    ∀ p ∈ live cls (rebalance cls initial), ∀ q ∈ live cls (rebalance cls initial),
      ratio p.1 < ratio q.1 → p.2 ≤ q.2 := float_order' f32_rounding h hs

/- The share bound of exactly one unit (`… ≤ ratio q.1`, what exact arithmetic meets,
   `exact_share`) is FALSE for the binary32 model and for the Go code, even under
   `WFIn ∧ SmallLcm ∧ Exact24`: see `strict_unit_share_fails`.  The Spec clause `specShare`
   therefore allows `ratio q.1 * (1 + 1/1024)`: one unit of integer rounding + float error. -/

/-- **share**, the Spec clause (bound `ratio q * (1 + 1/1024)`), no hypothesis on the lcm
needed: truncation costs one unit, the at most 15 roundings cost `< 2·257/2^20 < 1/1024`. -/
theorem f32_share_partial {cls : List Cluster} {initial : Int} (h : WFIn cls initial) :
    ∀ p ∈ live cls (rebalance cls initial), ∀ q ∈ live cls (rebalance cls initial),
      0 < ratio p.1 → ratio p.1 ≤ ratio q.1 →
      |(p.2 : Rat) * ratio q.1 - (q.2 : Rat) * ratio p.1| ≤ ratio q.1 * (1 + 1 / 1024) :=
  float_share_weak' f32_rounding h

/-- **near-exact**: at every position with replicas, the weight written by the binary32
computation differs from the exact-arithmetic weight by at most one unit (also when the two
computations take different branches of `weightFactor > 1`). -/
theorem f32_near_exact {cls : List Cluster} {initial : Int} (h : WFIn cls initial)
    (i : Nat) (hi : i < cls.length) (hl : 0 < cls[i].length) :
    ∃ w w' : Int, (rebalance cls initial)[i]? = some (some w) ∧
      (rebalanceExact cls initial)[i]? = some (some w') ∧ |w - w'| ≤ 1 := by
  obtain ⟨w, w', h1, h2, h3⟩ := float_near_exact' f32_rounding h (List.getElem_mem hi) hl
  refine ⟨w, w', ?_, ?_, h3⟩
  · unfold rebalance; rw [rebalanceWith_map, List.getElem?_map, List.getElem?_eq_getElem hi]
    simp [h1]
  · unfold rebalanceExact; rw [rebalanceWith_map, List.getElem?_map, List.getElem?_eq_getElem hi]
    simp [h2]

/-- **the bound of exactly one unit is false for binary32** (hence for `RebalanceWeight`,
which agrees with the model bit for bit): weights 229/241/17 with 157/162/162 replicas,
initial-weight 75.  `lcm = 25434`, `256·lcm < 2^24`, all conversions exact (`Exact24`).  The
ideal weight of the first group is `256·37098/37837 = 251 + 1/37837`; the float chain yields
a value just below 251, truncated to 250 (exact arithmetic writes 251), which is
`1 + 1/37837` units below the proportional value:
`256·(229/157) − 250·(241/162) = 37838/25434 > 37837/25434 = 241/162`.
With the Spec bound `1 + 1/1024` the oracle accepts this output. -/
theorem strict_unit_share_fails :
    WFIn wit 75 ∧ SmallLcm wit ∧ Exact24 wit 75 ∧
    rebalance wit 75 = [some 250, some 256, some 18] ∧
    rebalanceExact wit 75 = [some 251, some 256, some 18] ∧
    ratio ⟨241, 162⟩ < (256 : Rat) * ratio ⟨229, 157⟩ - (250 : Rat) * ratio ⟨241, 162⟩ ∧
    oracle wit (rebalance wit 75) = none :=
  ⟨wit_wf, wit_small.1, wit_small.2, by decide +kernel, by decide +kernel, by decide +kernel,
    by decide +kernel⟩

/-- **E3**: under `WFIn` and `256·lcm < 2^24` the binary32 model of `RebalanceWeight` meets
the whole Spec (range, zero-iff, order, share). -/
theorem f32_oracle {cls : List Cluster} {initial : Int} (h : WFIn cls initial) (hs : SmallLcm cls) :
    oracle cls (rebalance cls initial) = none := by
  refine oracle_none (rebalanceWith_length _ _ _).symm ?_ ?_ ?_ ?_
  · intro p hp; exact (specRange_iff p).2 (float_range' f32_rounding h p hp)
  · intro p hp; exact (specZero_iff p).2 (float_zero_iff' f32_rounding h p hp)
  · intro p hp q hq; exact (specOrder_iff p q).2 (float_order' f32_rounding h hs p hp q hq)
  · intro p hp q hq
    exact (specShare_iff p q).2 fun hr => float_share_weak' f32_rounding h p hp q hq hr.1 hr.2

example : oracle wit (rebalance wit 75) = none := f32_oracle wit_wf wit_small.1

/-- non-vacuity of E3 on the witness input and on a benign one -/
example : live wit (rebalance wit 75) = [(⟨229, 157⟩, 250), (⟨241, 162⟩, 256), (⟨17, 162⟩, 18)] := by
  decide +kernel
example : WFIn [⟨1, 3⟩, ⟨3, 1⟩] 128 ∧ SmallLcm [⟨1, 3⟩, ⟨3, 1⟩] ∧
    rebalance [⟨1, 3⟩, ⟨3, 1⟩] 128 = [some 28, some 256] ∧
    oracle [⟨1, 3⟩, ⟨3, 1⟩] (rebalance [⟨1, 3⟩, ⟨3, 1⟩] 128) = none :=
  ⟨⟨by decide, by decide, by decide, by decide, by decide⟩, by decide +kernel, by decide +kernel,
    by decide +kernel⟩


end HapVerif.C16
