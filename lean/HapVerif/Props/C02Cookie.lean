import HapVerif.Lemmas.C02PairCookieTable
import HapVerif.Props.C02Pair
import HapVerif.Generated.Facts
/-!
# C02 — the cookie column of "running HAProxy = loaded files"

HAProxy keeps the cookie of a server as it LOADED it from `server … cookie <value>`; `set server` cannot change it
(`tableC_cookies`).  The statement of C02 lists "preserved cookie values": when the backend renders cookies
(cookie affinity) and has `session-cookie-preserve`, the cookie of every server that is not in maintenance must be
the one on the server line just written (`cookieScope`).

* `pair_sound_cookie` — for ALL endpoint lists / slot layouts / scripts: a dynamic update that stays `updated`
  leaves the running table, cookies included, equal to the table loaded from the written endpoints.  The plain
  `pair_sound` is the projection (`cookie_spec_implies_plain`) and the special case `ck = false`
  (`cookie_spec_off`).
* `pair_cookie_guard` — what the two preserve guards give (and why the theorem holds): under preserve a successful
  update never hands a server name to an endpoint whose cookie differs from the cookie of the old endpoint of that
  name; equivalently: a differing cookie ⇒ reload.
* witnesses (`decide`): without the guard of the loop that fills empty slots (seeded variant C02e) the running
  cookie differs from the written one; without preserve the code lets the cookie drift (by design — outside the
  statement, C11 demands "fits ⇒ no reload" there).

History form (full strength).  `pair_sound_cookie` compares the servers that take traffic; it is only inductive
over histories if the cookie HAProxy holds for every FREE slot is also the one in memory / on disk, because the
guard of the NEXT update compares with the in-memory value.  Since repair 91faf0b (`ep.CookieValue =
empty[i].CookieValue` in the loop that copies the remaining free slots) this holds: `pair_cookie_guard` speaks of
EVERY endpoint of the result, `pair_sound_cookie_all` is the table form with the free slots, and
`history_sound_cookie` lifts it to every sequence of accepted updates between two reloads (`Reach`).
Before the repair the copied slot got a NEW placeholder cookie: `free_slot_cookie_drift` (model of the old code,
`checkBackendPairOld`: two accepted updates under preserve, running cookie of an enabled server ≠ written cookie),
`free_slot_cookie_repaired` (the same history on the model of the code as it is: the second update reloads).
-/
namespace HapVerif.C02Cookie
open HapVerif.C02 HapVerif.C02Pair

/-! ## the guard -/

/-- **pair_cookie_guard** — under `preserve`, a successful dynamic update gives EVERY endpoint of the result (the
free slots carried over included) the cookie of the old endpoint whose server name it carries; for the enabled ones
this is the work of the two guards: a differing cookie ⇒ `updated = false` -/
theorem pair_cookie_guard (old cur : Back) (same : Bool) (sc : List Resp) (hr : cur.resolver = false)
    (hd : cur.dynUpdate = true) (hp : cur.cookiePreserve = true)
    (hE : AllEnabled cur.eps) (hN : namesNodup old.eps = true) :
    (checkBackendPair old cur same sc).updated = true →
    ∀ e ∈ (checkBackendPair old cur same sc).cur, ∃ o ∈ old.eps, o.name = e.name ∧ o.cookie = e.cookie := by
  apply cbp_cases old cur same sc
    (fun o => o.updated = true → ∀ e ∈ o.cur, ∃ o' ∈ old.eps, o'.name = e.name ∧ o'.cookie = e.cookie)
  · intro _ h; simp at h
  · intro _ hr'; rw [hr] at hr'; cases hr'
  · intro _ _ _ h; simp at h
  · intro _ _ hd'; rw [hd] at hd'; cases hd'
  · intro _ _ hd'; rw [hd] at hd'; cases hd'
  · intro _ _ _ _ h; simp at h
  · intro _ _ _ _ _ _ h; simp at h
  · intro hl _ _ hO hC s hs hu
    rw [hp] at hs
    exact pairLoop_cookie_all cur.initialWeight same sc hO (targets_nodup hC hE) ((namesNodup_iff old.eps).1 hN) hl s hs hu

/-- names of the result of an accepted update of a dynamic backend: a permutation of the old names -/
theorem dyn_names_perm (old cur : Back) (same : Bool) (sc : List Resp) (hr : cur.resolver = false)
    (hd : cur.dynUpdate = true) (hE : AllEnabled cur.eps) :
    (checkBackendPair old cur same sc).updated = true →
    ((checkBackendPair old cur same sc).cur.map (·.name)).Perm (old.eps.map (·.name)) := by
  apply cbp_cases old cur same sc (fun o => o.updated = true → (o.cur.map (·.name)).Perm (old.eps.map (·.name)))
  · intro _ h; simp at h
  · intro _ hr'; rw [hr] at hr'; cases hr'
  · intro _ _ _ h; simp at h
  · intro _ _ hd'; rw [hd] at hd'; cases hd'
  · intro _ _ hd'; rw [hd] at hd'; cases hd'
  · intro _ _ _ _ h; simp at h
  · intro _ _ _ _ _ _ h; simp at h
  · intro hl _ _ hO hC s hs _
    exact names_perm _ _ _ _ _ _ hO hC hE hl s hs

/-! ## running table = loaded table, cookies included -/

/-- general form: `ck` = the cookie column is compared; it may only be on when the backend has `preserve` -/
theorem pair_sound_cookie' (ck : Bool) (old cur : Back) (same : Bool) (sc : List Resp)
    (hck : ck = true → cur.cookiePreserve = true) (hr : cur.resolver = false)
    (hE : AllEnabled cur.eps) (hN : namesNodup old.eps = true) :
    (checkBackendPair old cur same sc).updated = true →
    sortNC (normC (tableC ck old.eps (checkBackendPair old cur same sc).cmds)) =
      sortNC (normC (loadC ck (checkBackendPair old cur same sc).cur)) := by
  apply cbp_cases old cur same sc
    (fun o => o.updated = true → sortNC (normC (tableC ck old.eps o.cmds)) = sortNC (normC (loadC ck o.cur)))
  · intro _ h; simp at h
  · intro _ hr'; rw [hr] at hr'; cases hr'
  · intro _ _ _ h; simp at h
  · intro _ _ _ _ _ h; simp at h
  · intro _ _ _ he hs
    simp only at hs
    simp [he hs, tableC]
  · intro _ _ _ _ h; simp at h
  · intro _ _ _ _ _ _ h; simp at h
  · intro hl _ _ hO hC s hs hu
    exact pairLoop_soundC ck cur.cookiePreserve hck cur.initialWeight same sc hO (targets_nodup hC hE)
      (all_enabled hE) ((namesNodup_iff old.eps).1 hN) hl s hs hu

/-- **pair_sound_cookie** — the C02 statement with the cookie column: whenever the backend renders cookies
(`aff`) and preserves them, a dynamic update whose commands were all accepted (`updated` stays true, `pair_fault`)
leaves the running table — cookies as loaded at the last reload included — equal to the table HAProxy would load
from the endpoints just written -/
theorem pair_sound_cookie (aff : Bool) (old cur : Back) (same : Bool) (sc : List Resp) (hr : cur.resolver = false)
    (hE : AllEnabled cur.eps) (hN : namesNodup old.eps = true) :
    (checkBackendPair old cur same sc).updated = true →
    sortNC (normC (tableC (cookieScope aff cur.cookiePreserve) old.eps (checkBackendPair old cur same sc).cmds)) =
      sortNC (normC (loadC (cookieScope aff cur.cookiePreserve) (checkBackendPair old cur same sc).cur)) :=
  pair_sound_cookie' _ old cur same sc (by unfold cookieScope; intro h; simp at h; exact h.2) hr hE hN

/-- **pair_sound_cookie_all** — full strength for one update: the cookie HAProxy holds for EVERY server, free
slots included, is the one on the server line just written (dynamic backends; the cookie column in scope) -/
theorem pair_sound_cookie_all (aff : Bool) (old cur : Back) (same : Bool) (sc : List Resp) (hr : cur.resolver = false)
    (hd : cur.dynUpdate = true) (hE : AllEnabled cur.eps) (hN : namesNodup old.eps = true) :
    (checkBackendPair old cur same sc).updated = true →
    sortNC (cookieRows (tableC (cookieScope aff cur.cookiePreserve) old.eps (checkBackendPair old cur same sc).cmds)) =
      sortNC (cookieRows (loadC (cookieScope aff cur.cookiePreserve) (checkBackendPair old cur same sc).cur)) := by
  apply cbp_cases old cur same sc
    (fun o => o.updated = true → sortNC (cookieRows (tableC (cookieScope aff cur.cookiePreserve) old.eps o.cmds)) =
      sortNC (cookieRows (loadC (cookieScope aff cur.cookiePreserve) o.cur)))
  · intro _ h; simp at h
  · intro _ hr'; rw [hr] at hr'; cases hr'
  · intro _ _ _ h; simp at h
  · intro _ _ hd'; rw [hd] at hd'; cases hd'
  · intro _ _ hd'; rw [hd] at hd'; cases hd'
  · intro _ _ _ _ h; simp at h
  · intro _ _ _ _ _ _ h; simp at h
  · intro hl _ _ hO hC s hs hu
    exact pairLoop_cookieRows _ cur.cookiePreserve (by unfold cookieScope; intro h; simp at h; exact h.2)
      cur.initialWeight same sc hO (targets_nodup hC hE) ((namesNodup_iff old.eps).1 hN) hl s hs hu

/-! ## history form -/

/-- the endpoint lists the controller can hold between two reloads of a backend with `preserve`: what the last
reload loaded (`b0.eps`), then any number of accepted dynamic updates, each starting from the result of the one
before (any current endpoints, any responses) -/
inductive Reach (b0 : Back) : List EP → Prop
  | reload : Reach b0 b0.eps
  | update (eps : List EP) (cur : Back) (same : Bool) (sc : List Resp) :
      Reach b0 eps → cur.resolver = false → cur.dynUpdate = true → cur.cookiePreserve = true → AllEnabled cur.eps →
      (checkBackendPair { b0 with eps := eps } cur same sc).updated = true →
      Reach b0 (checkBackendPair { b0 with eps := eps } cur same sc).cur

/-- invariant of `Reach`: the names are the loaded ones and every endpoint has the cookie HAProxy loaded for its name -/
theorem reach_inv (b0 : Back) (hN : namesNodup b0.eps = true) (eps : List EP) (h : Reach b0 eps) :
    (eps.map (·.name)).Perm (b0.eps.map (·.name)) ∧
    ∀ e ∈ eps, ∃ o ∈ b0.eps, o.name = e.name ∧ o.cookie = e.cookie := by
  induction h with
  | reload => exact ⟨List.Perm.refl _, fun e he => ⟨e, he, rfl, rfl⟩⟩
  | update eps cur same sc _ hr hd hp hE hu ih =>
    obtain ⟨ihP, ihC⟩ := ih
    have hNe : namesNodup eps = true := (namesNodup_iff eps).2 (ihP.nodup_iff.2 ((namesNodup_iff b0.eps).1 hN))
    refine ⟨(dyn_names_perm { b0 with eps := eps } cur same sc hr hd hE hu).trans ihP, ?_⟩
    intro e he
    obtain ⟨o, ho, hon, hoc⟩ := pair_cookie_guard { b0 with eps := eps } cur same sc hr hd hp hE hNe hu e he
    obtain ⟨o', ho', hon', hoc'⟩ := ihC o ho
    exact ⟨o', ho', hon'.trans hon, hoc'.trans hoc⟩

/-- **history_sound_cookie** — for every sequence of accepted dynamic updates since the last reload, and whatever
commands were sent meanwhile (`set server` cannot change a cookie), HAProxy holds for every server — free slots
included — the cookie of the server line the controller wrote last -/
theorem history_sound_cookie (b0 : Back) (hN : namesNodup b0.eps = true) (eps : List EP) (h : Reach b0 eps)
    (cmds : List Cmd) :
    sortNC (cookieRows (tableC true b0.eps cmds)) = sortNC (cookieRows (loadC true eps)) := by
  obtain ⟨hP, hC⟩ := reach_inv b0 hN eps h
  refine cookieRows_eq cmds ((namesNodup_iff b0.eps).1 hN) hP ?_
  intro e he
  obtain ⟨o, ho, hon, hoc⟩ := hC e he
  exact ⟨o, ho, hon, by simp [renderedCookie, hoc]⟩

/-- the cookie column of the running table is the loaded one, whatever was sent (`set server` has no cookie) -/
theorem running_cookies_are_loaded (ck : Bool) (old : List EP) (cmds : List Cmd) :
    (tableC ck old cmds).map (·.cookie) = (loadC ck old).map (·.cookie) := tableC_cookies ck old cmds

/-! ## the existing statement is the projection / the special case -/

theorem normC_drop (T : List SrvC) : (normC T).map dropCookie = norm (T.map (·.srv)) := by
  simp [normC, norm, List.map_map, Function.comp_def, dropCookie_normSrvC]

/-- the statement with cookies implies the statement without -/
theorem cookie_spec_implies_plain (ck : Bool) (old cur : List EP) (cmds : List Cmd)
    (hN : (old.map (·.name)).Nodup)
    (h : sortNC (normC (tableC ck old cmds)) = sortNC (normC (loadC ck cur))) :
    sortN (norm (cmds.foldl applyCmd (load old))) = sortN (norm (load cur)) := by
  have hp : (normC (tableC ck old cmds)).Perm (normC (loadC ck cur)) :=
    (sortNC_perm _).symm.trans ((h ▸ List.Perm.refl _ : (sortNC (normC (tableC ck old cmds))).Perm
      (sortNC (normC (loadC ck cur)))).trans (sortNC_perm _))
  have hp' := hp.map dropCookie
  rw [normC_drop, normC_drop, tableC_srv, loadC_srv] at hp'
  refine sortN_eq_of_perm hp' ?_
  rw [norm_keys]; show ((tbl old cmds).map (·.name)).Nodup
  rw [tbl_names]; exact hN

/-- a row without cookie, lifted -/
def liftRow (r : NRow) : RowC := (r.1, r.2.map fun x => (x.1, x.2.1, x.2.2, ""))

theorem normSrvC_off (s : SrvC) (h : s.cookie = "") : normSrvC s = liftRow (normSrv s.srv) := by
  unfold normSrvC normSrv liftRow
  cases s.srv.state <;> simp [h]

theorem normC_off_table (old : List EP) (cmds : List Cmd) :
    normC (tableC false old cmds) = (norm (tbl old cmds)).map liftRow := by
  rw [tableC_eq, tbl_eq]
  simp only [normC, norm, List.map_map]
  apply List.map_congr_left
  intro e _
  exact normSrvC_off _ rfl

theorem normC_off_load (cur : List EP) : normC (loadC false cur) = (norm (load cur)).map liftRow := by
  simp only [normC, norm, loadC, load, List.map_map]
  apply List.map_congr_left
  intro e _
  exact normSrvC_off _ rfl

/-- **special case**: with the cookie column off the new statement IS the existing one -/
theorem cookie_spec_off (old cur : List EP) (cmds : List Cmd) (hN : (old.map (·.name)).Nodup) :
    sortNC (normC (tableC false old cmds)) = sortNC (normC (loadC false cur)) ↔
    sortN (norm (cmds.foldl applyCmd (load old))) = sortN (norm (load cur)) := by
  refine ⟨cookie_spec_implies_plain false old cur cmds hN, fun h => ?_⟩
  have hp : (norm (tbl old cmds)).Perm (norm (load cur)) :=
    (sortN_perm _).symm.trans ((h ▸ List.Perm.refl _ : (sortN (norm (tbl old cmds))).Perm
      (sortN (norm (load cur)))).trans (sortN_perm _))
  rw [normC_off_table, normC_off_load]
  refine sortNC_eq_of_perm (hp.map liftRow) ?_
  have : ((norm (tbl old cmds)).map liftRow).map (·.1) = (norm (tbl old cmds)).map (·.1) := by
    simp [List.map_map, Function.comp_def, liftRow]
  rw [this, norm_keys, tbl_names]; exact hN

/-! ## through the executable oracle -/

/-- the cookie of every server for the branches of `checkBackendPair` without pairing loop (static backends) -/
theorem pair_sound_cookie_all' (ck : Bool) (old cur : Back) (same : Bool) (sc : List Resp)
    (hck : ck = true → cur.cookiePreserve = true) (hr : cur.resolver = false)
    (hE : AllEnabled cur.eps) (hN : namesNodup old.eps = true) :
    (checkBackendPair old cur same sc).updated = true →
    sortNC (cookieRows (tableC ck old.eps (checkBackendPair old cur same sc).cmds)) =
      sortNC (cookieRows (loadC ck (checkBackendPair old cur same sc).cur)) := by
  apply cbp_cases old cur same sc
    (fun o => o.updated = true → sortNC (cookieRows (tableC ck old.eps o.cmds)) = sortNC (cookieRows (loadC ck o.cur)))
  · intro _ h; simp at h
  · intro _ hr'; rw [hr] at hr'; cases hr'
  · intro _ _ _ h; simp at h
  · intro _ _ _ _ _ h; simp at h
  · intro _ _ _ he hs
    simp only at hs
    simp [he hs, tableC]
  · intro _ _ _ _ h; simp at h
  · intro _ _ _ _ _ _ h; simp at h
  · intro hl _ _ hO hC s hs hu
    exact pairLoop_cookieRows ck cur.cookiePreserve hck cur.initialWeight same sc hO (targets_nodup hC hE)
      ((namesNodup_iff old.eps).1 hN) hl s hs hu

/-- no clause of `oracleC` can fire on the model's outcome -/
theorem checkBackendPair_oracleC_none (aff : Bool) (old cur : Back) (same : Bool) (sc : List Resp)
    (hor : old.resolver = false) (hr : cur.resolver = false) (hE : AllEnabled cur.eps)
    (hN : namesNodup old.eps = true) (hNc : namesNodup cur.eps = true) :
    oracleC (cookieScope aff cur.cookiePreserve) old
      ((sc.take (checkBackendPair old cur same sc).cmds.length).all Resp.ok) (checkBackendPair old cur same sc) = none := by
  have h1 := checkBackendPair_oracle_none old cur same sc hor hr hE hN hNc
  have h2 := pair_sound_cookie aff old cur same sc hr hE hN
  have h3 := pair_sound_cookie_all' (cookieScope aff cur.cookiePreserve) old cur same sc
    (by unfold cookieScope; intro h; simp at h; exact h.2) hr hE hN
  unfold oracleC
  rw [h1]
  simp only [hor, Bool.or_false]
  cases hu : (checkBackendPair old cur same sc).updated with
  | false => simp
  | true => simp [h2 hu, h3 hu]

/-! ## examples and witnesses -/

/-- endpoint with an explicit cookie -/
def exc (n ip ck : String) (en : Bool) : EP :=
  { name := n, ip := ip, port := if en then 8080 else 1023, enabled := en, weight := 1, cookie := ck, label := "",
    tref := "", puid := 0 }

/-- backend with preserve -/
def exP (eps : List EP) : Back := ⟨eps, true, false, true, 1, 0⟩
/-- backend without preserve -/
def exN (eps : List EP) : Back := ⟨eps, true, false, false, 1, 0⟩

/-- one pod + one free slot, loaded by a reload (pod-uid strategy) -/
def uOld : List EP := [exc "srv001" "10.0.0.1" "uid-a" true, exc "srv002" "127.0.0.1" "srv002" false]
/-- scale up: a second pod (the converter names it srv002; its cookie is its uid) -/
def uCur : List EP := [exc "srv001" "10.0.0.1" "uid-a" true, exc "srv002" "10.0.0.2" "uid-b" true]

/-- non-vacuity of `pair_sound_cookie`: preserve, cookies rendered, the new endpoint's cookie IS the slot's
(server-name strategy): the hypotheses hold, the update is accepted with one command, the scope is on -/
example : (exP [exc "srv001" "10.0.0.1" "srv001" true, exc "srv002" "127.0.0.1" "srv002" false]).resolver = false ∧
    AllEnabled [exc "srv001" "10.0.0.1" "srv001" true, exc "srv002" "10.0.0.2" "srv002" true] ∧
    cookieScope true true = true ∧
    (checkBackendPair (exP [exc "srv001" "10.0.0.1" "srv001" true, exc "srv002" "127.0.0.1" "srv002" false])
      (exP [exc "srv001" "10.0.0.1" "srv001" true, exc "srv002" "10.0.0.2" "srv002" true]) true []).updated = true ∧
    (checkBackendPair (exP [exc "srv001" "10.0.0.1" "srv001" true, exc "srv002" "127.0.0.1" "srv002" false])
      (exP [exc "srv001" "10.0.0.1" "srv001" true, exc "srv002" "10.0.0.2" "srv002" true]) true []).cmds.length = 1 := by
  decide +kernel

/-- the guard at work: preserve + pod-uid, the scale-up fits in the free slot, and is NOT applied dynamically -/
theorem preserve_differing_cookie_reloads :
    (checkBackendPair (exP uOld) (exP uCur) true []).updated = false ∧
    (checkBackendPair (exP uOld) (exP uCur) true []).cmds = [] := by decide +kernel

/-- **seeded variant C02e** (guard of the loop that fills empty slots gone): the same scale-up is applied
dynamically — one `enable`, `updated` stays true — and the running server srv002 keeps the cookie it was loaded
with (`srv002`) while the written server line says `cookie uid-b` -/
theorem seeded_no_slot_guard_diverges :
    (pairLoopNoSlotGuard uOld uCur true 1 true []).map (fun s => (s.updated, s.cmds.length)) = some (true, 1) ∧
    (pairLoopNoSlotGuard uOld uCur true 1 true []).map (fun s =>
      decide (sortNC (normC (tableC true uOld s.cmds)) = sortNC (normC (loadC true s.cur)))) = some false ∧
    (pairLoopNoSlotGuard uOld uCur true 1 true []).map (fun s =>
      ((tableC true uOld s.cmds).map (fun r => (r.srv.name, r.cookie)),
       (loadC true s.cur).map (fun r => (r.srv.name, r.cookie)))) =
      some ([("srv001", "uid-a"), ("srv002", "srv002")], [("srv001", "uid-a"), ("srv002", "uid-b")]) ∧
    -- … although the plain columns agree: the existing Spec cannot see it
    (pairLoopNoSlotGuard uOld uCur true 1 true []).map (fun s =>
      decide (sortN (norm (s.cmds.foldl applyCmd (load uOld))) = sortN (norm (load s.cur)))) = some true := by
  decide +kernel

/-- the `oracleC` clause on that outcome -/
theorem seeded_no_slot_guard_oracle :
    (pairLoopNoSlotGuard uOld uCur true 1 true []).map (fun s =>
      oracleC (cookieScope true true) (exP uOld) true ⟨s.updated, s.cur, s.cmds, false⟩) =
    some (some "running-cookie-differs-from-disk") := by decide +kernel

/-- without `preserve` the code lets the cookie drift on purpose (comment in `AddEmptyEndpoint`): were the column
compared whenever it is rendered, the unchanged code would not satisfy it — hence `cookieScope` -/
theorem cookie_drifts_without_preserve :
    (checkBackendPair (exN uOld) (exN uCur) true []).updated = true ∧
    sortNC (normC (tableC true uOld (checkBackendPair (exN uOld) (exN uCur) true []).cmds)) ≠
      sortNC (normC (loadC true (checkBackendPair (exN uOld) (exN uCur) true []).cur)) ∧
    oracleC (cookieScope true false) (exN uOld) true (checkBackendPair (exN uOld) (exN uCur) true []) = none := by
  decide +kernel

/-! ### before repair 91faf0b: carried-over free slots got a new placeholder cookie -/

/-- after a reload: two pods and one free slot, server-name strategy (cookie = server name), preserve -/
def dOld : List EP := [exc "srv001" "10.0.0.1" "srv001" true, exc "srv002" "10.0.0.2" "srv002" true,
  exc "srv003" "127.0.0.1" "srv003" false]
/-- step 1: the second pod goes away -/
def dCur1 : List EP := [exc "srv001" "10.0.0.1" "srv001" true]
/-- step 2: a new pod; the converter names it srv002 and gives it the cookie srv002 -/
def dCur2 : List EP := [exc "srv001" "10.0.0.1" "srv001" true, exc "srv002" "10.0.0.3" "srv002" true]

/-- step 1 of the history, on the model of the code BEFORE the repair -/
def dStep1 : Outcome := checkBackendPairOld (exP dOld) (exP dCur1) true []
/-- step 2: the old backend is the result of step 1 -/
def dStep2 : Outcome := checkBackendPairOld (exP dStep1.cur) (exP dCur2) true []

/-- **free_slot_cookie_drift** (old code) — both updates are accepted under preserve (one `disable`, one `enable`),
and still: the free slots written by step 1 carry exchanged placeholder cookies (`srv003 … cookie srv002`,
`srv002 … cookie srv003`) while HAProxy holds srv003/srv003 and srv002/srv002; step 2 compares the new endpoint's
cookie `srv002` with the in-memory value of slot srv003 (`srv002`), enables srv003, and the running server srv003
answers with cookie `srv003` although the written line says `cookie srv002` -/
theorem free_slot_cookie_drift :
    dStep1.updated = true ∧ dStep1.cmds = [.disable "srv002"] ∧
    dStep1.cur.map (fun e => (e.name, e.enabled, e.cookie)) =
      [("srv001", true, "srv001"), ("srv003", false, "srv002"), ("srv002", false, "srv003")] ∧
    dStep2.updated = true ∧ dStep2.cmds = [.enable "srv003" "10.0.0.3" 8080 1] ∧
    -- running table after both updates (loaded from `dOld` at the last reload) vs. the written endpoints
    sortNC (normC (tableC true dOld (dStep1.cmds ++ dStep2.cmds))) ≠ sortNC (normC (loadC true dStep2.cur)) := by
  refine ⟨?_, ?_, ?_, ?_, ?_, ?_⟩ <;> decide +kernel

/-- the two cookies of srv003 after step 2: as HAProxy loaded it / as written -/
theorem free_slot_cookie_drift_values :
    ((tableC true dOld (dStep1.cmds ++ dStep2.cmds)).filter (fun r => r.srv.name = "srv003")).map (·.cookie) = ["srv003"] ∧
    ((loadC true dStep2.cur).filter (fun r => r.srv.name = "srv003")).map (·.cookie) = ["srv002"] := by
  refine ⟨?_, ?_⟩ <;> decide +kernel

/-- in the old code each step alone met the statement about the servers that take traffic; the clause about EVERY
server (`free-slot-cookie-differs-from-disk`) already fails after step 1 -/
theorem free_slot_cookie_drift_steps :
    sortNC (normC (tableC true dOld dStep1.cmds)) = sortNC (normC (loadC true dStep1.cur)) ∧
    sortNC (normC (tableC true dStep1.cur dStep2.cmds)) = sortNC (normC (loadC true dStep2.cur)) ∧
    sortNC (cookieRows (tableC true dOld dStep1.cmds)) ≠ sortNC (cookieRows (loadC true dStep1.cur)) := by
  refine ⟨?_, ?_, ?_⟩ <;> decide +kernel

/-- the same history on the model of the code as it is: the free slots keep their cookies, the third pod's cookie
`srv002` is compared with what HAProxy holds for slot srv003 (`srv003`) and the update RELOADS -/
theorem free_slot_cookie_repaired :
    (checkBackendPair (exP dOld) (exP dCur1) true []).updated = true ∧
    (checkBackendPair (exP dOld) (exP dCur1) true []).cur.map (fun e => (e.name, e.enabled, e.cookie)) =
      [("srv001", true, "srv001"), ("srv003", false, "srv003"), ("srv002", false, "srv002")] ∧
    (checkBackendPair (exP (checkBackendPair (exP dOld) (exP dCur1) true []).cur) (exP dCur2) true []).updated = false ∧
    (checkBackendPair (exP (checkBackendPair (exP dOld) (exP dCur1) true []).cur) (exP dCur2) true []).cmds = [] := by
  refine ⟨?_, ?_, ?_, ?_⟩ <;> decide +kernel

/-- non-vacuity of `history_sound_cookie`: a reload, then an accepted update (the pod goes away) -/
example : Reach (exP dOld) (checkBackendPair (exP dOld) (exP dCur1) true []).cur :=
  Reach.update dOld (exP dCur1) true [] Reach.reload rfl rfl rfl (by decide) (by decide +kernel)

/-! ## facts regenerated from the Go sources / the template on every run -/

/-- what the model of the cookie column rests on: the placeholder cookie of a free slot (`mkEmpty`), when a server
line carries `cookie <CookieValue>` (`renderedCookie`: the same with and without preserve), and the two preserve
guards of the dynamic update (`checkEndpointPair`, `addedStep`) -/
theorem facts_c02_cookie :
    Facts.c02EmptyCookieIsName = true ∧
    Facts.c02CookieAffinity = "!b.ModeTCP && b.Cookie.Name != \"\" && !b.Cookie.Dynamic" ∧
    Facts.c02TmplServerCookieCond = "and ($backend.CookieAffinity) ($ep.CookieValue)" ∧
    Facts.c02PreserveGuardSlots = ["curBack.Cookie.Preserve && added[i].CookieValue != empty[i].CookieValue"] ∧
    Facts.c02PreserveGuardPair = ["backend.Cookie.Preserve && pair.old.CookieValue != pair.cur.CookieValue"] := by
  decide

end HapVerif.C02Cookie
