import HapVerif.Model.C02
import HapVerif.Generated.CodeC02
/-!
# C02 — tie between the model and the source (`cmdResponseOK`)

`HapVerif.CodeC02.cmdResponseOK` is REGENERATED on every run from `pkg/haproxy/dynupdate.go`.
The model's `setServerOK` (what decides whether a `set server` answer keeps the update dynamic) is that
function at `cmd = "set server"`; any other command word than the two the updater sends panics (`none`).
-/
namespace HapVerif.C02Tie
open HapVerif

theorem setServerOK_tie (response : String) :
    CodeC02.cmdResponseOK "set server" response = some (C02.setServerOK response) := by
  simp [CodeC02.cmdResponseOK, C02.setServerOK, GoLib.hasPrefix, Bool.or_assoc]

/-- the certificate path: `commit ssl cert` is accepted iff the answer contains `Success` -/
theorem commitCertOK_tie (response : String) :
    CodeC02.cmdResponseOK "commit ssl cert" response = some (GoLib.contains response "Success") := by
  simp [CodeC02.cmdResponseOK]

/-- every other command word is a programming error (Go panics) -/
theorem otherCmd_panics (cmd response : String) (h1 : cmd ≠ "set server") (h2 : cmd ≠ "commit ssl cert") :
    CodeC02.cmdResponseOK cmd response = none := by
  simp [CodeC02.cmdResponseOK, h1, h2]

example : CodeC02.cmdResponseOK "set server" "IP changed from '10.0.0.1' to '10.0.0.2'" = some true := by decide +kernel
example : CodeC02.cmdResponseOK "set server" "No such server." = some false := by decide +kernel
example : CodeC02.cmdResponseOK "commit ssl cert" "Committing /x.pem.\nSuccess!" = some true := by decide +kernel

end HapVerif.C02Tie
