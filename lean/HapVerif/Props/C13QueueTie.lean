import HapVerif.Props.C12Tie
/-!
# C13 — the reload queue is the only way to a reload when it is configured (translated `HAProxyUpdate`)

`--reload-interval > 0` gives the instance a reload queue whose limiter spaces the reloads (Model/Props C13 are
about that limiter and the queue).  The spacing only holds if EVERY reload of `HAProxyUpdate` goes through the queue:
a reload done directly is unknown to the limiter, which then grants the next one at once (seed C13h reloaded directly
until HAProxy was up).  These theorems are about the REGENERATED `CodeC12.haproxyUpdate` (pkg/haproxy/instance.go),
for every oracle and every instance state.
-/
namespace HapVerif.C13QueueTie
open HapVerif HapVerif.GoLib HapVerif.C12Tie

/-- **with a reload queue, `HAProxyUpdate` never reloads directly** — whatever is up, owed, failing or changed -/
theorem queue_never_direct (env : Env) (i : InstView) (hq : i.hasReloadQueue = true) :
    (run env i).2.1.count "Reload" = 0 := by
  by_cases h : i.configNil = true
  · unfold run CodeC12.haproxyUpdate; simp [h]
  · have h' : i.configNil = false := by simpa using h
    unfold_skel
    simp only [h', hq, Bool.false_eq_true, ↓reduceIte]
    skel env i => rfl

/-- and without one every needed reload is a direct one (the queue is never touched) -/
theorem no_queue_never_enqueues (env : Env) (i : InstView) (hq : i.hasReloadQueue = false) :
    (run env i).2.1.count "ReloadQueue.Add" = 0 := by
  by_cases h : i.configNil = true
  · unfold run CodeC12.haproxyUpdate; simp [h]
  · have h' : i.configNil = false := by simpa using h
    unfold_skel
    simp only [h', hq, Bool.false_eq_true, ↓reduceIte]
    skel env i => rfl

end HapVerif.C13QueueTie
