import HapVerif.Model.C04
import HapVerif.Generated.CodeC04
/-!
# C04 — tie between the model and the source (`overlaps`)

`HapVerif.CodeC04.overlaps` is REGENERATED on every run from `pkg/haproxy/types/maps.go`.  The model's
`C04.overlaps` (which decides where priority files are created — every layout theorem of C04 depends on it)
is that function on the model's entries (which have no regex match type: regex paths are outside the model).
-/
namespace HapVerif.C04Tie
open HapVerif

def mtView : C04.MT → GoLib.MatchType
  | .exact => .exact
  | .pfx => .pfx
  | .beg => .beg

/-- a model entry as `overlaps` sees the Go `HostsMapEntry` -/
def view (e : C04.Entry) : GoLib.MapEntry := { mt := mtView e.mt, path := e.path }

theorem lower_eq (s : C04.Str) : GoLib.toLower s = C04.lower s := by
  simp only [GoLib.toLower, C04.lower]
  congr 1

theorem mtView_ne (a b : C04.MT) : (mtView a != mtView b) = decide (a ≠ b) := by
  cases a <;> cases b <;> decide

theorem overlaps_tie (e1 e2 : C04.Entry) :
    CodeC04.overlaps (view e1) (view e2) = C04.overlaps e1 e2 := by
  have hl1 := lower_eq e1.path
  have hl2 := lower_eq e2.path
  cases h1 : e1.mt <;> cases h2 : e2.mt <;>
    simp [CodeC04.overlaps, C04.overlaps, view, mtView, h1, h2, GoLib.hasPrefix, hl1, hl2, bne, show
      ∀ a b : GoLib.MatchType, (a == b) = decide (a = b) from fun a b => by cases a <;> cases b <;> decide] <;>
    (by_cases hp : e1.path = e2.path <;> simp [hp])

/-- non-vacuity: `/app/sub` (begin) over `/App` (prefix) overlap — the case-folding repair 612207c -/
example : CodeC04.overlaps { mt := .beg, path := "/app/sub".toList } { mt := .pfx, path := "/App".toList } = true := by
  decide

/-- **the map builder keeps exactly the path-type order it is given**: `CreateMaps` neither reorders nor filters
it (the exact-first rule is applied later, by `rebuildMatchFiles`, on a copy).  The translation has value semantics:
a version of `CreateMaps` that WRITES to its argument — the slice `global.MatchOrder` every later builder receives —
does not translate (index loops / slice surgery are outside the subset), so this obligation breaks; the
correspondence run then uses one shared order slice for all cases, as the controller does (seed C04f). -/
theorem createMaps_tie (order : List GoLib.MatchType) : (CodeC04.createMaps order).matchOrder = order := rfl

end HapVerif.C04Tie
