import HapVerif.Model.C14
import HapVerif.Generated.CodeC14
/-!
# C14 — tie between the model and the source (`appenddedup`, `compose`, `notify`)

`HapVerif.CodeC14.*` are REGENERATED on every run from `pkg/controller/reconciler/watchers.go`.
The theorems state what every accepted event does to the batch under construction, whatever the batch already
holds: `compose` records the tracking link AND the change description (de-duplicated, nothing else changes,
no early exit), `notify` enqueues exactly one item carrying the handler's full-sync flag and raises
`NeedFullSync` only for full-sync kinds — the steps `C14.apply` / `C14.onEvent` of the model perform.
-/
namespace HapVerif.C14Tie
open HapVerif HapVerif.GoLib

theorem loop_noret (slice : List String) (s : String) (h : s ∉ slice) :
    GoLib.forRange (ρ := List String) slice () (fun item _ =>
      if (item == s) then GoLib.Step.ret slice' else GoLib.Step.next ()) = .done () := by
  induction slice with
  | nil => rfl
  | cons a l ih =>
    have ha : (a == s) = false := by
      have : a ≠ s := fun e => h (e ▸ List.mem_cons_self ..)
      simpa using this
    simp only [GoLib.forRange, ha, Bool.false_eq_true, if_false]
    exact ih (fun hm => h (List.mem_cons_of_mem _ hm))

theorem loop_ret (slice : List String) (s : String) (r : List String) (h : s ∈ slice) :
    GoLib.forRange (ρ := List String) slice () (fun item _ =>
      if (item == s) then GoLib.Step.ret r else GoLib.Step.next ()) = .ret r := by
  induction slice with
  | nil => cases h
  | cons a l ih =>
    by_cases ha : a = s
    · simp [GoLib.forRange, ha]
    · have ha' : (a == s) = false := by simpa using ha
      simp only [GoLib.forRange, ha', Bool.false_eq_true, if_false]
      rcases List.mem_cons.mp h with rfl | hm
      · exact absurd rfl ha
      · exact ih hm

/-- `appenddedup` is the model's `appendDedup` -/
theorem appenddedup_tie (slice : List String) (s : String) :
    CodeC14.appenddedup slice s = C14.appendDedup slice s := by
  unfold CodeC14.appenddedup C14.appendDedup
  by_cases h : s ∈ slice
  · rw [loop_ret slice s slice h]; simp [h]
  · rw [loop_noret (slice' := slice) slice s h]; simp [h, GoLib.append1]

/-- the name `compose` builds: `h.name(obj)` when the handler has a naming closure, else the object's name,
prefixed by the namespace when there is one -/
def fullnameOf (h : HdlrView) (obj : ObjView) : String :=
  let n := if h.hasName then h.name obj else obj.name
  if obj.ns != "" then obj.ns ++ "/" ++ n else n

/-- **`compose` always records both parts of an event**: the link list of the handler's resource gets the
full name, the object list gets `<ev>/<res>:<fullname>`, both de-duplicated — unconditionally (no state of the
batch, e.g. a full sync already being owed, suppresses it: seed C14e) -/
theorem compose_tie (h : HdlrView) (links objects : List String) (ev : String) (obj : ObjView) :
    CodeC14.compose h links objects ev obj =
      (C14.appendDedup links (fullnameOf h obj),
       C14.appendDedup objects (ev ++ "/" ++ h.res ++ ":" ++ fullnameOf h obj)) := by
  unfold CodeC14.compose fullnameOf
  cases hn : h.hasName <;> by_cases hns : (obj.ns != "") = true <;>
    simp [hn, hns, appenddedup_tie, GoLib.sprintfEvResName, GoLib.add, String.append_assoc]

/-- `notify`: exactly one queue item with the handler's flag; `NeedFullSync` is raised iff the kind asks for it
and never lowered -/
theorem notify_tie (h : HdlrView) (need : Bool) (fx : List Bool) (event : String) (o : ObjView) :
    CodeC14.notify h need fx event o = (need || h.full, fx ++ [h.full]) := by
  unfold CodeC14.notify
  cases hf : h.full <;> simp [hf, GoLib.enqueue]

/-- non-vacuity -/
example : CodeC14.compose ⟨"Ingress", false, false, fun o => o.name⟩ ["d/i1"] ["add/Ingress:d/i1"] "update" ⟨"d", "i2"⟩
    = (["d/i1", "d/i2"], ["add/Ingress:d/i1", "update/Ingress:d/i2"]) := by decide +kernel

/-! ## the informer callbacks: one critical section per event -/

/-- **`Create` / `Update` / `Delete`: the per-kind closure (the list entry), `compose` (link + description) and
`notify` all happen between ONE `Lock` and the deferred `Unlock`**, in this order — the atomic step `C14.onEvent` of the
model (seed C14b moved the closure out of the critical section) -/
theorem handlers_tie (h : HdlrCbView) :
    CodeC14.handlerCreate h [] =
      ["Lock"] ++ (if h.hasAdd then ["callback:add"] else []) ++ ["compose:add", "notify:create", "Unlock"] ∧
    CodeC14.handlerUpdate h [] =
      ["Lock"] ++ (if h.hasUpd then ["callback:upd"] else []) ++ ["compose:update", "notify:update", "Unlock"] ∧
    CodeC14.handlerDelete h [] =
      ["Lock"] ++ (if h.hasDel then ["callback:del"] else []) ++ ["compose:del", "notify:delete", "Unlock"] := by
  obtain ⟨a, u, d⟩ := h
  cases a <;> cases u <;> cases d <;> decide

/-- `Generic` (a resync request): full sync owed, one notification, no description -/
theorem generic_tie (h : HdlrCbView) (need : Bool) :
    CodeC14.handlerGeneric h need [] = (true, ["Lock", "notify:generic", "Unlock"]) := by
  rfl

end HapVerif.C14Tie
