import HapVerif.Model.C04Filt
import HapVerif.Lemmas.C04Filt
import HapVerif.Props.C04
/-!
# C04 — rules that carry a header filter: the producers of the filter and the filter part of `rebuildMatchFiles`

Model: `HapVerif.C04.rebuildF` (maps.go `rebuildMatchFiles` with `hasFilter()` = `headers != nil`, `equals` =
DeepEqual, the pre-sort comparator branch `e1.hasFilter()`, the single-entry case, `listWithFilters` pushed to the
front), `lookupFilesF` (haproxy.tmpl `httpFilters`: a file with a non-empty `Headers()` answers only when the
request satisfies every condition), the producers `gatewayHeaders` (gateway.go `createHTTPHosts`) and
`ingressHeaders` (ingress.go `addHeaderMatch`), `feedOrder` (config.go `WriteFrontendMaps`).

Domain.  Property C04 quantifies over rule sets of types exact / prefix / begin.  A rule whose declared list of
header conditions is EMPTY (field absent, or `headers: []`) is such a rule.  A rule with a real (non-empty) header
condition is a fourth kind of rule the property says nothing about: it is part of the input (it must neither
answer a request that does not carry the headers nor change the winner among the other rules), but requests that
carry headers satisfying such a condition are outside the quantifier (upstream design: "with-filters need to be
processed before without-filters"); see "observations outside the quantifier" at the end.

Theorems (every rule list, every host iteration order, every path-type order):
* `gateway_headers_nil_iff`, `ingress_headers_nil_iff` — the producers give a nil filter iff the declared list is
  empty (absent or `[]`); otherwise a non-nil, non-empty one (`produce_filtered`).
* `no_filter_reduces` — without filters `rebuildF` is `rebuild` (so every theorem of Props/C04.lean applies).
* `rebuildF_filters_first`, `lookup_filters_first` — in general `rebuildF` = the filter files ++ `rebuild` of the
  entries without filter; a lookup is the lookup in the filter files, else the filter-less lookup.
* `unfiltered_lookup_spec` — a rule set none of whose rules declares a real header (HTTPRoute or Ingress): every
  request, whatever headers it carries, obeys exact-else-longest (from `no_filter_reduces`,
  `gateway_headers_nil_iff` and `lookup_spec`, T4 of Props/C04.lean).
* `noheader_lookup_unchanged` — a request without headers is answered exactly as if the rules with filter were not
  there; `noheader_lookup_spec_partial` — hence exact-else-longest over the rules without filter.
-/
namespace HapVerif.C04
open List

def hm (n v : String) (rx : Bool := false) : HMatch := ⟨n.toList, v.toList, rx⟩
def fr (h p : String) (mt : MT) (t : Nat) (decl : Option (List HMatch)) : FRule := ⟨r h p mt t, decl⟩

/-! ## the producers -/

/-- **(b)** gateway.go `createHTTPHosts`: the filter handed to the map is nil iff the match declares no header
condition — `headers` absent (`none`) or `headers: []` (`some []`) -/
theorem gateway_headers_nil_iff (decl : Option (List HMatch)) :
    gatewayHeaders decl = none ↔ decl.getD [] = [] := by
  constructor
  · intro h
    cases hl : decl.getD [] with
    | nil => rfl
    | cons a l =>
      have := (produce_filtered (p := .gateway) (decl := decl) (by rw [hl]; exact cons_ne_nil a l) (by decide)).1
      simp only [produce] at this
      rw [h] at this; exact absurd this (by decide)
  · intro h; exact produce_unfiltered (p := .gateway) h (by decide)

/-- the same for the ingress converter (annotations `http-header-match`, `http-header-match-regex`) -/
theorem ingress_headers_nil_iff (decl : Option (List HMatch)) :
    ingressHeaders decl = none ↔ decl.getD [] = [] := by
  constructor
  · intro h
    cases hl : decl.getD [] with
    | nil => rfl
    | cons a l =>
      have := (produce_filtered (p := .ingress) (decl := decl) (by rw [hl]; exact cons_ne_nil a l) (by decide)).1
      simp only [produce] at this
      rw [h] at this; exact absurd this (by decide)
  · intro h; exact produce_unfiltered (p := .ingress) h (by decide)

/-- a declared non-empty list gives a non-nil, non-empty filter: both producers never emit the empty non-nil
slice that `hasFilter()` would take for a filter -/
theorem produce_never_empty_filter {p : Producer} (hp : p ≠ .seeded) (decl : Option (List HMatch)) :
    produce p decl ≠ some [] := by
  by_cases h : decl.getD [] = []
  · rw [produce_unfiltered h hp]; intro e; cases e
  · exact (produce_filtered h hp).2

example : gatewayHeaders none = none ∧ gatewayHeaders (some []) = none ∧
    gatewayHeaders (some [hm "x-a" "v1"]) = some [hm "x-a" "v1"] ∧
    ingressHeaders (some [hm "x-a" "v1" true, hm "x-b" "v2"]) = some [hm "x-b" "v2", hm "x-a" "v1" true] := by
  decide +kernel

/-- the seeded variant C04e differs exactly on `headers: []` -/
theorem seeded_differs_on_empty_list :
    gatewayHeadersSeeded (some []) = some [] ∧ gatewayHeaders (some []) = none ∧
    gatewayHeadersSeeded none = gatewayHeaders none ∧
    gatewayHeadersSeeded (some [hm "x-a" "v1"]) = gatewayHeaders (some [hm "x-a" "v1"]) := by decide +kernel

/-! ## (a) without filters the extended model is the filter-less model -/

theorem no_filter_unfE {es : List FEntry} (h : ∀ x ∈ es, x.headers = none) : unfE es = es.map (·.e) :=
  unfE_all_unf es (fun x hx => by simp [FEntry.hasFilter, h x hx])

/-- **(a)** when no entry has a filter, `rebuildF` is `rebuild` on the same entries (all files without header
condition) -/
theorem no_filter_reduces (mo : List MT) (es : List FEntry) (π : List Str) (h : ∀ x ∈ es, x.headers = none) :
    rebuildF mo es π = (rebuild mo (es.map (·.e)) π).map plain := by
  have hf : ∀ x ∈ es, x.hasFilter = false := fun x hx => by simp [FEntry.hasFilter, h x hx]
  obtain ⟨e, inv⟩ := rebuildFV_split (v := current) pathGt_strict pathGt_negTrans mo es π
    (fun x _ _ y hy hyf => by rw [hf y hy] at hyf; exact absurd hyf (by decide))
    (fun x hx hxf => by rw [hf x hx] at hxf; exact absurd hxf (by decide))
  have hnil : (buildF current es π).fl = [] := by
    cases hfl : (buildF current es π).fl with
    | nil => rfl
    | cons f fs =>
      have hf1 := inv f (by rw [hfl]; exact mem_cons_self)
      cases hen : f.entries with
      | nil => exact absurd hen hf1.1
      | cons x xs =>
        obtain ⟨h1, h2⟩ := (hf1.2 x (by rw [hen]; exact mem_cons_self)).1
        rw [hf x h1] at h2
        exact absurd h2 (by decide)
  unfold rebuildF rebuild
  rw [e, hnil, no_filter_unfE h]
  rfl

example : rebuildF [.exact, .pfx, .beg] (entriesOfF .gateway [fr "h" "/login" .exact 0 none, fr "h" "/" .pfx 1 (some [])]) ["h".toList] =
    (rebuild [.exact, .pfx, .beg] (entriesOf [r "h" "/login" .exact 0, r "h" "/" .pfx 1]) ["h".toList]).map plain ∧
    (rebuildF [.exact, .pfx, .beg] (entriesOfF .gateway [fr "h" "/login" .exact 0 none, fr "h" "/" .pfx 1 (some [])]) ["h".toList]).length = 2 := by
  decide +kernel

/-! ## the general shape: filter files first -/

/-- `rebuildF` = one file per (path type, filter) for the entries with filter, in front of the layout the
filter-less model gives for the other entries.  Hypotheses: insertion indices are unique; every host that has an
entry with filter is iterated (Go iterates all keys of `rawhosts`). -/
theorem rebuildF_filters_first (mo : List MT) (es : List FEntry) (π : List Str)
    (hnd : (es.map (·.e.order)).Nodup) (hπ : ∀ x ∈ es, x.hasFilter = true → x.e.host ∈ π) :
    rebuildF mo es π = flFiles (buildF current es π).fl ++ (rebuild mo (unfE es) π).map plain ∧
      ∀ f ∈ flFiles (buildF current es π).fl, ∃ x ∈ es, x.hasFilter = true ∧ f.headers = x.headers := by
  obtain ⟨e, inv⟩ := rebuildFV_split (v := current) pathGt_strict pathGt_negTrans mo es π (sep_of_nodup hnd) hπ
  refine ⟨e, fun f hf => ?_⟩
  obtain ⟨g, hg, rfl⟩ := mem_map.1 hf
  obtain ⟨hne, hall⟩ := inv g hg
  cases hen : g.entries with
  | nil => exact absurd hen hne
  | cons x xs =>
    have := hall x (by rw [hen]; exact mem_cons_self)
    exact ⟨x, this.1.1, this.1.2, this.2.symm⟩

/-- the frontend asks the filter files first (each only when the request satisfies its conditions), then does the
filter-less lookup -/
theorem lookup_filters_first (mo : List MT) (es : List FEntry) (π : List Str)
    (hnd : (es.map (·.e.order)).Nodup) (hπ : ∀ x ∈ es, x.hasFilter = true → x.e.host ∈ π)
    (sat : HMatch → Bool) (s : Str) :
    lookupFilesF sat (rebuildF mo es π) s =
      (lookupFilesF sat (flFiles (buildF current es π).fl) s).or (lookupFiles (rebuild mo (unfE es) π) s) := by
  rw [(rebuildF_filters_first mo es π hnd hπ).1, lookupFilesF_append, lookupFilesF_plain]

/-! ## (c) rule sets without real header conditions -/

theorem applicable_unfiltered {rules : List FRule} (hd : ∀ r ∈ rules, r.conds = []) (sat : HMatch → Bool) :
    applicable rules sat = rules.map (·.rule) := by
  unfold applicable
  rw [filter_eq_self.2]
  intro r hr
  simp [FRule.applies, hd r hr]

theorem checkReq_eq_judge (rules : List Rule) (fs : List MFile) (h q : Str) :
    checkReq rules fs h q = judge rules (lookupFiles fs (sampleOf h q)) h q := rfl

/-- **(c)** for any HTTPRoute (or Ingress) rule set all of whose matches declare no real header — `headers`
absent or `[]` — every request, whatever headers it carries (`sat` arbitrary), is answered by the exact rule
equal to the path if there is one, otherwise by a matching rule of maximal declared length.  Uses
`no_filter_reduces`, `gateway_headers_nil_iff` (through `produce_unfiltered`) and `lookup_spec` (T4). -/
theorem unfiltered_lookup_spec {p : Producer} (hp : p ≠ .seeded) {rules : List FRule}
    (hd : ∀ r ∈ rules, r.conds = []) (wf : WF (rules.map (·.rule)) = true) {π : List Str}
    (hπ : HostOrderOK (entriesOf (rules.map (·.rule))) π) {mo : List MT} (hmo : mo.Perm [.exact, .pfx, .beg])
    {h q : Str} (rq : WFReq h q = true) (sat : HMatch → Bool) :
    checkReqF rules sat (rebuildF mo (entriesOfF p rules) π) h q = none := by
  have hnone : ∀ x ∈ entriesOfF p rules, x.headers = none := by
    intro x hx
    obtain ⟨r', hr, i, rfl⟩ := mem_entriesOfF hx
    exact produce_unfiltered (hd r' hr) hp
  unfold checkReqF
  rw [no_filter_reduces mo _ π hnone, lookupFilesF_plain, applicable_unfiltered hd, entriesOfF_map_e,
    ← checkReq_eq_judge]
  exact lookup_spec wf hπ hmo rq

/-- `headers: []` next to rules without the field, both converters, a request carrying headers -/
def loginRules : List FRule :=
  [fr "app.local" "/login" .exact 0 none, fr "app.local" "/api" .pfx 1 none, fr "app.local" "/" .pfx 2 (some [])]

example : checkReqF loginRules (reqSat [("x-a".toList, "v1".toList)])
    (rebuildF [.exact, .pfx, .beg] (entriesOfF .gateway loginRules) ["app.local".toList])
    "app.local".toList "/login".toList = none :=
  unfiltered_lookup_spec (p := .gateway) (rules := loginRules) (by decide) (by decide) (by decide +kernel)
    (hostOrder_of_perm (by decide +kernel)) (by decide) (by decide +kernel) _

example : lookupFilesF noHeaders (rebuildF [.exact, .pfx, .beg] (entriesOfF .gateway loginRules) ["app.local".toList])
      (sampleOf "app.local".toList "/login".toList) = some 0 ∧
    lookupFilesF noHeaders (rebuildF [.exact, .pfx, .beg] (entriesOfF .ingress loginRules) ["app.local".toList])
      (sampleOf "app.local".toList "/api/v1".toList) = some 1 := by decide +kernel

/-- **the seeded defect C04e** (`headers: []` ↦ empty non-nil filter): the same rule set, no rule has a header
condition, a request without headers: `/login` is answered by Prefix `/` instead of the Exact rule, `/api/v1` by
`/` instead of the longer `/api` — the file of `/` is pushed in front of the exact file -/
theorem seeded_breaks_exact_first :
    checkReqF loginRules noHeaders (rebuildF [.exact, .pfx, .beg] (entriesOfF .seeded loginRules) ["app.local".toList])
      "app.local".toList "/login".toList = some "exact-not-selected" ∧
    checkReqF loginRules noHeaders (rebuildF [.exact, .pfx, .beg] (entriesOfF .seeded loginRules) ["app.local".toList])
      "app.local".toList "/api/v1".toList = some "shorter-path-wins" ∧
    (rebuildF [.exact, .pfx, .beg] (entriesOfF .seeded loginRules) ["app.local".toList]).map (·.headers) =
      [some [], none, none] ∧
    checkReqF loginRules noHeaders (rebuildF [.exact, .pfx, .beg] (entriesOfF .gateway loginRules) ["app.local".toList])
      "app.local".toList "/login".toList = none := by decide +kernel

/-! ## (d) requests without headers -/

theorem fileApplies_noHeaders {f : FFile} {a : HMatch} {l : List HMatch} (h : f.headers = some (a :: l)) :
    fileApplies noHeaders f = false := by
  simp [fileApplies, h, noHeaders]

/-- **(d)** a request that carries no header is answered exactly as if the entries with filter did not exist: no
filter file answers it and the files of the other entries are those of the filter-less model.  Hypothesis `hne`:
no entry carries the empty non-nil filter (true for both producers, `produce_never_empty_filter`; FALSE for the
seeded variant, `seeded_breaks_exact_first`). -/
theorem noheader_lookup_unchanged (mo : List MT) (es : List FEntry) (π : List Str)
    (hnd : (es.map (·.e.order)).Nodup) (hπ : ∀ x ∈ es, x.hasFilter = true → x.e.host ∈ π)
    (hne : ∀ x ∈ es, x.headers ≠ some []) (s : Str) :
    lookupFilesF noHeaders (rebuildF mo es π) s = lookupFiles (rebuild mo (unfE es) π) s := by
  rw [lookup_filters_first mo es π hnd hπ, lookupFilesF_none, Option.none_or]
  intro f hf
  obtain ⟨x, hx, hxf, hfx⟩ := (rebuildF_filters_first mo es π hnd hπ).2 f hf
  cases hh : x.headers with
  | none => simp [FEntry.hasFilter, hh] at hxf
  | some l =>
    cases l with
    | nil => exact absurd hh (hne x hx)
    | cons a l => exact fileApplies_noHeaders (hfx.trans hh)

theorem entriesOfF_append (p : Producer) (a b : List FRule) :
    entriesOfF p (a ++ b) = entriesOfF p a ++
      (b.zip ((range b.length).map (a.length + ·))).map fun (ri : FRule × Nat) =>
        (⟨addTarget ri.1.rule ri.2, produce p ri.1.decl⟩ : FEntry) := by
  unfold entriesOfF
  rw [length_append, range_add, zip_append (by simp), map_append]

/-- Full statement (the rules with a real header condition anywhere in the declaration order):
  `∀ rules, WF (rules without real header condition) → … →
     checkReqF rules noHeaders (rebuildF mo (entriesOfF p rules) π) h q = none`.
It follows from `noheader_lookup_unchanged` (which has no restriction on the order) once `lookup_spec` is stated for
entries with arbitrary distinct insertion indices instead of `entriesOf rules` (indices `0..n-1`).  Proved part:
the rules with a header condition are declared after the others.

**(d, Spec level)** rules `rs` without real header condition followed by rules `frs` with one, through either
converter: a request without headers is answered by the exact rule of `rs` equal to the path if there is one,
otherwise by a matching rule of `rs` of maximal declared length — the rules with filter neither answer nor
change the winner. -/
theorem noheader_lookup_spec_partial {p : Producer} (hp : p ≠ .seeded) {rs frs : List FRule}
    (hrs : ∀ r ∈ rs, r.conds = []) (hfrs : ∀ r ∈ frs, r.conds ≠ [])
    (wf : WF (rs.map (·.rule)) = true) {π : List Str}
    (hπ : HostOrderOK (entriesOf (rs.map (·.rule))) π) (hπ2 : ∀ r ∈ frs, lower r.rule.host ∈ π)
    {mo : List MT} (hmo : mo.Perm [.exact, .pfx, .beg]) {h q : Str} (rq : WFReq h q = true) :
    checkReqF (rs ++ frs) noHeaders (rebuildF mo (entriesOfF p (rs ++ frs)) π) h q = none := by
  have hnd : ((entriesOfF p (rs ++ frs)).map (·.e.order)).Nodup := by
    rw [entriesOfF_orders]; exact nodup_range
  -- shape of the entries
  have hA : ∀ x ∈ entriesOfF p rs, x.hasFilter = false := by
    intro x hx
    obtain ⟨r', hr, i, rfl⟩ := mem_entriesOfF hx
    simp [FEntry.hasFilter, produce_unfiltered (hrs r' hr) hp]
  have hB : ∀ x ∈ (frs.zip ((range frs.length).map (rs.length + ·))).map (fun (ri : FRule × Nat) =>
      (⟨addTarget ri.1.rule ri.2, produce p ri.1.decl⟩ : FEntry)),
      x.hasFilter = true ∧ x.headers ≠ some [] ∧ x.e.host ∈ π := by
    intro x hx
    obtain ⟨⟨r', i⟩, hri, rfl⟩ := mem_map.1 hx
    have hr := (of_mem_zip hri).1
    have := produce_filtered (hfrs r' hr) hp
    exact ⟨this.1, this.2, hπ2 r' hr⟩
  have hunf : unfE (entriesOfF p (rs ++ frs)) = entriesOf (rs.map (·.rule)) := by
    rw [entriesOfF_append, unfE_append, unfE_all_unf _ hA, unfE_all_filt _ (fun x hx => (hB x hx).1),
      append_nil, entriesOfF_map_e]
  have hmem : ∀ x ∈ entriesOfF p (rs ++ frs), x ∈ entriesOfF p rs ∨
      (x.hasFilter = true ∧ x.headers ≠ some [] ∧ x.e.host ∈ π) := by
    intro x hx
    rw [entriesOfF_append, mem_append] at hx
    exact hx.imp id (hB x)
  have happ : applicable (rs ++ frs) noHeaders = rs.map (·.rule) := by
    unfold applicable
    rw [filter_append, filter_eq_self.2, filter_eq_nil_iff.2, append_nil]
    · intro r' hr
      have := hfrs r' hr
      cases hc : r'.conds with
      | nil => exact absurd hc this
      | cons a l => simp [FRule.applies, hc, noHeaders]
    · intro r' hr; simp [FRule.applies, hrs r' hr]
  unfold checkReqF
  rw [noheader_lookup_unchanged mo _ π hnd
      (fun x hx hxf => by
        rcases hmem x hx with h1 | h1
        · rw [hA x h1] at hxf; exact absurd hxf (by decide)
        · exact h1.2.2)
      (fun x hx => by
        rcases hmem x hx with h1 | h1
        · have := hA x h1
          intro e; simp [FEntry.hasFilter, e] at this
        · exact h1.2.1),
    hunf, happ, ← checkReq_eq_judge]
  exact lookup_spec wf hπ hmo rq

/-- non-vacuity: two plain rules, then a Prefix `/` that asks for `x-a: v1` (gateway) — without the header
`/login` still gets the exact rule and `/x` gets no answer although `/` is declared for it -/
def mixedRules : List FRule :=
  [fr "app.local" "/login" .exact 0 none, fr "app.local" "/api" .pfx 1 (some [])] ++
  [fr "app.local" "/" .pfx 2 (some [hm "x-a" "v1"])]

example : checkReqF mixedRules noHeaders
    (rebuildF [.exact, .pfx, .beg] (entriesOfF .gateway mixedRules) ["app.local".toList])
    "app.local".toList "/login".toList = none :=
  noheader_lookup_spec_partial (p := .gateway)
    (rs := [fr "app.local" "/login" .exact 0 none, fr "app.local" "/api" .pfx 1 (some [])])
    (frs := [fr "app.local" "/" .pfx 2 (some [hm "x-a" "v1"])])
    (by decide) (by decide) (by decide) (by decide +kernel)
    (hostOrder_of_perm (by decide +kernel)) (by decide +kernel) (by decide) (by decide +kernel)

example : (rebuildF [.exact, .pfx, .beg] (entriesOfF .gateway mixedRules) ["app.local".toList]).map (·.headers) =
      [some [hm "x-a" "v1"], none, none] ∧
    lookupFilesF noHeaders (rebuildF [.exact, .pfx, .beg] (entriesOfF .gateway mixedRules) ["app.local".toList])
      (sampleOf "app.local".toList "/x".toList) = none ∧
    lookupFilesF noHeaders (rebuildF [.exact, .pfx, .beg] (entriesOfF .gateway mixedRules) ["app.local".toList])
      (sampleOf "app.local".toList "/login".toList) = some 0 := by decide +kernel

/-! ## observations outside the quantifier

Requests that CARRY headers satisfying a declared non-empty condition list are not in the domain of C04 (a rule
with a real header condition is not a rule "of type exact, prefix or begin").  The harness still runs them through
the correspondence (the model must predict the layout, hence the answers) and the driver reports what it sees in
the model column (`!outside-domain:…`), without judging.  What the code does there, by design ("with-filters need
to be processed before without-filters", maps.go), checked on the model and replayed on the Go code:

* `C04 conv gw EPB app.local|/login|E|0|-,app.local|/|P|1|x-a=v1` — `/login` with `x-a: v1` gets Prefix `/`;
* `C04 conv gw EPB h.local|/|P|0|x-a=v1,h.local|/a|P|1|-` — `/a` with `x-a: v1` gets `/` instead of `/a`;
* `C04 conv gw EPB h.local|/a|P|0|x-a=v1&x-b=v2,h.local|/|P|1|x-a=v1` — `/a` with both headers gets `/`;
* `C04 conv gw EPB h.local|/a|E|0|x-a=v1&x-b=v2,h.local|/|P|1|x-a=v1` — same with an Exact `/a`;
* `C04 conv ing EPB h.local|/a/b/c|P|0|x-a=v1,h.local|/a/b|B|1|x-a=v1,h.local|/a|P|2|x-a=v1` — same filter, no
  overlap handling between path types: `/a/b/x` with the header gets `/a` instead of `/a/b`.
-/

def xa : List (Str × Str) := [("x-a".toList, "v1".toList)]
def xab : List (Str × Str) := [("x-a".toList, "v1".toList), ("x-b".toList, "v2".toList)]

/-- layout and answers of `rules` as the pipeline builds them (one host) -/
def layoutOf (p : Producer) (rules : List FRule) (host : String) : List FFile :=
  rebuildF [.exact, .pfx, .beg] (entriesOfF p (feedOrder rules)) [host.toList]

/-- filter first beats exact first -/
example : let rules := [fr "app.local" "/login" .exact 0 none, fr "app.local" "/" .pfx 1 (some [hm "x-a" "v1"])]
    lookupFilesF (reqSat xa) (layoutOf .gateway rules "app.local") (sampleOf "app.local".toList "/login".toList) = some 1 ∧
    lookupFilesF noHeaders (layoutOf .gateway rules "app.local") (sampleOf "app.local".toList "/login".toList) = some 0 := by
  decide +kernel

/-- filter first beats longest path -/
example : let rules := [fr "h.local" "/" .pfx 0 (some [hm "x-a" "v1"]), fr "h.local" "/a" .pfx 1 none]
    lookupFilesF (reqSat xa) (layoutOf .gateway rules "h.local") (sampleOf "h.local".toList "/a".toList) = some 0 ∧
    lookupFilesF noHeaders (layoutOf .gateway rules "h.local") (sampleOf "h.local".toList "/a".toList) = some 1 := by
  decide +kernel

/-- two filters the request satisfies: creation order of the files decides -/
example : let rules := [fr "h.local" "/a" .pfx 0 (some [hm "x-a" "v1", hm "x-b" "v2"]), fr "h.local" "/" .pfx 1 (some [hm "x-a" "v1"])]
    lookupFilesF (reqSat xab) (layoutOf .gateway rules "h.local") (sampleOf "h.local".toList "/a".toList) = some 1 := by
  decide +kernel

example : let rules := [fr "h.local" "/a" .exact 0 (some [hm "x-a" "v1", hm "x-b" "v2"]), fr "h.local" "/" .pfx 1 (some [hm "x-a" "v1"])]
    lookupFilesF (reqSat xab) (layoutOf .gateway rules "h.local") (sampleOf "h.local".toList "/a".toList) = some 1 := by
  decide +kernel

/-- one filter, nested paths of alternating types: no priority files among entries with filter -/
example : let rules := [fr "h.local" "/a/b/c" .pfx 0 (some [hm "x-a" "v1"]), fr "h.local" "/a/b" .beg 1 (some [hm "x-a" "v1"]),
      fr "h.local" "/a" .pfx 2 (some [hm "x-a" "v1"])]
    lookupFilesF (reqSat xa) (layoutOf .ingress rules "h.local") (sampleOf "h.local".toList "/a/b/x".toList) = some 2 := by
  decide +kernel

end HapVerif.C04
