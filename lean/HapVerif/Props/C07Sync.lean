import HapVerif.Props.C03
/-!
C07 — references between hosts and backends are closed (re-export from the sync model of C03):
every path of every host of a full sync names a backend that is a section of the configuration,
so no `use_backend` / map value can dangle.  (Partial syncs reach the same configuration: C01.)
-/
namespace HapVerif.C07
open HapVerif.Sync

/-- **refs_closed** — for every cluster state, every host path of the configuration points to a
backend that exists in it -/
theorem refs_closed (w : World) (p : HPath) (hp : p ∈ (fullSync w).paths) :
    ∃ b ∈ (fullSync w).backends, b.key = p.bk :=
  (HapVerif.C03.path_designates hp).2

end HapVerif.C07
