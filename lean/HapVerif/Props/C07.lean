import HapVerif.Model.C07
namespace HapVerif.C07
end HapVerif.C07
