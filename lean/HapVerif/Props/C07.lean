import HapVerif.Model.C07
import HapVerif.Generated.Facts
import HapVerif.Props.C07Dyn
import HapVerif.Props.C07Auth
/-!
# C07 — every generated configuration is loadable: references resolve, names are unique

* server names unique inside a backend over every history of dynamic updates and reloads:
  `HapVerif.C07.server_names_nodup*` (Props/C07Dyn.lean, on the shared M-Dyn model);
* auth-proxy ports never handed out twice, always inside the range, "list is full" exactly when the
  range is exhausted: Props/C07Auth.lean;
* path ids of a backend are unique and every link has exactly one id (below);
* dangling references / duplicated sections are searched on every configuration the real pipeline
  writes (lint pass of the world runner).
-/
namespace HapVerif.C07

theorem addPath_length_le (ps : Paths) (l : String) : ps.length ≤ (addPath ps l).length := by
  unfold addPath; split <;> simp

theorem addPath_wellNumbered (ps : Paths) (l : String) (h : WellNumbered ps) : WellNumbered (addPath ps l) := by
  unfold addPath
  split
  · exact h
  · unfold WellNumbered at *
    simp [List.map_append, h, List.range_succ]

/-- **path ids** — for every sequence of `AddBackendPath` calls the ids are 1..n … -/
theorem addAll_wellNumbered (links : List String) : WellNumbered (addAll links) := by
  unfold addAll
  suffices h : ∀ (ps : Paths), WellNumbered ps → WellNumbered (links.foldl addPath ps) from h [] (by simp [WellNumbered])
  induction links with
  | nil => intro ps h; exact h
  | cons l ls ih => intro ps h; exact ih _ (addPath_wellNumbered ps l h)

/-- … hence pairwise distinct -/
theorem path_ids_nodup (links : List String) : ((addAll links).map (·.2)).Nodup := by
  rw [addAll_wellNumbered links]
  unfold List.Nodup
  exact List.Pairwise.map (· + 1) (fun a b (h : a < b) => by omega) List.pairwise_lt_range

theorem addPath_links_nodup (ps : Paths) (l : String) (h : (ps.map (·.1)).Nodup) :
    ((addPath ps l).map (·.1)).Nodup := by
  unfold addPath
  split
  · exact h
  · rename_i hn
    simp only [List.map_append, List.map_cons, List.map_nil]
    refine List.nodup_append.mpr ⟨h, by simp, ?_⟩
    intro a ha b hb
    simp only [List.mem_singleton] at hb
    subst hb
    intro e; subst e
    apply hn
    simp only [List.mem_map] at ha
    obtain ⟨x, hx, e⟩ := ha
    simp only [List.any_eq_true, decide_eq_true_eq]
    exact ⟨x, hx, e⟩

/-- every link has exactly one entry (so an id map never has two ids for one path) -/
theorem path_links_nodup (links : List String) : ((addAll links).map (·.1)).Nodup := by
  unfold addAll
  suffices h : ∀ (ps : Paths), (ps.map (·.1)).Nodup → ((links.foldl addPath ps).map (·.1)).Nodup from h [] (by simp)
  induction links with
  | nil => intro ps h; exact h
  | cons l ls ih => intro ps h; exact ih _ (addPath_links_nodup ps l h)

theorem addPath_mem_mono (ps : Paths) (x l : String) (h : l ∈ ps.map (·.1)) : l ∈ (addPath ps x).map (·.1) := by
  unfold addPath; split
  · exact h
  · simp only [List.map_append, List.mem_append]; exact Or.inl h

theorem addPath_self (ps : Paths) (x : String) : x ∈ (addPath ps x).map (·.1) := by
  unfold addPath; split
  · rename_i h
    simp only [List.any_eq_true, decide_eq_true_eq] at h
    obtain ⟨e, he, hx⟩ := h
    exact List.mem_map.mpr ⟨e, he, hx⟩
  · simp

theorem foldl_addPath_present (links : List String) (l : String) :
    ∀ (ps : Paths), (l ∈ ps.map (·.1) ∨ l ∈ links) → l ∈ (links.foldl addPath ps).map (·.1) := by
  induction links with
  | nil => intro ps h; rcases h with h | h
           · exact h
           · cases h
  | cons x xs ih =>
    intro ps hh
    apply ih
    rcases hh with h | h
    · exact Or.inl (addPath_mem_mono ps x l h)
    · rcases List.mem_cons.mp h with e | h'
      · subst e; exact Or.inl (addPath_self ps l)
      · exact Or.inr h'

/-- every requested link got an id -/
theorem path_link_present (links : List String) (l : String) (h : l ∈ links) : l ∈ (addAll links).map (·.1) :=
  foldl_addPath_present links l [] (Or.inr h)

/-- regenerated from the Go source -/
theorem facts_c07 : Facts.c07PathIDFormat = "path%02d" := by decide

example : addAll ["a", "b", "a", "c"] = [("a", 1), ("b", 2), ("c", 3)] := by decide

end HapVerif.C07
