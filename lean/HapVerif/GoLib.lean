/-
GoLib — the (small, trusted) Lean reading of the Go constructs the translator
`/verif/harness/cmd/translate` emits calls to.  Core-only.

* loops: `forRange` (for _, x := range xs) and `whileFuel` (3-clause / condition loops) over an explicit
  state tuple, with Go's three ways of leaving a loop body (`continue`/fall through, `break`, `return`);
  a fuelled loop that runs out of fuel is `stuck` (never identified with a normal exit);
* strings: Go strings are byte sequences; three carriers are supported through `GoStr`
  (`String` for ASCII text, `List Char`, `List Nat` = bytes) so that a translated function can be elaborated
  at the carrier its hand-written model uses;
* `time.Time` / `time.Duration`: `Int` nanoseconds (monotonic readings are ignored: `After`, `Before`, `Add`,
  `Sub` are the integer operations; overflow of int64 nanoseconds — ±292 years — is outside the model);
* integer `/` and `%` truncate toward zero (`Int.tdiv`, `Int.tmod`); `int` is unbounded (overflow excluded).
-/
namespace HapVerif.GoLib

/-! ## loops -/

inductive Step (σ : Type) (ρ : Type) where
  | next (s : σ)
  | brk (s : σ)
  | ret (r : ρ)

inductive Done (σ : Type) (ρ : Type) where
  | done (s : σ)
  | ret (r : ρ)
  | stuck

/-- result of a `range` loop (it always terminates) -/
inductive RDone (σ : Type) (ρ : Type) where
  | done (s : σ)
  | ret (r : ρ)

/-- `for _, x := range xs { body }` -/
def forRange {α σ ρ : Type} : List α → σ → (α → σ → Step σ ρ) → RDone σ ρ
  | [], s, _ => .done s
  | x :: xs, s, f =>
    match f x s with
    | .next s' => forRange xs s' f
    | .brk s' => .done s'
    | .ret r => .ret r

/-- `for cond { body }` with at most `fuel` iterations -/
def whileFuel {σ ρ : Type} : Nat → σ → (σ → Bool) → (σ → Step σ ρ) → Done σ ρ
  | 0, s, c, _ => if c s then .stuck else .done s
  | n + 1, s, c, f =>
    if c s then
      match f s with
      | .next s' => whileFuel n s' c f
      | .brk s' => .done s'
      | .ret r => .ret r
    else .done s

/-! ## integers -/

/-- Go's `/`: truncating division on ints; a float carrier (binary32, `Model/C16F32.lean`) brings its own instance -/
class GoQuo (α : Type) where
  quo : α → α → α
export GoQuo (quo)
instance : GoQuo Int := ⟨Int.tdiv⟩
def rem (a b : Int) : Int := Int.tmod a b

/-! ## `+` on ints and strings, `len`, strings -/

class GoAdd (α : Type) where
  add : α → α → α
export GoAdd (add)
instance : GoAdd Int := ⟨(· + ·)⟩
instance : GoAdd Nat := ⟨(· + ·)⟩
instance : GoAdd String := ⟨(· ++ ·)⟩
instance {β : Type} : GoAdd (List β) := ⟨(· ++ ·)⟩

def lowerC (c : Char) : Char := if 'A' ≤ c ∧ c ≤ 'Z' then Char.ofNat (c.toNat + 32) else c
def lowerB (b : Nat) : Nat := if 65 ≤ b ∧ b ≤ 90 then b + 32 else b

/-- `sub` occurs in `s` (contiguous) -/
def containsL {β : Type} [BEq β] : List β → List β → Bool
  | [], sub => sub.isEmpty
  | x :: xs, sub => sub.isPrefixOf (x :: xs) || containsL xs sub

class GoStr (α : Type) where
  hasPrefix : α → α → Bool
  hasSuffix : α → α → Bool
  contains : α → α → Bool
  toLower : α → α
  len : α → Int
export GoStr (hasPrefix hasSuffix contains toLower)

instance : GoStr (List Char) where
  hasPrefix s p := p.isPrefixOf s
  hasSuffix s p := p.isSuffixOf s
  contains s sub := containsL s sub
  toLower s := s.map lowerC
  len s := s.length

instance : GoStr (List Nat) where
  hasPrefix s p := p.isPrefixOf s
  hasSuffix s p := p.isSuffixOf s
  contains s sub := containsL s sub
  toLower s := s.map lowerB
  len s := s.length

/-- ASCII text as Lean `String` (characters = bytes for ASCII) -/
instance : GoStr String where
  hasPrefix s p := s.startsWith p
  hasSuffix s p := s.endsWith p
  contains s sub := containsL s.toList sub.toList
  toLower s := String.ofList (s.toList.map lowerC)
  len s := s.utf8ByteSize

class GoLen (α : Type) where
  len : α → Int
export GoLen (len)
instance : GoLen String := ⟨fun s => s.utf8ByteSize⟩
instance {β : Type} : GoLen (List β) := ⟨fun s => s.length⟩

/-- string literal as bytes -/
def bytes (s : String) : List Nat := s.toUTF8.toList.map (·.toNat)
/-- string literal as characters -/
def chars (s : String) : List Char := s.toList

/-- `s[i]` on a byte string: `none` is Go's index-out-of-range panic -/
def byteAt? (s : List Nat) (i : Int) : Option Nat := if i < 0 then none else s[i.toNat]?
/-- `s[i]` on a byte string inside a loop guarded by `len(s) > i` (the default is never read there) -/
def byteAt (s : List Nat) (i : Int) : Int := ((s.getD i.toNat 0 : Nat) : Int)

/-- a `[N]uint8{k: v, …}` table as the fact extractor reads it (keys, values): unlisted indices are 0 -/
def lookupTbl (keys vals : List Nat) (i : Int) : Int :=
  match (keys.zip vals).lookup i.toNat with
  | some v => (v : Int)
  | none => 0

/-- `s[lo:hi]` on a byte string (callers establish 0 ≤ lo ≤ hi ≤ len) -/
def slice {β : Type} (s : List β) (lo hi : Int) : List β := (s.drop lo.toNat).take (hi.toNat - lo.toNat)

/-! ## time -/

def timeAfter (a b : Int) : Bool := decide (a > b)
def timeBefore (a b : Int) : Bool := decide (a < b)
def timeAdd (a d : Int) : Int := a + d
def timeSub (a b : Int) : Int := a - b

/-! ## tracker calls as an effect log -/

/-- `nil` of a pointer / slice the translation models as an `Option` -/
def nil {α : Type} : Option α := none

/-- one `tracker.TrackNames(leftType, leftName, rightType, rightName)` call -/
structure TrackCall where
  lt : String
  ln : String
  rt : String
  rn : String
deriving DecidableEq, Repr

def trackNames (fx : List TrackCall) (lt ln rt rn : String) : List TrackCall := fx ++ [⟨lt, ln, rt, rn⟩]

/-- `hatypes.Host` as `trackStrictHosts` sees it: `rootBegin` is `host.FindPath("/", MatchBegin)` -/
structure HostView where
  Hostname : String
  rootBegin : Option Unit
deriving DecidableEq, Repr

/-! ## views of repository structs (only the fields the translated functions touch) -/

/-- `networking.IngressClass` as the class test sees it -/
structure IngressClassView where
  controller : String
deriving DecidableEq, Repr, Inhabited

/-- `services.Config` fields read by `IsValidIngress` -/
structure CacheConfigView where
  WatchIngressWithoutClass : Bool
  IngressClass : String
  IngressClassPrecedence : Bool
  ControllerName : String
deriving Repr

/-- the cache facade `c`: its configuration and the cache read `GetIngressClass(name)` =
(pointer to the object — `cache.get` fills a zero value also when the read fails —, error or nil) -/
structure CacheView where
  config : CacheConfigView
  getIngressClass : String → Option IngressClassView × Option Unit

/-- `networking.Ingress` as `IsValidIngress` sees it: the comma-ok read of the class annotation and
`spec.ingressClassName` (a `*string`) -/
structure IngressView where
  annClass : String × Bool
  className : Option String
deriving Repr

/-- `*p` of a `*string` the code has tested against nil -/
def deref (p : Option String) : String := p.getD ""
/-- field access through a pointer the code has tested against nil -/
def derefClass (p : Option IngressClassView) : IngressClassView := p.getD default

/-- `append(slice, x)` -/
def append1 {β : Type} (l : List β) (x : β) : List β := l ++ [x]

/-- `fmt.Sprintf("%s/%s:%s", ev, res, fullname)` — the only format `compose` uses -/
def sprintfEvResName (format ev res fullname : String) : String :=
  if format = "%s/%s:%s" then ev ++ "/" ++ res ++ ":" ++ fullname else "<format not modelled>"

/-- a `client.Object` as `compose` / `notify` see it -/
structure ObjView where
  ns : String
  name : String
deriving DecidableEq, Repr

/-- the handler `hdlr`: resource type, full-sync flag, optional naming closure -/
structure HdlrView where
  res : String
  full : Bool
  hasName : Bool
  name : ObjView → String

/-- which per-kind closures the handler has -/
structure HdlrCbView where
  hasAdd : Bool
  hasUpd : Bool
  hasDel : Bool
deriving DecidableEq, Repr

/-- `q.AddRateLimited(rparam{fullsync})` on the log of enqueued items -/
def enqueue (fx : List Bool) (full : Bool) : List Bool := fx ++ [full]

/-! ## traces of effectful steps (control skeletons) -/

/-- the oracle of one run of a control skeleton: which named steps fail, what the named reads return -/
structure Env where
  fail : String → Bool
  val : String → Bool
  num : String → Int

/-- the log of the steps taken so far -/
abbrev Fx := List String

/-- a step without result -/
def eff (name : String) (fx : Fx) : Fx := fx ++ [name]
/-- a step with a Bool argument worth recording -/
def effB (name : String) (fx : Fx) (b : Bool) : Fx := fx ++ [name ++ ":" ++ toString b]
/-- a step with a string argument worth recording -/
def effS (name : String) (fx : Fx) (s : String) : Fx := fx ++ [name ++ ":" ++ s]
/-- a step with a Bool and a string argument -/
def effBS (name : String) (fx : Fx) (b : Bool) (s : String) : Fx := fx ++ [name ++ ":" ++ toString b ++ ":" ++ s]
/-- a step whose result is not looked at -/
def callU (name : String) (fx : Fx) : Unit × Fx := ((), fx ++ [name])
/-- a step that returns an `error` -/
def callE (env : Env) (name : String) (fx : Fx) : Option String × Fx :=
  (if env.fail name then some name else none, fx ++ [name])
/-- a step that returns a Bool -/
def callB (env : Env) (name : String) (fx : Fx) : Bool × Fx := (env.val name, fx ++ [name])
/-- reads (no step) -/
def readB (env : Env) (name : String) : Bool := env.val name
def readN (env : Env) (name : String) : Int := env.num name
/-- `fmt.Errorf(format, err)`: some error -/
def errorf (format : String) (e : Option String) : Option String := some (format ++ (e.getD ""))

/-- a read that returns an `error` (no step) -/
def readE (env : Env) (name : String) : Option String := if env.fail name then some name else none
/-- `crt, key, err := client.Sign(domains, preferredChain)`: what came back (a certificate? a key? an error?) is the oracle's -/
def callSign (env : Env) (fx : Fx) : (Option Unit × Option Unit × Option String) × Fx :=
  ((if env.val "Sign.crt" then some () else none, if env.val "Sign.key" then some () else none,
    if env.fail "Sign" then some "Sign" else none), fx ++ ["Sign"])
/-- `collector(domains, success)`: one of the three signing metrics -/
def effMetric (name : String) (fx : Fx) (_domains : Unit) (success : Bool) : Fx :=
  fx ++ ["metric:" ++ name ++ ":" ++ toString success]

/-- `converters.converters` and the batch as `Sync` sees them -/
structure ConvView where
  changedNil : Bool
  batchFull : Bool
  hasGatewayV1 : Bool
  hasGatewayB1 : Bool
  hasGatewayA2 : Bool
  tcpCur : Bool
  tcpNew : Bool
deriving DecidableEq, Repr

/-- `haproxy.instance` as `AcmeUpdate` sees it -/
structure AcmeInstView where
  configNil : Bool
  queueNil : Bool
  isLeader : Bool
deriving DecidableEq, Repr

/-- `haproxy.instance` as `HAProxyUpdate` / `Reload` see it -/
structure InstView where
  configNil : Bool
  rewriteOwed : Bool
  reloadOwed : Bool
  up : Bool
  fake : Bool
  sortEndpointsBy : String
  validateConfig : Bool
  hasReloadQueue : Bool
  isExternal : Bool
  isMasterWorker : Bool
deriving DecidableEq, Repr

/-- `workqueue.reloadHAProxy` (the mutex is not state) -/
structure ReloadHAProxy where
  interval : Int
  last : Int
deriving DecidableEq, Repr

/-- `workqueue.ingressReconciler` -/
structure IngressReconciler where
  delta : Int
  wait : Int
  last : Int
deriving DecidableEq, Repr

/-- `hatypes.MatchType` -/
inductive MatchType | exact | pfx | beg | regex
deriving DecidableEq, Repr, Inhabited

/-- `hatypes.HostsMapEntry` as `overlaps` sees it -/
structure MapEntry where
  mt : MatchType
  path : List Char
deriving DecidableEq, Repr

/-- `fmt.Errorf("trying to read %s '%s' cross namespaces '%s' and '%s', but cross-namespace reading is disabled", …)`:
the error of a refused cross-namespace read (only that it is an error, and which one, matters) -/
def errorfCross (_format _kind _resourceName _ns _defaultNamespace : List Char) : Option String := some "cross-namespace"

/-! ## Go maps as lists of pairs, `sort.Strings`, `strings.TrimRight` -/

/-- the keys a `for k := range m` visits (in the order of the view; Go's order is unspecified) -/
def keys {κ ν : Type} (m : List (κ × ν)) : List κ := m.map (·.1)
/-- `m[k]` (the zero value when absent) -/
def index {κ ν : Type} [BEq κ] [Inhabited ν] (m : List (κ × ν)) (k : κ) : ν := (m.lookup k).getD default
/-- insertion of one string into a list sorted by byte order -/
def insStr (a : List Char) : List (List Char) → List (List Char)
  | [] => [a]
  | b :: t => if decide (a ≤ b) then a :: b :: t else b :: insStr a t
/-- `sort.Strings` -/
def sortStrings : List (List Char) → List (List Char)
  | [] => []
  | a :: t => insStr a (sortStrings t)
/-- `strings.TrimRight(s, cutset)` -/
def trimRight (s cutset : List Char) : List Char := (s.reverse.dropWhile (cutset.contains ·)).reverse

/-! ## Go maps used as sets (`map[K]struct{}`), bit masks -/

def setEmpty : List Int := []
def setHas (s : List Int) (k : Int) : Bool := s.contains k
def setAdd (s : List Int) (k : Int) : List Int := k :: s
/-- `a & b` on non-negative ints -/
def band (a b : Int) : Int := ((a.toNat &&& b.toNat : Nat) : Int)
/-- `int32(x)` / `uint32(x)` of a value the code keeps in range -/
def idInt (a : Int) : Int := a
/-- `make([]T, n)` -/
def makeList {β : Type} [Inhabited β] (n : Int) : List β := List.replicate n.toNat default
/-- `for i, x := range xs`: the (index, element) pairs in order -/
def enumFrom {β : Type} (k : Int) : List β → List (Int × β)
  | [] => []
  | x :: xs => (k, x) :: enumFrom (k + 1) xs
def enum {β : Type} (xs : List β) : List (Int × β) := enumFrom 0 xs
/-- `xs[i] = v` on a slice (an index out of range panics in Go: the targets only use indices a range produced) -/
def setAt {β : Type} (xs : List β) (i : Int) (v : β) : List β := if i < 0 then xs else xs.set i.toNat v
/-- `copy(dst, src)` -/
def copyInto {β : Type} (_cur dst src : List β) : List β := src.take dst.length ++ dst.drop src.length

/-- `hatypes.HostsMaps` as `CreateMaps` builds it -/
structure HostsMapsView where
  matchOrder : List MatchType
deriving DecidableEq, Repr

end HapVerif.GoLib
