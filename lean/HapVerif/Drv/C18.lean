import HapVerif.Model.C18
import HapVerif.Model.C18Hist
import HapVerif.Model.C18Gw
import HapVerif.Model.C18OAuth
import HapVerif.Model.C18Cls
import HapVerif.Generated.Facts
import HapVerif.Drv.Common
/-!
Driver of C18.  Case lines (see harness/cmd/hv/c18.go):

  `C18 <glob> <ing>[,<ing>...] => <path>|...||<binds>`   a full converter Sync + rendered haproxy.cfg
  `C18 alloc <rs> <re> <op>[,<op>...] => <res>,...||<binds>`   Frontend.AcquireAuthBackendName & co
  `C18 hist <glob> <ing>[,<ing>...] <batch>[/<batch>...] => <path>|...||<binds>||<dirty>/...[||cfg=<binds>]`
      a full sync + HAProxyUpdate (commit), then one PARTIAL sync per batch (ops `a:<ing>`, `d:<k>`,
      `u:<k>:<ing>`, `,`-joined); the path records are those of the ingresses alive at the end
  `C18 gw <glob> <gws> <svcs> <routes> <ings> => K=<backend>@<host>#<path>;<path>|...||<binds>`
      converters.Sync(): Gateway API HTTPRoutes whose Services carry the annotations, then Ingress
      objects (see harness/cmd/hv/c18gw.go); the visits of the gateway converter (`simulate`) and what
      the Service annotations mean at that point of the sync (`gwUrl`, `gwOAuth`) are derived here
  `C18 oa <glob> <ing>[,<ing>...] => <path>|...||<binds>`   a full converter Sync over ingresses with
      LITERAL paths in two namespaces (see harness/cmd/hv/c18oauth.go): which published path
      `findBackend` takes for the oauth2-proxy is computed by the model (Model/C18OAuth.lean), the Spec
      `oaOracle` names the backends published at the uri prefix
  `C18 cls <glob> <params> <svcanns> <ing>[,<ing>...] => <path>|...||<binds>`   a full converter Sync over
      ingresses selected by ingressClassName, class c1 carrying `spec.parameters` -> ConfigMap (see
      harness/cmd/hv/c18cls.go): what each path link ends with (Service, Ingress, class parameters) is
      computed by the model (Model/C18Cls.lean), the Spec `clsOracle` is evaluated against the
      declarations `specPaths` (a path's own sources, whatever shares its backend)

The abstraction of the concrete annotation values of the harness grammar (what each auth-url means
to `setAuthExternal`) is the table `urlOf` below.
-/
namespace HapVerif.C18
open HapVerif.Drv

def portBase : Int := 14415

/-- which code the tree under test has, read from the regenerated facts: the receiver of the
precedence test of `buildBackendOAuth` and what that branch assigns; whether the clean-up of
`setAuthExternal` reads the names of `HostPath.AuthExt` -/
def currentVariant : Variant :=
  { oauthOwn := Facts.c18OAuthPrecedenceReads == "config" &&
      !Facts.c18OAuthPrecedenceAssigns.contains "path.AuthExternal.AlwaysDeny = false"
    usedFront := Facts.c18SetAuthUsedFrontReads.contains "hpath.AuthExt.AuthBackendName" }

/-- which `buildBackendAuthExternal` the tree under test has (gateway mode): the code configures
the path record in place under the guard; the other shape known to the model builds a scratch value
and assigns it unconditionally -/
def currentAuthStepName : String :=
  if Facts.c18BackendAuthWrites == ["c.setAuthExternal(config, &path.AuthExternal, url)"] then "authStep"
  else if Facts.c18BackendAuthWrites == ["c.setAuthExternal(config, &auth, url)", "path.AuthExternal = auth"] then
    "authStepScratch"
  else "unknown"

def currentAuthStep : AuthStep :=
  if currentAuthStepName == "authStepScratch" then authStepScratch else authStep

/-! ### grammar -> abstract values -/

def mkUrl (proto : Proto) (target : Nat) (path : String) (parseOk := true) (isIP := true)
    (dnsOk := true) (hasPort := true) (hasNs := true) (nsOk := true) (svcFound := true) : UrlAnn :=
  .val { parseOk, proto, isIP, dnsOk, hasPort, hasNs, nsOk, svcFound, target, path }

/-- `xns`: global `cross-namespace-services: allow` -/
def urlOf (xns : Bool) : String → Option UrlAnn
  | "-" => some .absent
  | "e" => some .empty
  | "h1" => some (mkUrl .http 1 "/auth")                 -- http://10.0.0.1/auth
  | "h2" => some (mkUrl .http 2 "/check")                -- http://10.0.0.2:8080/check
  | "hs" => some (mkUrl .https 3 "/auth")                -- https://10.0.0.1/auth
  | "hq" => some (mkUrl .http 1 "")                      -- http://10.0.0.1
  | "hl" => some (mkUrl .http 4 "/auth" (isIP := false)) -- http://localhost/auth
  | "hn" => some (mkUrl .http 0 "/auth" (isIP := false) (dnsOk := false))  -- unresolvable name
  | "s1" => some (mkUrl .svc 5 "/auth")                  -- svc://authsvc:8080/auth
  | "sv" => some (mkUrl .svc 5 "/auth")                  -- service://authsvc:8080/auth
  | "sm" => some (mkUrl .svc 0 "/auth" (svcFound := false))   -- svc://missing:8080/auth
  | "sp" => some (mkUrl .svc 0 "/auth" (hasPort := false))    -- svc://authsvc/auth
  | "sx" => some (mkUrl .svc 0 "/auth" (svcFound := false))   -- svc://authsvc:9999/auth
  | "so" => some (mkUrl .svc 6 "/auth" (nsOk := xns))    -- svc://other/authsvc2:8080/auth
  | "sn" => some (mkUrl .svc 0 "/auth" (nsOk := xns) (svcFound := false))   -- svc://other/nope:8080/auth
  | "bp" => some (mkUrl .other 0 "/auth")                -- bad://10.0.0.1/auth
  | "mf" => some (mkUrl .http 0 "" (parseOk := false))   -- ::malformed
  | "sq" => some (mkUrl .http 0 "" (parseOk := false))   -- http://10.0.0.1/a b
  | _ => none

def plcOf : String → Option Plc
  | "-" => some .absent
  | "b" => some .backend
  | "B" => some .backend      -- "Backend"
  | "f" => some .frontend
  | "F" => some .frontend     -- "FRONTEND"
  | "t" => some .other        -- "fronted"
  | _ => none

def pathName : Nat → Option String
  | 0 => some "/a" | 1 => some "/b" | 2 => some "/c" | 9 => some "/oauth2"
  | _ => none

def svcName : Nat → Option String
  | 0 => some "echo0" | 1 => some "echo1" | 2 => some "oauth2proxy" | 3 => some "echo3"
  | _ => none

structure IngTok where
  host : Nat
  path : Nat
  svc : Nat
  mtch : String
  url : String
  plc : String
  oauth : String
  signin : String
deriving Repr, DecidableEq

def parseIng (s : String) : Option IngTok :=
  match s.splitOn "." with
  | [h, p, v, m, u, c, o, g] => do
    pure { host := ← h.toNat?, path := ← p.toNat?, svc := ← v.toNat?, mtch := m, url := u, plc := c, oauth := o, signin := g }
  | _ => none

/-- id of the backend `findBackend(namespace, "/oauth2")` returns: the service of the first
ingress that declares the path /oauth2 (the generator never declares two different ones) -/
def oauthBackend (ings : List IngTok) : Option String :=
  match ings.find? (·.path = 9) with
  | some g => (svcName g.svc).map fun n => "default_" ++ n ++ "_8080"
  | none => none

def oauthOf (ings : List IngTok) : String → Option OAuthAnn
  | "-" => some .absent
  | "o" | "d" =>
    match oauthBackend ings with
    | some id => some (.val true true "/oauth2" id)
    | none => some (.val true false "/oauth2" "")
  | "m" => some (.val true false "/nope" "")
  | "u" | "e" => some (.val false false "/oauth2" "")
  | _ => none

def pathOf (xns : Bool) (ings : List IngTok) (g : IngTok) : Option PathIn := do
  let pn ← pathName g.path
  let _ ← svcName g.svc
  let hm ← (match g.mtch with | "b" => some "beg" | "p" => some "dir" | "e" => some "str" | _ => none)
  let key := "h" ++ toString g.host ++ ".local#" ++ pn
  let sg ← (match g.signin with | "-" => some false | "s" => some true | _ => none)
  pure { host := g.host, backend := g.svc, ord := g.host * 16 + g.path, key := key, hamatch := hm,
         sub := if g.mtch = "e" then key else key ++ "/sub",
         url := ← urlOf xns g.url, plc := ← plcOf g.plc, oauth := ← oauthOf ings g.oauth, signin := sg }

def parseRange (r : List Char) : Option (Int × Int) :=
  match String.ofList r with
  | "d" => some (portBase, 14499)
  | "i" => some (0, -1)
  | n => n.toNat?.map fun k => (portBase, portBase + (k : Int) - 1)

/-- `x<0|1>l<0|1>[c<0|1>]r<rng>`: IsExternal, external-has-lua, cross-namespace-services allow, range -/
def parseGlob (s : String) : Option (Bool × Bool × Bool × Int × Int) :=
  let bit (c : Char) : Option Bool := if c = '0' then some false else if c = '1' then some true else none
  match s.toList with
  | 'x' :: x :: 'l' :: l :: 'c' :: c :: 'r' :: r => do
    let (rs, re) ← parseRange r
    pure (← bit x, ← bit l, ← bit c, rs, re)
  | 'x' :: x :: 'l' :: l :: 'r' :: r => do
    let (rs, re) ← parseRange r
    pure (← bit x, ← bit l, false, rs, re)
  | _ => none

def parseWorld (glob ings : String) : Option World := do
  let (x, l, xns, rs, re) ← parseGlob glob
  let toks ← (ings.splitOn ",").mapM parseIng
  let ps ← toks.mapM (pathOf xns toks)
  pure { isExternal := x, hasLua := l, rangeStart := rs, rangeEnd := re, paths := ps }

/-! ### output -/

def showName : AuthName → String
  | .none => "-"
  | .proxy p => "a" ++ toString (p - portBase)
  | .backend id => if id = "default_oauth2proxy_8080" then "o" else "?" ++ id

def dash (s : String) : String := if s = "" then "-" else s.replace " " "%20"

def showRec (r : AuthRec) : String :=
  (if r.alwaysDeny then "D" else "-") ++ "," ++ showName r.name ++ "," ++ dash r.authPath ++ "," ++
    dash r.allowedPath ++ "," ++ (if r.redirect then "R" else "-")

def showRule : Rule → String
  | .deny => "deny"
  | .icpt n p a => "icpt(" ++ showName n ++ "," ++ p ++ "," ++ dash a ++ ")"
  | .unless false a => "unless-deny(" ++ dash a ++ ")"
  | .unless true a => "unless-redir(" ++ dash a ++ ")"

def showRules (rs : List Rule) : String := if rs.isEmpty then "-" else "+".intercalate (rs.map showRule)

def showBinds (bs : List Bind) : String :=
  if bs.isEmpty then "-" else ",".intercalate (bs.map fun b => "a" ++ toString (b.port - portBase) ++ ">t" ++ toString b.target)

def showPath (w : World) (st : St) (i : Nat) : String :=
  let o := obsOf w st i
  "B=" ++ showRec (st.brec i) ++ ";F=" ++ (match st.frec i with | some r => showRec r | none => "nil") ++
    ";RB=" ++ showRules o.rb ++ ";R0=" ++ showRules o.r0 ++ ";R1=" ++ showRules o.r1

def showState (w : World) (st : St) : String :=
  "|".intercalate ((List.range w.paths.length).map (showPath w st)) ++ "||" ++ showBinds st.binds

/-! ### input (implementation side) -/

def parseName (s : String) : Option AuthName :=
  if s = "-" then some .none
  else if s = "o" then some (.backend "default_oauth2proxy_8080")
  else match s.toList with
    | 'a' :: r => (String.ofList r).toInt?.map fun k => .proxy (portBase + k)
    | '?' :: r => some (.backend (String.ofList r))
    | _ => none

def undash (s : String) : String := if s = "-" then "" else s

def stripParen (pre s : String) : Option String :=
  if s.startsWith (pre ++ "(") ∧ s.endsWith ")" then
    some (((s.drop (pre.length + 1)).dropEnd 1).toString)
  else none

def parseRule (s : String) : Option Rule :=
  if s = "deny" then some .deny
  else match stripParen "icpt" s with
    | some b =>
      match b.splitOn "," with
      | [n, p, a] => (parseName n).map fun n => .icpt n p (undash a)
      | _ => none
    | none =>
      match stripParen "unless-deny" s with
      | some a => some (.unless false (undash a))
      | none => (stripParen "unless-redir" s).map fun a => .unless true (undash a)

def parseRules (s : String) : Option (List Rule) :=
  if s = "-" then some [] else (s.splitOn "+").mapM parseRule

def field (pre s : String) : Option String :=
  if s.startsWith pre then some (s.drop pre.length).toString else none

def parseObs (s : String) : Option Obs :=
  match s.splitOn ";" with
  | [_b, _f, rb, r0, r1] => do
    pure { rb := ← parseRules (← field "RB=" rb), r0 := ← parseRules (← field "R0=" r0), r1 := ← parseRules (← field "R1=" r1) }
  | _ => none

def parseBind (s : String) : Option Bind :=
  match s.splitOn ">" with
  | [n, t] =>
    match parseName n, t.toList with
    | some (.proxy p), 't' :: r => some ⟨p, ((String.ofList r).toNat?).getD 9999⟩
    | some (.proxy p), _ => some ⟨p, 9999⟩       -- a target the grammar does not know
    | _, _ => none
  | _ => none

def parseBinds (s : String) : Option (List Bind) :=
  if s = "-" then some [] else (s.splitOn ",").mapM parseBind

/-! ### host orders -/

def insertAll {α} (a : α) : List α → List (List α)
  | [] => [[a]]
  | b :: r => (a :: b :: r) :: (insertAll a r).map (b :: ·)

def perms {α} : List α → List (List α)
  | [] => [[]]
  | a :: r => (perms r).flatMap (insertAll a)

def hostsOf (w : World) : List Nat := (w.paths.map (·.host)).eraseDups
def backendsOf (w : World) : List Nat := (w.paths.map (·.backend)).eraseDups

/-! ### the allocation sub-protocol

`alloc <rs> <re> <ops>`: ops `q<t>` AcquireAuthBackendName(target t), `k<p>.<p>..` RemoveAuthBackendExcept
(keep the ports base+p; `k` alone keeps nothing), `d<t>.<t>..` RemoveAuthBackendByTarget, `r<rs>.<re>` new range;
results: one per `q`: `a<k>` or `E`. -/

structure AllocSt where
  rs : Int
  re : Int
  binds : List Bind := []
  out : List String := []

def natList (s : String) : Option (List Nat) :=
  if s = "" then some [] else (s.splitOn ".").mapM String.toNat?

def allocOp (st : AllocSt) (op : String) : Option AllocSt :=
  match op.toList with
  | 'q' :: r => do
    let t ← (String.ofList r).toNat?
    let res := acquire st.binds st.rs st.re t
    pure { st with binds := res.2, out := st.out ++ [match res.1 with | some p => "a" ++ toString (p - portBase) | none => "E"] }
  | 'k' :: r => do
    let ps ← natList (String.ofList r)
    pure { st with binds := removeExcept (ps.map fun (k : Nat) => portBase + Int.ofNat k) st.binds }
  | 'd' :: r => do
    let ts ← natList (String.ofList r)
    pure { st with binds := removeByTarget ts st.binds }
  | 'r' :: r =>
    match (String.ofList r).splitOn "." with
    | [a, b] => do pure { st with rs := portBase + (← a.toInt?), re := portBase + (← b.toInt?) }
    | _ => none
  | _ => none

/-- Spec of the allocator on an observed run: every answer is a port of the current range or
an error while the range is full; no port is bound twice -/
def allocOracle (out : List String) (binds : List Bind) : Option String :=
  if !(binds.map (·.port)).Nodup then some "auth-proxy-port-bound-twice"
  else if !(binds.map (·.target)).Nodup then some "auth-proxy-target-bound-twice"
  else if out.any (fun s => s ≠ "E" ∧ (parseName s).isNone) then some "auth-proxy-answer-unreadable"
  else none

def handleAlloc (rs re ops impl : String) : Verdict :=
  match rs.toInt?, re.toInt?, impl.splitOn "||" with
  | some rs, some re, [outs, bs] =>
    let st0 : AllocSt := { rs := portBase + rs, re := portBase + re }
    match (ops.splitOn ",").foldlM allocOp st0, parseBinds bs with
    | some st, some ibinds =>
      let m := (if st.out.isEmpty then "-" else ",".intercalate st.out) ++ "||" ++ showBinds st.binds
      let iout := if outs = "-" then [] else outs.splitOn ","
      { model := m, agree := m = impl, oracle := allocOracle iout ibinds,
        trivial := st.out.all (· ≠ "E") ∧ st.binds.length < 2 }
    | _, _ => bad "alloc-parse"
  | _, _, _ => bad "alloc"

/-! ### histories: a full sync, then partial syncs

What the tracker links an ingress of the grammar to (`Slot`): its host, its service, and for an
auth-url `svc://<name>:<port>` the named service — linked to the host before the service is looked
up, so also when it is missing or lacks the port; the service backend exists (and is the target of
the binds) when the pre-build of `syncIngressHTTP` succeeded. -/

def authLinkOf : String → Option String × Option Nat
  | "s1" | "sv" => (some "A:default/authsvc", some 5)
  | "sx" => (some "A:default/authsvc", none)          -- port 9999 is not exposed: no backend
  | "so" => (some "A:other/authsvc2", some 6)         -- built whatever cross-namespace-services says
  | "sm" => (some "A:default/missing", none)
  | "sn" => (some "A:other/nope", none)
  | _ => (none, none)                                   -- http(s), no port (`sp`), unparsable

def slotOf (xns : Bool) (live : List IngTok) (g : IngTok) : Option Slot := do
  let p ← pathOf xns live g
  pure { path := p, hostKey := "H" ++ toString g.host, svcKey := "S" ++ toString g.svc,
         authKey := (authLinkOf g.url).1, authBack := (authLinkOf g.url).2 }

def slotsOf (xns : Bool) (toks : List (Option IngTok)) : Option Slots :=
  let live := toks.filterMap id
  toks.mapM fun
    | none => some none
    | some g => (slotOf xns live g).map some

inductive HistOp where
  | add (g : IngTok)
  | del (k : Nat)
  | upd (k : Nat) (g : IngTok)

def parseOp (s : String) : Option HistOp :=
  match s.splitOn ":" with
  | ["a", g] => (parseIng g).map .add
  | ["d", k] => do
    let k ← k.toNat?
    if k ≥ 1 then some (.del (k - 1)) else none
  | ["u", k, g] => do
    let k ← k.toNat?
    let g ← parseIng g
    if k ≥ 1 then some (.upd (k - 1) g) else none
  | _ => none

/-- slots and the indices changed so far in the batch; `none`: the op names a slot that is not
alive or was already changed in this batch -/
def applyOp (acc : List (Option IngTok) × List Nat) : HistOp → Option (List (Option IngTok) × List Nat)
  | .add g => some (acc.1 ++ [some g], acc.2 ++ [acc.1.length])
  | .del k =>
    match acc.1[k]? with
    | some (some _) => if acc.2.contains k then none else some (acc.1.set k none, acc.2 ++ [k])
    | _ => none
  | .upd k g =>
    match acc.1[k]? with
    | some (some _) => if acc.2.contains k then none else some (acc.1.set k (some g), acc.2 ++ [k])
    | _ => none

/-- the generator's scope: live (host, path) pairs distinct, the /oauth2 publishers never change -/
def histScopeOk (states : List (List (Option IngTok))) : Bool :=
  states.all (fun toks => ((toks.filterMap id).map fun g => (g.host, g.path)).Nodup) &&
  (match states with
   | [] => true
   | s0 :: rest =>
     let pubs (toks : List (Option IngTok)) :=
       (List.range toks.length).filterMap fun i =>
         match toks[i]?.join with
         | some g => if g.path = 9 then some (i, g) else none
         | none => none
     rest.all fun s => pubs s == pubs s0)

def insertStr (a : String) : List String → List String
  | [] => [a]
  | b :: r => if a < b then a :: b :: r else b :: insertStr a r

def sortStrs (l : List String) : List String := l.foldr insertStr []

def dots (pre : String) (l : List Nat) : String :=
  if l.isEmpty then "-" else ".".intercalate (sortStrs (l.map fun n => pre ++ toString n))

def showDirty (d : Dirty) : String :=
  dots "h" d.hosts ++ ":" ++ dots "b" d.backs ++ ":" ++ dots "t" d.targets

def liveIdxs (w : World) : List Nat :=
  (List.range w.paths.length).filter fun i =>
    match w.paths[i]? with
    | some p => !isDead p
    | none => false

def showHistState (w : World) (st : St) : String :=
  let l := liveIdxs w
  (if l.isEmpty then "-" else "|".intercalate (l.map (showPath w st))) ++ "||" ++ showBinds st.binds

/-- hosts (backends) whose phase can touch the bind list come in every order, after the others
(the phase of a host without frontend auth-url is the identity; the phase of a backend without a
backend placed auth-url writes the oauth records of its own paths only) -/
def hostOrders (w : World) (hs : List Nat) : List (List Nat) :=
  let act := hs.filter fun h => hostPlc w h == .frontend && (hostUrl w h).nonEmpty
  let rest := hs.filter fun h => !act.contains h
  (perms act).map (rest ++ ·)

def backOrders (w : World) (bs : List Nat) : List (List Nat) :=
  let act := bs.filter fun b => w.paths.any fun p => p.backend == b && ownPlc p == .backend && p.url.nonEmpty
  let rest := bs.filter fun b => !act.contains b
  (perms act).map (rest ++ ·)

def dedupStates (w : World) (l : List St) : List St :=
  (l.foldl (fun (acc : List (String × St)) st =>
    let k := showState w st
    if acc.any (·.1 == k) then acc else acc ++ [(k, st)]) []).map (·.2)

def handleHist (glob ings ops impl : String) : Verdict :=
  match parseGlob glob with
  | none => bad "hist-glob"
  | some (x, l, xns, rs, re) =>
    let toks0 : Option (List IngTok) := if ings = "-" then some [] else (ings.splitOn ",").mapM parseIng
    let batches : Option (List (List HistOp)) := (ops.splitOn "/").mapM fun b => (b.splitOn ",").mapM parseOp
    match toks0, batches with
    | some toks0, some batches =>
      -- the slots after each batch and the slots each batch changed
      let evolved := batches.foldl (fun (acc : Option (List (List (Option IngTok) × List Nat))) b =>
        match acc with
        | none => none
        | some states =>
          match states.getLast? with
          | none => none
          | some (cur, _) => (b.foldlM applyOp (cur, [])).map fun nxt => states ++ [nxt])
        (some [(toks0.map some, [])])
      match evolved with
      | none => bad "hist-op"
      | some states =>
        if !histScopeOk (states.map (·.1)) then bad "hist-scope" else
        match states.mapM (fun s => slotsOf xns s.1) with
        | none => bad "hist-parse"
        | some slotss =>
          let mkW (ss : Slots) : World :=
            { isExternal := x, hasLua := l, rangeStart := rs, rangeEnd := re, paths := slotPaths ss }
          match slotss with
          | [] => bad "hist"
          | ss0 :: _ =>
            let w0 := mkW ss0
            let v := currentVariant
            let alive (ids : List Nat) := ids.filter (· ≠ deadId)
            let sts0 := dedupStates w0 ((hostOrders w0 (alive (hostsOf w0))).flatMap fun ho =>
              (backOrders w0 (alive (backendsOf w0))).map fun bo => run v w0 ho bo)
            -- the partial syncs
            let steps := (List.range (slotss.length - 1)).filterMap fun k =>
              match slotss[k]?, slotss[k+1]?, states[k+1]? with
              | some old, some new, some (_, touched) => some (mkW old, mkW new, dirtyOf old new touched)
              | _, _, _ => none
            let closed := steps.all fun (wo, wn, d) => closedOk wo wn d
            let fin := steps.foldl (fun (acc : World × List St) (step : World × World × Dirty) =>
              let (_, wn, d) := step
              (wn, dedupStates wn (acc.2.flatMap fun st =>
                (hostOrders wn d.hosts).flatMap fun ho => (backOrders wn d.backs).map fun bo =>
                  partialSync v wn d ho bo st))) (w0, sts0)
            let wf := fin.1
            let dirtyStr := "/".intercalate (steps.map fun (_, _, d) => showDirty d)
            let outs := fin.2.map fun st => showHistState wf st ++ "||" ++ dirtyStr
            let m := outs.headD ""
            if !closed then { model := "bad-op:hist-dirty-sets-not-closed", agree := false, oracle := some "dirty-sets-not-closed" } else
            if impl = "PANIC" then { model := m, agree := false, oracle := some "panic-in-updater" } else
            match impl.splitOn "||" with
            | ps :: bs :: ds :: rest =>
              match (if ps = "-" then some [] else (ps.splitOn "|").mapM parseObs), parseBinds bs with
              | some obs, some binds =>
                let livePaths := (liveIdxs wf).filterMap fun i => wf.paths[i]?
                if obs.length ≠ livePaths.length then bad "impl-paths" else
                let wl : World := { wf with paths := livePaths }
                let core := ps ++ "||" ++ bs ++ "||" ++ ds
                let agreeing := outs.find? (· = core)
                let cfgOk := rest.isEmpty
                { model := agreeing.getD m, agree := agreeing.isSome,
                  oracle := ((histOracle wl binds obs).orElse fun _ =>
                    if bindsOk wl.rangeStart wl.rangeEnd binds then none else some "auth-proxy-binds-inconsistent").orElse fun _ =>
                    if cfgOk then none else some "rendered-auth-proxy-differs-from-bind-list",
                  trivial := slotss.all fun ss => (slotPaths ss).all fun p => !declared p }
              | _, _ => bad "impl-output"
            | _ => bad "impl-output"
    | _, _ => bad "hist-parse"


/-! ### gateway mode: `converters.Sync()` over HTTPRoutes + Ingresses

`simulate` walks the routes the way `syncHTTPRoutes` / `syncRoute` / `syncHTTPRouteGateway` do (routes
in name order, parentRefs, listeners, rules) and yields the paths `createHTTPHosts` links (a path that
exists on the host is skipped) and the `ReadAnnotations` calls (`GwVisit`). -/

structure GwSvcTok where
  idx : Nat
  url : String
  plc : String
  oauth : String
  signin : String

structure GwRuleTok where
  mts : List (Nat × Char)
  svc : Nat

structure GwRouteTok where
  host : Nat
  parents : List (Nat × Nat)      -- gateway number, sectionName number (0 = none)
  rules : List GwRuleTok

/-- a path linked by the gateway converter -/
structure GwPath where
  host : Nat
  path : Nat
  typ : Char
  route : Nat      -- 1-based
  rule : Nat
  svc : Nat
  mapped : Bool    -- linked by the visit that created the backend
deriving Repr, DecidableEq

def parseGwSvc (s : String) : Option GwSvcTok :=
  match s.splitOn "." with
  | [i, u, c, o, g] => do pure { idx := ← i.toNat?, url := u, plc := c, oauth := o, signin := g }
  | _ => none

def parseMatches : List Char → Option (List (Nat × Char))
  | [] => some []
  | d :: t :: r => do
    let n ← (String.singleton d).toNat?
    if t = 'e' ∨ t = 'p' then (parseMatches r).map ((n, t) :: ·) else none
  | _ => none

def parseGwRule (s : String) : Option GwRuleTok :=
  match s.splitOn "~" with
  | [m, v] => do
    let ms ← parseMatches m.toList
    if ms.isEmpty then none else pure { mts := ms, svc := ← v.toNat? }
  | _ => none

def parseGwParent (s : String) : Option (Nat × Nat) :=
  match s.splitOn "s" with
  | [g] => g.toNat?.map (·, 0)
  | [g, l] => do
    let l ← l.toNat?
    if l = 0 then none else pure (← g.toNat?, l)
  | _ => none

def parseGwRoute (s : String) : Option GwRouteTok :=
  match s.splitOn "." with
  | [h, ps, rs] => do
    pure { host := ← h.toNat?, parents := ← (ps.splitOn "+").mapM parseGwParent,
           rules := ← (rs.splitOn "/").mapM parseGwRule }
  | _ => none

def gwBackendId (route rule : Nat) : Nat := 100 + route * 10 + rule
def gwBackendName (route rule : Nat) : String := "default_r" ++ toString route ++ "__rule" ++ toString rule

structure GwSim where
  paths : List GwPath := []
  visits : List GwVisit := []
  seen : List (Nat × Nat) := []      -- backends created so far
  pubs : List (Option String) := []  -- per visit: what `findBackend(default, /oauth2)` answers in it

def digitOf (c : Char) : Option Nat := if c.isDigit then some (c.toNat - '0'.toNat) else none

/-- one pass of the rule loop of `syncHTTPRouteGateway` for an accepting listener -/
def simRule (hostnames : List Nat) (k : Nat) (sim : GwSim) (jr : Nat × GwRuleTok) : GwSim :=
  let (j, r) := jr
  let isNew := !sim.seen.contains (k, j)
  let (paths, idxs) := r.mts.foldl (fun (acc : List GwPath × List Nat) (m : Nat × Char) =>
    hostnames.foldl (fun (acc : List GwPath × List Nat) (h : Nat) =>
      if acc.1.any (fun q => q.host == h && q.path == m.1 && q.typ == m.2) then acc
      else (acc.1 ++ [{ host := h, path := m.1, typ := m.2, route := k, rule := j, svc := r.svc, mapped := isNew }],
            acc.2 ++ [acc.1.length])) acc) (sim.paths, [])
  let pub := (paths.find? (·.path = 9)).map fun q => gwBackendName q.route q.rule
  { paths := paths, visits := sim.visits ++ [⟨gwBackendId k j, if isNew then idxs else []⟩],
    seen := if isNew then sim.seen ++ [(k, j)] else sim.seen, pubs := sim.pubs ++ [pub] }

def simulate (gws : List (List Char)) (routes : List GwRouteTok) : GwSim :=
  (routes.zipIdx).foldl (fun sim (rt, k0) =>
    rt.parents.foldl (fun sim (g, sect) =>
      match (if g = 0 then none else gws[g - 1]?) with
      | none => sim        -- `newGatewaySource` finds no such gateway
      | some ls =>
        (ls.zipIdx).foldl (fun sim (l, li) =>
          if (sect ≠ 0 ∧ sect ≠ li + 1) ∨ l = 'n' then sim
          else
            let hostnames := match digitOf l with | some d => [d] | none => [rt.host]
            (rt.rules.zipIdx.map fun (r, j) => (j, r)).foldl (simRule hostnames (k0 + 1)) sim) sim) sim) {}

/-- an auth-url of a Service as the gateway converter's `setAuthExternal` sees it: no service backend
`<ns>_<name>_<port>` exists yet (the ingress converter, which pre-builds them, runs later) -/
def gwUrl (xns : Bool) (s : String) : Option UrlAnn :=
  match urlOf xns s with
  | some (.val u) => some (.val (if u.proto = .svc then { u with svcFound := false, target := 0 } else u))
  | x => x

/-- `pub`: id of the backend serving /oauth2 when the annotation is processed -/
def gwOAuth (pub : Option String) : String → Option OAuthAnn
  | "-" => some .absent
  | "o" | "d" =>
    match pub with
    | some id => some (.val true true "/oauth2" id)
    | none => some (.val true false "/oauth2" "")
  | "m" => some (.val true false "/nope" "")
  | "u" | "e" => some (.val false false "/oauth2" "")
  | _ => none

def gwKeyOf (host path : Nat) : Option String :=
  (pathName path).map fun pn => "h" ++ toString host ++ ".local#" ++ pn

/-- the declared configuration of a path linked by a route: the annotations of the rule's Service -/
def gwPathIn (xns : Bool) (svcs : List GwSvcTok) (pubAt : Nat → Option String) (sim : GwSim) (q : GwPath)
    : Option PathIn := do
  let key ← gwKeyOf q.host q.path
  let _ ← svcName q.svc
  let base : PathIn :=
    { host := q.host, backend := gwBackendId q.route q.rule, ord := q.host * 16 + q.path, key := key,
      hamatch := if q.typ = 'e' then "str" else "dir", sub := if q.typ = 'e' then key else key ++ "/sub",
      url := .absent, plc := .absent, oauth := .absent, signin := false }
  match svcs.find? (·.idx = q.svc) with
  | none => pure base
  | some t =>
    -- the visit that created the backend of the rule is the one in which the annotations are read
    let vi := (sim.visits.findIdx? fun vis => vis.backend = gwBackendId q.route q.rule).getD 0
    let sg ← (match t.signin with | "-" => some false | "s" => some true | _ => none)
    pure { base with url := ← gwUrl xns t.url, plc := ← plcOf t.plc, oauth := ← gwOAuth (pubAt vi) t.oauth, signin := sg }

def gwBackendKey (b : Nat) : String :=
  if b ≥ 100 then "r" ++ toString ((b - 100) / 10) ++ "u" ++ toString ((b - 100) % 10) else "s" ++ toString b

def showGwPath (w : World) (st : St) (i : Nat) : String :=
  match w.paths[i]? with
  | none => ""
  | some p => "K=" ++ gwBackendKey p.backend ++ "@" ++ p.key ++ ";" ++ showPath w st i

def showGwState (w : World) (st : St) : String :=
  let recs := sortStrs ((List.range w.paths.length).map (showGwPath w st))
  (if recs.isEmpty then "-" else "|".intercalate recs) ++ "||" ++ showBinds st.binds

/-- `K=<key>;<record>` -/
def parseGwObs (s : String) : Option (String × Obs) :=
  match s.splitOn ";" with
  | k :: rest => do
    let k ← field "K=" k
    pure (k, ← parseObs (";".intercalate rest))
  | _ => none

def handleGw (glob gws svcs routes ings impl : String) : Verdict :=
  match parseGlob glob with
  | none => bad "gw-glob"
  | some (x, l, xns, rs, re) =>
    let gwl := (gws.splitOn "+").map String.toList
    let svcl : Option (List GwSvcTok) := if svcs = "-" then some [] else (svcs.splitOn ",").mapM parseGwSvc
    let rtl := (routes.splitOn ",").mapM parseGwRoute
    let ingl : Option (List IngTok) := if ings = "-" then some [] else (ings.splitOn ",").mapM parseIng
    match svcl, rtl, ingl with
    | some svcl, some rtl, some ingl =>
      if gwl.any (fun g => g.isEmpty || g.any fun c => !(c = 'a' || c = 'n' || c.isDigit)) then bad "gw-gateways" else
      -- backend ids r<k>u<j> are one digit each
      if rtl.length > 9 || rtl.any (fun r => r.rules.length > 9) then bad "gw-scope-too-many-routes-or-rules" else
      let sim := simulate gwl rtl
      let ngw := sim.paths.length
      -- who serves /oauth2: one publisher at most, a route or an Ingress
      let ingPub := (ingl.find? (·.path = 9)).bind fun g => (svcName g.svc).map fun n => "default_" ++ n ++ "_8080"
      let gwPubFinal := (sim.paths.find? (·.path = 9)).map fun q => gwBackendName q.route q.rule
      let pubAt (vi : Nat) : Option String := (sim.pubs[vi]?).join
      let allKeys := sim.paths.map (fun q => (q.host, q.path)) ++ ingl.map (fun g => (g.host, g.path))
      if !allKeys.Nodup then bad "gw-scope-duplicate-host-path" else
      -- `findBackend` walks a Go map of hosts: every /oauth2 path must lead to the same backend
      let pubNames := ((sim.paths.filter (·.path = 9)).map fun q => gwBackendName q.route q.rule) ++
        (ingl.filter (·.path = 9)).filterMap fun g => (svcName g.svc).map fun n => "default_" ++ n ++ "_8080"
      if pubNames.eraseDups.length > 1 then bad "gw-scope-two-oauth2-publishers" else
      -- an Ingress path also reads the annotations of its Service: the control uses plain Services
      if ingl.any (fun g => svcl.any (·.idx = g.svc)) then bad "gw-scope-ingress-on-annotated-service" else
      match sim.paths.mapM (gwPathIn xns svcl pubAt sim),
            ingl.mapM (fun g => (pathOf xns ingl g).bind fun p =>
              (gwOAuth (gwPubFinal.orElse fun _ => ingPub) g.oauth).map fun o => { p with oauth := o }) with
      | some gps, some ips =>
        let w : World := { isExternal := x, hasLua := l, rangeStart := rs, rangeEnd := re, paths := gps ++ ips }
        let ing := (List.range ips.length).map (· + ngw)
        let origins := sim.paths.map (fun q => Origin.route q.mapped) ++ ips.map (fun _ => Origin.ingress)
        let ihosts := (ips.map (·.host)).eraseDups
        let ibacks := (ips.map (·.backend)).eraseDups
        let outs := (perms ihosts).flatMap fun ho => (perms ibacks).map fun bo =>
          showGwState w (gwSync currentAuthStep currentVariant w sim.visits ing ho bo)
        let m := outs.headD ""
        if impl = "PANIC" then { model := m, agree := false, oracle := some "panic-in-updater" } else
        match impl.splitOn "||" with
        | [ps, bs] =>
          match (if ps = "-" then some [] else (ps.splitOn "|").mapM parseGwObs), parseBinds bs with
          | some kobs, some binds =>
            let agreeing := outs.find? (· = impl)
            -- the observation of each model path, by key; a path the implementation does not have
            -- is reported as a disagreement, the Spec is evaluated on what exists
            let obsOfKey (p : PathIn) : Option Obs :=
              (kobs.find? fun ko => ko.1 = gwBackendKey p.backend ++ "@" ++ p.key).map (·.2)
            let triples := ((w.paths.zip origins).filterMap fun (p, og) => (obsOfKey p).map fun o => (p, og, o))
            let wl : World := { w with paths := triples.map (·.1) }
            { model := agreeing.getD m, agree := agreeing.isSome,
              oracle := gwOracle wl binds (triples.map (·.2.1)) (triples.map (·.2.2)),
              trivial := w.paths.all fun p => !declared p }
          | _, _ => bad "impl-output"
        | _ => bad "impl-output"
      | _, _ => bad "gw-parse"
    | _, _, _ => bad "gw-parse"

/-! ### oauth lookup mode: literal paths around the uri prefix, two namespaces

`<ing>` = `<ns>.<host>.<path>.<match>.<svc>.<url>.<oauth>.<pfx>`: namespace (0 default, 1 other), host
h<host>.local, the declared path as it is written (no `.`, `,` or blank), path type b|p|e, service
svc<svc> of the namespace (backend `<ns>_svc<svc>_8080`), auth-url key (IP-literal or invalid URLs only:
what they mean does not depend on the namespace), oauth key (`-` absent, o/d accepted names, u/e refused),
oauth-uri-prefix (`-` absent, `e` present and empty, else the value).  Placement is never set. -/

/-- the comparison the tree under test has inside the loop of `findBackend`, read from the
regenerated facts -/
def currentPathTest : PathTest :=
  if Facts.c18FindBackendConds.any (fun s => isInfix "strings.HasPrefix(path.Path(), uriPrefix)".toList s.toList) then .hasPrefix
  else .eqTrim

structure OaTok where
  ns : Nat
  host : Nat
  path : String
  mtch : String
  svc : Nat
  url : String
  oauth : String
  pfx : String
deriving Repr, DecidableEq

def parseOaTok (s : String) : Option OaTok :=
  match s.splitOn "." with
  | [n, h, p, m, v, u, o, x] => do
    let n ← n.toNat?
    let h ← h.toNat?
    let v ← v.toNat?
    if n > 1 || h > 9 || v > 9 || !p.startsWith "/" then none
    else pure { ns := n, host := h, path := p, mtch := m, svc := v, url := u, oauth := o, pfx := x }
  | _ => none

def oaNs : Nat → String
  | 0 => "default"
  | _ => "other"

def oaHost (h : Nat) : String := "h" ++ toString h ++ ".local"

def oaPub (g : OaTok) : Pub :=
  { host := oaHost g.host, path := g.path, ns := oaNs g.ns,
    backend := oaNs g.ns ++ "_svc" ++ toString g.svc ++ "_8080" }

/-- outer `none`: token outside the grammar -/
def oaDeclOf (g : OaTok) : Option (Option OAuthDecl) :=
  let pfx : Option (Option String) :=
    if g.pfx = "-" then some none
    else if g.pfx = "e" then some (some "")
    else if g.pfx.startsWith "/" then some (some g.pfx)
    else none
  match g.oauth with
  | "-" => pfx.map fun _ => none
  | "o" | "d" => pfx.map fun a => some ⟨true, a⟩
  | "u" | "e" => pfx.map fun a => some ⟨false, a⟩
  | _ => none

def oaUrlOk (u : String) : Bool := ["-", "e", "h1", "h2", "hs", "hq", "bp", "mf", "sq"].contains u

/-- position of the path in `Backend.Paths` order (hostname, path ascending) -/
def oaOrd (toks : List OaTok) (g : OaTok) : Nat :=
  toks.countP fun g' =>
    decide (oaHost g'.host < oaHost g.host) || (g'.host == g.host && decide (g'.path < g.path))

def oaPathIn (t : PathTest) (toks : List OaTok) (g : OaTok) : Option (PathIn × OaDecl) := do
  let hm ← (match g.mtch with | "b" => some "beg" | "p" => some "dir" | "e" => some "str" | _ => none)
  let d ← oaDeclOf g
  if !oaUrlOk g.url then none
  let url ← urlOf false g.url
  let pubs := toks.map oaPub
  let key := oaHost g.host ++ "#" ++ g.path
  pure ({ host := g.host, backend := g.ns * 10 + g.svc, ord := oaOrd toks g, key := key, hamatch := hm,
          sub := if g.mtch = "e" then key else key ++ "/sub", url := url, plc := .absent,
          oauth := (match d with | some d => oauthAnnOf t pubs (oaNs g.ns) d | none => .absent),
          signin := false },
        { ns := oaNs g.ns, oauth := d })

def handleOa (glob ings impl : String) : Verdict :=
  match parseGlob glob, (ings.splitOn ",").mapM parseOaTok with
  | some (x, l, _, rs, re), some toks =>
    if !(toks.map fun g => (g.host, g.path)).Nodup then bad "oa-scope-duplicate-host-path" else
    match toks.mapM (oaPathIn currentPathTest toks) with
    | none => bad "oa-parse"
    | some pds =>
      let w : World := { isExternal := x, hasLua := l, rangeStart := rs, rangeEnd := re, paths := pds.map (·.1) }
      let decls := pds.map (·.2)
      let pubs := toks.map oaPub
      let outs := (hostOrders w (hostsOf w)).flatMap fun ho => (backOrders w (backendsOf w)).map fun bo =>
        showState w (run currentVariant w ho bo)
      let m := outs.headD ""
      if impl = "PANIC" then { model := m, agree := false, oracle := some "panic-in-updater" } else
      match impl.splitOn "||" with
      | [ps, bs] =>
        match (ps.splitOn "|").mapM parseObs, parseBinds bs with
        | some obs, some binds =>
          if obs.length ≠ w.paths.length then bad "impl-paths" else
          let agreeing := outs.find? (· = impl)
          { model := agreeing.getD m, agree := agreeing.isSome,
            oracle := (oaOracle pubs w binds decls obs).orElse fun _ =>
              if bindsOk w.rangeStart w.rangeEnd binds then none else some "auth-proxy-binds-inconsistent",
            trivial := (w.paths.zip decls).all fun (p, d) => !oaDeclared p d }
        | _, _ => bad "impl-output"
      | _ => bad "impl-output"
  | _, _ => bad "oa-parse"

/-! ### class parameters mode: auth declared through IngressClass `spec.parameters`

`<params>` = `<url>.<plc>.<oauth>.<signin>[.m]` (data of the ConfigMap of class c1; `.m`: auth-method too),
`<svcanns>` = `-` | `<svc>:<ann>+...`, `<ing>` = `<class>~<ann>~<host>.<path>.<match>.<svc>+...` with class
0 (none) | 1 (c1, parameters) | 2 (c2, no parameters).  Scope: placement `frontend` is never used (the host
mapper receives neither Service annotations nor class parameters), oauth `m` neither. -/

/-- when the tree under test merges the class parameters, read from the regenerated facts -/
def currentClsMerge : ClsMerge :=
  if Facts.c18ClassMergeConds.any (fun s => isInfix "!found".toList s.toList) then .firstOnly else .everyPath

structure ClsPathTok where
  host : Nat
  path : Nat
  mtch : String
  svc : Nat
deriving Repr, DecidableEq

structure ClsIngTok where
  cls : Nat
  ann : String
  paths : List ClsPathTok
deriving Repr, DecidableEq

def parseClsPath (s : String) : Option ClsPathTok :=
  match s.splitOn "." with
  | [h, p, m, v] => do pure { host := ← h.toNat?, path := ← p.toNat?, mtch := m, svc := ← v.toNat? }
  | _ => none

def parseClsIng (s : String) : Option ClsIngTok :=
  match s.splitOn "~" with
  | [c, a, ps] => do
    let c ← c.toNat?
    if c > 2 then none else pure { cls := c, ann := a, paths := ← (ps.splitOn "+").mapM parseClsPath }
  | _ => none

/-- an auth-url as `setAuthExternal` sees it: the service backend of a `svc://` URL is pre-built by
`syncIngressHTTP` from the INGRESS annotation only (`annBack[ingtypes.BackAuthURL]`); `pre` = the auth
services some Ingress annotation of the scenario names.  From the Service annotations or the class
parameters alone the backend does not exist and the path is denied -/
def clsUrl (xns : Bool) (pre : List String) (s : String) : Option UrlAnn :=
  match (authLinkOf s).1 with
  | some k => if pre.contains k then urlOf xns s else gwUrl xns s
  | none => urlOf xns s

/-- the keys of one source; `pub` = backend published at /oauth2 -/
def clsAnnOf (xns : Bool) (pre : List String) (pub : Option String) (s : String) : Option AnnSet :=
  match s.splitOn "." with
  | [u, c, o, g] => do
    if c = "f" || c = "F" || o = "m" then none
    let sg ← (match g with | "-" => some false | "s" => some true | _ => none)
    pure { url := ← clsUrl xns pre u, plc := ← plcOf c, oauth := ← gwOAuth pub o, signin := sg }
  | _ => none

def clsBase (q : ClsPathTok) : Option PathIn := do
  let pn ← pathName q.path
  let _ ← svcName q.svc
  let hm ← (match q.mtch with | "b" => some "beg" | "p" => some "dir" | "e" => some "str" | _ => none)
  let key := "h" ++ toString q.host ++ ".local#" ++ pn
  pure { host := q.host, backend := q.svc, ord := q.host * 16 + q.path, key := key, hamatch := hm,
         sub := if q.mtch = "e" then key else key ++ "/sub",
         url := .absent, plc := .absent, oauth := .absent, signin := false }

/-- the declared paths of one ingress with their sources -/
def clsPathsOf (xns : Bool) (pre : List String) (pub : Option String) (pa : AnnSet) (svcl : List (Nat × AnnSet)) (g : ClsIngTok) :
    Option (List ClsPath) := do
  let ia ← clsAnnOf xns pre pub g.ann
  g.paths.mapM fun (q : ClsPathTok) => do
    let b ← clsBase q
    let sa : AnnSet := match svcl.find? (fun (e : Nat × AnnSet) => e.1 = q.svc) with
      | some e => e.2
      | none => {}
    pure ({ base := b, svcAnn := sa, ingAnn := ia, clsAnn := if g.cls = 1 then some pa else none } : ClsPath)

def handleCls (glob params svcs ings impl : String) : Verdict :=
  match parseGlob glob, (ings.splitOn ",").mapM parseClsIng with
  | some (x, l, xns, rs, re), some toks =>
    let allPaths := toks.flatMap (·.paths)
    if !(allPaths.map fun q => (q.host, q.path)).Nodup then bad "cls-scope-duplicate-host-path" else
    let pubNames := (allPaths.filter (·.path = 9)).filterMap fun q => (svcName q.svc).map fun n => "default_" ++ n ++ "_8080"
    if pubNames.eraseDups.length > 1 then bad "cls-scope-two-oauth2-publishers" else
    let pub := pubNames.head?
    let pre := toks.filterMap fun g => (authLinkOf ((g.ann.splitOn ".").headD "-")).1
    let params4 := match params.splitOn "." with
      | [u, c, o, g, "m"] => ".".intercalate [u, c, o, g]
      | _ => params
    let svcl : Option (List (Nat × AnnSet)) :=
      if svcs = "-" then some [] else (svcs.splitOn "+").mapM fun t =>
        match t.splitOn ":" with
        | [k, a] => do pure (← k.toNat?, ← clsAnnOf xns pre pub a)
        | _ => none
    match clsAnnOf xns pre pub params4, svcl with
    | some pa, some svcl =>
      let qs : Option (List ClsPath) := (toks.mapM (clsPathsOf xns pre pub pa svcl)).map List.flatten
      match qs with
      | none => bad "cls-parse"
      | some qs =>
        let w : World := { isExternal := x, hasLua := l, rangeStart := rs, rangeEnd := re, paths := effPaths currentClsMerge qs }
        let wS : World := { w with paths := specPaths qs }
        let outs := (hostOrders w (hostsOf w)).flatMap fun ho => (backOrders w (backendsOf w)).map fun bo =>
          showState w (run currentVariant w ho bo)
        let m := outs.headD ""
        if impl = "PANIC" then { model := m, agree := false, oracle := some "panic-in-updater" } else
        match impl.splitOn "||" with
        | [ps, bs] =>
          match (ps.splitOn "|").mapM parseObs, parseBinds bs with
          | some obs, some binds =>
            if obs.length ≠ qs.length then bad "impl-paths" else
            let agreeing := outs.find? (· = impl)
            { model := agreeing.getD m, agree := agreeing.isSome,
              oracle := (clsOracle wS binds qs obs).orElse fun _ =>
                if bindsOk w.rangeStart w.rangeEnd binds then none else some "auth-proxy-binds-inconsistent",
              trivial := wS.paths.all fun p => !declared p }
          | _, _ => bad "impl-output"
        | _ => bad "impl-output"
    | _, _ => bad "cls-parse"
  | _, _ => bad "cls-parse"

/-! ### entry -/

def handle (args : List String) (impl : String) : Verdict :=
  match args with
  | ["alloc", rs, re, ops] =>
    if impl = "PANIC" then { model := "-", agree := false, oracle := some "panic-in-frontend" } else
    handleAlloc rs re ops impl
  | ["hist", glob, ings, ops] => handleHist glob ings ops impl
  | ["gw", glob, gws, svcs, routes, ings] => handleGw glob gws svcs routes ings impl
  | ["oa", glob, ings] => handleOa glob ings impl
  | ["cls", glob, params, svcs, ings] => handleCls glob params svcs ings impl
  | [glob, ings] =>
    match parseWorld glob ings with
    | none => bad "parse"
    | some w =>
      -- Go map iteration: any order of the hosts and of the backends is a legal run
      let outs := (perms (hostsOf w)).flatMap fun ho => (perms (backendsOf w)).map fun bo =>
        showState w (run currentVariant w ho bo)
      let m := outs.headD ""
      if impl = "PANIC" then { model := m, agree := false, oracle := some "panic-in-updater" } else
      match impl.splitOn "||" with
      | [ps, bs] =>
        match (ps.splitOn "|").mapM parseObs, parseBinds bs with
        | some obs, some binds =>
          if obs.length ≠ w.paths.length then bad "impl-paths" else
          let agreeing := outs.find? (· = impl)
          { model := agreeing.getD m, agree := agreeing.isSome,
            oracle := (oracle w binds obs).orElse fun _ =>
              if bindsOk w.rangeStart w.rangeEnd binds then none else some "auth-proxy-binds-inconsistent",
            trivial := w.paths.all fun p => !declared p }
        | _, _ => bad "impl-output"
      | _ => bad "impl-output"
  | _ => bad "C18"

end HapVerif.C18
