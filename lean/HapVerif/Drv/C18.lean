import HapVerif.Model.C18
import HapVerif.Drv.Common
namespace HapVerif.C18
open HapVerif.Drv

def handle (_args : List String) (_impl : String) : Verdict := bad "C18-not-implemented"

end HapVerif.C18
