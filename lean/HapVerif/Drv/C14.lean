import HapVerif.Model.C14
import HapVerif.Drv.Common
namespace HapVerif.C14
open HapVerif.Drv

def handle (_args : List String) (_impl : String) : Verdict := bad "C14-not-implemented"

end HapVerif.C14
