import HapVerif.Model.C14
import HapVerif.Drv.Common
/-!
Line protocol of C14.

`C14 seq <cfg> <ops> => acc=<bits>;q=<bits>;<batch>;<batch>…`
`C14 conc <cfg> <ops>/<ops>/… => acc=<bits>;q=<nfull>.<n>;<batch>;…`   (one op group per goroutine, no swaps)

* cfg: six 0/1 characters `epSlice hasA2 hasB1 hasV1 hasTCPR publish`
* op: `S` (swap) or `kind.typ.ns.name.label.vOld.vNew.changed.data` (`-` = none); the event id is the
  position of the op in the whole list
* batch: `gCur|gNew|tCur|tNew|full|typed|objects|links`, data `-`/`e`/`d<k>`,
  typed `Field:3n.5o+Field:…` (fields sorted by name), objects `add/Ingress:n0/o1,…` (slice order),
  links `Ingress=n0/o1,n0/o2+Service=…` (resources sorted by name)
-/
namespace HapVerif.C14
open HapVerif.Drv

/-! ### rendering -/

def Res.str : Res → String
  | .configMap => "ConfigMap" | .service => "Service" | .endpoints => "Endpoints"
  | .secret => "Secret" | .pod => "Pod" | .ingress => "Ingress" | .ingressClass => "IngressClass"
  | .gateway => "Gateway" | .gatewayClass => "GatewayClass" | .httpRoute => "HTTPRoute"
  | .tcpRoute => "TCPRoute"

def allRes : List Res :=
  [.configMap, .service, .endpoints, .secret, .pod, .ingress, .ingressClass, .gateway,
   .gatewayClass, .httpRoute, .tcpRoute]

def Act.str : Act → String | .add => "add" | .upd => "update" | .del => "del"
def Act.suffix : Act → String | .add => "Add" | .upd => "Upd" | .del => "Del"
def Fam.str : Fam → String
  | .ing => "Ingresses" | .gwA2 => "GatewaysA2" | .gwclsA2 => "GatewayClassesA2"
  | .gwB1 => "GatewaysB1" | .gwclsB1 => "GatewayClassesB1"

def allFields : List (Fam × Act) :=
  ([Fam.ing, .gwA2, .gwclsA2, .gwB1, .gwclsB1].flatMap fun f => [Act.add, .upd, .del].map fun a => (f, a))

def fieldName (fa : Fam × Act) : String := fa.1.str ++ fa.2.suffix

def sortedFields : List (Fam × Act) := allFields.mergeSort (fun a b => fieldName a ≤ fieldName b)
def sortedRes : List Res := allRes.mergeSort (fun a b => a.str ≤ b.str)

def Name.str (n : Name) : String :=
  (match n.ns with | some k => "n" ++ toString k ++ "/" | none => "") ++ "o" ++ toString n.name

def dataStr : Option Nat → String
  | none => "-" | some 0 => "e" | some k => "d" ++ toString k

def orDash (s : String) : String := if s = "" then "-" else s

def Entry.str (x : Entry) : String := toString x.id ++ (if x.old then "o" else "n")

def typedStr (l : List Entry) : String :=
  orDash ("+".intercalate (sortedFields.filterMap fun fa =>
    let xs := l.filter (fun x => x.fam = fa.1 ∧ x.act = fa.2)
    if xs.isEmpty then none else some (fieldName fa ++ ":" ++ ".".intercalate (xs.map Entry.str))))

def Descr.str (d : Descr) : String := d.1.str ++ "/" ++ d.2.1.str ++ ":" ++ d.2.2.str

def linksStr (l : List Link) : String :=
  orDash ("+".intercalate (sortedRes.filterMap fun r =>
    let xs := l.filter (fun x => x.1 = r)
    if xs.isEmpty then none else some (r.str ++ "=" ++ ",".intercalate (xs.map (·.2.str)))))

def Batch.str (b : Batch) : String :=
  "|".intercalate [dataStr b.gCur, dataStr b.gNew, dataStr b.tCur, dataStr b.tNew,
    (if b.full then "1" else "0"), typedStr b.typed,
    orDash (",".intercalate (b.objects.map Descr.str)), linksStr b.links]

def bitsStr (l : List Bool) : String := orDash (String.ofList (l.map fun b => if b then '1' else '0'))

/-! ### parsing -/

def parseBit : String → Option Bool | "0" => some false | "1" => some true | _ => none

def parseBits (s : String) : Option (List Bool) :=
  if s = "-" then some [] else s.toList.mapM fun c => if c = '0' then some false else if c = '1' then some true else none

def parseOptNat (s : String) : Option (Option Nat) := if s = "-" then some none else s.toNat?.map some

def parseKind : String → Option Kind
  | "cm" => some .cm | "svc" => some .svc | "ep" => some .ep | "eps" => some .eps
  | "secret" => some .secret | "pod" => some .pod | "ing" => some .ing | "ingcls" => some .ingcls
  | "gwA2" => some .gwA2 | "gwclsA2" => some .gwclsA2 | "hrA2" => some .hrA2
  | "gwB1" => some .gwB1 | "gwclsB1" => some .gwclsB1 | "hrB1" => some .hrB1
  | "gwV1" => some .gwV1 | "gwclsV1" => some .gwclsV1 | "hrV1" => some .hrV1
  | "tcpr" => some .tcpr | _ => none

def parseTyp : String → Option EvT
  | "c" => some .create | "u" => some .update | "d" => some .delete | "g" => some .generic
  | "D" => some .delete   -- a delete with DeleteStateUnknown (tombstone): the same event for the batch
  | _ => none

def parseOp (id : Nat) (s : String) : Option Op :=
  if s = "S" then some .swap else
  match s.splitOn "." with
  | [k, t, ns, name, label, vo, vn, ch, data] => do
    pure (.ev { id := id, kind := ← parseKind k, typ := ← parseTyp t, ns := ← parseOptNat ns,
                name := ← name.toNat?, label := ← parseOptNat label, vOld := ← parseBit vo,
                vNew := ← parseBit vn, changed := ← parseBit ch, data := ← parseOptNat data })
  | _ => none

def parseOpsFrom (start : Nat) (s : String) : Option (List Op) :=
  if s = "-" ∨ s = "" then some [] else
  ((s.splitOn ",").zipIdx start).mapM fun (t, i) => parseOp i t

/-- goroutine groups separated by `/`; ids run over the concatenation -/
def parseGroups (s : String) : Option (List (List Op)) :=
  let r : Option (List (List Op) × Nat) :=
    (s.splitOn "/").foldlM (init := (([] : List (List Op)), 0)) fun acc g => do
      let ops ← parseOpsFrom acc.2 g
      pure (acc.1 ++ [ops], acc.2 + ops.length)
  r.map (·.1)

def parseCfg (s : String) : Option Cfg :=
  match s.toList.map (· == '1') with
  | [a, b, c, d, e, f] => some { epSlice := a, hasA2 := b, hasB1 := c, hasV1 := d, hasTCPR := e, publish := f }
  | _ => none

def parseData (s : String) : Option (Option Nat) :=
  if s = "-" then some none else if s = "e" then some (some 0)
  else if s.startsWith "d" then (s.drop 1).toNat?.bind fun k => if k = 0 then none else some (some k)
  else none

def parseName (s : String) : Option Name :=
  let nm (t : String) : Option Nat := if t.startsWith "o" then (t.drop 1).toNat? else none
  match s.splitOn "/" with
  | [o] => (nm o).map fun k => { ns := none, name := k }
  | [n, o] => if n.startsWith "n" then do pure { ns := some (← (n.drop 1).toNat?), name := ← nm o } else none
  | _ => none

def parseRes (s : String) : Option Res := allRes.find? (·.str = s)
def parseField (s : String) : Option (Fam × Act) := allFields.find? (fieldName · = s)

def parseEntry (fa : Fam × Act) (s : String) : Option Entry :=
  if s.endsWith "n" then (s.dropEnd 1).toNat?.map fun i => ⟨fa.1, fa.2, i, false⟩
  else if s.endsWith "o" then (s.dropEnd 1).toNat?.map fun i => ⟨fa.1, fa.2, i, true⟩
  else none

def parseTyped (s : String) : Option (List Entry) :=
  if s = "-" then some [] else
  (s.splitOn "+").foldlM (init := []) fun acc g =>
    match g.splitOn ":" with
    | [f, xs] => do
      let fa ← parseField f
      let es ← (xs.splitOn ".").mapM (parseEntry fa)
      pure (acc ++ es)
    | _ => none

def parseDescr (s : String) : Option Descr :=
  match s.splitOn ":" with
  | [h, n] =>
    match h.splitOn "/" with
    | [a, r] => do
      let a ← (match a with | "add" => some Act.add | "update" => some Act.upd | "del" => some Act.del | _ => none)
      pure (a, ← parseRes r, ← parseName n)
    | _ => none
  | _ => none

def parseLinks (s : String) : Option (List Link) :=
  if s = "-" then some [] else
  (s.splitOn "+").foldlM (init := []) fun acc g =>
    match g.splitOn "=" with
    | [r, xs] => do
      let r ← parseRes r
      let ns ← (xs.splitOn ",").mapM parseName
      pure (acc ++ ns.map fun n => (r, n))
    | _ => none

def parseBatch (s : String) : Option Batch :=
  match s.splitOn "|" with
  | [gc, gn, tc, tn, full, typed, objs, links] => do
    pure { gCur := ← parseData gc, gNew := ← parseData gn, tCur := ← parseData tc, tNew := ← parseData tn,
           full := ← parseBit full, typed := ← parseTyped typed,
           objects := ← parseList parseDescr objs, links := ← parseLinks links }
  | _ => none

/-- `acc=…;q=…;batches` -/
def parseImpl (s : String) : Option (List Bool × String × List Batch) :=
  match s.splitOn ";" with
  | a :: q :: bs =>
    if a.startsWith "acc=" ∧ q.startsWith "q=" then do
      pure (← parseBits (a.drop 4).toString, (q.drop 2).toString, ← bs.mapM parseBatch)
    else none
  | _ => none

/-- canonical form of a batch whose slices were filled in an unknown order is not needed: the
typed lists, `Objects` and each `Links[r]` are slices and the sequential order is deterministic -/
def events (ops : List Op) : List Event := eventsOf ops

/-- acceptance as observed: the i-th event was accepted iff the i-th bit is set -/
def accObserved (ops : List Op) (bits : List Bool) : Event → Bool :=
  let ids := ((events ops).zip bits).filterMap fun (e, b) => if b then some e.id else none
  fun e => ids.contains e.id

/-! ### concurrent run: what is checked on the observed batches -/

def oracleConc (acc : Event → Bool) (groups : List (List Op)) (bs : List Batch) (nfull n : Nat) : Option String :=
  let evs := (events groups.flatten).filter acc
  let nong := evs.filter (·.typ ≠ .generic)
  let allTyped := bs.flatMap (·.typed)
  let where_ (p : Batch → Bool) : List Nat := (bs.zipIdx.filter (fun bi => p bi.1)).map (·.2)
  -- exactly once
  if nong.any (fun e => !(bs.any fun b => b.links.contains (linkOf e))) then some "event-lost-link"
  else if nong.any (fun e => isFlip e && (match specEntry e with
      | some x => !(allTyped.contains x) && allTyped.any (fun y => y.id == e.id)
      | none => false)) then
    some "class-transition-misclassified"
  else if nong.any (fun e => match specEntry e with | some x => !(allTyped.contains x) | none => false) then some "event-lost-entry"
  else if allTyped.any (fun x => allTyped.count x ≠ 1) then some "event-duplicated"
  else if allTyped.any (fun x => !(nong.any fun e => specEntry e == some x)) then some "event-phantom-entry"
  else if nong.any (fun e => !isFlip e && !(bs.any fun b => b.objects.contains (specDescr e))) then some "event-lost-description"
  else if nong.any (fun e => isFlip e && !(bs.any fun b => b.objects.any fun d => d.2 == linkOf e)) then some "event-lost-description"
  else if bs.any (fun b => b.links.any (fun x => b.links.count x ≠ 1) || b.objects.any (fun x => b.objects.count x ≠ 1)) then
    some "event-duplicated-link"
  else if bs.any (fun b => b.links.any fun x => !(nong.any fun e => linkOf e == x)) then some "event-phantom-link"
  else if bs.any (fun b => b.objects.any fun x => !(nong.any fun e => specDescr e == x || (isFlip e && linkOf e == x.2))) then
    some "event-phantom-description"
  -- an event whose link and description are unique among the sent events lands in ONE batch, whole
  else
    let uniq := nong.filter fun e => (nong.filter fun e' => linkOf e' == linkOf e).length = 1
    if uniq.any (fun e =>
        let wl := where_ (fun b => b.links.contains (linkOf e))
        let wd := where_ (fun b => b.objects.any fun d => d.2 == linkOf e)
        let we := match specEntry e with | some x => where_ (fun b => b.typed.contains x) | none => wl
        wl.length ≠ 1 || wd ≠ wl || we ≠ wl) then some "event-split-across-batches"
    -- per-goroutine (per-kind informer) order is kept
    else if groups.any (fun g =>
        let idx := ((events g).filter (fun e => acc e && uniq.any (·.id == e.id))).filterMap fun e =>
          (where_ (fun b => b.links.contains (linkOf e))).head?
        !(idx.zip (idx.drop 1)).all fun (a, b) => a ≤ b) then some "event-reordered"
    else if !checkChain none none bs then some "configmap-chain-broken"
    else if bs.any (fun b => (match b.gNew with | some d => !(evs.any fun e => setsCm true e && e.data.getD 0 == d) | none => false)
                          || (match b.tNew with | some d => !(evs.any fun e => setsCm false e && e.data.getD 0 == d) | none => false)) then
      some "configmap-data-wrong"
    else
      let fin (g : Bool) : Option Nat := bs.foldl (fun cur b => pick (if g then b.gNew else b.tNew) cur) none
      let want (g : Bool) : Option Nat := (evs.filter (setsCm g)).getLast?.map (·.data.getD 0)
      if fin true ≠ want true || fin false ≠ want false then
        some "configmap-final-data-wrong"
      else if bs.any (·.full) ≠ evs.any (fun e => e.typ = .generic || e.kind.full) then some "fullsync-flag-wrong"
      else if n ≠ evs.length || nfull ≠ (evs.filter (·.kind.full)).length then some "notify-wrong"
      else if nong.any (fun e => isFlip e && !(bs.any fun b => b.objects.contains (specDescr e))) then
        some "class-transition-described-as-update"
      else none

def sortEntries (l : List Entry) : List String := (l.map fun x => fieldName (x.fam, x.act) ++ ":" ++ x.str).mergeSort (· ≤ ·)

def handle (args : List String) (impl : String) : Verdict :=
  match args with
  | ["seq", cfg, opss] =>
    match parseCfg cfg, parseOpsFrom 0 opss with
    | some c, some ops =>
      let r := run c ops
      let m := ";".intercalate (("acc=" ++ bitsStr ((events ops).map (accepts c))) :: ("q=" ++ bitsStr r.2.q) ::
                r.1.map Batch.str)
      if impl = "PANIC" then { model := m, agree := false, oracle := some "panic" } else
      match parseImpl impl with
      | some (bits, q, bs) =>
        let accepted := (events ops).filter (accepts c)
        { model := m, agree := m = impl,
          oracle := match parseBits q with
            | some q => oracle (accObserved ops bits) ops bs q
            | none => some "unparsable-output",
          trivial := accepted.length < 2 || !(ops.contains .swap) }
      | none => { model := m, agree := false, oracle := some "unparsable-output" }
    | _, _ => bad "parse"
  | ["conc", cfg, gs] =>
    match parseCfg cfg, parseGroups gs with
    | some c, some groups =>
      let evs := events groups.flatten
      let accepted := evs.filter (accepts c)
      let want := sortEntries (accepted.filterMap entryOf)
      let nfull := (accepted.filter (·.kind.full)).length
      let m := "acc=" ++ bitsStr (evs.map (accepts c)) ++ ";q=" ++ toString nfull ++ "." ++ toString accepted.length ++
               ";entries=" ++ toString want.length
      if impl = "PANIC" then { model := m, agree := false, oracle := some "panic" } else
      match parseImpl impl with
      | some (bits, q, bs) =>
        let got := sortEntries (bs.flatMap (·.typed))
        let nong := accepted.filter (·.typ ≠ .generic)
        let sameSet {α} [BEq α] (a b : List α) : Bool := a.all b.contains && b.all a.contains
        let qq := (q.splitOn ".").map String.toNat?
        { model := m,
          agree := bits = evs.map (accepts c) && qq = [some nfull, some accepted.length] && got = want
                   && sameSet (bs.flatMap (·.links)) (nong.map linkOf)
                   && sameSet (bs.flatMap (·.objects)) (nong.map descrOf),
          oracle := match qq with
            | [some nf, some n] => oracleConc (accObserved groups.flatten bits) groups bs nf n
            | _ => some "unparsable-output",
          trivial := accepted.length < 2 || bs.length < 2 }
      | none => { model := m, agree := false, oracle := some "unparsable-output" }
    | _, _ => bad "parse"
  | _ => bad "C14"

end HapVerif.C14
