import HapVerif.Model.C19
import HapVerif.Drv.Common
namespace HapVerif.C19
open HapVerif.Drv

def hexDigit? (c : Char) : Option Nat :=
  if '0' ≤ c ∧ c ≤ '9' then some (c.toNat - '0'.toNat)
  else if 'a' ≤ c ∧ c ≤ 'f' then some (c.toNat - 'a'.toNat + 10)
  else none

def hexPairs : List Char → Option Str
  | [] => some []
  | a :: b :: r => do
    let x ← hexDigit? a
    let y ← hexDigit? b
    let t ← hexPairs r
    pure ((16 * x + y) :: t)
  | _ => none

/-- `h<hex>` -> bytes -/
def parseStr (s : String) : Option Str :=
  match s.toList with
  | 'h' :: r => hexPairs r
  | _ => none

def hexChar (n : Nat) : Char := if n < 10 then Char.ofNat (48 + n) else Char.ofNat (87 + n)

def showStr (s : Str) : String :=
  String.ofList ('h' :: s.flatMap fun b => [hexChar (b / 16), hexChar (b % 16)])

def showList (l : List Str) : String := if l = [] then "-" else ",".intercalate (l.map showStr)

def parseAnn (s : String) : Option (String × Str) :=
  match s.splitOn ":" with
  | [l, v] => do pure (l, ← parseStr v)
  | _ => none

def srcLabel : Option String → String
  | none => "g"
  | some l => l

def showWhy : Outcome → String
  | .skipStar s => "star@" ++ srcLabel s
  | .skipKw s k => "kw:" ++ showStr k ++ "@" ++ srcLabel s
  | _ => "-"

def showOutcome (o : Outcome) : String := showList o.lines ++ ";" ++ showWhy o

/-- `<kind> <kws> <global> <anns>` with impl output `<lines>;<why>` -/
def handle (args : List String) (impl : String) : Verdict :=
  match args with
  | [_kind, kws, glob, anns] =>
    let g : Option Str := if glob = "n" then some [] else parseStr glob
    match parseList parseStr kws, g, parseList parseAnn anns with
    | some kws, some glob, some anns =>
      let m := run kws anns glob
      let ms := showOutcome m
      if impl = "PANIC" then { model := ms, agree := false, oracle := some "panic-in-updater" } else
      match impl.splitOn ";" with
      | [ls, _why] =>
        match parseList parseStr ls with
        | some out =>
          let sel := mapperGet anns glob
          { model := ms, agree := ms = impl, oracle := oracle kws anns glob out,
            -- nothing to filter: no effective keyword or no snippet
            trivial := lineToSlice sel.value = [] ∨ kws.all (· = []) }
        | none => bad "impl-lines"
      | _ => bad "impl-output"
    | _, _, _ => bad "parse"
  | _ => bad "C19"

end HapVerif.C19
