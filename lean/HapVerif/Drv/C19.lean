import HapVerif.Model.C19
import HapVerif.Drv.Common
namespace HapVerif.C19
open HapVerif.Drv

def handle (_args : List String) (_impl : String) : Verdict := bad "C19-not-implemented"

end HapVerif.C19
