import HapVerif.Model.C19
import HapVerif.Drv.Common
namespace HapVerif.C19
open HapVerif.Drv

def hexDigit? (c : Char) : Option Nat :=
  if '0' ≤ c ∧ c ≤ '9' then some (c.toNat - '0'.toNat)
  else if 'a' ≤ c ∧ c ≤ 'f' then some (c.toNat - 'a'.toNat + 10)
  else none

def hexPairs : List Char → Option Str
  | [] => some []
  | a :: b :: r => do
    let x ← hexDigit? a
    let y ← hexDigit? b
    let t ← hexPairs r
    pure ((16 * x + y) :: t)
  | _ => none

/-- `h<hex>` -> bytes -/
def parseStr (s : String) : Option Str :=
  match s.toList with
  | 'h' :: r => hexPairs r
  | _ => none

def hexChar (n : Nat) : Char := if n < 10 then Char.ofNat (48 + n) else Char.ofNat (87 + n)

def showStr (s : Str) : String :=
  String.ofList ('h' :: s.flatMap fun b => [hexChar (b / 16), hexChar (b % 16)])

def showList (l : List Str) : String := if l = [] then "-" else ",".intercalate (l.map showStr)

def parseAnn (s : String) : Option (String × Str) :=
  match s.splitOn ":" with
  | [l, v] => do pure (l, ← parseStr v)
  | _ => none

def srcLabel : Option String → String
  | none => "g"
  | some l => l

def showWhy : Outcome → String
  | .skipStar s => "star@" ++ srcLabel s
  | .skipKw s k => "kw:" ++ showStr k ++ "@" ++ srcLabel s
  | _ => "-"

def showOutcome (o : Outcome) : String := showList o.lines ++ ";" ++ showWhy o

/-! ## sync mode: `msync<R> <kws> <global> <svcs> <ings>`

* `<svcs>` comma separated `ns/name!<ann>!<flags>` (`<ann>` = `n` | `h<hex>`; flags `-`, `g` = also the
  backend of a Gateway API route, `d` = default backend, `gd`)
* `<ings>` `-` or comma separated `ns/name!<ann>!<params>!svc+svc`, in processing order
* impl output: the DISTINCT outcomes of the R runs, sorted, joined by `#`; one outcome =
  `id=<lines>/id=<lines>/...;<whys>` (backends sorted by id, `<whys>` = `-` or the sorted,
  comma separated reasons `star@<label>` / `kw:h<hex>@<label>` of all warnings of the sync) -/

def parseOptStr (s : String) : Option (Option Str) :=
  if s = "n" then some none else (parseStr s).map some

def parseNsName (s : String) : Option (String × String) :=
  match s.splitOn "/" with
  | [a, b] => some (a, b)
  | _ => none

def parseSvc (s : String) : Option Svc :=
  match s.splitOn "!" with
  | [nn, ann, fl] => do
    let (ns, name) ← parseNsName nn
    let ann ← parseOptStr ann
    pure { ns := ns, name := name, ann := ann, gateway := fl.contains 'g', dflt := fl.contains 'd' }
  | _ => none

def parseIng (s : String) : Option Ing :=
  match s.splitOn "!" with
  | [nn, ann, par, svcs] => do
    let (ns, name) ← parseNsName nn
    let ann ← parseOptStr ann
    let par ← parseOptStr par
    pure { ns := ns, name := name, ann := ann, params := par,
           svcs := if svcs = "-" then [] else svcs.splitOn "+" }
  | _ => none

def insertSorted (x : String) : List String → List String
  | [] => [x]
  | y :: ys => if x < y then x :: y :: ys else y :: insertSorted x ys

def sortStrings (l : List String) : List String := l.foldr insertSorted []

def dedup (l : List String) : List String :=
  l.foldr (fun x acc => if acc.contains x then acc else x :: acc) []

def showRun (outs : List (Backend × Outcome)) : String :=
  let bks := sortStrings (outs.map fun bo => bo.1.id ++ "=" ++ showList bo.2.lines)
  let whys := sortStrings ((outs.map fun bo => showWhy bo.2).filter (· ≠ "-"))
  "/".intercalate bks ++ ";" ++ (if whys = [] then "-" else ",".intercalate whys)

/-- `id=<lines>` entries of one implementation outcome -/
def parseRun (s : String) : Option (List (String × List Str)) :=
  match s.splitOn ";" with
  | [bks, _whys] =>
    (bks.splitOn "/").mapM fun e =>
      match e.splitOn "=" with
      | [id, ls] => do pure (id, ← parseList parseStr ls)
      | _ => none
  | _ => none

def oracleRun (kws : List Str) (glob : Str) (bs : List Backend) (run : List (String × List Str)) : List String :=
  bs.filterMap fun b =>
    match run.lookup b.id with
    | none => some "backend-missing-in-output"
    | some out => oracle kws b.lanns glob out

def handleSync (kws glob svcs ings impl : String) : Verdict :=
  let g : Option Str := if glob = "n" then some [] else parseStr glob
  match parseList parseStr kws, g, parseList parseSvc svcs, parseList parseIng ings with
  | some kws, some glob, some svcs, some ings =>
    let c : Cluster := { svcs := svcs, ings := ings }
    let bs := c.backends
    let ms := showRun (sync pureUpdater kws glob bs)
    if impl = "PANIC" then { model := ms, agree := false, oracle := some "panic-in-updater" } else
    match (impl.splitOn "#").mapM parseRun with
    | some runs =>
      let fails := sortStrings (dedup (runs.flatMap (oracleRun kws glob bs)))
      { model := ms, agree := ms = impl,
        oracle := if fails = [] then none else some ("+".intercalate fails),
        trivial := kws.all (· = []) ∨ bs.all (fun b => lineToSlice (b.selValue glob) = []) }
    | none => bad "impl-output"
  | _, _, _, _ => bad "parse"

/-- `<kind> <kws> <global> <anns>` with impl output `<lines>;<why>` -/
def handle (args : List String) (impl : String) : Verdict :=
  match args with
  | [_kind, kws, glob, svcs, ings] => handleSync kws glob svcs ings impl
  | [_kind, kws, glob, anns] =>
    let g : Option Str := if glob = "n" then some [] else parseStr glob
    match parseList parseStr kws, g, parseList parseAnn anns with
    | some kws, some glob, some anns =>
      let m := run kws anns glob
      let ms := showOutcome m
      if impl = "PANIC" then { model := ms, agree := false, oracle := some "panic-in-updater" } else
      match impl.splitOn ";" with
      | [ls, _why] =>
        match parseList parseStr ls with
        | some out =>
          let sel := mapperGet anns glob
          { model := ms, agree := ms = impl, oracle := oracle kws anns glob out,
            -- nothing to filter: no effective keyword or no snippet
            trivial := lineToSlice sel.value = [] ∨ kws.all (· = []) }
        | none => bad "impl-lines"
      | _ => bad "impl-output"
    | _, _, _ => bad "parse"
  | _ => bad "C19"

end HapVerif.C19
