import HapVerif.Model.C06
import HapVerif.Drv.C03
import HapVerif.Drv.C06Ann
/-!
Driver of C06.  `C06 world|hist <ops...> => <verdict> <balances>`; verdict = `same` or
`diff:<class>:<item>` (first difference between two runs of the implementation on the same case),
balances = `backend=algorithm,...` of the baseline run.
agree: the model is invariant under the permutation of the object lists on this case, and a
difference reported by the implementation is one the model predicts (an answer that depends on the
map iteration order).  oracle: any difference violates the property.
-/
namespace HapVerif.C06
open HapVerif.Drv HapVerif.Sync HapVerif.Sync.Parse
open HapVerif.C04 (Str)

def parseBal (s : Str) : Option (Str × Str) :=
  match split1 '=' s with
  | (b, some a) => some (b, a)
  | _ => none

def handleCase (toks : List String) (impl : String) : Verdict :=
  match worldOf toks with
  | none => bad "parse-ops"
  | some w =>
    match words impl with
    | [verdict, bals] =>
      match C03.parseItems parseBal bals with
      | none => bad "parse-balances"
      | some bs =>
        let c := fullSync w
        let inv := sameCfg c (fullSync (permute w))
        let balOracle := bs.findSome? fun (id, alg) =>
          match C03.keyOfId w id with
          | none => some "backend-without-declaration"
          | some k =>
            if (annOf w k "balance-algorithm".toList).getD "roundrobin".toList = alg then none
            else some "annotation-conflict-not-resolved-by-creation-order"
        let v := verdict.toList
        if verdict = "same" then
          { model := "same", agree := inv, oracle := balOracle, trivial := c.paths.length < 2 }
        else if verdict = "PANIC" then { model := "same", agree := false, oracle := some "panic" }
        else
          match splitOnC ':' v with
          | tag :: cls :: rest =>
            let item := ":".toList.intercalate rest
            if tag ≠ "diff".toList then { model := "same", agree := false, oracle := some "run-error" }
            else if cls = "fresh-oauthlookup".toList then
              -- the oauth2-proxy lookup reads paths of other ingresses that the tracker does not link (known finding)
              { model := "outside-fragment", agree := true, oracle := some "order-dependent-config-fresh-oauthlookup" }
            else if cls = "fresh-authscheme".toList then
              -- the shared auth backend of an ip:port reached with both schemes keeps `ssl` after its https user is gone:
              -- auth backends (their sharing, their life time) are outside the M-Sync fragment; the Spec still fails
              { model := "outside-fragment", agree := true, oracle := some "order-dependent-config-fresh-authscheme" }
            else if cls = "route".toList then
              match C03.parseRoute (item ++ ">x".toList) with
              | some (r, _) =>
                if iterDependent c r then
                  { model := "iteration-dependent", agree := inv, oracle := some "order-dependent-tie-between-path-types" }
                else { model := "same", agree := false, oracle := some "order-dependent-config-route" }
              | none => bad "parse-route"
            else { model := "same", agree := false, oracle := some ("order-dependent-config-" ++ String.ofList cls) }
          | _ => { model := "same", agree := false, oracle := some "run-error" }
    | _ => bad "parse-impl-fields"

def handle (args : List String) (impl : String) : Verdict :=
  match args with
  | "world" :: toks => handleCase toks impl
  | "hist" :: toks => handleCase toks impl
  | "ann" :: toks => C06Ann.handle toks impl
  | _ => bad "C06"

end HapVerif.C06
