import HapVerif.Model.C06
import HapVerif.Drv.Common
namespace HapVerif.C06
open HapVerif.Drv

def handle (_args : List String) (_impl : String) : Verdict := bad "C06-not-implemented"

end HapVerif.C06
