/- Common helpers of the line-protocol driver (core-only). -/
namespace HapVerif.Drv

structure Verdict where
  model  : String            -- canonical model output
  agree  : Bool              -- model output corresponds to the implementation output
  oracle : Option String     -- none: spec holds on the implementation output
  trivial : Bool := false    -- case exercises no interesting branch (evidence statistics)

def Verdict.render (v : Verdict) : String :=
  (if v.agree then "A" else "D") ++ "\t" ++ v.model ++ "\t" ++
    (match v.oracle with | none => "ok" | some r => "FAIL:" ++ r) ++ "\t" ++
    (if v.trivial then "T" else "N")

def bad (why : String) : Verdict := { model := "bad-op:" ++ why, agree := false, oracle := none }

def splitOn1 (s : String) (sep : String) : String × String :=
  match s.splitOn sep with
  | [] => ("", "")
  | [a] => (a, "")
  | a :: rest => (a, sep.intercalate rest)

def parseInt? (s : String) : Option Int := s.toInt?
def parseNat? (s : String) : Option Nat := s.toNat?

def parseList {α} (f : String → Option α) (s : String) (sep : String := ",") : Option (List α) :=
  if s = "" ∨ s = "-" then some [] else (s.splitOn sep).mapM f

def words (s : String) : List String := (s.splitOn " ").filter (· ≠ "")

end HapVerif.Drv
