import HapVerif.Model.C04
import HapVerif.Model.C04Filt
import HapVerif.Drv.Common
namespace HapVerif.C04
open HapVerif.Drv

def parseMT (s : String) : Option MT :=
  match s with | "E" => some .exact | "P" => some .pfx | "B" => some .beg | _ => none

def parseRule (s : String) : Option Rule :=
  match s.splitOn "|" with
  | [h, p, t, n] => do pure { host := h.toList, path := p.toList, mt := ← parseMT t, target := ← n.toNat? }
  | _ => none

def parseOrder (s : String) : Option (List MT) := s.toList.mapM fun c => parseMT c.toString

def parseMethod (s : String) : Option Method :=
  match s with | "str" => some .str | "beg" => some .beg | "dir" => some .dir | _ => none

def parseKV (s : String) : Option (Str × Nat) :=
  match s.splitOn ">" with
  | [k, v] => (v.drop 1).toString.toNat?.map (k.toList, ·)
  | _ => none

def parseFile (s : String) : Option MFile :=
  match s.splitOn ":" with
  | [m, l, es] => do
    pure { method := ← parseMethod m, lower := l = "L", entries := ← parseList parseKV es }
  | _ => none

def showFile (f : MFile) : String :=
  (match f.method with | .str => "str" | .beg => "beg" | .dir => "dir") ++ ":" ++ (if f.lower then "L" else "N") ++ ":" ++
    ",".intercalate (f.entries.map fun e => String.ofList e.1 ++ ">t" ++ toString e.2)

def showLayout (fs : List MFile) : String := if fs.isEmpty then "-" else ";".intercalate (fs.map showFile)

def perms {α} : List α → List (List α)
  | [] => [[]]
  | x :: xs => (perms xs).flatMap fun p => (List.range (p.length + 1)).map fun i => p.take i ++ x :: p.drop i

def upperC (c : Char) : Char := if 'a' ≤ c ∧ c ≤ 'z' then Char.ofNat (c.toNat - 32) else c

def parents (p : Str) : List Str :=
  (List.range p.length).filterMap fun i => if p.getD i ' ' = '/' ∧ i > 0 then some (p.take i) else none

/-- request alphabet derived from the rule set: every declared path and its neighbours -/
def requests (rules : List Rule) : List (Str × Str) :=
  let hosts := ((rules.map (·.host)) ++ ["zz.other".toList]).eraseDups
  let ps := rules.map (·.path)
  let paths := (ps.flatMap fun p =>
    [p, p ++ ['x'], p ++ ['/'], p ++ "/x".toList, p ++ "/x/y".toList, p.map upperC, lower p,
     (p.map upperC) ++ "/x".toList, (lower p) ++ "/x".toList] ++ parents p) ++ ["/".toList]
  hosts.flatMap fun h => paths.eraseDups.map fun p => (h, p)

/-! ### mode `conv`: rules with declared header conditions through the real converters -/

def parseHMatch (s : String) : Option HMatch :=
  match s.splitOn "=" with
  | [n, v] => some ⟨n.toList, v.toList, false⟩
  | _ =>
    match s.splitOn "~" with
    | [n, v] => some ⟨n.toList, v.toList, true⟩
    | _ => none

/-- `-` nil / absent, `0` empty non-nil / declared empty, else `name=value&name~value` -/
def parseHdrs (s : String) : Option Hdrs :=
  if s = "-" then some none
  else if s = "0" then some (some [])
  else (s.splitOn "&").mapM parseHMatch |>.map some

def showHdrs : Hdrs → String
  | none => "-"
  | some [] => "0"
  | some l => "&".intercalate (l.map fun m => String.ofList m.name ++ (if m.regex then "~" else "=") ++ String.ofList m.value)

def parseFRule (s : String) : Option FRule :=
  match s.splitOn "|" with
  | [h, p, t, n, hs] => do
    pure { rule := { host := h.toList, path := p.toList, mt := ← parseMT t, target := ← n.toNat? }, decl := ← parseHdrs hs }
  | _ => none

def parseFFile (s : String) : Option FFile :=
  match s.splitOn ":" with
  | [m, l, hs, es] => do
    pure { file := { method := ← parseMethod m, lower := l = "L", entries := ← parseList parseKV es }, headers := ← parseHdrs hs }
  | _ => none

def showMT : MT → String | .exact => "E" | .pfx => "P" | .beg => "B"

/-- what the converters leave in `haproxy.Hosts()`: the declared rule with the produced `headers` -/
def showFed (p : Producer) (r : FRule) : String :=
  "|".intercalate [String.ofList r.rule.host, String.ofList r.rule.path, showMT r.rule.mt, toString r.rule.target,
    showHdrs (produce p r.decl)]

def showFFile (f : FFile) : String :=
  match (showFile f.file).splitOn ":" with
  | [m, l, es] => m ++ ":" ++ l ++ ":" ++ showHdrs f.headers ++ ":" ++ es
  | _ => "?"

def showFLayout (fs : List FFile) : String := if fs.isEmpty then "-" else ";".intercalate (fs.map showFFile)

def parseProducer (s : String) : Option Producer :=
  match s with | "gw" => some .gateway | "ing" => some .ingress | "seeded" => some .seeded | _ => none

/-- header lines of a request that satisfies exactly the conditions `H` asks for -/
def headersFor (H : List HMatch) : List (Str × Str) := H.map fun m => (m.name, m.value)

/-- signature of a failed lookup of a request that carries headers: the answer is a rule with header
conditions.  `preempts`: every rule the property allows has no header condition (the file of the answering rule
is consulted before the exact file and before every file of rules without conditions); otherwise the clash is
among rules with conditions -/
def headerSig (rules : List FRule) (sat : HMatch → Bool) (fs : List FFile) (h p : Str) (base : String) : String :=
  let filtered (t : Nat) : Bool := rules.any fun r => r.rule.target = t ∧ r.conds ≠ []
  let got := lookupFilesF sat fs (sampleOf h p)
  let ok := best (applicable rules sat) h p
  if (got.map filtered).getD false ∧ ok.all (fun t => !filtered t) then
    "header-rule-preempts-" ++ (if base = "exact-not-selected" then "exact" else if base = "shorter-path-wins" then "longer-path" else base)
  else "with-headers-" ++ base

def handleConv (mode ord rs impl : String) : Verdict :=
  match parseProducer mode, parseOrder ord, parseList parseFRule rs with
  | some prod, some ord, some rules =>
    let fed := feedOrder rules
    let es := entriesOfF prod fed
    let hostOrder := sortG ltStr (hostsOf (es.map (·.e)))
    let mEnts := if fed.isEmpty then "-" else ",".intercalate (fed.map (showFed prod))
    let mFiles := rebuildF ord es hostOrder
    let model := mEnts ++ "@" ++ showFLayout mFiles
    match impl.splitOn "@" with
    | [iEnts, iFiles] =>
      match parseList parseFFile iFiles ";" with
      | some fs =>
        let plainRules := rules.map (·.rule)
        let reqs := requests plainRules
        -- JUDGED: requests without headers, against the Spec over the rules without header condition (absent or
        -- empty list): files with a filter must not answer them nor change the winner.
        -- NOT JUDGED (outside the quantifier of C04, which ranges over rules of types exact/prefix/begin): requests
        -- that carry headers satisfying a declared non-empty condition list; what the files answer there is only
        -- reported in the model column (`!outside-domain:<observation>`).
        let conds := ((rules.map (·.conds)).filter (· ≠ [])).eraseDups
        let dbl := plainRules.any fun r => (List.range r.path.length).any fun i => r.path.getD i ' ' = '/' ∧ r.path.getD (i+1) ' ' = '/'
        let v0 := reqs.findSome? fun (h, p) => checkReqF rules noHeaders fs h p
        let verdict := v0.map fun b => (if dbl then "empty-path-segment-" else "") ++ b
        let obs := conds.findSome? fun H =>
              let sat := reqSat (headersFor H)
              reqs.findSome? fun (h, p) => (checkReqF rules sat fs h p).map (headerSig rules sat fs h p)
        let model := model ++ (match obs with | some o => "!outside-domain:" ++ o | none => "")
        -- when the converters left other entries than predicted: does the maps model explain the files from THOSE entries?
        let model := if mEnts == iEnts then model else
          match parseList parseFRule iEnts with
          | some ie =>
            let ies : List FEntry := (ie.zip (List.range ie.length)).map fun (r, i) => ⟨addTarget r.rule i, r.decl⟩
            model ++ "!entries-differ;layout-from-impl-entries=" ++
              (if rebuildF ord ies (sortG ltStr (hostsOf (ies.map (·.e)))) == fs then "explained" else "differs")
          | none => model ++ "!entries-differ;unparsed"
        { model := model, agree := (mEnts == iEnts) && (mFiles == fs), oracle := verdict, trivial := fs.length ≤ 1 }
      | none => bad "parse-files"
    | _ => bad "parse-impl"
  | _, _, _ => bad "parse"

/-- `maps <order> <rules>`; impl output = layout of MatchFiles() -/
def handle (args : List String) (impl : String) : Verdict :=
  match args with
  | ["maps", ord, rs] =>
    match parseOrder ord, parseList parseRule rs, parseList parseFile impl ";" with
    | some ord, some rules, some fs =>
      let es := entriesOf rules
      let hosts := hostsOf es
      let layouts := (perms hosts).map (rebuild ord es)
      let agree := layouts.contains fs
      let verdict := (requests rules).findSome? fun (h, p) =>
        (checkReq rules fs h p).map fun sig => sig ++ ":" ++ String.ofList h ++ String.ofList p
      -- the signature must not contain the request (known-finding keys are per clause)
      -- a declared path with an empty segment (`//`) is the one listed finding: its own signature
      let dbl := rules.any fun r => (List.range r.path.length).any fun i => r.path.getD i ' ' = '/' ∧ r.path.getD (i+1) ' ' = '/'
      let sig := verdict.map fun v => (if dbl then "empty-path-segment-" else "") ++ (v.splitOn ":").headD v
      { model := showLayout (layouts.headD []), agree := agree, oracle := sig,
        trivial := fs.length ≤ 1 }
    | _, _, _ => bad "parse"
  | ["conv", mode, ord, rs] => handleConv mode ord rs impl
  | _ => bad "C04"

end HapVerif.C04
