import HapVerif.Model.C04
import HapVerif.Drv.Common
namespace HapVerif.C04
open HapVerif.Drv

def handle (_args : List String) (_impl : String) : Verdict := bad "C04-not-implemented"

end HapVerif.C04
