import HapVerif.Model.C04
import HapVerif.Drv.Common
namespace HapVerif.C04
open HapVerif.Drv

def parseMT (s : String) : Option MT :=
  match s with | "E" => some .exact | "P" => some .pfx | "B" => some .beg | _ => none

def parseRule (s : String) : Option Rule :=
  match s.splitOn "|" with
  | [h, p, t, n] => do pure { host := h.toList, path := p.toList, mt := ← parseMT t, target := ← n.toNat? }
  | _ => none

def parseOrder (s : String) : Option (List MT) := s.toList.mapM fun c => parseMT c.toString

def parseMethod (s : String) : Option Method :=
  match s with | "str" => some .str | "beg" => some .beg | "dir" => some .dir | _ => none

def parseKV (s : String) : Option (Str × Nat) :=
  match s.splitOn ">" with
  | [k, v] => (v.drop 1).toString.toNat?.map (k.toList, ·)
  | _ => none

def parseFile (s : String) : Option MFile :=
  match s.splitOn ":" with
  | [m, l, es] => do
    pure { method := ← parseMethod m, lower := l = "L", entries := ← parseList parseKV es }
  | _ => none

def showFile (f : MFile) : String :=
  (match f.method with | .str => "str" | .beg => "beg" | .dir => "dir") ++ ":" ++ (if f.lower then "L" else "N") ++ ":" ++
    ",".intercalate (f.entries.map fun e => String.ofList e.1 ++ ">t" ++ toString e.2)

def showLayout (fs : List MFile) : String := if fs.isEmpty then "-" else ";".intercalate (fs.map showFile)

def perms {α} : List α → List (List α)
  | [] => [[]]
  | x :: xs => (perms xs).flatMap fun p => (List.range (p.length + 1)).map fun i => p.take i ++ x :: p.drop i

def upperC (c : Char) : Char := if 'a' ≤ c ∧ c ≤ 'z' then Char.ofNat (c.toNat - 32) else c

def parents (p : Str) : List Str :=
  (List.range p.length).filterMap fun i => if p.getD i ' ' = '/' ∧ i > 0 then some (p.take i) else none

/-- request alphabet derived from the rule set: every declared path and its neighbours -/
def requests (rules : List Rule) : List (Str × Str) :=
  let hosts := ((rules.map (·.host)) ++ ["zz.other".toList]).eraseDups
  let ps := rules.map (·.path)
  let paths := (ps.flatMap fun p =>
    [p, p ++ ['x'], p ++ ['/'], p ++ "/x".toList, p ++ "/x/y".toList, p.map upperC, lower p,
     (p.map upperC) ++ "/x".toList, (lower p) ++ "/x".toList] ++ parents p) ++ ["/".toList]
  hosts.flatMap fun h => paths.eraseDups.map fun p => (h, p)

/-- `maps <order> <rules>`; impl output = layout of MatchFiles() -/
def handle (args : List String) (impl : String) : Verdict :=
  match args with
  | ["maps", ord, rs] =>
    match parseOrder ord, parseList parseRule rs, parseList parseFile impl ";" with
    | some ord, some rules, some fs =>
      let es := entriesOf rules
      let hosts := hostsOf es
      let layouts := (perms hosts).map (rebuild ord es)
      let agree := layouts.contains fs
      let verdict := (requests rules).findSome? fun (h, p) =>
        (checkReq rules fs h p).map fun sig => sig ++ ":" ++ String.ofList h ++ String.ofList p
      -- the signature must not contain the request (known-finding keys are per clause)
      -- a declared path with an empty segment (`//`) is the one listed finding: its own signature
      let dbl := rules.any fun r => (List.range r.path.length).any fun i => r.path.getD i ' ' = '/' ∧ r.path.getD (i+1) ' ' = '/'
      let sig := verdict.map fun v => (if dbl then "empty-path-segment-" else "") ++ (v.splitOn ":").headD v
      { model := showLayout (layouts.headD []), agree := agree, oracle := sig,
        trivial := fs.length ≤ 1 }
    | _, _, _ => bad "parse"
  | _ => bad "C04"

end HapVerif.C04
