import HapVerif.Model.C11
import HapVerif.Model.C11Sync
import HapVerif.Drv.C02
import HapVerif.Generated.Facts
/-
Driver of the world-level mode of C11: `C11 world <ops…> => init:-!H=…!B=… ; <event> ; <event> …`

One event = `<kind>:<key>!R<reloads>!C<commands>!E<0|1>!<P|F>!o=<other>!ha=…!hd=…!ba=…!bd=…!uh=…!ub=…!H=…!B=…!P=…`
(see harness/cmd/hv/c11world.go).  The model replays, from the store observed after the set-up, the update cycle
`derive ; shrink` (Model/C11Sync) on the items the converters re-created and predicts what the instance reports as
changed, the reload, the number of runtime commands (M-Dyn `checkBackendPair` on the observed endpoint lists) and
the committed store; the Spec is evaluated on the observations alone.
-/
namespace HapVerif.C11Sync
open HapVerif.Drv HapVerif.C02

def unqd (s : String) : String := if s = "-" then "" else s

def parseIds (s : String) (sep : String) : List String := if s = "-" ∨ s = "" then [] else s.splitOn sep

/-- `name^auth^pass^b1+b2` -/
def parseHost (s : String) : Option Host :=
  match s.splitOn "^" with
  | [n, a, p, bs] => some { name := n, auth := a = "1", pass := p = "1", own := parseIds bs "+" }
  | _ => none

/-- `backendsMatch` compares `PathsDefaultHostMap` (regenerated fact: the fields it neutralises): the link is written
by `WriteBackendMaps` AFTER Shrink, so a re-created backend whose committed version carries it never shrinks (the
files are rewritten, nothing is reloaded: by the time the dynamic updater compares, the new maps are linked) -/
def linkCompared : Bool := !Facts.c11BackendsMatchNeutralised.contains "PathsDefaultHostMap"

/-- `id^flag` (committed) or `id^flag^maplink` (re-created; body 1 = the committed version carries the link to
its default-host path map and `backendsMatch` compares it: the pair never shrinks) -/
def parseBk (s : String) : Option Bk :=
  match s.splitOn "^" with
  | [i, f] => some { id := i, body := 0, flag := f = "1" }
  | [i, f, l] => some { id := i, body := if l = "1" && linkCompared then 1 else 0, flag := f = "1" }
  | _ => none

def showHost (h : Host) : String :=
  h.name ++ "^" ++ (if h.auth then "1" else "0") ++ "^" ++ (if h.pass then "1" else "0") ++ "^" ++
    (if h.own.isEmpty then "-" else "+".intercalate h.own)
def showBk (b : Bk) : String := b.id ++ "^" ++ (if b.flag then "1" else "0")

def showSorted (l : List String) : String := if l.isEmpty then "-" else ",".intercalate (sortStrs l)

/-- one re-created backend with its committed counterpart -/
structure Pair where
  id : String
  fl : Flags
  old : List EP
  cur : List EP

def parsePair (s : String) : Option Pair :=
  match s.splitOn "@" with
  | [i, f, o, c] => do pure { id := i, fl := ← parseFlags f, old := ← parseList parseEP o, cur := ← parseList parseEP c }
  | _ => none

def Pair.back (p : Pair) (eps : List EP) : Back :=
  { eps := eps, dynUpdate := p.fl.dyn, resolver := p.fl.res, cookiePreserve := p.fl.pres, initialWeight := p.fl.iw }

structure Ev where
  id : String
  kind : String
  reloads : Nat
  cmds : Nat
  err : Bool
  full : Bool
  other : String
  ha : List Host
  hd : List String
  ba : List Bk
  bd : List String
  uh : List String
  ub : List String
  hosts : List Host
  backs : List Bk
  pairs : List Pair

def field (pfx : String) (s : String) : Option String :=
  if s.startsWith pfx then some ((s.drop pfx.length).toString) else none

def parseEv (s : String) : Option Ev :=
  match s.splitOn "!" with
  | [id, r, c, e, mode, o, ha, hd, ba, bd, uh, ub, hh, bb, pp] => do
    let r ← (← field "R" r).toNat?
    let c ← (← field "C" c).toNat?
    let e ← field "E" e
    let o ← field "o=" o
    let ha ← parseList parseHost (← field "ha=" ha)
    let hd ← field "hd=" hd
    let ba ← parseList parseBk (← field "ba=" ba)
    let bd ← field "bd=" bd
    let uh ← field "uh=" uh
    let ub ← field "ub=" ub
    let hh ← parseList parseHost (← field "H=" hh)
    let bb ← parseList parseBk (← field "B=" bb)
    let pp ← parseList parsePair (← field "P=" pp) "&"
    pure { id := id, kind := (id.splitOn ":").headD "", reloads := r, cmds := c, err := e ≠ "0", full := mode = "F", other := o,
           ha := ha, hd := parseIds hd ",", ba := ba, bd := parseIds bd ",", uh := parseIds uh ",", ub := parseIds ub ",",
           hosts := hh, backs := bb, pairs := pp }
  | _ => none

def parseInit (s : String) : Option Store :=
  match s.splitOn "!" with
  | [_, hh, bb] => do
    pure { hosts := ← parseList parseHost (← field "H=" hh), backs := ← parseList parseBk (← field "B=" bb) }
  | _ => none

/-- canonical text of one event: what the model has to predict -/
def showEv (id : String) (reload : Bool) (cmds : Nat) (uh ub : List String) (s : Store) : String :=
  id ++ "/R" ++ (if reload then "1" else "0") ++ "/C" ++ toString cmds ++ "/" ++ showSorted uh ++ "/" ++ showSorted ub ++ "/" ++
    showSorted (s.hosts.map showHost) ++ "/" ++ showSorted (s.backs.map showBk)

def isNoopKind (k : String) : Bool := ["idle", "svc", "ep", "sec", "ing", "pod", "cm", "cls"].contains k
def isCapKind (k : String) : Bool := ["perm", "replace", "flip", "flop", "add", "remove"].contains k

/-- the model's replay of one event on its own store -/
def replayEv (s : Store) (e : Ev) : String × Store :=
  if e.full then
    -- a full sync starts from `config.Clear()`: no committed state (reload, no runtime command), every host added,
    -- the backends compared with the committed ones
    let bodyOf (b : Bk) : Nat :=
      if b.body = 1 then 1 else
      match e.pairs.find? (·.id == b.id) with
      | some p => if C11.shrinks true p.old p.cur then 0 else 1
      | none => 1
    let r : Recr := { hostsDel := e.hd, hosts := e.ha, backsDel := e.bd, backs := e.ba.map fun b => { b with body := bodyOf b } }
    let m := cycleFull s r
    let s' : Store := { hosts := m.hosts, backs := m.backs.map fun b => { b with body := 0 } }
    (showEv e.id (reloadDecision false m) 0 (changedHosts m) (changedBacks m) s', s')
  else
    let bodyOf (b : Bk) : Nat :=
      if b.body = 1 then 1 else
      match e.pairs.find? (·.id == b.id) with
      | some p => if C11.shrinks true p.old p.cur then 0 else 1
      | none => 1
    let r : Recr := { hostsDel := e.hd, hosts := e.ha, backsDel := e.bd, backs := e.ba.map fun b => { b with body := bodyOf b } }
    let m := cycle .deriveFirst s r
    -- the pairs left to the dynamic updater, every command answered OK
    let outs := m.bAdd.filterMap fun b =>
      match e.pairs.find? (·.id == b.id) with
      | some p => some (checkBackendPair (p.back p.old) (p.back p.cur) true [])
      | none => none
    let reload := e.other ≠ "-" || outsideDiff m || outs.any (fun o => !o.updated)
    let ncmd := 3 * (outs.map (·.cmds.length)).sum
    let s' : Store := { hosts := m.hosts, backs := m.backs.map fun b => { b with body := 0 } }
    (showEv e.id reload ncmd (changedHosts m) (changedBacks m) s', s')

/-- the same text from the observations -/
def observedEv (e : Ev) : String :=
  showEv e.id (e.reloads > 0) e.cmds e.uh e.ub { hosts := e.hosts, backs := e.backs }

/-- tcp services have a plain changed flag and no shrink: every re-creation reloads (not covered by the property's check) -/
def tcpTouched (e : Ev) : Bool := e.other.contains 't' || e.other.contains 'b'

/-- the Spec allows the reload of an endpoint-only change -/
def capNeedsReload (e : Ev) : Bool :=
  e.other ≠ "-" ||
  sortStrs (e.ha.map (·.name)) != sortStrs e.hd || sortStrs (e.ba.map (·.id)) != sortStrs e.bd ||
  e.pairs.any fun p =>
    C11.needsReload { back := p.back [], minFree := p.fl.minfree, block := p.fl.block } p.old p.cur

/-- the committed derived attribute is the one the hosts give -/
def flagsFromHosts (hosts : List Host) (backs : List Bk) : Bool := backs.all fun b => b.flag == wants hosts b.id

/-- clauses `reload-on-noop`, `command-on-noop` (a no-op event of a partial sync neither reloads nor sends a runtime
command) and `reload-on-in-capacity-change` -/
def evOracle (e : Ev) : Option String :=
  if e.err then some "update-error" else
  let main : Option String :=
    if isNoopKind e.kind then
      if e.full then
        -- known finding: a no-op notification of a full-sync kind (IngressClass) rebuilds the whole config from
        -- `config.Clear()`: no committed state, every host "added", HAProxy reloads although nothing changed
        if e.reloads > 0 then some (if e.kind = "cls" then "reload-on-noop:full-sync-rebuilds-every-host" else "reload-on-noop")
        else if e.cmds > 0 then some "command-on-noop" else none
      else if tcpTouched e then none
      else if e.reloads > 0 then some "reload-on-noop"
      else if e.cmds > 0 then some "command-on-noop" else none
    else if isCapKind e.kind then
      if !e.full ∧ e.reloads > 0 ∧ !capNeedsReload e then some "reload-on-in-capacity-change" else none
    else none
  match main with
  | some c => some c
  | none => if !flagsFromHosts e.hosts e.backs then some "derived-tls-auth-flag-differs-from-hosts" else none

def handleWorld (_ops : List String) (impl : String) : Verdict :=
  if impl.startsWith "skip:" then { model := impl, agree := true, oracle := none, trivial := true } else
  if impl.startsWith "PANIC" then { model := "-", agree := false, oracle := some "panic", trivial := false } else
  match impl.splitOn ";" with
  | [] => bad "world-empty"
  | i0 :: evs =>
    match parseInit i0, evs.mapM parseEv with
    | some s0, some es =>
      -- non-trivial: some no-op event of a partial sync re-creates a backend of a host with a derived attribute, the
      -- dirty sets being closed under the links (the premises of `noop_derive_then_shrink_quiet` on real batches)
      let interesting (s : Store) (e : Ev) : Bool :=
        !e.full && isNoopKind e.kind && e.ha.any (fun h => e.ba.any (fun b => gives h b.id)) &&
          closedOk s { hostsDel := e.hd, hosts := e.ha, backsDel := e.bd, backs := e.ba }
      let run := es.foldl (fun (acc : Store × List String × Bool) e =>
        let (t, s') := replayEv acc.1 e
        (s', acc.2.1 ++ [t], acc.2.2 || interesting acc.1 e)) (s0, [], false)
      let obs := es.map observedEv
      let agree := run.2.1 = obs
      let verdict : Option (String × String) :=
        if !flagsFromHosts s0.hosts s0.backs then some ("derived-tls-auth-flag-differs-from-hosts", "init") else
        -- any other clause first: the known full-sync finding must not mask it
        let all := es.filterMap fun e => (evOracle e).map fun c => (c, e.id)
        match all.find? (fun x => x.1 != "reload-on-noop:full-sync-rebuilds-every-host") with
        | some x => some x
        | none => all.head?
      -- what the log shows: the first event on which model and implementation differ / the event the Spec rejects
      let firstDiff := ((run.2.1.zip obs).find? fun (a, b) => a != b).map fun (a, b) => "model[" ++ a ++ "]impl[" ++ b ++ "]"
      let mtxt := (if agree then "agree:" ++ toString es.length ++ "-events" else firstDiff.getD "length-differs") ++
        (match verdict with | some (_, ev) => "|rejected-event:" ++ ev | none => "")
      let triv := !run.2.2
      { model := mtxt, agree := agree, oracle := verdict.map (·.1), trivial := triv }
    | _, _ => bad "world-parse"

end HapVerif.C11Sync
