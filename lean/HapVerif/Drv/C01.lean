import HapVerif.Model.C01
import HapVerif.Drv.Common
namespace HapVerif.C01
open HapVerif.Drv

def handle (_args : List String) (_impl : String) : Verdict := bad "C01-not-implemented"

end HapVerif.C01
