import HapVerif.Model.C01
import HapVerif.Model.C01Tcp
import HapVerif.Drv.Common
/-
Driver of C01. Case line: `C01 hist <op> <op> ... => <verdict> <obs> <obs> ...`
  op      : one operation of harness/world/ops.go, `sync` = reconcile boundary; the pseudo op
            `opt~db=<ns>/<svc>` (anywhere, the last one wins) = controller option --default-backend-service:
            the history starts from `optWorld` (the pseudo source is a member of the cluster), no event
  verdict : eq | diff:<first differing line of the two normal forms> | err:<..>
  obs     : one token per sync, what the REAL controller did (see harness/cmd/hv/c01.go c01obs)
The model replays the history; `agree` = it predicts every observation of every sync:
  mode (full/partial), links and added/updated/deleted ingresses of the batch (watchers model),
  number of dirty hosts/backends returned by the tracker, connected components of the tracker after
  the sync, hosts/paths/backend ids of the haproxy model; the names logged as "updating" must be
  explained (dirty or new). The Go-recursion mirror of the tracker must agree with the edge-list model.
`oracle` = the long-lived pipeline equals the fresh one; a failing history is classified by the first
violated side condition of the proof (signature) or `unexplained-difference`.
-/
namespace HapVerif.C01
open HapVerif.Drv

/-- the revision of /repo the driver mirrors (see `Rev`) -/
def currentRev : Rev := 2

def unq (s : String) : String := if s = "_" then "" else s
def parseOpt (s : String) : Option String := if s = "-" then none else some (unq s)

def parseKV (s : String) : List (String × String) :=
  if s = "-" ∨ s = "" then [] else
    (s.splitOn ";").filterMap fun kv =>
      match kv.splitOn "=" with
      | k :: v :: rest => some (k, unq ("=".intercalate (v :: rest)))
      | _ => none

def splitKey (s : String) : String × String :=
  match s.splitOn "/" with
  | [n] => ("", n)
  | ns :: rest => (ns, "/".intercalate rest)
  | [] => ("", "")

def parsePath (s : String) : PathDecl :=
  let f := s.splitOn ":"
  let g (i : Nat) : String := unq (f.getD i "_")
  { path := g 0, ptype := g 1, svc := f.getD 2 "_", port := g 3 }

def parseIngress (text : String) : Option Ingress :=
  match text.splitOn "!" with
  | [f0, f1, f2, f3, f4, f5] =>
    let (nn, ts) := splitOn1 f0 "@"
    let (ns, name) := splitKey nn
    let (ca, cn) := splitOn1 f1 ","
    let rules : List Rule := if f3 = "-" then [] else
      (f3.splitOn ";").map fun r =>
        let (h, ps) := splitOn1 r ">"
        { host := unq h, paths := if ps = "" then [] else (ps.splitOn "+").map parsePath }
    let tls : List TlsDecl := if f4 = "-" then [] else
      (f4.splitOn ";").map fun t =>
        let (hs, sec) := splitOn1 t ">"
        { hosts := if hs = "" then [] else (hs.splitOn "+").map unq, secret := unq sec }
    let defB : Option (String × String) := if f5 = "-" then none else
      let (s, p) := splitOn1 f5 ":"
      some (s, unq p)
    some { ns := ns, name := name, created := ts.toNat?.getD 0, classAnn := parseOpt ca,
           className := if f1.contains ',' then parseOpt cn else none,
           ann := parseKV f2, rules := rules, tls := tls, defBackend := defB }
  | _ => none

def parsePorts (s : String) : List SvcPort :=
  if s = "-" then [] else
    (s.splitOn "+").filterMap fun p =>
      match p.splitOn ":" with
      | [n, pt, t] => some { name := unq n, port := pt.toNat?.getD 0, target := t }
      | _ => none

def parseAddrs (s : String) : List (String × Bool × String) :=
  if s = "-" then [] else
    (s.splitOn "+").filterMap fun a =>
      match a.splitOn ":" with
      | [ip, r, pod] => some (ip, r == "r", unq pod)
      | _ => none

inductive Tok
  | op (o : Op)
  | tcp (d : C01Tcp.Data)      -- `tcp~…`: the whole data of the --tcp-services-configmap ConfigMap
  | sync
  | bad (s : String)

/-- name of the tcp-services ConfigMap of the harness (`world.TCPConfigMapDefault`) -/
def tcpConfigMap : String := "ingress-controller/tcp-services"

/-- `tcp~<port>=<ns/svc>:<port>:<in>:<out>:<crt>:<check>:<ca>;…` (`-` = no entries), as `configmap.parseService` splits it -/
def parseTcp (arg : String) : C01Tcp.Data :=
  if arg = "-" ∨ arg = "" then [] else
    (arg.splitOn ";").filterMap fun kv =>
      match kv.splitOn "=" with
      | k :: v :: rest =>
        let f := (unq ("=".intercalate (v :: rest))).splitOn ":"
        let g (i : Nat) : String := f.getD i ""
        some { port := k, svc := g 0, svcPort := g 1, inProxy := g 2, outProxy := g 3, crt := g 4, check := g 5, ca := g 6 }
      | _ => none

def nsName (s : String) : Bool :=
  match s.splitOn "/" with
  | [ns, n] => ns ≠ "" && n ≠ "" && !(s.contains '_')
  | _ => false

/-- entries inside the modelled fragment: numeric public ports without leading zero, pairwise distinct (the Go map
has one value per key; two keys with one numeric value would meet in map order), `ns/name` service and secrets -/
def tcpInFragment (d : C01Tcp.Data) : Bool :=
  d.all (fun e => e.port ≠ "" && e.port.toList.all Char.isDigit && !(e.port.startsWith "0") && nsName e.svc &&
    (e.crt = "" || nsName e.crt) && (e.ca = "" || nsName e.ca)) &&
  (d.map (·.port)).Nodup

/-- the controller options of a history (`syncOptions` of the harness): `some (some (ns, svc))` =
--default-backend-service, `some none` = not set, `none` = an option outside the model (`opt~xns=1`, a value
that is not `ns/svc`); unknown `opt~…` tokens are ignored, as the harness does -/
def parseOptions (toks : List String) : Option (Option (String × String)) :=
  toks.foldl (fun acc t =>
    match acc with
    | none => none
    | some cur =>
      if t.startsWith "opt~db=" then
        match ((t.drop 7).toString).splitOn "/" with
        | [ns, svc] => if ns = "" ∨ svc = "" then none else some (some (ns, svc))
        | _ => none
      else if t = "opt~xns=1" then none
      else some cur) (some none)

def parseOp (t : String) : Tok :=
  if t = "sync" then .sync else
  if t.startsWith "tcp~" then .tcp (parseTcp (t.drop 4).toString) else
  let pick : Option (String × Char × String) :=
    ["ing", "svc", "sec", "cls", "pod", "ep", "cm"].foldl (fun acc k =>
      if t.startsWith k ∧ t.length > k.length then
        some (k, (t.drop k.length).front, (t.drop (k.length + 1)).toString) else acc) none
  match pick with
  | none => .bad t
  | some (kind, act, arg) =>
    let del := act == '-'
    match kind with
    | "ing" =>
      if del then .op (.ingDel arg) else
        match parseIngress arg with
        | some i => .op (.ingSet i)
        | none => .bad t
    | "svc" =>
      if del then .op (.svcDel arg) else
        match arg.splitOn "!" with
        | [k, ps, ann] => .op (.svcSet { key := k, ports := parsePorts ps, ann := parseKV ann })
        | _ => .bad t
    | "ep" =>
      if del then .op (.epDel arg) else
        match arg.splitOn "!" with
        | [k, as] =>
          let l := parseAddrs as
          .op (.epSet k ((l.filter (·.2.1)).map fun a => (a.1, a.2.2)) ((l.filter (!·.2.1)).map fun a => (a.1, a.2.2)))
        | _ => .bad t
    | "sec" =>
      if del then .op (.secDel arg) else
        match arg.splitOn "!" with
        | [k, kind, v, _] => .op (.secSet { key := k, kind := kind, version := v.toNat?.getD 0 })
        | _ => .bad t
    | "cls" =>
      if del then .op (.clsDel arg) else
        match arg.splitOn ":" with
        | n :: c :: rest => .op (.clsSet n (":".intercalate (c :: rest)))
        | _ => .bad t
    | "cm" => .op (.cmSet (if arg = "-" then [] else parseKV arg))
    | "pod" =>
      if del then .op (.podDel arg) else
        match arg.splitOn "!" with
        | [k, ip, labels, tm] => .op (.podSet { key := k, ip := ip, labels := parseKV labels, term := tm == "t" })
        | _ => .bad t
    | _ => .bad t

/-- annotations the model covers (no tracking, no control flow in the converter) -/
def tracerAnn : List String := ["app-root", "balance-algorithm", "ssl-redirect", "maxconn-server"]

def opInFragment : Op → Bool
  | .ingSet i =>
    -- the pseudo source of --default-backend-service sorts before every real ingress and no real
    -- ingress shares its key or its port marker
    !i.pseudo && i.ns ≠ "" && ingLE (optIngress "" "") i && i.key ≠ (optIngress "" "").key &&
    (i.defBackend.all fun sp => sp.2 ≠ firstPort) &&
    i.rules.all (fun r => r.paths.all fun p => p.port ≠ firstPort) &&
    i.ann.all (fun kv => kv.1 ∈ tracerAnn) &&
    i.tls.all (fun t => !(t.secret.contains '/') && !(t.secret.contains ':')) &&
    i.rules.all (fun r => !(r.host.contains ':') && r.paths.all fun p => !(p.svc.contains '/'))
  | .ingDel k => k ≠ (optIngress "" "").key
  | .svcSet s => s.ann.all fun kv => kv.1 ∈ tracerAnn
  | .cmSet d => d.all fun kv => kv.1 ∈ ["drain-support", "max-connections"]
  | _ => true

/-! ### rendering (same canonical forms as the harness) -/

def sortStr (l : List String) : List String := l.mergeSort fun a b => !(decide (b < a))

def kindCode : Kind → String
  | .ing => "I" | .cls => "C" | .cm => "M" | .svc => "S" | .ep => "E" | .sec => "X"
  | .pod => "P" | .tcp => "T" | .host => "H" | .back => "B" | .user => "U" | .acme => "A"

def nodeStr (n : Node) : String := kindCode n.kind ++ ":" ++ n.name

def joinC (l : List String) : String := ",".intercalate l

/-- connected components of the model tracker -/
def components (t : Tr Node) : List (List Node) :=
  (dedup (ends t)).foldl (fun acc n => if acc.any (·.contains n) then acc else acc ++ [queryOut t [n]]) []

def partitionStr (t : Tr Node) : String :=
  "|".intercalate (sortStr ((components t).map fun c => joinC (sortStr (c.map nodeStr))))

def hostsStr (st : St) : String :=
  joinC (sortStr ((st.hosts.filter (·.live)).flatMap fun h =>
    if h.paths.isEmpty then [h.name ++ "^^^"]
    else h.paths.map fun p => h.name ++ "^" ++ p.path ++ "^" ++ p.mtch ++ "^" ++ p.back))

def backsStr (st : St) : String := joinC (sortStr (st.backs.map (·.id)))

def dashS (s : String) : String := if s = "" then "-" else s

/-- the tcp backends as the harness renders them (`c01tcpObs`): sorted by public port, files by base name -/
def tcpStr (l : List C01Tcp.TcpBack) : String :=
  let sorted := l.mergeSort fun a b => a.port ≤ b.port
  joinC (sorted.map fun b =>
    ">".intercalate [toString b.port, b.name, dashS ("+".intercalate (sortStr b.eps)), (if b.decode then "d" else "-"),
      dashS b.encode, dashS b.check,
      (if b.crt = "" then "-" else C01Tcp.backName b.crt ++ ".pem"),
      (if b.ca = "" then "-" else "ca_" ++ C01Tcp.backName b.ca ++ ".pem")])

def field (obs : List String) (k : String) : String :=
  match obs.find? (·.startsWith (k ++ "=")) with
  | some f => (f.drop (k.length + 1)).toString
  | none => "?"

def csv (s : String) : List String := if s = "" then [] else s.splitOn ","

def halfOf (t : Tr Node) : Half Node := t.flatMap fun e => [(e.1, e.2), (e.2, e.1)]

def sameSet (a b : List Node) : Bool := a.all (· ∈ b) && b.all (· ∈ a)

/-- the Go recursion mirror and the edge-list model give the same output and the same remaining links -/
def mirrorAgrees (t : Tr Node) (seeds : List Node) : Bool :=
  match goQuery (halfOf t) seeds true with
  | none => false
  | some (out, d') =>
    sameSet out (queryOut t seeds) &&
      (let r := halfOf (rest t seeds)
       d'.all (· ∈ r) && r.all (· ∈ d'))

/-- runtime check of the hypothesis `Describes` of the theorems on the model's own batch: every object and
every valid ingress that changed between the cluster of the previous sync and the current one is in `links`,
a touched ingress that is valid now is carried by `add`/`upd`, IngressClasses and the ConfigMap are unchanged
(checked over the objects of both cluster states; absent objects read as `none` on both sides) -/
def describesWhy (w w' : World) (b : Batch) : Option String :=
  let chk (k : Kind) (keys : List String) : Bool :=
    keys.all fun key => (w.read ⟨k, key⟩ == w'.read ⟨k, key⟩) || decide ((⟨k, key⟩ : Node) ∈ b.links)
  let vi (x : World) (k : String) : Option Ingress := (x.findIng k).filter x.valid
  if !chk .svc (w.svcs.map (·.key) ++ w'.svcs.map (·.key)) then some "service" else
  if !chk .ep (w.eps.map (·.key) ++ w'.eps.map (·.key)) then some "endpoints" else
  if !chk .sec (w.secs.map (·.key) ++ w'.secs.map (·.key)) then some "secret" else
  if !(w.cm == w'.cm) then some "configmap" else
  if !((w.ings.map (·.key) ++ w'.ings.map (·.key)).all fun k =>
    (vi w k == vi w' k) || decide ((⟨.ing, k⟩ : Node) ∈ b.links)) then some "ingress" else
  if !((namesOf .ing b.links).all fun k =>
    match vi w' k with
    | some i => decide (i ∈ b.add) || decide (i ∈ b.upd)
    | none => true) then some "carried" else
  if !((b.add ++ b.upd).all fun i => decide ((⟨.ing, i.key⟩ : Node) ∈ b.links)) then some "events" else
  if !(b.del.all fun k => decide ((⟨.ing, k⟩ : Node) ∈ b.links)) then some "del" else none

def describesB (w w' : World) (b : Batch) : Bool := (describesWhy w w' b).isNone

structure Run where
  wPrev : World := {}                   -- the cluster at the previous sync
  w : World := {}
  c : Ctl := {}
  b : Batch := {}
  k : Nat := 0                          -- syncs so far
  tcp : C01Tcp.Ctl := {}                -- tcp backends of the ConfigMap converter and TCPConfigMapDataCur
  tcpNew : Option C01Tcp.Data := none   -- TCPConfigMapDataNew of the batch being collected
  mism : Option String := none          -- first disagreement with the implementation
  sig : Option String := none           -- first violated side condition
  nontrivial : Bool := false

/-- one reconciliation of the model, compared with the observation token of the implementation -/
def doSync (r : Run) (obs? : Option String) : Run :=
  let w := r.w
  let b := r.b
  let full := needFull r.c b
  let old := r.c.st
  -- partial-sync internals (for the observations and the side conditions)
  let st1 := preTrack w b old
  let out := if full then [] else queryOut st1.tr b.links
  let dH := namesOf .host out
  let dB := namesOf .back out
  let mirrorOk := full || mirrorAgrees st1.tr b.links
  let describesOk := full || describesB r.wPrev w b
  let sig := if full || r.sig.isSome then r.sig else
    if !(lateBacks currentRev w b old).isEmpty then some "late-ref-surviving-backend"
    else if !(lateHosts currentRev w b old).isEmpty then some "default-host-entry-not-pretracked"
    else none
  let c' := reconcile currentRev w b r.c
  let new := c'.st
  -- the ConfigMap tcp converter: the decision of the code (`always`, tie `tcp_runs_when_configured`)
  let tc' := C01Tcp.reconcile (fun _ => C01Tcp.always) w full r.tcpNew b.links r.tcp
  let k := r.k + 1
  let mism := if r.mism.isSome then r.mism else
    match obs? with
    | none => none     -- the implementation stopped before this sync (difference or error)
    | some o =>
      let f := o.splitOn ";"
      let chk (name model impl : String) : Option String :=
        if model = impl then none else some s!"sync{k}:{name}:model={model}:impl={impl}"
      let oldH := (old.hosts.filter (·.live)).map (·.name)
      let newH := (new.hosts.filter (·.live)).map (·.name)
      let oldB := old.backs.map (·.id)
      let newB := new.backs.map (·.id)
      let explained (u oldL newL dirty : List String) : Bool :=
        if full then u.all (fun x => x ∈ oldL ∨ x ∈ newL) && newL.all (fun x => x ∈ oldL ∨ x ∈ u) && oldL.all (fun x => x ∈ newL ∨ x ∈ u)
        else u.all (fun x => if x ∈ oldL then x ∈ dirty ∨ x ∈ lateBacks currentRev w b old ∨ x ∈ lateHosts currentRev w b old else x ∈ newL) &&
          newL.all (fun x => x ∈ oldL ∨ x ∈ u) && oldL.all (fun x => x ∈ newL ∨ x ∈ u)
      let checks : List (Option String) := [
        chk "mode" (if full then "F" else "P") (f.headD "?"),
        chk "links" (joinC (sortStr (b.links.map nodeStr))) (field f "L"),
        chk "add" (joinC (sortStr (b.add.map (·.key)))) (field f "A"),
        chk "upd" (joinC (sortStr (b.upd.map (·.key)))) (field f "U"),
        chk "del" (joinC (sortStr b.del)) (field f "D"),
        chk "dirty" (if full then "-,-" else s!"{dH.length},{dB.length}") (field f "n"),
        chk "tracker" (partitionStr new.tr) (field f "P"),
        chk "hosts" (hostsStr new) (field f "H"),
        chk "backs" (backsStr new) (field f "B"),
        chk "tcp" (tcpStr tc'.st) (field f "T"),
        if (if full then (csv (field f "uh")).all (· ∈ newH) && newH.all (· ∈ csv (field f "uh"))
            else explained (csv (field f "uh")) oldH newH dH) then none else some s!"sync{k}:updating-hosts:{field f "uh"}:dirty={joinC dH}",
        if explained (csv (field f "ub")) oldB newB dB then none else some s!"sync{k}:updating-backends:{field f "ub"}:dirty={joinC dB}",
        if mirrorOk then none else some s!"sync{k}:go-mirror",
        if describesOk then none else
          some s!"sync{k}:batch-does-not-describe-the-change:{(describesWhy r.wPrev w b).getD "-"}"]
      checks.findSome? id
  { wPrev := w, w := w, c := c', b := {}, k := k, mism := mism, sig := sig, tcp := tc', tcpNew := none,
    nontrivial := r.nontrivial || (!full && !out.isEmpty) ||
      -- a partial sync whose batch names something an entry of the tcp ConfigMap reads
      (!full && r.tcpNew.isNone && b.links.any fun n => decide (n ∈ C01Tcp.reads (r.tcp.cur.getD []))) }

def handle (args : List String) (impl : String) : Verdict :=
  match args with
  | "hist" :: ops0 =>
    let opts := parseOptions ops0
    let ops := ops0.filter fun t => !t.startsWith "opt~"
    let toks := ops.map parseOp
    match toks.findSome? (fun | .bad s => some s | _ => none) with
    | some s => bad ("op:" ++ s)
    | none =>
      let toks := if (ops.getLast?.getD "") = "sync" then toks else toks ++ [.sync]
      let iw := words impl
      let verdict := iw.headD "?"
      let obs := iw.drop 1
      let inFrag := opts.isSome && toks.all fun | .op o => opInFragment o | .tcp d => tcpInFragment d | _ => true
      let w0 := optWorld (opts.getD none)
      let hasTCP := toks.any fun | .op (.ingSet i) => i.ann.any (·.1 = "tcp-service-port") | _ => false
      let oracleOf (sig : Option String) : Option String :=
        if verdict = "eq" then none
        else if verdict.startsWith "diff:" then
          some (if (verdict.splitOn "[tcp_").length > 1 then "tcp-configmap-services-differ-from-fresh"
                else if !inFrag then (if hasTCP then "tcp-service-difference" else "outside-model-difference")
                else sig.getD "unexplained-difference")
        else some ("error-" ++ ((verdict.splitOn ":").getD 1 "?" |>.take 40).toString)
      if !inFrag then
        { model := "outside-fragment", agree := true, oracle := oracleOf none, trivial := true }
      else
        let r := toks.foldl (fun (ro : Run × List String) t =>
          match t with
          | .op o => let (w', b') := applyOp (ro.1.w, ro.1.b) o; ({ ro.1 with w := w', b := b' }, ro.2)
          | .tcp d => ({ ro.1 with b := addLink ro.1.b ⟨.cm, tcpConfigMap⟩, tcpNew := some d }, ro.2)
          | .sync => (doSync ro.1 ro.2.head?, ro.2.drop 1)
          | .bad _ => ro) (({ wPrev := w0, w := w0 } : Run), obs)
        let run := r.1
        -- the implementation stops at the first difference: fewer observations than syncs is fine then
        let short := obs.length < run.k ∧ verdict = "eq"
        match run.mism with
        | some m => { model := m, agree := false, oracle := oracleOf run.sig }
        | none =>
          if short then { model := s!"missing-observations:{obs.length}<{run.k}", agree := false, oracle := oracleOf run.sig }
          else { model := s!"agree:syncs={run.k}:sig={run.sig.getD "-"}", agree := true, oracle := oracleOf run.sig,
                 trivial := !run.nontrivial }
  | _ => bad "C01"

end HapVerif.C01
