import HapVerif.Model.C01Hosts
import HapVerif.Drv.Common
/-
Driver of the host-store part of C01. Case line:
  `C01 hosts <cycle> <cycle> ... => <has> <items>`
  cycle : `F~-~<decls>` (full sync: Clear) | `P~<dirty names,>~<decls>`;  decls = `name.pass.other,...` | `-`
  has   : 0|1 = Hosts.HasSSLPassthrough() after the last cycle
  items : `name.pass.other,...` sorted by name | `-`
`agree` = the model (current Shrink) predicts flag and items; `oracle` = the flag says whether a current host is
an ssl-passthrough host (what a freshly started controller would compute).
-/
namespace HapVerif.C01Hosts
open HapVerif.Drv

def parseDecl (s : String) : Option Decl :=
  match s.splitOn "." with
  | [n, p, o] => do
    let o ← o.toNat?
    if p = "1" then some ⟨n, true, o⟩ else if p = "0" then some ⟨n, false, o⟩ else none
  | _ => none

def parseCycle (s : String) : Option Cycle :=
  match s.splitOn "~" with
  | [m, d, ds] => do
    let decls ← parseList parseDecl ds
    let dirty := if d = "-" ∨ d = "" then [] else d.splitOn ","
    if m = "F" then some ⟨true, dirty, decls⟩ else if m = "P" then some ⟨false, dirty, decls⟩ else none
  | _ => none

def insertSorted (h : Host) : List Host → List Host
  | [] => [h]
  | x :: xs => if h.name < x.name then h :: x :: xs else x :: insertSorted h xs
def sortHosts (l : List Host) : List Host := l.foldr insertSorted []

def renderItems (l : List Host) : String :=
  if l.isEmpty then "-" else
    ",".intercalate ((sortHosts l).map fun h => h.name ++ "." ++ (if h.pass then "1" else "0") ++ "." ++ toString h.other)

def handle (args : List String) (impl : String) : Verdict :=
  match args.mapM parseCycle with
  | none => bad "cycle"
  | some cs =>
    let s := run .current cs
    let model := (if hasPass s then "1" else "0") ++ " " ++ renderItems s.items
    match words impl with
    | [has, items] =>
      match parseList parseDecl items with
      | some ds =>
        let implItems : List Host := ds.map fun d => ⟨d.name, d.pass, d.other⟩
        { model := model, agree := decide (model = has ++ " " ++ items),
          oracle := oracle (has = "1") implItems,
          trivial := !(cs.any fun c => c.decls.any (·.pass)) }
      | none => bad "impl-items"
    | _ => bad "impl"

end HapVerif.C01Hosts
