import HapVerif.Model.C07
import HapVerif.Model.C07Ids
import HapVerif.Model.C07Files
import HapVerif.Drv.Common
import HapVerif.Drv.C18
namespace HapVerif.C07
open HapVerif.Drv

/-- one endpoint of a `sid` case: `n` no TargetRef | `<k>:!` TargetRef of pod k, which cannot be read |
`<k>:<uid>` TargetRef of pod k whose UID is the text after the first `:` -/
def parseSidEp (s : String) : Option Ids.Ep :=
  if s = "n" then some ⟨none, .err⟩ else
  match s.splitOn ":" with
  | k :: rest@(_ :: _) =>
    let uid := ":".intercalate rest
    match k.toNat? with
    | some k =>
      if uid = "" then none
      else if uid = "!" then some ⟨some k, .err⟩
      else some ⟨some k, .hash (Ids.fnv1a (Ids.uidBytes uid))⟩
    | none => none
  | _ => none

/-- `sid <mode> <ep,ep,…>` (server ids of assign-backend-server-id; endpoints in the order of the backend);
impl output: the PUID of every endpoint in that order, `,` separated.
`hist <ops…>` / `world <ops…>`; impl output: `ok` or problems joined by `,`.
`ids <link,link,…>`; impl output: the ids the real AddBackendPath handed out, `link=NN,…`
`cafile <present> <ref>` (CA bundle read from files, Model/C07Files): `<present>` = the files that exist,
`+` separated (`-` none), `<ref>` = the annotation value (`_` = empty); impl output of the real
GetCASecretPath: `<ca>|<crl>|<error class>` (`-` = empty / nil).
`cafiles <present> <ops…>`: a world history whose ingresses / services carry such references; impl output as
for `hist`; a file named by the configuration that does not exist is `config-names-missing-file`. -/
def handle (args : List String) (impl : String) : Verdict :=
  match args with
  | "alloc" :: _ => HapVerif.C18.handle args impl   -- auth-proxy port allocator (model + Spec shared with C18)
  | "sid" :: _mode :: [eps] =>
    match parseList parseSidEp eps with
    | some es =>
      let txt := ",".intercalate ((Ids.ids es).map toString)
      let triv := (es.filter (·.ref.isSome)).length < 2
      match parseList parseInt? impl with
      | some out =>
        { model := txt, agree := txt = impl ∧ es ≠ [],
          oracle := if out.length = es.length then Ids.oracle out else some "server-id-missing-endpoint",
          trivial := triv }
      | none => { model := txt, agree := false,
                  oracle := some (if impl = "PANIC" then "panic-sid" else "sid-output-" ++ impl), trivial := triv }
    | none => bad "parse"
  | "cafile" :: present :: [ref] =>
    let pres := if present = "-" then [] else present.splitOn "+"
    let ex := Files.exOf pres
    let rtxt := if ref = "_" then "" else ref
    let txt := Files.render (Files.resolve ex rtxt)
    let triv := (Files.contentProtocol rtxt).1 ≠ "file"
    match impl.splitOn "|" with
    | [ca, crl, err] => { model := txt, agree := txt = impl, oracle := Files.oracle ex ca crl err, trivial := triv }
    | _ => { model := txt, agree := false,
             oracle := some (if impl = "PANIC" then "panic-cafile" else "cafile-output"), trivial := triv }
  | "ids" :: [links] =>
    match parseList (fun s => some s) links with
    | some ls =>
      let m := addAll ls
      let txt := if m.isEmpty then "-" else ",".intercalate (m.map fun p => p.1 ++ "=" ++ toString p.2)
      let ids := (impl.splitOn ",").filterMap fun kv => (kv.splitOn "=").getLast?
      { model := txt, agree := txt = impl,
        oracle := if impl = "-" ∨ ids.eraseDups.length = ids.length then none else some "duplicate-path-id",
        trivial := ls.length < 2 }
    | none => bad "parse"
  | kind :: ops =>
    if kind = "cafiles" then
      let probs := if impl = "ok" then [] else impl.splitOn ","
      -- Props/C07Files.written_files_exist: whatever the references and the files present, no named file is missing
      let orc := if impl.startsWith "skip" then none
                 else if probs.any (fun p => problemClass p = "missing-file") then some "config-names-missing-file"
                 else oracle probs
      { model := "ok", agree := impl = "ok" ∨ impl.startsWith "skip", oracle := orc, trivial := ops.length < 4 }
    else if kind = "hist" ∨ kind = "world" then
      let probs := if impl = "ok" then [] else impl.splitOn ","
      -- the model's claim (theorems of Props/C07*.lean + the sync model): no problem, ever
      { model := "ok", agree := impl = "ok" ∨ impl.startsWith "skip", oracle := if impl.startsWith "skip" then none else oracle probs,
        trivial := ops.length < 3 }
    else bad "C07"
  | _ => bad "C07"

end HapVerif.C07
