import HapVerif.Model.C07
import HapVerif.Drv.Common
import HapVerif.Drv.C18
namespace HapVerif.C07
open HapVerif.Drv

/-- `hist <ops…>` / `world <ops…>`; impl output: `ok` or problems joined by `,`.
`ids <link,link,…>`; impl output: the ids the real AddBackendPath handed out, `link=NN,…` -/
def handle (args : List String) (impl : String) : Verdict :=
  match args with
  | "alloc" :: _ => HapVerif.C18.handle args impl   -- auth-proxy port allocator (model + Spec shared with C18)
  | "ids" :: [links] =>
    match parseList (fun s => some s) links with
    | some ls =>
      let m := addAll ls
      let txt := if m.isEmpty then "-" else ",".intercalate (m.map fun p => p.1 ++ "=" ++ toString p.2)
      let ids := (impl.splitOn ",").filterMap fun kv => (kv.splitOn "=").getLast?
      { model := txt, agree := txt = impl,
        oracle := if impl = "-" ∨ ids.eraseDups.length = ids.length then none else some "duplicate-path-id",
        trivial := ls.length < 2 }
    | none => bad "parse"
  | kind :: ops =>
    if kind = "hist" ∨ kind = "world" then
      let probs := if impl = "ok" then [] else impl.splitOn ","
      -- the model's claim (theorems of Props/C07*.lean + the sync model): no problem, ever
      { model := "ok", agree := impl = "ok" ∨ impl.startsWith "skip", oracle := if impl.startsWith "skip" then none else oracle probs,
        trivial := ops.length < 3 }
    else bad "C07"
  | _ => bad "C07"

end HapVerif.C07
