import HapVerif.Model.C07
import HapVerif.Drv.Common
namespace HapVerif.C07
open HapVerif.Drv

def handle (_args : List String) (_impl : String) : Verdict := bad "C07-not-implemented"

end HapVerif.C07
