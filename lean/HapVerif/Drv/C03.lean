import HapVerif.Model.C03
import HapVerif.Model.C03Ep
import HapVerif.Drv.Common
/-!
Driver of C03 (and the op-text parser shared with C15 / C06).

Case line: `C03 world <op> <op> ... => <routes> <servers>` where the ops are the one-token texts of
`harness/world/ops.go` (one batch, fresh controller) plus pseudo ops `opt~db=ns/name`
(`--default-backend-service`) and `opt~xns=1` (cross-namespace certificates);
`routes` = `proto://host/path>backend,...`, `servers` = `backend=ip:port:w+...,...` (w = weight, 0 = drain).
-/
namespace HapVerif.Sync.Parse
open HapVerif.Sync
open HapVerif.C04 (Str MT)

def unq (s : Str) : Str := if s = ['_'] then [] else s

def splitKey (s : Str) : Str × Str :=
  match splitOnC '/' s with
  | [n] => ([], n)
  | ns :: rest => (ns, "/".toList.intercalate rest)
  | [] => ([], [])

/-- split at the first occurrence of a character -/
def split1 (c : Char) (s : Str) : Str × Option Str :=
  let a := s.takeWhile (· ≠ c)
  if a.length = s.length then (s, none) else (a, some (s.drop (a.length + 1)))

def parseKV (s : Str) : List (Str × Str) :=
  if s = ['-'] ∨ s.isEmpty then [] else
  (splitOnC ';' s).filterMap fun kv =>
    match split1 '=' kv with
    | (k, some v) => some (k, unq v)
    | _ => none

def parsePType (s : Str) : PType :=
  if s = "Exact".toList then .exact else if s = "Prefix".toList then .pfx else .impl

def parsePath (s : Str) : PathSpec :=
  let f := splitOnC ':' s
  let g (i : Nat) : Str := f.getD i ['_']
  ⟨unq (g 0), parsePType (unq (g 1)), g 2, unq (g 3)⟩

structure RawIng where
  ing : Ingress
  classAnn : Option Str
  className : Option Str

def parseOpt (s : Str) : Option Str := if s = ['-'] then none else some (unq s)

def lookupKV (l : List (Str × Str)) (k : String) : Option Str := (l.find? (·.1 = k.toList)).map (·.2)

def lowerS (s : Str) : Str := C04.lower s

def parseIngress (text : Str) : Option RawIng :=
  match splitOnC '!' text with
  | [f0, f1, f2, f3, f4, f5] =>
    let (nn, ts) := split1 '@' f0
    let (ns, name) := splitKey nn
    let created := match ts with | some t => atoi t | none => 0
    let (ca, cn) := split1 ',' f1
    let ann := parseKV f2
    let rules : List RuleSpec :=
      if f3 = ['-'] then [] else
      (splitOnC ';' f3).map fun r =>
        let (h, ps) := split1 '>' r
        ⟨unq h, match ps with
          | some p => if p.isEmpty then [] else (splitOnC '+' p).map parsePath
          | none => []⟩
    let tls : List TLSSpec :=
      if f4 = ['-'] then [] else
      (splitOnC ';' f4).map fun t =>
        let (hs, sec) := split1 '>' t
        ⟨if hs.isEmpty then [] else (splitOnC '+' hs).map unq, match sec with | some s => unq s | none => []⟩
    let dflt : Option (Str × Str) :=
      if f5 = ['-'] then none else
      let (s, p) := split1 ':' f5
      some (s, match p with | some p => unq p | none => [])
    some { ing := { ns, name, created, valid := false,
                    pathType := match lookupKV ann "path-type" with | some v => lowerS v | none => [],
                    ann := ann.filter (·.1 ≠ "path-type".toList), rules, tls, dflt },
           classAnn := parseOpt ca, className := cn.bind parseOpt }
  | _ => none

def parsePorts (s : Str) : List SvcPort :=
  if s = ['-'] then [] else
  (splitOnC '+' s).filterMap fun p =>
    match splitOnC ':' p with
    | [n, num, t] => some ⟨unq n, atoi num, t⟩
    | _ => none

def parseAddrs (s : Str) : List Addr :=
  if s = ['-'] then [] else
  (splitOnC '+' s).filterMap fun a =>
    match splitOnC ':' a with
    | [ip, r, pod] => some ⟨ip, r = ['r'], unq pod⟩
    | _ => none

/-- driver state: the world, the IngressClass objects, the class fields of the ingresses -/
structure St where
  w : World := {}
  classes : List (Str × Str) := []
  raw : List ((Str × Str) × (Option Str × Option Str)) := []

def ourController : Str := "haproxy-ingress.github.io/controller".toList
def ourClass : Str := "haproxy".toList

/-- `IsValidIngress` with the default options of the harness (`--ingress-class=haproxy`, no
watch-without-class, no class precedence) -/
def classValid (classes : List (Str × Str)) (ann cn : Option Str) : Bool :=
  match ann with
  | some a => a = ourClass
  | none =>
    match cn with
    | some c => (classes.find? (·.1 = c)).any (·.2 = ourController)
    | none => false

def stripPrefix (p : String) (s : Str) : Option Str :=
  if p.toList.isPrefixOf s then some (s.drop p.length) else none

def step (st : St) (tok : Str) : Option St :=
  let putIng (t : Str) : Option St := do
    let r ← parseIngress t
    let key := (r.ing.ns, r.ing.name)
    pure { st with w := st.w.apply (.ingPut r.ing),
                   raw := (key, (r.classAnn, r.className)) :: st.raw.filter (·.1 ≠ key) }
  if let some t := stripPrefix "ing+" tok then putIng t
  else if let some t := stripPrefix "ing~" tok then putIng t
  else if let some t := stripPrefix "ing-" tok then
    let (ns, n) := splitKey t
    some { st with w := st.w.apply (.ingDel ns n) }
  else if let some t := (stripPrefix "svc+" tok).orElse (fun _ => stripPrefix "svc~" tok) then
    match splitOnC '!' t with
    | [k, ps, _] => let (ns, n) := splitKey k; some { st with w := st.w.apply (.svcPut ⟨ns, n, parsePorts ps⟩) }
    | _ => none
  else if let some t := stripPrefix "svc-" tok then
    let (ns, n) := splitKey t
    some { st with w := st.w.apply (.svcDel ns n) }
  else if let some t := stripPrefix "ep~" tok then
    match splitOnC '!' t with
    | [k, as] => let (ns, n) := splitKey k; some { st with w := st.w.apply (.epPut ns n (parseAddrs as)) }
    | _ => none
  else if let some t := stripPrefix "ep-" tok then
    let (ns, n) := splitKey t
    some { st with w := st.w.apply (.epDel ns n) }
  else if let some t := (stripPrefix "sec+" tok).orElse (fun _ => stripPrefix "sec~" tok) then
    match splitOnC '!' t with
    | [k, kind, v, _] =>
      let (ns, n) := splitKey k
      some { st with w := st.w.apply (.secPut ⟨ns, n, kind = "tls".toList, atoi v⟩) }
    | _ => none
  else if let some t := stripPrefix "sec-" tok then
    let (ns, n) := splitKey t
    some { st with w := st.w.apply (.secDel ns n) }
  else if let some t := stripPrefix "cls+" tok then
    match split1 ':' t with
    | (n, some c) => some { st with classes := (n, c) :: st.classes.filter (·.1 ≠ n) }
    | _ => none
  else if let some t := stripPrefix "cls-" tok then
    some { st with classes := st.classes.filter (·.1 ≠ t) }
  else if let some t := stripPrefix "cm~" tok then
    let kv := parseKV t
    some { st with w := st.w.apply (.setDrain (lookupKV kv "drain-support" = some "true".toList)) }
  else if let some t := stripPrefix "pod+" tok then
    match splitOnC '!' t with
    | [k, ip, labels, term] =>
      let (ns, n) := splitKey k
      let app := (lookupKV (parseKV labels) "app").getD []
      some { st with w := st.w.apply (.podPut ⟨ns, n, ip, app, term = ['t']⟩) }
    | _ => none
  else if let some t := stripPrefix "pod-" tok then
    let (ns, n) := splitKey t
    some { st with w := st.w.apply (.podDel ns n) }
  else if let some t := stripPrefix "opt~db=" tok then
    some { st with w := { st.w with opts := { st.w.opts with defaultBackend := some (splitKey t) } } }
  else if tok = "opt~xns=1".toList then
    some { st with w := { st.w with opts := { st.w.opts with crossNsSecret := true } } }
  -- every address of an Endpoints object in a subset of its own (same ports): the model reads all subsets
  else if tok = "opt~subsets=1".toList then some st
  else if tok = "sync".toList then some st
  else none

/-- the final cluster state of a list of op texts, class validity resolved at the end -/
def worldOf (toks : List String) : Option World := do
  let st ← toks.foldlM (fun st t => step st t.toList) ({} : St)
  let valid (i : Ingress) : Bool :=
    match st.raw.find? (·.1 = (i.ns, i.name)) with
    | some (_, (a, c)) => classValid st.classes a c
    | none => false
  pure { st.w with ings := st.w.ings.map fun i => { i with valid := valid i } }

end HapVerif.Sync.Parse

namespace HapVerif.C03
open HapVerif.Drv HapVerif.Sync HapVerif.Sync.Parse
open HapVerif.C04 (Str)

def str (s : Str) : String := String.ofList s

def perms {α} : List α → List (List α)
  | [] => [[]]
  | x :: xs => (perms xs).flatMap fun p => (List.range (p.length + 1)).map fun i => p.take i ++ x :: p.drop i

/-- `proto://host/path>backend` -/
def parseRoute (s : Str) : Option (Req × Str) :=
  match split1 '>' s with
  | (lhs, some ans) =>
    let (tls, rest) :=
      if "https://".toList.isPrefixOf lhs then (true, lhs.drop 8) else (false, lhs.drop 7)
    let host := rest.takeWhile (· ≠ '/')
    some (⟨tls, host, rest.drop host.length⟩, ans)
  | _ => none

def parseServer (s : Str) : Option Server :=
  match splitOnC ':' s with
  | [ip, p, w] => some ⟨ip, atoi p, atoi w⟩
  | _ => none

def parseBackend (s : Str) : Option (Str × List Server) :=
  match split1 '=' s with
  | (id, some l) => if l.isEmpty then some (id, []) else ((splitOnC '+' l).mapM parseServer).map (id, ·)
  | _ => none

def parseItems {α} (f : Str → Option α) (s : String) : Option (List α) :=
  if s = "-" ∨ s = "" then some [] else (splitOnC ',' s.toList).mapM f

def strLt (a b : Str) : Bool := C04.ltStr a b

def showServers (l : List Server) : String :=
  "+".intercalate ((sortBy strLt (l.map fun s => s.ip ++ ':' :: itoa s.port ++ ':' :: itoa s.weight)).map str)

def showBackends (bs : List (Str × List Server)) : String :=
  if bs.isEmpty then "-" else
  ",".intercalate ((sortBy (fun (a b : Str × String) => strLt a.1 b.1)
    (bs.map fun b => (b.1, str b.1 ++ "=" ++ showServers b.2))).map (·.2))

def showReq (r : Req) : String := (if r.tls then "https://" else "http://") ++ str r.host ++ str r.path

def showRoutes (rs : List (Req × Str)) : String :=
  if rs.isEmpty then "-" else ",".intercalate (rs.map fun (r, a) => showReq r ++ ">" ++ str a)

/-- the model's routes for the given requests (`Sync.routeS`: hostnames iterated in sorted order) -/
def modelRoutes (c : Cfg) (reqs : List (Req × Str)) : List (Req × Str) × Bool :=
  let m := buildMaps c c.iterSorted
  let run (tls : Bool) : List (Req × Str) := (reqs.filter (·.1.tls = tls)).map fun (r, _) => (r, routeM c m r)
  (run false ++ run true, true)

def handleWorld (toks : List String) (impl : String) : Verdict :=
  match worldOf toks with
  | none => bad "parse-ops"
  | some w =>
    match words impl with
    | [rs, bs] =>
      match parseItems parseRoute rs, parseItems parseBackend bs with
      | some routes, some backends =>
        let c := fullSync w
        let (mr, okr) := modelRoutes c routes
        let mb := c.backends.map fun b => (b.key.id, b.servers)
        let okb := showBackends mb = showBackends backends
        let routesSorted := (routes.filter (!·.1.tls)) ++ routes.filter (·.1.tls)
        { model := showRoutes mr ++ " " ++ showBackends mb,
          agree := okr && okb && showRoutes mr = showRoutes routesSorted,
          oracle := oracle w routes backends,
          trivial := c.paths.isEmpty }
      | _, _ => bad "parse-impl"
    | _ => bad "parse-impl-fields"

/-! ## mode `ep`: hand-maintained Endpoints objects (Model/C03Ep.lean, after seed C03g)

`C03 ep d<0|1> <svcports> <ingport> <subsets> => <ready> <notready> <backends>` (or `=> noport <backends>`):
`svcports` = `name:port:targetPort+...` (`_` unnamed, targetPort `0` = unset), `ingport` the port the Ingress
backend names, `subsets` = `-` or `/`-joined `ready;notready;ports` with `,`-joined addresses (`-` none) and
`,`-joined ports `name:number:TCP|UDP|SCTP`; `ready` / `notready` = the listings of the real
`convutils.CreateEndpoints` as returned (`ip:port+...`), `backends` = `id=ip:port:weight+...` of the real ingress
converter run on an Ingress that names the port. -/

def parseProto (s : Str) : C03Ep.Proto :=
  if s = "UDP".toList then .udp else if s = "SCTP".toList then .sctp else .tcp

def parseList (c : Char) (s : Str) : List Str := if s = ['-'] ∨ s.isEmpty then [] else splitOnC c s

def parseSubset (s : Str) : Option C03Ep.Subset :=
  match splitOnC ';' s with
  | [r, n, ps] =>
    ((parseList ',' ps).mapM fun p =>
      match splitOnC ':' p with
      | [nm, num, pr] => some (⟨unq nm, atoi num, parseProto pr⟩ : C03Ep.EpPortE)
      | _ => none).map fun ports => ⟨parseList ',' r, parseList ',' n, ports⟩
  | _ => none

def parseTarget (s : Str) : Option (Str × Nat) :=
  match splitOnC ':' s with
  | [ip, p] => some (ip, atoi p)
  | _ => none

def showTargets (l : List (Str × Nat)) : String :=
  if l.isEmpty then "-" else "+".intercalate (l.map fun t => str (C03Ep.targetStr t))

def epBackendId (target : Str) : Str := "default_legacy_".toList ++ target

def showEpOut (o : Option C03Ep.Out) : String :=
  match o with
  | none => "noport -"
  | some out =>
    showTargets out.ready ++ " " ++ showTargets out.notReady ++ " " ++
      showBackends (out.backend.toList.map fun (t, l) => (epBackendId t, l))

def handleEp (args : List String) (impl : String) : Verdict :=
  match args with
  | [d, ps, ing, subs] =>
    match (parseList '/' subs.toList).mapM parseSubset with
    | none => bad "parse-subsets"
    | some eps =>
      let c : C03Ep.Case := ⟨parsePorts ps.toList, ing.toList, d = "d1", eps⟩
      let m := C03Ep.run c
      let implOut : Option (Option C03Ep.Out) :=
        match words impl with
        | ["noport", bs] =>
          match parseItems parseBackend bs with
          | some [] => some none
          | _ => none
        | [r, n, bs] =>
          match parseItems parseTarget (r.replace "+" ","), parseItems parseTarget (n.replace "+" ","),
                parseItems parseBackend bs with
          | some r, some n, some [] => some (some ⟨r, n, none⟩)
          | some r, some n, some [(id, l)] =>
            some (some ⟨r, n, some (id.drop "default_legacy_".length, l)⟩)
          | _, _, _ => none
        | _ => none
      match implOut with
      | none => { model := showEpOut m, agree := false, oracle := some "unreadable-output", trivial := false }
      | some o =>
        { model := showEpOut m,
          agree := showEpOut m = impl,
          oracle := C03Ep.oracle c o,
          trivial := m.isNone || eps.isEmpty }
  | _ => bad "C03-ep"

def handle (args : List String) (impl : String) : Verdict :=
  match args with
  | "ep" :: rest => if impl = "PANIC" then { model := "-", agree := false, oracle := some "panic-ep" } else handleEp rest impl
  | "world" :: toks => if impl = "SKIP" then { model := "skip", agree := true, oracle := none, trivial := true } else handleWorld toks impl
  | _ => bad "C03"

end HapVerif.C03
