import HapVerif.Model.C03
import HapVerif.Drv.Common
namespace HapVerif.C03
open HapVerif.Drv

def handle (_args : List String) (_impl : String) : Verdict := bad "C03-not-implemented"

end HapVerif.C03
