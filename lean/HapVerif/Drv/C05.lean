import HapVerif.Model.C05
import HapVerif.Drv.Common
namespace HapVerif.C05
open HapVerif.Drv

def handle (_args : List String) (_impl : String) : Verdict := bad "C05-not-implemented"

end HapVerif.C05
