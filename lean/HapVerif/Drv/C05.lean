import HapVerif.Model.C05
import HapVerif.Drv.Common
import HapVerif.Drv.C05Faults
import HapVerif.Drv.C05Align
import HapVerif.Drv.C05Count
/-!
Driver for C05.  Case line:

  `C05 <api|e2e> <n> <shard of name 0>.<shard of name 1>... <op>,<op>,... => <obs>;<obs>;...`

ops: `aX.C.S` AcquireBackend(name X) + fill content (cfg C, S empty slots) when newly created,
`rX.Y..` RemoveAll, `c` Clear, `s` Shrink, `w` write ChangedShards, `k` Commit, `u` update cycle
(api: Shrink; write; Commit done by the harness on the real `Backends`; e2e: the real
`Instance.HAProxyUpdate`).  One observation per op:
`items|add|del|changedShards|disk`, entries `name:cfg:slots` joined by `+`, files `k=entries`
joined by `,`, `-` = empty.

mode `fx` (histories with failed updates): see Drv/C05Faults.lean.
mode `al` (histories with the dynamic updater: scale-ups applied without reload, `alignSlots` growing
bystander backends on a reload): see Drv/C05Align.lean.
-/
namespace HapVerif.C05
open HapVerif.Drv

def showEnt (e : Ent) : String := s!"{e.name}:{e.cfg}:{e.slots}"
def showEnts (l : List Ent) : String := if l.isEmpty then "-" else "+".intercalate (l.map showEnt)
def showNats (l : List Nat) : String := if l.isEmpty then "-" else "+".intercalate (l.map toString)
def showObs (o : Obs) : String :=
  "|".intercalate [showEnts o.items, showEnts o.add, showEnts o.del, showNats o.changed,
    if o.disk.isEmpty then "-" else ",".intercalate (o.disk.map fun f => s!"{f.1}={showEnts f.2}")]

def parseEnt (s : String) : Option Ent :=
  match s.splitOn ":" with
  | [a, b, c] => do some { name := ← a.toNat?, cfg := ← b.toNat?, slots := ← c.toNat? }
  | _ => none

def parseEnts (s : String) : Option (List Ent) := parseList parseEnt s "+"

def parseFile (s : String) : Option (Nat × List Ent) :=
  match s.splitOn "=" with
  | [k, es] => do some (← k.toNat?, ← parseEnts es)
  | _ => none

def parseObs (s : String) : Option Obs :=
  match s.splitOn "|" with
  | [i, a, d, c, f] => do
    some { items := ← parseEnts i, add := ← parseEnts a, del := ← parseEnts d,
           changed := ← parseList parseNat? c "+", disk := ← parseList parseFile f "," }
  | _ => none

def toFin (p : Nat) (s : String) : Option (Fin p) := do
  let n ← s.toNat?
  if h : n < p then some ⟨n, h⟩ else none

def parseOp (p : Nat) (s : String) : Option (Op p) :=
  if s = "c" then some .clear
  else if s = "s" then some .shrink
  else if s = "w" then some .write
  else if s = "k" then some .commit
  else if s = "u" then some .update
  else if s.startsWith "a" then
    match ((s.drop 1).toString).splitOn "." with
    | [x, c, sl] => do some (.acquire (← toFin p x) { cfg := ← c.toNat?, slots := ← sl.toNat? })
    | _ => none
  else if s.startsWith "r" then
    (parseList (toFin p) ((s.drop 1).toString) ".").map .removeAll
  else none

/-- model trace: one observation per op.  `gated` = end-to-end mode (`stepG`: the whole `HAProxyUpdate`) -/
def trace {p : Nat} (gated : Bool) (sh : Sh p) : GWorld p → List (Op p) → List Obs
  | _, [] => []
  | g, op :: ops =>
    let g' : GWorld p := if gated then stepG sh g op else { g with w := step sh g.w op }
    obsOf sh g'.w :: trace gated sh g' ops

def isUpdate {p : Nat} : Op p → Bool
  | .update => true
  | _ => false

def isLoose {p : Nat} : Op p → Bool
  | .write => true
  | .commit => true
  | _ => false

/-- `Shrink` would leave no added backend: every add entry has a matching del entry -/
def removeOnly (o : Obs) : Bool :=
  o.add.all fun a => o.del.any fun d => d.name == a.name && d.cfg == a.cfg && decide (a.slots ≤ d.slots)

/-- Spec on the implementation's trace: after every update of the disciplined prefix, every file
holds exactly the items of its shard.  `prev` = observation before the op. -/
def specTrace {p : Nat} (files : Nat) (shardOf : Nat → Nat) :
    Obs → Bool → List (Op p) → List Obs → Option String
  | _, _, [], _ => none
  | _, _, _, [] => none
  | prev, committed, op :: ops, o :: os =>
    if isLoose op || !okObs prev op then none     -- outside the property's quantifier from here on
    else
      let r := if isUpdate op then
          match diskClause files shardOf o with
          | some "stale-backend-on-disk" =>
            if committed && removeOnly prev then some "stale-backend-on-disk-noop-update"
            else some "stale-backend-on-disk"
          | r => r
        else none
      match r with
      | some c => some c
      | none =>
        let committed' := match op with
          | .update => true
          | .clear => false
          | _ => committed
        specTrace files shardOf o committed' ops os

def emptyObs (files : Nat) : Obs :=
  { items := [], add := [], del := [], changed := [], disk := (List.range files).map fun k => (k, []) }

/-- number of ops before the discipline is first left (model side, for the statistics column) -/
def disciplined {p : Nat} (sh : Sh p) (ops : List (Op p)) : Bool := allOk sh {} ops

/-! ### mode `maps`: hosts + their backends through a real `haproxy.Instance`

  `C05 maps <n> <p> <op>,<op>,... => <hosts>|<maps>;...`

ops (each one is what a partial resync of one ingress does: RemoveAll of the host and of its
backend, then both are parsed again): `hX.C` host X gets content C (odd = root redirect),
`bX.B` the backend of host X gets content B (odd = ssl-redirect), `dX` host and backend removed,
`c` config.Clear(), `u` apply what was recorded (one RemoveAll, one parse per touched host) and HAProxyUpdate.  hosts: `x:c`, maps: `x:c:s` (entry of host x decoded from
the map files that haproxy.cfg references; s = listed in the root-ssl map). -/

inductive MOp (p : Nat) where
  | host (x : Fin p) (c : Nat)
  | back (x : Fin p) (b : Nat)
  | drop (x : Fin p)
  | clear
  | update

def parseMOp (p : Nat) (s : String) : Option (MOp p) :=
  if s = "c" then some .clear
  else if s = "u" then some .update
  else
    let rest := ((s.drop 1).toString).splitOn "."
    if s.startsWith "h" then
      match rest with
      | [x, c] => do some (.host (← toFin p x) (← c.toNat?))
      | _ => none
    else if s.startsWith "b" then
      match rest with
      | [x, b] => do some (.back (← toFin p x) (← b.toNat?))
      | _ => none
    else if s.startsWith "d" then
      match rest with
      | [x] => do some (.drop (← toFin p x))
      | _ => none
    else none

/-- driver state: the desired hosts/backends recorded by `h`/`b`/`d` ops are applied at the next
`u` the way one resync does it: one `RemoveAll` of everything touched, then every touched host is
parsed once (so every batch follows the discipline), then `HAProxyUpdate` -/
structure MState (p : Nat) where
  s : HStore p := {}
  hcur : Fin p → Option Nat := fun _ => none
  bcur : Fin p → Nat := fun _ => 0
  touched : List (Fin p) := []

def mstep {p : Nat} (st : MState p) : MOp p → MState p
  | .host x c => { st with hcur := fun y => if y = x then some c else st.hcur y, touched := x :: st.touched }
  | .back x b => { st with bcur := fun y => if y = x then b else st.bcur y, touched := x :: st.touched }
  | .drop x => { st with hcur := fun y => if y = x then none else st.hcur y, touched := x :: st.touched }
  | .clear => { st with s := st.s.clear, hcur := fun _ => none, touched := [] }
  | .update =>
    let s1 := st.s.removeAll st.touched
    let s2 := st.touched.foldl (fun s x =>
      let s' := match st.hcur x with
        | some c => s.acquire x c
        | none => s
      s'.backend x (st.bcur x)) s1
    { st with s := s2.update, touched := [] }

structure MEnt where
  name : Nat
  cfg : Nat
  ssl : Nat
deriving DecidableEq

structure MObs where
  hosts : List (Nat × Nat)
  maps : List MEnt
deriving DecidableEq

def mobsOf {p : Nat} (s : HStore p) : MObs :=
  { hosts := (List.finRange p).filterMap fun x => (s.items x).map fun c => (x.val, c)
    maps := (List.finRange p).filterMap fun x => (s.maps x).map fun e =>
      { name := x.val, cfg := e.1, ssl := if e.2 then 1 else 0 } }

def showMObs (o : MObs) : String :=
  (if o.hosts.isEmpty then "-" else "+".intercalate (o.hosts.map fun h => s!"{h.1}:{h.2}")) ++ "|" ++
  (if o.maps.isEmpty then "-" else "+".intercalate (o.maps.map fun e => s!"{e.name}:{e.cfg}:{e.ssl}"))

def parseMObs (s : String) : Option MObs :=
  match s.splitOn "|" with
  | [h, m] => do
    let hs ← parseList (fun t => match t.splitOn ":" with
      | [a, b] => do some (← a.toNat?, ← b.toNat?)
      | _ => none) h "+"
    let ms ← parseList (fun t => match t.splitOn ":" with
      | [a, b, c] => do some ({ name := ← a.toNat?, cfg := ← b.toNat?, ssl := ← c.toNat? } : MEnt)
      | _ => none) m "+"
    some { hosts := hs, maps := ms }
  | _ => none

def mtrace {p : Nat} : MState p → List (MOp p) → List MObs
  | _, [] => []
  | st, op :: ops => let st' := mstep st op; mobsOf st'.s :: mtrace st' ops

/-- Spec on one observation taken right after an update: the map files hold, for every current
host, its entry and the root-ssl entry its CURRENT backend asks for; nothing else -/
def mapsClause (bcur : Nat → Nat) (o : MObs) : Option String :=
  if o.maps.any (fun e => !(o.hosts.any fun h => h.1 == e.name)) then some "stale-frontend-map-entry"
  else if o.hosts.any (fun h => !(o.maps.any fun e => e.name == h.1)) then some "missing-frontend-map-entry"
  else if o.hosts.any (fun h => o.maps.any fun e => e.name == h.1 && e.cfg != h.2) then
    some "outdated-frontend-map-entry"
  else if o.hosts.any (fun h => o.maps.any fun e => e.name == h.1 && e.ssl == 1 &&
      !(hasRoot h.2 && sslOf (bcur h.1))) then some "stale-frontend-map-entry"
  else if o.hosts.any (fun h => o.maps.any fun e => e.name == h.1 && e.ssl != 1 &&
      (hasRoot h.2 && sslOf (bcur h.1))) then some "missing-frontend-map-entry"
  else none

def mspec {p : Nat} : (Nat → Nat) → List (MOp p) → List MObs → Option String
  | _, [], _ => none
  | _, _, [] => none
  | bcur, op :: ops, o :: os =>
    let bcur' : Nat → Nat := match op with
      | .back x b => fun y => if y = x.val then b else bcur y
      | _ => bcur
    let r := match op with
      | .update => mapsClause bcur' o
      | _ => none
    match r with
    | some c => some c
    | none => mspec bcur' ops os

def handleMaps (p : String) (ops : String) (impl : String) : Verdict :=
  match p.toNat? with
  | none => bad "args"
  | some p =>
    match parseList (parseMOp p) ops "," with
    | none => bad "ops"
    | some ops =>
      if impl.startsWith "PANIC" then { model := "-", agree := false, oracle := some "panic-in-instance-update" } else
      let m := ";".intercalate ((mtrace ({} : MState p) ops).map showMObs)
      match (impl.splitOn ";").mapM parseMObs with
      | none => { model := m, agree := false, oracle := some "unparsable-implementation-output" }
      | some obs =>
        { model := m, agree := m == impl && obs.length == ops.length
          oracle := mspec (fun _ => 0) ops obs
          trivial := !(ops.any fun | .update => true | _ => false) }

def handle (args : List String) (impl : String) : Verdict :=
  match args with
  | ["maps", _n, p, ops] => handleMaps p ops impl
  | ["fx", q, n, shards, ops] => C05F.handleFx q n shards ops impl
  | ["cnt", p, ops] => C05Cnt.handleCnt p ops impl
  | ["al", n, shards, dyn, ops] => C05A.handleAl n shards dyn ops impl
  | [mode, n, shards, ops] =>
    match n.toNat?, parseList parseNat? shards "." with
    | some n, some shl =>
      let p := shl.length
      let shardOfN : Nat → Nat := fun i => shl.getD i 0
      let sh : Sh p := { n := n, shardOf := fun x => shardOfN x.val }
      match parseList (parseOp p) ops "," with
      | none => bad "ops"
      | some ops =>
        if mode != "api" && mode != "e2e" then bad "mode" else
        if impl = "PANIC" || impl.startsWith "PANIC" then
          { model := "-", agree := false, oracle := some "panic-in-backends-api" }
        else
        let tr := trace (mode == "e2e") sh {} ops
        let m := ";".intercalate (tr.map showObs)
        let disc := disciplined sh ops
        match (impl.splitOn ";").mapM parseObs with
        | none => { model := m, agree := false, oracle := some "unparsable-implementation-output" }
        | some obs =>
          { model := m, agree := m == impl && obs.length == ops.length
            oracle := specTrace sh.files shardOfN (emptyObs sh.files) false ops obs
            trivial := !disc || !(ops.any isUpdate) }
    | _, _ => bad "args"
  | _ => bad "C05"

end HapVerif.C05
