import HapVerif.Model.C09
import HapVerif.Drv.Common
namespace HapVerif.C09
open HapVerif.Drv

def handle (_args : List String) (_impl : String) : Verdict := bad "C09-not-implemented"

end HapVerif.C09
