import HapVerif.Model.C09
import HapVerif.Model.C09Ctx
import HapVerif.Model.C09Memo
import HapVerif.Drv.Common
namespace HapVerif.C09
open HapVerif.Drv

/-! Line protocol (harness/c09xns/c09_test.go); `h<hex>` = hex encoded byte string

    C09 brn   <dns> <value> <allow>                     => o:<ns>:<name> | denied | invalid
    C09 proto <value>                                   => <proto>:<content>
    C09 get   <getter> <bits4> <dns> <value>            => o:<ns>:<name> | file | denied | invalid
    C09 dyn   <static> <crt><ca><pw><svc>               => <bits4>
    C09 site  <site> <src> <form> <static+bits4> <fu>   => t=<own|foreign|file|none>;r=<0|1>;u=<0|1>;b=<bits4> | PANIC
    C09 carrier <route> <site> <form> <static+bits4> <fu> => (as site)
    C09 legit <site> <src> <form> <static+bits4> <ord> <hist> => (as site)

  bits4 = crt ca passwd services.  dyn tokens: a allow, d deny, - absent, A "Allow", U "ALLOW",
  x "yes", t "true", e "", s " allow", w "allowed".
    C09 oauth <src> <impl> <pfx> <decls> <static+bits4> <fu> => t=<own:<svc>|foreign:<svc>|none>;d=<0|1>;u=<0|1>;b=<bits4> | PANIC

  oauth: Ingress a/app (host h0, path / -> Service a/svc) carries the oauth site; src = ing | svc (object
  with the annotations); impl: p `oauth2_proxy`, h `oauth2-proxy`, x an unknown implementation, u
  `oauth2_proxy` + an `auth-url` of its own namespace, n no oauth; pfx: - or h<hex> = oauth-uri-prefix;
  decls: - or a `+` separated list `<ns>:<host>:h<hex path>:<svc>`, one more Ingress each (namespace a | b,
  converted in the order a/app, a's in list order, b's in list order: first declaration of a host+path
  wins), Services of namespace b exist in the world WITH the foreign objects only; t/d: namespace class
  of the auth backend and AlwaysDeny of a/app's path; u: namespace a's slice differs between the worlds.
  site: tls tlstcp gwcert authtls authtlstcp securecrt secureca authsecret authurl authurlfe;
  src: ing | svc (object carrying the annotation, namespace a);
  form: n own other file fileb secother secown (fileb = file:// naming the controller's copy of b's secret);
  fu: 0 first reconciliation; 1 namespace b converted its own ingress first (its userlist / backend /
  files exist), a is added by a partial sync; 2 a first reconciliation ran with all four keys = allow,
  then the ConfigMap changed to <bits4> (full sync).

  carrier: the annotated object is a Service of namespace a REACHED THROUGH A REFERENCE (harness
  c09xns/carrier_test.go); route: db = `--default-backend-service=a/svc` (referencing source: the command
  line, empty namespace), authsvc = `auth-url: svc://a/authsvc:8080/auth` on Ingress c/ing (namespace c),
  gw = HTTPRoute a/rt backendRefs -> a/svc; site: securecrt secureca authsecret authurl; form: the forms
  of site + ref / secref (= c/<name>, secret://c/<name>: the REFERENCER's namespace); the foreign objects
  are those of namespaces b and c; fu = 1: namespace b converted first, then the Service a/svc appears
  (db, partial sync), Ingress c/ing is added (authsvc, partial sync), the Gateway is added (gw, full sync).
  A `site` line is the same model on the routes direct (src = ing) and ingress (src = svc).
-/

def hexVal (c : Char) : Option Nat :=
  if '0' ≤ c ∧ c ≤ '9' then some (c.toNat - '0'.toNat)
  else if 'a' ≤ c ∧ c ≤ 'f' then some (c.toNat - 'a'.toNat + 10)
  else none

def unhexL : List Char → Option Str
  | [] => some []
  | a :: b :: rest => do
    let x ← hexVal a
    let y ← hexVal b
    let r ← unhexL rest
    pure (Char.ofNat (x * 16 + y) :: r)
  | _ => none

def unhex (s : String) : Option Str :=
  match s.toList with
  | 'h' :: rest => unhexL rest
  | _ => none

def hexDigit (n : Nat) : Char := if n < 10 then Char.ofNat (n + 48) else Char.ofNat (n + 87)
def hex (s : Str) : String :=
  "h" ++ String.ofList (s.flatMap fun c => [hexDigit (c.toNat / 16), hexDigit (c.toNat % 16)])

def showRes : Res → String
  | .obj ns n => "o:" ++ hex ns ++ ":" ++ hex n
  | .file _ => "file"
  | .denied => "denied"
  | .invalid => "invalid"

def parseBits (s : String) : Option Bits :=
  match s.toList with
  | [a, b, c, d] =>
    if [a, b, c, d].all (fun x => x == '0' || x == '1') then
      some ⟨a == '1', b == '1', c == '1', d == '1'⟩
    else none
  | _ => none

def bit (b : Bool) : String := if b then "1" else "0"
def showBits (b : Bits) : String := bit b.crt ++ bit b.ca ++ bit b.pw ++ bit b.svc

def parseGetter : String → Option Getter
  | "tls" => some .tls | "ca" => some .ca | "pw" => some .pw | "svc" => some .svc | "dh" => some .dh
  | _ => none

/-- `o:<ns>:<name>` -/
def parseObjRes (s : String) : Option (Str × Str) :=
  match s.splitOn ":" with
  | ["o", ns, n] => do pure (← unhex ns, ← unhex n)
  | _ => none

def dynTok : Char → Option (Option Str)
  | '-' => some none
  | 'a' => some (some "allow".toList)
  | 'd' => some (some "deny".toList)
  | 'A' => some (some "Allow".toList)
  | 'U' => some (some "ALLOW".toList)
  | 'x' => some (some "yes".toList)
  | 't' => some (some "true".toList)
  | 'e' => some (some [])
  | 's' => some (some " allow".toList)
  | 'w' => some (some "allowed".toList)
  | _ => none

def parseCM (s : String) : Option GlobalCM :=
  match s.toList.mapM dynTok with
  | some [a, b, c, d] => some { crt := a.getD [], ca := b.getD [], pw := c.getD [], svc := d.getD [] }
  | _ => none

/-- documented semantics of the settings: `allow` opens, everything else (missing, `deny`, not
a supported value) denies; `--allow-cross-namespace` overrides the three secret keys only -/
def specAllowed (static : Bool) (cm : GlobalCM) (k : Kind) : Bool :=
  match k with
  | .crt => static || allowOf cm.crt
  | .ca => static || allowOf cm.ca
  | .pw => static || allowOf cm.pw
  | .svc => allowOf cm.svc

structure SiteTok where
  site : Site
  tcp : Bool := false
  label : String

def parseSite : String → Option SiteTok
  | "tls" => some ⟨.tls, false, "tls-secret-name"⟩
  | "tlstcp" => some ⟨.tls, true, "tls-secret-name"⟩
  | "gwcert" => some ⟨.gwCert, false, "gateway-certificate-ref"⟩
  | "authtls" => some ⟨.authTLS, false, "auth-tls-secret"⟩
  | "authtlstcp" => some ⟨.authTLS, true, "auth-tls-secret"⟩
  | "securecrt" => some ⟨.secureCrt, false, "secure-crt-secret"⟩
  | "secureca" => some ⟨.secureCA, false, "secure-verify-ca-secret"⟩
  | "authsecret" => some ⟨.authSecret, false, "auth-secret"⟩
  | "authurl" => some ⟨.authURL, false, "auth-url-svc"⟩
  | "authurlfe" => some ⟨.authURL, false, "auth-url-svc"⟩
  | _ => none

def nsA : Str := ['a']
def nsB : Str := ['b']
def nsC : Str := ['c']

def kindTok : Kind → Str
  | .crt => "crt".toList | .ca => "ca".toList | .pw => "pw".toList | .svc => "authsvc".toList

/-- the value the harness writes for a form -/
def formValue (k : Kind) (form : String) : Option Str :=
  let n := kindTok k
  match form with
  | "n" => some n
  -- Gateway certificateRefs[].namespace = b / a with a bare name: the converter does not read the
  -- attribute (`TODO implement certRef.Namespace`), the name resolves in the Gateway's namespace
  | "nsother" => if k = .crt then some n else none
  | "nsown" => if k = .crt then some n else none
  | "own" => some (nsA ++ ['/'] ++ n)
  | "other" => some (nsB ++ ['/'] ++ n)
  -- carrier lines: the namespace of the object that REFERENCES the carrier
  | "ref" => some (nsC ++ ['/'] ++ n)
  | "secref" => if k = .svc then none else some ("secret://c/".toList ++ n)
  | "file" => if k = .svc then none else some ("file:///F/local-".toList ++ n)
  | "fileb" => if k = .svc || k = .pw then none else some ("file:///D/b_".toList ++ n)
  | "secn" => if k = .svc then none else some ("secret://".toList ++ n)
  | "secother" => if k = .svc then none else some ("secret://b/".toList ++ n)
  | "secown" => if k = .svc then none else some ("secret://a/".toList ++ n)
  | _ => none

/-- namespace b converted its own ingress first: userlist b/pw and backend b/authsvc exist -/
def exFU : Existing :=
  { userlist := fun ns n => ns == nsB && n == "pw".toList
    backend := fun ns n => ns == nsB && n == "authsvc".toList }

/-- `fileb`: the file is the controller's own copy of namespace b's secret; it exists iff b's
ingress was converted before (`fu = 1`); a local path carries no namespace, so nothing denies it
(known finding, labels `…-file`). -/
def targetOf (form fu : String) (r : Res) : String :=
  match r with
  | .obj ns _ => if ns = nsA then "own" else if ns = nsB || ns = nsC then "foreign" else "none"
  | .file _ =>
    if form = "fileb" then (if fu = "1" then "foreign" else "none") else "file"
  | _ => "none"

/-! ### the oauth site: the host/path table the real converter builds from the declarations -/

structure ODecl where
  ns : Str
  host : Str
  path : Str
  svc : Str
deriving Repr

def parseDecl (s : String) : Option ODecl :=
  match s.splitOn ":" with
  | [ns, host, path, svc] =>
    if ns = "a" ∨ ns = "b" then (unhex path).map fun p => ⟨ns.toList, host.toList, p, svc.toList⟩ else none
  | _ => none

/-- Go string `<` on ASCII values -/
def strLt : Str → Str → Bool
  | [], [] => false
  | [], _ :: _ => true
  | _ :: _, [] => false
  | a :: as, b :: bs => if a < b then true else if b < a then false else strLt as bs

/-- `Host.addLink`: append, then sort by path descending (equal paths: insertion order) -/
def insertPath (ps : List HPath) (p : HPath) : List HPath :=
  match ps with
  | [] => [p]
  | q :: qs => if strLt q.path p.path then p :: q :: qs else q :: insertPath qs p

/-- `syncIngressHTTP` for one rule with one path: `addHost`; a host+path that is already there is
skipped ("redeclared path"), so is a path whose Service does not exist -/
def addDecl (t : List HHost) (d : ODecl) (svcExists : Bool) : List HHost :=
  let upd (h : HHost) : HHost :=
    if h.paths.any (·.path == d.path) || !svcExists then h
    else { h with paths := insertPath h.paths ⟨d.path, d.ns, d.svc⟩ }
  if t.any (·.hostname == d.host) then t.map (fun h => if h.hostname == d.host then upd h else h)
  else t ++ [upd ⟨d.host, []⟩]

def oauthTable (decls : List ODecl) (withForeign : Bool) : List HHost :=
  let prot : ODecl := ⟨nsA, "h0".toList, ['/'], "svc".toList⟩
  let ordered := prot :: (decls.filter (·.ns == nsA)) ++ decls.filter (·.ns != nsA)
  ordered.foldl (fun t d => addDecl t d (d.ns == nsA || withForeign)) []

def oauthCfgOf (impl : String) (pfx : Option Str) : Option OAuthCfg :=
  match impl with
  | "p" => some { oauth := some sOAuth2Proxy, uriPrefix := pfx }
  | "h" => some { oauth := some sOAuth2ProxyDash, uriPrefix := pfx }
  | "x" => some { oauth := some "other".toList, uriPrefix := pfx }
  | "u" => some { oauth := some sOAuth2Proxy, authURL := true, uriPrefix := pfx }
  | "n" => some { oauth := none, uriPrefix := pfx }
  | _ => none

/-- `kept`: what the path's own `auth-url: svc://authsvc:8080/auth` (harness) left — the auth-url
site of the model: its backend exists only when ingress.go pre-built it (annotation on the Ingress) -/
def showOAuth (bits : Bits) (fromIng : Bool) : OAuthOut → String
  | .untouched => "t=none;d=0"
  | .kept =>
    match siteUses .authURL bits Existing.none fromIng nsA "authsvc".toList with
    | .obj _ n => "t=own:" ++ String.ofList n ++ ";d=0"
    | _ => "t=none;d=1"
  | .deny => "t=none;d=1"
  | .proxy p _ => "t=" ++ (if p.ns = nsA then "own:" else "foreign:") ++ String.ofList p.name ++ ";d=0"

/-- how the harness reaches the carrier: route, namespace of the referencing source, carrier name -/
def parseRoute : String → Option (Route × Str × Str)
  | "db" => some (.defaultBackend, [], "svc".toList)
  | "authsvc" => some (.authURL, nsC, "authsvc".toList)
  | "gw" => some (.gateway, nsA, "svc".toList)
  | _ => none

/-- one reference site on a carrier of namespace a reached through `route` by a source of namespace
`refNs`: the model's prediction (`carrierUses` / `carrierReads`) and the Spec on the implementation's output -/
def siteLine (st : SiteTok) (route : Route) (refNs name : Str) (form set fu impl : String) : Verdict :=
    match set.toList with
    | [s, c1, c2, c3, c4] =>
      let static := s == '1'
      let tok (c : Char) : Str := if c == '1' then sAllow else "deny".toList
      let cm : GlobalCM := { crt := tok c1, ca := tok c2, pw := tok c3, svc := tok c4 }
      let cur := buildGlobalDynamic static cm
      let allAllow : GlobalCM := { crt := sAllow, ca := sAllow, pw := sAllow, svc := sAllow }
      -- fu: 0 = first reconciliation, 1 = namespace b was converted before with the same settings,
      -- 2 = a previous reconciliation ran with every key = allow, then the ConfigMap changed
      -- (an unchanged ConfigMap does not ask for a second conversion: the first one stands)
      -- fu = 3: like 2, the ConfigMap is emptied instead (every key absent = deny; the harness only uses it
      -- with an all-deny setting, so `cm` already is what an empty ConfigMap means)
      let fu := if fu == "3" then "2" else fu
      let noResync := fu == "2" && cm == allAllow
      let prev := if fu == "0" then initialBits
                  else if fu == "2" then buildGlobalDynamic static allAllow else cur
      let bits := bitsSeenBy st.site prev cur
      let k := st.site.kind
      match formValue k form with
      | none => bad "site-form"
      | some value =>
        let ex := if fu == "1" then exFU else Existing.none
        let uses := carrierUses st.site bits ex route refNs nsA name value
        let reads := carrierReads st.site bits ex route refNs nsA name value
        let t := match uses with | some u => targetOf form fu u | none => "none"
        let r := !noResync && (match reads with | some (.obj ns _) => ns != nsA | _ => false)
        let m := "t=" ++ t ++ ";r=" ++ bit r ++ ";u=" ++ bit (t == "foreign") ++ ";b=" ++ showBits cur
        let allowed := specAllowed static cm k
        -- the oracle looks at the IMPLEMENTATION's output only
        let fields := impl.splitOn ";"
        let has (x : String) := fields.contains x
        { model := m, agree := m = impl,
          oracle := oracle (if form == "fileb" && impl != "PANIC" then st.label ++ "-file" else st.label) k allowed
            (has "r=1") (has "u=1" || has "t=foreign") (impl == "PANIC"),
          trivial := form == "n" || form == "own" }
    | _ => bad "site-parse"

/-- `legit` (harness c09xns/legit_test.go): namespace b's OWN objects use b's secret through the same kind
of site and are converted in the same sync as namespace a's referencing object (hist f / pj; ord e: b's
readers first, l / s: a's object first) or in another sync (pa, pb).  The prediction is the memo-free
`runSync none` of `Model/C09Memo.lean` over the references of the sync that converts a's object; the
Spec is the one of `site` lines: while the kind is denied, a's slice does not depend on b's secret. -/
def legitLine (st : SiteTok) (form set ord hist impl : String) : Verdict :=
    match set.toList with
    | [s, c1, c2, c3, c4] =>
      let static := s == '1'
      let tok (c : Char) : Str := if c == '1' then sAllow else "deny".toList
      let cm : GlobalCM := { crt := tok c1, ca := tok c2, pw := tok c3, svc := tok c4 }
      let cur := buildGlobalDynamic static cm
      let k := st.site.kind
      if k = .svc || form == "file" || form == "fileb" then bad "legit-site" else
      if !(["e", "l", "s"].contains ord) || !(["f", "pa", "pb", "pj"].contains hist) then bad "legit-hist" else
      match formValue k form with
      | none => bad "legit-form"
      | some value =>
        let qa : Ref := ⟨nsA, value⟩
        let qb : Ref := ⟨nsB, if form == "secn" then "secret://".toList ++ kindTok k else kindTok k⟩
        let same := hist == "f" || hist == "pj"
        let bFirst := ord == "e"
        let rs := runSync none st.site.getter cur (syncRefs bFirst same true qa qb)
        let ans := (if bFirst && same then rs.getLast? else rs.head?).getD .invalid
        let t := targetOf form "0" ans
        -- a read of b's secret can be attributed to a's object only when it is converted alone
        let r := hist == "pa" && st.site != .gwCert && (match ans with | .obj ns _ => ns != nsA | _ => false)
        let m := "t=" ++ t ++ ";r=" ++ bit r ++ ";u=" ++ bit (t == "foreign") ++ ";b=" ++ showBits cur
        let allowed := specAllowed static cm k
        let fields := impl.splitOn ";"
        let has (x : String) := fields.contains x
        { model := m, agree := m = impl,
          oracle := oracle st.label k allowed (has "r=1") (has "u=1" || has "t=foreign") (impl == "PANIC"),
          trivial := form == "n" || form == "own" }
    | _ => bad "legit-parse"

def handle (args : List String) (impl : String) : Verdict :=
  match args with
  | ["legit", site, _src, form, set, ord, hist] =>
    match parseSite site with
    | some st => legitLine st form set ord hist impl
    | none => bad "legit-parse"
  | ["oauth", src, im, pfx, decls, set, _fu] =>
    let pfx? : Option (Option Str) := if pfx = "-" then some none else (unhex pfx).map some
    match pfx?, parseList parseDecl decls "+", set.toList with
    | some pfx, some ds, [s, c1, c2, c3, c4] =>
      match oauthCfgOf im pfx with
      | none => bad "oauth-impl"
      | some cfg =>
        if src != "ing" && src != "svc" then bad "oauth-src" else
        let tok (c : Char) : Str := if c == '1' then sAllow else "deny".toList
        let cm : GlobalCM := { crt := tok c1, ca := tok c2, pw := tok c3, svc := tok c4 }
        let cur := buildGlobalDynamic (s == '1') cm
        -- the three histories (first reconciliation / namespace b converted first, a added by a
        -- partial sync / every key allowed, then the ConfigMap changed) end in the same table
        -- findBackend visits the hosts in the order of the sorted hostnames (58bb97c): `sortHosts`
        let o1 := buildOAuth (sortHosts (oauthTable ds true)) nsA cfg
        let o0 := buildOAuth (sortHosts (oauthTable ds false)) nsA cfg
        let m := showOAuth cur (src == "ing") o1 ++ ";u=" ++ bit (decide (o1 ≠ o0)) ++ ";b=" ++ showBits cur
        let fields := impl.splitOn ";"
        let has (x : String) := fields.contains x
        { model := m, agree := m = impl,
          -- no key opens this site: `allowed` is false under every setting
          oracle := oracle "oauth" .svc false false
            (has "u=1" || fields.any (fun f => f.startsWith "t=foreign")) (impl == "PANIC"),
          trivial := !(ds.any (·.ns == nsB)) || cfg.oauth.isNone }
    | _, _, _ => bad "oauth-parse"
  | ["brn", dns, value, allow] =>
    match unhex dns, unhex value with
    | some dns, some value =>
      let m := buildResourceName dns value (allow == "1")
      let viol := allow != "1" && dns != [] &&
        (match parseObjRes impl with | some (ns, _) => ns != dns | none => false)
      { model := showRes m, agree := showRes m = impl,
        oracle := if viol then some "brn-cross-namespace" else none,
        trivial := value.all (· != '/') }
    | _, _ => bad "brn-parse"
  | ["proto", value] =>
    match unhex value with
    | some value =>
      let pc := getContentProtocol value
      let m := hex pc.1 ++ ":" ++ hex pc.2
      { model := m, agree := m = impl, oracle := none, trivial := pc.1 = sSecret && pc.2 = value }
    | none => bad "proto-parse"
  | ["get", g, bits, dns, value] =>
    match parseGetter g, parseBits bits, unhex dns, unhex value with
    | some g, some b, some dns, some value =>
      let m := getterResolve g b dns value
      let viol := !(getterAllow b g) && dns != [] &&
        (match parseObjRes impl with | some (ns, _) => ns != dns | none => false)
      { model := showRes m, agree := showRes m = impl,
        oracle := if viol then some "getter-cross-namespace-read" else none,
        trivial := value.all (· != '/') }
    | _, _, _, _ => bad "get-parse"
  | ["dyn", static, toks] =>
    match parseCM toks, parseBits impl with
    | some cm, some ib =>
      let st := static == "1"
      let m := buildGlobalDynamic st cm
      let bad? := [Kind.crt, .ca, .pw, .svc].find? fun k => ib.get k && !(specAllowed st cm k)
      { model := showBits m, agree := m = ib,
        oracle := match bad? with
          | some .svc => some (if st then "static-override-opens-services" else "invalid-value-allows")
          | some _ => some "invalid-value-allows"
          | none => none }
    | some cm, none =>
      { model := showBits (buildGlobalDynamic (static == "1") cm), agree := false,
        oracle := if impl = "PANIC" then some "panic:global-config" else none }
    | _, _ => bad "dyn-parse"
  | ["site", site, src, form, set, fu] =>
    match parseSite site with
    | some st => siteLine st (if src == "ing" then .direct else .ingress) nsA "svc".toList form set fu impl
    | none => bad "site-parse"
  | ["carrier", route, site, form, set, fu] =>
    match parseRoute route, parseSite site with
    | some (rt, refNs, name), some st =>
      if st.site.onService && !st.tcp && site != "authurlfe" then siteLine st rt refNs name form set fu impl
      else bad "carrier-site"
    | _, _ => bad "carrier-parse"
  | _ => bad "C09"

end HapVerif.C09
