import HapVerif.Model.C16
import HapVerif.Drv.Common
namespace HapVerif.C16
open HapVerif.Drv

def parseCluster (s : String) : Option Cluster :=
  match s.splitOn ":" with
  | [w, l] => do pure { weight := ← w.toInt?, length := ← l.toInt? }
  | _ => none

def showOut (o : List (Option Int)) : String :=
  ",".intercalate (o.map fun | some w => toString w | none => "u")

/-- `rebalance <initial> <W:L,...>` with impl output `<w,...>` (ints) -/
def handle (args : List String) (impl : String) : Verdict :=
  match args with
  | ["rebalance", ini, cs] =>
    match ini.toInt?, parseList parseCluster cs, parseList String.toInt? impl with
    | some i, some cls, some out =>
      let m := rebalance cls i
      let agree := m.length = out.length ∧ (m.zip out).all fun (a, b) => a.all (· = b)
      { model := showOut m, agree := agree, oracle := oracle cls (out.map some),
        trivial := m = cls.map (fun c => some c.weight) }
    | _, _, _ => bad "parse"
  | ["clamp", w] =>
    match w.toInt?, impl.toInt? with
    | some w, some o =>
      let m := clampWeight w
      { model := toString m, agree := m = o, oracle := if 0 ≤ o ∧ o ≤ 256 then none else some "range" }
    | _, _ => bad "parse"
  | _ => bad "C16"

end HapVerif.C16
