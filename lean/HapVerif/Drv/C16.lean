import HapVerif.Model.C16
import HapVerif.Model.C16Callers
import HapVerif.Model.C16Hist
import HapVerif.Drv.Common
namespace HapVerif.C16
open HapVerif.Drv

def parseCluster (s : String) : Option Cluster :=
  match s.splitOn ":" with
  | [w, l] => do pure { weight := ← w.toInt?, length := ← l.toInt? }
  | _ => none

def showOut (o : List (Option Int)) : String :=
  ",".intercalate (o.map fun | some w => toString w | none => "u")

/-! ### the callers (grammar: harness/cmd/hv/c16callers.go) -/

/-- listed ready endpoints of a backendRef: `<n>` = the distinct addresses 1..n | `@a.a/a.a` = address ids
as listed, `/` separates the EndpointSlices / subsets (the listing is their concatenation; an id may
repeat).  Prefix `^`: the Endpoints object carries the ip-override annotation: every address resolves to
id 250 (`createEndpoints`); the EndpointSlice reader ignores the annotation. -/
def parseGwAddrs (slices : Bool) (s : String) : Option (List Nat) :=
  let ovr := s.startsWith "^"
  let s := if ovr then (s.drop 1).toString else s
  let listed : Option (List Nat) :=
    if s.startsWith "@" then
      ((s.drop 1).toString.splitOn "/").foldlM (fun acc sl =>
        if sl = "" then some acc else ((sl.splitOn ".").mapM String.toNat?).map (acc ++ ·)) []
    else s.toNat?.map gwDistinct
  listed.map fun l => if ovr ∧ !slices then l.map fun _ => 250 else l

def parseGwRef (slices : Bool) (s : String) : Option GwRef :=
  let pw := fun (w : String) => if w = "-" then some none else w.toInt?.map some
  match s.splitOn ":" with
  | [w, n] => do pure ⟨← pw w, ← parseGwAddrs slices n, false⟩
  | [w, n, sk] => if sk ∈ ["p", "s", "q", "e"] then do pure ⟨← pw w, ← parseGwAddrs slices n, true⟩ else none
  | _ => none

def srvLe (a b : Nat × Int) : Bool := a.1 < b.1 || (a.1 == b.1 && a.2 ≤ b.2)

def srvInsert (x : Nat × Int) : List (Nat × Int) → List (Nat × Int)
  | [] => [x]
  | y :: ys => if srvLe x y then x :: y :: ys else y :: srvInsert x ys

/-- canonical order of the servers of one ref: by address id, then weight -/
def srvSort (l : List (Nat × Int)) : List (Nat × Int) := l.foldr srvInsert []

def parseSrv (s : String) : Option (Nat × Int) :=
  match s.splitOn "=" with
  | [a, w] => do pure (← a.toNat?, ← w.toInt?)
  | _ => none

/-- `none` | per ref `-` or `a=w.a=w` (address id = weight), comma separated -/
def parseGwOut (s : String) : Option (Option (List (List (Nat × Int)))) :=
  if s = "none" then some none else
  ((s.splitOn ",").mapM fun it => if it = "-" then some [] else (it.splitOn ".").mapM parseSrv).map some

def showGwOut : Option (List (List (Nat × Int))) → String
  | none => "none"
  | some per => if per.isEmpty then "-" else
    ",".intercalate (per.map fun ws => if ws.isEmpty then "-" else
      ".".intercalate ((srvSort ws).map fun s => toString s.1 ++ "=" ++ toString s.2))

def unesc (s : String) : String := s.replace "%20" " "

/-- `0` = a pod without labels | `k=v+k=v`: the name and the value may be EMPTY (`blue=` = the label
`blue` present with the empty value, `=v` = the empty name, `=` both).  A pod's labels are a map: the
harness assigns the pairs in order (`pod.Labels[k] = v`), a repeated name keeps the last value
(`labelsOfPairs`). -/
def parseLabels (s : String) : Option (List (String × String)) :=
  if s = "0" then some [] else do
    let kvs ← (s.splitOn "+").mapM fun kv => match kv.splitOn "=" with
      | [k, v] => some (k, v)
      | _ => none
    some (labelsOfPairs kvs)

/-- `<r|d>:<pod>[@<a>]`: the address id defaults to the position (1-based) -/
def parseBgEp (pos : Nat) (s : String) : Option BgListed :=
  let (st, rest) := splitOn1 s ":"
  let (pod, adr) := splitOn1 rest "@"
  if st ≠ "r" ∧ st ≠ "d" then none else do
  let a ← if adr = "" then some pos else adr.toNat?
  if pod = "n" ∨ pod = "m" then some ⟨a, st = "d", none⟩ else
  (parseLabels pod).map fun ls => ⟨a, st = "d", some ls⟩

def bgSrvInsert (x : Nat × BgEp) : List (Nat × BgEp) → List (Nat × BgEp)
  | [] => [x]
  | y :: ys => if x.1 ≤ y.1 then x :: y :: ys else y :: bgSrvInsert x ys

/-- the listed endpoints of the case line -/
def parseBgListed (eps : String) : Option (List BgListed) :=
  if eps = "" ∨ eps = "-" then some [] else
  let toks := eps.splitOn ","
  (toks.zip (List.range toks.length)).mapM fun p => parseBgEp (p.2 + 1) p.1

/-- the servers of the backend, one per address (`bgAcquire`), in address order -/
def bgServers (ls : List BgListed) : List BgEp :=
  ((bgAcquire ls).foldr bgSrvInsert []).map (·.2)

def parseBgIn (mode initial ann eps : String) : Option BgIn := do
  let eps := bgServers (← parseBgListed eps)
  let ann ← if ann = "-" then some none
    else if ann.startsWith "b:" ∨ ann.startsWith "d:" ∨ ann.startsWith "e:" then some (some (unesc (ann.drop 2).toString))
    else none
  pure { mode := if mode = "-" then "" else unesc mode,
         initial := if initial = "-" then 1 else (parseGoInt (unesc initial)).getD 0,
         ann := ann, eps := eps }

/-- cross-check of the structural `goSplit` (what the model's parser and the theorems use) against the
library's `String.splitOn` on the annotation of the case and on each of its items -/
def splitAgrees (ann : Option String) : Bool :=
  match ann with
  | none => true
  | some a => goSplitStr ',' a == a.splitOn "," && (a.splitOn ",").all fun it => goSplitStr '=' it == it.splitOn "="

def showInts (l : List Int) : String := if l.isEmpty then "-" else ",".intercalate (l.map toString)

/-! ### histories (grammar: harness/cmd/hv/c16hist.go) -/

def chunk4 : List String → Option (List (String × String × String × String))
  | [] => some []
  | a :: b :: c :: d :: rest => (chunk4 rest).map ((a, b, c, d) :: ·)
  | _ => none

/-- what of a `bgh` state reaches the controller as an event when it changes: the annotations and the
Endpoints object (address, readiness, targetRef); the labels of an existing pod do not -/
def bgVisText (t : String × String × String × String) : String :=
  let eps := (t.2.2.2.splitOn ",").map fun e =>
    let (st, rest) := splitOn1 e ":"
    let (pod, adr) := splitOn1 rest "@"
    st ++ ":" ++ (if pod = "n" ∨ pod = "m" then pod else "p") ++ "@" ++ adr
  " ".intercalate [t.1, t.2.1, t.2.2.1, ",".intercalate eps]

structure BgCfg where
  visText : String
  addrs : List Nat
  inp : BgIn

/-- one state of a `bgh` history: the address ids of the servers (address order) and the `bg` input -/
def parseBgCfg (t : String × String × String × String) : Option BgCfg := do
  let i ← parseBgIn t.1 t.2.1 t.2.2.1 t.2.2.2
  let ls ← parseBgListed t.2.2.2
  pure ⟨bgVisText t, ((bgAcquire ls).foldr bgSrvInsert []).map (·.1), i⟩

def bgVis (a b : BgCfg) : Bool := a.visText != b.visText

def bgConvert (c : BgCfg) : HBackend Unit := bgBackend (c.addrs, c.inp)

/-- `<step>;<step>;...` -/
def parseSteps {β : Type} (pstep : String → Option β) (s : String) : Option (List β) :=
  (s.splitOn ";").mapM pstep

/-- `<step>;<step>;...#<fresh>` -/
def parseHistOut {β : Type} (pstep : String → Option β) (s : String) : Option (List β × String) :=
  match s.splitOn "#" with
  | [st, f] => ((st.splitOn ";").mapM pstep).map (·, f)
  | _ => none

def parseBgStep (s : String) : Option (List Int × List Int × List Int) :=
  match s.splitOn "|" with
  | [w, r, f] => do pure (← parseList String.toInt? w, ← parseList String.toInt? r, ← parseList String.toInt? f)
  | _ => none

/-- the FIRST violated clause over the steps -/
def firstSome {α : Type} (f : α → Option String) : List α → Option String
  | [] => none
  | x :: xs => match f x with | some r => some r | none => firstSome f xs

/-- `rebalance <initial> <W:L,...>` with impl output `<w,...>` (ints);
`gw <kind> <refs>` and `bg <mode> <initial> <ann> <eps>`: the callers (`gw`: the servers are compared
as multisets per backendRef; `bg`: one weight per SERVER = distinct address, in address order) -/
def handle (args : List String) (impl : String) : Verdict :=
  match args with
  | ["rebalance", ini, cs] =>
    match ini.toInt?, parseList parseCluster cs, parseList String.toInt? impl with
    | some i, some cls, some out =>
      let m := rebalance cls i
      let agree := m.length = out.length ∧ (m.zip out).all fun (a, b) => a.all (· = b)
      { model := showOut m, agree := agree, oracle := oracle cls (out.map some),
        trivial := m = cls.map (fun c => some c.weight) }
    | _, _, _ => bad "parse"
  | ["clamp", w] =>
    match w.toInt?, impl.toInt? with
    | some w, some o =>
      let m := clampWeight w
      { model := toString m, agree := m = o, oracle := if 0 ≤ o ∧ o ≤ 256 then none else some "range" }
    | _, _ => bad "parse"
  | ["gw", kind, rs] =>
    match parseList (parseGwRef (kind.endsWith "s")) rs, parseGwOut impl with
    | some refs, some obs =>
      let m := gwRun refs
      { model := showGwOut m, agree := m.map (·.map srvSort) = obs.map (·.map srvSort), oracle := gwOracle refs obs,
        trivial := match m with | none => true | some per => per.all (·.isEmpty) }
    | _, _ => if impl = "PANIC" then { model := "-", agree := false, oracle := some "panic-gw" } else bad "parse"
  | ["bg", mode, ini, ann, eps] =>
    match parseBgIn mode ini ann eps, parseList String.toInt? impl with
    | some i, some obs =>
      let m := bgRun i
      { model := showInts m, agree := m = obs ∧ splitAgrees i.ann, oracle := bgOracle i obs,
        trivial := (bgEntries i.ann).isNone || i.eps.isEmpty }
    | _, _ => if impl = "PANIC" then { model := "-", agree := false, oracle := some "panic-bg" } else bad "parse"
  | "bgh" :: rest =>
    match (chunk4 rest).bind (·.mapM parseBgCfg), parseSteps parseBgStep impl with
    | some cfgs, some steps =>
      -- the model of the history: events (the Pod watcher drops label updates), convert, shrink against the
      -- committed backend with the code's key, commit
      let sts := histStepsWith keyWhole bgVis bgConvert {} cfgs
      let m := sts.map fun s => (s.store.map bgWritten).getD []
      let agree := m.length = steps.length ∧ (m.zip steps).all fun (w, o) => w = o.1 ∧ w = o.2.1
      -- per step: the history clause, then the Spec of C16 on what is WRITTEN (and on what the running HAProxy
      -- holds) against the configuration of that step
      let spec := firstSome (fun (p : (BgCfg × HState Unit BgCfg) × (List Int × List Int × List Int)) =>
        let relabel := match p.1.2.seen with
          | some s => s.visText == p.1.1.visText && s.inp.eps != p.1.1.inp.eps
          | none => false
        match histOracle relabel p.2.1 p.2.2.1 p.2.2.2 with
        | some r => some r
        | none => bgOracle p.1.1.inp p.2.1) ((cfgs.zip sts).zip steps)
      { model := ";".intercalate (m.map showInts),
        agree := agree ∧ cfgs.all (fun c => splitAgrees c.inp.ann),
        oracle := spec,
        trivial := cfgs.length < 2 || cfgs.all fun c => (bgEntries c.inp.ann).isNone || c.inp.eps.isEmpty }
    | _, _ => if impl = "PANIC" then { model := "-", agree := false, oracle := some "panic-bgh" } else bad "parse"
  | "gwh" :: kind :: rest =>
    match rest.mapM (parseList (parseGwRef (kind.endsWith "s"))), parseHistOut parseGwOut impl with
    | some cfgs, some (steps, fresh) =>
      match parseGwOut fresh with
      | none => if fresh = "PANIC" then { model := "-", agree := false, oracle := some "panic-gwh" } else bad "parse"
      | some fr =>
      let sts := histStepsWith keyWhole visAlways gwBackend {} cfgs
      let m := (sts.zip cfgs).map fun p => (p.1.store.bind (gwWritten p.2.length ·))
      let norm := fun (o : Option (List (List (Nat × Int)))) => o.map (·.map srvSort)
      let agree := m.length = steps.length ∧ (m.zip steps).all fun (w, o) => norm w = norm o
      let spec := firstSome (fun (p : List GwRef × Option (List (List (Nat × Int)))) => gwOracle p.1 p.2) (cfgs.zip steps)
      let last := match steps.getLast? with
        | some w => histOracle false (norm w) (norm w) (norm fr)
        | none => none
      { model := ";".intercalate (m.map showGwOut), agree := agree,
        oracle := match last with | some r => some r | none => spec,
        trivial := cfgs.length < 2 || m.all fun o => match o with | none => true | some per => per.all (·.isEmpty) }
    | _, _ => if impl = "PANIC" then { model := "-", agree := false, oracle := some "panic-gwh" } else bad "parse"
  | _ => bad "C16"

end HapVerif.C16
