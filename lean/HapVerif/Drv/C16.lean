import HapVerif.Model.C16
import HapVerif.Model.C16Callers
import HapVerif.Drv.Common
namespace HapVerif.C16
open HapVerif.Drv

def parseCluster (s : String) : Option Cluster :=
  match s.splitOn ":" with
  | [w, l] => do pure { weight := ← w.toInt?, length := ← l.toInt? }
  | _ => none

def showOut (o : List (Option Int)) : String :=
  ",".intercalate (o.map fun | some w => toString w | none => "u")

/-! ### the callers (grammar: harness/cmd/hv/c16callers.go) -/

def parseGwRef (s : String) : Option GwRef :=
  let pw := fun (w : String) => if w = "-" then some none else w.toInt?.map some
  match s.splitOn ":" with
  | [w, n] => do pure ⟨← pw w, ← n.toNat?, false⟩
  | [w, n, sk] => if sk ∈ ["p", "s", "q", "e"] then do pure ⟨← pw w, ← n.toNat?, true⟩ else none
  | _ => none

/-- `none` | per ref `-` or `w.w.w`, comma separated -/
def parseGwOut (s : String) : Option (Option (List (List Int))) :=
  if s = "none" then some none else
  ((s.splitOn ",").mapM fun it => if it = "-" then some [] else (it.splitOn ".").mapM String.toInt?).map some

def showGwOut : Option (List (List Int)) → String
  | none => "none"
  | some per => if per.isEmpty then "-" else
    ",".intercalate (per.map fun ws => if ws.isEmpty then "-" else ".".intercalate (ws.map toString))

def unesc (s : String) : String := s.replace "%20" " "

def parseLabels (s : String) : Option (List (String × String)) :=
  if s = "0" then some [] else do
    let kvs ← (s.splitOn "+").mapM fun kv => match kv.splitOn "=" with
      | [k, v] => some (k, v)
      | _ => none
    -- a pod's labels are a map: a key occurs once
    if (kvs.map (·.1)).eraseDups.length = kvs.length then some kvs else none

def parseBgEp (s : String) : Option BgEp :=
  let (st, pod) := splitOn1 s ":"
  if st ≠ "r" ∧ st ≠ "d" then none else
  if pod = "n" ∨ pod = "m" then some ⟨st = "d", none⟩ else
  (parseLabels pod).map fun ls => ⟨st = "d", some ls⟩

def parseBgIn (mode initial ann eps : String) : Option BgIn := do
  let eps ← parseList parseBgEp eps
  let ann ← if ann = "-" then some none
    else if ann.startsWith "b:" ∨ ann.startsWith "d:" ∨ ann.startsWith "e:" then some (some (unesc (ann.drop 2).toString))
    else none
  pure { mode := if mode = "-" then "" else unesc mode,
         initial := if initial = "-" then 1 else (parseGoInt (unesc initial)).getD 0,
         ann := ann, eps := eps }

def showInts (l : List Int) : String := if l.isEmpty then "-" else ",".intercalate (l.map toString)

/-- `rebalance <initial> <W:L,...>` with impl output `<w,...>` (ints);
`gw <kind> <refs>` and `bg <mode> <initial> <ann> <eps>`: the callers -/
def handle (args : List String) (impl : String) : Verdict :=
  match args with
  | ["rebalance", ini, cs] =>
    match ini.toInt?, parseList parseCluster cs, parseList String.toInt? impl with
    | some i, some cls, some out =>
      let m := rebalance cls i
      let agree := m.length = out.length ∧ (m.zip out).all fun (a, b) => a.all (· = b)
      { model := showOut m, agree := agree, oracle := oracle cls (out.map some),
        trivial := m = cls.map (fun c => some c.weight) }
    | _, _, _ => bad "parse"
  | ["clamp", w] =>
    match w.toInt?, impl.toInt? with
    | some w, some o =>
      let m := clampWeight w
      { model := toString m, agree := m = o, oracle := if 0 ≤ o ∧ o ≤ 256 then none else some "range" }
    | _, _ => bad "parse"
  | ["gw", _, rs] =>
    match parseList parseGwRef rs, parseGwOut impl with
    | some refs, some obs =>
      let m := gwRun refs
      { model := showGwOut m, agree := m = obs, oracle := gwOracle refs obs,
        trivial := match m with | none => true | some per => per.all (·.isEmpty) }
    | _, _ => if impl = "PANIC" then { model := "-", agree := false, oracle := some "panic-gw" } else bad "parse"
  | ["bg", mode, ini, ann, eps] =>
    match parseBgIn mode ini ann eps, parseList String.toInt? impl with
    | some i, some obs =>
      let m := bgRun i
      { model := showInts m, agree := m = obs, oracle := bgOracle i obs,
        trivial := (bgEntries i.ann).isNone || i.eps.isEmpty }
    | _, _ => if impl = "PANIC" then { model := "-", agree := false, oracle := some "panic-bg" } else bad "parse"
  | _ => bad "C16"

end HapVerif.C16
