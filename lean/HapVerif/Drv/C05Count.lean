import HapVerif.Model.C05Count
import HapVerif.Drv.Common
/-!
Driver for C05, mode `cnt` (harness/cmd/hv/c05count.go): the real `hatypes.Hosts` against Model/C05Count.lean.

  `C05 cnt <p> <op>,<op>,... => <obs>;<obs>;...`   one observation per op

ops: `aX` AcquireHost(hX)   `pX.V` FindHost(hX).SetSSLPassthrough(V)   `cX.N` another field of FindHost(hX)
`rX.Y..` RemoveAll   `s` Shrink   `m` Commit   `k` a fresh Hosts (config.Clear)
obs: `<sslPassthroughCount or ?>|<HasSSLPassthrough 0/1>|<Items>|<ItemsAdd>|<ItemsDel>`, a map = `x:<flag>.<content>+...`
The Spec (counter = passthrough hosts of Items(), HasSSLPassthrough = there is one) is evaluated on the
implementation's observations of every disciplined history.
-/
namespace HapVerif.C05Cnt
open HapVerif.Drv

def toFin (p : Nat) (s : String) : Option (Fin p) := do
  let n ← s.toNat?
  if h : n < p then some ⟨n, h⟩ else none

def parseCOp (p : Nat) (s : String) : Option (Op p) :=
  let rest := (s.drop 1).toString
  if s = "s" then some .shrink
  else if s = "m" then some .commit
  else if s = "k" then some .clear
  else if s.startsWith "a" then (toFin p rest).map .acquire
  else if s.startsWith "p" then
    match rest.splitOn "." with
    | [x, v] => do some (.setPass (← toFin p x) ((← v.toNat?) != 0))
    | _ => none
  else if s.startsWith "c" then
    match rest.splitOn "." with
    | [x, c] => do some (.setContent (← toFin p x) (← c.toNat?))
    | _ => none
  else if s.startsWith "r" then
    if rest = "" then some (.remove []) else ((rest.splitOn ".").mapM (toFin p)).map .remove
  else none

/-- number of entries `x:1.c` of a rendered map -/
def passEntries (m : String) : Nat :=
  if m = "-" then 0 else ((m.splitOn "+").filter fun e =>
    match e.splitOn ":" with
    | [_, r] => r.startsWith "1."
    | _ => false).length

def obsClause (o : String) : Option String :=
  match o.splitOn "|" with
  | [c, h, items, _, _] =>
    if h != "0" && h != "1" then some "unparsable-implementation-output" else
    if c != "?" && c.toInt?.isNone then some "unparsable-implementation-output" else
    specObs c.toInt? (h == "1") (passEntries items)
  | _ => some "unparsable-implementation-output"

def sameObs (m i : String) : Bool :=
  m == i || (i.startsWith "?|" && (m.dropWhile (· != '|')).toString == (i.drop 1).toString)

def handleCnt (p ops : String) (impl : String) : Verdict :=
  match p.toNat? with
  | none => bad "args"
  | some p =>
    match parseList (parseCOp p) ops "," with
    | none => bad "ops"
    | some ops =>
      if impl.startsWith "PANIC" then { model := "-", agree := false, oracle := some "panic-in-hosts-api" } else
      let tr := trace ({} : HS p) ops
      let m := ";".intercalate tr
      let obs := impl.splitOn ";"
      let disc := okAll ({} : HS p) ops
      { model := m
        agree := obs.length == tr.length && (tr.zip obs).all fun x => sameObs x.1 x.2
        oracle := if disc then obs.findSome? obsClause else none
        -- non-trivial: a disciplined history in which Shrink finds a pair that is a passthrough host
        trivial := !disc || !(((List.range ops.length).any fun k =>
          match ops[k]? with
          | some .shrink => let s := run ({} : HS p) (ops.take k)
                            (List.finRange p).any fun x => matched s x && passOf (s.add x)
          | _ => false)) }

end HapVerif.C05Cnt
