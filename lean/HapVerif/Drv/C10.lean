import HapVerif.Model.C10
import HapVerif.Drv.Common
namespace HapVerif.C10
open HapVerif.Drv

def handle (_args : List String) (_impl : String) : Verdict := bad "C10-not-implemented"

end HapVerif.C10
