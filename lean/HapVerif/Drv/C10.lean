import HapVerif.Model.C10
import HapVerif.Model.C10Hist
import HapVerif.Generated.Facts
import HapVerif.Drv.Common
/-! Line-protocol driver of C10: parses the world of a case line (grammar: harness/cmd/hv/c10.go),
runs the model, compares its canonical text with the implementation's, parses the implementation's
output and evaluates the Spec (`oracle`) on it. -/
namespace HapVerif.C10
open HapVerif.Drv

def lst (s : String) (sep : String) : List String := if s = "-" ∨ s = "" then [] else s.splitOn sep

def split2 (s : String) (sep : String) : Option (String × String) :=
  match s.splitOn sep with
  | a :: b :: rest => some (a, sep.intercalate (b :: rest))
  | _ => none

def optTok (s : String) (lits : List (String × String)) : Option String :=
  if s = "-" then none else some ((lits.lookup s).getD s)

def groupLits : List (String × String) := [("e", ""), ("g", gwGroup), ("x", "example.com"), ("c", "")]
def kindLits : List (String × String) := [("e", ""), ("G", "Gateway"), ("S", "Service")]
def emptyLit : List (String × String) := [("e", "")]

def parseTerm (s : String) : Option Term :=
  if s.contains ':' then
    match s.splitOn ":" with
    | [k, op, vs] => some { key := k, op := op, vals := if vs = "" then [] else vs.splitOn "." }
    | _ => none
  else
    match split2 s "=" with
    | some (k, v) => some { key := k, op := "=", vals := [v] }
    | none => none

def parseSel (s : String) : Option (Option (List Term)) :=
  if s = "N" then some none else (lst s "+").mapM parseTerm |>.map some

def parseRKind (s : String) : Option RKind :=
  match split2 s ":" with
  | some (g, k) => some { group := if g = "n" then none else some ((groupLits.lookup g).getD g), kind := k }
  | none => none

def fromLits : List (String × String) := [("S", "Same"), ("A", "All"), ("L", "Selector"), ("X", "Bogus")]

def parseListener (s : String) : Option Listener :=
  match s.splitOn "~" with
  | [name, host, proto0, port, kinds, frm, sel] => do
    let proto := if proto0 = "e" then "" else proto0
    let port ← port.toNat?
    let allowed : Option Allowed ←
      if kinds = "N" then pure none else do
        let ks ← (lst kinds "+").mapM parseRKind
        let nss : Option NsRule ←
          if frm = "N" then pure none else do
            let sel ← parseSel sel
            pure (some { frm := fromLits.lookup frm, sel := sel })
        pure (some { kinds := ks, nss := nss })
    pure { name := name, host := optTok host emptyLit, proto := proto, port := port, allowed := allowed }
  | _ => none

def parseNsName (s : String) : Option (String × String) := split2 s "/"

def parseGateway (s : String) : Option Gateway := do
  let (hd, ls) ← split2 s "!"
  let (nn, cls) ← split2 hd "@"
  let (ns, name) ← parseNsName nn
  let ls ← (lst ls "|").mapM parseListener
  pure { ns := ns, name := name, cls := cls, listeners := ls }

def parseParent (s : String) : Option ParentRef :=
  match s.splitOn "~" with
  | [g, k, ns, name, sect] =>
    some { group := optTok g groupLits, kind := optTok k kindLits, ns := optTok ns emptyLit, name := name,
           sect := optTok sect [] }
  | _ => none

def typeLits : List (String × String) :=
  [("E", "Exact"), ("P", "PathPrefix"), ("R", "RegularExpression"), ("X", "Bogus")]

def parseMatch (s : String) : Option HMatch :=
  match s.splitOn "~" with
  | [t, v, h] => some { ptype := optTok t typeLits, value := optTok v emptyLit, hdr := h }
  | _ => none

def parseBRef (s : String) : Option BRef :=
  match s.splitOn "~" with
  | [svc, port, wt] => do
    let port ← if port = "-" then pure none else (port.toNat?).map some
    let wt ← if wt = "-" then pure none else (wt.toInt?).map some
    pure { svc := svc, port := port, weight := wt }
  | _ => none

def parseRule (s : String) : Option Rule := do
  let (ms, rs) ← split2 s "^"
  let ms ← (lst ms "+").mapM parseMatch
  let rs ← (lst rs "+").mapM parseBRef
  pure { mts := ms, refs := rs }

def parseRoute (s : String) : Option Route :=
  match s.splitOn "!" with
  | [hd, prs, hosts, rules] => do
    let (k, rest) ← split2 hd ":"
    let (nn, ts) ← split2 rest "@"
    let (ns, name) ← parseNsName nn
    let ts ← ts.toNat?
    let prs ← (lst prs "|").mapM parseParent
    let rules ← (lst rules "|").mapM parseRule
    pure { tcp := decide (k = "T"), ns := ns, name := name, ts := ts, parents := prs,
           hostnames := (lst hosts ",").map fun h => if h = "e" then "" else h, rules := rules }
  | _ => none

def parseSvc (s : String) : Option Svc := do
  let (nn, ps) ← split2 s "!"
  let (ns, name) ← parseNsName nn
  let ps ← (lst ps "|").mapM fun p => do
    let (port, eps) ← split2 p "="
    let port ← port.toNat?
    pure (port, lst eps "+")
  pure { ns := ns, name := name, ports := ps }

def parseLabels (s : String) : Option (List (String × String)) := (lst s "+").mapM fun kv => split2 kv "="

def parseWorld (cls nss gws routes svcs : String) : Option World := do
  let cls ← (lst cls ",").mapM fun c => do
    let (n, o) ← split2 c ":"
    -- `o` = our controllerName, `o<k>` = ours with parametersRef variant k (never read by the code);
    -- anything else (`f`, `f<k>`) = another controller
    pure (n, o.startsWith "o")
  let nss ← (lst nss ",").mapM fun c => do
    let (n, ls) ← split2 c ":"
    let ls ← parseLabels ls
    pure (n, ls)
  let gws ← (lst gws ";").mapM parseGateway
  let routes ← (lst routes ";").mapM parseRoute
  let svcs ← (lst svcs ";").mapM parseSvc
  pure { classes := cls, nss := nss, gws := gws, routes := routes, svcs := svcs }

/-! ### implementation output -/

/-- `head{body}` -/
def splitBrace (s : String) : Option (String × String) := do
  let (hd, rest) ← split2 s "{"
  if rest.endsWith "}" then pure (hd, (rest.dropEnd 1).toString) else none

def parseObsPath (host : String) (s : String) : Option (String × Link × String) := do
  let (lk, bid) ← split2 s ">"
  match lk.splitOn "~" with
  | [p, m, h] => pure (host, { path := p, mtype := m, hdr := h }, bid)
  | _ => none

def parseObsHost (s : String) : Option (List (String × Link × String)) := do
  let (host, body) ← splitBrace s
  (lst body ",").mapM (parseObsPath host)

def parseObsServer (s : String) : Option Server := do
  let (name, rest) ← split2 s "="
  let (target, wt) ← split2 rest "*"
  let wt ← wt.toInt?
  pure { name := name, target := target, weight := wt }

def parseObsBackend (s : String) : Option Backend := do
  let (hd, body) ← splitBrace s
  let (id, tcp) ← split2 hd "~"
  let ss ← (lst body ",").mapM parseObsServer
  pure { id := id, tcp := decide (tcp = "1"), servers := ss }

def parseObsTcp (s : String) : Option (Nat × String) := do
  let (p, bid) ← split2 s ">"
  let p ← p.toNat?
  pure (p, bid)

def parseObs (s : String) : Option Obs :=
  match s.splitOn "#" with
  | [hs, bs, ts] => do
    let hs ← (lst hs ";").mapM parseObsHost
    let bs ← (lst bs ";").mapM parseObsBackend
    let ts ← (lst ts ";").mapM parseObsTcp
    pure { paths := hs.flatten, backends := bs, tcps := ts }
  | _ => none

/-- which variant of `syncTCPRouteGateway` the current source tree has (regenerated fact) -/
def currentFixed : Bool := Facts.c10TcpProtocolChecked

/-- `w <ver> <classes> <nss> <gws> <routes> <svcs>` -/
def handleWith (fx : Bool) (args : List String) (impl : String) : Verdict :=
  match args with
  | ["w", _ver, cls, nss, gws, routes, svcs] =>
    match parseWorld cls nss gws routes svcs with
    | none => bad "C10-world"
    | some w =>
      let st := sync fx w
      let m := render st
      if impl.startsWith "PANIC" then { model := m, agree := false, oracle := some "panic" } else
      match parseObs impl with
      | none => { model := m, agree := false, oracle := some "unparsable-output" }
      | some o =>
        { model := m, agree := m = impl, oracle := oracle w o,
          trivial := st.backends.isEmpty }
  | _ => bad "C10"

/-! ### histories on one long-lived cache facade (`Model/C10Hist.lean`) -/

def parseWorlds : List String → Option (List World)
  | [] => some []
  | a :: b :: c :: d :: e :: rest => do
    let w ← parseWorld a b c d e
    let ws ← parseWorlds rest
    pure (w :: ws)
  | _ => none

/-- Spec on every step: the EXISTING oracle on that step's cluster only; a failure after the first
step carries the suffix `-after-history` (step 1 is a fresh controller: the one-snapshot check) -/
def histOracle : Nat → List World → List String → Option String
  | _, [], _ => none
  | _, _ :: _, [] => some "unparsable-output"
  | i, w :: ws, out :: outs =>
    match parseObs out with
    | none => some "unparsable-output"
    | some o =>
      match oracle w o with
      | some c => some (if i = 0 then c else c ++ "-after-history")
      | none => histOracle (i + 1) ws outs

/-- `h <ver> <n> (<classes> <nss> <gws> <routes> <svcs>) × n  =>  <out 1> … <out n> <fresh>`:
`out i` = configuration after the full sync of step i on the ONE long-lived facade, `fresh` = a new
facade + converter on the last cluster.  The model is the history machine over `pureFacade` (the code
as it is). -/
def handleHist (fx : Bool) (ver : String) (n : String) (rest : List String) (impl : String) : Verdict :=
  match parseWorlds rest, n.toNat? with
  | some ws, some k =>
    if ws.length ≠ k ∨ k = 0 then bad "C10-history-length" else
    let outs := history pureFacade fx (stepsOf ver none ws)
    let ms := outs.map fun o => render o.2
    let fr := match ws.getLast? with
      | some w => render (fresh fx w).2
      | none => "-"
    let m := " ".intercalate (ms ++ [fr])
    if impl.startsWith "PANIC" then { model := m, agree := false, oracle := some "panic" } else
    let parts := impl.splitOn " "
    if parts.length ≠ k + 1 then { model := m, agree := false, oracle := some "unparsable-output" } else
    let long := parts.take k
    let orc := (histOracle 0 ws long) <|>
      (if long.getLast? ≠ parts.getLast? then some "long-lived-facade-differs-from-fresh-controller" else none)
    { model := m, agree := m = impl, oracle := orc,
      trivial := match ms with
        | [] => true
        | x :: xs => xs.all (· == x) }
  | _, _ => bad "C10-history"

def handle (args : List String) (impl : String) : Verdict :=
  match args with
  | "h" :: ver :: n :: rest => handleHist currentFixed ver n rest impl
  | _ => handleWith currentFixed args impl

end HapVerif.C10
