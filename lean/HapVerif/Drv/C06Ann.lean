import HapVerif.Model.C06Ann
import HapVerif.Drv.Common
/-!
Driver of C06, mode `ann`:

  C06 ann <i|s> <prefix,prefix,...> <prefix/key=value;...|-> => <key>=<v>|<v>,... | - | PANIC

`i`/`s`: the annotations are those of the Ingress / of the Service of the case.  The implementation output holds, for
every tracer key the object declares under ANY prefix, the set of values that key had in the haproxy model over all
runs of the case (`-` = left at its default).
agree : every set is the singleton of the model's value (`readConfigKeys` on the list as written), and the model gives
        the same on the reversed list (run-time instance of `readConfigKeys_perm`).
oracle: `C06Ann.oracle` on the implementation's output (one value per key over all runs; the value of the first listed
        prefix that declares the key).
-/
namespace HapVerif.C06Ann
open HapVerif.Drv

def parseAnn (s : String) : Option Ann :=
  match s.splitOn "=" with
  | name :: v :: rest =>
    match name.splitOn "/" with
    | [p, k] => some ⟨p.toList, k.toList, ("=".intercalate (v :: rest)).toList⟩
    | _ => none
  | _ => none

def parseObs (s : String) : Option (Str × List Str) :=
  match s.splitOn "=" with
  | [k, vs] => some (k.toList, (vs.splitOn "|").map (·.toList))
  | _ => none

def handle (args : List String) (impl : String) : Verdict :=
  match args with
  | [obj, pfx, anns] =>
    if obj ≠ "i" ∧ obj ≠ "s" then bad "C06-ann-object" else
    match parseList parseAnn anns ";" with
    | none => bad "C06-ann-annotations"
    | some ann =>
      if ¬ decide (UniqueNames ann) then bad "C06-ann-duplicate-annotation" else
      let ps := (pfx.splitOn ",").map (·.toList)
      let m := modelOut obj.toList ps ann
      let inv := (modelOut obj.toList ps ann.reverse) == m
      let model := render m
      let triv := !conflict obj.toList ps ann
      if impl = "PANIC" then { model := model, agree := false, oracle := some "panic" } else
      match parseList parseObs impl "," with
      | none => bad "C06-ann-impl"
      | some obs =>
        let keysOk := obs.map (·.1) == m.map (·.1)
        { model := model, agree := inv && impl == model,
          oracle := if keysOk then oracle ps ann obs else some "run-error", trivial := triv }
  | _ => bad "C06-ann"

end HapVerif.C06Ann
