import HapVerif.Model.C05Align
import HapVerif.Drv.Common
/-!
Driver for C05, mode `al` (histories through a real `haproxy.Instance` with the dynamic updater in the loop;
harness/cmd/hv/c05align.go):

  `C05 al <n> <shard of name 0>.<shard of name 1>... <minfree:increment of name 0>.<..>... <op>,<op>,... => <obs>;<obs>;...`

ops at the level of the declared state: `eX.C.O.R` backend X is declared (again) with configuration C and the
R endpoints 10.0.X.(O+1) .. 10.0.X.(O+R) (content `cfg = 64*C + 16*O + R`, no empty slot, O counts as 0 when
R = 0); `tX` backend X is notified again, unchanged; a suffix `.n` on either (written by the harness, see
`bump`): same content, other server names, `Shrink` will not drop the pair; `dX` backend X is deleted; `o` the batch also changes a
global setting; `F` full resync (`config.Clear()`, every live backend is declared again); `u` the recorded
batch is applied the way `converters.Sync` does (one `RemoveAll` of the touched names, then every touched live
backend is acquired once) and `HAProxyUpdate` runs.

One observation per `u`: `r<0|1>|<items>|<disk>|<diff>`: was `reload` sent; the backends in memory
(`name:cfg:slots`, slots = empty endpoints); every `*.cfg` file by shard index (`k=entries`, decoded from the
`backend` sections: `balance`, enabled / disabled `server` lines); `diff` = `-` or the `+`-joined list of
`txt~<file>` (the file differs from what a FRESH instance renders for the same items), `srv~<name>` (the
server lines of the backend differ from the endpoints in memory), `miss~<file>`, `extra~<file>`.
-/
namespace HapVerif.C05A
open HapVerif.Drv
open HapVerif.C05

structure AObs where
  reload : Bool
  items : List Ent
  disk : List (Nat × List Ent)
  diff : List String

def showEnt (e : Ent) : String := s!"{e.name}:{e.cfg}:{e.slots}"
def showEnts (l : List Ent) : String := if l.isEmpty then "-" else "+".intercalate (l.map showEnt)

def showAObs (o : AObs) : String :=
  "|".intercalate [if o.reload then "r1" else "r0", showEnts o.items,
    if o.disk.isEmpty then "-" else ",".intercalate (o.disk.map fun f => s!"{f.1}={showEnts f.2}"),
    if o.diff.isEmpty then "-" else "+".intercalate o.diff]

def parseEnt (s : String) : Option Ent :=
  match s.splitOn ":" with
  | [a, b, c] => do some { name := ← a.toNat?, cfg := ← b.toNat?, slots := ← c.toNat? }
  | _ => none

def parseEnts (s : String) : Option (List Ent) := parseList parseEnt s "+"

def parseFile (s : String) : Option (Nat × List Ent) :=
  match s.splitOn "=" with
  | [k, es] => do some (← k.toNat?, ← parseEnts es)
  | _ => none

def parseAObs (s : String) : Option AObs :=
  match s.splitOn "|" with
  | [r, i, f, d] => do
    let reload ← if r = "r1" then some true else if r = "r0" then some false else none
    some { reload := reload, items := ← parseEnts i, disk := ← parseList parseFile f ",",
           diff := ← parseList some d "+" }
  | _ => none

def toFin (p : Nat) (s : String) : Option (Fin p) := do
  let n ← s.toNat?
  if h : n < p then some ⟨n, h⟩ else none

inductive XOp (p : Nat) where
  | decl (x : Fin p) (c : Content) (names : Bool)
  | touch (x : Fin p) (names : Bool)
  | del (x : Fin p)
  | other
  | full
  | upd

def parseXOp (p : Nat) (s : String) : Option (XOp p) :=
  let rest := (s.drop 1).toString
  if s = "o" then some .other
  else if s = "F" then some .full
  else if s = "u" then some .upd
  else if s.startsWith "e" then
    let decl (x c o r : String) (names : Bool) : Option (XOp p) := do
      let r ← r.toNat?
      let o ← o.toNat?
      let c ← c.toNat?
      if r ≥ 16 ∨ o ≥ 4 ∨ c ≥ 16 then none else
      some (.decl (← toFin p x) { cfg := 64 * c + (if r = 0 then 0 else 16 * o) + r, slots := 0 } names)
    match rest.splitOn "." with
    | [x, c, o, r] => decl x c o r false
    | [x, c, o, r, "n"] => decl x c o r true
    | _ => none
  else if s.startsWith "t" then
    match rest.splitOn "." with
    | [x] => (toFin p x).map (.touch · false)
    | [x, "n"] => (toFin p x).map (.touch · true)
    | _ => none
  else if s.startsWith "d" then (toFin p rest).map .del
  else none

structure XState (p : Nat) where
  g : GWorld p := {}
  live : Fin p → Option Content := fun _ => none
  /-- generation of the server names of backend x (see `bump`) -/
  salt : Fin p → Nat := fun _ => 0
  touched : List (Fin p) := []
  other : Bool := false
  full : Bool := false

/-- the batch `converters.Sync` produces for the recorded changes, closed by the update -/
def batchOps {p : Nat} (st : XState p) : List (AOp p) :=
  let xs := if st.full then List.finRange p else (List.finRange p).filter (st.touched.contains ·)
  (if st.full then [AOp.clear] else [AOp.removeAll xs]) ++
  xs.filterMap (fun x => (st.live x).map fun c => AOp.acquire x { c with cfg := c.cfg + 1024 * st.salt x })

/-- an op marked `.n`: the harness found that the stored object of x has the declared content but other
server names (a slot handed out by the dynamic updater keeps its name), so that `backendsMatch`, which compares
the endpoints with their names, says no.  The content of the model has no names: the driver says "no match, same
configuration, same endpoints" the only way it can, with a component of `cfg` above everything `slotsDyn` reads
(`confOf`, `usedOf`) and everything the observations print (`cfg % 1024`). -/
def bump {p : Nat} (st : XState p) (x : Fin p) (names : Bool) : Fin p → Nat :=
  fun y => if names ∧ y = x then st.salt y + 1 else st.salt y

def strip (l : List Ent) : List Ent := l.map fun e => { e with cfg := e.cfg % 1024 }

def aobsOf {p : Nat} (sh : Sh p) (reload : Bool) (w : World p) : AObs :=
  { reload := reload, items := strip (entsOf w.store.items),
    disk := (List.range sh.files).map fun k => (k, strip (entsOf (w.disk k))), diff := [] }

/-- model trace: one observation per update, and whether the history stays within the discipline -/
def alTrace {p : Nat} (d : Dyn p) (sh : Sh p) : XState p → List (XOp p) → List AObs × Bool
  | _, [] => ([], true)
  | st, .decl x c names :: ops =>
    alTrace d sh { st with live := fun y => if y = x then some c else st.live y, touched := x :: st.touched,
                           salt := bump st x names } ops
  | st, .touch x names :: ops => alTrace d sh { st with touched := x :: st.touched, salt := bump st x names } ops
  | st, .del x :: ops =>
    alTrace d sh { st with live := fun y => if y = x then none else st.live y, touched := x :: st.touched } ops
  | st, .other :: ops => alTrace d sh { st with other := true } ops
  | st, .full :: ops => alTrace d sh { st with full := true } ops
  | st, .upd :: ops =>
    let pre := batchOps st
    let ok := allOkA .real d sh st.g (pre ++ [.update st.other])
    let g1 := runA .real d sh st.g pre
    let reload := needReload d g1.committed st.other (shrink sh g1.w.store)
    let g2 := stepA .real d sh g1 (.update st.other)
    let (l, ok') := alTrace d sh { st with g := g2, touched := [], other := false, full := false } ops
    (aobsOf sh reload g2.w :: l, ok && ok')

/-- Spec on one successful update: every file holds exactly the current items of its shard (the clauses of
`C05.diskClause`), every file is, byte for byte, what a fresh instance renders for these items, and the
server lines of every backend are its endpoints in memory -/
def alClause (files : Nat) (shardOf : Nat → Nat) (o : AObs) : Option String :=
  match diskClause files shardOf { items := o.items, add := [], del := [], changed := [], disk := o.disk } with
  | some c => some c
  | none =>
    match o.diff.find? (fun t => t.startsWith "srv~") with
    | some _ => some "server-list-on-disk-differs-from-model"
    | none =>
      match o.diff.find? (fun t => t.startsWith "miss~") with
      | some _ => some "missing-configuration-file"
      | none =>
        match o.diff.find? (fun t => t.startsWith "extra~") with
        | some _ => some "stale-configuration-file"
        | none => if o.diff.isEmpty then none else some "file-differs-from-fresh-rendering"

def parseDyn (s : String) : Option (Nat × Nat) :=
  match s.splitOn ":" with
  | [a, b] => do some (← a.toNat?, ← b.toNat?)
  | _ => none

def handleAl (n shards dyn ops : String) (impl : String) : Verdict :=
  match n.toNat?, parseList parseNat? shards ".", parseList parseDyn dyn "." with
  | some n, some shl, some dl =>
    let p := shl.length
    if dl.length ≠ p then bad "dyn" else
    let shardOfN : Nat → Nat := fun i => shl.getD i 0
    let sh : Sh p := { n := n, shardOf := fun x => shardOfN x.val }
    let d : Dyn p := slotsDyn (fun x => (dl.getD x.val (0, 1)).1) (fun x => (dl.getD x.val (0, 1)).2)
    match parseList (parseXOp p) ops "," with
    | none => bad "ops"
    | some xops =>
      if impl.startsWith "PANIC" then { model := "-", agree := false, oracle := some "panic-in-instance-update" } else
      let (tr, disc) := alTrace d sh {} xops
      let m := if tr.isEmpty then "-" else ";".intercalate (tr.map showAObs)
      match (if impl = "-" then some [] else (impl.splitOn ";").mapM parseAObs) with
      | none =>
        { model := m, agree := false
          oracle := some (if impl.startsWith "E" || (impl.splitOn ";").any (· == "E") then "update-returned-an-error"
                          else "unparsable-implementation-output") }
      | some obs =>
        -- growth of a backend the batch did not touch, a dynamic update: the cases this mode exists for
        let grew := (tr.zip (tr.drop 1)).any fun (a, b) =>
          b.reload && a.items.any fun e => b.items.any fun e' => e'.name == e.name && e'.cfg == e.cfg && e.slots < e'.slots
        { model := m, agree := m == impl
          oracle := obs.findSome? (alClause sh.files shardOfN)
          trivial := !disc || !grew }
  | _, _, _ => bad "args"

end HapVerif.C05A
