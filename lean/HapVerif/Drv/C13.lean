import HapVerif.Model.C13
import HapVerif.Model.C13Enq
import HapVerif.Drv.Common
namespace HapVerif.C13
open HapVerif.Drv

def parseEv (s : String) : Option (Int × Bool) :=
  match s.splitOn ":" with
  | [t, "p"] => t.toInt?.map (·, false)
  | [t, "f"] => t.toInt?.map (·, true)
  | [t] => t.toInt?.map (·, false)
  | _ => none

def showEv (e : Int × Bool) : String := toString e.1 ++ ":" ++ (if e.2 then "f" else "p")
def showEvs (l : List (Int × Bool)) : String := if l.isEmpty then "-" else ",".intercalate (l.map showEv)

/-- runs at one instant are unordered: canonical order by (time, item) -/
def canon (l : List (Int × Bool)) : List (Int × Bool) :=
  l.mergeSort (fun a b => a.1 < b.1 || (a.1 == b.1 && (!a.2 || b.2)))

/-- `reloadd <interval> <durations> <arrivals>` / `ingressd <delta> <wait> <durations> <arrivals>`:
the `k`-th run takes `durations[k]`; impl output = observed run STARTS.  The model is the code that exists
(`forgetId`); the Spec is judged on the observed starts inside `judged` (every run shorter than the interval,
one kind of item or instantaneous runs), outside it only `extra-run` is judged and the case still counts for
the correspondence. -/
def handleD (lim : Limiter) (delta slack : Int) (durs evs impl : String) : Verdict :=
  match parseList String.toInt? durs, parseList parseEv evs, parseList parseEv impl with
  | some durs, some evs, some rs =>
    let st := flushD forgetId (runAllD lim forgetId durs evs)
    let tie := st.tie || st.q.tie
    let m := canon st.starts.reverse
    let rs := canon rs
    { model := showEvs m ++ (if tie then " tie" else ""), agree := tie || m = rs,
      oracle := if tie then none else oracleD delta slack durs evs rs, trivial := tie || evs.length < 2 }
  | _, _, _ => bad "parse"

def parseSrc (s : String) : Option (Int × Src) :=
  match s.splitOn ":" with
  | [t, "p"] => t.toInt?.map (·, Src.notify false)
  | [t, "f"] => t.toInt?.map (·, Src.notify true)
  | [t, "L"] => t.toInt?.map (·, Src.leader true)
  | [t, "l"] => t.toInt?.map (·, Src.leader false)
  | _ => none

/-- `sites <delta> <wait> <durations> <history>`: the REAL enqueue sites of the reconcile queue (`hdlr.notify` through
a watcher event `t:p` / `t:f`, `IngressReconciler.leaderChanged(true/false)` `t:L` / `t:l`) on the real queue;
impl output = observed run STARTS.  Model = the sites with the methods of the code that exists (`discCode`: every
site rate-limited); the Spec (`oracleS`) is evaluated on the observed starts. -/
def handleS (delta slack : Int) (durs evs impl : String) : Verdict :=
  match parseList String.toInt? durs, parseList parseSrc evs, parseList parseEv impl with
  | some durs, some evs, some rs =>
    let lim := ingressWhen delta slack
    let st := flushD forgetId (runAllS discCode lim forgetId durs evs)
    let tie := st.tie || st.q.tie
    let m := canon st.starts.reverse
    let rs := canon rs
    { model := showEvs m ++ (if tie then " tie" else ""), agree := tie || m = rs,
      oracle := if tie then none else oracleS delta slack durs evs rs, trivial := tie || evs.length < 2 }
  | _, _, _ => bad "parse"

/-- `reload <interval> <arrivals>` / `ingress <delta> <wait> <arrivals>`; impl output = observed runs -/
def handle (args : List String) (impl : String) : Verdict :=
  let go (lim : Limiter) (delta slack : Int) (evs : String) : Verdict :=
    match parseList parseEv evs, parseList parseEv impl with
    | some evs, some rs =>
      let st := flush (runAll lim evs)
      let m := canon st.runs.reverse
      let rs := canon rs
      { model := showEvs m ++ (if st.tie then " tie" else ""), agree := st.tie || m = rs,
        oracle := if st.tie then none else oracle delta slack evs rs, trivial := st.tie || evs.length < 2 }
    | _, _ => bad "parse"
  match args with
  | ["reload", i, evs] => match i.toInt? with
    | some i => go (reloadWhen i) i 0 evs
    | none => bad "parse"
  | ["reloadd", i, durs, evs] => match i.toInt? with
    | some i => handleD (reloadWhen i) i 0 durs evs impl
    | none => bad "parse"
  | ["ingressd", d, w, durs, evs] => match d.toInt?, w.toInt? with
    | some d, some w => handleD (ingressWhen d w) d w durs evs impl
    | _, _ => bad "parse"
  | ["sites", d, w, durs, evs] => match d.toInt?, w.toInt? with
    | some d, some w => handleS d w durs evs impl
    | _, _ => bad "parse"
  | ["ingress", d, w, evs] => match d.toInt?, w.toInt? with
    | some d, some w => go (ingressWhen d w) d w evs
    | _, _ => bad "parse"
  | _ => bad "C13"

end HapVerif.C13
