import HapVerif.Model.C13
import HapVerif.Drv.Common
namespace HapVerif.C13
open HapVerif.Drv

def parseEv (s : String) : Option (Int × Bool) :=
  match s.splitOn ":" with
  | [t, "p"] => t.toInt?.map (·, false)
  | [t, "f"] => t.toInt?.map (·, true)
  | [t] => t.toInt?.map (·, false)
  | _ => none

def showEv (e : Int × Bool) : String := toString e.1 ++ ":" ++ (if e.2 then "f" else "p")
def showEvs (l : List (Int × Bool)) : String := if l.isEmpty then "-" else ",".intercalate (l.map showEv)

/-- runs at one instant are unordered: canonical order by (time, item) -/
def canon (l : List (Int × Bool)) : List (Int × Bool) :=
  l.mergeSort (fun a b => a.1 < b.1 || (a.1 == b.1 && (!a.2 || b.2)))

/-- `reload <interval> <arrivals>` / `ingress <delta> <wait> <arrivals>`; impl output = observed runs -/
def handle (args : List String) (impl : String) : Verdict :=
  let go (lim : Limiter) (delta slack : Int) (evs : String) : Verdict :=
    match parseList parseEv evs, parseList parseEv impl with
    | some evs, some rs =>
      let st := flush (runAll lim evs)
      let m := canon st.runs.reverse
      let rs := canon rs
      { model := showEvs m ++ (if st.tie then " tie" else ""), agree := st.tie || m = rs,
        oracle := if st.tie then none else oracle delta slack evs rs, trivial := st.tie || evs.length < 2 }
    | _, _ => bad "parse"
  match args with
  | ["reload", i, evs] => match i.toInt? with
    | some i => go (reloadWhen i) i 0 evs
    | none => bad "parse"
  | ["ingress", d, w, evs] => match d.toInt?, w.toInt? with
    | some d, some w => go (ingressWhen d w) d w evs
    | _, _ => bad "parse"
  | _ => bad "C13"

end HapVerif.C13
