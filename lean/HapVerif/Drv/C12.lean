import HapVerif.Model.C12
import HapVerif.Model.C12Rot
import HapVerif.Drv.Common
/-!
Driver for C12.

mode `inst` (a real `haproxy.Instance` with simulated sockets, driven op by op):

  `C12 inst <queue 0|1> <n> <shard of name 0>.<shard of name 1>... <op>,<op>,... => <obs>;<obs>;...`

ops: `aX.C.S` AcquireBackend(name X) + fill (cfg C = 4*conf+epv, S empty slots) when new, `rX.Y..`
Backends.RemoveAll, `HX.C` AcquireHost + fill when new, `RX.Y..` Hosts.RemoveAll, `TV` tcp service
content V, `F` config.Clear(), `GL.H` custom responses of the global config (Lua based content L, HAProxy
based content H, 0 = none), `u[:fault]` HAProxyUpdate, `q[:fault]` one run of the reload queue
worker.  faults: `tm fm bm cl ef lr mc sh<k> rs rr ad<i>+<j>.. ab<i>+<j>..` (`ef` the errorfile, `lr`
responses.lua).
`O<k>` as FIRST op: the instance rotates haproxy.cfg and the shard files (`--max-old-config-files k`); faults
`mn mo mw` are the rotation rename / the removal of the oldest copy / the write inside the rotated write of
haproxy.cfg (Model/C12Rot.lean), all of them `Fault.mainCfg` for the fault cycle model; with rotation on every
observation ends with `|k<copies>` (stripped before the comparison, judged by `C12Rot.rotClause`).
One observation per u/q op:
`e<err>|items|hosts|tcp want|file=ents,..|maps|tcpmap.tcpcrt.tcpmain|running backends|running maps|running tcp|pending|`
`global lua.ha|errorfile.lua.cfg on disk|errorfile.lua.cfg as loaded` (`-` = no such file; cfg: 1 = haproxy.cfg
names the errorfile).

mode `world` (the world runner with a fault script): see `handleWorld`.
-/
namespace HapVerif.C12
open HapVerif.Drv
open HapVerif.C05

/-! ### inst mode -/

def toFin (p : Nat) (s : String) : Option (Fin p) := do
  let n ← s.toNat?
  if h : n < p then some ⟨n, h⟩ else none

def parseFault (s : String) : Option Fault :=
  if s = "" then some .none
  else if s = "tm" then some .tcpMaps
  else if s = "fm" then some .frontMaps
  else if s = "bm" then some .backMaps
  else if s = "cl" then some .crtLists
  else if s = "mc" then some .mainCfg
  -- the three fault points inside the ROTATED write of haproxy.cfg (Model/C12Rot.lean: rename, removal of the
  -- oldest copy, write); the harness arms them so that the write of haproxy.cfg fails, which is all the fault
  -- cycle model distinguishes (`C12Rot.failed_write_keeps_or_loses_file`, `failed_write_owes_rewrite`)
  else if s = "mn" || s = "mo" || s = "mw" then some .mainCfg
  else if s = "rs" then some .reloadSend
  else if s = "rr" then some .reloadResult
  else if s.startsWith "sh" then ((s.drop 2).toString.toNat?).map .shard
  else if s.startsWith "ad" || s.startsWith "ab" then (parseList parseNat? ((s.drop 2).toString) "+").map .admin
  else none

def parseEv (p : Nat) (s : String) : Option (Ev p) :=
  let rest := (s.drop 1).toString
  if s = "F" then some .full
  else if s.startsWith "u" then (parseFault ((rest.dropWhile (· == ':')).toString)).map .upd
  else if s.startsWith "q" then (parseFault ((rest.dropWhile (· == ':')).toString)).map .qrun
  else if s.startsWith "a" then
    match rest.splitOn "." with
    | [x, c, sl] => do some (.acq (← toFin p x) { cfg := ← c.toNat?, slots := ← sl.toNat? })
    | _ => none
  else if s.startsWith "r" then (parseList (toFin p) rest ".").map .rem
  else if s.startsWith "H" then
    match rest.splitOn "." with
    | [x, c] => do some (.hacq (← toFin p x) (← c.toNat?))
    | _ => none
  else if s.startsWith "R" then (parseList (toFin p) rest ".").map .hrem
  else if s.startsWith "T" then rest.toNat?.map .tcp
  else none

def parseREv (p : Nat) (s : String) : Option (REv p) :=
  if s = "u:ef" then some .updHa
  else if s = "u:lr" then some .updLua
  else if s.startsWith "G" then
    match ((s.drop 1).toString).splitOn "." with
    | [l, h] => do some (.glob { lua := ← l.toNat?, ha := ← h.toNat? })
    | _ => none
  else (parseEv p s).map .ev

def showEnt (e : Ent) : String := s!"{e.name}:{e.cfg}:{e.slots}"
def showEnts (l : List Ent) : String := if l.isEmpty then "-" else "+".intercalate (l.map showEnt)
def showPairs (l : List (Nat × Nat)) : String :=
  if l.isEmpty then "-" else "+".intercalate (l.map fun h => s!"{h.1}:{h.2}")

/-- one observation, on both sides -/
structure IObs where
  err : Bool
  items : List Ent
  hosts : List (Nat × Nat)
  want : Nat
  files : List (Nat × List Ent)
  maps : List (Nat × Nat)
  tcp : Nat × Nat × Nat
  rback : List Ent
  rmaps : List (Nat × Nat)
  rtcp : Nat × Nat × Nat
  pending : Bool
  glob : Glob := {}
  rdisk : RFiles := {}
  rrun : RFiles := {}
deriving DecidableEq

def showTcp (t : Nat × Nat × Nat) : String := s!"{t.1}.{t.2.1}.{t.2.2}"

def showOptNat : Option Nat → String
  | none => "-"
  | some v => toString v

def showRFiles (d : RFiles) : String :=
  s!"{showOptNat d.ha}.{showOptNat d.lua}.{match d.main with | none => "-" | some true => "1" | some false => "0"}"

def showIObs (o : IObs) : String :=
  "|".intercalate [if o.err then "e1" else "e0", showEnts o.items, showPairs o.hosts, toString o.want,
    ",".intercalate (o.files.map fun f => s!"{f.1}={showEnts f.2}"), showPairs o.maps, showTcp o.tcp,
    showEnts o.rback, showPairs o.rmaps, showTcp o.rtcp, if o.pending then "1" else "0",
    s!"{o.glob.lua}.{o.glob.ha}", showRFiles o.rdisk, showRFiles o.rrun]

def mapsOf {p : Nat} (m : Fin p → Option (Nat × Bool)) : List (Nat × Nat) :=
  (List.finRange p).filterMap fun x => (m x).map fun e => (x.val, e.1)

def iobsOf {p : Nat} (sh : Sh p) (r : Res p) : IObs :=
  let w := r.w
  { err := r.err
    items := entsOf w.g.w.store.items
    hosts := (List.finRange p).filterMap fun x => (w.h.items x).map fun c => (x.val, c)
    want := w.tcp.want
    files := (List.range sh.files).map fun k => (k, entsOf (w.g.w.disk k))
    maps := if w.mainHosts then mapsOf w.h.maps else []
    tcp := (w.tcp.map, w.tcp.crt, w.tcp.main)
    rback := entsOf w.run.back
    rmaps := mapsOf w.run.maps
    rtcp := (w.run.tcpMap, w.run.tcpCrt, w.run.tcpMain)
    pending := w.pending }

def iobsOfR {p : Nat} (sh : Sh p) (r : RRes p) : IObs :=
  { iobsOf sh { w := r.w.fw, err := r.err } with glob := r.w.glob, rdisk := r.w.disk, rrun := r.w.run }

def trace {p : Nat} (ro : ROpt) (sh : Sh p) : RW p → List (REv p) → List IObs
  | _, [] => []
  | w, .ev (.upd f) :: es => let r := updR ro sh (.base f) w; iobsOfR sh r :: trace ro sh r.w es
  | w, .ev (.qrun f) :: es => let r := qrunR ro sh f w; iobsOfR sh r :: trace ro sh r.w es
  | w, .updHa :: es => let r := updR ro sh .haResp w; iobsOfR sh r :: trace ro sh r.w es
  | w, .updLua :: es => let r := updR ro sh .luaResp w; iobsOfR sh r :: trace ro sh r.w es
  | w, e :: es => trace ro sh (stepR ro sh w e) es

def parseEnt (s : String) : Option Ent :=
  match s.splitOn ":" with
  | [a, b, c] => do some { name := ← a.toNat?, cfg := ← b.toNat?, slots := ← c.toNat? }
  | _ => none
def parseEnts (s : String) : Option (List Ent) := parseList parseEnt s "+"
def parsePair (s : String) : Option (Nat × Nat) :=
  match s.splitOn ":" with
  | [a, b] => do some (← a.toNat?, ← b.toNat?)
  | _ => none
def parsePairs (s : String) : Option (List (Nat × Nat)) := parseList parsePair s "+"
def parseFile (s : String) : Option (Nat × List Ent) :=
  match s.splitOn "=" with
  | [k, es] => do some (← k.toNat?, ← parseEnts es)
  | _ => none
def parseTcp (s : String) : Option (Nat × Nat × Nat) :=
  match s.splitOn "." with
  | [a, b, c] => do some (← a.toNat?, ← b.toNat?, ← c.toNat?)
  | _ => none

def parseOptNat (s : String) : Option (Option Nat) :=
  if s = "-" then some none else s.toNat?.map some

def parseRFiles (s : String) : Option RFiles :=
  match s.splitOn "." with
  | [a, b, c] => do
    let m ← (if c = "-" then some none else if c = "1" then some (some true) else if c = "0" then some (some false) else none)
    some { ha := ← parseOptNat a, lua := ← parseOptNat b, main := m }
  | _ => none

def parseGlob (s : String) : Option Glob :=
  match s.splitOn "." with
  | [a, b] => do some { lua := ← a.toNat?, ha := ← b.toNat? }
  | _ => none

def parseIObs (s : String) : Option IObs :=
  match s.splitOn "|" with
  | [e, i, h, w, f, m, t, rb, rm, rt, pe, g, rd, rr] => do
    some { err := e == "e1", items := ← parseEnts i, hosts := ← parsePairs h, want := ← w.toNat?
           files := ← parseList parseFile f ",", maps := ← parsePairs m, tcp := ← parseTcp t
           rback := ← parseEnts rb, rmaps := ← parsePairs rm, rtcp := ← parseTcp rt, pending := pe == "1"
           glob := ← parseGlob g, rdisk := ← parseRFiles rd, rrun := ← parseRFiles rr }
  | _ => none

/-- the parts of the configuration, in the order `HAProxyUpdate` writes them -/
inductive Part where
  | tcpMap | frontMaps | tcpCrt | resp | cfg
deriving DecidableEq

/-- Spec on one observation: which parts do not hold the in-memory model (`stale`), which ones
hold it but were never loaded (`unloaded`) -/
def partState (files : Nat) (shardOf : Nat → Nat) (o : IObs) (pt : Part) : Bool × Bool :=
  match pt with
  | .tcpMap =>
    let stale := o.want != 0 && o.tcp.1 != o.want
    (stale, !stale && o.want != 0 && o.rtcp.1 != o.tcp.1)
  | .frontMaps =>
    let stale := o.maps != o.hosts
    (stale, !stale && o.rmaps != o.maps)
  | .tcpCrt =>
    let stale := o.want != 0 && o.tcp.2.1 != o.want
    (stale, !stale && o.want != 0 && o.rtcp.2.1 != o.tcp.2.1)
  | .resp =>
    -- errorfiles/<code>.http (when one is configured) and lua/responses.lua = rendering of the global config
    let stale := o.rdisk.lua != some o.glob.lua || (o.glob.ha != 0 && o.rdisk.ha != some o.glob.ha)
    (stale, !stale && (o.rrun.lua != (loadR o.rdisk).lua || o.rrun.ha != (loadR o.rdisk).ha))
  | .cfg =>
    let c05 : C05.Obs := { items := o.items, add := [], del := [], changed := [], disk := o.files }
    let stale := (diskClause files shardOf c05).isSome || o.tcp.2.2 != o.want || o.rdisk.main != some (o.glob.ha != 0)
    let onDisk := (o.files.map (·.2)).flatten
    (stale, !stale && (onDisk.any (fun e => !o.rback.contains e) || o.rtcp.2.2 != o.tcp.2.2 || o.rrun.main != o.rdisk.main))

def allParts : List Part := [.tcpMap, .frontMaps, .tcpCrt, .resp, .cfg]

/-- the property on one settled observation (a fault-free retry with an empty batch was just
done): `Disk = render model ∧ Running = load Disk`.  `lastReloadFault`: the last injected fault was
a failed reload. -/
def settledClause (files : Nat) (shardOf : Nat → Nat) (lastReloadFault : Bool) (o : IObs) : Option String :=
  let st := allParts.map fun pt => (pt, partState files shardOf o pt)
  let stale := st.filter fun x => x.2.1
  let unloaded := st.filter fun x => x.2.2
  if o.err then
    -- the fault-free retry fails; haproxy.cfg names a response file that was never written: every reload will
    some (if !loadable o.rdisk then "reload-fails-forever-cfg-names-missing-file" else "retry-without-fault-fails")
  else if !stale.isEmpty && !unloaded.isEmpty then some "half-written-files-after-fault"
  else match stale.head? with
    | some (.tcpMap, _) => some "change-lost-after-failed-map-write"
    | some (.frontMaps, _) => some "change-lost-after-failed-map-write"
    | some (.tcpCrt, _) => some "change-lost-after-failed-crtlist-write"
    | some (.resp, _) => some "change-lost-after-failed-response-write"
    | some (.cfg, _) => some "change-lost-after-failed-cfg-write"
    | none =>
      if !unloaded.isEmpty then
        some (if lastReloadFault then "reload-not-retried-after-failed-reload" else "reload-skipped-after-failed-write")
      else if o.pending then some "reload-left-pending"
      else none

def REv.isUpd {p : Nat} : REv p → Bool
  | .ev (.upd _) => true
  | .updHa => true
  | .updLua => true
  | _ => false

def REv.isQrun {p : Nat} : REv p → Bool
  | .ev (.qrun _) => true
  | _ => false

def REv.isRun {p : Nat} (e : REv p) : Bool := e.isUpd || e.isQrun

/-- no fault is injected into this run -/
def REv.clean {p : Nat} : REv p → Bool
  | .ev (.upd f) => f == .none
  | .ev (.qrun f) => f == .none
  | .updHa => false
  | .updLua => false
  | _ => true

def REv.reloadFault {p : Nat} : REv p → Bool
  | .ev (.upd f) => f.isReload
  | .ev (.qrun f) => f.isReload
  | _ => false

/-- settled points of a history ("a later reconciliation (the scheduled retry or the next event) brings
the files on disk and the running HAProxy to the state of the cluster").  Direct mode: a fault-free `u` right
after a `u` (the scheduled retry, empty batch), or the first fault-free `u` after a faulty one whatever
arrived in between (the next event).  Queue mode: a fault-free `q` right after a fault-free `u` that came
right after a `u`/`q` (the reconcile retry and the queue worker have both run, nothing new arrived).
`prev2 prev1`: the two ops before; `lastFaulty`: the most recent run had a fault injected. -/
def specTraceF {p : Nat} (queue : Bool) (files : Nat) (shardOf : Nat → Nat) :
    Option (REv p) → Option (REv p) → Bool → Bool → List (REv p) → List IObs → Option String
  | _, _, _, _, [], _ => none
  | _, _, _, _, _, [] => none
  | p2, p1, lastRF, lastFaulty, e :: es, os =>
    if !e.isRun then specTraceF queue files shardOf p1 (some e) lastRF lastFaulty es os else
    match os with
    | [] => none
    | o :: os' =>
      let clean := e.clean
      let prevRun := match p1 with | some x => x.isRun | none => false
      let settled :=
        if queue then
          e.isQrun && clean &&
          (match p1 with | some x => x.isUpd && x.clean | none => false) &&
          (match p2 with | some x => x.isRun | none => false)
        else e.isUpd && clean && (prevRun || lastFaulty)
      let lastRF' := if clean then lastRF else e.reloadFault
      match (if settled then settledClause files shardOf lastRF o else none) with
      | some c => some c
      | none => specTraceF queue files shardOf p1 (some e) lastRF' (!clean) es os'

def specTrace {p : Nat} (queue : Bool) (files : Nat) (shardOf : Nat → Nat)
    (p2 p1 : Option (REv p)) (lastRF : Bool) (es : List (REv p)) (os : List IObs) : Option String :=
  specTraceF queue files shardOf p2 p1 lastRF false es os

/-- generator discipline the model relies on (besides C05's): while a host map is referenced a host
exists (an emptied map file is not rewritten by the real code, C05 counts referenced files only) -/
def hostsNeverEmptied {p : Nat} (ro : ROpt) (sh : Sh p) : RW p → List (REv p) → Bool
  | _, [] => true
  | w, e :: es =>
    let w' := stepR ro sh w e
    (if e.isUpd then
        !(w.fw.mainHosts || hasHosts w.fw.h) || hasHosts w'.fw.h || !(anyFin fun x => (w'.fw.h.maps x).isSome)
      else true) && hostsNeverEmptied ro sh w' es

/-- `O<k>` as first op: the instance runs with `--max-old-config-files=k` -/
def splitRot (ops : String) : Nat × String :=
  match ops.splitOn "," with
  | o :: rest =>
    if o.startsWith "O" then (((o.drop 1).toString.toNat?).getD 0, ",".intercalate rest) else (0, ops)
  | [] => (0, ops)

/-- the trailing `|k<copies>` field of an observation (only there when rotation is on) -/
def stripCopies (s : String) : String × Option Nat :=
  let fs := s.splitOn "|"
  match fs.getLast? with
  | some l =>
    if l.startsWith "k" then ("|".intercalate fs.dropLast, (l.drop 1).toString.toNat?) else (s, none)
  | none => (s, none)

/-- Spec of the rotated copies: after every HAProxyUpdate that returned no error at most `rot` of them exist
(`C12Rot.settled`, last conjunct); with rotation on every observation must carry the count -/
def rotTrace {p : Nat} (rot : Nat) : List (REv p) → List (IObs × Option Nat) → Option String
  | [], _ => none
  | _, [] => none
  | e :: es, (o, k) :: os =>
    if !e.isRun then rotTrace rot es ((o, k) :: os) else
    match k with
    | none => if rot = 0 then rotTrace rot es os else some "unparsable-implementation-output"
    | some c =>
      match (if e.isUpd && !o.err then C12Rot.rotClause rot c else none) with
      | some cl => some cl
      | none => rotTrace rot es os

def handleInst (q n shards ops0 : String) (impl0 : String) : Verdict :=
  let (rot, ops) := splitRot ops0
  let stripped := (impl0.splitOn ";").map stripCopies
  let impl := if impl0.startsWith "PANIC" then impl0 else ";".intercalate (stripped.map (·.1))
  match n.toNat?, parseList parseNat? shards "." with
  | some n, some shl =>
    let p := shl.length
    let shardOfN : Nat → Nat := fun i => shl.getD i 0
    let sh : Sh p := { n := n, shardOf := fun x => shardOfN x.val }
    let ro : ROpt := { o := { queue := q == "1" } }
    match parseList (parseREv p) ops "," with
    | none => bad "ops"
    | some evs =>
      if impl.startsWith "PANIC" then { model := "-", agree := false, oracle := some "panic-in-instance-update" } else
      let tr := trace ro sh {} evs
      let m := ";".intercalate (tr.map showIObs)
      match (impl.splitOn ";").mapM parseIObs with
      | none => { model := m, agree := false, oracle := some "unparsable-implementation-output" }
      | some obs =>
        let disc := allOkR ro sh {} evs && hostsNeverEmptied ro sh {} evs
        { model := m, agree := m == impl
          oracle := if disc then
              (match specTrace ro.o.queue sh.files shardOfN none none false evs obs with
               | some c => some c
               | none => rotTrace rot evs (obs.zip (stripped.map (·.2))))
            else none
          trivial := !disc || !(evs.any fun e => e.isRun && !e.clean) }
  | _, _ => bad "args"

/-! ### world mode

  `C12 world s<shards> <script> <op> <op> ... => T:<step>;..|E:<e>,..|d=<files>|u=<files>|ut=<files>|tbl=..|tblt=..|snap=..|tf=..|rf=<files>|mf=<files>`

see harness/cmd/hv/c12.go.  The model replays the twin's facts with the fault script (`wstep`) and
predicts the error flag of every reconcile and whether the history ends with nothing owed; the
Spec is evaluated on the comparison with the twin (semantic normal form, files read by HAProxy,
server table, and byte for byte the custom response files haproxy.cfg names: `rf=` the ones that differ
from the twin's, `mf=` the ones that do not exist). -/

def parseFileFact (s : String) : Option FileFact :=
  match s.splitOn "@" with
  | [n, a, b] => some { name := n, ns := a, srv := b }
  | _ => none

def parseStepFact (s : String) : Option StepFact :=
  match s.splitOn "~" with
  | [r, n, files] =>
    match files.splitOn "^" with
    | [pre, post] => do
      some { reload := r == "1", sends := ← n.toNat?
             pre := ← parseList parseFileFact pre "+", post := ← parseList parseFileFact post "+" }
    | _ => none
  | _ => none

def parseWFault (s : String) : Option WFault :=
  if s.startsWith "F=" then some (.files ((s.drop 2).toString.splitOn "+"))
  else if s = "RS" then some .reloadSend
  else if s = "RF" then some .reloadResult
  else if s.startsWith "AE" || s.startsWith "AB" then some .admin
  else none

def parseScript (s : String) : Option (List (Nat × WFault)) :=
  if s = "-" then some [] else
  (s.splitOn ",").mapM fun part =>
    match part.splitOn ":" with
    | i :: rest => do some (← i.toNat?, ← parseWFault (":".intercalate rest))
    | [] => none

def showNames (l : List String) : String := if l.isEmpty then "-" else "+".intercalate l

def field (fs : List String) (key : String) : Option String :=
  (fs.find? (·.startsWith key)).map fun f => (f.drop key.length).toString

def sortNames (l : List String) : List String := (l.toArray.qsort (· < ·)).toList

/-- the part order used for the finding signature -/
def fileStage (n : String) : Nat :=
  if n.startsWith "maps/" then 0
  else if n.startsWith "cfg/crtlist_" then 1
  else 2

def handleWorld (script : String) (ops : List String) (impl : String) : Verdict :=
  if impl.startsWith "PANIC" then { model := "-", agree := false, oracle := some "panic-in-controller" } else
  if impl.startsWith "err:" then { model := "-", agree := false, oracle := some "harness-error" } else
  let fs := impl.splitOn "|"
  match parseScript script, field fs "T:", field fs "E:", field fs "d=", field fs "u=", field fs "ut=",
        field fs "tbl=", field fs "tblt=", field fs "snap=" with
  | some scr, some t, some e, some d, some u, some ut, some tbl, some tblt, some snap =>
    match (t.splitOn ";").mapM parseStepFact with
    | none => { model := "-", agree := false, oracle := some "unparsable-implementation-output" }
    | some steps =>
      let nsync := (ops.filter (· == "sync")).length
      if steps.length != nsync then bad "steps" else
      let faults := (List.range steps.length).map fun i => ((scr.find? (·.1 == i)).map (·.2)).getD .none
      let st := wrun {} (steps.zip faults)
      let es := ",".intercalate (st.errs.map fun b => if b then "1" else "0")
      let eImpl := e.splitOn ","
      let eModel := st.errs.map fun b => if b then "1" else "0"
      let uNames := if u == "-" then [] else u.splitOn "+"
      let utNames := if ut == "-" then [] else ut.splitOn "+"
      let unl := uNames.filter fun n => !utNames.contains n
      let rf := (field fs "rf=").getD "-"
      let mf := (field fs "mf=").getD "-"
      let implConv := snap == "eq" && (tbl == "eq" || tblt != "eq") && unl.isEmpty && rf == "-"
      let m := s!"E:{es}|conv={if st.converged then 1 else 0}" ++ (if st.unknown then s!"|known={st.known}" else "")
      -- error flags: all of them, or the ones before the facts stop describing the faulty controller;
      -- a history the model sees converged must be converged
      let agree := eImpl.length == eModel.length &&
        (if st.unknown then eImpl.take st.known == eModel.take st.known
         else eImpl == eModel && (!st.converged || implConv))
      -- the property: after the last fault, a fault-free retry with no new event was made (the harness
      -- always appends it); files = the twin's, HAProxy = the files
      let lastFault := (faults.zipIdx.filter fun x => x.1 != .none).getLast?
      let retried := match lastFault with
        | some (_, i) => decide (i + 1 < steps.length)
        | none => true
      let dNames := if d == "-" then [] else d.splitOn "+"
      let stale := snap != "eq"
      let lastIsReload := match lastFault with
        | some (.reloadSend, _) => true
        | some (.reloadResult, _) => true
        | _ => false
      -- a reconcile without an injected fault returned an error
      let spurious := (eImpl.zip faults).any fun x => x.1 == "1" && x.2 == .none
      let oracle : Option String :=
        if spurious then
          -- haproxy.cfg names a response file that was never written: no reload will ever succeed
          some (if mf != "-" then "reload-fails-forever-cfg-names-missing-file"
                else "update-keeps-failing-after-failed-map-write")
        else if !retried then none
        else if stale && !unl.isEmpty then some "half-written-files-after-fault"
        else if stale then
          match (dNames.map fileStage).foldl min 3 with
          | 0 => some "change-lost-after-failed-map-write"
          | 1 => some "change-lost-after-failed-crtlist-write"
          | _ => some "change-lost-after-failed-cfg-write"
        else if rf != "-" then some "change-lost-after-failed-response-write"
        else if !unl.isEmpty || (tbl != "eq" && tblt == "eq") then
          some (if lastIsReload then "reload-not-retried-after-failed-reload" else "reload-skipped-after-failed-write")
        else none
      { model := m, agree := agree, oracle := oracle
        trivial := st.unknown || !(faults.any (· != .none)) }
  | _, _, _, _, _, _, _, _, _ => { model := "-", agree := false, oracle := some "unparsable-implementation-output" }

def handle (args : List String) (impl : String) : Verdict :=
  match args with
  | ["inst", q, n, shards, ops] => handleInst q n shards ops impl
  | "world" :: _sh :: script :: ops => handleWorld script ops impl
  | _ => bad "C12"

end HapVerif.C12
