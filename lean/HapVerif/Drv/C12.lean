import HapVerif.Model.C12
import HapVerif.Drv.Common
namespace HapVerif.C12
open HapVerif.Drv

def handle (_args : List String) (_impl : String) : Verdict := bad "C12-not-implemented"

end HapVerif.C12
