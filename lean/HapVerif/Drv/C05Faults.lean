import HapVerif.Model.C12
import HapVerif.Drv.C12
/-!
Driver for C05, mode `fx` (histories with failed updates; harness/cmd/hv/c05faults.go):

  `C05 fx <queue 0|1> <n> <shard of name 0>.<shard of name 1>... <op>,<op>,... => <obs>;<obs>;...`

ops at the level of ingresses: `iX.C.S.T` ingress X declared / changed (backend content cfg C = 4*conf+epv
with S empty slots, host content T), `pX.C.S.T.H` ingress X declared with `ssl-passthrough: "true"` (H = 1: with
`ssl-passthrough-http-port`; host content 8*(1+H)+T, backend in mode tcp), `dX` ingress X deleted, `tV` tcp service content V, `F` full resync
(`config.Clear()`, everything live parsed again), `G` the same without the tcp service, `u[:fault]` the
recorded batch is applied the way `converters.Sync` does and `HAProxyUpdate` runs with at most one fault.

The batch of an update is expanded into the events of the C12 model (Model/C12.lean):
`hrem X; rem X` (or `full`), then per touched live ingress `acq x (C,S); hacq x (2*(64*T+conf))` (the host
holds a path of its own that depends on `conf`, so its content is a function of both), then `tcp V`.
Backends with an odd `conf` need ACLs.  The model predicts the error flag of every update, i.e. which
injected faults FIRE = which files the update writes.

One observation per update: `e1` (error), or `e0|<files compared>|<diff>,<diff>..` where every diff is
`<kind>~<file>~<entries on disk>~<entries of a fresh instance fed the declared state>`.  The Spec is
evaluated on the diffs of every update that returned success (`fxClause`).
-/
namespace HapVerif.C05F
open HapVerif.Drv
open HapVerif.C05 (Sh Content)
open HapVerif.C12

structure XState (p : Nat) where
  w : FW p := {}
  live : Fin p → Option (Content × Nat) := fun _ => none
  tcp : Nat := 0
  touched : List (Fin p) := []
  tcpTouched : Bool := false
  full : Bool := false

inductive XOp (p : Nat) where
  | ing (x : Fin p) (c : Content) (t : Nat)
  | del (x : Fin p)
  | tcp (v : Nat)
  | full (keepTcp : Bool)
  | upd (f : String)

def parseXOp (p : Nat) (s : String) : Option (XOp p) :=
  let rest := (s.drop 1).toString
  if s = "F" then some (.full true)
  else if s = "G" then some (.full false)
  else if s.startsWith "u" then some (.upd ((rest.dropWhile (· == ':')).toString))
  else if s.startsWith "i" then
    match rest.splitOn "." with
    | [x, c, sl, t] => do some (.ing (← toFin p x) { cfg := ← c.toNat?, slots := ← sl.toNat? } (← t.toNat?))
    | _ => none
  else if s.startsWith "p" then
    -- ssl-passthrough ingress: the backend (mode tcp, root path only: confs 2k and 2k+1 are the same object,
    -- never ACLs) and the host (content T and H only) are contents no plain ingress has
    match rest.splitOn "." with
    | [x, c, sl, t, h] => do
      let c ← c.toNat?
      let h ← h.toNat?
      if h > 1 then none else
      some (.ing (← toFin p x) { cfg := 4 * (32 + 2 * (c / 8)) + c % 4, slots := ← sl.toNat? } (8 * (1 + h) + (← t.toNat?)))
    | _ => none
  else if s.startsWith "d" then (toFin p rest).map .del
  else if s.startsWith "t" then rest.toNat?.map .tcp
  else none

/-- content of host X in the model: a function of what the harness puts into the host -/
def hostContent (t : Nat) (c : Content) : Nat :=
  if t ≥ 8 then 2 * (64 * t) else 2 * (64 * t + conf c)

/-- `Shrink` never puts back a backend that needs ACLs and went through `WriteBackendMaps`:
`backendsMatch` levels `PathsMap` but not `PathsDefaultHostMap`, which that call sets next to it, so the
stored object never compares equal to a freshly parsed one.  The pair is left to the dynamic updater
(which compares after `WriteBackendMaps` visited the new object too, finds nothing but endpoints to
look at and asks for no reload); the maps and the file of the backend are rewritten with the same content.
The model has no such hidden field: the driver says "no match, same configuration" the only way the
model's content can, as a change of the endpoint address (`epv`), which this mode does not compare
(the files are compared with a fresh instance, not with the model's content). -/
def declared {p : Nat} (o : Opt) (w : FW p) (x : Fin p) (c : Content) : Content :=
  match w.g.w.store.items x with
  | some d =>
    if o.needACL (conf d) && w.pmI x && c.matches d then { c with cfg := 4 * conf c + (epv d + 1) % 4 } else c
  | none => c

/-- the batch `converters.Sync` produces for the recorded changes -/
def batchEvs {p : Nat} (o : Opt) (st : XState p) : List (Ev p) :=
  let xs := if st.full then List.finRange p else (List.finRange p).filter (st.touched.contains ·)
  (if st.full then [Ev.full] else [Ev.hrem xs, Ev.rem xs]) ++
  xs.flatMap (fun x => match st.live x with
    | some (c, t) => [Ev.acq x (declared o st.w x c), Ev.hacq x (hostContent t c)]
    | none => []) ++
  (if (st.tcpTouched || st.full) && st.tcp != 0 then [Ev.tcp st.tcp] else [])

/-- `fh` = a map in the middle of the frontend set: written (and failing) iff the set is written and a
host exists -/
def faultOf {p : Nat} (st : XState p) (f : String) : Option Fault :=
  if f = "fh" then
    some (if (List.finRange p).any (fun x => (st.live x).isSome) then .frontMaps else .none)
  else parseFault f

def fxOpt (queue : Bool) : Opt := { queue := queue, needACL := fun c => c % 2 == 1 }

/-- model trace: the error flag of every update, and whether the generated events stay within the
discipline the theorems quantify over -/
def fxTrace {p : Nat} (o : Opt) (sh : Sh p) : XState p → List (XOp p) → Option (List Bool × Bool)
  | _, [] => some ([], true)
  | st, .ing x c t :: ops =>
    fxTrace o sh { st with live := fun y => if y = x then some (c, t) else st.live y, touched := x :: st.touched } ops
  | st, .del x :: ops =>
    fxTrace o sh { st with live := fun y => if y = x then none else st.live y, touched := x :: st.touched } ops
  | st, .tcp v :: ops => fxTrace o sh { st with tcp := v, tcpTouched := true } ops
  | st, .full keep :: ops => fxTrace o sh { st with full := true, tcp := if keep then st.tcp else 0 } ops
  | st, .upd f :: ops =>
    match faultOf st f with
    | none => none
    | some flt =>
      let evs := batchEvs o st
      let ok := allOk o sh st.w evs
      let r := upd o sh flt (run o sh st.w evs)
      match fxTrace o sh { st with w := r.w, touched := [], tcpTouched := false, full := false } ops with
      | none => none
      | some (l, ok') => some (r.err :: l, ok && ok')

/-! ### the Spec on the implementation's observations -/

structure Diff where
  kind : String
  file : String
  disk : List (String × String)
  want : List (String × String)

def parseEnt2 (s : String) : Option (String × String) :=
  match s.splitOn "=" with
  | [k, v] => some (k, v)
  | _ => none

def parseDiff (s : String) : Option Diff :=
  match s.splitOn "~" with
  | [k, f, d, w] => do some { kind := k, file := f, disk := ← parseList parseEnt2 d "+", want := ← parseList parseEnt2 w "+" }
  | _ => none

structure FObs where
  err : Bool
  files : Nat
  diffs : List Diff

def parseFObs (s : String) : Option FObs :=
  match s.splitOn "|" with
  | ["e1"] => some { err := true, files := 0, diffs := [] }
  | ["e0", n, d] => do some { err := false, files := ← n.toNat?, diffs := ← parseList parseDiff d "," }
  | _ => none

/-- what an entry is, for the name of the clause -/
def noun (d : Diff) (key : String) : String :=
  if key == "%file" then
    (if d.kind == "cfg" then "configuration-file" else if d.kind == "crt" then "crt-list-file"
     else if d.kind == "map" then "map-file" else "aux-file")
  else if d.kind == "cfg" then (if key.startsWith "backend_" then "backend-on-disk" else "config-section")
  else if d.kind == "crt" then "crt-list-entry"
  else if d.kind == "map" then
    (if d.file.startsWith "maps/_back_" then "backend-map-entry"
     else if d.file.startsWith "maps/_tcp_" then "tcp-map-entry"
     else "frontend-map-entry")
  else "aux-file"

def count (l : List (String × String)) (k : String) : Nat := (l.filter (·.1 == k)).length

/-- Spec on one file of one successful update: every entry of the current state exactly once, nothing
that is not part of it, with the current content -/
def diffClause (d : Diff) : Option String :=
  match d.disk.find? (fun e => count d.disk e.1 > max 1 (count d.want e.1)) with
  | some e => some ("duplicate-" ++ noun d e.1)
  | none =>
  match d.disk.find? (fun e => count d.want e.1 == 0) with
  | some e => some ("stale-" ++ noun d e.1)
  | none =>
  match d.want.find? (fun e => count d.disk e.1 == 0) with
  | some e => some ("missing-" ++ noun d e.1)
  | none =>
  match d.want.find? (fun e => !d.disk.contains e) with
  | some e => some ("outdated-" ++ noun d e.1)
  | none => if d.disk == d.want then none else some ("misordered-" ++ noun d "")

def fxClause (o : FObs) : Option String :=
  if o.err then none else o.diffs.findSome? diffClause

def handleFx (q n shards ops : String) (impl : String) : Verdict :=
  match n.toNat?, parseList parseNat? shards "." with
  | some n, some shl =>
    let p := shl.length
    let shardOfN : Nat → Nat := fun i => shl.getD i 0
    let sh : Sh p := { n := n, shardOf := fun x => shardOfN x.val }
    let o := fxOpt (q == "1")
    match parseList (parseXOp p) ops "," with
    | none => bad "ops"
    | some xops =>
      if impl.startsWith "PANIC" then { model := "-", agree := false, oracle := some "panic-in-instance-update" } else
      match fxTrace o sh {} xops with
      | none => bad "fault"
      | some (flags, disc) =>
        let m := if flags.isEmpty then "-" else ";".intercalate (flags.map fun b => if b then "e1" else "e0")
        match (if impl = "-" then some [] else (impl.splitOn ";").mapM parseFObs) with
        | none => { model := m, agree := false, oracle := some "unparsable-implementation-output" }
        | some obs =>
          let faults := xops.filterMap fun | .upd f => some f | _ => none
          let spurious := (obs.zip faults).any fun x => x.1.err && x.2 == ""
          -- a successful update that comes after a failed one: the case the plain C05 histories do not have
          let afterFault := ((obs.zip (List.range obs.length)).any fun x =>
            !x.1.err && (obs.take x.2).any (·.err))
          { model := m, agree := obs.map (·.err) == flags
            oracle := if spurious then some "update-without-fault-fails" else obs.findSome? fxClause
            -- or a history with an ssl-passthrough host (the counter of Hosts decides what haproxy.cfg holds)
            trivial := !disc || !(afterFault || xops.any fun | .ing _ _ t => t ≥ 8 | _ => false) }
  | _, _ => bad "args"

end HapVerif.C05F
