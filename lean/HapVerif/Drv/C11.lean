import HapVerif.Model.C11
import HapVerif.Drv.C02
import HapVerif.Drv.C11Sync
import HapVerif.Model.C11AuthP
namespace HapVerif.C11
open HapVerif.Drv HapVerif.C02

/-- `name~ip~port~E|D~weight`: a `server` line read back from the configuration files -/
def parseEP5 (s : String) : Option EP :=
  match s.splitOn "~" with
  | [n, ip, port, en, w] => do
    pure { name := unq n, ip := unq ip, port := ← port.toNat?, enabled := en = "E", weight := ← w.toInt?,
           cookie := "", label := "", tref := "", puid := 0 }
  | _ => none

def showEP5 (e : EP) : String :=
  "~".intercalate [q e.name, q e.ip, toString e.port, if e.enabled then "E" else "D", toString e.weight]

def showEPs5 (l : List EP) : String := if l.isEmpty then "-" else ",".intercalate (l.map showEP5)

def parseStep (s : String) : Option Step :=
  match s.splitOn ":" with
  | [o, rs] => do
    let recr ← (rs.splitOn "&").mapM fun t => if t = "." then some none else (parseList parseEP t).map some
    pure { recr := recr.map (·.map fresh), other := o = "1" }
  | _ => none

def showOut (reload : Bool) (ms : List Mid) (sys : Sys) : String :=
  (if reload then "1" else "0") ++ "/" ++ "&".intercalate (ms.map fun m => showCmds m.cmds) ++ "/" ++
    "&".intercalate (sys.map fun c => showEPs c.sb.back.eps) ++ "/" ++ "&".intercalate (sys.map fun c => showEPs5 (c.file.map proj))

def parseObs (t : String) : Option Obs :=
  match t.splitOn "/" with
  | [r, _, mem, file] => do
    if r ≠ "0" ∧ r ≠ "1" then none
    let m ← (mem.splitOn "&").mapM (parseList parseEP)
    let f ← (file.splitOn "&").mapM (parseList parseEP5)
    pure { reload := r = "1", mem := m, file := f }
  | _ => none

/-- `multi <shards> <shard of each backend> <flags;flags;…> <step|step|…>`, step = `<other>:<r>&<r>…`, r = `.`
(bystander) or the re-created endpoints; impl: per step `<reload>/<cmds>&…/<model eps>&…/<file eps>&…` joined by `;` -/
def handleMulti (shardsT shardOfT cfgT stepsTxt impl : String) : Verdict :=
  match shardsT.toNat?, (shardOfT.splitOn ".").mapM (·.toNat?), (cfgT.splitOn ";").mapM parseFlags,
        (stepsTxt.splitOn "|").mapM parseStep with
  | some shards, some shardOf, some fls, some (st0 :: steps) =>
    if shardOf.length ≠ fls.length ∨ st0.recr.length ≠ fls.length ∨ st0.recr.any (·.isNone) ∨
        steps.any (·.recr.length ≠ fls.length) then bad "multi-shape" else
    let cfg : List SB := (fls.zip shardOf).map fun (f, k) =>
      { back := { eps := [], dynUpdate := f.dyn, resolver := f.res, cookiePreserve := f.pres, initialWeight := f.iw },
        minFree := f.minfree, block := f.block, shard := k }
    let bs : List SB := (cfg.zip st0.recr).map fun (b, r) => { b with back := { b.back with eps := r.getD [] } }
    let s0 := boot bs
    let out0 := showOut true (s0.map fun c => { sb := c.sb, file := c.file, ok := false, cmds := [], flag := true }) s0
    let run := steps.foldl (fun (acc : Sys × List String × Bool) st =>
      let o := step .real (shards > 0) acc.1 st
      (o.sys, acc.2.1 ++ [showOut o.reload o.mids o.sys], acc.2.2 || o.mids.any (·.panic))) (s0, [out0], false)
    let mtxt := if run.2.2 then "PANIC" else ";".intercalate run.2.1
    -- the Spec on the implementation's own observations
    let obs := (impl.splitOn ";").map parseObs
    let verdict : Option String :=
      if impl = "PANIC" then some "panic" else
      if (impl.splitOn ";").any (·.startsWith "E/") then some "update-or-load-error" else
      if obs.length ≠ steps.length + 1 ∨ obs.any (·.isNone) then some "unparsable-implementation-output" else
      let os := obs.filterMap id
      (List.range os.length).findSome? fun i =>
        match os[i]? with
        | none => none
        | some o =>
          if i = 0 then stepOracle cfg none st0 o
          else stepOracle cfg os[i - 1]? (steps.getD (i - 1) { recr := [] }) o
    -- non-trivial: some update leaves a dynamic bystander alone
    let triv := !(steps.any fun st => st.recr.any (·.isNone) ∧ (st.other ∨ st.recr.any (·.isSome)))
    { model := mtxt, agree := mtxt = impl, oracle := verdict, trivial := triv }
  | _, _, _, _ => bad "multi-parse"

/-! ### `authp`: the auth proxy port allocator (Model/C11AuthP) against `Frontend.AcquireAuthBackendName` & co

`authp <lo> <hi> <op>,<op>,…` with op = `a<b>` (acquire backend b), `x<port>.<port>…` (RemoveAuthBackendExcept, the
names `_auth_<port>` in use), `t<b>.<b>…` (RemoveAuthBackendByTarget), `c` (Commit);
impl: per op `<answer>/<changed>/<port>:<back>+…` joined by `;` (answer = port, `full`, or `-`) -/
namespace AuthP
open HapVerif.C11AuthP

def parseNats (s : String) : Option (List Nat) := if s = "" then some [] else (s.splitOn ".").mapM (·.toNat?)

def parseOp (s : String) : Option Op :=
  if s = "c" then some .commit else
  match s.toList with
  | 'a' :: r => (String.ofList r).toNat?.map .acq
  | 'x' :: r => (parseNats (String.ofList r)).map .except
  | 't' :: r => (parseNats (String.ofList r)).map .target
  | _ => none

def parseBind (s : String) : Option Bind :=
  match s.splitOn ":" with
  | [p, b] => do pure { port := ← p.toNat?, back := ← b.toNat? }
  | _ => none

def showBinds (l : List Bind) : String :=
  if l.isEmpty then "-" else "+".intercalate (l.map fun x => toString x.port ++ ":" ++ toString x.back)

def showStep (ans : Option Nat) (isAcq : Bool) (f : Front) : String :=
  (match ans with | some p => toString p | none => if isAcq then "full" else "-") ++ "/" ++
    (if f.changed then "1" else "0") ++ "/" ++ showBinds f.binds

def parseObs (o : Op) (t : String) : Option HapVerif.C11AuthP.Obs :=
  match t.splitOn "/" with
  | [a, c, bs] => do
    if c ≠ "0" ∧ c ≠ "1" then none
    let binds ← if bs = "-" then some [] else parseList parseBind bs "+"
    let ans ← if a = "full" ∨ a = "-" then some none else a.toNat?.map some
    pure ({ op := o, ans := ans, binds := binds, changed := c = "1" } : HapVerif.C11AuthP.Obs)
  | _ => none

/-- an acquire of a backend whose bind sits behind an unused port of the range -/
def behindHole (lo : Nat) (before : List Bind) : Op → Bool
  | .acq b =>
    match before.find? (·.back = b) with
    | some x => (List.range (x.port - lo)).any fun k => !before.any (·.port = lo + k)
    | none => false
  | _ => false

def handle (loT hiT opsT impl : String) : Verdict :=
  match loT.toNat?, hiT.toNat?, parseList parseOp opsT with
  | some lo, some hi, some ops =>
    let run := ops.foldl (fun (acc : Front × List String × Bool) o =>
      let f := acc.1
      let (ans, f') : Option Nat × Front := match o with
        | .acq b => acquire f b
        | _ => (none, HapVerif.C11AuthP.step f o)
      (f', acc.2.1 ++ [showStep ans (match o with | .acq _ => true | _ => false) f'], acc.2.2 || behindHole lo f.binds o))
      (empty lo hi, [], false)
    let mtxt := ";".intercalate run.2.1
    let toks := impl.splitOn ";"
    let verdict : Option String :=
      if impl = "PANIC" then some "panic" else
      if toks.length ≠ ops.length then some "unparsable-implementation-output" else
      match (ops.zip toks).mapM fun (o, t) => parseObs o t with
      | none => some "unparsable-implementation-output"
      | some obs =>
        (obs.foldl (fun (acc : List Bind × Bool × Option String) o =>
          match acc.2.2 with
          | some c => (o.binds, o.changed, some c)
          | none => (o.binds, o.changed, opOracle lo hi acc.1 acc.2.1 o)) ([], false, none)).2.2
    { model := mtxt, agree := mtxt = impl, oracle := verdict, trivial := !run.2.2 }
  | _, _, _ => bad "authp-parse"

end AuthP

/-- `align <flags> <eps>` impl: `<eps after>`;  `fits <flags> <old> <cur>` and `noop <flags> <eps>`
impl: `<0|1> <cmds> <cur'>` -/
def handle (args : List String) (impl : String) : Verdict :=
  match args with
  | "world" :: ops => C11Sync.handleWorld ops impl
  | ["authp", lo, hi, ops] => AuthP.handle lo hi ops impl
  | ["align", fl, epss] =>
    match parseFlags fl, parseList parseEP epss, parseList parseEP impl with
    | some f, some eps, some after =>
      let b : Back := { eps := eps, dynUpdate := f.dyn, resolver := f.res, cookiePreserve := f.pres, initialWeight := f.iw }
      let m := (alignSlots b f.minfree f.block).eps
      { model := showEPs m, agree := m = after, oracle := alignOracle f.dyn eps after f.minfree f.block,
        trivial := after.length = eps.length }
    | _, _, _ => bad "parse"
  | ["multi", sh, so, cf, st] => handleMulti sh so cf st impl
  | ["hist", fl, _shards, stepsTxt] =>
    match parseFlags fl, (stepsTxt.splitOn "|").mapM (parseList parseEP) with
    | some f, some steps =>
      -- a converter names fresh endpoints srv001.. (sequence naming), cookie empty
      let srv (i : Nat) : String := let t := toString (i + 1); "srv" ++ String.ofList (List.replicate (3 - t.length) '0') ++ t
      let fresh (st : List EP) : List EP := (st.zip (List.range st.length)).map fun (e, i) => { e with name := srv i }
      let showStep (o : Outcome) : String := (if o.updated then "1" else "0") ++ "/" ++ showCmds o.cmds ++ "/" ++ showEPs o.cur
      -- model run
      let run := steps.foldl (fun (acc : List EP × Bool × List String) st =>
        let (state, committed, outs) := acc
        let cur := fresh st
        let o : Outcome :=
          if !committed then
            ⟨false, (alignSlots { eps := cur, dynUpdate := f.dyn, resolver := f.res, cookiePreserve := f.pres, initialWeight := f.iw } f.minfree f.block).eps, [], false⟩
          else if shrinks f.same state cur then ⟨true, state, [], false⟩
          else updateOne f state cur []
        (o.cur, true, outs ++ [showStep o])) ([], false, [])
      let mtxt := ";".intercalate run.2.2
      -- oracle on the implementation's own steps
      let implSteps := impl.splitOn ";"
      let parsed : List (Bool × List EP) := implSteps.filterMap fun t =>
        match t.splitOn "/" with
        | [u, _, eps] => (parseList parseEP eps).map fun l => (u = "1", l)
        | _ => none
      let real (l : List EP) := ((l.filter (·.enabled)).map fun e => (e.target, e.weight))
      let sameSet (a b : List (String × Int)) : Bool := a.all (b.contains ·) && b.all (a.contains ·)
      let verdict : Option String :=
        if impl = "PANIC" then some "panic" else
        if parsed.length ≠ steps.length then some "unparsable-implementation-output" else
        ((List.range steps.length).drop 1).findSome? fun i =>
          let prev := (parsed.getD (i - 1) (false, [])).2
          let now := parsed.getD i (false, [])
          let cur := steps.getD i []
          -- an update applied without reload must keep every slot (len_preserved): the slot budget that the
          -- last reload left is what later in-capacity changes rely on
          if now.1 then (if now.2.length < prev.length then some "slots-lost-without-reload" else none)
          else if sameSet (real prev) (cur.map fun e => (e.target, e.weight)) then some "reload-on-noop"
          else if f.dyn ∧ !f.res ∧ !f.pres ∧ f.same ∧ fits prev (fresh cur) then some "reload-although-fits"
          else none
      { model := mtxt, agree := mtxt = impl, oracle := verdict, trivial := steps.length < 3 }
    | _, _ => bad "parse"
  | [kind, fl, olds, curs] =>
    match parseFlags fl, parseList parseEP olds, parseList parseEP curs with
    | some f, some old, some cur =>
      let m := if shrinks f.same old cur then ⟨true, old, [], false⟩ else updateOne f old cur []
      let mtxt := if m.panic then "PANIC" else
        (if m.updated then "1" else "0") ++ " " ++ showCmds m.cmds ++ " " ++ showEPs m.cur
      let upd := impl.startsWith "1 "
      let orc : Option String :=
        if impl = "PANIC" then some "panic" else
        -- (preserved cookies are excluded by the property's quantifier: a rebuilt endpoint carries a new name-derived cookie)
        -- and so are blue/green label selectors (use-server rules need a reload)
        if kind = "noop" then (if upd ∨ f.pres ∨ old.any (·.label ≠ "") then none else some "reload-on-noop")
        else if f.dyn ∧ !f.res ∧ !f.pres ∧ f.same ∧ fits old cur then (if upd then none else some "reload-although-fits")
        else none
      { model := mtxt, agree := mtxt = impl, oracle := orc, trivial := !(fits old cur) }
    | _, _, _ => bad "parse"
  | _ => bad "C11"

end HapVerif.C11
