import HapVerif.Model.C11
import HapVerif.Drv.Common
namespace HapVerif.C11
open HapVerif.Drv

def handle (_args : List String) (_impl : String) : Verdict := bad "C11-not-implemented"

end HapVerif.C11
