import HapVerif.Model.C11
import HapVerif.Drv.C02
namespace HapVerif.C11
open HapVerif.Drv HapVerif.C02

/-- `align <flags> <eps>` impl: `<eps after>`;  `fits <flags> <old> <cur>` and `noop <flags> <eps>`
impl: `<0|1> <cmds> <cur'>` -/
def handle (args : List String) (impl : String) : Verdict :=
  match args with
  | ["align", fl, epss] =>
    match parseFlags fl, parseList parseEP epss, parseList parseEP impl with
    | some f, some eps, some after =>
      let b : Back := { eps := eps, dynUpdate := f.dyn, resolver := f.res, cookiePreserve := f.pres, initialWeight := f.iw }
      let m := (alignSlots b f.minfree f.block).eps
      { model := showEPs m, agree := m = after, oracle := alignOracle f.dyn eps after f.minfree f.block,
        trivial := after.length = eps.length }
    | _, _, _ => bad "parse"
  | ["hist", fl, _shards, stepsTxt] =>
    match parseFlags fl, (stepsTxt.splitOn "|").mapM (parseList parseEP) with
    | some f, some steps =>
      -- a converter names fresh endpoints srv001.. (sequence naming), cookie empty
      let srv (i : Nat) : String := let t := toString (i + 1); "srv" ++ String.ofList (List.replicate (3 - t.length) '0') ++ t
      let fresh (st : List EP) : List EP := (st.zip (List.range st.length)).map fun (e, i) => { e with name := srv i }
      let showStep (o : Outcome) : String := (if o.updated then "1" else "0") ++ "/" ++ showCmds o.cmds ++ "/" ++ showEPs o.cur
      -- model run
      let run := steps.foldl (fun (acc : List EP × Bool × List String) st =>
        let (state, committed, outs) := acc
        let cur := fresh st
        let o : Outcome :=
          if !committed then
            ⟨false, (alignSlots { eps := cur, dynUpdate := f.dyn, resolver := f.res, cookiePreserve := f.pres, initialWeight := f.iw } f.minfree f.block).eps, [], false⟩
          else if shrinks f.same state cur then ⟨true, state, [], false⟩
          else updateOne f state cur []
        (o.cur, true, outs ++ [showStep o])) ([], false, [])
      let mtxt := ";".intercalate run.2.2
      -- oracle on the implementation's own steps
      let implSteps := impl.splitOn ";"
      let parsed : List (Bool × List EP) := implSteps.filterMap fun t =>
        match t.splitOn "/" with
        | [u, _, eps] => (parseList parseEP eps).map fun l => (u = "1", l)
        | _ => none
      let real (l : List EP) := ((l.filter (·.enabled)).map fun e => (e.target, e.weight))
      let sameSet (a b : List (String × Int)) : Bool := a.all (b.contains ·) && b.all (a.contains ·)
      let verdict : Option String :=
        if impl = "PANIC" then some "panic" else
        if parsed.length ≠ steps.length then some "unparsable-implementation-output" else
        ((List.range steps.length).drop 1).findSome? fun i =>
          let prev := (parsed.getD (i - 1) (false, [])).2
          let now := parsed.getD i (false, [])
          let cur := steps.getD i []
          -- an update applied without reload must keep every slot (len_preserved): the slot budget that the
          -- last reload left is what later in-capacity changes rely on
          if now.1 then (if now.2.length < prev.length then some "slots-lost-without-reload" else none)
          else if sameSet (real prev) (cur.map fun e => (e.target, e.weight)) then some "reload-on-noop"
          else if f.dyn ∧ !f.res ∧ !f.pres ∧ f.same ∧ fits prev (fresh cur) then some "reload-although-fits"
          else none
      { model := mtxt, agree := mtxt = impl, oracle := verdict, trivial := steps.length < 3 }
    | _, _ => bad "parse"
  | [kind, fl, olds, curs] =>
    match parseFlags fl, parseList parseEP olds, parseList parseEP curs with
    | some f, some old, some cur =>
      let m := if shrinks f.same old cur then ⟨true, old, [], false⟩ else updateOne f old cur []
      let mtxt := if m.panic then "PANIC" else
        (if m.updated then "1" else "0") ++ " " ++ showCmds m.cmds ++ " " ++ showEPs m.cur
      let upd := impl.startsWith "1 "
      let orc : Option String :=
        if impl = "PANIC" then some "panic" else
        -- (preserved cookies are excluded by the property's quantifier: a rebuilt endpoint carries a new name-derived cookie)
        -- and so are blue/green label selectors (use-server rules need a reload)
        if kind = "noop" then (if upd ∨ f.pres ∨ old.any (·.label ≠ "") then none else some "reload-on-noop")
        else if f.dyn ∧ !f.res ∧ !f.pres ∧ f.same ∧ fits old cur then (if upd then none else some "reload-although-fits")
        else none
      { model := mtxt, agree := mtxt = impl, oracle := orc, trivial := !(fits old cur) }
    | _, _, _ => bad "parse"
  | _ => bad "C11"

end HapVerif.C11
