import HapVerif.Model.C11
import HapVerif.Drv.C02
namespace HapVerif.C11
open HapVerif.Drv HapVerif.C02

/-- `align <flags> <eps>` impl: `<eps after>`;  `fits <flags> <old> <cur>` and `noop <flags> <eps>`
impl: `<0|1> <cmds> <cur'>` -/
def handle (args : List String) (impl : String) : Verdict :=
  match args with
  | ["align", fl, epss] =>
    match parseFlags fl, parseList parseEP epss, parseList parseEP impl with
    | some f, some eps, some after =>
      let b : Back := { eps := eps, dynUpdate := f.dyn, resolver := f.res, cookiePreserve := f.pres, initialWeight := f.iw }
      let m := (alignSlots b f.minfree f.block).eps
      { model := showEPs m, agree := m = after, oracle := alignOracle f.dyn eps after f.minfree f.block,
        trivial := after.length = eps.length }
    | _, _, _ => bad "parse"
  | [kind, fl, olds, curs] =>
    match parseFlags fl, parseList parseEP olds, parseList parseEP curs with
    | some f, some old, some cur =>
      let m := if shrinks f.same old cur then ⟨true, old, [], false⟩ else updateOne f old cur []
      let mtxt := if m.panic then "PANIC" else
        (if m.updated then "1" else "0") ++ " " ++ showCmds m.cmds ++ " " ++ showEPs m.cur
      let upd := impl.startsWith "1 "
      let orc : Option String :=
        if impl = "PANIC" then some "panic" else
        -- (preserved cookies are excluded by the property's quantifier: a rebuilt endpoint carries a new name-derived cookie)
        -- and so are blue/green label selectors (use-server rules need a reload)
        if kind = "noop" then (if upd ∨ f.pres ∨ old.any (·.label ≠ "") then none else some "reload-on-noop")
        else if f.dyn ∧ !f.res ∧ !f.pres ∧ f.same ∧ fits old cur then (if upd then none else some "reload-although-fits")
        else none
      { model := mtxt, agree := mtxt = impl, oracle := orc, trivial := !(fits old cur) }
    | _, _, _ => bad "parse"
  | _ => bad "C11"

end HapVerif.C11
