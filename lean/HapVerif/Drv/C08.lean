import HapVerif.Model.C08
import HapVerif.Drv.Common
namespace HapVerif.C08
open HapVerif.Drv

/-! Line protocol (harness/c08class/c08_test.go)

    C08 valid <wp> <ann> <cls>                         => <v><g><l>
    C08 ev    <wp> c <ann>/<cls>                        => <acts>
    C08 ev    <wp> d <ann>/<cls>                        => <acts>
    C08 ev    <wp> u <ann>/<cls> <ann>/<cls> <touch>    => <acts>
    C08 hist  <wp> <op,op,...>                          => <a a a ...> (one letter per op)
    C08 world <wp> <op,op,...>                          => <0|1 per op>
    C08 list  <wp> <ann>/<cls>,<ann>/<cls>,... <order>  => <ids>   (answer of GetIngressList)
    C08 lsync <wp> <op,op,...>                          => <bits>/<bits>/... (one group per op)

  list:  the cluster holds ingresses 0..n-1 with the given class states, the client lists them in
         <order> (digits, e.g. `201`; ingresses not named follow in index order); <ids> = the indexes
         of the returned ingresses, `,`-joined in answer order, `-` = none
  lsync: several ingresses through real watchers + real converters, one reconciliation per op; ops as
         in `hist` (`c<i>:<ann>/<cls>`, `u<i>:<ann>/<cls>:<touch>`, `d<i>`) plus `F<order>` = a
         reconciliation that asks for a FULL sync while the client lists in <order>; one bit per
         ingress 0..N-1 after each op: its host is in the haproxy model

  <wp>    two digits: watch-ingress-without-class, ingress-class-precedence
  <ann>   `-` absent, `o` the controller's class, `f` `f1` `f2` other values ("nginx", "", "HAProxy")
  <cls>   `-` nil, `o` class of ours, `f` class of another controller, `d` `d1` no such class ("missing", "")
  <touch> `0` nothing else differs, `a` another annotation, `s` the rest of the spec, `m` labels only
  <acts>  `-` or `+`-joined subset of `A:n` `A:o` `U:n` `U:o` `D:n` `D:o` (list : which object)
-/

def parseCfg (s : String) : Option Cfg :=
  match s.toList with
  | [w, p] => if (w == '0' || w == '1') && (p == '0' || p == '1') then some { watch := w == '1', prec := p == '1' } else none
  | _ => none

def parseAnn : String → Option Ann
  | "-" => some .absent
  | "o" => some .ours
  | "f" => some .foreign
  | "f1" => some .foreign
  | "f2" => some .foreign
  | _ => none

def parseCls : String → Option Cls
  | "-" => some .absent
  | "o" => some .ours
  | "o1" => some .ours        -- a class of ours that is being deleted (deletionTimestamp + finalizer): it still exists
  | "f" => some .foreign
  | "f3" => some .foreign     -- a foreign class that is being deleted
  | "d" => some .dangling
  | "d1" => some .dangling
  | _ => none

def parseAC (s : String) : Option (Ann × Cls) :=
  match s.splitOn "/" with
  | [a, c] => do pure (← parseAnn a, ← parseCls c)
  | _ => none

/-- the value variants (`f` `f1` `f2`, `d` `d1`) are the same abstract value but different
strings: moving between them changes the annotation map / the spec.  They are folded into the
low two bits of the fingerprints; a touch adds 4. -/
def variant : String → Nat
  | "f1" => 1
  | "d1" => 1
  | "f2" => 2
  | "o1" => 3
  | "f3" => 3
  | _ => 0

def parseObj (s : String) : Option Obj :=
  match s.splitOn "/" with
  | [a, c] => do pure { ann := ← parseAnn a, cls := ← parseCls c, annRest := variant a, specRest := variant c }
  | _ => none

/-- the object after an update to `s`, keeping the touch counters of `o` -/
def parseObjOver (o : Obj) (s : String) : Option Obj := do
  let n ← parseObj s
  pure { n with annRest := o.annRest / 4 * 4 + n.annRest, specRest := o.specRest / 4 * 4 + n.specRest, metaRest := o.metaRest }

def bit (b : Bool) : String := if b then "1" else "0"

def touched (o : Obj) : String → Option Obj
  | "0" => some o
  | "a" => some { o with annRest := o.annRest + 4 }
  | "s" => some { o with specRest := o.specRest + 4 }
  | "m" => some { o with metaRest := o.metaRest + 4 }
  | _ => none

def showAct : Act → String
  | .add => "A:n"
  | .upd => "U:n"
  | .del => "D:o"
  | .none => "-"

def parseActs : String → Option Act
  | "A:n" => some .add
  | "U:n" => some .upd
  | "D:o" => some .del
  | "-" => some .none
  | _ => none

def letter : Act → Char
  | .add => 'A' | .upd => 'U' | .del => 'D' | .none => '-'

def ofLetter : Char → Option Act
  | 'A' => some .add | 'U' => some .upd | 'D' => some .del | '-' => some .none | _ => none

/-- history ops: `c<i>:<ann>/<cls>`, `u<i>:<ann>/<cls>:<touch>`, `d<i>`.  The update keeps the
fingerprints of the stored object and bumps the touched one. -/
inductive HOp
  | create (i : Nat) (ac : String)
  | update (i : Nat) (ac : String) (t : String)
  | delete (i : Nat)

def parseHOp (s : String) : Option HOp :=
  match s.splitOn ":" with
  | [h] =>
    if h.startsWith "d" then (h.drop 1).toNat?.map HOp.delete else none
  | [h, ac] =>
    if h.startsWith "c" then do
      let i ← (h.drop 1).toNat?
      let _ ← parseAC ac
      pure (.create i ac)
    else none
  | [h, ac, t] =>
    if h.startsWith "u" then do
      let i ← (h.drop 1).toNat?
      let _ ← parseAC ac
      pure (.update i ac t)
    else none
  | _ => none

def toOp (s : St) : HOp → Option Op
  | .create i ac => (parseObj ac).map (Op.create i)
  | .delete i => some (.delete i)
  | .update i ac t =>
    match s.world i with
    | none => (parseObj ac).map (Op.update i)
    | some o => (parseObjOver o ac).bind fun n => (touched n t).map (Op.update i)

/-- runs the model over a history; returns the per-op actions and the final state -/
def runHist (cfg : Cfg) (ops : List HOp) : Option (List Act × St) :=
  ops.foldlM (fun (acc : List Act × St) h => do
    let op ← toOp acc.2 h
    let act := match eventOf acc.2 op with
      | some (_, ev) => classify cfg ev
      | none => .none
    pure (acc.1 ++ [act], step cfg acc.2 op)) ([], St.init)

/-- the configured set according to the IMPLEMENTATION's actions -/
def foldImpl (ops : List HOp) (acts : List Act) : Nat → Bool :=
  (ops.zip acts).foldl (fun c (h, a) =>
    let i := match h with | .create i _ => i | .update i _ _ => i | .delete i => i
    applyAct c i a) (fun _ => false)

def parseOp2 (s : String) : Option Op2 :=
  let ann2 (x : String) : Option Ing2 :=
    match x.splitOn "/" with
    | [a, r] => do
      let a ← parseAnn a
      if r = "r" then pure ⟨a, true⟩ else if r = "-" then pure ⟨a, false⟩ else none
    | _ => none
  match s.splitOn ":" with
  | ["id"] => some .ingDelete
  | ["ic", x] => (ann2 x).map .ingCreate
  | ["iu", x] => (ann2 x).map .ingUpdate
  | ["k", "n"] => some (.classSet .none)
  | ["k", "o"] => some (.classSet .ours)
  | ["k", "f"] => some (.classSet .foreign)
  | _ => none

/-- the annotation as the harness writes it (harness/c08class annValue): (value, present) -/
def annRaw : String → Option (String × Bool)
  | "-" => some ("", false)
  | "o" => some ("haproxy", true)
  | "f" => some ("nginx", true)
  | "f1" => some ("", true)
  | "f2" => some ("HAProxy", true)
  | _ => none

/-- `config.IngressClass` of the harness (xnsworld.IngressClass) -/
def ingressClass : String := "haproxy"

/-- an item of a `list` case: the annotation goes through the RAW lookup pair -/
def parseObjRaw (s : String) : Option (Obj × (String × Bool)) :=
  match s.splitOn "/" with
  | [a, c] => do
    let r ← annRaw a
    pure ({ ann := absOf ingressClass r, cls := ← parseCls c, annRest := variant a, specRest := variant c }, r)
  | _ => none

def digits (s : String) : Option (List Nat) :=
  s.toList.mapM fun ch => if ch.isDigit then some (ch.toNat - '0'.toNat) else none

/-- the order the client lists in: the named ingresses first (first occurrence), the others after
them in index order — what the harness' ordering client does -/
def fullOrder (n : Nat) (order : List Nat) : List Nat :=
  (order.eraseDups.filter (· < n)) ++ (List.range n).filter (fun i => !order.contains i)

def showIds (l : List Nat) : String :=
  if l.isEmpty then "-" else ",".intercalate (l.map toString)

def parseIds (s : String) : Option (List Nat) :=
  if s = "-" then some [] else (s.splitOn ",").mapM (·.toNat?)

inductive LOp
  | h (o : HOp)
  | full (order : List Nat)

def parseLOp (s : String) : Option LOp :=
  if s.startsWith "F" then (digits (s.drop 1).toString).map LOp.full else (parseHOp s).map LOp.h

def LOp.maxIdx : LOp → Nat
  | .h (.create i _) => i
  | .h (.update i _ _) => i
  | .h (.delete i) => i
  | .full _ => 0

def bitsOf (n : Nat) (f : Nat → Bool) : String := String.ofList ((List.range n).map fun i => if f i then '1' else '0')

/-- runs the model over an `lsync` history: per op the configured bits, the selected bits (the
rule on the API objects after the op) and whether the reconciliation was a full sync -/
def runLSync (cfg : Cfg) (n : Nat) (ops : List LOp) : Option (List (String × (Nat → Bool) × Bool)) :=
  (·.1) <$> ops.foldlM (fun (acc : List (String × (Nat → Bool) × Bool) × StF) lop => do
    let (s', full) ← match lop with
      | .h hop => do
        let op ← toOp acc.2.st hop
        pure (stepF cfg acc.2 (.op op), false)
      | .full order => pure (stepF cfg acc.2 (.full order), true)
    let w := s'.st.world
    let sel : Nat → Bool := fun i => match w i with | some o => o.selected cfg | none => false
    pure (acc.1 ++ [(bitsOf n s'.st.contrib, sel, full)], s')) ([], {})

def handle (args : List String) (impl : String) : Verdict :=
  match args with
  | ["list", wp, itemsS, orderS] =>
    match parseCfg wp, parseList parseObjRaw itemsS, digits orderS with
    | some cfg, some items, some order =>
      let l := items.map (·.1)
      let n := l.length
      -- the abstraction and the raw transcription must give the same verdict (Props/C08List raw_eq_abs)
      let rawOk := items.all fun x => isValidRaw cfg ingressClass x.2 x.1.cls == x.1.valid cfg
      let m := listed cfg (worldOf l) (fullOrder n order)
      match parseIds impl with
      | some ids =>
        { model := showIds m, agree := rawOk && ids = m, oracle := oracleList cfg l ids, trivial := n < 2 }
      | none => { model := showIds m, agree := false, oracle := some "list-answer-unreadable" }
    | _, _, _ => bad "list-parse"
  | ["lsync", wp, opsS] =>
    match parseCfg wp, parseList parseLOp opsS with
    | some cfg, some ops =>
      let n := (ops.map LOp.maxIdx).foldl max 0 + 1
      match runLSync cfg n ops with
      | none => bad "lsync-touch"
      | some steps =>
        let m := "/".intercalate (steps.map (·.1))
        let groups := impl.splitOn "/"
        let verdict : Option String :=
          if groups.length ≠ steps.length then some "lsync-length" else
          (steps.zip groups).foldl (fun r (st, g) =>
            match r with
            | some e => some e
            | none =>
              let gl := g.toList
              if gl.length ≠ n then some "lsync-length" else
              oracleSync n st.2.2 (fun i => gl.getD i '0' == '1') st.2.1) none
        { model := m, agree := m = impl, oracle := verdict,
          trivial := n < 2 || !(ops.any fun o => match o with | .full _ => true | _ => false) }
    | _, _ => bad "lsync-parse"
  | ["valid", wp, a, c] =>
    match parseCfg wp, parseAnn a, parseCls c, impl.toList with
    | some cfg, some a, some c, [v, g, l] =>
      let m := isValidIngress cfg a c
      let b (x : Char) := x == '1'
      { model := bit m ++ bit m ++ bit m,
        agree := b v == m && b g == m && b l == m && [v, g, l].all (fun x => x == '0' || x == '1'),
        oracle := oracleValid cfg a c (b v) (b g) (b l),
        trivial := a == .absent && c == .absent }
    | _, _, _, _ => bad "valid-parse"
  | ["ev", wp, "c", ac] =>
    match parseCfg wp, parseAC ac with
    | some cfg, some (a, c) =>
      let ev := Ev.create { ann := a, cls := c }
      let m := classify cfg ev
      { model := showAct m, agree := impl = showAct m,
        oracle := match parseActs impl with
          | some act => oracleEvent cfg ev act
          | none => some "event-in-several-lists" }
    | _, _ => bad "ev-parse"
  | ["ev", wp, "d", ac] =>
    match parseCfg wp, parseAC ac with
    | some cfg, some (a, c) =>
      let ev := Ev.delete { ann := a, cls := c }
      let m := classify cfg ev
      { model := showAct m, agree := impl = showAct m,
        oracle := match parseActs impl with
          | some act => oracleEvent cfg ev act
          | none => some "event-in-several-lists" }
    | _, _ => bad "ev-parse"
  | ["ev", wp, "u", ac1, ac2, t] =>
    match parseCfg wp, parseObj ac1, (parseObj ac1).bind (parseObjOver · ac2) with
    | some cfg, some o, some n0 =>
      match touched n0 t with
      | none => bad "touch"
      | some n =>
        let ev := Ev.update o n
        let m := classify cfg ev
        { model := showAct m, agree := impl = showAct m,
          oracle := match parseActs impl with
            | some act => oracleEvent cfg ev act
            | none => some "event-in-several-lists",
          trivial := ac1 == ac2 && t == "0" }
    | _, _, _ => bad "ev-parse"
  | ["hist", wp, opsS] =>
    match parseCfg wp, parseList parseHOp opsS, impl.toList.mapM ofLetter with
    | some cfg, some ops, some acts =>
      match runHist cfg ops with
      | none => bad "hist-touch"
      | some (macts, st) =>
        let conf := foldImpl ops acts
        let ok := (List.range 4).all fun i =>
          conf i == (match st.world i with | some o => o.selected cfg | none => false)
        { model := String.ofList (macts.map letter),
          agree := macts = acts,
          oracle := if acts.length ≠ ops.length then some "hist-length"
                    else if ok then none else some "configured-ne-selected",
          trivial := ops.length < 2 }
    | _, _, _ => bad "hist-parse"
  | ["world", wpShape, opsS] =>
    -- `<wp>[:<shape>]`: the shape of the ingress (rule / defaultBackend only / tls only) does not enter the Spec
    let wp := (wpShape.splitOn ":").headD ""
    match parseCfg wp, parseList parseOp2 opsS with
    | some cfg, some ops =>
      -- states after each op
      let sts := (ops.foldl (fun (acc : List St2 × St2) op =>
        let s := step2 cfg true acc.2 op
        (acc.1 ++ [s], s)) ([], {})).1
      let m := String.ofList (sts.map fun s => if s.contrib then '1' else '0')
      let flags := impl.toList
      let verdict : Option String :=
        if flags.length ≠ sts.length then some "world-length" else
        (sts.zip flags).foldl (fun r (s, f) =>
          match r with
          | some e => some e
          | none =>
            let sel := selectedNow cfg s
            if sel && f == '0' then some "selected-ingress-not-configured"
            else if !sel && f == '1' then some "unselected-ingress-configured"
            else none) none
      { model := m, agree := m = impl, oracle := verdict, trivial := ops.length < 2 }
    | _, _ => bad "world-parse"
  | _ => bad "C08"

end HapVerif.C08
