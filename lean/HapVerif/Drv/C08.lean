import HapVerif.Model.C08
import HapVerif.Drv.Common
namespace HapVerif.C08
open HapVerif.Drv

def handle (_args : List String) (_impl : String) : Verdict := bad "C08-not-implemented"

end HapVerif.C08
