import HapVerif.Model.C02
import HapVerif.Drv.Common
import HapVerif.Drv.C02Sock
namespace HapVerif.C02
open HapVerif.Drv

def unq (s : String) : String := if s = "_" then "" else s
def q (s : String) : String := if s = "" then "_" else s

def parseEP (s : String) : Option EP :=
  match s.splitOn "~" with
  | [n, ip, port, en, w, ck, lb, rf, pu] => do
    pure { name := unq n, ip := unq ip, port := ← port.toNat?, enabled := en = "E", weight := ← w.toInt?,
           cookie := unq ck, label := unq lb, tref := unq rf, puid := ← pu.toNat? }
  | _ => none

def showEP (e : EP) : String :=
  "~".intercalate [q e.name, q e.ip, toString e.port, if e.enabled then "E" else "D", toString e.weight,
    q e.cookie, q e.label, q e.tref, toString e.puid]

def showEPs (l : List EP) : String := if l.isEmpty then "-" else ",".intercalate (l.map showEP)

def respOf (c : Char) : String :=
  match c with
  | 'o' => ""
  | 'i' => "IP changed from '10.0.0.1' to '10.0.0.2', no need to change port"
  | 'n' => "no need to change the addr"
  | 'x' => "No such server."
  | 's' => " IP changed from '10.0.0.1'"
  | 'u' => "ip changed from '10.0.0.1'"
  | _ => "?"

def parseResp (s : String) : Option Resp :=
  if s = "E" then some .err else some (.msgs (s.toList.map respOf))

def showCmd : Cmd → String
  | .disable n => "D!" ++ n
  | .enable n ip p w => "E!" ++ n ++ "!" ++ ip ++ "!" ++ toString p ++ "!" ++ toString w ++ "!" ++ (if w > 0 then "ready" else "drain")

def showCmds (l : List Cmd) : String := if l.isEmpty then "-" else ",".intercalate (l.map showCmd)

def parseCmd (s : String) : Option Cmd :=
  match s.splitOn "!" with
  | ["D", n] => some (.disable n)
  | ["E", n, ip, p, w, st] => do
    let w ← w.toInt?
    -- the state token must be the one the weight implies, otherwise it is not a command of the model
    if st = (if w > 0 then "ready" else "drain") then pure (.enable n ip (← p.toNat?) w) else none
  | _ => none

structure Flags where
  dyn : Bool := true
  res : Bool := false
  pres : Bool := false
  same : Bool := true
  minfree : Nat := 0
  block : Nat := 1
  iw : Int := 1
  aff : Bool := false     -- cookie affinity: server lines carry `cookie <value>`

def parseFlags (s : String) : Option Flags :=
  (s.splitOn ",").foldlM (fun (f : Flags) kv =>
    match kv.splitOn "=" with
    | ["dyn", v] => some { f with dyn := v = "1" }
    | ["res", v] => some { f with res := v = "1" }
    | ["pres", v] => some { f with pres := v = "1" }
    | ["same", v] => some { f with same := v = "1" }
    | ["minfree", v] => v.toNat?.map fun n => { f with minfree := n }
    | ["block", v] => v.toNat?.map fun n => { f with block := n }
    | ["iw", v] => v.toInt?.map fun n => { f with iw := n }
    -- cookie affinity: not read by the dynamic update (only Preserve is); decides whether cookies are rendered
    | ["aff", v] => some { f with aff := v = "1" }
    -- how the generator chose the cookie values (server-name / pod-uid): information only
    | ["strat", _] => some f
    | _ => none) {}


def showState : SState → String
  | .ready => "ready"
  | .drain => "drain"
  | .maint => "maint"

/-- one row of the running table: `name~ip~port~state~weight~cookie` -/
def showSrvC (s : SrvC) : String :=
  "~".intercalate [q s.srv.name, q s.srv.ip, toString s.srv.port, showState s.srv.state, toString s.srv.weight, q s.cookie]

def showTable (t : List SrvC) : String := if t.isEmpty then "-" else ",".intercalate (t.map showSrvC)

/-- the table of the harness' simulated HAProxy: loaded from the old server lines (cookie rendered iff affinity),
every exec applied unless the socket failed (`E`) -/
def runTable (aff : Bool) (old : List EP) (cmds : List Cmd) (script : List Resp) : List SrvC :=
  (cmds.zip (List.range cmds.length)).foldl
    (fun t ci => if script[ci.2]? = some Resp.err then t else applyCmdC t ci.1) (loadC aff old)

/-- `(name, in maintenance, cookie)` of one row of the implementation's running table -/
def parseRunRow (s : String) : Option (String × Bool × String) :=
  match s.splitOn "~" with
  | [n, _, _, st, _, ck] => some (unq n, st = "maint", unq ck)
  | _ => none

/-- the whole `dynUpdater.update()` for a single changed backend: pair check, then `alignSlots`
when a reload is needed -/
def updateOne (f : Flags) (old cur : List EP) (script : List Resp) : Outcome :=
  let ob : Back := { eps := old, dynUpdate := f.dyn, resolver := f.res, cookiePreserve := f.pres, initialWeight := f.iw }
  let cb : Back := { ob with eps := cur }
  let o := checkBackendPair ob cb f.same script
  if o.panic || o.updated then o
  else { o with cur := (alignSlots { cb with eps := o.cur } f.minfree f.block).eps }


/-! ### history mode: one step = `<reload|dyn|err>[:diff:…][:crtdiff:…]{;K<backend>!<preserve>!<srv>~<state>~<running cookie>~<disk cookie>+…}` -/

structure CkRow where
  be : String
  pres : Bool
  srv : String
  maint : Bool
  run : String
  disk : String

def parseCkRows (entry : String) : List CkRow :=
  match (entry.drop 1).toString.splitOn "!" with
  | [be, p, rows] =>
    (rows.splitOn "+").filterMap fun r =>
      match r.splitOn "~" with
      | [n, st, run, disk] => some { be := be, pres := p = "1", srv := n, maint := st = "maint", run := run, disk := disk }
      | _ => none
  | _ => []

/-- the cookie clauses on one step, for the backends that render and preserve cookies: a server that is not in
maintenance holds another cookie than the one on its server line (`running-cookie-differs-from-disk`); a free slot
does (`free-slot-cookie-differs-from-disk`: nothing observable yet, but the preserve guard of the next update
compares with the written value — the defect repaired by 91faf0b).  `history_sound_cookie` says: never. -/
def stepCookieSig (cur : List CkRow) : Option String :=
  let bad := cur.filter fun r => r.pres && r.run != "?" && r.disk != "?" && r.run != r.disk
  if bad.any (fun r => !r.maint) then some "running-cookie-differs-from-disk"
  else if bad.isEmpty then none
  else some "free-slot-cookie-differs-from-disk"

def histOracle (steps : List String) : Option String :=
  (steps.foldl (fun (acc : List CkRow × Option String) st =>
    match acc.2 with
    | some _ => acc
    | none =>
      let parts := st.splitOn ";"
      let head := parts.headD ""
      let rows := (parts.drop 1).flatMap parseCkRows
      let sig : Option String :=
        if (head.splitOn ":crtdiff:").length > 1 then some "certificate-differs-from-disk"
        else if (head.splitOn ":").length > 1 then some "running-differs-from-disk-after-update"
        else stepCookieSig rows
      (rows, sig)) ([], none)).2

/-- `pair <flags> <old> <cur> <script>`; impl: `<0|1> <cmds> <cur'> <running table>` or `PANIC` -/
def handle (args : List String) (impl : String) : Verdict :=
  match args with
  | "sock" :: _faults :: ops =>
    -- real socket clients against worker generations behind real unix sockets (Drv/C02Sock.lean)
    C02Sock.handleSock ops impl
  | "hist" :: _faults :: ops =>
    -- end-to-end form: the theorems (pair_sound lifted over histories: every step is a reload, which
    -- loads the files, or a pair update, which keeps running = disk; history_sound_cookie for the cookie of every
    -- server) predict "no difference, ever"
    let skip := impl.startsWith "skip:"
    let sig := histOracle (impl.splitOn ",")
    { model := "all-steps-equal", agree := skip || (sig.isNone && !impl.startsWith "panic"),
      oracle := if skip then none else if impl.startsWith "panic" then some "panic" else sig,
      trivial := ops.length < 6 }
  | ["pair", fl, olds, curs, sc] =>
    match parseFlags fl, parseList parseEP olds, parseList parseEP curs, parseList parseResp sc with
    | some f, some old, some cur, some script =>
      let m := updateOne f old cur script
      let mtxt := if m.panic then "PANIC" else
        (if m.updated then "1" else "0") ++ " " ++ showCmds m.cmds ++ " " ++ showEPs m.cur ++ " " ++
          showTable (runTable f.aff old m.cmds script)
      let ob : Back := { eps := old, dynUpdate := f.dyn, resolver := f.res, cookiePreserve := f.pres, initialWeight := f.iw }
      -- oracle on the implementation's outcome
      let io : Option (Outcome × List (String × Bool × String)) :=
        if impl = "PANIC" then some (⟨false, [], [], true⟩, []) else
        match impl.splitOn " " with
        | [u, cs, eps, run] => do
          pure (⟨u = "1", ← parseList parseEP eps, ← parseList parseCmd cs, false⟩, ← parseList parseRunRow run)
        | _ => none
      match io with
      | none => { model := mtxt, agree := false, oracle := some "unparsable-implementation-output" }
      | some (o, run) =>
        -- responses consumed by the implementation = first |cmds| entries of the script
        let used := script.take o.cmds.length
        let ck := cookieScope f.aff f.pres
        -- Spec with the cookie column on the implementation's commands and endpoints, then the same clause on the
        -- table its simulated HAProxy reports
        let orc := match oracleC ck ob (used.all (·.ok)) o with
          | some c => some c
          | none => if o.updated && !f.res && runRowsDiffer ck run o.cur then some "running-cookie-differs-from-disk" else none
        { model := mtxt, agree := mtxt = impl, oracle := orc, trivial := o.cmds.isEmpty }
    | _, _, _, _ => bad "parse"
  | _ => bad "C02"

end HapVerif.C02
