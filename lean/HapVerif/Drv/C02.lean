import HapVerif.Model.C02
import HapVerif.Drv.Common
namespace HapVerif.C02
open HapVerif.Drv

def handle (_args : List String) (_impl : String) : Verdict := bad "C02-not-implemented"

end HapVerif.C02
