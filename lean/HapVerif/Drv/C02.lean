import HapVerif.Model.C02
import HapVerif.Drv.Common
namespace HapVerif.C02
open HapVerif.Drv

def unq (s : String) : String := if s = "_" then "" else s
def q (s : String) : String := if s = "" then "_" else s

def parseEP (s : String) : Option EP :=
  match s.splitOn "~" with
  | [n, ip, port, en, w, ck, lb, rf, pu] => do
    pure { name := unq n, ip := unq ip, port := ← port.toNat?, enabled := en = "E", weight := ← w.toInt?,
           cookie := unq ck, label := unq lb, tref := unq rf, puid := ← pu.toNat? }
  | _ => none

def showEP (e : EP) : String :=
  "~".intercalate [q e.name, q e.ip, toString e.port, if e.enabled then "E" else "D", toString e.weight,
    q e.cookie, q e.label, q e.tref, toString e.puid]

def showEPs (l : List EP) : String := if l.isEmpty then "-" else ",".intercalate (l.map showEP)

def respOf (c : Char) : String :=
  match c with
  | 'o' => ""
  | 'i' => "IP changed from '10.0.0.1' to '10.0.0.2', no need to change port"
  | 'n' => "no need to change the addr"
  | 'x' => "No such server."
  | 's' => " IP changed from '10.0.0.1'"
  | 'u' => "ip changed from '10.0.0.1'"
  | _ => "?"

def parseResp (s : String) : Option Resp :=
  if s = "E" then some .err else some (.msgs (s.toList.map respOf))

def showCmd : Cmd → String
  | .disable n => "D!" ++ n
  | .enable n ip p w => "E!" ++ n ++ "!" ++ ip ++ "!" ++ toString p ++ "!" ++ toString w ++ "!" ++ (if w > 0 then "ready" else "drain")

def showCmds (l : List Cmd) : String := if l.isEmpty then "-" else ",".intercalate (l.map showCmd)

def parseCmd (s : String) : Option Cmd :=
  match s.splitOn "!" with
  | ["D", n] => some (.disable n)
  | ["E", n, ip, p, w, st] => do
    let w ← w.toInt?
    -- the state token must be the one the weight implies, otherwise it is not a command of the model
    if st = (if w > 0 then "ready" else "drain") then pure (.enable n ip (← p.toNat?) w) else none
  | _ => none

structure Flags where
  dyn : Bool := true
  res : Bool := false
  pres : Bool := false
  same : Bool := true
  minfree : Nat := 0
  block : Nat := 1
  iw : Int := 1

def parseFlags (s : String) : Option Flags :=
  (s.splitOn ",").foldlM (fun (f : Flags) kv =>
    match kv.splitOn "=" with
    | ["dyn", v] => some { f with dyn := v = "1" }
    | ["res", v] => some { f with res := v = "1" }
    | ["pres", v] => some { f with pres := v = "1" }
    | ["same", v] => some { f with same := v = "1" }
    | ["minfree", v] => v.toNat?.map fun n => { f with minfree := n }
    | ["block", v] => v.toNat?.map fun n => { f with block := n }
    | ["iw", v] => v.toInt?.map fun n => { f with iw := n }
    -- cookie affinity without `session-cookie-preserve`: not read by the dynamic update (only Preserve is)
    | ["aff", _] => some f
    | _ => none) {}

/-- the whole `dynUpdater.update()` for a single changed backend: pair check, then `alignSlots`
when a reload is needed -/
def updateOne (f : Flags) (old cur : List EP) (script : List Resp) : Outcome :=
  let ob : Back := { eps := old, dynUpdate := f.dyn, resolver := f.res, cookiePreserve := f.pres, initialWeight := f.iw }
  let cb : Back := { ob with eps := cur }
  let o := checkBackendPair ob cb f.same script
  if o.panic || o.updated then o
  else { o with cur := (alignSlots { cb with eps := o.cur } f.minfree f.block).eps }

/-- `pair <flags> <old> <cur> <script>`; impl: `<0|1> <cmds> <cur'>` or `PANIC` -/
def handle (args : List String) (impl : String) : Verdict :=
  match args with
  | "hist" :: _faults :: ops =>
    -- end-to-end form: the theorems (pair_sound lifted over histories: every step is a reload, which
    -- loads the files, or a pair update, which keeps running = disk) predict "no difference, ever"
    let steps := impl.splitOn ","
    let bad := steps.find? fun st => (st.splitOn ":").length > 1
    let sig : Option String := bad.map fun st =>
      if (st.splitOn ":crtdiff:").length > 1 then "certificate-differs-from-disk"
      else "running-differs-from-disk-after-update"
    let skip := impl.startsWith "skip:"
    { model := "all-steps-equal", agree := skip || (bad.isNone && !impl.startsWith "panic"),
      oracle := if skip then none else if impl.startsWith "panic" then some "panic" else sig,
      trivial := ops.length < 6 }
  | ["pair", fl, olds, curs, sc] =>
    match parseFlags fl, parseList parseEP olds, parseList parseEP curs, parseList parseResp sc with
    | some f, some old, some cur, some script =>
      let m := updateOne f old cur script
      let mtxt := if m.panic then "PANIC" else
        (if m.updated then "1" else "0") ++ " " ++ showCmds m.cmds ++ " " ++ showEPs m.cur
      let ob : Back := { eps := old, dynUpdate := f.dyn, resolver := f.res, cookiePreserve := f.pres, initialWeight := f.iw }
      -- oracle on the implementation's outcome
      let io : Option Outcome :=
        if impl = "PANIC" then some ⟨false, [], [], true⟩ else
        match impl.splitOn " " with
        | [u, cs, eps] => do
          pure ⟨u = "1", ← parseList parseEP eps, ← parseList parseCmd cs, false⟩
        | _ => none
      match io with
      | none => { model := mtxt, agree := false, oracle := some "unparsable-implementation-output" }
      | some o =>
        -- responses consumed by the implementation = first |cmds| entries of the script
        let used := script.take o.cmds.length
        { model := mtxt, agree := mtxt = impl, oracle := oracle ob (used.all (·.ok)) o,
          trivial := o.cmds.isEmpty }
    | _, _, _, _ => bad "parse"
  | _ => bad "C02"

end HapVerif.C02
