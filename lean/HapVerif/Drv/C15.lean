import HapVerif.Model.C15
import HapVerif.Drv.C03
/-!
Driver of C15.  `C15 world <ops...> => <sni>=<crt>,...` and `C15 hist <ops with sync> => <sni>=<disk>|<running>,...`;
`<crt>` = `default` | `ns/name@version` | `-` (no such file / not loaded) | `?hash` (unknown content).
The model of a history is the full sync of its final cluster state.
-/
namespace HapVerif.C15
open HapVerif.Drv HapVerif.Sync HapVerif.Sync.Parse
open HapVerif.C04 (Str)

def showCrt : Crt → String
  | .dflt => "default"
  | .secret ns n v => String.ofList ns ++ "/" ++ String.ofList n ++ "@" ++ toString v

def parseCrt (s : Str) : Option Crt :=
  if s = "default".toList then some .dflt else
  match split1 '@' s with
  | (k, some v) =>
    if isDigits v then (let (ns, n) := splitKey k; some (.secret ns n (atoi v))) else none
  | _ => none

/-- `sni=disk` or `sni=disk|running`; a certificate text that is not understood is kept as `none` -/
def parseItem (s : Str) : Option (Str × Option Crt × Option (Option Crt)) :=
  match split1 '=' s with
  | (sni, some rhs) =>
    match split1 '|' rhs with
    | (d, none) => some (sni, parseCrt d, none)
    | (d, some r) => some (sni, parseCrt d, some (parseCrt r))
  | _ => none

def handleCase (toks : List String) (impl : String) : Verdict :=
  match worldOf toks with
  | none => bad "parse-ops"
  | some w =>
    match C03.parseItems parseItem impl with
    | none => bad "parse-impl"
    | some items =>
      let c := fullSync w
      let l := crtList c
      let model := items.map fun (sni, _, _) => (sni, sniCrt l sni)
      let agree := (items.zip model).all fun ((_, d, _), (_, m)) => d = some m
      let oracle := items.findSome? fun (sni, d, r) =>
        match d with
        | none => some "certificate-file-missing-or-unknown"
        | some got =>
          match checkSni w sni got with
          | some sig => some sig
          | none =>
            match r with
            | none => none
            | some run => if run = some got then none else some "running-certificate-differs-from-disk"
      { model := ",".intercalate (model.map fun (sni, m) => String.ofList sni ++ "=" ++ showCrt m),
        agree := agree, oracle := oracle, trivial := c.tls.isEmpty }

def handle (args : List String) (impl : String) : Verdict :=
  match args with
  | "world" :: toks => if impl = "PANIC" then { model := "-", agree := false, oracle := some "panic" } else handleCase toks impl
  | "hist" :: toks => if impl = "PANIC" then { model := "-", agree := false, oracle := some "panic" } else handleCase toks impl
  | _ => bad "C15"

end HapVerif.C15
