import HapVerif.Model.C15
import HapVerif.Model.C15Track
import HapVerif.Drv.C03
import HapVerif.Drv.C15Run
/-!
Driver of C15.  `C15 world <ops...> => <sni>=<crt>,...` and `C15 hist <ops with sync> => <sni>=<disk>|<running>,...`;
`<crt>` = `default` | `ns/name@version` | `-` (no such file / not loaded) | `?hash` (unknown content).
The model of a history is the full sync of its final cluster state (the harness emits one line per
reconciliation of a history: the prefix of the history that ends with that `sync`).

`C15 trk <ops with sync> => <ns/secret>=<ing>+<ing>:<host>+<host>,...`: what the REAL tracker of the long-lived
controller returns for a query seeded with each Secret after the last `sync` of the line (ingresses, hosts; `-` =
none).  Model: `C15.partialSync` / `C15.fullSyncT` over the batches (Model/C15Track.lean).  The model tracks hosts and
certificates only, the real tracker everything, so `agree` = the model's closure is contained in the real one;
oracle = every `(ingress, host)` of a tls block whose Secret name resolves to `ns/secret` is in the real closure
(`rotation_reaches_all_readers` evaluated on the implementation).
-/
namespace HapVerif.C15
open HapVerif.Drv HapVerif.Sync HapVerif.Sync.Parse
open HapVerif.C04 (Str)

def showCrt : Crt → String
  | .dflt => "default"
  | .secret ns n v => String.ofList ns ++ "/" ++ String.ofList n ++ "@" ++ toString v

def parseCrt (s : Str) : Option Crt :=
  if s = "default".toList then some .dflt else
  match split1 '@' s with
  | (k, some v) =>
    if isDigits v then (let (ns, n) := splitKey k; some (.secret ns n (atoi v))) else none
  | _ => none

/-- `sni=disk` or `sni=disk|running`; a certificate text that is not understood is kept as `none` -/
def parseItem (s : Str) : Option (Str × Option Crt × Option (Option Crt)) :=
  match split1 '=' s with
  | (sni, some rhs) =>
    match split1 '|' rhs with
    | (d, none) => some (sni, parseCrt d, none)
    | (d, some r) => some (sni, parseCrt d, some (parseCrt r))
  | _ => none

/-- a certificate that several Secrets hold is reported by CONTENT (`shared@v`, parsed as `.secret [] shared v`):
it stands for the certificate `target` when `target` has that content (`Run.contentOf`), for itself otherwise -/
def resolveShared (target x : Crt) : Crt :=
  match x with
  | .secret ns n v =>
    if ns = [] ∧ n = "shared".toList ∧ Run.contentOf target = .shared v then target else x
  | .dflt => x

def handleCase (toks : List String) (impl : String) : Verdict :=
  match worldOf toks with
  | none => bad "parse-ops"
  | some w =>
    match C03.parseItems parseItem impl with
    | none => bad "parse-impl"
    | some items =>
      let c := fullSync w
      let l := crtList c
      let model := items.map fun (sni, _, _) => (sni, sniCrt l sni)
      let agree := (items.zip model).all fun ((_, d, _), (_, m)) => d.map (resolveShared m) = some m
      let oracle := items.findSome? fun (sni, d, r) =>
        match d with
        | none => some "certificate-file-missing-or-unknown"
        | some got0 =>
          let got := resolveShared (specCrt w sni) got0
          match checkSni w sni got with
          | some sig => some sig
          | none =>
            match r with
            | none => none
            | some run => if run.map (resolveShared got) = some got then none else some "running-certificate-differs-from-disk"
      { model := ",".intercalate (model.map fun (sni, m) => String.ofList sni ++ "=" ++ showCrt m),
        agree := agree, oracle := oracle, trivial := c.tls.isEmpty }

/-! ## tracker lines -/

/-- ingress / secret events of one token (validity = `IsValidIngress` at the time of the event); every other
token is outside the tracker model -/
def tokOps (tok : Str) : Option (List Op) :=
  let putIng (t : Str) : Option (List Op) := do
    let r ← parseIngress t
    pure [.ingPut { r.ing with valid := classValid [] r.classAnn r.className }]
  if let some t := stripPrefix "ing+" tok then putIng t
  else if let some t := stripPrefix "ing~" tok then putIng t
  else if let some t := stripPrefix "ing-" tok then
    let (ns, n) := splitKey t
    some [.ingDel ns n]
  else if let some t := (stripPrefix "sec+" tok).orElse (fun _ => stripPrefix "sec~" tok) then
    match splitOnC '!' t with
    | [k, kind, v, _] => let (ns, n) := splitKey k; some [.secPut ⟨ns, n, kind = "tls".toList, atoi v⟩]
    | _ => none
  else if let some t := stripPrefix "sec-" tok then
    let (ns, n) := splitKey t
    some [.secDel ns n]
  else some []

/-- the tokens between two `sync` -/
def splitBatches (toks : List Str) : List (List Str) :=
  let (cur, acc) := toks.foldl (fun (p : List Str × List (List Str)) t =>
    if t = "sync".toList then ([], p.1.reverse :: p.2) else (t :: p.1, p.2)) ([], [])
  (if cur.isEmpty then acc else cur.reverse :: acc).reverse

/-- first reconciliation and reconciliations with a ConfigMap event: full sync; every other one: partial sync -/
def trackStep (xns : Bool) (st : Option TState) (b : List Str) : Option (Option TState) := do
  let ops := (← b.mapM tokOps).flatten
  match st with
  | none => pure (some (fullSyncT (({ opts := { crossNsSecret := xns } } : World).applyAll ops) []))
  | some s =>
    if b.any (fun t => (stripPrefix "cm~" t).isSome) then pure (some (fullSyncT (s.w.applyAll ops) []))
    else pure (some (partialSync s { ops := ops }))

def runTrack (xns : Bool) (batches : List (List Str)) : Option TState :=
  (batches.foldlM (trackStep xns) none).map (·.getD (fullSyncT {} []))

def parseNames (s : Str) : List Str := if s = ['-'] ∨ s.isEmpty then [] else splitOnC '+' s

/-- `ns/secret=ing+ing:host+host` -/
def parseTrk (s : Str) : Option ((Str × Str) × List Str × List Str) :=
  match split1 '=' s with
  | (k, some rhs) =>
    match split1 ':' rhs with
    | (is, some hs) => some (splitKey k, parseNames is, parseNames hs)
    | _ => none
  | _ => none

def showNames (l : List Str) : String :=
  if l.isEmpty then "-" else "+".intercalate ((sortBy C03.strLt l).map String.ofList)

def handleTrk (toks : List String) (impl : String) : Verdict :=
  let ts := toks.map String.toList
  if ts.any (fun t => (stripPrefix "cls" t).isSome) then bad "trk-class-objects" else
  match runTrack (toks.contains "opt~xns=1") (splitBatches (ts.filter fun t => (stripPrefix "opt~" t).isNone)),
        C03.parseItems parseTrk impl with
  | none, _ => bad "parse-ops"
  | _, none => bad "parse-impl"
  | some s, some items =>
    let model := items.map fun (k, _, _) => (k, closureOf s.t k.1 k.2)
    let agree := (items.zip model).all fun ((_, is, hs), (_, mi, mh)) =>
      mi.all (is.contains ·) && mh.all (hs.contains ·)
    let needed : List ((Str × Str) × Str × Str) :=
      (s.w.ings.filter (·.valid)).flatMap fun i =>
        i.tls.flatMap fun b =>
          match secNode s.w i.ns b with
          | some (.sec a n) => b.hosts.map fun h => ((a, n), ingKey i, h)
          | _ => []
    let oracle := needed.findSome? fun (k, ik, h) =>
      match items.find? (·.1 = k) with
      | none => some "secret-reader-not-tracked"
      | some (_, is, hs) => if is.contains ik && hs.contains h then none else some "secret-reader-not-tracked"
    { model := if model.isEmpty then "-" else ",".intercalate (model.map fun (k, mi, mh) =>
        String.ofList k.1 ++ "/" ++ String.ofList k.2 ++ "=" ++ showNames mi ++ ":" ++ showNames mh),
      agree := agree, oracle := oracle, trivial := needed.isEmpty }

def handle (args : List String) (impl : String) : Verdict :=
  match args with
  | "trk" :: toks => if impl = "PANIC" then { model := "-", agree := false, oracle := some "panic" } else handleTrk toks impl
  | "world" :: toks => if impl = "PANIC" then { model := "-", agree := false, oracle := some "panic" } else handleCase toks impl
  | "hist" :: toks => if impl = "PANIC" then { model := "-", agree := false, oracle := some "panic" } else handleCase toks impl
  -- the running side (Model/C15Run.lean, Drv/C15Run.lean): what the running HAProxy presents after every reconciliation
  | "run" :: toks => if impl = "PANIC" then { model := "-", agree := false, oracle := some "panic" } else Run.handleRun toks impl
  | _ => bad "C15"

end HapVerif.C15
