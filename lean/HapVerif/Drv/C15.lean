import HapVerif.Model.C15
import HapVerif.Drv.Common
namespace HapVerif.C15
open HapVerif.Drv

def handle (_args : List String) (_impl : String) : Verdict := bad "C15-not-implemented"

end HapVerif.C15
