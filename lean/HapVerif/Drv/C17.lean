import HapVerif.Model.C17
import HapVerif.Drv.Common
namespace HapVerif.C17
open HapVerif.Drv

def handle (_args : List String) (_impl : String) : Verdict := bad "C17-not-implemented"

end HapVerif.C17
