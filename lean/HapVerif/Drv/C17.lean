import HapVerif.Model.C17
import HapVerif.Model.C17Sec
import HapVerif.Model.C17Cfg
import HapVerif.Drv.Common
/-!
Line protocol of C17 (all lists `,`-separated, `-` = empty):

* `verify <acct> <miss|crt:<notAfter>:<sans>> <now> <window> <declared> <crt key err> <setErr>`
  `=> got=<b> sign=<domains|-> write=<b> err=<b> metric=<M|E|O|->:<b>`   (empty name = `_`)
* `vsec <acct> <none|<type>/<crt>/<key>/<ca>/<extra>> <now> <window> <declared> <crt key err> <setErr>`: the same
  signer over the real cache facade; type `tls|opaque|empty|other`, crt `absent|empty|text|keyblk|badder|trail|
  c:<notAfter>:<sans>|chain:<notAfter>:<sans>`, key `absent|empty|text|certblk|other|stray|ok|okp|pk8`, ca `-|bad|self`
  `=> use=<b> got=.. sign=.. write=.. err=.. metric=.. after=<none|old|new>` (`use`: the controller's own
  `GetTLSSecretPath` accepted the secret; `after`: the Secret object after `Notify`) or `PANIC ...`
* `cfg <client 0|1> <window> <step;step;...>`: ONE live signer created with a client or not and the given window,
  then the history: `w/<window>` = `AcmeConfig`, `a/<endpoint>/<emails>/<terms>/<clientOk>` = `AcmeAccount` (`-` = empty
  string; `clientOk` = `NewClient` succeeds, always `0` in the harness: no ACME directory), `k/<secret>/<now>/<declared>/
  <crt key err>/<setErr>` = `Notify` at virtual time `now` (fields as in `verify`)
  `=> <outcome of every check as in verify, `;`-separated | ->`
* `st <op;op;...>` with `F` | `D:<names>` | `Q:<name>:<chain>:<doms>` | `U:<leader><acct>` | `C`
* `cyc <cycle;cycle;...>` with `<p|f><leader><acct>/<dirty>/<name:chain:doms+...>`
* `conv <cycle|cycle|...>` with `<p|f><leader><acct>@<ing&ing...>`,
  `ing = name~rulehost~<acme 0|1|2>~chain~<secret=hosts+secret=hosts...>` (1 = annotation
  `cert-signer: acme`, 2 = `kubernetes.io/tls-acme: "true"` with `AcmeTrackTLSAnn`)
  the three of them `=> <adds>^<removes>;...#<items>` (one `adds^removes` per AcmeUpdate, items
  `|`-separated, an item is the queue string `name,chain,d1,d2`, final storages after `#`)
* `inst <cycle;cycle;...>` with `<p|f><leader><acct><chg><r|x|s>/<dirty>/<name:chain:doms+...>`: the
  controller cycle converter ; `AcmeUpdate()` ; `HAProxyUpdate()`. `chg` = the sync also changes the
  HAProxy configuration (a reload is needed), `r` = a reload attempted in this cycle succeeds, `x` = the
  new worker fails to start, `s` = the master socket refuses the command
  `=> <adds>^<removes>^<n|r|x><failing>;...#<items>`: `n` no reload attempted, `r` reloaded, `x` reload
  failed; `failing` = `failedSince` is set after the update
-/
namespace HapVerif.C17
open HapVerif.Drv

def parseBool (s : String) : Option Bool :=
  if s = "1" then some true else if s = "0" then some false else none

def parseName (s : String) : Name := if s = "_" then [""] else s.splitOn "."
def showName (n : Name) : String := if n = [""] then "_" else ".".intercalate n
def parseNames (s : String) : List Name := if s = "-" ∨ s = "" then [] else (s.splitOn ",").map parseName
def showNames (l : List Name) : String := if l.isEmpty then "-" else ",".intercalate (l.map showName)
def parseStrs (s : String) : List String := if s = "-" ∨ s = "" then [] else s.splitOn ","

def parseSecret (s : String) : Option Secret :=
  if s = "miss" then some .missing else
  match s.splitOn ":" with
  | ["crt", na, sans] => na.toInt?.map (fun na => .cert na (parseNames sans))
  | _ => none

def parseSign (s : String) : Option SignRes :=
  match s.toList with
  | [a, b, c] => do
    pure { crt := ← parseBool a.toString, key := ← parseBool b.toString, err := ← parseBool c.toString }
  | _ => none

def showB (b : Bool) : String := if b then "1" else "0"

def showVOut (o : VOut) : String :=
  "got=" ++ showB o.got ++ " sign=" ++ (match o.signed with | some d => showNames d | none => "-") ++
  " write=" ++ showB o.written ++ " err=" ++ showB o.err ++ " metric=" ++
  (match o.metric with
   | some (.missing, b) => "M:" ++ showB b
   | some (.expiring, b) => "E:" ++ showB b
   | some (.outdated, b) => "O:" ++ showB b
   | none => "-:0")

def field (kv key : String) : Option String :=
  if kv.startsWith (key ++ "=") then some ((kv.drop (key.length + 1)).toString) else none

def parseVOut (s : String) : Option VOut :=
  match words s with
  | [g, sg, w, e, m] => do
    let g ← field g "got"; let sg ← field sg "sign"; let w ← field w "write"
    let e ← field e "err"; let m ← field m "metric"
    let metric ← match m.splitOn ":" with
      | ["M", b] => (parseBool b).map (fun b => some (Reason.missing, b))
      | ["E", b] => (parseBool b).map (fun b => some (Reason.expiring, b))
      | ["O", b] => (parseBool b).map (fun b => some (Reason.outdated, b))
      | ["-", _] => some none
      | _ => none
    pure { got := ← parseBool g, signed := if sg = "-" then none else some (parseNames sg),
           written := ← parseBool w, err := ← parseBool e, metric := metric }
  | _ => none

/-! the Secret behind the decision (`vsec`) -/

def parseSType (s : String) : Option SType :=
  if s = "tls" then some .tls else if s = "opaque" then some .opaque else if s = "empty" then some .empty
  else if s = "other" then some .other else none

def parseCrtSt (s : String) : Option CrtSt :=
  if s = "absent" then some .absent else if s = "empty" then some .empty
  else if s = "text" ∨ s = "keyblk" ∨ s = "badder" ∨ s = "trail" then some .bad else
  match s.splitOn ":" with
  | [k, na, sans] => if k = "c" ∨ k = "chain" then na.toInt?.map (fun na => .cert na (parseNames sans)) else none
  | _ => none

def parseKeySt (s : String) : Option KeySt :=
  if s = "absent" then some .absent else if s = "empty" then some .empty
  else if s = "text" ∨ s = "certblk" then some .bad else if s = "other" then some .other
  else if s = "stray" then some .stray
  else if s = "ok" ∨ s = "okp" ∨ s = "pk8" then some .ok else none

def parseCaSt (s : String) : Option CaSt :=
  if s = "-" then some .absent else if s = "bad" then some .bad else if s = "self" then some .self else none

/-- `none` = parse error, `some none` = no such Secret -/
def parseSec (s : String) : Option (Option Sec) :=
  if s = "none" then some none else
  match s.splitOn "/" with
  | [t, c, k, ca, x] => do
    pure (some { type := ← parseSType t, crt := ← parseCrtSt c, key := ← parseKeySt k, ca := ← parseCaSt ca,
                 extra := ← parseBool x })
  | _ => none

def showAfter : After → String
  | .none => "none"
  | .old => "old"
  | .new => "new"

def parseAfter (s : String) : Option After :=
  if s = "none" then some .none else if s = "old" then some .old else if s = "new" then some .new else none

def showSOut : Option SOut → String
  | none => "PANIC"
  | some o => "use=" ++ showB o.usable ++ " " ++ showVOut o.out ++ " after=" ++ showAfter o.after

/-- `none` = unreadable line, `some none` = the implementation panicked -/
def parseSOut (s : String) : Option (Option SOut) :=
  if s.startsWith "PANIC" then some none else
  match words s with
  | [u, g, sg, w, e, m, a] => do
    let u ← field u "use"; let a ← field a "after"
    let o ← parseVOut (" ".intercalate [g, sg, w, e, m])
    pure (some { usable := ← parseBool u, out := o, after := ← parseAfter a })
  | _ => none

/-! storages -/

def showItem (e : String × Cert) : String := e.1 ++ "," ++ e.2.chain ++ "," ++ ",".intercalate e.2.doms

def stripNs (n : String) : String := if n.startsWith "d/" then (n.drop 2).toString else n

def parseItem (s : String) : Option (String × Cert) :=
  match s.splitOn "," with
  | n :: ch :: ds => some (stripNs n, { chain := ch, doms := addDoms [] (ds.filter (· ≠ "")) })
  | _ => none

def sortItems (m : SMap) : SMap := m.mergeSort (fun a b => !(b.1 < a.1))

def showItems (m : SMap) : String :=
  if m.isEmpty then "-" else "|".intercalate ((sortItems m).map showItem)

def parseItems (s : String) : Option SMap :=
  if s = "-" ∨ s = "" then some [] else (s.splitOn "|").mapM parseItem

def showUpd (ops : List QOp) : String :=
  let (a, r) := splitOps ops
  showItems a ++ "^" ++ showItems r

def showRun (outs : List (List QOp)) (items : SMap) : String :=
  ";".intercalate (outs.map showUpd) ++ "#" ++ showItems items

def parseUpd (s : String) : Option (List QOp) :=
  match s.splitOn "^" with
  | [a, r] => do
    let a ← parseItems a; let r ← parseItems r
    pure (a.map (fun e => QOp.add e.1 e.2) ++ r.map (fun e => QOp.remove e.1 e.2))
  | _ => none

def parseRun (s : String) : Option (List (List QOp) × SMap) :=
  match s.splitOn "#" with
  | [u, i] => do
    let us ← if u = "" then some [] else (u.splitOn ";").mapM parseUpd
    pure (us, ← parseItems i)
  | _ => none

/-- canonical comparison: both sides rendered with sorted items -/
def agreeRun (outs : List (List QOp)) (items : SMap) (impl : String) : Bool :=
  match parseRun impl with
  | some (us, it) => showRun outs items == showRun us it
  | none => false

def parseOp (s : String) : Option Op :=
  match s.splitOn ":" with
  | ["F"] => some .clear
  | ["C"] => some .commit
  | ["D", ns] => some (.removeAll (parseStrs ns))
  | ["Q", n, ch, ds] => some (.acq n ch (parseStrs ds))
  | ["U", la] => match la.toList with
    | [l, a] => do pure (.update (← parseBool l.toString) (← parseBool a.toString))
    | _ => none
  | _ => none

def parseAcq (s : String) : Option Acq :=
  match s.splitOn ":" with
  | [n, ch, ds] => some ⟨n, ch, parseStrs ds⟩
  | _ => none

def parseHead (s : String) : Option (Bool × Bool × Bool) :=
  match s.toList with
  | [k, l, a] => do
    let full ← if k = 'f' then some true else if k = 'p' then some false else none
    pure (full, ← parseBool l.toString, ← parseBool a.toString)
  | _ => none

def parseCycle (s : String) : Option Cycle :=
  match s.splitOn "/" with
  | [h, d, as] => do
    let (full, l, a) ← parseHead h
    pure { full := full, leader := l, acct := a, dirty := parseStrs d,
           acqs := ← parseList parseAcq as "+" }
  | _ => none

def parseTls (s : String) : Option Tls :=
  match s.splitOn "=" with
  | [sec, hs] => some ⟨if sec = "_" then "" else sec, parseStrs hs⟩
  | _ => none

def parseIng (s : String) : Option Ing :=
  match s.splitOn "~" with
  | [n, r, a, ch, tls] => do
    pure { name := n, rule := r, acme := ← (if a = "2" then some true else parseBool a), chain := if ch = "-" then "" else ch,
           tls := ← parseList parseTls tls "+", viaTlsAcme := a = "2" }
  | _ => none

def parseConvCycle (s : String) : Option ConvCycle :=
  match s.splitOn "@" with
  | [h, w] => do
    let (full, l, a) ← parseHead h
    pure { full := full, leader := l, acct := a, world := ← parseList parseIng w "&" }
  | _ => none

/-- Spec on the observed queue operations of storages-level cycles (any cycle: no contract on
what is removed or acquired) -/
def oracleCycles : Storages → List Cycle → List (List QOp) → Option String
  | _, [], _ => none
  | _, _ :: _, [] => some "missing-output"
  | s, c :: cs, o :: os =>
    let s' := (cycle s c).1
    match oracleCycle c.full c.leader c.acct s.items s'.items o with
    | some e => some e
    | none => oracleCycles s' cs os

/-! controller cycles -/

def parseICycle (s : String) : Option ICycle :=
  match s.splitOn "/" with
  | [h, d, as] =>
    match h.toList with
    | [k, l, a, g, r] => do
      let (full, l, a) ← parseHead (String.ofList [k, l, a])
      let chg ← parseBool g.toString
      let rfail ← if r = 'r' then some false else if r = 'x' ∨ r = 's' then some true else none
      pure { c := { full := full, leader := l, acct := a, dirty := parseStrs d,
                    acqs := ← parseList parseAcq as "+" },
             chg := chg, rfail := rfail }
    | _ => none
  | _ => none

def showReload : Reload → String
  | .none => "n"
  | .ok => "r"
  | .failed => "x"

def showIRun (outs : List (List QOp × Reload × Bool)) (items : SMap) : String :=
  ";".intercalate (outs.map (fun o => showUpd o.1 ++ "^" ++ showReload o.2.1 ++ showB o.2.2)) ++
    "#" ++ showItems items

def parseIUpd (s : String) : Option (List QOp × Reload × Bool) :=
  match s.splitOn "^" with
  | [a, r, f] => do
    let ops ← parseUpd (a ++ "^" ++ r)
    match f.toList with
    | [o, b] => do
      let o ← if o = 'n' then some Reload.none else if o = 'r' then some Reload.ok
              else if o = 'x' then some Reload.failed else none
      pure (ops, o, ← parseBool b.toString)
    | _ => none
  | _ => none

def parseIRun (s : String) : Option (List (List QOp × Reload × Bool) × SMap) :=
  match s.splitOn "#" with
  | [u, i] => do
    let us ← if u = "" then some [] else (u.splitOn ";").mapM parseIUpd
    pure (us, ← parseItems i)
  | _ => none

/-! the live signer: configuration histories (`cfg`) -/

def dashEmpty (s : String) : String := if s = "-" then "" else s

def parseSStep (s : String) : Option SStep :=
  match s.splitOn "/" with
  | ["w", w] => w.toInt?.map .config
  | ["a", e, m, t, ok] => do pure (.account (dashEmpty e) (dashEmpty m) (← parseBool t) (← parseBool ok))
  | ["k", sec, now, decl, sign, setErr] => do
    pure (.check { secret := ← parseSecret sec, now := ← now.toInt?, declared := parseNames decl,
                   sign := ← parseSign sign, setErr := ← parseBool setErr })
  | _ => none

def showVOuts (os : List VOut) : String := if os.isEmpty then "-" else ";".intercalate (os.map showVOut)

def parseVOuts (s : String) : Option (List VOut) :=
  if s = "-" then some [] else (s.splitOn ";").mapM parseVOut

def handle (args : List String) (impl : String) : Verdict :=
  match args with
  | ["cfg", client, win, steps] =>
    match parseBool client, win.toInt?, parseList parseSStep steps ";" with
    | some client, some win, some steps =>
      let s0 : Signer := { client := client, window := win }
      let m := (srun s0 steps).2
      match parseVOuts impl with
      | some os =>
        { model := showVOuts m, agree := m = os, oracle := oracleHistory s0 steps os,
          trivial := checksOf steps = 0 }
      | none => { model := showVOuts m, agree := false, oracle := some "panic-verify" }
    | _, _, _ => bad "parse-cfg"
  | ["verify", acct, sec, now, win, decl, sign, setErr] =>
    match parseBool acct, parseSecret sec, now.toInt?, win.toInt?, parseSign sign, parseBool setErr with
    | some acct, some sec, some now, some win, some sign, some setErr =>
      let i : VIn := { acct := acct, secret := sec, now := now, window := win,
                       declared := parseNames decl, sign := sign, setErr := setErr }
      let m := notify i
      match parseVOut impl with
      | some o =>
        -- items always carry a domain (`conv_items_have_domains`, conv oracle): the empty declared set
        -- is outside the signer's precondition; still compared with the model, not judged
        { model := showVOut m, agree := m = o,
          oracle := if i.declared.isEmpty then none else oracleVerify i o, trivial := i.declared.isEmpty }
      | none => { model := showVOut m, agree := false, oracle := some "panic-verify" }
    | _, _, _, _, _, _ => bad "parse-verify"
  | ["vsec", acct, sec, now, win, decl, sign, setErr] =>
    match parseBool acct, parseSec sec, now.toInt?, win.toInt?, parseSign sign, parseBool setErr with
    | some acct, some sec, some now, some win, some sign, some setErr =>
      let i : SIn := { acct := acct, sec := sec, now := now, window := win, declared := parseNames decl,
                       sign := sign, setErr := setErr }
      let m := notifySec i
      match parseSOut impl with
      | some o =>
        { model := showSOut m, agree := m = o,
          oracle := if i.declared.isEmpty then none else oracleSec i o, trivial := i.declared.isEmpty }
      | none => { model := showSOut m, agree := false, oracle := some "panic-verify" }
    | _, _, _, _, _, _ => bad "parse-vsec"
  | ["st", ops] =>
    match parseList parseOp ops ";" with
    | some ops =>
      let r := run {} ops
      { model := showRun r.2 r.1.items, agree := agreeRun r.2 r.1.items impl,
        oracle := if impl.startsWith "PANIC" then some "panic-storages" else none,
        trivial := r.2.all (·.isEmpty) }
    | none => bad "parse-st"
  | ["cyc", cs] =>
    match parseList parseCycle cs ";" with
    | some cs =>
      let r := runCycles {} cs
      let orc := match parseRun impl with
        | some (us, _) => oracleCycles {} cs us
        | none => some "panic-cycles"
      { model := showRun r.2 r.1.items, agree := agreeRun r.2 r.1.items impl, oracle := orc,
        trivial := r.2.all (·.isEmpty) }
    | none => bad "parse-cyc"
  | ["inst", cs] =>
    match parseList parseICycle cs ";" with
    | some cs =>
      let r := runI .always {} cs
      let model := showIRun r.2 r.1.st.items
      match parseIRun impl with
      | some (us, it) =>
        { model := model, agree := model == showIRun us it,
          oracle := oracleICycles {} cs (us.map (·.1)), trivial := r.2.all (·.1.isEmpty) }
      | none => { model := model, agree := false, oracle := some "panic-instance-cycles" }
    | none => bad "parse-inst"
  | ["conv", cs] =>
    match parseList parseConvCycle cs "|" with
    | some cs =>
      let r := runConv {} cs
      let orc := match parseRun impl with
        | some (us, _) => oracleConv [] cs us
        | none => some "panic-converter"
      { model := showRun r.2 r.1.st.items, agree := agreeRun r.2 r.1.st.items impl, oracle := orc,
        trivial := r.2.all (·.isEmpty) }
    | none => bad "parse-conv"
  | _ => bad "C17"

end HapVerif.C17
