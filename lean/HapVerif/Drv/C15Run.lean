import HapVerif.Model.C15Run
import HapVerif.Drv.C03
/-!
Driver of the `run` lines of C15:

`C15 run <ops with sync> => <step>;<step>;… <sni>=<path>|<running>|<disk>,…`

`<step>` = `R` | `D`, then optionally `:<path>*<n>+…` (the files named by `set ssl cert`, with multiplicities);
`<path>` = `default` | `ns/name` | `?file`; `<running>`, `<disk>` = `default` | `ns/name@v` | `shared@v` | `-` | `?hash`.

Model: `Run.start` on the cluster state of the first reconciliation, then `Run.step` (memo = `perHost`, the code) per
reconciliation on the full syncs of the consecutive cluster states; `forced` = the implementation reloaded (every
reason for a reload other than the certificates is outside this model).  `agree` = same steps (reload or not, the
same files pushed the same number of times) and the same table.  Oracle (the property, on the implementation's
output): the certificate the running HAProxy presents for every SNI name is the content of the certificate the
cluster state declares for it (`C15.specCrt`), else default.
-/
namespace HapVerif.C15.Run
open HapVerif.Drv HapVerif.Sync HapVerif.Sync.Parse
open HapVerif.C04 (Str)

def showPath : Path → String
  | .dflt => "default"
  | .sec ns n => String.ofList ns ++ "/" ++ String.ofList n

def showContent : Content → String
  | .dflt => "default"
  | .own ns n v => String.ofList ns ++ "/" ++ String.ofList n ++ "@" ++ toString v
  | .shared v => "shared@" ++ toString v

def showOpt : Option Content → String
  | none => "-"
  | some c => showContent c

/-- pushes of one step, canonical: sorted, with multiplicities -/
def showPushes (l : List Path) : String :=
  let names := sortBy (fun a b => a < b) (l.map showPath)
  let groups := names.foldl (fun (acc : List (String × Nat)) n =>
    match acc with
    | (m, k) :: rest => if m = n then (m, k + 1) :: rest else (n, 1) :: acc
    | [] => [(n, 1)]) []
  "+".intercalate (groups.reverse.map fun (n, k) => n ++ "*" ++ toString k)

def showStep (reloaded : Bool) (pushed : List Path) : String :=
  (if reloaded then "R" else "D") ++ (if pushed.isEmpty then "" else ":" ++ showPushes pushed)

/-- the token lists of the prefixes that end with a `sync` -/
def prefixes (toks : List String) : List (List String) :=
  (toks.foldl (fun (p : List String × List (List String)) t =>
    let cur := p.1 ++ [t]
    if t = "sync" then (cur, cur :: p.2) else (cur, p.2)) ([], [])).2.reverse

structure Item where
  sni : Str
  path : String
  running : String
  disk : String

def parseItem (s : Str) : Option Item :=
  match split1 '=' s with
  | (sni, some rhs) =>
    match splitOnC '|' rhs with
    | [p, r, d] => some ⟨sni, String.ofList p, String.ofList r, String.ofList d⟩
    | _ => none
  | _ => none

def handleRun (toks : List String) (impl : String) : Verdict :=
  let (trace, table) := splitOn1 impl " "
  let steps := trace.splitOn ";"
  match (prefixes toks).mapM worldOf, C03.parseItems parseItem table with
  | none, _ => bad "parse-ops"
  | _, none => bad "parse-impl"
  | some [], _ => bad "run-no-sync"
  | some (w0 :: ws), some items =>
    if steps.length ≠ ws.length + 1 then bad "run-steps" else
    let obsReload (s : String) : Bool := s.startsWith "R"
    -- the first update: always a reload, nothing sent
    let init : (RState × Cfg) × List String := (start w0, [showStep true []])
    let (fin, mtrace) := (ws.zip (steps.drop 1)).foldl (fun (acc : (RState × Cfg) × List String) (y : World × String) =>
      let cur := fullSync y.1
      let o := step perHost acc.1.1 acc.1.2 cur (obsReload y.2)
      ((o.st, cur), acc.2 ++ [showStep o.reloaded o.pushed])) init
    let wl := (ws.getLast?).getD w0
    let st := fin.1
    let row (sni : Str) : String :=
      showPath (sniPath st.loaded sni) ++ "|" ++ showOpt (servedRun st sni) ++ "|" ++
        showContent (contentOf (sniCrt (crtList fin.2) sni))
    let mtab := items.map fun it => (it.sni, row it.sni)
    let agree := mtrace = steps &&
      (items.zip mtab).all fun (it, m) => it.path ++ "|" ++ it.running ++ "|" ++ it.disk = m.2
    let oracle := items.findSome? fun it =>
      let want := showContent (contentOf (specCrt wl it.sni))
      if it.running = want then none
      else if it.running = "-" ∨ it.running.startsWith "?" then some "served-certificate-missing-or-unknown"
      else if it.disk = want then some "running-haproxy-serves-stale-certificate"
      else some "served-certificate-not-the-declared-one"
    { model := ";".intercalate mtrace ++ " " ++
        (if mtab.isEmpty then "-" else ",".intercalate (mtab.map fun (sni, r) => String.ofList sni ++ "=" ++ r)),
      agree := agree, oracle := oracle,
      trivial := steps.all fun s => !(s.contains ':') }

end HapVerif.C15.Run
