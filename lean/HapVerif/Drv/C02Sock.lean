import HapVerif.Model.C02Sock
import HapVerif.Drv.Common
/-!
Driver of C02 mode `sock` (harness/cmd/hv/c02sock.go): the events the simulated HAProxy saw behind its real unix
sockets are replayed on the model of worker generations and connections (`Model/C02Sock.lean`).

agreement = after every reconcile the model's newest worker holds exactly the table the simulated HAProxy reports
            (servers row by row, certificates), every connection id is the one the model hands out, AND the trace
            keeps the discipline of the code as it is (socket of the dynamic updater without keep-alive,
            `facts_c02_sock`): no runtime command is executed by a former worker, no admin connection is open when a
            reload arrives;
oracle    = the Spec on the implementation's output: after every reconcile the table of the newest worker equals
            what the files on disk would load (`tablesDiffer`), what `history_sound_sock` proves for all histories.
-/
namespace HapVerif.C02Sock
open HapVerif.Drv HapVerif.C02

def unq (s : String) : String := if s = "_" then "" else s

def parseState (s : String) : Option SState :=
  match s with
  | "ready" => some .ready
  | "drain" => some .drain
  | "maint" => some .maint
  | _ => none

def parseRow (s : String) : Option Srv :=
  match s.splitOn "~" with
  | [n, ip, port, st, w] => do
    pure { name := unq n, ip := unq ip, port := ← port.toNat?, state := ← parseState st, weight := ← w.toInt? }
  | _ => none

def parseBackend (s : String) : Option (String × List Srv) :=
  match s.splitOn "=" with
  | [be, rows] => do
    let rs ← if rows = "" then some [] else (rows.splitOn "+").mapM parseRow
    pure (unq be, rs)
  | _ => none

def parseCrt (s : String) : Option (String × String) :=
  match s.splitOn "~" with
  | [f, id] => some (unq f, unq id)
  | _ => none

/-- `<servers>^<certificates>` -/
def parseTable (s : String) : Option WTable :=
  match s.splitOn "^" with
  | [sv, cr] => do
    let srvs ← if sv = "-" then some [] else (sv.splitOn ";").mapM parseBackend
    let crts ← if cr = "-" then some [] else (cr.splitOn "+").mapM parseCrt
    pure { srvs := srvs, crts := crts }
  | _ => none

/-- `<letter><conn>[~field…]` -/
def parseEv (s : String) : Option Ev :=
  if s = "F" then some .reloadFailed else
  if s.startsWith "R" then (parseTable (s.drop 1).toString).map .reload else
  let fs := s.splitOn "~"
  let head := fs.headD ""
  let kind := (head.take 1).toString
  match (head.drop 1).toString.toNat? with
  | none => none
  | some c =>
    match kind, fs.drop 1 with
    | "o", [] => some (.accept c)
    | "x", [] => some (.close c)
    | "p", [] => some (.cmd c .nop)
    | "q", [] => some (.cmd c .nop)
    | "B", [] => some (.refused c)
    | "a", [be, srv, ip, port] => port.toNat?.map fun p => .cmd c (.addr (unq be) (unq srv) (unq ip) p)
    | "s", [be, srv, st] => (parseState st).map fun x => .cmd c (.state (unq be) (unq srv) x)
    | "w", [be, srv, w] => w.toInt?.map fun x => .cmd c (.weight (unq be) (unq srv) x)
    | "c", [f, id] => some (.cmd c (.setCrt (unq f) (unq id)))
    | "m", [f] => some (.cmd c (.commitCrt (unq f)))
    | _, _ => none

structure StepObs where
  kind : String
  evs : List Ev
  run : WTable
  disk : WTable

def parseStep (s : String) : Option StepObs :=
  match s.splitOn "!" with
  | [kind, evs, run, disk] => do
    let es ← if evs = "-" then some [] else (evs.splitOn ",").mapM parseEv
    pure { kind := kind, evs := es, run := ← parseTable run, disk := ← parseTable disk }
  | _ => none

/-- the model's newest worker against the reported one: servers exactly, certificates as sets -/
def sameTable (m r : WTable) : Bool := m.srvs == r.srvs && sortS m.crts == sortS r.crts

structure Acc where
  r : Replay
  out : List String := []
  differ : Option Nat := none       -- first step whose reported table is not the model's
  orc : Option String := none
  n : Nat := 0

def accStep (a : Acc) (s : StepObs) : Acc :=
  let before := a.r.cmds
  let r := s.evs.foldl Replay.ev a.r
  let differ := match a.differ with
    | some k => some k
    | none => if sameTable r.hap.cur s.run then none else some a.n
  let orc := match a.orc with
    | some c => some c
    | none => if s.kind = "err" then none else tablesDiffer s.run s.disk
  { r := r, out := a.out ++ ["g" ++ toString r.hap.newest ++ ":" ++ toString (r.cmds - before)],
    differ := differ, orc := orc, n := a.n + 1 }

def handleSock (ops : List String) (impl : String) : Verdict :=
  if impl.startsWith "skip:" then { model := "skip", agree := true, oracle := none, trivial := true } else
  if impl.startsWith "panic" then { model := "no-panic", agree := false, oracle := some "panic", trivial := ops.length < 6 } else
  match (impl.splitOn "|").mapM parseStep with
  | none => { model := "unparsable", agree := false, oracle := some "unparsable-implementation-output" }
  | some steps =>
    let a := steps.foldl accStep { r := { hap := { cur := {} } } }
    let disc := a.r.stale == 0 && a.r.across == 0 && !a.r.badId
    let txt := ",".intercalate a.out ++ " stale=" ++ toString a.r.stale ++ " open-at-reload=" ++ toString a.r.across ++
      (if a.r.badId then " bad-connection-id" else "") ++
      (match a.differ with | some k => " newest-table-differs-at-step-" ++ toString k | none => "")
    { model := txt, agree := a.differ.isNone && disc, oracle := a.orc, trivial := !a.r.reuse }

end HapVerif.C02Sock
