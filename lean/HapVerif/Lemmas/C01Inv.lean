import HapVerif.Lemmas.C01Run
/-
Tracking invariants of one converter run (revision ≥ 2 of the code):
  * `TrackComplete`: every item (host entry, backend) is connected, in the tracker, to the ingress of every
    touch in its trace and to every object that touch read;
  * `DeclLinked`: a processed declaration leaves its ingress connected to the host it names, to the service it
    names and to the backend it resolves to (whether it won, lost or failed).
-/
set_option linter.unusedSectionVars false
set_option linter.unusedSimpArgs false
set_option linter.unusedVariables false
namespace HapVerif.C01

/-! ### `trackAll` -/

theorem mem_trackAll {es : List (Node × Node)} {t : Tr Node} {e : Node × Node} :
    e ∈ trackAll es t ↔ e ∈ es ∨ e ∈ t := by
  unfold trackAll
  induction es generalizing t with
  | nil => simp
  | cons x es ih =>
    simp only [List.foldl_cons]
    rw [ih]
    simp only [track, List.mem_cons]
    constructor
    · rintro (h | h | h)
      · exact Or.inl (Or.inr h)
      · exact Or.inl (Or.inl (by cases x; simpa using h))
      · exact Or.inr h
    · rintro ((h | h) | h)
      · exact Or.inr (Or.inl (by cases x; simpa using h))
      · exact Or.inl h
      · exact Or.inr (Or.inr h)

theorem conn_trackAll_mono {es : List (Node × Node)} {t : Tr Node} {a b : Node} (h : Conn t a b) :
    Conn (trackAll es t) a b :=
  h.mono (fun _ he => mem_trackAll.mpr (Or.inr he))

/-- an edge of the list (in either direction) connects its ends -/
theorem cadj {es : List (Node × Node)} {t : Tr Node} {a b : Node} (h : (a, b) ∈ es ∨ (b, a) ∈ es) :
    Conn (trackAll es t) a b :=
  Conn.single (h.elim (fun h => Or.inl (mem_trackAll.mpr (Or.inl h))) (fun h => Or.inr (mem_trackAll.mpr (Or.inl h))))

theorem trackAll_append (es1 es2 : List (Node × Node)) (t : Tr Node) :
    trackAll (es1 ++ es2) t = trackAll es2 (trackAll es1 t) := by
  simp [trackAll, List.foldl_append]

/-! ### what a declaration leaves behind -/

def declSvc (d : Decl) : Option (String × String) :=
  match d.k with
  | .path p => some (p.svc, p.port)
  | .defBack s p => some (s, p)
  | _ => none

/-- the ingress of a processed declaration is connected to the host it names, the service it names and the
backend it resolves to -/
def DeclLinked (w : World) (t : Tr Node) (d : Decl) : Prop :=
  Conn t ⟨.ing, d.ing.key⟩ ⟨.host, d.host⟩ ∧
  (∀ s p, declSvc d = some (s, p) → Conn t ⟨.ing, d.ing.key⟩ ⟨.svc, d.ing.ns ++ "/" ++ s⟩) ∧
  (∀ s p sv tg, declSvc d = some (s, p) → resolve w d.ing.ns s p = .ok sv tg →
      Conn t ⟨.ing, d.ing.key⟩ ⟨.back, backID d.ing.ns s tg⟩)

theorem DeclLinked.mono {w : World} {t t' : Tr Node} {d : Decl} (hs : ∀ e ∈ t, e ∈ t')
    (h : DeclLinked w t d) : DeclLinked w t' d :=
  ⟨h.1.mono hs, fun s p hd => (h.2.1 s p hd).mono hs, fun s p sv tg hd hr => (h.2.2 s p sv tg hd hr).mono hs⟩

/-- the touch of item `item` is covered by the tracker -/
def touchOK (t : Tr Node) (item : Node) (x : Touch) : Prop :=
  Conn t item ⟨.ing, x.ing.key⟩ ∧ ∀ r ∈ x.reads, Conn t item r.1

theorem touchOK.mono {t t' : Tr Node} {item : Node} {x : Touch} (hs : ∀ e ∈ t, e ∈ t')
    (h : touchOK t item x) : touchOK t' item x :=
  ⟨h.1.mono hs, fun r hr => (h.2 r hr).mono hs⟩

/-- edges and reads of `addBackend` -/
theorem addBackend_spec (w : World) (d : Decl) (svc port : String) :
    let r := addBackend w d svc port
    let hN : Node := ⟨.host, d.host⟩
    let sN : Node := ⟨.svc, d.ing.ns ++ "/" ++ svc⟩
    (sN, hN) ∈ r.1 ∧
    (∀ x ∈ r.2.1, (x.1, hN) ∈ r.1 ∨ ∃ id, r.2.2 = some id ∧ ((⟨.back, id⟩ : Node), x.1) ∈ r.1) ∧
    (∀ id, r.2.2 = some id → ((⟨.ing, d.ing.key⟩ : Node), (⟨.back, id⟩ : Node)) ∈ r.1 ∧
        ∃ sv tg, resolve w d.ing.ns svc port = .ok sv tg ∧ id = backID d.ing.ns svc tg) ∧
    (r.2.2 = none → ∀ sv tg, resolve w d.ing.ns svc port ≠ .ok sv tg) := by
  unfold addBackend
  cases hres : resolve w d.ing.ns svc port with
  | noSvc => simp
  | noPort s => simp
  | ok s tg =>
    simp only []
    refine ⟨by simp, ?_, ?_, by simp⟩
    · intro x hx
      simp only [List.mem_append, List.mem_cons, List.mem_map, List.not_mem_nil, or_false] at hx
      rcases hx with (hx | hx) | ⟨p, hp, hx⟩
      · left; subst hx; simp
      · left; subst hx; simp
      · right
        refine ⟨_, rfl, ?_⟩
        subst hx
        simp only [List.mem_append, List.mem_map]
        right
        exact ⟨p, hp, rfl⟩
    · intro id hid
      simp at hid
      subst hid
      exact ⟨by simp, s, tg, rfl, rfl⟩

theorem skippedEdges_spec (rev : Rev) (hrev : 2 ≤ rev) (w : World) (d : Decl) (svc port : String) :
    (((⟨.ing, d.ing.key⟩ : Node), (⟨.svc, d.ing.ns ++ "/" ++ svc⟩ : Node)) ∈ skippedEdges rev w d svc port) ∧
    (∀ sv tg, resolve w d.ing.ns svc port = .ok sv tg →
      ((⟨.ing, d.ing.key⟩ : Node), (⟨.back, backID d.ing.ns svc tg⟩ : Node)) ∈ skippedEdges rev w d svc port) := by
  obtain ⟨n, rfl⟩ : ∃ n, rev = n + 2 := ⟨rev - 2, (Nat.sub_add_cancel hrev).symm⟩
  unfold skippedEdges
  cases hres : resolve w d.ing.ns svc port <;> simp

/-- LEMMA A: tracking done by one declaration (revision ≥ 2). `pre`: a path declaration runs after the
`ruleHost` declaration of its rule, which linked the ingress to the host. -/
theorem outcome_post (rev : Rev) (hrev : 2 ≤ rev) (w : World) (cur : Option Host) (d : Decl) (t : Tr Node)
    (pre : ∀ p, d.k = .path p → Conn t ⟨.ing, d.ing.key⟩ ⟨.host, d.host⟩) :
    DeclLinked w (trackAll (outcome rev w cur d).edges t) d ∧
    (∃ tch, (outcome rev w cur d).host.trace = (cur.getD { name := d.host }).trace ++ [tch] ∧
        tch.ing = d.ing ∧
        ∀ r ∈ tch.reads, Conn (trackAll (outcome rev w cur d).edges t) ⟨.host, d.host⟩ r.1) ∧
    (∀ id bt, (outcome rev w cur d).back = some (id, bt) →
        bt.ing = d.ing ∧ Conn (trackAll (outcome rev w cur d).edges t) ⟨.back, id⟩ ⟨.ing, d.ing.key⟩ ∧
        ∀ r ∈ bt.reads, Conn (trackAll (outcome rev w cur d).edges t) ⟨.back, id⟩ r.1) := by
  obtain ⟨ing, host, k⟩ := d
  cases k with
  | ruleHost =>
    unfold outcome
    simp only []
    cases hc : ing.className with
    | none =>
      simp only [hc]
      refine ⟨⟨cadj (Or.inl (by simp)), by simp [declSvc], by simp [declSvc]⟩, ⟨_, rfl, rfl, by simp⟩, by simp⟩
    | some c =>
      simp only [hc]
      refine ⟨⟨cadj (Or.inl (by simp)), by simp [declSvc], by simp [declSvc]⟩, ⟨_, rfl, rfl, by simp⟩, by simp⟩
  | tlsHost secret =>
    unfold outcome
    simp only []
    by_cases hs : secret = ""
    · simp only [hs, if_true]
      refine ⟨⟨cadj (Or.inl (by simp)), by simp [declSvc], by simp [declSvc]⟩, ⟨_, rfl, rfl, by simp⟩, by simp⟩
    · simp only [hs, if_false]
      cases hk : secretKey ing.ns secret with
      | none =>
        simp only []
        refine ⟨⟨cadj (Or.inl (by simp)), by simp [declSvc], by simp [declSvc]⟩, ⟨_, rfl, rfl, by simp⟩, by simp⟩
      | some sk =>
        simp only []
        refine ⟨⟨cadj (Or.inl (by simp)), by simp [declSvc], by simp [declSvc]⟩, ⟨_, rfl, rfl, ?_⟩, by simp⟩
        intro r hr
        simp at hr
        subst hr
        exact (cadj (t := t) (a := ⟨.host, host⟩) (b := ⟨.ing, ing.key⟩) (Or.inr (by simp))).trans
          (cadj (Or.inl (by simp)))
  | path p =>
    have pre' : Conn t ⟨.ing, ing.key⟩ ⟨.host, host⟩ := pre p rfl
    unfold outcome
    simp only []
    by_cases hp : (cur.getD { name := host }).hasPath (if p.path = "" then "/" else p.path) (matchOf p.ptype) = true
    · simp only [hp, if_true]
      have hsk := skippedEdges_spec rev hrev w ⟨ing, host, .path p⟩ p.svc p.port
      refine ⟨⟨conn_trackAll_mono pre', ?_, ?_⟩, ⟨_, rfl, rfl, by simp⟩, by simp⟩
      · intro s q hd
        simp [declSvc] at hd
        obtain ⟨rfl, rfl⟩ := hd
        exact cadj (Or.inl hsk.1)
      · intro s q sv tg hd hr
        simp [declSvc] at hd
        obtain ⟨rfl, rfl⟩ := hd
        exact cadj (Or.inl (hsk.2 sv tg hr))
    · simp only [hp]
      have hab := addBackend_spec w ⟨ing, host, .path p⟩ p.svc p.port
      simp only [] at hab
      obtain ⟨hsh, hreads, hok, hnone⟩ := hab
      rcases hr : addBackend w ⟨ing, host, .path p⟩ p.svc p.port with ⟨edges, reads, oid⟩
      rw [hr] at hsh hreads hok hnone
      simp only [] at hsh hreads hok hnone
      have hih : Conn (trackAll edges t) ⟨.ing, ing.key⟩ ⟨.host, host⟩ := conn_trackAll_mono pre'
      have hsvc : Conn (trackAll edges t) ⟨.ing, ing.key⟩ ⟨.svc, ing.ns ++ "/" ++ p.svc⟩ :=
        hih.trans (cadj (Or.inr hsh))
      cases oid with
      | none =>
        simp only []
        refine ⟨⟨hih, ?_, ?_⟩, ⟨_, rfl, rfl, ?_⟩, by simp⟩
        · intro s q hd
          simp [declSvc] at hd
          obtain ⟨rfl, rfl⟩ := hd
          exact hsvc
        · intro s q sv tg hd hres
          simp [declSvc] at hd
          obtain ⟨rfl, rfl⟩ := hd
          exact absurd hres (hnone rfl sv tg)
        · intro r hrr
          rcases hreads r hrr with h | ⟨id, hid, _⟩
          · exact cadj (Or.inr h)
          · cases hid
      | some id =>
        simp only []
        obtain ⟨hib, sv0, tg0, hres0, hid0⟩ := hok id rfl
        have hbk : Conn (trackAll edges t) ⟨.ing, ing.key⟩ ⟨.back, id⟩ := cadj (Or.inl hib)
        refine ⟨⟨hih, ?_, ?_⟩, ⟨_, rfl, rfl, ?_⟩, ?_⟩
        · intro s q hd
          simp [declSvc] at hd
          obtain ⟨rfl, rfl⟩ := hd
          exact hsvc
        · intro s q sv tg hd hres
          simp [declSvc] at hd
          obtain ⟨rfl, rfl⟩ := hd
          rw [hres0] at hres
          cases hres
          rw [← hid0]; exact hbk
        · intro r hrr
          rcases hreads r hrr with h | ⟨id', hid', h⟩
          · exact cadj (Or.inr h)
          · cases hid'
            exact (hih.symm.trans hbk).trans (cadj (Or.inl h))
        · intro id' bt hb
          simp at hb
          obtain ⟨rfl, rfl⟩ := hb
          refine ⟨rfl, hbk.symm, ?_⟩
          intro r hrr
          rcases hreads r hrr with h | ⟨id', hid', h⟩
          · exact (hbk.symm.trans hih).trans (cadj (Or.inr h))
          · cases hid'
            exact cadj (Or.inl h)
  | defBack svc port =>
    unfold outcome
    simp only []
    by_cases hps : ing.pseudo = true
    · -- `syncDefaultBackend`: pseudo source ↔ default host first, then `addBackend`
      simp only [hps, if_true]
      have hab := addBackend_spec w ⟨ing, host, .defBack svc port⟩ svc port
      simp only [] at hab
      obtain ⟨hsh, hreads, hok, hnone⟩ := hab
      rcases hr : addBackend w ⟨ing, host, .defBack svc port⟩ svc port with ⟨edges, reads, oid⟩
      rw [hr] at hsh hreads hok hnone
      simp only [] at hsh hreads hok hnone
      have hih : Conn (trackAll (((⟨.ing, ing.key⟩ : Node), (⟨.host, host⟩ : Node)) :: edges) t)
          ⟨.ing, ing.key⟩ ⟨.host, host⟩ := cadj (Or.inl (by simp))
      have hsvc : Conn (trackAll (((⟨.ing, ing.key⟩ : Node), (⟨.host, host⟩ : Node)) :: edges) t)
          ⟨.ing, ing.key⟩ ⟨.svc, ing.ns ++ "/" ++ svc⟩ :=
        hih.trans (cadj (Or.inr (List.mem_cons_of_mem _ hsh)))
      cases oid with
      | none =>
        simp only []
        refine ⟨⟨hih, ?_, ?_⟩, ⟨_, rfl, rfl, ?_⟩, by simp⟩
        · intro s q hd
          simp [declSvc] at hd
          obtain ⟨rfl, rfl⟩ := hd
          exact hsvc
        · intro s q sv tg hd hres
          simp [declSvc] at hd
          obtain ⟨rfl, rfl⟩ := hd
          exact absurd hres (hnone rfl sv tg)
        · intro r hrr
          rcases hreads r hrr with h | ⟨id, hid, _⟩
          · exact cadj (Or.inr (List.mem_cons_of_mem _ h))
          · cases hid
      | some id =>
        simp only []
        obtain ⟨hib, sv0, tg0, hres0, hid0⟩ := hok id rfl
        have hbk : Conn (trackAll (((⟨.ing, ing.key⟩ : Node), (⟨.host, host⟩ : Node)) :: edges) t)
            ⟨.ing, ing.key⟩ ⟨.back, id⟩ := cadj (Or.inl (List.mem_cons_of_mem _ hib))
        refine ⟨⟨hih, ?_, ?_⟩, ⟨_, rfl, rfl, ?_⟩, ?_⟩
        · intro s q hd
          simp [declSvc] at hd
          obtain ⟨rfl, rfl⟩ := hd
          exact hsvc
        · intro s q sv tg hd hres
          simp [declSvc] at hd
          obtain ⟨rfl, rfl⟩ := hd
          rw [hres0] at hres
          cases hres
          rw [← hid0]; exact hbk
        · intro r hrr
          rcases hreads r hrr with h | ⟨id', hid', h⟩
          · exact cadj (Or.inr (List.mem_cons_of_mem _ h))
          · cases hid'
            exact (hih.symm.trans hbk).trans (cadj (Or.inl (List.mem_cons_of_mem _ h)))
        · intro id' bt hb
          simp at hb
          obtain ⟨rfl, rfl⟩ := hb
          refine ⟨rfl, hbk.symm, ?_⟩
          intro r hrr
          rcases hreads r hrr with h | ⟨id', hid', h⟩
          · exact (hbk.symm.trans hih).trans (cadj (Or.inr (List.mem_cons_of_mem _ h)))
          · cases hid'
            exact cadj (Or.inl (List.mem_cons_of_mem _ h))
    simp only [hps, if_false]
    by_cases hp : (cur.getD { name := host }).hasPath "/" "begin" = true
    · simp only [hp, if_true]
      have hsk := skippedEdges_spec rev hrev w ⟨ing, host, .defBack svc port⟩ svc port
      refine ⟨⟨cadj (Or.inl (by simp)), ?_, ?_⟩, ⟨_, rfl, rfl, by simp⟩, by simp⟩
      · intro s q hd
        simp [declSvc] at hd
        obtain ⟨rfl, rfl⟩ := hd
        exact cadj (Or.inl (List.mem_cons_of_mem _ hsk.1))
      · intro s q sv tg hd hr
        simp [declSvc] at hd
        obtain ⟨rfl, rfl⟩ := hd
        exact cadj (Or.inl (List.mem_cons_of_mem _ (hsk.2 sv tg hr)))
    · simp only [hp]
      have hab := addBackend_spec w ⟨ing, host, .defBack svc port⟩ svc port
      simp only [] at hab
      obtain ⟨hsh, hreads, hok, hnone⟩ := hab
      rcases hr : addBackend w ⟨ing, host, .defBack svc port⟩ svc port with ⟨edges, reads, oid⟩
      rw [hr] at hsh hreads hok hnone
      simp only [] at hsh hreads hok hnone
      cases oid with
      | none =>
        simp only []
        have hsvc : Conn (trackAll (edges ++ [((⟨.ing, ing.key⟩ : Node), (⟨.svc, ing.ns ++ "/" ++ svc⟩ : Node))]) t)
            ⟨.ing, ing.key⟩ ⟨.svc, ing.ns ++ "/" ++ svc⟩ := cadj (Or.inl (by simp))
        have hih : Conn (trackAll (edges ++ [((⟨.ing, ing.key⟩ : Node), (⟨.svc, ing.ns ++ "/" ++ svc⟩ : Node))]) t)
            ⟨.ing, ing.key⟩ ⟨.host, host⟩ :=
          hsvc.trans (cadj (Or.inl (List.mem_append_left _ hsh)))
        refine ⟨⟨hih, ?_, ?_⟩, ⟨_, rfl, rfl, ?_⟩, by simp⟩
        · intro s q hd
          simp [declSvc] at hd
          obtain ⟨rfl, rfl⟩ := hd
          exact hsvc
        · intro s q sv tg hd hres
          simp [declSvc] at hd
          obtain ⟨rfl, rfl⟩ := hd
          exact absurd hres (hnone rfl sv tg)
        · intro r hrr
          rcases hreads r hrr with h | ⟨id, hid, _⟩
          · exact cadj (Or.inr (List.mem_append_left _ h))
          · cases hid
      | some id =>
        simp only []
        obtain ⟨hib, sv0, tg0, hres0, hid0⟩ := hok id rfl
        have hih : Conn (trackAll (edges ++ [((⟨.ing, ing.key⟩ : Node), (⟨.host, host⟩ : Node))]) t)
            ⟨.ing, ing.key⟩ ⟨.host, host⟩ := cadj (Or.inl (by simp))
        have hbk : Conn (trackAll (edges ++ [((⟨.ing, ing.key⟩ : Node), (⟨.host, host⟩ : Node))]) t)
            ⟨.ing, ing.key⟩ ⟨.back, id⟩ := cadj (Or.inl (List.mem_append_left _ hib))
        have hsvc : Conn (trackAll (edges ++ [((⟨.ing, ing.key⟩ : Node), (⟨.host, host⟩ : Node))]) t)
            ⟨.ing, ing.key⟩ ⟨.svc, ing.ns ++ "/" ++ svc⟩ :=
          hih.trans (cadj (Or.inr (List.mem_append_left _ hsh)))
        refine ⟨⟨hih, ?_, ?_⟩, ⟨_, rfl, rfl, ?_⟩, ?_⟩
        · intro s q hd
          simp [declSvc] at hd
          obtain ⟨rfl, rfl⟩ := hd
          exact hsvc
        · intro s q sv tg hd hres
          simp [declSvc] at hd
          obtain ⟨rfl, rfl⟩ := hd
          rw [hres0] at hres
          cases hres
          rw [← hid0]; exact hbk
        · intro r hrr
          rcases hreads r hrr with h | ⟨id', hid', h⟩
          · exact cadj (Or.inr (List.mem_append_left _ h))
          · cases hid'
            exact (hih.symm.trans hbk).trans (cadj (Or.inl (List.mem_append_left _ h)))
        · intro id' bt hb
          simp at hb
          obtain ⟨rfl, rfl⟩ := hb
          refine ⟨rfl, hbk.symm, ?_⟩
          intro r hrr
          rcases hreads r hrr with h | ⟨id', hid', h⟩
          · exact (hbk.symm.trans hih).trans (cadj (Or.inr (List.mem_append_left _ h)))
          · cases hid'
            exact cadj (Or.inl (List.mem_append_left _ h))

/-! ### runs preserve `TrackComplete` and leave the processed declarations linked -/

/-- every item is connected to the ingress of each touch in its trace and to every object read for it -/
structure TrackComplete (st : St) : Prop where
  host : ∀ h x, st.hm h = some x → ∀ t ∈ x.trace, touchOK st.tr ⟨.host, h⟩ t
  back : ∀ b, ∀ t ∈ st.bm b, touchOK st.tr ⟨.back, b⟩ t
  ne : ∀ h x, st.hm h = some x → x.trace ≠ []

theorem trackComplete_empty : TrackComplete {} := by
  refine ⟨?_, ?_, ?_⟩ <;> intros <;> simp_all [St.hm, St.bm, St.findHost, St.findBack]

theorem procDecl_tr (rev : Rev) (w : World) (st : St) (d : Decl) :
    (procDecl rev w st d).tr = trackAll (outcome rev w (st.hm d.host) d).edges st.tr := rfl

theorem procDecl_tr_sub (rev : Rev) (w : World) (st : St) (d : Decl) :
    ∀ e ∈ st.tr, e ∈ (procDecl rev w st d).tr := by
  intro e he
  rw [procDecl_tr]
  exact mem_trackAll.mpr (Or.inr he)

theorem procs_tr_sub (rev : Rev) (w : World) (ds : List Decl) (st : St) :
    ∀ e ∈ st.tr, e ∈ (procs rev w ds st).tr := by
  induction ds generalizing st with
  | nil => intro e he; exact he
  | cons d ds ih =>
    intro e he
    exact ih (procDecl rev w st d) e (procDecl_tr_sub rev w st d e he)

/-- one declaration -/
theorem procDecl_post (rev : Rev) (hrev : 2 ≤ rev) (w : World) (st : St) (d : Decl)
    (htc : TrackComplete st)
    (pre : ∀ p, d.k = .path p → Conn st.tr ⟨.ing, d.ing.key⟩ ⟨.host, d.host⟩) :
    TrackComplete (procDecl rev w st d) ∧ DeclLinked w (procDecl rev w st d).tr d := by
  obtain ⟨hlink, ⟨tch, htr, hting, hreads⟩, hback⟩ := outcome_post rev hrev w (st.hm d.host) d st.tr pre
  have hsub := procDecl_tr_sub rev w st d
  refine ⟨⟨?_, ?_, ?_⟩, hlink⟩
  · intro h x hx t ht
    rw [procDecl_hm] at hx
    unfold HM.set at hx
    by_cases hh : h = d.host
    · simp only [hh, if_true] at hx
      cases hx
      rw [htr] at ht
      subst hh
      rcases List.mem_append.mp ht with ht | ht
      · cases hcur : st.hm d.host with
        | none => simp [hcur] at ht
        | some x0 =>
          simp only [hcur, Option.getD_some] at ht
          exact (htc.host _ x0 hcur t ht).mono hsub
      · simp at ht
        subst ht
        exact ⟨by rw [hting]; exact hlink.1.symm, hreads⟩
    · simp only [hh, if_false] at hx
      exact (htc.host h x hx t ht).mono hsub
  · intro b t ht
    rw [procDecl_bm] at ht
    unfold BM.add at ht
    cases ho : (outcome rev w (st.hm d.host) d).back with
    | none =>
      simp only [ho] at ht
      exact (htc.back b t ht).mono hsub
    | some q =>
      obtain ⟨id, bt⟩ := q
      simp only [ho] at ht
      by_cases hb : b = id
      · simp only [hb, if_true] at ht
        subst hb
        rcases List.mem_append.mp ht with ht | ht
        · exact (htc.back b t ht).mono hsub
        · simp at ht
          subst ht
          obtain ⟨h1, h2, h3⟩ := hback b t ho
          exact ⟨by rw [h1]; exact h2, h3⟩
      · simp only [hb, if_false] at ht
        exact (htc.back b t ht).mono hsub
  · intro h x hx
    rw [procDecl_hm] at hx
    unfold HM.set at hx
    by_cases hh : h = d.host
    · simp only [hh, if_true] at hx
      cases hx
      rw [htr]
      simp
    · simp only [hh, if_false] at hx
      exact htc.ne h x hx

/-- every path declaration comes after a `ruleHost` declaration of the same ingress and host
(`seen`: the pairs already processed) -/
def Guarded : List (String × String) → List Decl → Prop
  | _, [] => True
  | seen, d :: ds =>
    (∀ p, d.k = .path p → (d.ing.key, d.host) ∈ seen) ∧
    Guarded (if d.k = .ruleHost then (d.ing.key, d.host) :: seen else seen) ds

theorem Guarded.mono {seen seen' : List (String × String)} {ds : List Decl}
    (hs : ∀ x ∈ seen, x ∈ seen') (h : Guarded seen ds) : Guarded seen' ds := by
  induction ds generalizing seen seen' with
  | nil => trivial
  | cons d ds ih =>
    obtain ⟨h1, h2⟩ := h
    refine ⟨fun p hp => hs _ (h1 p hp), ?_⟩
    apply ih _ h2
    intro x hx
    by_cases hk : d.k = .ruleHost
    · simp only [hk, if_true] at hx ⊢
      rcases List.mem_cons.mp hx with hx | hx
      · exact hx ▸ List.mem_cons_self ..
      · exact List.mem_cons_of_mem _ (hs x hx)
    · simp only [hk, if_false] at hx ⊢
      exact hs x hx

theorem guarded_append {seen : List (String × String)} {a b : List Decl}
    (ha : Guarded seen a) (hb : ∀ seen', Guarded seen' b) : Guarded seen (a ++ b) := by
  induction a generalizing seen with
  | nil => exact hb seen
  | cons d a ih => exact ⟨ha.1, ih ha.2⟩

theorem guarded_of_no_path {seen : List (String × String)} {ds : List Decl}
    (h : ∀ d ∈ ds, ∀ p, d.k ≠ .path p) : Guarded seen ds := by
  induction ds generalizing seen with
  | nil => trivial
  | cons d ds ih =>
    exact ⟨fun p hp => absurd hp (h d (List.mem_cons_self ..) p),
      ih (fun d' hd' => h d' (List.mem_cons_of_mem _ hd'))⟩

theorem guarded_chunk (seen : List (String × String)) (i : Ingress) (r : Rule) :
    Guarded seen (({ ing := i, host := normHost r.host, k := .ruleHost } : Decl) ::
      r.paths.map fun p => ({ ing := i, host := normHost r.host, k := .path p } : Decl)) := by
  refine ⟨(by intro p hp; cases hp), ?_⟩
  simp only [if_true]
  generalize hseen : ((i.key, normHost r.host) :: seen) = seen'
  have hmem : (i.key, normHost r.host) ∈ seen' := by rw [← hseen]; exact List.mem_cons_self ..
  clear hseen
  induction r.paths generalizing seen' with
  | nil => trivial
  | cons p ps ih =>
    refine ⟨fun _ _ => hmem, ?_⟩
    have : ¬ (DK.path p = DK.ruleHost) := by intro h; cases h
    simp only [List.map_cons, this, if_false]
    exact ih seen' hmem

theorem guarded_declsOf (seen : List (String × String)) (i : Ingress) : Guarded seen (declsOf i) := by
  unfold declsOf
  apply guarded_append
  · apply guarded_append
    · apply guarded_of_no_path
      intro d hd p
      cases hdb : i.defBackend with
      | none => simp [hdb] at hd
      | some q => obtain ⟨s, pp⟩ := q; simp [hdb] at hd; subst hd; intro h; cases h
    · intro seen'
      induction i.rules generalizing seen' with
      | nil => trivial
      | cons r rs ih =>
        simp only [List.flatMap_cons]
        exact guarded_append (guarded_chunk seen' i r) ih
  · intro seen'
    apply guarded_of_no_path
    intro d hd p
    simp only [List.mem_flatMap, List.mem_map] at hd
    obtain ⟨t, _, h, _, rfl⟩ := hd
    intro h; cases h

theorem guarded_flatMap (seen : List (String × String)) (L : List Ingress) :
    Guarded seen (L.flatMap declsOf) := by
  induction L generalizing seen with
  | nil => trivial
  | cons i L ih =>
    simp only [List.flatMap_cons]
    exact guarded_append (guarded_declsOf seen i) ih

/-- LEMMA B: a run over a guarded list preserves `TrackComplete` and links every processed declaration -/
theorem procs_post (rev : Rev) (hrev : 2 ≤ rev) (w : World) (ds : List Decl) (st : St)
    (seen : List (String × String))
    (htc : TrackComplete st)
    (hseen : ∀ x ∈ seen, Conn st.tr ⟨.ing, x.1⟩ ⟨.host, x.2⟩)
    (hg : Guarded seen ds) :
    TrackComplete (procs rev w ds st) ∧ ∀ d ∈ ds, DeclLinked w (procs rev w ds st).tr d := by
  induction ds generalizing st seen with
  | nil => exact ⟨htc, by simp⟩
  | cons d ds ih =>
    obtain ⟨hg1, hg2⟩ := hg
    obtain ⟨htc1, hl1⟩ := procDecl_post rev hrev w st d htc (fun p hp => hseen _ (hg1 p hp))
    have hsub := procDecl_tr_sub rev w st d
    have hseen' : ∀ x ∈ (if d.k = .ruleHost then (d.ing.key, d.host) :: seen else seen),
        Conn (procDecl rev w st d).tr ⟨.ing, x.1⟩ ⟨.host, x.2⟩ := by
      intro x hx
      by_cases hk : d.k = .ruleHost
      · simp only [hk, if_true] at hx
        rcases List.mem_cons.mp hx with hx | hx
        · subst hx; exact hl1.1
        · exact (hseen x hx).mono hsub
      · simp only [hk, if_false] at hx
        exact (hseen x hx).mono hsub
    obtain ⟨htc2, hl2⟩ := ih (procDecl rev w st d) _ htc1 hseen' hg2
    refine ⟨htc2, ?_⟩
    intro d' hd'
    rcases List.mem_cons.mp hd' with hd' | hd'
    · rw [hd']
      exact hl1.mono (procs_tr_sub rev w ds (procDecl rev w st d))
    · exact hl2 d' hd'

theorem declsOf_ing {i : Ingress} {d : Decl} (hd : d ∈ declsOf i) : d.ing = i := by
  unfold declsOf at hd
  simp only [List.mem_append, List.mem_flatMap, List.mem_cons, List.mem_map] at hd
  rcases hd with (hd | ⟨r, _, hd | ⟨p, _, hd⟩⟩) | ⟨t, _, h, _, hd⟩
  · cases hdb : i.defBackend with
    | none => simp [hdb] at hd
    | some q => obtain ⟨s, pp⟩ := q; simp [hdb] at hd; subst hd; rfl
  · subst hd; rfl
  · subst hd; rfl
  · subst hd; rfl

/-- a whole list of ingresses (full sync, or the re-synced list of a partial sync) -/
theorem syncList_post (rev : Rev) (hrev : 2 ≤ rev) (w : World) (L : List Ingress) (st : St)
    (htc : TrackComplete st) :
    TrackComplete (L.foldl (syncIngress rev w) st) ∧
      ∀ i ∈ L, ∀ d ∈ declsOf i, DeclLinked w (L.foldl (syncIngress rev w) st).tr d := by
  rw [syncList_eq_procs]
  obtain ⟨h1, h2⟩ := procs_post rev hrev w (L.flatMap declsOf) st [] htc (by simp) (guarded_flatMap [] L)
  exact ⟨h1, fun i hi d hd => h2 d (List.mem_flatMap.mpr ⟨i, hi, hd⟩)⟩

end HapVerif.C01
