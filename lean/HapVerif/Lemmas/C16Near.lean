import HapVerif.Lemmas.C16Round
import HapVerif.Lemmas.C16Core
/-!
# C16 — E3 machinery: accumulation of relative rounding errors

`Near k x y`: `y` is `x` perturbed by at most `k` roundings of relative error `u = 2^-24`,
written multiplicatively with `r = 1 - u`:  `x·r^k ≤ y` and `y·r^k ≤ x`.  The relation is
closed under rounding (`k+1`), product and quotient (`k₁+k₂`), which makes the analysis of
the float expression of `RebalanceWeight` mechanical (`preW_near`).

Also here: the separation of two distinct configured ratios (`ratio_gap`), which is what
makes the order clause survive rounding.
-/
namespace HapVerif.C16

/-- `1 - 2^-24` -/
def rr : Rat := 1 - 1 / 2 ^ 24

theorem rr_pos : 0 < rr := by unfold rr; norm_num
theorem rr_le_one : rr ≤ 1 := by unfold rr; norm_num
theorem rr_pow_pos (k : Nat) : 0 < rr ^ k := pow_pos rr_pos k
theorem rr_pow_le_one (k : Nat) : rr ^ k ≤ 1 := pow_le_one₀ (le_of_lt rr_pos) rr_le_one

def Near (k : Nat) (x y : Rat) : Prop := x * rr ^ k ≤ y ∧ y * rr ^ k ≤ x

theorem near_refl (x : Rat) : Near 0 x x := by simp [Near]

theorem near_nonneg {k : Nat} {x y : Rat} (hx : 0 ≤ x) (h : Near k x y) : 0 ≤ y :=
  le_trans (mul_nonneg hx (le_of_lt (rr_pow_pos k))) h.1

theorem near_pos {k : Nat} {x y : Rat} (hx : 0 < x) (h : Near k x y) : 0 < y :=
  lt_of_lt_of_le (mul_pos hx (rr_pow_pos k)) h.1

theorem near_zero {k : Nat} {y : Rat} (h : Near k 0 y) : y = 0 := by
  have h1 := h.1; have h2 := h.2
  rw [zero_mul] at h1
  have : y * rr ^ k ≤ 0 := h2
  have hp := rr_pow_pos k
  have : y ≤ 0 := by
    by_contra hc
    have : 0 < y * rr ^ k := mul_pos (not_le.1 hc) hp
    linarith
  linarith

theorem near_mono {k k' : Nat} {x y : Rat} (hx : 0 ≤ x) (hk : k ≤ k') (h : Near k x y) : Near k' x y := by
  have hy := near_nonneg hx h
  have hle : rr ^ k' ≤ rr ^ k := pow_le_pow_of_le_one (le_of_lt rr_pos) rr_le_one hk
  exact ⟨le_trans (mul_le_mul_of_nonneg_left hle hx) h.1, le_trans (mul_le_mul_of_nonneg_left hle hy) h.2⟩

theorem near_rnd {rnd : Rat → Rat} (R : Rounding rnd) {k : Nat} {x y : Rat} (hx : 0 ≤ x)
    (h : Near k x y) : Near (k + 1) x (rnd y) := by
  have hy := near_nonneg hx h
  have hr := abs_le.1 (R.rel y)
  rw [abs_of_nonneg hy] at hr
  have hp := rr_pow_pos k
  have l1 : y * rr ≤ rnd y := by unfold rr; linarith [hr.1]
  have u1 : rnd y ≤ y * (1 + 1 / 2 ^ 24) := by linarith [hr.2]
  constructor
  · calc x * rr ^ (k + 1) = (x * rr ^ k) * rr := by ring
      _ ≤ y * rr := mul_le_mul_of_nonneg_right h.1 (le_of_lt rr_pos)
      _ ≤ rnd y := l1
  · have e : (1 + 1 / 2 ^ 24 : Rat) * rr ≤ 1 := by unfold rr; norm_num
    calc rnd y * rr ^ (k + 1) ≤ (y * (1 + 1 / 2 ^ 24)) * rr ^ (k + 1) :=
          mul_le_mul_of_nonneg_right u1 (le_of_lt (rr_pow_pos _))
      _ = (y * rr ^ k) * ((1 + 1 / 2 ^ 24) * rr) := by ring
      _ ≤ (y * rr ^ k) * 1 := mul_le_mul_of_nonneg_left e (mul_nonneg hy (le_of_lt hp))
      _ ≤ x := by rw [mul_one]; exact h.2

/-- one rounding of an exactly known value -/
theorem near_rnd0 {rnd : Rat → Rat} (R : Rounding rnd) {x : Rat} (hx : 0 ≤ x) : Near 1 x (rnd x) :=
  near_rnd R hx (near_refl x)

theorem near_mul {k1 k2 : Nat} {x1 x2 y1 y2 : Rat} (h1x : 0 ≤ x1) (h2x : 0 ≤ x2)
    (h1 : Near k1 x1 y1) (h2 : Near k2 x2 y2) : Near (k1 + k2) (x1 * x2) (y1 * y2) := by
  have hy1 := near_nonneg h1x h1
  have hy2 := near_nonneg h2x h2
  have p1 := rr_pow_pos k1
  have p2 := rr_pow_pos k2
  constructor
  · calc x1 * x2 * rr ^ (k1 + k2) = (x1 * rr ^ k1) * (x2 * rr ^ k2) := by rw [pow_add]; ring
      _ ≤ y1 * y2 := mul_le_mul h1.1 h2.1 (mul_nonneg h2x (le_of_lt p2)) hy1
  · calc y1 * y2 * rr ^ (k1 + k2) = (y1 * rr ^ k1) * (y2 * rr ^ k2) := by rw [pow_add]; ring
      _ ≤ x1 * x2 := mul_le_mul h1.2 h2.2 (mul_nonneg hy2 (le_of_lt p2)) h1x

theorem near_div {k1 k2 : Nat} {x1 x2 y1 y2 : Rat} (h1x : 0 ≤ x1) (h2x : 0 < x2)
    (h1 : Near k1 x1 y1) (h2 : Near k2 x2 y2) : Near (k1 + k2) (x1 / x2) (y1 / y2) := by
  have hy1 := near_nonneg h1x h1
  have hy2 := near_pos h2x h2
  have p1 := rr_pow_pos k1
  have p2 := rr_pow_pos k2
  constructor
  · rw [le_div_iff₀ hy2, div_mul_eq_mul_div, div_mul_eq_mul_div, div_le_iff₀ h2x]
    calc x1 * rr ^ (k1 + k2) * y2 = (x1 * rr ^ k1) * (y2 * rr ^ k2) := by rw [pow_add]; ring
      _ ≤ y1 * x2 := mul_le_mul h1.1 h2.2 (mul_nonneg (le_of_lt hy2) (le_of_lt p2)) hy1
  · rw [div_mul_eq_mul_div, div_le_iff₀ hy2, div_mul_eq_mul_div, le_div_iff₀ h2x]
    calc y1 * rr ^ (k1 + k2) * x2 = (y1 * rr ^ k1) * (x2 * rr ^ k2) := by rw [pow_add]; ring
      _ ≤ x1 * y2 := mul_le_mul h1.2 h2.1 (mul_nonneg (le_of_lt h2x) (le_of_lt p2)) h1x

/-! ## the float expression -/

section chain
variable {rnd : Rat → Rat} (R : Rounding rnd)
include R

theorem wfm_near {initial : Int} {a : Acc} (hi : 0 < initial) (hg : 0 < a.g) (hmn : 0 < a.mn) :
    Near 3 ((initial : Rat) * a.g / a.mn) (wfmOf rnd initial a) := by
  have hi' : (0 : Rat) < initial := by exact_mod_cast hi
  have hg' : (0 : Rat) < a.g := by exact_mod_cast hg
  have hmn' : (0 : Rat) < a.mn := by exact_mod_cast hmn
  unfold wfmOf
  have n1 := near_rnd0 R (x := (initial : Rat) * a.g) (by positivity)
  have n2 := near_rnd0 R (x := (a.mn : Rat)) (by positivity)
  have n3 := near_div (by positivity) hmn' n1 n2
  exact near_rnd R (by positivity) n3

theorem wf_near {initial : Int} {a : Acc} (hi : 0 < initial) (hg : 0 < a.g) (hmn : 0 < a.mn)
    (hmx : 0 < a.mx) :
    Near 7 ((initial : Rat) * a.mx / (256 * a.mn)) (wfOf rnd initial a) := by
  have hi' : (0 : Rat) < initial := by exact_mod_cast hi
  have hg' : (0 : Rat) < a.g := by exact_mod_cast hg
  have hmn' : (0 : Rat) < a.mn := by exact_mod_cast hmn
  have hmx' : (0 : Rat) < a.mx := by exact_mod_cast hmx
  have e : (initial : Rat) * a.mx / (256 * a.mn) =
      ((initial : Rat) * a.g / a.mn) * a.mx / (256 * a.g) := by field_simp
  rw [e]
  unfold wfOf
  have n0 := wfm_near R hi hg hmn
  have n1 := near_rnd0 R (x := (a.mx : Rat)) (by positivity)
  have n2 := near_mul (by positivity) (by positivity) n0 n1
  have n3 := near_rnd R (by positivity) n2
  have n4 := near_rnd0 R (x := (256 : Rat) * a.g) (by positivity)
  have n5 := near_div (by positivity) (by positivity) n3 n4
  exact near_rnd R (by positivity) n5

/-- the float-mode scale: which branch is taken is decided by the *computed* `wf` -/
def scaleF (rnd : Rat → Rat) (initial : Int) (a : Acc) : Rat :=
  if wfOf rnd initial a > 1 then 256 / (a.mx : Rat) else (initial : Rat) / a.mn

/-- at most 15 roundings separate the truncated value from `scaleF * clusterWeight` -/
theorem preW_near {initial lcm : Int} {a : Acc} {c : Cluster} (hi : 0 < initial) (hg : 0 < a.g)
    (hmn : 0 < a.mn) (hmx : 0 < a.mx) (hL : 0 < lcm) (hd : c.length ∣ lcm) (hl : 0 < c.length)
    (hw : 0 ≤ c.weight) :
    Near 15 (scaleF rnd initial a * (clusterWeight lcm c : Rat))
      (preW rnd lcm a.g (wfmOf rnd initial a) (wfOf rnd initial a) c) := by
  have hi' : (0 : Rat) < initial := by exact_mod_cast hi
  have hg' : (0 : Rat) < a.g := by exact_mod_cast hg
  have hmn' : (0 : Rat) < a.mn := by exact_mod_cast hmn
  have hmx' : (0 : Rat) < a.mx := by exact_mod_cast hmx
  have hL' : (0 : Rat) < lcm := by exact_mod_cast hL
  have hl' : (0 : Rat) < c.length := by exact_mod_cast hl
  have hw' : (0 : Rat) ≤ c.weight := by exact_mod_cast hw
  rw [clusterWeight_cast hd (by omega)]
  -- the common sub-expression `weight`
  have n0 := wfm_near R hi hg hmn
  have n1 := near_rnd0 R (x := (c.weight : Rat) * lcm) (by positivity)
  have n2 := near_mul (by positivity) (by positivity) n0 n1
  have n3 := near_rnd R (by positivity) n2
  have n4 := near_rnd0 R (x := (c.length : Rat) * a.g) (by positivity)
  have n5 := near_div (by positivity) (by positivity) n3 n4
  have n6 := near_rnd R (by positivity) n5
  unfold preW scaleF
  by_cases hm : wfOf rnd initial a > 1
  · simp only [hm, if_true]
    have n7 := wf_near R hi hg hmn hmx
    have n8 := near_div (by positivity) (by positivity) n6 n7
    have n9 := near_rnd R (by positivity) n8
    have e : (initial : Rat) * a.g / a.mn * ((c.weight : Rat) * lcm) / ((c.length : Rat) * a.g) /
        ((initial : Rat) * a.mx / (256 * a.mn)) = 256 / (a.mx : Rat) * ((c.weight : Rat) * lcm / c.length) := by
      field_simp
    rw [e] at n9
    exact n9
  · simp only [hm, if_false]
    have e : (initial : Rat) * a.g / a.mn * ((c.weight : Rat) * lcm) / ((c.length : Rat) * a.g) =
        (initial : Rat) / a.mn * ((c.weight : Rat) * lcm / c.length) := by
      field_simp
    rw [e] at n6
    exact near_mono (by positivity) (by norm_num) n6

/-- in either branch the ideal value is at most `256 / r^7` -/
theorem scaleF_bound {initial : Int} {a : Acc} {cw : Int} (hi : 0 < initial) (hg : 0 < a.g)
    (hmn : 0 < a.mn) (hmx : 0 < a.mx) (h0 : 0 ≤ cw) (h1 : cw ≤ a.mx) :
    scaleF rnd initial a * (cw : Rat) * rr ^ 7 ≤ 256 := by
  have hi' : (0 : Rat) < initial := by exact_mod_cast hi
  have hmn' : (0 : Rat) < a.mn := by exact_mod_cast hmn
  have hmx' : (0 : Rat) < a.mx := by exact_mod_cast hmx
  have c0 : (0 : Rat) ≤ cw := by exact_mod_cast h0
  have c1 : (cw : Rat) ≤ a.mx := by exact_mod_cast h1
  have p7 := rr_pow_pos 7
  have p7' := rr_pow_le_one 7
  unfold scaleF
  split
  · have : 256 / (a.mx : Rat) * (cw : Rat) ≤ 256 := by
      rw [div_mul_eq_mul_div, div_le_iff₀ hmx']; nlinarith
    calc 256 / (a.mx : Rat) * (cw : Rat) * rr ^ 7 ≤ 256 / (a.mx : Rat) * (cw : Rat) * 1 :=
          mul_le_mul_of_nonneg_left p7' (by positivity)
      _ ≤ 256 := by rw [mul_one]; exact this
  · rename_i hm
    have hm' := not_lt.1 hm
    have n7 := wf_near R hi hg hmn hmx
    have h2 : (initial : Rat) * a.mx / (256 * a.mn) * rr ^ 7 ≤ 1 := le_trans n7.1 hm'
    have h3 : (initial : Rat) / a.mn * (cw : Rat) ≤ 256 * ((initial : Rat) * a.mx / (256 * a.mn)) := by
      have e : 256 * ((initial : Rat) * a.mx / (256 * a.mn)) = (initial : Rat) / a.mn * a.mx := by
        field_simp
      rw [e]; exact mul_le_mul_of_nonneg_left c1 (by positivity)
    calc (initial : Rat) / a.mn * (cw : Rat) * rr ^ 7
        ≤ 256 * ((initial : Rat) * a.mx / (256 * a.mn)) * rr ^ 7 :=
          mul_le_mul_of_nonneg_right h3 (le_of_lt p7)
      _ = 256 * ((initial : Rat) * a.mx / (256 * a.mn) * rr ^ 7) := by ring
      _ ≤ 256 * 1 := mul_le_mul_of_nonneg_left h2 (by norm_num)
      _ = 256 := by ring

omit R in
theorem scaleF_pos {initial : Int} {a : Acc} (hi : 0 < initial) (hmn : 0 < a.mn) (hmx : 0 < a.mx) :
    0 < scaleF rnd initial a := by
  have hi' : (0 : Rat) < initial := by exact_mod_cast hi
  have hmn' : (0 : Rat) < a.mn := by exact_mod_cast hmn
  have hmx' : (0 : Rat) < a.mx := by exact_mod_cast hmx
  unfold scaleF; split <;> positivity

end chain

/-! ## separation of distinct ratios -/

/-- Two groups whose lengths divide an `L < 2^16` and whose weights are at most 256: if the
configured per-replica shares differ at all, they differ by a factor `≥ 1 + 2^-16`. -/
theorem ratio_gap {p q : Cluster} {L : Int} (hL : 0 < L) (hL16 : L < 2 ^ 16)
    (hlp : 0 < p.length) (hlq : 0 < q.length) (hdp : p.length ∣ L) (hdq : q.length ∣ L)
    (hwp : 0 ≤ p.weight) (hwq : q.weight ≤ 256) (hwp' : p.weight ≤ 256)
    (hr : ratio p < ratio q) : ratio p * (1 + 1 / 2 ^ 16) ≤ ratio q := by
  have hlp' : (0 : Rat) < p.length := by exact_mod_cast hlp
  have hlq' : (0 : Rat) < q.length := by exact_mod_cast hlq
  -- integer form of the hypothesis
  have hAB : p.weight * q.length < q.weight * p.length := by
    unfold ratio at hr
    rw [div_lt_div_iff₀ hlp' hlq'] at hr
    exact_mod_cast hr
  -- gcd and lcm of the two lengths
  obtain ⟨d1, hd1⟩ := Int.gcd_dvd_left p.length q.length
  obtain ⟨d2, hd2⟩ := Int.gcd_dvd_right p.length q.length
  have hdpos : 0 < (Int.gcd p.length q.length : Int) := by
    have : 0 < Int.gcd p.length q.length := Int.gcd_pos_of_ne_zero_left _ (by omega)
    exact_mod_cast this
  have hgl : (Int.gcd p.length q.length : Int) * (Int.lcm p.length q.length : Int) = p.length * q.length := by
    have := Int.gcd_mul_lcm p.length q.length
    have h2 : ((Int.gcd p.length q.length * Int.lcm p.length q.length : Nat) : Int) =
        ((p.length.natAbs * q.length.natAbs : Nat) : Int) := by rw [this]
    push_cast at h2
    rw [abs_of_pos hlp, abs_of_pos hlq] at h2
    exact h2
  have hlcm_le : (Int.lcm p.length q.length : Int) ≤ L := by
    have hLn : L = ((L.toNat : Nat) : Int) := (Int.toNat_of_nonneg (le_of_lt hL)).symm
    have h1 : p.length ∣ ((L.toNat : Nat) : Int) := hLn ▸ hdp
    have h2 : q.length ∣ ((L.toNat : Nat) : Int) := hLn ▸ hdq
    have := Int.lcm_dvd h1 h2
    have hpos : 0 < L.toNat := by omega
    have := Nat.le_of_dvd hpos this
    omega
  -- d divides the difference
  have hdiff : (Int.gcd p.length q.length : Int) ≤ q.weight * p.length - p.weight * q.length := by
    apply Int.le_of_dvd (by omega)
    exact dvd_sub (Dvd.dvd.mul_left (Int.gcd_dvd_left _ _) _) (Dvd.dvd.mul_left (Int.gcd_dvd_right _ _) _)
  -- A < 2^16 * d
  have hA0 : 0 ≤ p.weight * q.length := Int.mul_nonneg hwp (le_of_lt hlq)
  have hAd : p.weight * q.length < 2 ^ 16 * (Int.gcd p.length q.length : Int) := by
    by_contra hc
    have hc' := not_lt.1 hc
    -- A^2 ≥ (2^16 d)^2 but A^2 < A*B ≤ 2^16 * d * lcm < 2^32 d
    have s1 : (2 ^ 16 * (Int.gcd p.length q.length : Int)) * (2 ^ 16 * (Int.gcd p.length q.length : Int)) ≤
        (p.weight * q.length) * (p.weight * q.length) :=
      Int.mul_le_mul hc' hc' (by positivity) hA0
    have s2 : (p.weight * q.length) * (p.weight * q.length) ≤ (p.weight * q.length) * (q.weight * p.length) :=
      Int.mul_le_mul_of_nonneg_left (le_of_lt hAB) hA0
    have s3 : (p.weight * q.length) * (q.weight * p.length) = (p.weight * q.weight) * (p.length * q.length) := by ring
    have hq0 : 0 ≤ q.weight := by
      by_contra hneg
      have hq' : q.weight ≤ 0 := by omega
      have : q.weight * p.length ≤ 0 := Int.mul_nonpos_of_nonpos_of_nonneg hq' (le_of_lt hlp)
      omega
    have s4 : p.weight * q.weight ≤ 256 * 256 := Int.mul_le_mul hwp' hwq hq0 (by norm_num)
    have s5 : (p.weight * q.weight) * (p.length * q.length) ≤ (256 * 256) * (p.length * q.length) :=
      Int.mul_le_mul_of_nonneg_right s4 (Int.mul_nonneg (le_of_lt hlp) (le_of_lt hlq))
    rw [← hgl] at s5
    have s6 : (Int.gcd p.length q.length : Int) * (Int.lcm p.length q.length : Int) <
        (Int.gcd p.length q.length : Int) * 2 ^ 16 :=
      Int.mul_lt_mul_of_pos_left (lt_of_le_of_lt hlcm_le hL16) hdpos
    have s7 : (Int.gcd p.length q.length : Int) * 2 ^ 16 ≤
        (Int.gcd p.length q.length : Int) * 2 ^ 16 * (Int.gcd p.length q.length : Int) := by
      nlinarith
    nlinarith
  -- conclude
  have hfin : p.weight * q.length * (2 ^ 16 + 1) ≤ q.weight * p.length * 2 ^ 16 := by nlinarith
  unfold ratio
  rw [div_mul_eq_mul_div, div_le_div_iff₀ hlp' hlq']
  have hfin' : ((p.weight * q.length * (2 ^ 16 + 1) : Int) : Rat) ≤ ((q.weight * p.length * 2 ^ 16 : Int) : Rat) := by
    exact_mod_cast hfin
  push_cast at hfin'
  have e : (p.weight : Rat) * (1 + 1 / 2 ^ 16) * q.length =
      ((p.weight : Rat) * q.length * (2 ^ 16 + 1)) / 2 ^ 16 := by field_simp
  rw [e, div_le_iff₀ (by positivity)]
  linarith

end HapVerif.C16
