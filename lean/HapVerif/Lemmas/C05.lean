import HapVerif.Model.C05
/-! Lemmas for C05: the invariant tying `Store` to `Disk` and its preservation by every op. -/
namespace HapVerif.C05
variable {p : Nat}

theorem anyBelow_iff (f : Fin p → Bool) : ∀ (i : Nat) (h : i ≤ p),
    anyBelow f i h = true ↔ ∃ x : Fin p, x.val < i ∧ f x = true := by
  intro i
  induction i with
  | zero => intro h; simp [anyBelow]
  | succ i ih =>
    intro h
    simp only [anyBelow, Bool.or_eq_true, ih]
    constructor
    · rintro (h1 | ⟨x, hx, hf⟩)
      · exact ⟨⟨i, h⟩, Nat.lt_succ_self i, h1⟩
      · exact ⟨x, Nat.lt_succ_of_lt hx, hf⟩
    · rintro ⟨x, hx, hf⟩
      by_cases hxi : x.val = i
      · left
        have : x = ⟨i, h⟩ := Fin.ext hxi
        rw [← this]; exact hf
      · right; exact ⟨x, by omega, hf⟩

theorem anyFin_iff (f : Fin p → Bool) : anyFin f = true ↔ ∃ x, f x = true := by
  unfold anyFin
  rw [anyBelow_iff]
  constructor
  · rintro ⟨x, _, h⟩; exact ⟨x, h⟩
  · rintro ⟨x, h⟩; exact ⟨x, x.isLt, h⟩

theorem anyFin_false_iff (f : Fin p → Bool) : anyFin f = false ↔ ∀ x, f x = false := by
  constructor
  · intro h x
    cases hf : f x with
    | false => rfl
    | true => have := (anyFin_iff f).2 ⟨x, hf⟩; rw [h] at this; cases this
  · intro h
    cases ha : anyFin f with
    | false => rfl
    | true => obtain ⟨x, hx⟩ := (anyFin_iff f).1 ha; rw [h x] at hx; cases hx

/-- the invariant between ops of a batch: `disk` is the content written by the last update -/
structure Inv (sh : Sh p) (w : World p) : Prop where
  a : ∀ x c, w.store.add x = some c → w.store.items x = some c
  b : ∀ x, w.store.add x = none → w.store.del x = none → w.store.items x = w.disk (sh.shardOf x) x
  b2 : ∀ x, w.store.add x = none → (w.store.del x).isSome = true → w.store.items x = none
  c : ∀ x d, w.store.del x = some d → w.disk (sh.shardOf x) x = some d
  e : sh.n ≠ 0 → ∀ x, ((w.store.add x).isSome = true ∨ (w.store.del x).isSome = true) →
        w.store.changed (sh.shardOf x) = true
  s1 : sh.n ≠ 0 → ∀ k x, w.store.shards k x = if sh.shardOf x = k then w.store.items x else none
  g : ∀ k x, sh.shardOf x ≠ k → w.disk k x = none


@[simp] theorem setM_apply (m : Map p) (x y : Fin p) (v : Option Content) :
    setM m x v y = if y = x then v else m y := rfl

theorem acquire_inv {sh : Sh p} {w : World p} (h : Inv sh w) (x : Fin p) (c : Content) :
    Inv sh { w with store := acquire sh w.store x c } := by
  unfold acquire
  cases hi : w.store.items x with
  | some v => simpa using h
  | none =>
    have hadd : w.store.add x = none := by
      cases ha : w.store.add x with
      | none => rfl
      | some a => have := h.a x a ha; rw [hi] at this; cases this
    obtain ⟨ha, hb, hb2, hc, he, hs1, hg⟩ := h
    refine ⟨?_, ?_, ?_, ?_, ?_, ?_, ?_⟩
    case refine_6 =>
      intro hn k y
      have := hs1 hn
      simp only [flag, setShard, setM_apply]
      grind
    all_goals (simp only [flag, setShard, setM_apply]; grind)


theorem removeOne_add (sh : Sh p) (s : Store p) (x : Fin p) : (removeOne sh s x).add = s.add := by
  unfold removeOne; cases s.items x <;> rfl

theorem removeOne_inv {sh : Sh p} {w : World p} (h : Inv sh w) (x : Fin p) (hx : w.store.add x = none) :
    Inv sh { w with store := removeOne sh w.store x } := by
  unfold removeOne
  cases hi : w.store.items x with
  | none => simpa using h
  | some v =>
    obtain ⟨ha, hb, hb2, hc, he, hs1, hg⟩ := h
    have hdx : w.disk (sh.shardOf x) x = some v := by
      cases hd : w.store.del x with
      | none => rw [← hb x hx hd]; exact hi
      | some d' => have := hb2 x hx (by simp [hd]); rw [hi] at this; cases this
    refine ⟨?_, ?_, ?_, ?_, ?_, ?_, ?_⟩
    case refine_6 =>
      intro hn k y
      have := hs1 hn
      simp only [flag, setShard, setM_apply]
      grind
    all_goals (simp only [flag, setShard, setM_apply]; grind)

theorem removeAll_inv {sh : Sh p} (xs : List (Fin p)) : ∀ {w : World p}, Inv sh w →
    (∀ x ∈ xs, w.store.add x = none) → Inv sh { w with store := removeAll sh w.store xs } := by
  induction xs with
  | nil => intro w h _; simpa [removeAll] using h
  | cons x xs ih =>
    intro w h hx
    have h1 := removeOne_inv h x (hx x (List.mem_cons_self))
    have := ih (w := { w with store := removeOne sh w.store x }) h1 (by
      intro y hy
      show (removeOne sh w.store x).add y = none
      rw [removeOne_add]; exact hx y (List.mem_cons_of_mem _ hy))
    simpa [removeAll] using this


theorem clear_inv {sh : Sh p} (wf : sh.WF) {w : World p} (h : Inv sh w)
    (hclean : ∀ x, w.store.add x = none ∧ w.store.del x = none) :
    Inv sh { w with store := clear sh w.store } := by
  obtain ⟨ha, hb, hb2, hc, he, hs1, hg⟩ := h
  refine ⟨?_, ?_, ?_, ?_, ?_, ?_, ?_⟩
  · intro x c hx; simp [clear, emp] at hx
  · intro x _ hd
    simp only [clear, emp] at hd ⊢
    rw [← hb x (hclean x).1 (hclean x).2]; exact hd.symm
  · intro x _ _; rfl
  · intro x d hd
    simp only [clear] at hd ⊢
    rw [← hb x (hclean x).1 (hclean x).2]; exact hd
  · intro hn x hx
    simp only [clear, emp, Option.isSome_none, Bool.false_eq_true, false_or] at hx
    have hwf := wf x
    simp only [hn, if_false] at hwf
    simp only [clear, Bool.and_eq_true, decide_eq_true_eq]
    refine ⟨hwf, ?_⟩
    unfold nonEmpty
    rw [anyFin_iff]
    exact ⟨x, by rw [hs1 hn]; simpa using hx⟩
  · intro hn k x; simp [clear, emp]
  · intro k x hk; exact hg k x hk


theorem matched_iff (s : Store p) (x : Fin p) :
    matched s x = true ↔ ∃ d a, s.del x = some d ∧ s.add x = some a ∧ a.matches d = true := by
  unfold matched
  cases hd : s.del x <;> cases ha : s.add x <;> simp

theorem shrink_inv {sh : Sh p} {w : World p} (h : Inv sh w) :
    Inv sh { w with store := shrink sh w.store } := by
  obtain ⟨ha, hb, hb2, hc, he, hs1, hg⟩ := h
  refine ⟨?_, ?_, ?_, ?_, ?_, ?_, ?_⟩
  · intro x c
    simp only [shrink]
    by_cases hm : matched w.store x = true
    · simp [hm]
    · simp only [hm]; exact ha x c
  · intro x
    simp only [shrink]
    by_cases hm : matched w.store x = true
    · obtain ⟨d, a, hd, _, _⟩ := (matched_iff _ _).1 hm
      simp only [hm, if_true]
      intro _ _; rw [hd]; exact (hc x d hd).symm
    · simp only [hm]; exact hb x
  · intro x
    simp only [shrink]
    by_cases hm : matched w.store x = true
    · simp [hm]
    · simp only [hm]; exact hb2 x
  · intro x d
    simp only [shrink]
    by_cases hm : matched w.store x = true
    · simp [hm]
    · simp only [hm]; exact hc x d
  · intro hn x
    simp only [shrink]
    by_cases hany : anyFin (matched w.store) = true
    · simp only [hany, if_true]
      intro hx
      rw [anyFin_iff]
      exact ⟨x, by simpa using hx⟩
    · have hall := (anyFin_false_iff _).1 (by simpa using hany)
      simp only [hany, hall]
      exact he hn x
  · intro hn k x
    simp only [shrink]
    have := hs1 hn k x
    by_cases hm : matched w.store x = true
    · obtain ⟨d, a, hd, _, _⟩ := (matched_iff _ _).1 hm
      by_cases hk : k = sh.shardOf x
      · simp [hm, hn, hk]
      · simp only [hm, hk, and_false, if_false]
        rw [this]; simp [Ne.symm hk]
    · simp only [hm]; simpa using this
  · intro k x hk; exact hg k x hk


/-- every file holds exactly the current items of its shard -/
def Good (sh : Sh p) (w : World p) : Prop := ∀ k x, w.disk k x = itemsIn sh w.store k x

/-- nothing pending: the state right after a commit -/
def Clean (w : World p) : Prop :=
  (∀ x, w.store.add x = none ∧ w.store.del x = none) ∧ ∀ k, w.store.changed k = false

theorem write_good {sh : Sh p} (wf : sh.WF) {w : World p} (h : Inv sh w) :
    ∀ k x, write sh w.store w.disk k x = itemsIn sh w.store k x := by
  obtain ⟨ha, hb, hb2, hc, he, hs1, hg⟩ := h
  intro k x
  have hwf := wf x
  unfold write itemsIn
  by_cases hn : sh.n = 0
  · simp only [hn, if_true] at hwf ⊢
    by_cases hk : k = 0
    · simp [hk, hwf]
    · have : sh.shardOf x ≠ k := by omega
      simp only [hk, if_false, this]; exact hg k x this
  · simp only [hn, if_false]
    by_cases hch : w.store.changed k = true
    · simp only [hch, if_true]; exact hs1 hn k x
    · simp only [hch]
      by_cases hk : sh.shardOf x = k
      · simp only [hk, if_true]
        have hnone : w.store.add x = none ∧ w.store.del x = none := by
          have := he hn x
          rw [hk] at this
          cases hadd : w.store.add x <;> cases hdel : w.store.del x <;> simp_all
        rw [← hk]; exact (hb x hnone.1 hnone.2).symm
      · simp only [hk, if_false]; exact hg k x hk

theorem update_good {sh : Sh p} (wf : sh.WF) {w : World p} (h : Inv sh w) :
    Good sh (step sh w .update) ∧ Clean (step sh w .update) ∧ Inv sh (step sh w .update) := by
  have hs := shrink_inv h
  have hg := write_good wf hs
  have good : Good sh (step sh w .update) := by
    intro k x
    simp only [step, stepWith]
    exact hg k x
  refine ⟨good, ⟨fun x => ⟨rfl, rfl⟩, fun k => rfl⟩, ?_⟩
  refine ⟨?_, ?_, ?_, ?_, ?_, ?_, ?_⟩
  · intro x c hx; simp [step, stepWith, commit, emp] at hx
  · intro x _ _
    have := good (sh.shardOf x) x
    simp only [itemsIn, if_true] at this
    exact this.symm
  · intro x _ hx; simp [step, stepWith, commit, emp] at hx
  · intro x d hx; simp [step, stepWith, commit, emp] at hx
  · intro _ x hx; simp [step, stepWith, commit, emp] at hx
  · intro hn k x; exact hs.s1 hn k x
  · intro k x hk
    have := good k x
    simp only [itemsIn, hk, if_false] at this
    exact this


/-- the whole `HAProxyUpdate` with its gate in front of `writeConfig`: when the write is skipped
nothing is pending after `Shrink`, so the files already equal the items -/
theorem updateGated_good {sh : Sh p} (wf : sh.WF) {w : World p} (h : Inv sh w) (committed : Bool) :
    Good sh (updateGated sh committed w) ∧ Clean (updateGated sh committed w) ∧
      Inv sh (updateGated sh committed w) := by
  unfold updateGated
  simp only []
  split
  · rename_i hgate
    simp only [Bool.and_eq_true, Bool.not_eq_true'] at hgate
    have hs := shrink_inv h
    have hnone : ∀ x, (shrink sh w.store).add x = none ∧ (shrink sh w.store).del x = none := by
      intro x
      have := (anyFin_false_iff _).1 hgate.2 x
      cases ha : (shrink sh w.store).add x <;> cases hd : (shrink sh w.store).del x <;> simp_all
    have good : Good sh { store := commit (shrink sh w.store), disk := w.disk } := by
      intro k x
      simp only [itemsIn, commit]
      by_cases hk : sh.shardOf x = k
      · simp only [hk, if_true]
        have := hs.b x (hnone x).1 (hnone x).2
        rw [hk] at this; exact this.symm
      · simp only [hk, if_false]; exact hs.g k x hk
    refine ⟨good, ⟨fun x => ⟨rfl, rfl⟩, fun k => rfl⟩, ?_⟩
    refine ⟨?_, ?_, ?_, ?_, ?_, ?_, ?_⟩
    · intro x c hx; simp [commit, emp] at hx
    · intro x _ _
      have := good (sh.shardOf x) x
      simp only [itemsIn, if_true] at this
      exact this.symm
    · intro x _ hx; simp [commit, emp] at hx
    · intro x d hx; simp [commit, emp] at hx
    · intro _ x hx; simp [commit, emp] at hx
    · intro hn k x; exact hs.s1 hn k x
    · intro k x hk; exact hs.g k x hk
  · exact update_good wf h

/-! ### hosts / frontend maps guard -/

@[simp] theorem hset_apply (m : Fin p → Option Nat) (x y : Fin p) (v : Option Nat) :
    hset m x v y = if y = x then v else m y := rfl

/-- what was written for a host of content `c` whose backend had content `b` -/
def entry (c b : Nat) : Nat × Bool := (c, hasRoot c && sslOf b)

/-- while `frontend.Maps != nil`: whatever differs from the written maps is tracked in add/del;
the written root-ssl entries are those of the backends as of the last commit (`bcC`) -/
structure HInv (s : HStore p) : Prop where
  a : s.mapsNil = false → ∀ x c, s.add x = some c → s.items x = some c
  b : s.mapsNil = false → ∀ x, s.add x = none → s.del x = none →
        s.maps x = (s.items x).map fun c => entry c (s.bcC x)
  b2 : s.mapsNil = false → ∀ x, s.add x = none → (s.del x).isSome = true → s.items x = none
  c : s.mapsNil = false → ∀ x d, s.del x = some d → s.maps x = some (entry d (s.bcC x))

theorem hacquire_inv {s : HStore p} (h : HInv s) (x : Fin p) (c : Nat) : HInv (s.acquire x c) := by
  unfold HStore.acquire
  cases hi : s.items x with
  | some v => simpa using h
  | none =>
    obtain ⟨ha, hb, hb2, hc⟩ := h
    refine ⟨?_, ?_, ?_, ?_⟩ <;> (simp only [hset_apply]; grind)

theorem hremoveOne_add (s : HStore p) (x : Fin p) : (s.removeOne x).add = s.add := by
  unfold HStore.removeOne; cases s.items x <;> rfl

theorem hremoveOne_inv {s : HStore p} (h : HInv s) (x : Fin p) (hx : s.add x = none) :
    HInv (s.removeOne x) := by
  unfold HStore.removeOne
  cases hi : s.items x with
  | none => simpa using h
  | some v =>
    obtain ⟨ha, hb, hb2, hc⟩ := h
    have hdx : s.mapsNil = false → s.maps x = some (entry v (s.bcC x)) := by
      intro hm
      cases hd : s.del x with
      | none => rw [hb hm x hx hd, hi]; rfl
      | some d' => have := hb2 hm x hx (by simp [hd]); rw [hi] at this; cases this
    refine ⟨?_, ?_, ?_, ?_⟩ <;> (simp only [hset_apply]; grind)

theorem hremoveAll_inv (xs : List (Fin p)) : ∀ {s : HStore p}, HInv s →
    (∀ x ∈ xs, s.add x = none) → HInv (s.removeAll xs) := by
  induction xs with
  | nil => intro s h _; simpa [HStore.removeAll] using h
  | cons x xs ih =>
    intro s h hx
    have h1 := hremoveOne_inv h x (hx x (List.mem_cons_self))
    have := ih h1 (by
      intro y hy
      rw [hremoveOne_add]; exact hx y (List.mem_cons_of_mem _ hy))
    simpa [HStore.removeAll] using this

theorem hbackend_inv {s : HStore p} (h : HInv s) (x : Fin p) (b : Nat) : HInv (s.backend x b) := by
  obtain ⟨ha, hb, hb2, hc⟩ := h
  exact ⟨ha, hb, hb2, hc⟩

theorem hclear_inv (s : HStore p) : HInv s.clear := by
  refine ⟨?_, ?_, ?_, ?_⟩ <;> intro h <;> simp [HStore.clear] at h

theorem hmatched_iff (s : HStore p) (x : Fin p) :
    s.hmatched x = true ↔ ∃ d, s.del x = some d ∧ s.add x = some d := by
  unfold HStore.hmatched
  cases hd : s.del x <;> cases ha : s.add x <;> simp

theorem hshrink_inv {s : HStore p} (h : HInv s) : HInv s.shrink := by
  obtain ⟨ha, hb, hb2, hc⟩ := h
  refine ⟨?_, ?_, ?_, ?_⟩
  · intro hm x c
    simp only [HStore.shrink]
    by_cases hx : s.hmatched x = true
    · simp [hx]
    · simp only [hx]; exact ha hm x c
  · intro hm x
    simp only [HStore.shrink]
    by_cases hx : s.hmatched x = true
    · obtain ⟨d, hd, _⟩ := (hmatched_iff _ _).1 hx
      simp only [hx, if_true]
      intro _ _; rw [hd]; exact hc hm x d hd
    · simp only [hx]; exact hb hm x
  · intro hm x
    simp only [HStore.shrink]
    by_cases hx : s.hmatched x = true
    · simp [hx]
    · simp only [hx]; exact hb2 hm x
  · intro hm x d
    simp only [HStore.shrink]
    by_cases hx : s.hmatched x = true
    · simp [hx]
    · simp only [hx]; exact hc hm x d

/-- after `WriteFrontendMaps` + `Commit` the map files hold exactly what the current hosts AND
the current backends ask for — provided the guard also looks at the backends, or no backend of a
host with a root redirect changed in this batch -/
theorem hupdate_good {s : HStore p} (h : HInv s) (wb : Bool)
    (hside : wb = true ∨ s.shrink.rootBackendChanged = false) :
    (∀ x, (s.updateWith wb).maps x = (s.updateWith wb).want x) ∧ (s.updateWith wb).mapsNil = false ∧
      HInv (s.updateWith wb) := by
  have hs := hshrink_inv h
  have hwant : ∀ t : HStore p, ({ t with add := fun _ => none, del := fun _ => none, bcC := t.bc } : HStore p).want = t.want := by
    intro t; rfl
  have key : (∀ x, (s.updateWith wb).maps x = (s.updateWith wb).want x) ∧ (s.updateWith wb).mapsNil = false := by
    unfold HStore.updateWith
    simp only []
    split
    · rename_i hskip
      simp only [Bool.and_eq_true, Bool.not_eq_true'] at hskip
      obtain ⟨⟨hnil, hch⟩, hrb⟩ := hskip
      refine ⟨?_, hnil⟩
      intro x
      have hx := (anyFin_false_iff _).1 hch x
      have hn : s.shrink.add x = none ∧ s.shrink.del x = none := by
        cases ha : s.shrink.add x <;> cases hd : s.shrink.del x <;> simp_all
      have hrbc : s.shrink.rootBackendChanged = false := by
        rcases hside with hw | hr
        · simpa [hw] using hrb
        · exact hr
      have hx2 := (anyFin_false_iff _).1 hrbc x
      show s.shrink.maps x = s.shrink.want x
      rw [hs.b hnil x hn.1 hn.2]
      unfold HStore.want entry
      cases hi : s.shrink.items x with
      | none => rfl
      | some c =>
        simp only [Option.map_some, Option.some.injEq, Prod.mk.injEq, true_and]
        rw [hi] at hx2
        by_cases hr : hasRoot c = true
        · simp only [hr, Bool.and_true, bne_eq_false_iff_eq] at hx2
          simp [hr, hx2]
        · simp [hr]
    · exact ⟨fun _ => rfl, rfl⟩
  refine ⟨key.1, key.2, ?_⟩
  have hadd : ∀ x, (s.updateWith wb).add x = none := by intro x; unfold HStore.updateWith; simp only []
  have hdel : ∀ x, (s.updateWith wb).del x = none := by intro x; unfold HStore.updateWith; simp only []
  have hbcc : (s.updateWith wb).bcC = (s.updateWith wb).bc := by
    unfold HStore.updateWith; simp only []
  refine ⟨?_, ?_, ?_, ?_⟩
  · intro _ x c hx; rw [hadd] at hx; cases hx
  · intro _ x _ _
    rw [key.1 x, hbcc]; rfl
  · intro _ x _ hx; rw [hdel] at hx; cases hx
  · intro _ x d hx; rw [hdel] at hx; cases hx

end HapVerif.C05
