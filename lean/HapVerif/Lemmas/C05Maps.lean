import HapVerif.Model.C05Maps
import HapVerif.Lemmas.C12
/-!
Lemmas for the backend maps / declared state extension of C05 (`Model/C05Maps.lean`): the invariant
"a backend that is in `items` and not in `itemsAdd`, or that is in `itemsDel`, has its map files on
disk; the stored object matches the declared one" and its preservation by every disciplined op.
-/
namespace HapVerif.C05
open HapVerif.C12 (removeAll_mem removeAll_items_of_not_mem removeAll_add)
variable {p : Nat}

theorem matches_refl (c : Content) : c.matches c = true := by simp [Content.matches]

theorem matches_trans {a b c : Content} (h1 : a.matches b = true) (h2 : b.matches c = true) :
    a.matches c = true := by
  simp only [Content.matches, Bool.and_eq_true, beq_iff_eq, decide_eq_true_eq] at *
  exact ⟨h1.1.trans h2.1, Nat.le_trans h1.2 h2.2⟩

/-- the invariant between the ops of a batch, on the three components -/
structure BInvS (mp : Content → Option Nat) (s : Store p) (bm : Fin p → Option Nat) (decl : Map p) : Prop where
  i1 : ∀ x c v, s.add x = none → s.items x = some c → mp c = some v → bm x = some v
  i2 : ∀ x d v, s.del x = some d → mp d = some v → bm x = some v
  r : ∀ x, declMatches s.items decl x = true

def BInv (mp : Content → Option Nat) (b : BWorld p) : Prop := BInvS mp b.w.store b.bm b.decl

theorem binv_init (mp : Content → Option Nat) : BInv mp ({} : BWorld p) := by
  refine ⟨?_, ?_, ?_⟩
  · intro x c v _ h; simp [emp] at h
  · intro x d v h; simp [emp] at h
  · intro x; simp [declMatches, emp]

theorem declMatches_some {items decl : Map p} {x : Fin p} {c : Content} (h : declMatches items decl x = true)
    (hi : items x = some c) : ∃ a, decl x = some a ∧ a.matches c = true := by
  unfold declMatches at h
  rw [hi] at h
  cases hd : decl x with
  | none => rw [hd] at h; cases h
  | some a => rw [hd] at h; exact ⟨a, rfl, h⟩

theorem declMatches_none {items decl : Map p} {x : Fin p} (h : declMatches items decl x = true)
    (hi : items x = none) : decl x = none := by
  unfold declMatches at h
  rw [hi] at h
  cases hd : decl x with
  | none => rfl
  | some a => rw [hd] at h; cases h

theorem binvS_acquire {mp : Content → Option Nat} {sh : Sh p} {s : Store p} {bm : Fin p → Option Nat} {decl : Map p}
    (h : BInvS mp s bm decl) (x : Fin p) (c : Content) :
    BInvS mp (acquire sh s x c) bm (if s.items x = none then setM decl x (some c) else decl) := by
  unfold acquire
  cases hi : s.items x with
  | some v => simpa using h
  | none =>
    simp only [if_true]
    refine ⟨?_, ?_, ?_⟩
    · intro y c' v hadd hit hm
      simp only [flag, setM] at hadd hit
      by_cases hy : y = x
      · simp [hy] at hadd
      · simp only [hy, if_false] at hadd hit
        exact h.i1 y c' v hadd hit hm
    · intro y d v hd hm
      exact h.i2 y d v (by simpa [flag] using hd) hm
    · intro y
      by_cases hy : y = x
      · subst hy; simp [declMatches, flag, setM, matches_refl]
      · have := h.r y
        simpa [declMatches, flag, setM, hy] using this

theorem binvS_removeAll {mp : Content → Option Nat} {sh : Sh p} {s : Store p} {bm : Fin p → Option Nat} {decl : Map p}
    (h : BInvS mp s bm decl) (xs : List (Fin p)) (hx : ∀ x ∈ xs, s.add x = none) :
    BInvS mp (removeAll sh s xs) bm (fun y => if xs.contains y then none else decl y) := by
  refine ⟨?_, ?_, ?_⟩
  · intro y c v hadd hit hm
    rw [removeAll_add] at hadd
    by_cases hy : y ∈ xs
    · rw [(removeAll_mem sh xs s y hy).1] at hit; cases hit
    · rw [(removeAll_items_of_not_mem sh xs s y hy).1] at hit
      exact h.i1 y c v hadd hit hm
  · intro y d v hd hm
    by_cases hy : y ∈ xs
    · rw [(removeAll_mem sh xs s y hy).2] at hd
      cases hi : s.items y with
      | some v' =>
        rw [hi] at hd
        cases hd
        exact h.i1 y d v (hx y hy) hi hm
      | none =>
        rw [hi] at hd
        exact h.i2 y d v hd hm
    · rw [(removeAll_items_of_not_mem sh xs s y hy).2] at hd
      exact h.i2 y d v hd hm
  · intro y
    by_cases hy : y ∈ xs
    · simp [declMatches, (removeAll_mem sh xs s y hy).1, hy]
    · have := h.r y
      simpa [declMatches, (removeAll_items_of_not_mem sh xs s y hy).1, hy] using this

theorem binvS_clear {mp : Content → Option Nat} {sh : Sh p} {s : Store p} {bm : Fin p → Option Nat} {decl : Map p}
    (h : BInvS mp s bm decl) (hclean : ∀ x, s.add x = none ∧ s.del x = none) :
    BInvS mp (clear sh s) bm emp := by
  refine ⟨?_, ?_, ?_⟩
  · intro x c v _ hit; simp [clear, emp] at hit
  · intro x d v hd hm
    exact h.i1 x d v (hclean x).1 (by simpa [clear] using hd) hm
  · intro x; simp [declMatches, clear, emp]

theorem binvS_shrink {mp : Content → Option Nat} {sh : Sh p} {s : Store p} {bm : Fin p → Option Nat} {decl : Map p}
    (hs : ∀ x c, s.add x = some c → s.items x = some c) (h : BInvS mp s bm decl) :
    BInvS mp (shrink sh s) bm decl := by
  refine ⟨?_, ?_, ?_⟩
  · intro x c v hadd hit hm
    simp only [shrink] at hadd hit
    by_cases hmt : matched s x = true
    · simp only [hmt, if_true] at hit
      exact h.i2 x c v hit hm
    · simp only [hmt] at hadd hit
      exact h.i1 x c v hadd hit hm
  · intro x d v hd hm
    simp only [shrink] at hd
    by_cases hmt : matched s x = true
    · simp [hmt] at hd
    · simp only [hmt] at hd
      exact h.i2 x d v hd hm
  · intro x
    by_cases hmt : matched s x = true
    · obtain ⟨d, a, hd, ha, hma⟩ := (matched_iff _ _).1 hmt
      have hia := hs x a ha
      obtain ⟨a', hda, hm'⟩ := declMatches_some (h.r x) hia
      have : (shrink sh s).items x = some d := by simp [shrink, hmt, hd]
      simp only [declMatches, this, hda]
      exact matches_trans hm' hma
    · have := h.r x
      have hi : (shrink sh s).items x = s.items x := by simp [shrink, hmt]
      simpa [declMatches, hi] using this

theorem storeChanged_of_add {s : Store p} {x : Fin p} {c : Content} (h : s.add x = some c) : storeChanged s = true := by
  unfold storeChanged
  rw [anyFin_iff]
  exact ⟨x, by simp [h]⟩

/-- `WriteBackendMaps` over `ItemsAdd`, then `Commit` -/
theorem binvS_write_commit {mp : Content → Option Nat} {s : Store p} {bm : Fin p → Option Nat} {decl : Map p}
    (hs : ∀ x c, s.add x = some c → s.items x = some c) (h : BInvS mp s bm decl) :
    BInvS mp (commit s) (if storeChanged s then bmWriteOf mp s.add bm else bm) decl := by
  refine ⟨?_, ?_, ?_⟩
  · intro x c v _ hit hm
    have hit' : s.items x = some c := hit
    cases ha : s.add x with
    | some a =>
      have := hs x a ha
      rw [hit'] at this
      cases this
      rw [storeChanged_of_add ha]
      simp [bmWriteOf, ha, hm]
    | none =>
      have hb : bm x = some v := h.i1 x c v ha hit' hm
      by_cases hc : storeChanged s = true
      · simp [hc, bmWriteOf, ha, hb]
      · simp [hc, hb]
  · intro x d v hd; simp [commit, emp] at hd
  · intro x; exact h.r x

theorem bstep_w (mp : Content → Option Nat) (sh : Sh p) (b : BWorld p) (op : Op p) :
    (bstep mp sh b op).w = step sh b.w op := by
  cases op <;> rfl

theorem brun_w (mp : Content → Option Nat) (sh : Sh p) (ops : List (Op p)) : ∀ b : BWorld p,
    (brun mp sh b ops).w = run sh b.w ops := by
  induction ops with
  | nil => intro b; rfl
  | cons op ops ih =>
    intro b
    simp only [brun, run, List.foldl_cons]
    have := ih (bstep mp sh b op)
    simp only [brun, run] at this
    rw [this, bstep_w]

theorem bstep_inv {mp : Content → Option Nat} {sh : Sh p} {b : BWorld p} (hi : Inv sh b.w) (h : BInv mp b)
    (op : Op p) (hok : okOp b.w.store op = true) : BInv mp (bstep mp sh b op) := by
  cases op with
  | acquire x c => exact binvS_acquire h x c
  | removeAll xs =>
    refine binvS_removeAll h xs ?_
    intro x hx
    simp only [okOp, List.all_eq_true] at hok
    have := hok x hx
    cases ha : b.w.store.add x with
    | none => rfl
    | some a => rw [ha] at this; cases this
  | clear =>
    refine binvS_clear h ?_
    intro x
    simp only [okOp, Bool.not_eq_true'] at hok
    have := (anyFin_false_iff _).1 hok x
    cases ha : b.w.store.add x <;> cases hd : b.w.store.del x <;> simp_all
  | shrink => exact binvS_shrink hi.a h
  | write => simp [okOp] at hok
  | commit => simp [okOp] at hok
  | update =>
    have hs := shrink_inv hi
    exact binvS_write_commit (s := shrink sh b.w.store) hs.a (binvS_shrink hi.a h)

end HapVerif.C05
