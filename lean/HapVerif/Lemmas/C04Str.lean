import HapVerif.Model.C04
/-!
# C04 — string lemmas (`List Char`): `lowerC`/`lower`, `ltStr` is a strict order, splitting a
`host#path` key at the separator, and the reduction of HAProxy's `dir` word match on keys
`host#path` to `dirPrefix`.  Core only.
-/
namespace HapVerif.C04
open List

/-! ## lowerC / lower -/

theorem ofNat_small : ∀ n : Fin 26, (Char.ofNat (n.val + 65 + 32)).toNat = n.val + 97 := by decide

theorem lowerC_cases (c : Char) :
    (lowerC c = c ∧ ¬ ('A' ≤ c ∧ c ≤ 'Z')) ∨ (97 ≤ (lowerC c).toNat ∧ (lowerC c).toNat ≤ 122) := by
  unfold lowerC
  split
  · rename_i h
    right
    have h1 : 65 ≤ c.toNat := h.1
    have h2 : c.toNat ≤ 90 := h.2
    have := ofNat_small ⟨c.toNat - 65, by omega⟩
    simp only at this
    have e : c.toNat - 65 + 65 + 32 = c.toNat + 32 := by omega
    rw [e] at this
    omega
  · rename_i h
    left; exact ⟨rfl, h⟩

theorem lowerC_eq_hash {c : Char} : lowerC c = '#' ↔ c = '#' := by
  constructor
  · intro h
    rcases lowerC_cases c with ⟨e, _⟩ | ⟨h1, _⟩
    · rw [← e]; exact h
    · rw [h] at h1; exact absurd h1 (by decide)
  · intro h; subst h; decide

theorem lowerC_eq_slash {c : Char} : lowerC c = '/' ↔ c = '/' := by
  constructor
  · intro h
    rcases lowerC_cases c with ⟨e, _⟩ | ⟨h1, _⟩
    · rw [← e]; exact h
    · rw [h] at h1; exact absurd h1 (by decide)
  · intro h; subst h; decide

theorem lowerC_idem (c : Char) : lowerC (lowerC c) = lowerC c := by
  rcases lowerC_cases c with ⟨e, _⟩ | ⟨h1, h2⟩
  · rw [e, e]
  · generalize lowerC c = d at *
    unfold lowerC
    split
    · rename_i h
      have : d.toNat ≤ 90 := h.2
      omega
    · rfl

@[simp] theorem lower_nil : lower [] = [] := rfl
@[simp] theorem lower_cons (c : Char) (s : Str) : lower (c :: s) = lowerC c :: lower s := rfl
@[simp] theorem lower_append (a b : Str) : lower (a ++ b) = lower a ++ lower b := by
  simp [lower]
@[simp] theorem lower_length (a : Str) : (lower a).length = a.length := by simp [lower]
@[simp] theorem lower_idem (a : Str) : lower (lower a) = lower a := by
  induction a with
  | nil => rfl
  | cons c s ih => simp [lowerC_idem, ih]

theorem mem_lower_hash {a : Str} : '#' ∈ lower a ↔ '#' ∈ a := by
  induction a with
  | nil => simp
  | cons c s ih =>
    simp only [lower_cons, mem_cons, ih]
    constructor
    · rintro (h | h)
      · left; exact (lowerC_eq_hash.1 h.symm).symm
      · right; exact h
    · rintro (h | h)
      · left; exact (lowerC_eq_hash.2 h.symm).symm
      · right; exact h

theorem mem_lower_slash {a : Str} : '/' ∈ lower a ↔ '/' ∈ a := by
  induction a with
  | nil => simp
  | cons c s ih =>
    simp only [lower_cons, mem_cons, ih]
    constructor
    · rintro (h | h)
      · left; exact (lowerC_eq_slash.1 h.symm).symm
      · right; exact h
    · rintro (h | h)
      · left; exact (lowerC_eq_slash.2 h.symm).symm
      · right; exact h

theorem lower_prefix {a b : Str} (h : a <+: b) : lower a <+: lower b := by
  obtain ⟨t, rfl⟩ := h
  exact ⟨lower t, by simp⟩

theorem lower_eq_nil {a : Str} : lower a = [] ↔ a = [] := by
  cases a <;> simp

/-! ## ltStr is a strict order; a proper prefix is smaller -/

theorem ltStr_irrefl : ∀ a : Str, ltStr a a = false
  | [] => rfl
  | c :: cs => by simp [ltStr, ltStr_irrefl cs]

theorem ltStr_trans : ∀ {a b c : Str}, ltStr a b = true → ltStr b c = true → ltStr a c = true
  | [], [], _, h, _ => by simp [ltStr] at h
  | [], _ :: _, [], _, h => by simp [ltStr] at h
  | [], _ :: _, _ :: _, _, _ => by simp [ltStr]
  | _ :: _, [], _, h, _ => by simp [ltStr] at h
  | _ :: _, _ :: _, [], _, h => by simp [ltStr] at h
  | x :: xs, y :: ys, z :: zs, h1, h2 => by
    simp only [ltStr] at h1 h2 ⊢
    by_cases a1 : x.toNat < y.toNat
    · by_cases a2 : y.toNat < z.toNat
      · have : x.toNat < z.toNat := by omega
        simp [this]
      · simp only [a2, if_false] at h2
        by_cases a3 : z.toNat < y.toNat
        · simp [a3] at h2
        · have : x.toNat < z.toNat := by omega
          simp [this]
    · simp only [a1, if_false] at h1
      by_cases a4 : y.toNat < x.toNat
      · simp [a4] at h1
      · simp only [a4, if_false] at h1
        have exy : x.toNat = y.toNat := by omega
        by_cases a2 : y.toNat < z.toNat
        · have : x.toNat < z.toNat := by omega
          simp [this]
        · simp only [a2, if_false] at h2
          by_cases a3 : z.toNat < y.toNat
          · simp [a3] at h2
          · simp only [a3, if_false] at h2
            have : ¬ x.toNat < z.toNat := by omega
            have : ¬ z.toNat < x.toNat := by omega
            simp [*, ltStr_trans h1 h2]

theorem ltStr_asymm {a b : Str} (h : ltStr a b = true) : ltStr b a = false := by
  cases h' : ltStr b a with
  | false => rfl
  | true => have := ltStr_trans h h'; rw [ltStr_irrefl] at this; exact absurd this (by decide)

theorem ltStr_of_prefix : ∀ {a b : Str}, a <+: b → a ≠ b → ltStr a b = true
  | [], [], _, h => absurd rfl h
  | [], _ :: _, _, _ => rfl
  | _ :: _, [], h, _ => by simp at h
  | x :: xs, y :: ys, h, hne => by
    rw [cons_prefix_cons] at h
    obtain ⟨rfl, h⟩ := h
    have : xs ≠ ys := fun e => hne (by rw [e])
    simp [ltStr, ltStr_of_prefix h this]

/-- two strings that diverge inside a common-length part compare the same whatever follows -/
theorem ltStr_append_of_not_prefix : ∀ {a b : Str} (u v : Str), ¬ a <+: b → ¬ b <+: a →
    ltStr (a ++ u) (b ++ v) = ltStr a b
  | [], _, _, _, h, _ => absurd (nil_prefix) h
  | _ :: _, [], _, _, _, h => absurd (nil_prefix) h
  | x :: xs, y :: ys, u, v, h1, h2 => by
    simp only [cons_append, ltStr]
    by_cases a1 : x.toNat < y.toNat
    · simp [a1]
    · by_cases a2 : y.toNat < x.toNat
      · simp [a1, a2]
      · simp only [a1, a2, if_false]
        have e : x = y := by
          apply Char.ext; apply UInt32.toNat_inj.1
          have : x.toNat = y.toNat := by omega
          exact this
        subst e
        apply ltStr_append_of_not_prefix
        · intro h; exact h1 ((cons_prefix_cons).2 ⟨rfl, h⟩)
        · intro h; exact h2 ((cons_prefix_cons).2 ⟨rfl, h⟩)

/-! ## splitting at the separator -/

theorem sep_prefix {c : Char} : ∀ {a b x y : Str}, c ∉ a → c ∉ x →
    (a ++ c :: b <+: x ++ c :: y ↔ a = x ∧ b <+: y)
  | [], b, [], y, _, _ => by simp [cons_prefix_cons]
  | [], b, d :: x, y, _, hx => by
    simp only [nil_append, cons_append, cons_prefix_cons]
    constructor
    · rintro ⟨e, _⟩; subst e; simp at hx
    · rintro ⟨e, _⟩; simp at e
  | d :: a, b, [], y, ha, _ => by
    simp only [nil_append, cons_append, cons_prefix_cons]
    constructor
    · rintro ⟨e, _⟩; subst e; simp at ha
    · rintro ⟨e, _⟩; simp at e
  | d :: a, b, e :: x, y, ha, hx => by
    simp only [cons_append, cons_prefix_cons, cons.injEq]
    have ha' : c ∉ a := fun h => ha (mem_cons_of_mem _ h)
    have hx' : c ∉ x := fun h => hx (mem_cons_of_mem _ h)
    rw [sep_prefix ha' hx']
    constructor
    · rintro ⟨h1, h2, h3⟩; exact ⟨⟨h1, h2⟩, h3⟩
    · rintro ⟨⟨h1, h2⟩, h3⟩; exact ⟨h1, h2, h3⟩

theorem sep_eq {c : Char} {a b x y : Str} (ha : c ∉ a) (hx : c ∉ x) :
    (a ++ c :: b = x ++ c :: y ↔ a = x ∧ b = y) := by
  constructor
  · intro h
    have h1 : a ++ c :: b <+: x ++ c :: y := by rw [h]; exact prefix_refl _
    have h2 : x ++ c :: y <+: a ++ c :: b := by rw [h]; exact prefix_refl _
    obtain ⟨e, p1⟩ := (sep_prefix ha hx).1 h1
    obtain ⟨_, p2⟩ := (sep_prefix hx ha).1 h2
    refine ⟨e, ?_⟩
    exact (p1.eq_of_length_le p2.length_le)
  · rintro ⟨rfl, rfl⟩; rfl

/-- neither of `a#`, `x#` is a prefix of the other when the hosts differ -/
theorem sep_not_prefix {c : Char} {a x : Str} (ha : c ∉ a) (hx : c ∉ x) (hne : a ≠ x) :
    ¬ a ++ [c] <+: x ++ [c] := by
  intro h
  exact hne ((sep_prefix (b := []) (y := []) ha hx).1 h).1

end HapVerif.C04
