import HapVerif.Lemmas.C04Str
/-!
# C04 — HAProxy's `dir` word match on keys `host#path` (T1)

`wordMatch (h#p) (H#q) = (h = H ∧ dirPrefix p q)` when the hosts contain neither `/` nor `#`
and the request path contains no `#`.  Core only.
-/
namespace HapVerif.C04
open List

/-- the pattern without its trailing slashes -/
def strip (p : Str) : Str := (p.reverse.dropWhile (· = '/')).reverse

/-- the test HAProxy performs at one candidate position -/
def chk (P t : Str) : Bool :=
  P.isPrefixOf t && (match t.drop P.length with | [] => true | d :: _ => d = '/')

theorem dirPrefix_eq_chk (p q : Str) : dirPrefix p q = chk (strip p) q := rfl

theorem dropWhile_append_stop {f : Char → Bool} {x : Char} (hx : f x = false) :
    ∀ (a b : Str), (a ++ x :: b).dropWhile f = a.dropWhile f ++ x :: b
  | [], b => by simp [hx]
  | c :: a, b => by
    simp only [cons_append, dropWhile_cons]
    split
    · exact dropWhile_append_stop hx a b
    · rfl

theorem stripSlash_key {h p : Str} (hne : h ≠ []) (hs : '/' ∉ h) :
    stripSlash (h ++ '#' :: p) = h ++ '#' :: strip p := by
  unfold stripSlash strip
  have h1 : (h ++ '#' :: p).dropWhile (· = '/') = h ++ '#' :: p := by
    cases h with
    | nil => exact absurd rfl hne
    | cons c cs =>
      have : c ≠ '/' := fun e => hs (by simp [e])
      simp [this]
  rw [h1]
  have h2 : (h ++ '#' :: p).reverse = p.reverse ++ '#' :: h.reverse := by simp
  rw [h2, dropWhile_append_stop (by decide)]
  simp

/-- a pattern containing the separator never matches inside a text without it -/
theorem wordMatchAux_no_sep {P : Str} (hP : '#' ∈ P) :
    ∀ (t : Str) (may : Bool), '#' ∉ t → wordMatchAux P t may = false
  | [], _, _ => rfl
  | c :: cs, may, ht => by
    have hcs : '#' ∉ cs := fun h => ht (mem_cons_of_mem _ h)
    have hpre : P.isPrefixOf (c :: cs) = false := by
      cases hh : P.isPrefixOf (c :: cs) with
      | false => rfl
      | true =>
        have := (isPrefixOf_iff_prefix.1 hh).subset hP
        exact absurd this ht
    unfold wordMatchAux
    split
    · exact wordMatchAux_no_sep hP cs true hcs
    · split
      · simp [hpre, wordMatchAux_no_sep hP cs false hcs]
      · exact wordMatchAux_no_sep hP cs false hcs

/-- without permission to match, the scan skips a slash-free host part -/
theorem wordMatchAux_skip_host {P : Str} :
    ∀ (H q : Str), '/' ∉ H → wordMatchAux P (H ++ '#' :: q) false = wordMatchAux P q false
  | [], q, _ => by
    simp only [nil_append]
    rw [wordMatchAux]
    simp
  | c :: cs, q, hH => by
    have hc : c ≠ '/' := fun e => hH (by simp [e])
    have hcs : '/' ∉ cs := fun h => hH (mem_cons_of_mem _ h)
    simp only [cons_append]
    rw [wordMatchAux]
    simp [hc, wordMatchAux_skip_host cs q hcs]

theorem wordMatchAux_key {P H q : Str} (hP : '#' ∈ P) (hH : '/' ∉ H) (hq : '#' ∉ q) :
    wordMatchAux P (H ++ '#' :: q) true = chk P (H ++ '#' :: q) := by
  cases H with
  | nil =>
    simp only [nil_append]
    rw [wordMatchAux]
    have hc : ('#' : Char) ≠ '/' := by decide
    simp only [hc, if_false, if_true, wordMatchAux_no_sep hP q false hq, Bool.or_false]
    rfl
  | cons c cs =>
    have hc : c ≠ '/' := fun e => hH (by simp [e])
    have hcs : '/' ∉ cs := fun h => hH (mem_cons_of_mem _ h)
    simp only [cons_append]
    rw [wordMatchAux]
    have := wordMatchAux_skip_host (P := P) cs q hcs
    simp only [hc, if_false, if_true, this, wordMatchAux_no_sep hP q false hq, Bool.or_false]
    rfl

theorem chk_key {h d H q : Str} (hh : '#' ∉ h) (hH : '#' ∉ H) :
    chk (h ++ '#' :: d) (H ++ '#' :: q) = (decide (h = H) && chk d q) := by
  by_cases e : h = H
  · subst e
    unfold chk
    have e1 : (h ++ '#' :: d).isPrefixOf (h ++ '#' :: q) = d.isPrefixOf q := by
      rw [Bool.eq_iff_iff, isPrefixOf_iff_prefix, isPrefixOf_iff_prefix, sep_prefix hh hh]
      simp
    have e2 : (h ++ '#' :: q).drop (h ++ '#' :: d).length = q.drop d.length := by
      have : (h ++ '#' :: d).length = h.length + (1 + d.length) := by simp; omega
      rw [this, ← drop_drop, drop_left]
      simp [Nat.add_comm]
    rw [e1, e2]; simp
  · have : (h ++ '#' :: d).isPrefixOf (H ++ '#' :: q) = false := by
      cases hp : (h ++ '#' :: d).isPrefixOf (H ++ '#' :: q) with
      | false => rfl
      | true => exact absurd ((sep_prefix hh hH).1 (isPrefixOf_iff_prefix.1 hp)).1 e
    simp [chk, this, e]

/-- **T1 (dir)**: HAProxy's word match on `host#path` keys is host equality and `dirPrefix` -/
theorem wordMatch_key {h p H q : Str} (hne : h ≠ []) (hs : '/' ∉ h) (hh : '#' ∉ h)
    (hH : '#' ∉ H) (hHs : '/' ∉ H) (hq : '#' ∉ q) :
    wordMatch (h ++ '#' :: p) (H ++ '#' :: q) = (decide (h = H) && dirPrefix p q) := by
  unfold wordMatch
  simp only [stripSlash_key hne hs]
  have : (h ++ '#' :: strip p).isEmpty = false := by cases h <;> rfl
  rw [this]
  simp only [Bool.false_eq_true, if_false]
  rw [wordMatchAux_key (by simp) hHs hq, chk_key hh hH, dirPrefix_eq_chk]

theorem beg_key {h p H q : Str} (hh : '#' ∉ h) (hH : '#' ∉ H) :
    (h ++ '#' :: p).isPrefixOf (H ++ '#' :: q) = (decide (h = H) && p.isPrefixOf q) := by
  rw [Bool.eq_iff_iff]
  simp only [isPrefixOf_iff_prefix, Bool.and_eq_true, decide_eq_true_eq]
  exact sep_prefix hh hH

theorem str_key {h p H q : Str} (hh : '#' ∉ h) (hH : '#' ∉ H) :
    (h ++ '#' :: p = H ++ '#' :: q) ↔ (h = H ∧ p = q) := sep_eq hh hH

end HapVerif.C04
