import HapVerif.Model.C15Run
import HapVerif.Lemmas.C15
/-!
# C15 running side — lemmas (core Lean)

* `Files`: `set` replaces exactly one path and only a loaded one;
* the push loop (`pushAll`) with a memo whose key determines the path (`PathDet`) leaves every changed path with the
  content of its change and every other path untouched (`pushAll_sets`, `pushAll_untouched`);
* the invariant `Inv st c` "the running HAProxy holds, for every line of the crt-list of configuration `c`, the
  certificate the file on disk holds, and looks names up in that list" is established by a reload (`inv_reload`) and
  preserved by `step` (`inv_step`);
* the certificates of a full sync are a function of the file path (`coh_fullSync`).
-/
namespace HapVerif.C15.Run
open HapVerif.Sync List
open HapVerif.C04 (Str lower)

/-! ## files -/

theorem has_set (f : Files) (p q : Path) (c : Content) : (Files.set f p c).has q = Files.has f q := by
  induction f with
  | nil => rfl
  | cons e t ih =>
    unfold Files.set Files.has at ih ⊢
    simp only [map_cons, any_cons, ih]
    by_cases h : e.1 = p
    · by_cases hq : p = q
      · simp [h, hq]
      · simp [h, hq]
    · simp [h]

theorem get_set_same (f : Files) (p : Path) (c : Content) (hh : Files.has f p = true) :
    (Files.set f p c).get p = some c := by
  induction f with
  | nil => simp [Files.has] at hh
  | cons e t ih =>
    unfold Files.has at ih hh
    unfold Files.set Files.get at ih ⊢
    simp only [map_cons, any_cons, Bool.or_eq_true, decide_eq_true_eq] at hh ⊢
    by_cases h : e.1 = p
    · simp [h]
    · have ht : (t.any fun e => decide (e.1 = p)) = true := by
        rcases hh with hh | hh
        · exact absurd hh h
        · exact hh
      simp only [h, if_false, find?_cons, decide_false]
      exact ih ht

theorem get_set_other (f : Files) (p q : Path) (c : Content) (hq : q ≠ p) :
    (Files.set f p c).get q = Files.get f q := by
  induction f with
  | nil => rfl
  | cons e t ih =>
    unfold Files.set Files.get at ih ⊢
    simp only [map_cons, find?_cons]
    by_cases h : e.1 = p
    · have h1 : ¬ p = q := fun e => hq e.symm
      simp only [h, if_true, h1, decide_false]
      exact ih
    · simp only [h, if_false]
      by_cases h2 : e.1 = q
      · simp [h2]
      · simp only [h2, decide_false]
        exact ih

theorem has_of_get {f : Files} {p : Path} {c : Content} (h : Files.get f p = some c) : Files.has f p = true := by
  unfold Files.get at h
  unfold Files.has
  cases hf : f.find? (fun e => decide (e.1 = p)) with
  | none => rw [hf] at h; simp at h
  | some x =>
    have hx := find?_some hf
    exact any_eq_true.2 ⟨x, mem_of_find?_eq_some hf, hx⟩

/-! ## the push loop -/

/-- the key of the memo determines the certificate file -/
def PathDet (memo : Memo) : Prop := ∀ a b, memo a b = true → a.path = b.path

/-- one content per file among the changes of an update -/
def Coherent (cs : List Chg) : Prop := ∀ a ∈ cs, ∀ b ∈ cs, a.path = b.path → a.content = b.content

theorem perHost_pathDet : PathDet perHost := fun _ _ h => by simp [perHost] at h
theorem byPath_pathDet : PathDet byPath := fun _ _ h => by simpa [byPath] using h

theorem pushOne_has (memo : Memo) (s : PushSt) (c : Chg) (q : Path) :
    (pushOne memo s c).mem.has q = s.mem.has q := by
  unfold pushOne
  cases s.done.find? (fun d => memo d c) with
  | some _ => rfl
  | none => exact has_set _ _ _ _

theorem foldl_pushOne_has (memo : Memo) (q : Path) : ∀ (cs : List Chg) (s : PushSt),
    (cs.foldl (pushOne memo) s).mem.has q = s.mem.has q
  | [], _ => rfl
  | c :: t, s => by rw [foldl_cons, foldl_pushOne_has memo q t, pushOne_has]

theorem foldl_pushOne_untouched (memo : Memo) (p : Path) : ∀ (cs : List Chg) (s : PushSt),
    (∀ c ∈ cs, c.path ≠ p) → (cs.foldl (pushOne memo) s).mem.get p = s.mem.get p
  | [], _, _ => rfl
  | c :: t, s, h => by
    rw [foldl_cons, foldl_pushOne_untouched memo p t _ (fun x hx => h x (mem_cons_of_mem _ hx))]
    unfold pushOne
    cases s.done.find? (fun d => memo d c) with
    | some _ => rfl
    | none => exact get_set_other _ _ _ _ (fun e => h c mem_cons_self e.symm)

/-- invariant of the loop: every change seen so far (sent or answered by the memo) whose file is loaded has its
content in memory -/
theorem foldl_pushOne_inv {memo : Memo} (hm : PathDet memo) : ∀ (cs : List Chg) (s : PushSt) (seen : List Chg),
    (∀ d ∈ s.done, d ∈ seen) →
    (∀ e ∈ seen, s.mem.has e.path = true → s.mem.get e.path = some e.content) →
    Coherent (seen ++ cs) →
    ∀ e ∈ seen ++ cs, (cs.foldl (pushOne memo) s).mem.has e.path = true →
      (cs.foldl (pushOne memo) s).mem.get e.path = some e.content
  | [], s, seen, _, hi, _ => by
    intro e he hh
    rw [append_nil] at he
    exact hi e he hh
  | c :: t, s, seen, hd, hi, hc => by
    have hassoc : seen ++ c :: t = (seen ++ [c]) ++ t := by rw [append_assoc, singleton_append]
    rw [hassoc] at hc ⊢
    rw [foldl_cons]
    have hcmem : c ∈ (seen ++ [c]) ++ t := mem_append_left _ (mem_append_right _ (mem_singleton.2 rfl))
    have hseen : ∀ x ∈ seen, x ∈ (seen ++ [c]) ++ t := fun x hx => mem_append_left _ (mem_append_left _ hx)
    refine foldl_pushOne_inv hm t (pushOne memo s c) (seen ++ [c]) ?_ ?_ hc
    · -- done ⊆ seen
      intro d hdm
      unfold pushOne at hdm
      cases hf : s.done.find? (fun d => memo d c) with
      | some x => rw [hf] at hdm; exact mem_append_left _ (hd d hdm)
      | none =>
        rw [hf] at hdm
        rcases mem_cons.1 hdm with rfl | hdm
        · exact mem_append_right _ (mem_singleton.2 rfl)
        · exact mem_append_left _ (hd d hdm)
    · intro e he hh
      rw [pushOne_has] at hh
      unfold pushOne
      cases hf : s.done.find? (fun d => memo d c) with
      | some d =>
        simp only
        rcases mem_append.1 he with he | he
        · exact hi e he hh
        · have hec : e = c := mem_singleton.1 he
          subst hec
          have hdd : d ∈ s.done := mem_of_find?_eq_some hf
          have hmd := find?_some hf
          have hp : d.path = e.path := hm d e hmd
          have hcont : d.content = e.content := hc d (hseen d (hd d hdd)) e hcmem hp
          have := hi d (hd d hdd) (by rw [hp]; exact hh)
          rw [hp, hcont] at this
          exact this
      | none =>
        simp only
        by_cases hp : e.path = c.path
        · have hcont : e.content = c.content := by
            rcases mem_append.1 he with he | he
            · exact hc e (hseen e he) c hcmem hp
            · rw [mem_singleton.1 he]
          rw [hp, hcont]
          exact get_set_same _ _ _ (by rw [← hp]; exact hh)
        · rw [get_set_other _ _ _ _ hp]
          rcases mem_append.1 he with he | he
          · exact hi e he hh
          · exact absurd (by rw [mem_singleton.1 he]) hp

/-- **every changed FILE ends with the content of its change** when the key of the memo determines the file -/
theorem pushAll_sets {memo : Memo} (hm : PathDet memo) {mem : Files} {cs : List Chg} (hc : Coherent cs)
    {e : Chg} (he : e ∈ cs) (hh : Files.has mem e.path = true) :
    (pushAll memo mem cs).mem.get e.path = some e.content := by
  unfold pushAll
  have := foldl_pushOne_inv hm cs { mem := mem } [] (by intro d hd; simp at hd) (by intro e he; simp at he)
    (by rw [nil_append]; exact hc) e (by rw [nil_append]; exact he)
  apply this
  rw [foldl_pushOne_has]
  exact hh

theorem pushAll_untouched (memo : Memo) (mem : Files) (cs : List Chg) (p : Path) (h : ∀ c ∈ cs, c.path ≠ p) :
    (pushAll memo mem cs).mem.get p = Files.get mem p := by
  unfold pushAll
  exact foldl_pushOne_untouched memo p cs _ h

/-! ## configurations -/

theorem pathOf_dflt {c : Crt} : pathOf c = .dflt ↔ c = .dflt := by
  cases c <;> simp [pathOf]

/-- the certificate of a host is a function of its file -/
def Coh (c : Cfg) : Prop :=
  ∀ h1 h2, pathOf (c.crtOfHost h1) = pathOf (c.crtOfHost h2) → c.crtOfHost h1 = c.crtOfHost h2

theorem mem_crtList_cfg {c : Cfg} {e : CrtLine} (h : e ∈ crtList c) :
    e.filter ∈ c.hosts ∧ e.crt = c.crtOfHost e.filter := by
  unfold crtList at h
  simp only [mem_map, mem_filter, C03.mem_sortBy, decide_eq_true_eq, Bool.or_eq_true] at h
  obtain ⟨x, ⟨⟨h1, _⟩, _⟩, rfl⟩ := h
  exact ⟨h1, rfl⟩

theorem mem_changes {prev cur : Cfg} {x : Chg} (h : x ∈ changes prev cur) :
    x.host ∈ cur.hosts ∧ x.host ∈ prev.hosts ∧
    pathOf (prev.crtOfHost x.host) = pathOf (cur.crtOfHost x.host) ∧
    x.path = pathOf (cur.crtOfHost x.host) ∧ x.content = contentOf (cur.crtOfHost x.host) := by
  unfold changes at h
  obtain ⟨hst, hmem, hx⟩ := mem_filterMap.1 h
  have hm := mem_filter.1 hmem
  simp only at hx
  split at hx
  · rename_i hcond
    cases hx
    exact ⟨hm.1, by simpa using hm.2, hcond.1, rfl, rfl⟩
  · cases hx

theorem changes_mem {prev cur : Cfg} {h : Str} (h1 : h ∈ cur.hosts) (h2 : h ∈ prev.hosts)
    (hp : pathOf (prev.crtOfHost h) = pathOf (cur.crtOfHost h))
    (hc : contentOf (prev.crtOfHost h) ≠ contentOf (cur.crtOfHost h)) :
    (⟨h, pathOf (cur.crtOfHost h), contentOf (cur.crtOfHost h)⟩ : Chg) ∈ changes prev cur := by
  unfold changes
  refine mem_filterMap.2 ⟨h, mem_filter.2 ⟨h1, by simpa using h2⟩, ?_⟩
  simp only
  rw [if_pos ⟨hp, hc⟩]

theorem changes_coherent {prev cur : Cfg} (hc : Coh cur) : Coherent (changes prev cur) := by
  intro a ha b hb hp
  obtain ⟨_, _, _, pa, ca⟩ := mem_changes ha
  obtain ⟨_, _, _, pb, cb⟩ := mem_changes hb
  rw [ca, cb, hc a.host b.host (by rw [← pa, ← pb]; exact hp)]

/-! ## the invariant -/

/-- the running HAProxy looks names up in the crt-list of configuration `c` (path level) and holds, for the file of
every line, the content that file has on disk; the default certificate is in memory -/
structure Inv (st : RState) (c : Cfg) : Prop where
  layout : st.loaded = (crtList c).map pl
  lines : ∀ l ∈ crtList c, st.mem.get (pathOf l.crt) = some (contentOf l.crt)
  dflt : st.mem.get .dflt = some .dflt

theorem coh_lines {c : Cfg} (hc : Coh c) {a b : CrtLine} (ha : a ∈ crtList c) (hb : b ∈ crtList c)
    (hp : pathOf a.crt = pathOf b.crt) : a.crt = b.crt := by
  obtain ⟨_, ea⟩ := mem_crtList_cfg ha
  obtain ⟨_, eb⟩ := mem_crtList_cfg hb
  rw [ea, eb] at hp ⊢
  exact hc _ _ hp

/-- first entry of an association list built from lines that agree on the value per key -/
theorem find_map_coh {α : Type} (key : α → Path) (val : α → Content) (x : α) : ∀ (l : List α), x ∈ l →
    (∀ y ∈ l, key y = key x → val y = val x) →
    ((l.map fun y => (key y, val y)).find? (fun e => decide (e.1 = key x))).map (·.2) = some (val x)
  | [], hx, _ => by simp at hx
  | y :: t, hx, hc => by
    simp only [map_cons, find?_cons]
    by_cases hk : key y = key x
    · simp [hk, hc y mem_cons_self hk]
    · simp only [hk, decide_false]
      rcases mem_cons.1 hx with rfl | hx
      · exact absurd rfl hk
      · exact find_map_coh key val x t hx (fun z hz => hc z (mem_cons_of_mem _ hz))

theorem inv_reload {c : Cfg} (hc : Coh c) : Inv (reload c) c := by
  refine ⟨rfl, ?_, ?_⟩
  · intro l hl
    show Files.get (diskFiles c) (pathOf l.crt) = some (contentOf l.crt)
    unfold diskFiles Files.get
    rw [find?_cons]
    by_cases hd : pathOf l.crt = .dflt
    · have : l.crt = .dflt := pathOf_dflt.1 hd
      rw [this]
      rfl
    · have hd' : ¬ Path.dflt = pathOf l.crt := fun e => hd e.symm
      simp only [hd', decide_false]
      exact find_map_coh (fun y : CrtLine => pathOf y.crt) (fun y => contentOf y.crt) l (crtList c) hl
        (fun y hy hk => by rw [coh_lines hc hy hl hk])
  · show Files.get (diskFiles c) .dflt = some .dflt
    simp [diskFiles, Files.get]

/-- a dynamic update (no reload) keeps the invariant: the loaded list is still the list on disk at path level, every
changed file was pushed, every other file is untouched -/
theorem inv_dyn {memo : Memo} (hm : PathDet memo) {st : RState} {prev cur : Cfg} (hi : Inv st prev)
    (hc : Coh cur) (hl : sameLayout prev cur = true) :
    Inv ⟨st.loaded, (pushAll memo st.mem (changes prev cur)).mem⟩ cur := by
  have hlay : (crtList prev).map pl = (crtList cur).map pl := by simpa [sameLayout] using hl
  have hcoh := changes_coherent (prev := prev) hc
  refine ⟨by rw [hi.layout, hlay], ?_, ?_⟩
  · intro l' hl'
    simp only
    obtain ⟨hh', e'⟩ := mem_crtList_cfg hl'
    -- the line of the same host in the previous list
    have hpl : pl l' ∈ (crtList prev).map pl := by rw [hlay]; exact mem_map.2 ⟨l', hl', rfl⟩
    obtain ⟨l, hlm, hple⟩ := mem_map.1 hpl
    obtain ⟨hh, e⟩ := mem_crtList_cfg hlm
    have hf : l.filter = l'.filter := congrArg Prod.fst hple
    have hp : pathOf l.crt = pathOf l'.crt := congrArg Prod.snd hple
    have hmem := hi.lines l hlm
    rw [hp] at hmem
    rw [hf] at hh e
    by_cases hex : ∃ x ∈ changes prev cur, x.path = pathOf l'.crt
    · obtain ⟨x, hx, hxp⟩ := hex
      have := pushAll_sets hm hcoh hx (by rw [hxp]; exact has_of_get hmem)
      obtain ⟨_, _, _, px, cx⟩ := mem_changes hx
      rw [hxp, cx] at this
      rw [this, e', hc x.host l'.filter (by rw [← px, hxp, e'])]
    · have hno : ∀ x ∈ changes prev cur, x.path ≠ pathOf l'.crt := fun x hx hp' => hex ⟨x, hx, hp'⟩
      rw [pushAll_untouched memo st.mem _ _ hno, hmem]
      by_cases hce : contentOf l.crt = contentOf l'.crt
      · rw [hce]
      · exfalso
        rw [e, e'] at hce hp
        have := changes_mem hh' hh hp hce
        exact hno _ this (by rw [e'])
  · simp only
    rw [pushAll_untouched memo st.mem _ _ ?_]
    · exact hi.dflt
    · intro x hx hp
      obtain ⟨_, _, hpp, px, cx⟩ := mem_changes hx
      -- a change of the default file would be a change from the default certificate to itself
      have h2 : cur.crtOfHost x.host = .dflt := pathOf_dflt.1 (by rw [← px]; exact hp)
      have h1 : prev.crtOfHost x.host = .dflt := pathOf_dflt.1 (by rw [hpp, h2]; rfl)
      unfold changes at hx
      obtain ⟨h0, _, hx0⟩ := mem_filterMap.1 hx
      simp only at hx0
      split at hx0
      · rename_i hcond
        cases hx0
        simp only at h1 h2
        exact hcond.2 (by rw [h1, h2])
      · cases hx0

theorem inv_step {memo : Memo} (hm : PathDet memo) {st : RState} {prev cur : Cfg} (hi : Inv st prev)
    (hc : Coh cur) (forced : Bool) : Inv (step memo st prev cur forced).st cur := by
  unfold step
  simp only
  split
  · exact inv_reload hc
  · rename_i hcond
    simp only [Bool.or_eq_true, Bool.not_eq_true', not_or, Bool.not_eq_false] at hcond
    exact inv_dyn hm hi hc (by simpa using hcond.1.2)

/-! ## the certificates of a full sync are a function of the file -/

/-- content version of Secret `a/n` in the cluster state -/
def verOf (w : World) (a n : Str) : Option Nat := (w.secs.find? (fun s => s.ns = a ∧ s.name = n)).map (·.version)

theorem crtOf_ver {w : World} {ns s a n : Str} {v : Nat} (h : crtOf w ns s = .secret a n v) : verOf w a n = some v := by
  unfold crtOf at h
  split at h
  · cases h
  · split at h
    · cases h
    · rename_i a' n' _
      split at h
      · rename_i x hx
        split at h
        · cases h
          have hp := find?_some hx
          simp only [decide_eq_true_eq] at hp
          unfold verOf
          rw [← hp.1, ← hp.2] at hx
          rw [hx]; rfl
        · cases h
      · cases h

theorem tlsDecls_crtOf {w : World} {d : Str × Crt} (h : d ∈ tlsDecls w) : ∃ ns s, d.2 = crtOf w ns s := by
  unfold tlsDecls at h
  obtain ⟨i, _, h2⟩ := mem_flatMap.1 h
  obtain ⟨b, _, h3⟩ := mem_flatMap.1 h2
  obtain ⟨x, _, rfl⟩ := mem_map.1 h3
  exact ⟨i.ns, b.secret, rfl⟩

theorem crtOfHost_ver {w : World} {h a n : Str} {v : Nat} (hc : (fullSync w).crtOfHost h = .secret a n v) :
    verOf w a n = some v := by
  rw [crtOfHost_spec] at hc
  cases hd : declaredCrt w h with
  | none => rw [hd] at hc; cases hc
  | some c =>
    rw [hd] at hc
    simp only [Option.getD_some] at hc
    unfold declaredCrt at hd
    cases hf : (tlsDecls w).find? (·.1 = h) with
    | none => rw [hf] at hd; cases hd
    | some x =>
      rw [hf] at hd
      simp only [Option.map_some, Option.some.injEq] at hd
      obtain ⟨ns, s, hx⟩ := tlsDecls_crtOf (mem_of_find?_eq_some hf)
      rw [← hd, hx] at hc
      exact crtOf_ver hc

theorem coh_fullSync (w : World) : Coh (fullSync w) := by
  intro h1 h2 hp
  cases e1 : (fullSync w).crtOfHost h1 with
  | dflt =>
    rw [e1] at hp
    exact (pathOf_dflt.1 hp.symm).symm
  | secret a n v =>
    cases e2 : (fullSync w).crtOfHost h2 with
    | dflt => rw [e1, e2] at hp; cases hp
    | secret a' n' v' =>
      rw [e1, e2] at hp
      simp only [pathOf, Path.sec.injEq] at hp
      obtain ⟨rfl, rfl⟩ := hp
      have := crtOfHost_ver e1
      rw [crtOfHost_ver e2] at this
      cases this
      rfl

/-! ## the lookup -/

theorem sniPath_map (l : List CrtLine) (sni : Str) : sniPath (l.map pl) sni = pathOf (sniCrt l sni) := by
  unfold sniPath sniCrt
  simp only [find?_map]
  have hcomp1 : ((fun e : Str × Path => !isWild e.1 && decide (lower e.1 = lower sni)) ∘ pl) =
      (fun e : CrtLine => !isWild e.filter && decide (lower e.filter = lower sni)) := rfl
  rw [hcomp1]
  cases l.find? (fun e => !isWild e.filter && decide (lower e.filter = lower sni)) with
  | some e => rfl
  | none =>
    simp only [Option.map_none]
    cases wildOf (lower sni) with
    | none => rfl
    | some wc =>
      simp only
      have hcomp2 : ((fun e : Str × Path => decide (lower e.1 = wc)) ∘ pl) =
          (fun e : CrtLine => decide (lower e.filter = wc)) := rfl
      rw [hcomp2]
      cases l.find? (fun e => decide (lower e.filter = wc)) with
      | some e => rfl
      | none => rfl

theorem sniCrt_cases (l : List CrtLine) (sni : Str) : sniCrt l sni = .dflt ∨ ∃ e ∈ l, sniCrt l sni = e.crt := by
  unfold sniCrt
  simp only
  cases h1 : l.find? (fun e => !isWild e.filter && decide (lower e.filter = lower sni)) with
  | some e => exact Or.inr ⟨e, mem_of_find?_eq_some h1, rfl⟩
  | none =>
    simp only
    cases wildOf (lower sni) with
    | none => exact Or.inl rfl
    | some wc =>
      simp only
      cases h2 : l.find? (fun e => decide (lower e.filter = wc)) with
      | some e => exact Or.inr ⟨e, mem_of_find?_eq_some h2, rfl⟩
      | none => exact Or.inl rfl

/-- under the invariant the running HAProxy presents, for every name, the content of the certificate the files on
disk select for it -/
theorem served_of_inv {st : RState} {c : Cfg} (hi : Inv st c) (sni : Str) :
    servedRun st sni = some (contentOf (sniCrt (crtList c) sni)) := by
  unfold servedRun
  rw [hi.layout, sniPath_map]
  rcases sniCrt_cases (crtList c) sni with h | ⟨e, he, h⟩
  · rw [h]; exact hi.dflt
  · rw [h]; exact hi.lines e he

end HapVerif.C15.Run
