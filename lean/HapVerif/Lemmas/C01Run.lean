import HapVerif.Lemmas.C01Tracker
/-
The converter run seen through maps: hosts `name ↦ entry`, backends `id ↦ trace`.
`outcome` depends on the state only through the entry of the declaration's host, so a run is a fold over
host maps; the backend traces are read off the log of outcomes. Simulation lemmas: a sub-run over the
declarations selected by `keep` equals the full run on the hosts that only selected declarations touch.
-/
set_option linter.unusedSectionVars false
set_option linter.unusedSimpArgs false
namespace HapVerif.C01

abbrev HM := String → Option Host
abbrev BM := String → List Touch

def HM.set (hm : HM) (h : String) (x : Host) : HM := fun k => if k = h then some x else hm k

def BM.add (bm : BM) (o : Outcome) : BM :=
  match o.back with
  | some (id, t) => fun k => if k = id then bm k ++ [t] else bm k
  | none => bm

def St.hm (st : St) : HM := st.findHost
def St.bm (st : St) : BM := fun b => ((st.findBack b).map (·.trace)).getD []

theorem find_setHost (x : Host) (l : List Host) (h : String) :
    (setHost x l).find? (fun y => decide (y.name = h)) =
      if h = x.name then some x else l.find? (fun y => decide (y.name = h)) := by
  induction l with
  | nil =>
    by_cases hx : h = x.name
    · simp [setHost, hx]
    · have : ¬ x.name = h := fun e => hx e.symm
      simp [setHost, hx, this]
  | cons y l ih =>
    unfold setHost
    by_cases hy : y.name = x.name
    · simp only [hy, if_true]
      by_cases hx : h = x.name
      · simp [hx]
      · have h1 : ¬ x.name = h := fun e => hx e.symm
        have h2 : ¬ y.name = h := by rw [hy]; exact h1
        simp [List.find?_cons, hx, h1, h2]
    · simp only [hy, if_false]
      by_cases hyh : y.name = h
      · have : ¬ h = x.name := by rw [← hyh]; exact hy
        simp [List.find?_cons, hyh, this]
      · simp [List.find?_cons, hyh, ih]

theorem find_addBackTouch (id : String) (t : Touch) (l : List Back) (b : String) :
    ((addBackTouch id t l).find? (fun y => decide (y.id = b))).map (·.trace) =
      if b = id then some (((l.find? (fun y => decide (y.id = id))).map (·.trace)).getD [] ++ [t])
      else (l.find? (fun y => decide (y.id = b))).map (·.trace) := by
  induction l with
  | nil =>
    by_cases hb : b = id
    · simp [addBackTouch, hb]
    · have : ¬ id = b := fun e => hb e.symm
      simp [addBackTouch, hb, this]
  | cons y l ih =>
    unfold addBackTouch
    by_cases hy : y.id = id
    · simp only [hy, if_true]
      by_cases hb : b = id
      · simp [List.find?_cons, hb, hy]
      · have h1 : ¬ id = b := fun e => hb e.symm
        have h2 : ¬ y.id = b := by rw [hy]; exact h1
        simp [List.find?_cons, hb, h1, h2, hy]
    · simp only [hy, if_false]
      by_cases hyb : y.id = b
      · have : ¬ b = id := by rw [← hyb]; exact hy
        simp [List.find?_cons, hyb, this]
      · by_cases hb : b = id
        · have hyi : ¬ y.id = id := hy
          simp [List.find?_cons, hyb, hb, hyi] at ih ⊢
          subst hb
          simpa [hyi] using ih
        · simp [List.find?_cons, hyb, hb] at ih ⊢
          exact ih

theorem findHost_name {st : St} {h : String} {x : Host} (hx : st.findHost h = some x) : x.name = h := by
  have := List.find?_some hx
  simpa using this

/-- the entry produced for a declaration keeps the name of the entry it started from -/
theorem outcome_host_name (rev : Rev) (w : World) (cur : Option Host) (d : Decl) :
    (outcome rev w cur d).host.name = (cur.getD { name := d.host }).name := by
  unfold outcome
  simp only []
  repeat' split
  all_goals rfl

theorem outcome_host_name' (rev : Rev) (w : World) (st : St) (d : Decl) :
    (outcome rev w (st.findHost d.host) d).host.name = d.host := by
  rw [outcome_host_name]
  cases h : st.findHost d.host with
  | none => rfl
  | some x => exact findHost_name h

theorem procDecl_hm (rev : Rev) (w : World) (st : St) (d : Decl) :
    (procDecl rev w st d).hm = st.hm.set d.host (outcome rev w (st.hm d.host) d).host := by
  funext k
  unfold procDecl St.hm St.apply St.findHost HM.set
  simp only []
  rw [find_setHost]
  have := outcome_host_name' rev w st d
  unfold St.findHost at this
  rw [this]

theorem procDecl_bm (rev : Rev) (w : World) (st : St) (d : Decl) :
    (procDecl rev w st d).bm = st.bm.add (outcome rev w (st.hm d.host) d) := by
  funext k
  unfold procDecl St.bm St.apply St.findBack BM.add St.hm
  simp only []
  cases hb : (outcome rev w (st.findHost d.host) d).back with
  | none => simp
  | some p =>
    obtain ⟨id, t⟩ := p
    simp only []
    rw [find_addBackTouch id t st.backs k]
    by_cases hk : k = id
    · subst hk; simp
    · simp [hk]

/-! ### runs over maps -/

/-- the log of a run: every declaration with its outcome -/
def logM (rev : Rev) (w : World) : List Decl → HM → List (Decl × Outcome)
  | [], _ => []
  | d :: ds, hm =>
    (d, outcome rev w (hm d.host) d) :: logM rev w ds (hm.set d.host (outcome rev w (hm d.host) d).host)

/-- the host map after a run -/
def finalHM (rev : Rev) (w : World) : List Decl → HM → HM
  | [], hm => hm
  | d :: ds, hm => finalHM rev w ds (hm.set d.host (outcome rev w (hm d.host) d).host)

/-- the touches of backend `b` in a log -/
def backTouches (b : String) (L : List (Decl × Outcome)) : List Touch :=
  L.filterMap fun x =>
    match x.2.back with
    | some (id, t) => if id = b then some t else none
    | none => none

def procs (rev : Rev) (w : World) (ds : List Decl) (st : St) : St := ds.foldl (procDecl rev w) st

theorem procs_hm (rev : Rev) (w : World) (ds : List Decl) (st : St) :
    (procs rev w ds st).hm = finalHM rev w ds st.hm := by
  induction ds generalizing st with
  | nil => rfl
  | cons d ds ih =>
    simp only [procs, List.foldl_cons, finalHM]
    have := ih (procDecl rev w st d)
    simp only [procs] at this
    rw [this, procDecl_hm]

theorem procs_bm (rev : Rev) (w : World) (ds : List Decl) (st : St) (b : String) :
    (procs rev w ds st).bm b = st.bm b ++ backTouches b (logM rev w ds st.hm) := by
  induction ds generalizing st with
  | nil => simp [procs, logM, backTouches]
  | cons d ds ih =>
    simp only [procs, List.foldl_cons, logM]
    have := ih (procDecl rev w st d)
    simp only [procs] at this
    rw [this, procDecl_hm, procDecl_bm]
    unfold backTouches BM.add
    cases ho : (outcome rev w (st.hm d.host) d).back with
    | none => simp [List.filterMap_cons, ho]
    | some p =>
      obtain ⟨id, t⟩ := p
      by_cases hb : id = b
      · subst hb; simp [List.filterMap_cons, ho]
      · have : ¬ b = id := fun e => hb e.symm
        simp [List.filterMap_cons, ho, hb, this]

theorem syncList_eq_procs (rev : Rev) (w : World) (L : List Ingress) (st : St) :
    L.foldl (syncIngress rev w) st = procs rev w (L.flatMap declsOf) st := by
  induction L generalizing st with
  | nil => rfl
  | cons i L ih =>
    simp only [List.foldl_cons, List.flatMap_cons, procs, List.foldl_append]
    rw [ih]
    rfl

/-- a host no declaration of the list names keeps its entry -/
theorem finalHM_untouched (rev : Rev) (w : World) (ds : List Decl) (hm : HM) (h : String)
    (hn : ∀ d ∈ ds, d.host ≠ h) : finalHM rev w ds hm h = hm h := by
  induction ds generalizing hm with
  | nil => rfl
  | cons d ds ih =>
    simp only [finalHM]
    rw [ih _ (fun d' hd' => hn d' (List.mem_cons_of_mem _ hd'))]
    have : ¬ h = d.host := fun e => hn d (List.mem_cons_self ..) e.symm
    simp [HM.set, this]

/-- SIMULATION: if the hosts in `H` are named exactly by the declarations selected by `keep`, the
selected declarations have the same outcomes in the full run and in the sub-run, provided both
start from host maps that agree on `H` -/
theorem sim_filter (rev : Rev) (w : World) (keep : Decl → Bool) (H : String → Prop)
    (ds : List Decl) (hm1 hm2 : HM)
    (hk : ∀ d ∈ ds, keep d = true → H d.host) (hnk : ∀ d ∈ ds, keep d = false → ¬ H d.host)
    (heq : ∀ h, H h → hm1 h = hm2 h) :
    (logM rev w ds hm1).filter (fun x => keep x.1) = logM rev w (ds.filter keep) hm2 ∧
      ∀ h, H h → finalHM rev w ds hm1 h = finalHM rev w (ds.filter keep) hm2 h := by
  induction ds generalizing hm1 hm2 with
  | nil => exact ⟨rfl, fun h hh => heq h hh⟩
  | cons d ds ih =>
    have hk' : ∀ d' ∈ ds, keep d' = true → H d'.host := fun d' hd' => hk d' (List.mem_cons_of_mem _ hd')
    have hnk' : ∀ d' ∈ ds, keep d' = false → ¬ H d'.host := fun d' hd' => hnk d' (List.mem_cons_of_mem _ hd')
    cases hkd : keep d with
    | true =>
      have hH := hk d (List.mem_cons_self ..) hkd
      have he := heq d.host hH
      have := ih (hm1.set d.host (outcome rev w (hm1 d.host) d).host)
        (hm2.set d.host (outcome rev w (hm2 d.host) d).host) hk' hnk'
        (by
          intro h hh
          unfold HM.set
          by_cases hd : h = d.host
          · simp [hd, he]
          · simp [hd, heq h hh])
      simp only [logM, finalHM, List.filter_cons, hkd, if_true]
      rw [he] at this ⊢
      exact ⟨by rw [this.1], this.2⟩
    | false =>
      have hH := hnk d (List.mem_cons_self ..) hkd
      have := ih (hm1.set d.host (outcome rev w (hm1 d.host) d).host) hm2 hk' hnk'
        (by
          intro h hh
          unfold HM.set
          have : ¬ h = d.host := fun e => hH (e ▸ hh)
          simp [this, heq h hh])
      simp only [logM, finalHM, List.filter_cons, hkd]
      simpa using this

theorem backTouches_filter (b : String) (p : Decl × Outcome → Bool) (L : List (Decl × Outcome))
    (h : ∀ x ∈ L, p x = false → ∀ t, x.2.back ≠ some (b, t)) :
    backTouches b L = backTouches b (L.filter p) := by
  induction L with
  | nil => rfl
  | cons x L ih =>
    have ih' := ih (fun y hy => h y (List.mem_cons_of_mem _ hy))
    cases hp : p x with
    | true =>
      simp only [backTouches, List.filterMap_cons, List.filter_cons, hp, if_true] at ih' ⊢
      cases hb : (match x.2.back with | some (id, t) => if id = b then some t else none | none => none) with
      | none => simpa using ih'
      | some t => simp [ih']
    | false =>
      have hx := h x (List.mem_cons_self ..) hp
      simp only [backTouches, List.filterMap_cons, List.filter_cons, hp] at ih' ⊢
      cases hb : x.2.back with
      | none => simpa using ih'
      | some q =>
        obtain ⟨id, t⟩ := q
        by_cases hid : id = b
        · subst hid; exact absurd hb (hx t)
        · simpa [hid] using ih'

theorem backTouches_nil_of (b : String) (L : List (Decl × Outcome))
    (h : ∀ x ∈ L, ∀ t, x.2.back ≠ some (b, t)) : backTouches b L = [] := by
  rw [backTouches_filter b (fun _ => false) L (fun x hx _ => h x hx)]
  simp [backTouches]

theorem mem_backTouches {b : String} {L : List (Decl × Outcome)} {t : Touch} :
    t ∈ backTouches b L ↔ ∃ x ∈ L, x.2.back = some (b, t) := by
  unfold backTouches
  simp only [List.mem_filterMap]
  constructor
  · rintro ⟨x, hx, h⟩
    refine ⟨x, hx, ?_⟩
    cases hb : x.2.back with
    | none => simp [hb] at h
    | some q =>
      obtain ⟨id, t'⟩ := q
      by_cases hid : id = b
      · simp [hb, hid] at h; simp [hid, h]
      · simp [hb, hid] at h
  · rintro ⟨x, hx, h⟩
    exact ⟨x, hx, by simp [h]⟩

end HapVerif.C01
