import HapVerif.Lemmas.C01Step
/-
A declaration's outcome is determined by the objects its touch records: if those objects have the same value in
another cluster, the outcome (new host entry, backend touch) is the same there. Lifted to whole runs.
-/
set_option linter.unusedSectionVars false
set_option linter.unusedSimpArgs false
set_option linter.unusedVariables false
namespace HapVerif.C01

/-- every declaration appends exactly one touch to the entry of its host -/
theorem outcome_trace_append (rev : Rev) (w : World) (cur : Option Host) (d : Decl) :
    ∃ tch, (outcome rev w cur d).host.trace = (cur.getD { name := d.host }).trace ++ [tch] ∧ tch.ing = d.ing := by
  unfold outcome
  simp only []
  repeat' split
  all_goals exact ⟨_, rfl, rfl⟩

/-- a backend touch comes from a declaration that resolves (in the cluster of the run) to that backend;
the touch belongs to the declaring ingress and records the service -/
theorem outcome_back_spec (rev : Rev) (w : World) (cur : Option Host) (d : Decl) (id : String) (bt : Touch)
    (h : (outcome rev w cur d).back = some (id, bt)) :
    bt.ing = d.ing ∧ ∃ s p sv tg, declSvc d = some (s, p) ∧ resolve w d.ing.ns s p = .ok sv tg ∧
      id = backID d.ing.ns s tg ∧
      ((⟨.svc, d.ing.ns ++ "/" ++ s⟩ : Node), ObjVal.svc (some sv)) ∈ bt.reads := by
  obtain ⟨ing, host, k⟩ := d
  cases k with
  | ruleHost =>
    unfold outcome at h
    simp only [] at h
    split at h <;> simp at h
  | tlsHost secret =>
    unfold outcome at h
    simp only [] at h
    split at h
    · simp at h
    · split at h <;> simp at h
  | path p =>
    unfold outcome at h
    simp only [] at h
    by_cases hp : (cur.getD { name := host }).hasPath (if p.path = "" then "/" else p.path) (matchOf p.ptype) = true
    · simp [hp] at h
    · simp only [hp] at h
      unfold addBackend at h
      cases hres : resolve w ing.ns p.svc p.port with
      | noSvc => simp [hres] at h
      | noPort s => simp [hres] at h
      | ok sv tg =>
        simp [hres] at h
        obtain ⟨rfl, rfl⟩ := h
        exact ⟨rfl, p.svc, p.port, sv, tg, rfl, hres, rfl, by simp⟩
  | defBack svc port =>
    unfold outcome at h
    simp only [] at h
    by_cases hps : ing.pseudo = true
    · simp only [hps, if_true] at h
      unfold addBackend at h
      cases hres : resolve w ing.ns svc port with
      | noSvc => simp [hres] at h
      | noPort s => simp [hres] at h
      | ok sv tg =>
        simp [hres] at h
        obtain ⟨rfl, rfl⟩ := h
        exact ⟨rfl, svc, port, sv, tg, rfl, hres, rfl, by simp⟩
    simp only [hps, if_false] at h
    by_cases hp : (cur.getD { name := host }).hasPath "/" "begin" = true
    · simp [hp] at h
    · simp only [hp] at h
      unfold addBackend at h
      cases hres : resolve w ing.ns svc port with
      | noSvc => simp [hres] at h
      | noPort s => simp [hres] at h
      | ok sv tg =>
        simp [hres] at h
        obtain ⟨rfl, rfl⟩ := h
        exact ⟨rfl, svc, port, sv, tg, rfl, hres, rfl, by simp⟩

/-- the recorded reads have the same value in `w'` -/
def ReadsSame (w' : World) (t : Touch) : Prop := ∀ r ∈ t.reads, w'.read r.1 = r.2

theorem matchingPods_nil {w : World} (h : w.drain = false) (s : String) : matchingPods w s = [] := by
  simp [matchingPods, h]

theorem resolve_congr {w w' : World} {ns svc port : String}
    (h : w'.findSvc (ns ++ "/" ++ svc) = w.findSvc (ns ++ "/" ++ svc)) :
    resolve w' ns svc port = resolve w ns svc port := by
  unfold resolve
  rw [h]

/-- OUTCOME CONGRUENCE: the outcome in `w'` equals the outcome in `w` when the touch the declaration
records in `w` reads objects that have the same value in `w'` (drain-support off in both) -/
theorem outcome_congr (rev : Rev) (w w' : World) (cur : Option Host) (d : Decl)
    (hdr : w.drain = false) (hdr' : w'.drain = false)
    (hsame : ∀ tch, (outcome rev w cur d).host.trace = (cur.getD { name := d.host }).trace ++ [tch] →
      ReadsSame w' tch) :
    (outcome rev w' cur d).host = (outcome rev w cur d).host ∧
      (outcome rev w' cur d).back = (outcome rev w cur d).back := by
  obtain ⟨ing, host, k⟩ := d
  cases k with
  | ruleHost =>
    unfold outcome at hsame ⊢
    simp only [] at hsame ⊢
    cases hc : ing.className with
    | none => simp [hc]
    | some c => simp [hc]
  | tlsHost secret =>
    unfold outcome at hsame ⊢
    simp only [] at hsame ⊢
    by_cases hs : secret = ""
    · simp [hs]
    · simp only [hs, if_false] at hsame ⊢
      cases hk : secretKey ing.ns secret with
      | none => simp [hk]
      | some sk =>
        simp only [hk] at hsame ⊢
        have := hsame _ rfl ⟨⟨.sec, sk⟩, .sec (w.findSec sk)⟩ (by simp)
        simp [World.read] at this
        simp [this]
  | path p =>
    unfold outcome at hsame ⊢
    simp only [] at hsame ⊢
    by_cases hp : (cur.getD { name := host }).hasPath (if p.path = "" then "/" else p.path) (matchOf p.ptype) = true
    · simp [hp]
    · simp only [hp] at hsame ⊢
      have hab : addBackend w' ⟨ing, host, .path p⟩ p.svc p.port = addBackend w ⟨ing, host, .path p⟩ p.svc p.port := by
        unfold addBackend at hsame ⊢
        cases hres : resolve w ing.ns p.svc p.port with
        | noSvc =>
          simp only [hres] at hsame
          have := hsame _ rfl ⟨⟨.svc, ing.ns ++ "/" ++ p.svc⟩, .svc none⟩ (by simp)
          simp [World.read] at this
          have hr : resolve w' ing.ns p.svc p.port = .noSvc := by
            unfold resolve; simp [this]
          simp [hr]
        | noPort s =>
          simp only [hres] at hsame
          have := hsame _ rfl ⟨⟨.svc, ing.ns ++ "/" ++ p.svc⟩, .svc (some s)⟩ (by simp)
          simp [World.read] at this
          have hs : w.findSvc (ing.ns ++ "/" ++ p.svc) = some s := by
            unfold resolve at hres
            cases hf : w.findSvc (ing.ns ++ "/" ++ p.svc) with
            | none => simp [hf] at hres
            | some s0 =>
              simp [hf] at hres
              cases hfp : portOf s0 p.port with
              | none => simp [hfp] at hres; rw [hres]
              | some _ => simp [hfp] at hres
          have hr : resolve w' ing.ns p.svc p.port = resolve w ing.ns p.svc p.port :=
            resolve_congr (by rw [this, hs])
          rw [hr, hres]
        | ok s tg =>
          simp only [hres, matchingPods_nil hdr, List.map_nil, List.append_nil] at hsame
          have h1 := hsame _ rfl ⟨⟨.svc, ing.ns ++ "/" ++ p.svc⟩, .svc (some s)⟩ (by simp)
          have h2 := hsame _ rfl ⟨⟨.ep, ing.ns ++ "/" ++ p.svc⟩, .ep (w.findEp (ing.ns ++ "/" ++ p.svc))⟩ (by simp)
          simp [World.read] at h1 h2
          have hs : w.findSvc (ing.ns ++ "/" ++ p.svc) = some s := by
            unfold resolve at hres
            cases hf : w.findSvc (ing.ns ++ "/" ++ p.svc) with
            | none => simp [hf] at hres
            | some s0 =>
              simp [hf] at hres
              cases hfp : portOf s0 p.port with
              | none => simp [hfp] at hres
              | some _ => simp [hfp] at hres; rw [hres.1]
          have hr : resolve w' ing.ns p.svc p.port = resolve w ing.ns p.svc p.port :=
            resolve_congr (by rw [h1, hs])
          rw [hr, hres]
          simp [matchingPods_nil hdr, matchingPods_nil hdr', h2]
      rw [hab]
      exact ⟨rfl, rfl⟩
  | defBack svc port =>
    unfold outcome at hsame ⊢
    simp only [] at hsame ⊢
    by_cases hps : ing.pseudo = true
    · -- `syncDefaultBackend`: the same reads as the default backend of an ingress
      simp only [hps, if_true] at hsame ⊢
      have hab : addBackend w' ⟨ing, host, .defBack svc port⟩ svc port =
          addBackend w ⟨ing, host, .defBack svc port⟩ svc port := by
        unfold addBackend at hsame ⊢
        cases hres : resolve w ing.ns svc port with
        | noSvc =>
          simp only [hres] at hsame
          have := hsame _ rfl ⟨⟨.svc, ing.ns ++ "/" ++ svc⟩, .svc none⟩ (by simp)
          simp [World.read] at this
          have hr : resolve w' ing.ns svc port = .noSvc := by
            unfold resolve; simp [this]
          simp [hr]
        | noPort s =>
          simp only [hres] at hsame
          have := hsame _ rfl ⟨⟨.svc, ing.ns ++ "/" ++ svc⟩, .svc (some s)⟩ (by simp)
          simp [World.read] at this
          have hs : w.findSvc (ing.ns ++ "/" ++ svc) = some s := by
            unfold resolve at hres
            cases hf : w.findSvc (ing.ns ++ "/" ++ svc) with
            | none => simp [hf] at hres
            | some s0 =>
              simp [hf] at hres
              cases hfp : portOf s0 port with
              | none => simp [hfp] at hres; rw [hres]
              | some _ => simp [hfp] at hres
          have hr : resolve w' ing.ns svc port = resolve w ing.ns svc port :=
            resolve_congr (by rw [this, hs])
          rw [hr, hres]
        | ok s tg =>
          simp only [hres, matchingPods_nil hdr, List.map_nil, List.append_nil] at hsame
          have h1 := hsame _ rfl ⟨⟨.svc, ing.ns ++ "/" ++ svc⟩, .svc (some s)⟩ (by simp)
          have h2 := hsame _ rfl ⟨⟨.ep, ing.ns ++ "/" ++ svc⟩, .ep (w.findEp (ing.ns ++ "/" ++ svc))⟩ (by simp)
          simp [World.read] at h1 h2
          have hs : w.findSvc (ing.ns ++ "/" ++ svc) = some s := by
            unfold resolve at hres
            cases hf : w.findSvc (ing.ns ++ "/" ++ svc) with
            | none => simp [hf] at hres
            | some s0 =>
              simp [hf] at hres
              cases hfp : portOf s0 port with
              | none => simp [hfp] at hres
              | some _ => simp [hfp] at hres; rw [hres.1]
          have hr : resolve w' ing.ns svc port = resolve w ing.ns svc port :=
            resolve_congr (by rw [h1, hs])
          rw [hr, hres]
          simp [matchingPods_nil hdr, matchingPods_nil hdr', h2]
      rw [hab]
      exact ⟨rfl, rfl⟩
    simp only [hps, if_false] at hsame ⊢
    by_cases hp : (cur.getD { name := host }).hasPath "/" "begin" = true
    · simp [hp]
    · simp only [hp] at hsame ⊢
      have hab : addBackend w' ⟨ing, host, .defBack svc port⟩ svc port =
          addBackend w ⟨ing, host, .defBack svc port⟩ svc port := by
        unfold addBackend at hsame ⊢
        cases hres : resolve w ing.ns svc port with
        | noSvc =>
          simp only [hres] at hsame
          have := hsame _ rfl ⟨⟨.svc, ing.ns ++ "/" ++ svc⟩, .svc none⟩ (by simp)
          simp [World.read] at this
          have hr : resolve w' ing.ns svc port = .noSvc := by
            unfold resolve; simp [this]
          simp [hr]
        | noPort s =>
          simp only [hres] at hsame
          have := hsame _ rfl ⟨⟨.svc, ing.ns ++ "/" ++ svc⟩, .svc (some s)⟩ (by simp)
          simp [World.read] at this
          have hs : w.findSvc (ing.ns ++ "/" ++ svc) = some s := by
            unfold resolve at hres
            cases hf : w.findSvc (ing.ns ++ "/" ++ svc) with
            | none => simp [hf] at hres
            | some s0 =>
              simp [hf] at hres
              cases hfp : portOf s0 port with
              | none => simp [hfp] at hres; rw [hres]
              | some _ => simp [hfp] at hres
          have hr : resolve w' ing.ns svc port = resolve w ing.ns svc port :=
            resolve_congr (by rw [this, hs])
          rw [hr, hres]
        | ok s tg =>
          simp only [hres, matchingPods_nil hdr, List.map_nil, List.append_nil] at hsame
          have h1 := hsame _ rfl ⟨⟨.svc, ing.ns ++ "/" ++ svc⟩, .svc (some s)⟩ (by simp)
          have h2 := hsame _ rfl ⟨⟨.ep, ing.ns ++ "/" ++ svc⟩, .ep (w.findEp (ing.ns ++ "/" ++ svc))⟩ (by simp)
          simp [World.read] at h1 h2
          have hs : w.findSvc (ing.ns ++ "/" ++ svc) = some s := by
            unfold resolve at hres
            cases hf : w.findSvc (ing.ns ++ "/" ++ svc) with
            | none => simp [hf] at hres
            | some s0 =>
              simp [hf] at hres
              cases hfp : portOf s0 port with
              | none => simp [hfp] at hres
              | some _ => simp [hfp] at hres; rw [hres.1]
          have hr : resolve w' ing.ns svc port = resolve w ing.ns svc port :=
            resolve_congr (by rw [h1, hs])
          rw [hr, hres]
          simp [matchingPods_nil hdr, matchingPods_nil hdr', h2]
      rw [hab]
      exact ⟨rfl, rfl⟩

/-! ### whole runs -/

/-- traces only grow during a run -/
theorem finalHM_prefix (rev : Rev) (w : World) (ds : List Decl) (hm : HM) (h : String) (x : Host)
    (hx : hm h = some x) :
    ∃ x' l, finalHM rev w ds hm h = some x' ∧ x'.trace = x.trace ++ l := by
  induction ds generalizing hm x with
  | nil => exact ⟨x, [], hx, by simp⟩
  | cons d ds ih =>
    simp only [finalHM]
    by_cases hd : h = d.host
    · subst hd
      obtain ⟨tch, htr, _⟩ := outcome_trace_append rev w (hm d.host) d
      obtain ⟨x', l, h1, h2⟩ := ih (hm.set d.host (outcome rev w (hm d.host) d).host)
        (outcome rev w (hm d.host) d).host (by simp [HM.set])
      refine ⟨x', [tch] ++ l, h1, ?_⟩
      rw [h2, htr, hx]
      simp
    · exact ih (hm.set d.host (outcome rev w (hm d.host) d).host) x (by simp [HM.set, hd, hx])

/-- WORLD CONGRUENCE: a run over the same declarations from the same host map gives the same host map
and the same backend touches in `w'` as in `w`, provided every touch of the final traces (in `w`) reads
objects that have the same value in `w'` -/
theorem world_congr (rev : Rev) (w w' : World) (hdr : w.drain = false) (hdr' : w'.drain = false)
    (ds : List Decl) (hm : HM)
    (hsame : ∀ h x, finalHM rev w ds hm h = some x → ∀ t ∈ x.trace, ReadsSame w' t) :
    finalHM rev w' ds hm = finalHM rev w ds hm ∧
      ∀ b, backTouches b (logM rev w' ds hm) = backTouches b (logM rev w ds hm) := by
  induction ds generalizing hm with
  | nil => exact ⟨rfl, fun _ => rfl⟩
  | cons d ds ih =>
    have hc := outcome_congr rev w w' (hm d.host) d hdr hdr' (by
      intro tch htr
      obtain ⟨x', l, h1, h2⟩ := finalHM_prefix rev w ds (hm.set d.host (outcome rev w (hm d.host) d).host)
        d.host (outcome rev w (hm d.host) d).host (by simp [HM.set])
      apply hsame d.host x' (by simpa [finalHM] using h1) tch
      rw [h2, htr]
      simp)
    obtain ⟨hh, hb⟩ := hc
    have ih' := ih (hm.set d.host (outcome rev w (hm d.host) d).host) (by
      intro h x hx t ht
      exact hsame h x (by simpa [finalHM] using hx) t ht)
    constructor
    · simp only [finalHM]
      rw [hh]
      exact ih'.1
    · intro b
      simp only [logM, backTouches, List.filterMap_cons]
      rw [hh, hb]
      have := ih'.2 b
      simp only [backTouches] at this
      rw [this]

end HapVerif.C01
