import HapVerif.Model.C01
/-
M-Tracker lemmas: the edge-list `sweep` computes exactly the nodes connected to the seeds, removes
exactly the edges of those components, leaves every other component alone; the Go recursion mirror
never runs out of fuel.
-/
set_option linter.unusedSectionVars false
set_option linter.unusedSimpArgs false
namespace HapVerif.C01
section
variable {α : Type} [DecidableEq α]

/-- adjacency of the undirected graph -/
def Adj (t : Tr α) (a b : α) : Prop := (a, b) ∈ t ∨ (b, a) ∈ t

/-- connected (reflexive, transitive closure of `Adj`) -/
inductive Conn (t : Tr α) : α → α → Prop
  | refl (a : α) : Conn t a a
  | tail {a b c : α} : Conn t a b → Adj t b c → Conn t a c

theorem Adj.symm {t : Tr α} {a b : α} (h : Adj t a b) : Adj t b a := Or.symm h

theorem Adj.mono {t t' : Tr α} (hs : ∀ e ∈ t, e ∈ t') {a b : α} (h : Adj t a b) : Adj t' a b :=
  h.elim (fun h => Or.inl (hs _ h)) (fun h => Or.inr (hs _ h))

theorem Conn.single {t : Tr α} {a b : α} (h : Adj t a b) : Conn t a b := .tail (.refl a) h

theorem Conn.trans {t : Tr α} {a b c : α} (h1 : Conn t a b) (h2 : Conn t b c) : Conn t a c := by
  induction h2 with
  | refl => exact h1
  | tail _ hadj ih => exact .tail ih hadj

theorem Conn.head {t : Tr α} {a b c : α} (h : Adj t a b) (h2 : Conn t b c) : Conn t a c :=
  (Conn.single h).trans h2

theorem Conn.symm {t : Tr α} {a b : α} (h : Conn t a b) : Conn t b a := by
  induction h with
  | refl => exact .refl _
  | tail _ hadj ih => exact Conn.head hadj.symm ih

theorem Conn.mono {t t' : Tr α} (hs : ∀ e ∈ t, e ∈ t') {a b : α} (h : Conn t a b) : Conn t' a b := by
  induction h with
  | refl => exact .refl _
  | tail _ hadj ih => exact .tail ih (hadj.mono hs)

/-- `track` only adds connections -/
theorem Conn.track {t : Tr α} {a b : α} (x y : α) (h : Conn t a b) : Conn (track x y t) a b :=
  h.mono (fun _ he => List.mem_cons_of_mem _ he)

theorem conn_track_self (t : Tr α) (x y : α) : Conn (track x y t) x y :=
  Conn.single (Or.inl (List.mem_cons_self ..))

/-- a node with at least one edge -/
def HasEdge (t : Tr α) (a : α) : Prop := ∃ b, Adj t a b

theorem mem_ends {t : Tr α} {a : α} : a ∈ ends t ↔ ∃ e ∈ t, a = e.1 ∨ a = e.2 := by
  simp [ends, List.mem_flatMap]

theorem mem_ends_iff_hasEdge {t : Tr α} {a : α} : a ∈ ends t ↔ HasEdge t a := by
  rw [mem_ends]
  constructor
  · rintro ⟨⟨x, y⟩, he, h | h⟩
    · exact ⟨y, Or.inl (by simpa [h] using he)⟩
    · exact ⟨x, Or.inr (by simpa [h] using he)⟩
  · rintro ⟨b, h | h⟩
    · exact ⟨(a, b), h, Or.inl rfl⟩
    · exact ⟨(b, a), h, Or.inr rfl⟩

theorem touches_iff {S : List α} {e : α × α} : touches S e = true ↔ e.1 ∈ S ∨ e.2 ∈ S := by
  simp [touches]

theorem touches_mono {S S' : List α} (h : ∀ x ∈ S, x ∈ S') {e : α × α} (ht : touches S e = true) :
    touches S' e = true := by
  rw [touches_iff] at *
  exact ht.elim (fun h1 => Or.inl (h _ h1)) (fun h1 => Or.inr (h _ h1))

theorem mem_dedup {l : List α} {a : α} : a ∈ dedup l ↔ a ∈ l := by
  induction l with
  | nil => simp [dedup]
  | cons x l ih =>
    unfold dedup
    split
    · rename_i hx
      constructor
      · intro h; exact List.mem_cons_of_mem _ (ih.mp h)
      · intro h
        rcases List.mem_cons.mp h with h | h
        · subst h; exact hx
        · exact ih.mpr h
    · simp [ih]

theorem nodup_dedup (l : List α) : (dedup l).Nodup := by
  induction l with
  | nil => simp [dedup]
  | cons x l ih =>
    unfold dedup
    split
    · exact ih
    · rename_i hx; exact List.nodup_cons.mpr ⟨hx, ih⟩

/-! ### the sweep -/

theorem sweep_succ_nil (f : Nat) (t : Tr α) (fr : List α) (h : t.filter (touches fr) = []) :
    sweep (f + 1) t fr = (t, fr) := by
  simp [sweep, h]

theorem sweep_succ_cons (f : Nat) (t : Tr α) (fr : List α) (h : t.filter (touches fr) ≠ []) :
    sweep (f + 1) t fr =
      sweep f (t.filter fun e => !touches fr e) (fr ++ ends (t.filter (touches fr))) := by
  cases hh : t.filter (touches fr) with
  | nil => exact absurd hh h
  | cons x xs => simp [sweep, hh]

theorem filter_length_add (p : α × α → Bool) (t : Tr α) :
    (t.filter p).length + (t.filter fun e => !p e).length = t.length := by
  induction t with
  | nil => simp
  | cons x t ih =>
    by_cases hp : p x = true
    · simp [List.filter_cons, hp]; omega
    · simp [List.filter_cons, hp]; omega

theorem sweep_shrinks (t : Tr α) (fr : List α) (h : t.filter (touches fr) ≠ []) :
    (t.filter fun e => !touches fr e).length < t.length := by
  have := filter_length_add (touches fr) t
  have hpos : 0 < (t.filter (touches fr)).length := List.length_pos_iff.mpr h
  omega

theorem sweep_sub (f : Nat) (t : Tr α) (fr : List α) : ∀ x ∈ fr, x ∈ (sweep f t fr).2 := by
  induction f generalizing t fr with
  | zero => intro x hx; simpa [sweep] using hx
  | succ f ih =>
    intro x hx
    by_cases h : t.filter (touches fr) = []
    · rw [sweep_succ_nil f t fr h]; exact hx
    · rw [sweep_succ_cons f t fr h]; exact ih _ _ x (List.mem_append_left _ hx)

/-- soundness: everything in the result is connected to the initial frontier -/
theorem sweep_sound (f : Nat) (t : Tr α) (fr : List α) :
    ∀ n ∈ (sweep f t fr).2, ∃ s ∈ fr, Conn t s n := by
  induction f generalizing t fr with
  | zero => intro n hn; exact ⟨n, by simpa [sweep] using hn, .refl n⟩
  | succ f ih =>
    intro n hn
    by_cases h : t.filter (touches fr) = []
    · rw [sweep_succ_nil f t fr h] at hn; exact ⟨n, hn, .refl n⟩
    · rw [sweep_succ_cons f t fr h] at hn
      obtain ⟨s1, hs1, hc⟩ := ih _ _ n hn
      have hc' : Conn t s1 n := hc.mono (fun e he => (List.mem_filter.mp he).1)
      rcases List.mem_append.mp hs1 with hfr | hend
      · exact ⟨s1, hfr, hc'⟩
      · obtain ⟨e, he', hse⟩ := mem_ends.mp hend
        obtain ⟨het, htouch⟩ := List.mem_filter.mp he'
        rcases touches_iff.mp htouch with h1 | h2
        · rcases hse with hse | hse
          · exact ⟨s1, by rw [hse]; exact h1, hc'⟩
          · exact ⟨e.1, h1, Conn.head (Or.inl (by rw [hse]; exact het)) hc'⟩
        · rcases hse with hse | hse
          · exact ⟨e.2, h2, Conn.head (Or.inr (by rw [hse]; exact het)) hc'⟩
          · exact ⟨s1, by rw [hse]; exact h2, hc'⟩

/-- with enough fuel the remaining edges are exactly the edges that do not touch the result -/
theorem sweep_rest (f : Nat) (t : Tr α) (fr : List α) (hf : t.length < f) :
    (sweep f t fr).1 = t.filter (fun e => !touches (sweep f t fr).2 e) := by
  induction f generalizing t fr with
  | zero => omega
  | succ f ih =>
    by_cases h : t.filter (touches fr) = []
    · rw [sweep_succ_nil f t fr h]
      symm
      rw [List.filter_eq_self]
      intro e he
      have : e ∉ t.filter (touches fr) := by rw [h]; simp
      have : ¬ touches fr e = true := fun h => this (List.mem_filter.mpr ⟨he, h⟩)
      simpa using this
    · rw [sweep_succ_cons f t fr h]
      have hlen : (t.filter fun e => !touches fr e).length < f := by
        have := sweep_shrinks t fr h; omega
      rw [ih _ _ hlen, List.filter_filter]
      apply List.filter_congr
      intro e _
      have hsub := sweep_sub f (t.filter fun e => !touches fr e) (fr ++ ends (t.filter (touches fr)))
      by_cases h2 : touches (sweep f (t.filter fun e => !touches fr e) (fr ++ ends (t.filter (touches fr)))).2 e = true
      · simp [h2]
      · have h1 : ¬ touches fr e = true := fun h1 =>
          h2 (touches_mono (fun x hx => hsub x (List.mem_append_left _ hx)) h1)
        simp [h1, h2]

/-- with enough fuel the result is closed: an edge that touches it has both ends in it -/
theorem sweep_closed (f : Nat) (t : Tr α) (fr : List α) (hf : t.length < f) :
    ∀ e ∈ t, touches (sweep f t fr).2 e = true → e.1 ∈ (sweep f t fr).2 ∧ e.2 ∈ (sweep f t fr).2 := by
  induction f generalizing t fr with
  | zero => omega
  | succ f ih =>
    intro e he htouch
    by_cases h : t.filter (touches fr) = []
    · rw [sweep_succ_nil f t fr h] at htouch
      exfalso
      have : e ∉ t.filter (touches fr) := by rw [h]; simp
      exact this (List.mem_filter.mpr ⟨he, htouch⟩)
    · rw [sweep_succ_cons f t fr h] at htouch ⊢
      have hlen : (t.filter fun e => !touches fr e).length < f := by
        have := sweep_shrinks t fr h; omega
      by_cases hfr : touches fr e = true
      · have hin : e ∈ t.filter (touches fr) := List.mem_filter.mpr ⟨he, hfr⟩
        have hsub := sweep_sub f (t.filter fun e => !touches fr e) (fr ++ ends (t.filter (touches fr)))
        constructor
        · exact hsub _ (List.mem_append_right _ (mem_ends.mpr ⟨e, hin, Or.inl rfl⟩))
        · exact hsub _ (List.mem_append_right _ (mem_ends.mpr ⟨e, hin, Or.inr rfl⟩))
      · exact ih _ _ hlen e (List.mem_filter.mpr ⟨he, by simpa using hfr⟩) htouch

/-! ### `queryLinks` -/

/-- `reach` = everything connected to a seed -/
theorem mem_reach {t : Tr α} {seeds : List α} {n : α} :
    n ∈ reach t seeds ↔ ∃ s ∈ seeds, Conn t s n := by
  constructor
  · exact sweep_sound _ _ _ n
  · rintro ⟨s, hs, hc⟩
    have hs' : s ∈ reach t seeds := sweep_sub _ _ _ s hs
    clear hs
    induction hc with
    | refl => exact hs'
    | tail _ hadj ih =>
      rename_i b c
      have hb := ih
      rcases hadj with h | h
      · exact (sweep_closed _ t seeds (Nat.lt_succ_self _) _ h (touches_iff.mpr (Or.inl hb))).2
      · exact (sweep_closed _ t seeds (Nat.lt_succ_self _) _ h (touches_iff.mpr (Or.inr hb))).1

/-- (T1) the output of `QueryLinks`: the nodes, with at least one edge, of the connected
components of the seeds -/
theorem mem_queryOut {t : Tr α} {seeds : List α} {n : α} :
    n ∈ queryOut t seeds ↔ HasEdge t n ∧ ∃ s ∈ seeds, Conn t s n := by
  unfold queryOut
  rw [mem_dedup, List.mem_filter, mem_ends_iff_hasEdge]
  simp [mem_reach]

/-- at least one step from `a` to `b` -/
def ReachPlus (t : Tr α) (a b : α) : Prop := ∃ c, Adj t a c ∧ Conn t c b

/-- the same set read as the Go code computes it: reachable from a seed in ≥ 1 step
(a seed without edges returns nothing; a seed is returned iff it has an edge) -/
theorem mem_queryOut_iff_reachPlus {t : Tr α} {seeds : List α} {n : α} :
    n ∈ queryOut t seeds ↔ ∃ s ∈ seeds, ReachPlus t s n := by
  rw [mem_queryOut]
  constructor
  · rintro ⟨⟨b, hb⟩, s, hs, hc⟩
    refine ⟨s, hs, ?_⟩
    cases hc with
    | refl => exact ⟨b, hb, Conn.single hb.symm⟩
    | tail h1 h2 =>
      rename_i m
      -- first step of the walk s … m – n
      have : ∀ {x y : α}, Conn t x y → x = y ∨ ∃ c, Adj t x c ∧ Conn t c y := by
        intro x y h
        induction h with
        | refl => exact Or.inl rfl
        | tail _ hadj ih =>
          rcases ih with rfl | ⟨c, hc1, hc2⟩
          · exact Or.inr ⟨_, hadj, .refl _⟩
          · exact Or.inr ⟨c, hc1, .tail hc2 hadj⟩
      rcases this (Conn.tail h1 h2) with rfl | h
      · exact ⟨b, hb, Conn.single hb.symm⟩
      · exact h
  · rintro ⟨s, hs, c, hsc, hcn⟩
    refine ⟨?_, s, hs, Conn.head hsc hcn⟩
    cases hcn with
    | refl => exact ⟨s, hsc.symm⟩
    | tail _ hadj => exact ⟨_, hadj.symm⟩

/-- the remaining links are the edges that do not touch the reached set -/
theorem rest_eq {t : Tr α} {seeds : List α} :
    rest t seeds = t.filter (fun e => !touches (reach t seeds) e) :=
  sweep_rest _ t seeds (Nat.lt_succ_self _)

/-- (T2) after `QueryLinks(…, true)` no remaining edge touches a returned node (nor any node
connected to a seed) -/
theorem rest_no_touch {t : Tr α} {seeds : List α} {e : α × α} (he : e ∈ rest t seeds) :
    e.1 ∉ reach t seeds ∧ e.2 ∉ reach t seeds := by
  rw [rest_eq] at he
  have := (List.mem_filter.mp he).2
  simp [touches] at this
  exact this

theorem rest_no_touch_out {t : Tr α} {seeds : List α} {e : α × α} (he : e ∈ rest t seeds) :
    e.1 ∉ queryOut t seeds ∧ e.2 ∉ queryOut t seeds := by
  have h := rest_no_touch he
  constructor
  · intro h1; exact h.1 (mem_reach.mpr (mem_queryOut.mp h1).2)
  · intro h1; exact h.2 (mem_reach.mpr (mem_queryOut.mp h1).2)

theorem rest_sub {t : Tr α} {seeds : List α} : ∀ e ∈ rest t seeds, e ∈ t := by
  intro e he
  rw [rest_eq] at he
  exact (List.mem_filter.mp he).1

/-- (T3) a node that is not connected to a seed keeps all its edges -/
theorem rest_adj_iff {t : Tr α} {seeds : List α} {a : α} (ha : a ∉ reach t seeds) (b : α) :
    Adj (rest t seeds) a b ↔ Adj t a b := by
  constructor
  · exact Adj.mono rest_sub
  · intro h
    have hb : b ∉ reach t seeds := by
      intro hb
      obtain ⟨s, hs, hc⟩ := mem_reach.mp hb
      exact ha (mem_reach.mpr ⟨s, hs, .tail hc h.symm⟩)
    rcases h with h | h
    · left
      rw [rest_eq]
      exact List.mem_filter.mpr ⟨h, by simp [touches, ha, hb]⟩
    · right
      rw [rest_eq]
      exact List.mem_filter.mpr ⟨h, by simp [touches, ha, hb]⟩

/-- (T3) untouched components are unchanged: connectivity from a node outside the removed
components is the same before and after -/
theorem rest_conn_iff {t : Tr α} {seeds : List α} {a : α} (ha : a ∉ reach t seeds) (b : α) :
    Conn (rest t seeds) a b ↔ Conn t a b := by
  constructor
  · exact Conn.mono rest_sub
  · intro h
    induction h with
    | refl => exact .refl _
    | tail hab hadj ih =>
      rename_i m c
      have hm : m ∉ reach t seeds := by
        intro hm
        obtain ⟨s, hs, hc⟩ := mem_reach.mp hm
        exact ha (mem_reach.mpr ⟨s, hs, hc.trans hab.symm⟩)
      exact .tail ih ((rest_adj_iff hm c).mpr hadj)

theorem not_reach_of_conn {t : Tr α} {seeds : List α} {a b : α} (ha : a ∉ reach t seeds)
    (h : Conn t a b) : b ∉ reach t seeds := by
  intro hb
  obtain ⟨s, hs, hc⟩ := mem_reach.mp hb
  exact ha (mem_reach.mpr ⟨s, hs, hc.trans h.symm⟩)

/-- a node connected to a seed has no edge left -/
theorem rest_isolated {t : Tr α} {seeds : List α} {a : α} (ha : a ∈ reach t seeds) (b : α) :
    ¬ Adj (rest t seeds) a b := by
  rintro (h | h)
  · exact (rest_no_touch h).1 ha
  · exact (rest_no_touch h).2 ha

/-! ### the Go recursion never runs out of fuel -/

theorem filter_length_mono {β : Type} (p q : β → Bool) (h : ∀ x, p x = true → q x = true) (l : List β) :
    (l.filter p).length ≤ (l.filter q).length := by
  induction l with
  | nil => simp
  | cons x l ih =>
    by_cases hp : p x = true
    · simp [List.filter_cons, hp, h x hp]; omega
    · by_cases hq : q x = true
      · simp [List.filter_cons, hp, hq]; omega
      · simp [List.filter_cons, hp, hq]; omega

/-- `removeRef`: the recursion depth is bounded by the number of half edges + 1, because every call
that recurses has deleted a key with at least one half edge first -/
theorem goRemoveRef_terminates (f : Nat) (n : α) (d : Half α) (hf : d.length < f) :
    ∃ d', goRemoveRef f n d = some d' ∧ d'.length ≤ d.length := by
  induction f generalizing n d with
  | zero => omega
  | succ f ih =>
    unfold goRemoveRef
    -- fold over the refs: the state never grows
    have hfold : ∀ (refs : List α) (d0 : Half α), (refs = [] ∨ d0.length < f) →
        ∃ d', refs.foldlM (fun d ref => goRemoveRef f ref d) d0 = some d' ∧ d'.length ≤ d0.length := by
      intro refs
      induction refs with
      | nil => intro d0 _; exact ⟨d0, rfl, Nat.le_refl _⟩
      | cons r rs ihr =>
        intro d0 h0
        have h0 : d0.length < f := by
          rcases h0 with h0 | h0
          · cases h0
          · exact h0
        obtain ⟨d1, h1, hl1⟩ := ih r d0 h0
        obtain ⟨d2, h2, hl2⟩ := ihr d1 (Or.inr (by omega))
        exact ⟨d2, by simp [List.foldlM, h1, h2], by omega⟩
    have hle : (d.filter (·.1 ≠ n)).length ≤ d.length := List.length_filter_le _ _
    by_cases hrefs : refsOf d n = []
    · obtain ⟨d', h1, h2⟩ := hfold (refsOf d n) (d.filter (·.1 ≠ n)) (Or.inl hrefs)
      exact ⟨d', h1, by omega⟩
    · -- a half edge with key n exists, so the filter is strictly shorter
      have hlt : (d.filter (·.1 ≠ n)).length < d.length := by
        have hadd := filter_length_add (fun e : α × α => decide (e.1 ≠ n)) d
        have hpos : 0 < (d.filter fun e => !decide (e.1 ≠ n)).length := by
          apply List.length_pos_iff.mpr
          intro hnil
          apply hrefs
          unfold refsOf
          have : d.filter (fun e => decide (e.1 = n)) = [] := by
            rw [← hnil]; apply List.filter_congr; intro e _; simp
          simp [this]
        have : (d.filter (·.1 ≠ n)) = d.filter (fun e : α × α => decide (e.1 ≠ n)) := rfl
        omega
      obtain ⟨d', h1, h2⟩ := hfold (refsOf d n) (d.filter (·.1 ≠ n)) (Or.inr (by omega))
      exact ⟨d', h1, by omega⟩

/-- half edges whose ref is not in the output yet -/
def pending (d : Half α) (out : List α) : Nat := (d.filter fun e => decide (e.2 ∉ out)).length

theorem pending_mono (d : Half α) {out out' : List α} (h : ∀ x ∈ out, x ∈ out') :
    pending d out' ≤ pending d out := by
  apply filter_length_mono
  intro e he
  simp at he ⊢
  exact fun h2 => he (h _ h2)

theorem filter_length_lt {β : Type} (p q : β → Bool) (h : ∀ x, p x = true → q x = true) (l : List β)
    (hw : ∃ x ∈ l, q x = true ∧ p x = false) : (l.filter p).length < (l.filter q).length := by
  induction l with
  | nil => obtain ⟨x, hx, _⟩ := hw; cases hx
  | cons y l ih =>
    obtain ⟨x, hx, hq, hp⟩ := hw
    have hm := filter_length_mono p q h l
    rcases List.mem_cons.mp hx with hxy | hx
    · subst hxy
      simp [List.filter_cons, hq, hp]; omega
    · have hi := ih ⟨x, hx, hq, hp⟩
      cases hpy : p y <;> cases hqy : q y
      · simp [List.filter_cons, hpy, hqy]; omega
      · simp [List.filter_cons, hpy, hqy]; omega
      · have := h y hpy; simp [hqy] at this
      · simp [List.filter_cons, hpy, hqy]; omega

theorem pending_lt (d : Half α) {out : List α} {k r : α} (hk : (k, r) ∈ d) (hr : r ∉ out) :
    pending d (r :: out) < pending d out := by
  apply filter_length_lt
  · intro e he; simp at he ⊢; exact he.2
  · exact ⟨(k, r), hk, by simp [hr], by simp⟩

theorem mem_refsOf {d : Half α} {k r : α} : r ∈ refsOf d k ↔ (k, r) ∈ d := by
  unfold refsOf
  simp only [List.mem_map, List.mem_filter]
  constructor
  · rintro ⟨⟨a, b⟩, ⟨h1, h2⟩, h3⟩
    simp at h2 h3
    subst h2 h3
    exact h1
  · intro h
    exact ⟨(k, r), ⟨h, by simp⟩, rfl⟩

/-- `updateOutput`: every nested call has put a new name into the output first, so the depth is
bounded by the number of half edges whose ref is still missing + 1 -/
theorem goUpdate_terminates (f : Nat) (names : List α) (d : Half α) (out : List α)
    (hf : pending d out < f) :
    ∃ out', goUpdate f names d out = some out' ∧ ∀ x ∈ out, x ∈ out' := by
  induction f generalizing names out with
  | zero => omega
  | succ f ih =>
    unfold goUpdate
    -- inner fold over the refs of one name
    have hinner : ∀ (k : α) (refs : List α) (out0 : List α), (∀ r ∈ refs, (k, r) ∈ d) → pending d out0 < f + 1 →
        ∃ out', refs.foldlM (fun out ref =>
          if ref ∈ out then some out else goUpdate f [ref] d (ref :: out)) out0 = some out' ∧
          ∀ x ∈ out0, x ∈ out' := by
      intro k refs
      induction refs with
      | nil => intro out0 _ _; exact ⟨out0, rfl, fun _ h => h⟩
      | cons r rs ihr =>
        intro out0 hk h0
        by_cases hr : r ∈ out0
        · obtain ⟨o2, h2, hs2⟩ := ihr out0 (fun x hx => hk x (List.mem_cons_of_mem _ hx)) h0
          exact ⟨o2, by simp [List.foldlM, hr, h2], hs2⟩
        · have hlt := pending_lt d (hk r (List.mem_cons_self ..)) hr
          obtain ⟨o1, h1, hs1⟩ := ih [r] (r :: out0) (by omega)
          have hmono := pending_mono d (out := out0) (out' := o1) (fun x hx => hs1 x (List.mem_cons_of_mem _ hx))
          obtain ⟨o2, h2, hs2⟩ := ihr o1 (fun x hx => hk x (List.mem_cons_of_mem _ hx)) (by omega)
          exact ⟨o2, by simp [List.foldlM, hr, h1, h2],
            fun x hx => hs2 x (hs1 x (List.mem_cons_of_mem _ hx))⟩
    -- outer fold over the names
    have houter : ∀ (ns : List α) (out0 : List α), pending d out0 < f + 1 →
        ∃ out', ns.foldlM (fun out name =>
          (refsOf d name).foldlM (fun out ref =>
            if ref ∈ out then some out else goUpdate f [ref] d (ref :: out)) out) out0 = some out' ∧
          ∀ x ∈ out0, x ∈ out' := by
      intro ns
      induction ns with
      | nil => intro out0 _; exact ⟨out0, rfl, fun _ h => h⟩
      | cons n ns ihn =>
        intro out0 h0
        obtain ⟨o1, h1, hs1⟩ := hinner n (refsOf d n) out0 (fun r hr => mem_refsOf.mp hr) h0
        have hmono := pending_mono d (out := out0) (out' := o1) hs1
        obtain ⟨o2, h2, hs2⟩ := ihn o1 (by omega)
        exact ⟨o2, by simp [List.foldlM, h1, h2], fun x hx => hs2 x (hs1 x hx)⟩
    exact houter names out hf

theorem pending_le_length (d : Half α) (out : List α) : pending d out ≤ d.length :=
  List.length_filter_le _ _

/-- (T4) `QueryLinks` as the Go code runs it always returns: both recursions stay within the
depth `number of half edges + 1` -/
theorem goQuery_terminates (d : Half α) (seeds : List α) (remove : Bool) :
    (goQuery d seeds remove).isSome = true := by
  unfold goQuery
  obtain ⟨out, hout, _⟩ := goUpdate_terminates (d.length + 1) seeds d []
    (Nat.lt_succ_of_le (pending_le_length d []))
  simp only [hout]
  cases remove with
  | false => simp
  | true =>
    have : ∀ (l : List α) (d0 : Half α),
        ∃ d', l.foldlM (fun d n => goRemoveRef (d.length + 1) n d) d0 = some d' := by
      intro l
      induction l with
      | nil => intro d0; exact ⟨d0, rfl⟩
      | cons n l ih =>
        intro d0
        obtain ⟨d1, h1, _⟩ := goRemoveRef_terminates (d0.length + 1) n d0 (Nat.lt_succ_self _)
        obtain ⟨d2, h2⟩ := ih d1
        exact ⟨d2, by simp [List.foldlM, h1, h2]⟩
    obtain ⟨d', hd'⟩ := this out d
    simp [hd']

end
end HapVerif.C01
