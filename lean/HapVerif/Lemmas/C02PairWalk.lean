import HapVerif.Lemmas.C02PairStep
/-!
# M-Dyn: stage 3 (the walk over the sorted old targets) keeps the structural invariant
-/
namespace HapVerif.C02

/-- a pair whose old endpoint was disabled by the walk: visited and without current endpoint -/
def gone (ts : List String) (p : Pair) : Bool := p.cur.isNone && !ts.contains p.target

/-- structural invariant of the walk; `ts` = targets still to visit -/
structure WInv (old cur0 : List EP) (cv : Prop) (w : Walk) (ts : List String) : Prop where
  p : PInv old cur0 w.pairs w.s.cur w.added cur0.length
  tsnd : ts.Nodup
  tsin : ∀ t ∈ ts, t ∈ w.pairs.map (·.target)
  emp : w.empty.Perm (disOf old ++ ((w.pairs.filter (gone ts)).map (·.old)))
  cov : cv → Cover w.pairs w.added cur0.length

theorem gone_cons_of_ne (t : String) (ts : List String) (q : Pair) (h : q.target ≠ t) :
    gone (t :: ts) q = gone ts q := by
  simp [gone, h]

section walk
variable {old cur0 : List EP} {cv : Prop}

theorem walkStep_inv (hT : ((enOf old).map (·.target)).Nodup) (pr : Bool) (w : Walk) (t : String) (ts : List String)
    (h : WInv old cur0 cv w (t :: ts)) : WInv old cur0 cv (walkStep pr w t) ts := by
  have hn : (w.pairs.map (·.target)).Nodup := by rw [h.p.tg]; exact hT
  have htn : t ∉ ts := (List.nodup_cons.1 h.tsnd).1
  have htsnd : ts.Nodup := (List.nodup_cons.1 h.tsnd).2
  obtain ⟨p, hf⟩ := find_of_mem (h.tsin t (by simp))
  obtain ⟨hp, l1, l2, hps, h1, h2⟩ := find_split hn hf
  have hg1 : l1.filter (gone (t :: ts)) = l1.filter (gone ts) :=
    List.filter_congr (fun q hq => gone_cons_of_ne t ts q (h1 q hq))
  have hg2 : l2.filter (gone (t :: ts)) = l2.filter (gone ts) :=
    List.filter_congr (fun q hq => gone_cons_of_ne t ts q (h2 q hq))
  have hgp : gone (t :: ts) p = false := by simp [gone, hp]
  have hfl : w.pairs.filter (gone (t :: ts)) = l1.filter (gone ts) ++ l2.filter (gone ts) := by
    rw [hps, List.filter_append, List.filter_cons, hgp, hg1, hg2]; simp
  cases hc : p.cur with
  | some ci =>
    rw [walkStep_cur pr w t p ci hf hc]
    have hcur : (finish (checkEndpointPair w.s pr p.old (w.s.cur.getD ci default))).cur = w.s.cur := by
      rw [finish_cur, chk_cur]
    refine ⟨by simpa only [hcur] using h.p, htsnd, fun t' ht' => h.tsin t' (by simp [ht']), ?_, h.cov⟩
    have hgp' : gone ts p = false := by simp [gone, hc]
    have := h.emp
    rw [hfl] at this
    show w.empty.Perm _
    rw [hps, List.filter_append, List.filter_cons, hgp']
    simpa using this
  | none =>
    have hgp' : gone ts p = true := by simp [gone, hc, hp, htn]
    cases ha : w.added with
    | nil =>
      rw [walkStep_disable pr w t p hf hc ha]
      have hcur : (disableSt w.s p.old).cur = w.s.cur := disableSt_cur _ _
      refine ⟨by simpa only [hcur] using h.p, htsnd, fun t' ht' => h.tsin t' (by simp [ht']), ?_, h.cov⟩
      have := h.emp
      rw [hfl] at this
      show (w.empty ++ [p.old]).Perm _
      rw [hps, List.filter_append, List.filter_cons, hgp', if_pos rfl]
      refine (this.append_right [p.old]).trans ?_
      simp only [List.map_append, List.map_cons, List.append_assoc]
      refine List.Perm.append_left _ (List.Perm.append_left _ ?_)
      have := (List.perm_middle (a := p.old) (l₁ := List.map (·.old) (l2.filter (gone ts))) (l₂ := []))
      rw [List.append_nil] at this
      exact this
    | cons a rest =>
      rw [walkStep_take pr w t p a rest hf hc ha]
      have hP := h.p
      rw [ha] at hP
      have hlen : w.s.cur.length = cur0.length := length_of_clr hP.clr
      have hasg : asg w.pairs = asg l1 ++ asg l2 := by rw [hps, asg_split, hc]; simp
      have hperm : (asg (l1 ++ { p with cur := some a } :: l2) ++ rest).Perm (asg w.pairs ++ a :: rest) := by
        rw [asg_split_some, hasg]
        simp only [List.append_assoc, List.cons_append]
        exact List.Perm.append_left _ List.perm_middle.symm
      have ha_lt : a < cur0.length := hP.lt a (by simp)
      rw [hps, setCur_split l1 l2 p t a hp h1 h2]
      refine ⟨⟨?_, ?_, ?_, ?_, ?_, ?_⟩, htsnd, ?_, ?_, ?_⟩ <;> dsimp only <;> (try rw [finish_cur, chk_cur])
      · rw [map_clr_setName]; exact hP.clr
      · rw [← hP.tg, hps]; simp
      · rw [← hP.od, hps]; simp
      · exact hperm.nodup_iff.2 hP.nd
      · intro x hx; exact hP.lt x (hperm.subset hx)
      · intro q hq j hj
        have hother : ∀ q ∈ w.pairs, q.cur = some j → nameAt (setName w.s.cur a p.old.name) j = q.old.name := by
          intro q hq hj
          have hja : a ≠ j := by
            have := (List.nodup_append.1 hP.nd).2.2 j (mem_asg.2 ⟨q, hq, hj⟩) a (by simp)
            exact fun e => this e.symm
          rw [nameAt_setName_ne _ _ _ _ hja]; exact hP.nm q hq j hj
        rcases List.mem_append.1 hq with hq | hq
        · exact hother q (by rw [hps]; simp [hq]) hj
        · rcases List.mem_cons.1 hq with rfl | hq
          · simp only [Option.some.injEq] at hj
            subst hj
            exact nameAt_setName_eq _ _ _ (by omega)
          · exact hother q (by rw [hps]; simp [hq]) hj
      · intro t' ht'
        have := h.tsin t' (by simp [ht'])
        rw [hps] at this
        simpa using this
      · have := h.emp
        have hgq : gone ts { p with cur := some a } = false := by simp [gone]
        rw [hfl] at this
        rw [List.filter_append, List.filter_cons, hgq]
        simpa using this
      · intro hcv j hj
        have := h.cov hcv j hj
        rw [ha, ← List.mem_append] at this
        exact List.mem_append.1 (hperm.symm.subset this)

end walk
end HapVerif.C02
