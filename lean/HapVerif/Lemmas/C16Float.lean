import HapVerif.Lemmas.C16Near
import HapVerif.Lemmas.C16Exact
/-!
# C16 — E3: `RebalanceWeight` under any rounding with relative error `≤ 2^-24`

Everything here is proved for `rebalanceWith rnd` with `Rounding rnd` (only the
relative-error bound is used), hence for `rebalance = rebalanceWith f32`.

* `float_char`   every written weight is `clamp (trunc xt)` with `xt` within 15 roundings
                 of `s * clusterWeight` for one scale `s`, and `s * clusterWeight ≤ 256 / r^7`;
* `float_range'` `0 ≤ w ≤ 256`;
* `float_order'` (needs `SmallLcm`: `256 * lcm < 2^24`) the strict order clause;
* `float_share_weak'` the share clause (Spec bound `ratio q * (1 + 1/1024)`);
* `float_near_exact'` each written weight is within one unit of the exact-arithmetic one.
-/
namespace HapVerif.C16

/-- `256 * lcm(lengths) < 2^24` -/
def SmallLcm (cls : List Cluster) : Prop := 256 * lcmCount cls < 2 ^ 24

section float
variable {rnd : Rat → Rat} {cls : List Cluster} {initial : Int}

theorem float_char (R : Rounding rnd) (h : WFIn cls initial) :
    ∃ s : Rat, 0 < s ∧ ∀ p ∈ live cls (rebalanceWith rnd cls initial),
      p.1 ∈ cls ∧ 0 < p.1.length ∧ 0 < lcmCount cls ∧ p.1.length ∣ lcmCount cls ∧
      ∃ xt : Rat, p.2 = clampW p.1.weight (truncI xt) ∧
        Near 15 (s * (clusterWeight (lcmCount cls) p.1 : Rat)) xt ∧
        s * (clusterWeight (lcmCount cls) p.1 : Rat) * rr ^ 7 ≤ 256 := by
  by_cases hg : (accAll (lcmCount cls) cls).g = 0
  · refine ⟨1, one_pos, ?_⟩
    intro p hp
    obtain ⟨h1, h2, h3, h4, h5⟩ := live_rebalanceWith h hp
    rcases h5 with ⟨_, hw, hz⟩ | ⟨hne, _⟩
    · refine ⟨h1, h2, h3, h4, 0, ?_, ?_, ?_⟩
      · rw [hz, hw]; simp [truncI_zero', clampW]
      · rw [clusterWeight_zero hw]; simp [Near]
      · rw [clusterWeight_zero hw]; norm_num
    · exact absurd hg hne
  · obtain ⟨g0, mn0, mnmx, hall, _, _⟩ := accAll_spec h hg
    have hmx0 : 0 < (accAll (lcmCount cls) cls).mx := by omega
    have hi0 : 0 < initial := by have := h.ilo; omega
    refine ⟨_, scaleF_pos (rnd := rnd) hi0 mn0 hmx0, ?_⟩
    intro p hp
    obtain ⟨h1, h2, h3, h4, h5⟩ := live_rebalanceWith h hp
    rcases h5 with ⟨hz, _⟩ | ⟨_, hv⟩
    · exact absurd hz hg
    · have hcw : clusterWeight (lcmCount cls) p.1 ≤ (accAll (lcmCount cls) cls).mx ∧
          0 ≤ clusterWeight (lcmCount cls) p.1 := by
        by_cases hw : p.1.weight = 0
        · rw [clusterWeight_zero hw]; omega
        · have hact : active p.1 := by unfold active; omega
          have := hall p.1 h1 hact
          omega
      exact ⟨h1, h2, h3, h4, _, hv, preW_near R hi0 g0 mn0 hmx0 h3 h4 h2 (h.wlo p.1 h1),
        scaleF_bound R hi0 g0 mn0 hmx0 hcw.2 hcw.1⟩

theorem cw_nonneg (h : WFIn cls initial) {c : Cluster} (hc : c ∈ cls) (hl : 0 < c.length)
    (hL : 0 < lcmCount cls) (hd : c.length ∣ lcmCount cls) :
    (0 : Rat) ≤ (clusterWeight (lcmCount cls) c : Rat) := by
  rw [clusterWeight_cast_ratio hd (by omega)]
  have : (0 : Rat) < lcmCount cls := by exact_mod_cast hL
  have := ratio_nonneg hl (h.wlo c hc)
  positivity

/-- E3 `f32_range_lower` / `f32_range_upper` (for every `Rounding`) -/
theorem float_range' (R : Rounding rnd) (h : WFIn cls initial) :
    ∀ p ∈ live cls (rebalanceWith rnd cls initial), 0 ≤ p.2 ∧ p.2 ≤ 256 := by
  obtain ⟨s, hs, hall⟩ := float_char R h
  intro p hp
  obtain ⟨h1, h2, h3, h4, xt, hv, hn, hb⟩ := hall p hp
  have c0 := cw_nonneg h h1 h2 h3 h4
  have hx0 : 0 ≤ s * (clusterWeight (lcmCount cls) p.1 : Rat) := mul_nonneg (le_of_lt hs) c0
  have hxt0 := near_nonneg hx0 hn
  rw [hv]
  refine out_range hxt0 ?_
  by_contra hc
  have hc' := not_lt.1 hc
  have p7 := rr_pow_pos 7
  have e1 : xt * rr ^ 15 * rr ^ 7 ≤ 256 :=
    le_trans (mul_le_mul_of_nonneg_right hn.2 (le_of_lt p7)) hb
  have e2 : 257 * (rr ^ 15 * rr ^ 7) ≤ xt * (rr ^ 15 * rr ^ 7) :=
    mul_le_mul_of_nonneg_right hc' (le_of_lt (mul_pos (rr_pow_pos 15) (rr_pow_pos 7)))
  have num : (256 : Rat) < 257 * (rr ^ 15 * rr ^ 7) := by unfold rr; norm_num
  linarith

/-- zero-iff for every `Rounding` (the `f32` instance is `zero_iff` of Props/C16) -/
theorem float_zero_iff' (R : Rounding rnd) (h : WFIn cls initial) :
    ∀ p ∈ live cls (rebalanceWith rnd cls initial), (p.2 = 0 ↔ p.1.weight = 0) := by
  obtain ⟨s, hs, hall⟩ := float_char R h
  intro p hp
  obtain ⟨h1, h2, h3, h4, xt, hv, hn, hb⟩ := hall p hp
  have c0 := cw_nonneg h h1 h2 h3 h4
  have hx0 : 0 ≤ s * (clusterWeight (lcmCount cls) p.1 : Rat) := mul_nonneg (le_of_lt hs) c0
  rw [hv]
  refine out_zero_iff (h.wlo p.1 h1) (near_nonneg hx0 hn) ?_
  intro hz
  rw [clusterWeight_zero hz] at hn
  simp only [Int.cast_zero, mul_zero] at hn
  exact near_zero hn

/-- E3 `f32_order`: the strict order clause survives rounding when `256·lcm < 2^24` -/
theorem float_order' (R : Rounding rnd) (h : WFIn cls initial) (hs : SmallLcm cls) :
    ∀ p ∈ live cls (rebalanceWith rnd cls initial), ∀ q ∈ live cls (rebalanceWith rnd cls initial),
      ratio p.1 < ratio q.1 → p.2 ≤ q.2 := by
  obtain ⟨s, hs0, hall⟩ := float_char R h
  intro p hp q hq hr
  obtain ⟨p1, p2, p3, p4, xp, pv, pn, _⟩ := hall p hp
  obtain ⟨q1, q2, _, q4, xq, qv, qn, _⟩ := hall q hq
  have hL16 : lcmCount cls < 2 ^ 16 := by unfold SmallLcm at hs; omega
  have gap := ratio_gap p3 hL16 p2 q2 p4 q4 (h.wlo p.1 p1) (h.whi q.1 q1) (h.whi p.1 p1) hr
  have cp0 := cw_nonneg h p1 p2 p3 p4
  have hL : (0 : Rat) < lcmCount cls := by exact_mod_cast p3
  rw [clusterWeight_cast_ratio p4 (by omega)] at pn
  rw [clusterWeight_cast_ratio q4 (by omega)] at qn
  have hrp := ratio_nonneg p2 (h.wlo p.1 p1)
  have hxp0 : 0 ≤ s * (ratio p.1 * (lcmCount cls : Rat)) := by positivity
  have hxt0 := near_nonneg hxp0 pn
  rw [pv, qv]
  refine out_order hxt0 ?_ ?_
  · -- xp ≤ xq
    have a1 : xp * rr ^ 15 ≤ s * (ratio p.1 * (lcmCount cls : Rat)) := pn.2
    have a2 : s * (ratio q.1 * (lcmCount cls : Rat)) * rr ^ 15 ≤ xq := qn.1
    have a3 : s * (ratio p.1 * (lcmCount cls : Rat)) * (1 + 1 / 2 ^ 16) ≤
        s * (ratio q.1 * (lcmCount cls : Rat)) := by
      have := mul_le_mul_of_nonneg_left gap (le_of_lt (mul_pos hs0 hL))
      calc s * (ratio p.1 * (lcmCount cls : Rat)) * (1 + 1 / 2 ^ 16)
          = s * (lcmCount cls : Rat) * (ratio p.1 * (1 + 1 / 2 ^ 16)) := by ring
        _ ≤ s * (lcmCount cls : Rat) * ratio q.1 := this
        _ = s * (ratio q.1 * (lcmCount cls : Rat)) := by ring
    have p15 := rr_pow_pos 15
    have num : (1 : Rat) ≤ rr ^ 15 * (1 + 1 / 2 ^ 16) * rr ^ 15 := by unfold rr; norm_num
    have b1 : xp * rr ^ 15 * (1 + 1 / 2 ^ 16) * rr ^ 15 ≤ xq := by
      have c1 : xp * rr ^ 15 * (1 + 1 / 2 ^ 16) ≤ s * (ratio q.1 * (lcmCount cls : Rat)) :=
        le_trans (mul_le_mul_of_nonneg_right a1 (by norm_num)) a3
      exact le_trans (mul_le_mul_of_nonneg_right c1 (le_of_lt p15)) a2
    have b2 : xp * 1 ≤ xp * (rr ^ 15 * (1 + 1 / 2 ^ 16) * rr ^ 15) :=
      mul_le_mul_of_nonneg_left num hxt0
    calc xp = xp * 1 := (mul_one _).symm
      _ ≤ xp * (rr ^ 15 * (1 + 1 / 2 ^ 16) * rr ^ 15) := b2
      _ = xp * rr ^ 15 * (1 + 1 / 2 ^ 16) * rr ^ 15 := by ring
      _ ≤ xq := b1
  · intro hwp
    have := (ratio_pos_iff p2).2 hwp
    exact (ratio_pos_iff q2).1 (lt_trans this hr)

/-- from `Near 15` to an absolute error `x / 2^20` -/
theorem near15_abs {x y : Rat} (hx : 0 ≤ x) (h : Near 15 x y) : |y - x| ≤ 1 / 2 ^ 20 * x := by
  have hy := near_nonneg hx h
  have n1 : (1 - 1 / 2 ^ 20 : Rat) ≤ rr ^ 15 := by unfold rr; norm_num
  have n2 : (1 : Rat) ≤ (1 + 1 / 2 ^ 20) * rr ^ 15 := by unfold rr; norm_num
  rw [abs_le]
  constructor
  · have : x * (1 - 1 / 2 ^ 20) ≤ x * rr ^ 15 := mul_le_mul_of_nonneg_left n1 hx
    linarith [h.1]
  · have a : y * 1 ≤ y * ((1 + 1 / 2 ^ 20) * rr ^ 15) := mul_le_mul_of_nonneg_left n2 hy
    have b : y * ((1 + 1 / 2 ^ 20) * rr ^ 15) = (y * rr ^ 15) * (1 + 1 / 2 ^ 20) := by ring
    have c : (y * rr ^ 15) * (1 + 1 / 2 ^ 20) ≤ x * (1 + 1 / 2 ^ 20) :=
      mul_le_mul_of_nonneg_right h.2 (by norm_num)
    linarith

/-- E3 `f32_share`: the Spec clause, bound `ratio q * (1 + 1/1024)` = one unit of integer
rounding + float error.  (The bound of exactly one unit is FALSE for `f32`, see
`strict_unit_share_fails` in Props/C16.) -/
theorem float_share_weak' (R : Rounding rnd) (h : WFIn cls initial) :
    ∀ p ∈ live cls (rebalanceWith rnd cls initial), ∀ q ∈ live cls (rebalanceWith rnd cls initial),
      0 < ratio p.1 → ratio p.1 ≤ ratio q.1 →
      |(p.2 : Rat) * ratio q.1 - (q.2 : Rat) * ratio p.1| ≤ ratio q.1 * (1 + 1 / 1024) := by
  obtain ⟨s, hs, hall⟩ := float_char R h
  intro p hp q hq hr0 hr
  obtain ⟨p1, p2, p3, p4, xp, pv, pn, pb⟩ := hall p hp
  obtain ⟨q1, q2, _, q4, xq, qv, qn, _⟩ := hall q hq
  rw [clusterWeight_cast_ratio p4 (by omega)] at pn pb
  rw [clusterWeight_cast_ratio q4 (by omega)] at qn
  have hL : (0 : Rat) < lcmCount cls := by exact_mod_cast p3
  have hwp : 0 < p.1.weight := (ratio_pos_iff p2).1 hr0
  have hwq : 0 < q.1.weight := (ratio_pos_iff q2).1 (lt_of_lt_of_le hr0 hr)
  have hrq : 0 < ratio q.1 := lt_of_lt_of_le hr0 hr
  have hxp : 0 ≤ s * (ratio p.1 * (lcmCount cls : Rat)) := by positivity
  have hxq : 0 ≤ s * (ratio q.1 * (lcmCount cls : Rat)) := by positivity
  have hxp0 := near_nonneg hxp pn
  have hxq0 := near_nonneg hxq qn
  rw [truncI_nonneg hxp0, clampW_pos hwp (Int.floor_nonneg.2 hxp0)] at pv
  rw [truncI_nonneg hxq0, clampW_pos hwq (Int.floor_nonneg.2 hxq0)] at qv
  have ht : 0 < s * (lcmCount cls : Rat) := mul_pos hs hL
  have ep : s * (ratio p.1 * (lcmCount cls : Rat)) = s * (lcmCount cls : Rat) * ratio p.1 := by ring
  have eq : s * (ratio q.1 * (lcmCount cls : Rat)) = s * (lcmCount cls : Rat) * ratio q.1 := by ring
  rw [ep] at pn pb hxp
  rw [eq] at qn hxq
  have main := share_scaled (t := s * (lcmCount cls : Rat)) (rp := ratio p.1) (rq := ratio q.1)
    (xt := xp) (yt := xq) (e := 1 / 2 ^ 20) (a := p.2) (b := q.2) ht hr0 hr (by norm_num)
    (near15_abs hxp pn) (near15_abs hxq qn) pv qv
  -- x_p < 257
  have hx257 : s * (lcmCount cls : Rat) * ratio p.1 ≤ 257 := by
    by_contra hc
    have hc' := le_of_lt (not_le.1 hc)
    have : 257 * rr ^ 7 ≤ s * (lcmCount cls : Rat) * ratio p.1 * rr ^ 7 :=
      mul_le_mul_of_nonneg_right hc' (le_of_lt (rr_pow_pos 7))
    have num : (256 : Rat) < 257 * rr ^ 7 := by unfold rr; norm_num
    linarith
  refine le_trans main ?_
  have : 2 * (1 / 2 ^ 20 : Rat) * (s * (lcmCount cls : Rat) * ratio p.1) ≤ 1 / 1024 := by
    calc 2 * (1 / 2 ^ 20 : Rat) * (s * (lcmCount cls : Rat) * ratio p.1) ≤ 2 * (1 / 2 ^ 20 : Rat) * 257 :=
          mul_le_mul_of_nonneg_left hx257 (by norm_num)
      _ ≤ 1 / 1024 := by norm_num
  have h2 : 1 + 2 * (1 / 2 ^ 20 : Rat) * (s * (lcmCount cls : Rat) * ratio p.1) ≤ 1 + 1 / 1024 := by linarith
  exact mul_le_mul_of_nonneg_left h2 (le_of_lt hrq)

end float

/-! ## comparison with the exact computation -/

theorem near_trans {k1 k2 : Nat} {x y z : Rat} (hx : 0 ≤ x) (h1 : Near k1 x y) (h2 : Near k2 y z) :
    Near (k1 + k2) x z := by
  have hy := near_nonneg hx h1
  have hz := near_nonneg hy h2
  have p1 := rr_pow_pos k1
  have p2 := rr_pow_pos k2
  constructor
  · calc x * rr ^ (k1 + k2) = (x * rr ^ k1) * rr ^ k2 := by rw [pow_add]; ring
      _ ≤ y * rr ^ k2 := mul_le_mul_of_nonneg_right h1.1 (le_of_lt p2)
      _ ≤ z := h2.1
  · calc z * rr ^ (k1 + k2) = (z * rr ^ k2) * rr ^ k1 := by rw [pow_add]; ring
      _ ≤ y * rr ^ k1 := mul_le_mul_of_nonneg_right h2.2 (le_of_lt p1)
      _ ≤ x := h1.2

/-- the scale chosen by the float computation is within 7 roundings of the exact one, even
when the two computations take different branches (`wf` close to 1) -/
theorem scale_near {rnd : Rat → Rat} (R : Rounding rnd) {initial : Int} {a : Acc} (hi : 0 < initial)
    (hg : 0 < a.g) (hmn : 0 < a.mn) (hmx : 0 < a.mx) :
    Near 7 (scaleE initial a) (scaleF rnd initial a) := by
  have hi' : (0 : Rat) < initial := by exact_mod_cast hi
  have hmn' : (0 : Rat) < a.mn := by exact_mod_cast hmn
  have hmx' : (0 : Rat) < a.mx := by exact_mod_cast hmx
  have n7 := wf_near R hi hg hmn hmx
  have p7 := rr_pow_pos 7
  have p7' := rr_pow_le_one 7
  have key : (initial : Rat) / a.mn = (initial : Rat) * a.mx / (256 * a.mn) * (256 / (a.mx : Rat)) := by
    field_simp
  have hs1 : (0 : Rat) < 256 / (a.mx : Rat) := by positivity
  unfold scaleE scaleF
  by_cases hE : (initial : Rat) * a.mx / (256 * a.mn) > 1
  · by_cases hF : wfOf rnd initial a > 1
    · simp only [hE, hF, if_true]
      exact near_mono (le_of_lt hs1) (by norm_num) (near_refl _)
    · simp only [hE, hF, if_true, if_false]
      have hF' := not_lt.1 hF
      rw [key]
      constructor
      · calc 256 / (a.mx : Rat) * rr ^ 7 ≤ 256 / (a.mx : Rat) * 1 := mul_le_mul_of_nonneg_left p7' (le_of_lt hs1)
          _ = 1 * (256 / (a.mx : Rat)) := by ring
          _ ≤ (initial : Rat) * a.mx / (256 * a.mn) * (256 / (a.mx : Rat)) :=
              mul_le_mul_of_nonneg_right (le_of_lt hE) (le_of_lt hs1)
      · have : (initial : Rat) * a.mx / (256 * a.mn) * rr ^ 7 ≤ 1 := le_trans n7.1 hF'
        calc (initial : Rat) * a.mx / (256 * a.mn) * (256 / (a.mx : Rat)) * rr ^ 7
            = ((initial : Rat) * a.mx / (256 * a.mn) * rr ^ 7) * (256 / (a.mx : Rat)) := by ring
          _ ≤ 1 * (256 / (a.mx : Rat)) := mul_le_mul_of_nonneg_right this (le_of_lt hs1)
          _ = 256 / (a.mx : Rat) := one_mul _
  · have hE' := not_lt.1 hE
    by_cases hF : wfOf rnd initial a > 1
    · simp only [hE, hF, if_true, if_false]
      rw [key]
      have hwfE0 : (0 : Rat) ≤ (initial : Rat) * a.mx / (256 * a.mn) := by positivity
      constructor
      · calc (initial : Rat) * a.mx / (256 * a.mn) * (256 / (a.mx : Rat)) * rr ^ 7
            ≤ 1 * (256 / (a.mx : Rat)) * 1 := by
              apply mul_le_mul (mul_le_mul_of_nonneg_right hE' (le_of_lt hs1)) p7' (le_of_lt p7)
              positivity
          _ = 256 / (a.mx : Rat) := by ring
      · have : rr ^ 7 ≤ (initial : Rat) * a.mx / (256 * a.mn) := by
          have h1 : 1 * rr ^ 7 ≤ wfOf rnd initial a * rr ^ 7 :=
            mul_le_mul_of_nonneg_right (le_of_lt hF) (le_of_lt p7)
          linarith [n7.2]
        calc 256 / (a.mx : Rat) * rr ^ 7 = rr ^ 7 * (256 / (a.mx : Rat)) := by ring
          _ ≤ (initial : Rat) * a.mx / (256 * a.mn) * (256 / (a.mx : Rat)) :=
              mul_le_mul_of_nonneg_right this (le_of_lt hs1)
    · simp only [hE, hF, if_false]
      exact near_mono (by positivity) (by norm_num) (near_refl _)

theorem clampW_lip {w a b : Int} (ha : 0 ≤ a) (hb : 0 ≤ b) (h : |a - b| ≤ 1) :
    |clampW w a - clampW w b| ≤ 1 := by
  rw [abs_le] at h ⊢
  unfold clampW
  split <;> split <;> constructor <;> omega

/-- the function whose `map` is the result -/
def outFn (rnd : Rat → Rat) (cls : List Cluster) (initial : Int) : Cluster → Option Int :=
  if lcmCount cls = 0 then fun c => some c.weight else
  if (accAll (lcmCount cls) cls).g = 0 then fun c => some c.weight else
  newWeight rnd (lcmCount cls) (accAll (lcmCount cls) cls).g
    (wfmOf rnd initial (accAll (lcmCount cls) cls)) (wfOf rnd initial (accAll (lcmCount cls) cls))

theorem rebalanceWith_map (rnd : Rat → Rat) (cls : List Cluster) (initial : Int) :
    rebalanceWith rnd cls initial = cls.map (outFn rnd cls initial) := by
  rw [rebalanceWith_eq]; unfold outFn
  split
  · rfl
  · split <;> rfl

/-- E3 `f32_near_exact` (pointwise form, any `Rounding`): for a cluster with replicas the
weight written by the float computation and the one written by the exact computation
differ by at most one -/
theorem float_near_exact' {rnd : Rat → Rat} (R : Rounding rnd) {cls : List Cluster} {initial : Int}
    (h : WFIn cls initial) {c : Cluster} (hc : c ∈ cls) (hl : 0 < c.length) :
    ∃ w w' : Int, outFn rnd cls initial c = some w ∧ outFn id cls initial c = some w' ∧
      |w - w'| ≤ 1 := by
  have hd := len_dvd_lcmCount h.len hc (by omega)
  have hL0 : lcmCount cls ≠ 0 := by omega
  unfold outFn
  rw [if_neg hL0, if_neg hL0]
  by_cases hg : (accAll (lcmCount cls) cls).g = 0
  · rw [if_pos hg, if_pos hg]
    exact ⟨c.weight, c.weight, rfl, rfl, by simp⟩
  · rw [if_neg hg, if_neg hg, newWeight_eq, newWeight_eq, if_neg (by omega), if_neg (by omega)]
    refine ⟨_, _, rfl, rfl, ?_⟩
    obtain ⟨g0, mn0, mnmx, hall, _, _⟩ := accAll_spec h hg
    have hmx0 : 0 < (accAll (lcmCount cls) cls).mx := by omega
    have hi0 : 0 < initial := by have := h.ilo; omega
    have hw := h.wlo c hc
    have hcw : clusterWeight (lcmCount cls) c ≤ (accAll (lcmCount cls) cls).mx ∧
        0 ≤ clusterWeight (lcmCount cls) c := by
      by_cases hw0 : c.weight = 0
      · rw [clusterWeight_zero hw0]; omega
      · have hact : active c := by unfold active; omega
        have := hall c hc hact
        omega
    have c0 : (0 : Rat) ≤ (clusterWeight (lcmCount cls) c : Rat) := by exact_mod_cast hcw.2
    -- exact side
    rw [preW_id g0 mn0 hmx0 hi0 hd.1 hl]
    have hsE : 0 < scaleE initial (accAll (lcmCount cls) cls) := by
      have hmn' : (0 : Rat) < (accAll (lcmCount cls) cls).mn := by exact_mod_cast mn0
      have hmx' : (0 : Rat) < (accAll (lcmCount cls) cls).mx := by exact_mod_cast hmx0
      have hi' : (0 : Rat) < initial := by exact_mod_cast hi0
      unfold scaleE; split <;> positivity
    have hxE0 : 0 ≤ scaleE initial (accAll (lcmCount cls) cls) * (clusterWeight (lcmCount cls) c : Rat) := by
      positivity
    -- bound on the exact value: scaleE = scaleF id
    have hEF : scaleE initial (accAll (lcmCount cls) cls) = scaleF id initial (accAll (lcmCount cls) cls) := by
      have hwf : wfOf id initial (accAll (lcmCount cls) cls) =
          (initial : Rat) * (accAll (lcmCount cls) cls).mx / (256 * (accAll (lcmCount cls) cls).mn) := by
        have hg' : (0 : Rat) < (accAll (lcmCount cls) cls).g := by exact_mod_cast g0
        have hmn' : (0 : Rat) < (accAll (lcmCount cls) cls).mn := by exact_mod_cast mn0
        unfold wfOf wfmOf id; field_simp
      unfold scaleE scaleF; rw [hwf]
    -- float side: Near 22 of the exact value
    have nF := preW_near R hi0 g0 mn0 hmx0 hd.2 hd.1 hl hw (c := c)
    have nS := scale_near R hi0 g0 mn0 hmx0 (initial := initial)
    have nS' : Near 7 (scaleE initial (accAll (lcmCount cls) cls) * (clusterWeight (lcmCount cls) c : Rat))
        (scaleF rnd initial (accAll (lcmCount cls) cls) * (clusterWeight (lcmCount cls) c : Rat)) := by
      have := near_mul (le_of_lt hsE) c0 nS (near_refl _)
      simpa using this
    have n22 := near_trans hxE0 nS' nF
    have hxF0 := near_nonneg hxE0 n22
    -- exact value ≤ 256 (no rounding: scaleF_bound for id gives x * r^7 ≤ 256; redo directly)
    have hxE256 : scaleE initial (accAll (lcmCount cls) cls) * (clusterWeight (lcmCount cls) c : Rat) * rr ^ 7 ≤ 256 := by
      rw [hEF]; exact scaleF_bound id_rounding hi0 g0 mn0 hmx0 hcw.2 hcw.1
    -- |xF - xE| < 1
    have hclose : |preW rnd (lcmCount cls) (accAll (lcmCount cls) cls).g
        (wfmOf rnd initial (accAll (lcmCount cls) cls)) (wfOf rnd initial (accAll (lcmCount cls) cls)) c -
        scaleE initial (accAll (lcmCount cls) cls) * (clusterWeight (lcmCount cls) c : Rat)| < 1 := by
      have a1 := n22.1
      have a2 := n22.2
      have p7 := rr_pow_pos 7
      have num1 : (1 - 1 / 2 ^ 18 : Rat) ≤ rr ^ (7 + 15) := by unfold rr; norm_num
      have num2 : (1 : Rat) ≤ (1 + 1 / 2 ^ 18) * rr ^ (7 + 15) := by unfold rr; norm_num
      have num3 : (256 : Rat) < 257 * rr ^ 7 := by unfold rr; norm_num
      have hx257 : scaleE initial (accAll (lcmCount cls) cls) * (clusterWeight (lcmCount cls) c : Rat) < 257 := by
        by_contra hcn
        have := mul_le_mul_of_nonneg_right (not_lt.1 hcn) (le_of_lt p7)
        linarith
      generalize scaleE initial (accAll (lcmCount cls) cls) * (clusterWeight (lcmCount cls) c : Rat) = x at *
      generalize preW rnd (lcmCount cls) (accAll (lcmCount cls) cls).g
        (wfmOf rnd initial (accAll (lcmCount cls) cls)) (wfOf rnd initial (accAll (lcmCount cls) cls)) c = y at *
      generalize rr ^ (7 + 15) = z at *
      rw [abs_lt]
      constructor
      · have : x * (1 - 1 / 2 ^ 18) ≤ x * z := mul_le_mul_of_nonneg_left num1 hxE0
        linarith
      · have b1 : y * 1 ≤ y * ((1 + 1 / 2 ^ 18) * z) := mul_le_mul_of_nonneg_left num2 hxF0
        have b2 : y * ((1 + 1 / 2 ^ 18) * z) = (y * z) * (1 + 1 / 2 ^ 18) := by ring
        have b3 : (y * z) * (1 + 1 / 2 ^ 18) ≤ x * (1 + 1 / 2 ^ 18) :=
          mul_le_mul_of_nonneg_right a2 (by norm_num)
        linarith
    rw [truncI_nonneg hxF0, truncI_nonneg hxE0]
    refine clampW_lip (Int.floor_nonneg.2 hxF0) (Int.floor_nonneg.2 hxE0) ?_
    -- floors of two rationals less than 1 apart differ by at most 1
    rw [abs_lt] at hclose
    rw [abs_le]
    generalize scaleE initial (accAll (lcmCount cls) cls) * (clusterWeight (lcmCount cls) c : Rat) = x at *
    generalize preW rnd (lcmCount cls) (accAll (lcmCount cls) cls).g
      (wfmOf rnd initial (accAll (lcmCount cls) cls)) (wfOf rnd initial (accAll (lcmCount cls) cls)) c = y at *
    have fy1 : (⌊y⌋ : Rat) ≤ y := Int.floor_le y
    have fy2 : y < (⌊y⌋ : Rat) + 1 := Int.lt_floor_add_one y
    have fx1 : (⌊x⌋ : Rat) ≤ x := Int.floor_le x
    have fx2 : x < (⌊x⌋ : Rat) + 1 := Int.lt_floor_add_one x
    constructor
    · have : ((⌊x⌋ - 2 : Int) : Rat) < (⌊y⌋ : Rat) := by push_cast; linarith
      have : ⌊x⌋ - 2 < ⌊y⌋ := by exact_mod_cast this
      omega
    · have : ((⌊y⌋ - 2 : Int) : Rat) < (⌊x⌋ : Rat) := by push_cast; linarith
      have : ⌊y⌋ - 2 < ⌊x⌋ := by exact_mod_cast this
      omega

end HapVerif.C16
