import HapVerif.Lemmas.C02PairAdded
/-!
# M-Dyn: stage 4 (`addedStep`) and stage 5 (`copyEmpty`), structural part
-/
namespace HapVerif.C02

/-- what `addedStep` does with one added endpoint `a` and its slot -/
def slotSt (pr : Bool) (s : PairSt) (a : Nat) (slot : EP) : PairSt :=
  let s1 : PairSt := { s with cur := setName s.cur a slot.name }
  let e := s1.cur.getD a default
  if pr ∧ e.cookie ≠ slot.cookie then { s1 with updated := false }
  else
    let r := s1.exec (.enable e.name e.ip e.port e.weight)
    if !r.2 || e.label ≠ "" then { r.1 with updated := false } else r.1

theorem addedStep_some (pr : Bool) (empty : List EP) (s : PairSt) (k a : Nat) (slot : EP)
    (h : empty[k]? = some slot) :
    addedStep pr empty (some s, k) a = (some (slotSt pr s a slot), k + 1) := by
  unfold addedStep slotSt
  simp only [h]
  split <;> rfl

theorem slotSt_cur (pr : Bool) (s : PairSt) (a : Nat) (slot : EP) :
    (slotSt pr s a slot).cur = setName s.cur a slot.name := by
  unfold slotSt
  simp only
  split
  · rfl
  · split <;> simp [exec_cur]

/-- structural invariant of stage 4: `done` = added endpoints already placed, `r` = still to place -/
structure A4 (cur0 : List EP) (W : Walk) (s : PairSt) (done r : List Nat) : Prop where
  split : W.added = done ++ r
  clr : s.cur.map clr = cur0.map clr
  nm : ∀ p ∈ W.pairs, ∀ j, p.cur = some j → nameAt s.cur j = p.old.name
  dn : done.map (nameAt s.cur) = (W.empty.take done.length).map (·.name)

theorem A4_init {old cur0 : List EP} {cv : Prop} {W : Walk} (h : WInv old cur0 cv W []) :
    A4 cur0 W W.s [] W.added :=
  ⟨rfl, h.p.clr, h.p.nm, by simp⟩

theorem A4_step {old cur0 : List EP} {cv : Prop} {W : Walk} (h : WInv old cur0 cv W [])
    (hle : W.added.length ≤ W.empty.length) (pr : Bool) (s : PairSt) (done r : List Nat) (a : Nat)
    (h4 : A4 cur0 W s done (a :: r)) :
    ∃ slot, W.empty[done.length]? = some slot ∧ A4 cur0 W (slotSt pr s a slot) (done ++ [a]) r := by
  have hlen : W.added.length = done.length + 1 + r.length := by rw [h4.split]; simp; omega
  have hk : done.length < W.empty.length := by omega
  refine ⟨W.empty[done.length], List.getElem?_eq_getElem hk, ?_⟩
  have hnd : (asg W.pairs ++ (done ++ a :: r)).Nodup := by rw [← h4.split]; exact h.p.nd
  have ha_lt : a < cur0.length := h.p.lt a (by rw [h4.split]; simp)
  have hcl : s.cur.length = cur0.length := length_of_clr h4.clr
  refine ⟨by rw [h4.split]; simp, ?_, ?_, ?_⟩
  · rw [slotSt_cur, map_clr_setName]; exact h4.clr
  · intro p hp j hj
    rw [slotSt_cur]
    have hja : a ≠ j := by
      have := (List.nodup_append.1 hnd).2.2 j (mem_asg.2 ⟨p, hp, hj⟩) a (by simp)
      exact fun e => this e.symm
    rw [nameAt_setName_ne _ _ _ _ hja]; exact h4.nm p hp j hj
  · rw [slotSt_cur, List.map_append, List.length_append, List.length_singleton, List.take_add_one,
      List.getElem?_eq_getElem hk, List.map_append, ← h4.dn]
    congr 1
    · apply List.map_congr_left
      intro x hx
      have hxa : a ≠ x := by
        have h1 := (List.nodup_append.1 hnd).2.1
        have := (List.nodup_append.1 h1).2.2 x hx a (by simp)
        exact fun e => this e.symm
      exact nameAt_setName_ne _ _ _ _ hxa
    · simp [nameAt_setName_eq _ _ _ (by omega : a < s.cur.length)]

/-! ### `copyEmpty` -/

theorem setSlot_last (l : List EP) (x : EP) (nm ck : String) :
    setSlot (l ++ [x]) ((l ++ [x]).length - 1) nm ck = l ++ [{ x with name := nm, cookie := ck }] := by
  have key : ∀ (l : List EP) (f : EP → EP), (l ++ [x]).modify l.length f = l ++ [f x] := by
    intro l f
    induction l with
    | nil => rfl
    | cons y l ih => simp only [List.cons_append, List.length_cons, List.modify_succ_cons, ih]
  have hl : (l ++ [x]).length - 1 = l.length := by simp
  unfold setSlot
  rw [hl, key]

/-- the step of `copyEmpty` -/
def cpStep (b : Back) (slot : EP) : Back :=
  let b := addEmpty b
  { b with eps := setSlot b.eps (b.eps.length - 1) slot.name slot.cookie }

theorem cpStep_eps (b : Back) (slot : EP) :
    ∃ nm, (cpStep b slot).eps = b.eps ++ [{ mkEmpty nm b.initialWeight with name := slot.name, cookie := slot.cookie }] ∧
      (cpStep b slot).initialWeight = b.initialWeight := by
  unfold cpStep addEmpty
  exact ⟨_, setSlot_last _ _ _ _, rfl⟩

theorem loadSrv_mkEmpty_name (nm n' ck : String) (w : Int) :
    loadSrv { mkEmpty nm w with name := n', cookie := ck } = loadSrv (mkEmpty n' w) := by
  simp [loadSrv, mkEmpty]

theorem cpFold_load (iw : Int) (slots : List EP) : ∀ b : Back, b.initialWeight = iw →
    load (slots.foldl cpStep b).eps = load b.eps ++ slots.map (fun sl => loadSrv (mkEmpty sl.name iw)) := by
  induction slots with
  | nil => intro b _; simp
  | cons sl rest ih =>
    intro b hb
    obtain ⟨nm, h1, h2⟩ := cpStep_eps b sl
    rw [List.foldl_cons, ih _ (h2.trans hb), h1]
    simp [load, loadSrv_mkEmpty_name, hb]

theorem copyEmpty_load (pr : Bool) (iw : Int) (cur slots : List EP) :
    load (copyEmpty pr iw cur slots) = load cur ++ slots.map (fun sl => loadSrv (mkEmpty sl.name iw)) :=
  cpFold_load iw slots _ rfl

theorem load_names (l : List EP) : (load l).map (·.name) = l.map (·.name) := by
  simp [load, loadSrv, Function.comp_def]

theorem copyEmpty_names (pr : Bool) (iw : Int) (cur slots : List EP) :
    (copyEmpty pr iw cur slots).map (·.name) = cur.map (·.name) ++ slots.map (·.name) := by
  have := congrArg (List.map (·.name)) (copyEmpty_load pr iw cur slots)
  rw [load_names, List.map_append, load_names] at this
  rw [this]; simp [loadSrv, mkEmpty, Function.comp_def]

theorem copyEmpty_length (pr : Bool) (iw : Int) (cur slots : List EP) :
    (copyEmpty pr iw cur slots).length = cur.length + slots.length := by
  have := congrArg List.length (copyEmpty_names pr iw cur slots)
  simpa using this

end HapVerif.C02
