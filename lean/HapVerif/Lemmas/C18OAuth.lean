import HapVerif.Lemmas.C18
import HapVerif.Model.C18OAuth
/-!
Helper lemmas for Props/C18OAuth.lean: the visiting order of `findBackend` (`scanOrder`) is a
sorted permutation of the published paths and commutes with filtering; `covered` is monotone in
the list of wanted calls.
-/
namespace HapVerif.C18

theorem pubLe_iff (a b : Pub) :
    pubLe a b = true ↔ a.host < b.host ∨ (a.host = b.host ∧ b.path ≤ a.path) := by
  simp [pubLe]

theorem pubLe_trans {a b c : Pub} (h1 : pubLe a b = true) (h2 : pubLe b c = true) : pubLe a c = true := by
  rw [pubLe_iff] at *
  rcases h1 with h1 | ⟨e1, p1⟩ <;> rcases h2 with h2 | ⟨e2, p2⟩
  · exact Or.inl (String.lt_trans h1 h2)
  · exact Or.inl (e2 ▸ h1)
  · exact Or.inl (e1 ▸ h2)
  · exact Or.inr ⟨e1.trans e2, String.le_trans p2 p1⟩

theorem pubLe_total (a b : Pub) : pubLe a b = true ∨ pubLe b a = true := by
  rw [pubLe_iff, pubLe_iff]
  by_cases h1 : a.host < b.host
  · exact Or.inl (Or.inl h1)
  · by_cases h2 : b.host < a.host
    · exact Or.inr (Or.inl h2)
    · have e : a.host = b.host := String.le_antisymm (String.not_lt.1 h2) (String.not_lt.1 h1)
      rcases String.le_total a.path b.path with h | h
      · exact Or.inr (Or.inr ⟨e.symm, h⟩)
      · exact Or.inl (Or.inr ⟨e, h⟩)

/-- equal keys: same host, same declared path -/
theorem pubLe_antisymm {a b : Pub} (h1 : pubLe a b = true) (h2 : pubLe b a = true) :
    a.host = b.host ∧ a.path = b.path := by
  rw [pubLe_iff] at *
  rcases h1 with h1 | ⟨e1, p1⟩ <;> rcases h2 with h2 | ⟨e2, p2⟩
  · exact absurd h2 (String.lt_asymm h1)
  · exact absurd (e2 ▸ h1) (String.lt_irrefl _)
  · exact absurd (e1 ▸ h2) (String.lt_irrefl _)
  · exact ⟨e1, String.le_antisymm p2 p1⟩

theorem insertPub_perm (q : Pub) (l : List Pub) : (insertPub q l).Perm (q :: l) := by
  induction l with
  | nil => exact List.Perm.refl _
  | cons x xs ih =>
    simp only [insertPub]
    split
    · exact List.Perm.refl _
    · exact ((List.Perm.cons x ih).trans (List.Perm.swap q x xs))

theorem scanOrder_cons (q : Pub) (l : List Pub) : scanOrder (q :: l) = insertPub q (scanOrder l) := rfl

theorem scanOrder_perm (l : List Pub) : (scanOrder l).Perm l := by
  induction l with
  | nil => exact List.Perm.refl _
  | cons x xs ih =>
    rw [scanOrder_cons]
    exact (insertPub_perm x _).trans (List.Perm.cons x ih)

theorem mem_scanOrder {q : Pub} {l : List Pub} : q ∈ scanOrder l ↔ q ∈ l := (scanOrder_perm l).mem_iff

abbrev SortedPubs (l : List Pub) : Prop := l.Pairwise (fun a b => pubLe a b = true)

theorem insertPub_sorted (q : Pub) (l : List Pub) (hl : SortedPubs l) : SortedPubs (insertPub q l) := by
  induction l with
  | nil => simp [insertPub, SortedPubs]
  | cons x xs ih =>
    have hl' := List.pairwise_cons.1 hl
    simp only [insertPub]
    split
    · rename_i hle
      refine List.pairwise_cons.2 ⟨?_, hl⟩
      intro y hy
      rcases List.mem_cons.1 hy with rfl | hy
      · exact hle
      · exact pubLe_trans hle (hl'.1 y hy)
    · rename_i hnle
      have hxq : pubLe x q = true := by
        rcases pubLe_total q x with t | t
        · exact absurd t hnle
        · exact t
      refine List.pairwise_cons.2 ⟨?_, ih hl'.2⟩
      intro y hy
      rcases List.mem_cons.1 ((insertPub_perm q xs).mem_iff.1 hy) with rfl | hy
      · exact hxq
      · exact hl'.1 y hy

theorem scanOrder_sorted (l : List Pub) : SortedPubs (scanOrder l) := by
  induction l with
  | nil => exact List.Pairwise.nil
  | cons x xs ih => exact insertPub_sorted x _ ih

theorem insertPub_of_le_all (q : Pub) (l : List Pub) (h : ∀ y ∈ l, pubLe q y = true) :
    insertPub q l = q :: l := by
  cases l with
  | nil => rfl
  | cons x xs => simp [insertPub, h x (List.mem_cons_self ..)]

theorem filter_insertPub_neg (P : Pub → Bool) (q : Pub) (l : List Pub) (hq : P q = false) :
    (insertPub q l).filter P = l.filter P := by
  induction l with
  | nil => simp [insertPub, hq]
  | cons x xs ih =>
    simp only [insertPub]
    split
    · simp [List.filter_cons, hq]
    · simp only [List.filter_cons, ih]

theorem filter_insertPub_pos (P : Pub → Bool) (q : Pub) (l : List Pub) (hs : SortedPubs l)
    (hq : P q = true) : (insertPub q l).filter P = insertPub q (l.filter P) := by
  induction l with
  | nil => simp [insertPub, hq]
  | cons x xs ih =>
    have hs' := List.pairwise_cons.1 hs
    simp only [insertPub]
    split
    · rename_i hle
      rw [List.filter_cons, if_pos hq]
      refine (insertPub_of_le_all q _ ?_).symm
      intro y hy
      have hy' : y ∈ x :: xs := (List.mem_filter.1 hy).1
      rcases List.mem_cons.1 hy' with rfl | hy'
      · exact hle
      · exact pubLe_trans hle (hs'.1 y hy')
    · rename_i hnle
      by_cases hx : P x = true
      · rw [List.filter_cons, if_pos hx, List.filter_cons, if_pos hx, ih hs'.2]
        simp only [insertPub, hnle]
        rfl
      · rw [List.filter_cons, if_neg hx, List.filter_cons, if_neg hx, ih hs'.2]

/-- visiting order and filtering commute: the order among the paths that pass a test does not
depend on the paths that fail it -/
theorem filter_scanOrder (P : Pub → Bool) (l : List Pub) :
    (scanOrder l).filter P = scanOrder (l.filter P) := by
  induction l with
  | nil => rfl
  | cons x xs ih =>
    rw [scanOrder_cons]
    by_cases hx : P x = true
    · rw [filter_insertPub_pos P x _ (scanOrder_sorted xs) hx, ih, List.filter_cons, if_pos hx, scanOrder_cons]
    · rw [filter_insertPub_neg P x _ (by simpa using hx), ih, List.filter_cons, if_neg hx]

theorem find?_scanOrder_filter (P : Pub → Bool) (l : List Pub) :
    (scanOrder l).find? P = (scanOrder (l.filter P)).find? P := by
  rw [← List.head?_filter, ← List.head?_filter, filter_scanOrder, filter_scanOrder, List.filter_filter]
  simp

/-- two listings of the same set of paths (distinct (host, path) keys) are visited in the same order -/
theorem scanOrder_eq_of_perm (l l' : List Pub) (hperm : l.Perm l')
    (hkey : ∀ a ∈ l, ∀ b ∈ l, a.host = b.host → a.path = b.path → a = b) :
    scanOrder l = scanOrder l' := by
  have hp : (scanOrder l).Perm (scanOrder l') :=
    (scanOrder_perm l).trans (hperm.trans (scanOrder_perm l').symm)
  refine List.Perm.eq_of_pairwise (le := fun a b => pubLe a b = true) ?_ ?_ ?_ hp
  · intro a b ha hb hab hba
    have ha' : a ∈ l := mem_scanOrder.1 ha
    have hb' : b ∈ l := hperm.mem_iff.2 (mem_scanOrder.1 hb)
    obtain ⟨e1, e2⟩ := pubLe_antisymm hab hba
    exact hkey a ha' b hb' e1 e2
  · exact scanOrder_sorted l
  · exact scanOrder_sorted l'

/-! ### `covered` -/

theorem covered_mono {binds : List Bind} {ws ws' : List Want} (h : ∀ x ∈ ws, x ∈ ws') (rs : List Rule)
    (hc : covered binds ws rs = true) : covered binds ws' rs = true := by
  unfold covered at *
  split at hc
  · rfl
  · rename_i n path allowed r allowed'
    simp only [Bool.and_eq_true] at hc ⊢
    refine ⟨hc.1, ?_⟩
    have hc2 := hc.2
    cases n with
    | none => simp at hc2
    | proxy port =>
      simp only [Bool.and_eq_true] at hc2 ⊢
      refine ⟨hc2.1, ?_⟩
      have hc3 := hc2.2
      split at hc3
      · rename_i t ht
        simp only [List.contains_iff_mem] at hc3 ⊢
        exact h _ hc3
      · simp at hc3
    | backend id =>
      simp only [List.contains_iff_mem] at hc2 ⊢
      exact h _ hc2
  · simp at hc

/-- nothing wanted: only the unconditional deny covers -/
theorem covered_nil {binds : List Bind} {rs : List Rule} (hc : covered binds [] rs = true) : rs = [.deny] := by
  unfold covered at hc
  split at hc
  · rfl
  · rename_i n path allowed r allowed'
    simp only [Bool.and_eq_true] at hc
    have hc2 := hc.2
    cases n with
    | none => simp at hc2
    | proxy port =>
      simp only [Bool.and_eq_true] at hc2
      have hc3 := hc2.2
      split at hc3 <;> simp at hc3
    | backend id => simp at hc2
  · simp at hc

end HapVerif.C18
