import HapVerif.Lemmas.C04File
/-!
# C04 — T1 on entries and T2: a well-ordered layout answers with an exact entry or the longest
matching entry.  Core only.
-/
namespace HapVerif.C04
open List

/-- path part of the match, by type -/
def pm (t : MT) (e : Entry) (q : Str) : Bool :=
  match t with
  | .exact => e.path = q
  | .pfx => dirPrefix e.path q
  | .beg => e.path.isPrefixOf (lower q)

/-- **T1** on entries: under every method, a key `host#path` matches the sample `H#q` iff the
hosts are equal and the path part matches -/
theorem entMatch_key {t : MT} {e : Entry} {H q : Str} (ok : EntryOK e)
    (hH : '#' ∉ H) (hHs : '/' ∉ H) (hl : lower H = H) (hq : '#' ∉ q) :
    entMatch t e (H ++ '#' :: q) = (decide (e.host = H) && pm t e q) := by
  cases t with
  | exact =>
    simp only [entMatch, pm, ok.key]
    rw [Bool.eq_iff_iff]
    simp [str_key ok.hash hH]
  | pfx =>
    simp only [entMatch, pm, ok.key]
    exact wordMatch_key ok.hne ok.slash ok.hash hH hHs hq
  | beg =>
    simp only [entMatch, pm, ok.key, lower_append, lower_cons, hl]
    have : lowerC '#' = '#' := by decide
    rw [this]
    exact beg_key ok.hash hH

/-! ### all matching non-exact entries lie on one chain -/

theorem mem_takeWhile_slash {c : Char} : ∀ {l : Str}, c ∈ l.takeWhile (· = '/') → c = '/'
  | [], h => by simp at h
  | a :: l, h => by
    rw [takeWhile_cons] at h
    split at h
    · rename_i ha
      rcases mem_cons.1 h with rfl | h
      · simpa using ha
      · exact mem_takeWhile_slash h
    · simp at h

theorem strip_decomp (p : Str) :
    p = strip p ++ (p.reverse.takeWhile (· = '/')).reverse ∧
      ∀ c ∈ (p.reverse.takeWhile (· = '/')).reverse, c = '/' := by
  constructor
  · have := takeWhile_append_dropWhile (p := (· = '/')) (l := p.reverse)
    have h2 := congrArg reverse this
    rw [reverse_append, reverse_reverse] at h2
    exact h2.symm
  · intro c hc
    rw [mem_reverse] at hc
    exact mem_takeWhile_slash hc

theorem strip_cases {p : Str} (h : noDbl p = true) : p = strip p ∨ p = strip p ++ ['/'] := by
  obtain ⟨h1, h2⟩ := strip_decomp p
  generalize (p.reverse.takeWhile (· = '/')).reverse = t at h1 h2
  match t, h1, h2 with
  | [], h1, _ => left; simpa using h1
  | [c], h1, h2 => right; rw [h2 c (by simp)] at h1; exact h1
  | c :: d :: t, h1, h2 =>
    rw [h2 c (by simp), h2 d (by simp)] at h1
    rw [h1] at h
    have := noDbl_append_right h
    simp [noDbl] at this

theorem chk_prefix {d q : Str} (h : chk d q = true) :
    d <+: q ∧ d ++ ['/'] <+: q ++ ['/'] := by
  simp only [chk, Bool.and_eq_true, isPrefixOf_iff_prefix] at h
  obtain ⟨⟨r, rfl⟩, h2⟩ := h
  refine ⟨prefix_append _ _, ?_⟩
  rw [drop_left] at h2
  cases r with
  | nil => simp
  | cons c r =>
    simp only [decide_eq_true_eq] at h2
    subst h2
    exact ⟨r ++ ['/'], by simp⟩

theorem dirPrefix_prefix {p q : Str} (hn : noDbl p = true) (h : dirPrefix p q = true) :
    p <+: q ++ ['/'] := by
  rw [dirPrefix_eq_chk] at h
  obtain ⟨h1, h2⟩ := chk_prefix h
  rcases strip_cases hn with e | e
  · rw [e]; exact h1.trans (prefix_append _ _)
  · rw [e]; exact h2

/-- a matching non-exact entry's folded path is a prefix of the folded request path plus `/` -/
theorem pm_prefix {t : MT} {e : Entry} {q : Str} (ok : EntryOK e) (ht : t ≠ .exact)
    (hb : t = .beg → e.mt = .beg) (h : pm t e q = true) : lower e.path <+: lower q ++ ['/'] := by
  cases t with
  | exact => exact absurd rfl ht
  | pfx =>
    have := lower_prefix (dirPrefix_prefix ok.nodbl h)
    have e : lowerC '/' = '/' := by decide
    simpa [e] using this
  | beg =>
    simp only [pm, isPrefixOf_iff_prefix] at h
    rw [ok.low (hb rfl)]
    exact h.trans (prefix_append _ _)

theorem ext_of_match {t t' : MT} {e e' : Entry} {q : Str} (ok : EntryOK e) (ok' : EntryOK e')
    (ht : t ≠ .exact) (ht' : t' ≠ .exact) (hb : t = .beg → e.mt = .beg) (hb' : t' = .beg → e'.mt = .beg)
    (h : pm t e q = true) (h' : pm t' e' q = true) (hl : e.path.length < e'.path.length) :
    ext e' e = true := by
  have p1 := pm_prefix ok ht hb h
  have p2 := pm_prefix ok' ht' hb' h'
  simp only [ext, Bool.and_eq_true, isPrefixOf_iff_prefix, decide_eq_true_eq]
  exact ⟨prefix_of_prefix_length_le p1 p2 (by simp; omega), hl⟩

/-! ### T2 on entries -/

/-- the entry matches the request `(H, q)` by its own type -/
def sem (e : Entry) (H q : Str) : Bool := decide (e.host = H) && pm e.mt e q

theorem mem_layout {l : Layout} {e : Entry} :
    e ∈ l.flatMap (·.entries) ↔ ∃ (i : Nat) (f : PFile), l[i]? = some f ∧ e ∈ f.entries := by
  rw [mem_flatMap]
  constructor
  · rintro ⟨f, hf, he⟩
    obtain ⟨i, hi⟩ := mem_iff_getElem?.1 hf
    exact ⟨i, f, hi, he⟩
  · rintro ⟨i, f, hi, he⟩
    exact ⟨f, mem_of_getElem? hi, he⟩

theorem lookup_entries {l : Layout} {es : List Entry} {H q : Str}
    (wo : WellOrdered l) (cov : ∀ e, e ∈ l.flatMap (·.entries) ↔ e ∈ es)
    (oks : ∀ e ∈ es, EntryOK e)
    (hH : '#' ∉ H) (hHs : '/' ∉ H) (hl : lower H = H) (hq : '#' ∉ q) :
    (lookupFiles (emit l) (H ++ '#' :: q) = none → ∀ e ∈ es, sem e H q = false) ∧
    (∀ tg, lookupFiles (emit l) (H ++ '#' :: q) = some tg →
      ∃ e ∈ es, e.target = tg ∧ sem e H q = true ∧
        ((∃ x ∈ es, sem x H q = true ∧ x.mt = .exact) → e.mt = .exact) ∧
        ((∀ x ∈ es, sem x H q = true → x.mt ≠ .exact) →
          ∀ x ∈ es, sem x H q = true → x.path.length ≤ e.path.length)) := by
  have hmatch : ∀ (f : PFile), f ∈ l → ∀ e ∈ f.entries,
      entMatch f.mt e (H ++ '#' :: q) = sem e H q := by
    intro f hf e he
    have ok := oks e ((cov e).1 (mem_flatMap.2 ⟨f, hf, he⟩))
    rw [entMatch_key ok hH hHs hl hq, sem, wo.typed f hf e he]
  unfold lookupFiles emit
  rw [findSome?_map]
  constructor
  · intro h e he
    rw [findSome?_eq_none_iff] at h
    obtain ⟨f, hf, hef⟩ := mem_flatMap.1 ((cov e).2 he)
    have := lookupFile_none.1 (h f hf) e hef
    rw [hmatch f hf e hef] at this
    exact this
  · intro tg h
    rw [findSome?_eq_some_iff] at h
    obtain ⟨l1, f, l2, hl', hlk, hnone⟩ := h
    simp only [Function.comp] at hlk hnone
    have hfl : f ∈ l := by rw [hl']; simp
    have hfi : l[l1.length]? = some f := by rw [hl']; simp
    -- a matching entry never sits in an earlier file
    have hearly : ∀ j g x, l[j]? = some g → x ∈ g.entries → sem x H q = true → l1.length ≤ j := by
      intro j g x hg hx hs
      apply Nat.le_of_not_lt
      intro hj
      have hg1 : g ∈ l1 := by
        rw [hl', getElem?_append_left hj] at hg
        exact mem_of_getElem? hg
      have := lookupFile_none.1 (hnone g hg1) x hx
      rw [hmatch g (mem_of_getElem? hg) x hx, hs] at this
      exact absurd this (by decide)
    obtain ⟨e, hef, htg, hm, hopt1, hopt2⟩ := lookupFile_some hlk
    have hees : e ∈ es := (cov e).1 (mem_flatMap.2 ⟨f, hfl, hef⟩)
    have hse : sem e H q = true := by rw [← hmatch f hfl e hef]; exact hm
    have hty : e.mt = f.mt := wo.typed f hfl e hef
    refine ⟨e, hees, htg, hse, ?_, ?_⟩
    · rintro ⟨x, hx, hsx, hxm⟩
      obtain ⟨j, g, hg, hxg⟩ := mem_layout.1 ((cov x).2 hx)
      have hgm : g.mt = .exact := by rw [← wo.typed g (mem_of_getElem? hg) x hxg]; exact hxm
      have hj0 := wo.exactFirst j g hg hgm
      have := hearly j g x hg hxg hsx
      have h0 : l1.length = j := by omega
      rw [h0, hg] at hfi
      cases hfi
      rw [hty]; exact hgm
    · intro hnx x hx hsx
      have hxe := hnx x hx hsx
      have hee := hnx e hees hse
      apply Nat.le_of_not_lt
      intro hlt
      have okx := oks x hx
      have oke := oks e hees
      have hsx' := hsx
      have hse' := hse
      simp only [sem, Bool.and_eq_true, decide_eq_true_eq] at hsx' hse'
      have hext : ext x e = true :=
        ext_of_match oke okx hee hxe (fun h => h) (fun h => h) hse'.2 hsx'.2 hlt
      obtain ⟨j, g, hg, hxg⟩ := mem_layout.1 ((cov x).2 hx)
      have hji := wo.order j l1.length g f x e hg hfi hxg hef (hsx'.1.trans hse'.1.symm) hxe hee hext
      have hij := hearly j g x hg hxg hsx
      have h0 : l1.length = j := by omega
      rw [h0, hg] at hfi
      cases hfi
      have hxm : entMatch f.mt x (H ++ '#' :: q) = true := by rw [hmatch f hfl x hxg]; exact hsx
      have hxt : x.mt = f.mt := wo.typed f hfl x hxg
      cases hgm : f.mt with
      | exact => rw [hgm] at hty; exact hee hty
      | pfx =>
        rw [hgm] at hxm
        have hK : ∀ e ∈ f.entries, KeyOK e := fun e he =>
          (oks e ((cov e).1 (mem_flatMap.2 ⟨f, hfl, he⟩))).keyOK
        have hfl' := hopt1 hgm hK x hxg hxm
        rw [hty, hgm] at hse'
        rw [hxt, hgm] at hsx'
        have p1 := dirPrefix_prefix oke.nodbl hse'.2
        have p2 := dirPrefix_prefix okx.nodbl hsx'.2
        have pp := prefix_of_prefix_length_le p1 p2 (Nat.le_of_lt hlt)
        have hne : e.path ≠ x.path := fun e' => by rw [e'] at hlt; omega
        have hlt' := ltStr_of_prefix pp hne
        have : fileLt .pfx x e = true := by
          simp only [fileLt, hsx'.1.trans hse'.1.symm, if_true, Ne.symm hne, if_false]
          exact hlt'
        rw [this] at hfl'; exact absurd hfl' (by decide)
      | beg =>
        rw [hgm] at hxm
        have := hopt2 hgm x hxg hxm
        rw [okx.key, oke.key, hsx'.1, hse'.1] at this
        simp at this
        omega

end HapVerif.C04
