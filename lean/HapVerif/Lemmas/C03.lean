import HapVerif.Model.C03
import HapVerif.Props.C04
/-!
# C03 — lemmas

* generic: insertion sort is a permutation;
* Part A: the paths of `fullSync` are `effective` (state fold = "first declaration wins");
* Part B: `hasTLS` of the configuration = some Ingress declares TLS for the host;
* Part C: the three frontend maps hold the paths the Spec selects;
* Part D: one map lookup, through `C04.layout_wellordered` / `C04.lookup_of_wellordered`
  for the entries in their real insertion order (a permutation of `C04.entriesOf`);
* Part E: the routing theorem;
* Part F: servers of every backend.
Core Lean only.
-/
namespace HapVerif.C03
open HapVerif.Sync List
open HapVerif.C04 (Str MT)

/-! ## generic: insertion sort is a permutation -/
theorem insertBy_perm {α : Type} (lt : α → α → Bool) (x : α) : ∀ l : List α, (insertBy lt x l).Perm (x :: l)
  | [] => Perm.refl _
  | y :: ys => by
    unfold insertBy
    split
    · exact Perm.refl _
    · exact ((insertBy_perm lt x ys).cons y).trans (Perm.swap x y ys)

theorem sortBy_perm {α : Type} (lt : α → α → Bool) : ∀ l : List α, (sortBy lt l).Perm l
  | [] => Perm.refl _
  | x :: xs => by
    show (insertBy lt x (sortBy lt xs)).Perm (x :: xs)
    exact (insertBy_perm lt x _).trans ((sortBy_perm lt xs).cons x)

theorem mem_sortBy {α : Type} {lt : α → α → Bool} {l : List α} {x : α} : x ∈ sortBy lt l ↔ x ∈ l :=
  (sortBy_perm lt l).mem_iff

/-! ## Part A: the paths of the full sync are the effective declarations -/

def stepH (acc : List HPath) (p : HPath) : List HPath :=
  if acc.any (fun q => sameHP p q) then acc else acc ++ [p]

def stepP (w : World) (ps : List HPath) (d : Decl) : List HPath :=
  if ps.any (sameKey d) then ps else
  match toHPath w d with
  | none => ps
  | some p => ps ++ [p]

theorem addDecl_paths (w : World) (c : Cfg) (d : Decl) : (addDecl w c d).paths = stepP w c.paths d := by
  unfold addDecl stepP toHPath
  split
  · rfl
  · cases h : resolve w d.ns d.svc d.port with
    | none => rfl
    | some sp => rfl

theorem foldl_addDecl_paths (w : World) : ∀ (ds : List Decl) (c : Cfg),
    (ds.foldl (addDecl w) c).paths = ds.foldl (stepP w) c.paths
  | [], _ => rfl
  | d :: ds, c => by
    simp only [foldl_cons]
    rw [foldl_addDecl_paths w ds, addDecl_paths]

theorem syncIngress_paths (w : World) (c : Cfg) (i : Ingress) :
    (syncIngress w c i).paths = (declsOf i).foldl (stepP w) c.paths := by
  unfold syncIngress
  simp only
  exact foldl_addDecl_paths w _ c

theorem foldl_syncIngress_paths (w : World) : ∀ (l : List Ingress) (c : Cfg),
    (l.foldl (syncIngress w) c).paths = (l.flatMap declsOf).foldl (stepP w) c.paths
  | [], _ => rfl
  | i :: l, c => by
    simp only [foldl_cons, flatMap_cons, foldl_append]
    rw [foldl_syncIngress_paths w l, syncIngress_paths]

theorem initCfg_paths (w : World) : (initCfg w).paths = [] := by
  unfold initCfg
  repeat' split
  all_goals rfl

theorem toHPath_key {w : World} {d : Decl} {p : HPath} (h : toHPath w d = some p) :
    p.host = d.host ∧ p.path = d.path ∧ p.mt = d.mt := by
  unfold toHPath at h
  cases hr : resolve w d.ns d.svc d.port with
  | none => rw [hr] at h; simp at h
  | some sp =>
    rw [hr] at h
    simp only [Option.map_some, Option.some.injEq] at h
    subst h
    exact ⟨rfl, rfl, rfl⟩

theorem foldl_stepP (w : World) : ∀ (ds : List Decl) (acc : List HPath),
    ds.foldl (stepP w) acc = (ds.filterMap (toHPath w)).foldl stepH acc
  | [], _ => rfl
  | d :: ds, acc => by
    simp only [foldl_cons]
    rw [foldl_stepP w ds]
    cases h : toHPath w d with
    | none =>
      have : stepP w acc d = acc := by
        unfold stepP; rw [h]; split <;> rfl
      rw [this, filterMap_cons_none h]
    | some p =>
      rw [filterMap_cons_some h, foldl_cons]
      obtain ⟨h1, h2, h3⟩ := toHPath_key h
      have : stepP w acc d = stepH acc p := by
        unfold stepP stepH
        rw [h]
        have e : (acc.any (sameKey d)) = acc.any (fun q => sameHP p q) := by
          congr 1
          funext q
          simp only [sameKey, sameHP, h1, h2, h3]
          rw [show decide (q.host = d.host) = decide (d.host = q.host) from decide_eq_decide.2 eq_comm,
            show decide (q.path = d.path) = decide (d.path = q.path) from decide_eq_decide.2 eq_comm,
            show decide (q.mt = d.mt) = decide (d.mt = q.mt) from decide_eq_decide.2 eq_comm]
        rw [e]
      rw [this]

theorem foldl_stepH : ∀ (l acc : List HPath),
    l.foldl stepH acc = acc ++ (l.filter (fun x => !acc.any (fun q => sameHP x q))).eraseDupsBy sameHP
  | [], acc => by simp
  | p :: l, acc => by
    simp only [foldl_cons]
    rw [foldl_stepH l]
    unfold stepH
    by_cases h : acc.any (fun q => sameHP p q) = true
    · simp only [h, if_true]
      rw [filter_cons_of_neg (by simp [h])]
    · have hf : (acc.any fun q => sameHP p q) = false := by simpa using h
      simp only [hf, Bool.false_eq_true, if_false]
      rw [filter_cons_of_pos (by simp [hf]), eraseDupsBy_cons, filter_filter, append_assoc]
      congr 1
      rw [singleton_append]
      congr 2
      apply filter_congr
      intro x _
      simp only [any_append, any_cons, any_nil, Bool.or_false, Bool.not_or]
      cases sameHP x p <;> simp

theorem fullSync_paths (w : World) : (fullSync w).paths = effective w := by
  unfold fullSync effective allDecls
  rw [foldl_syncIngress_paths, initCfg_paths, foldl_stepP, foldl_stepH]
  rw [nil_append]
  congr 1
  exact filter_eq_self.2 (fun _ _ => rfl)


/-! ## Part B: a host has TLS iff some ingress declares it -/

theorem addDecl_tls (w : World) (c : Cfg) (d : Decl) : (addDecl w c d).tls = c.tls := by
  unfold addDecl
  split
  · rfl
  · split <;> rfl

theorem foldl_addDecl_tls (w : World) : ∀ (ds : List Decl) (c : Cfg), (ds.foldl (addDecl w) c).tls = c.tls
  | [], _ => rfl
  | d :: ds, c => by
    simp only [foldl_cons]
    rw [foldl_addDecl_tls w ds, addDecl_tls]

theorem syncIngress_tls (w : World) (c : Cfg) (i : Ingress) :
    (syncIngress w c i).tls = i.tls.foldl (addTLS w i.ns) c.tls := by
  unfold syncIngress
  simp only
  rw [foldl_addDecl_tls]

theorem addTLSHost_any (crt : Crt) (t : List (Str × Crt)) (h x : Str) :
    (addTLSHost crt t h).any (·.1 = x) = (t.any (·.1 = x) || decide (h = x)) := by
  unfold addTLSHost
  split
  · rename_i hh
    by_cases e : h = x
    · subst e; simp [hh]
    · simp [e]
  · simp [any_append]

theorem foldl_addTLSHost_any (crt : Crt) (x : Str) : ∀ (hs : List Str) (t : List (Str × Crt)),
    (hs.foldl (addTLSHost crt) t).any (·.1 = x) = (t.any (·.1 = x) || hs.contains x)
  | [], t => by simp
  | h :: hs, t => by
    simp only [foldl_cons]
    rw [foldl_addTLSHost_any crt x hs, addTLSHost_any, contains_cons, Bool.or_assoc]
    congr 2
    rw [show decide (h = x) = decide (x = h) from decide_eq_decide.2 eq_comm]
    by_cases e : x = h <;> simp [e]

theorem foldl_addTLS_any (w : World) (ns x : Str) : ∀ (bs : List TLSSpec) (t : List (Str × Crt)),
    (bs.foldl (addTLS w ns) t).any (·.1 = x) = (t.any (·.1 = x) || bs.any (fun b => b.hosts.contains x))
  | [], t => by simp
  | b :: bs, t => by
    simp only [foldl_cons]
    rw [foldl_addTLS_any w ns x bs]
    unfold addTLS
    rw [foldl_addTLSHost_any, any_cons, Bool.or_assoc]

theorem foldl_syncIngress_tls_any (w : World) (x : Str) : ∀ (l : List Ingress) (c : Cfg),
    ((l.foldl (syncIngress w) c).tls).any (·.1 = x) =
      (c.tls.any (·.1 = x) || l.any (fun i => i.tls.any fun b => b.hosts.contains x))
  | [], c => by simp
  | i :: l, c => by
    simp only [foldl_cons]
    rw [foldl_syncIngress_tls_any w x l, syncIngress_tls, foldl_addTLS_any, any_cons, Bool.or_assoc]

theorem initCfg_tls (w : World) : (initCfg w).tls = [] := by
  unfold initCfg
  repeat' split
  all_goals rfl

theorem any_sortBy {α : Type} (lt : α → α → Bool) (p : α → Bool) (l : List α) :
    (sortBy lt l).any p = l.any p := by
  rw [Bool.eq_iff_iff, any_eq_true, any_eq_true]
  constructor
  · rintro ⟨x, hx, hp⟩; exact ⟨x, mem_sortBy.1 hx, hp⟩
  · rintro ⟨x, hx, hp⟩; exact ⟨x, mem_sortBy.2 hx, hp⟩

theorem fullSync_hasTLS (w : World) (h : Str) : (fullSync w).hasTLS h = declaresTLS w h := by
  unfold Cfg.hasTLS fullSync declaresTLS sortIngs
  rw [foldl_syncIngress_tls_any, initCfg_tls, any_sortBy]
  simp

/-! ## Part C: the three maps hold the paths the Spec selects -/

theorem httpPaths_spec (w : World) : httpPaths (fullSync w) = specHostPaths w false := by
  unfold httpPaths specHostPaths
  rw [fullSync_paths]
  apply filter_congr
  intro p _
  simp

theorem httpsPaths_spec (w : World) : httpsPaths (fullSync w) = specHostPaths w true := by
  unfold httpsPaths specHostPaths
  rw [fullSync_paths]
  apply filter_congr
  intro p _
  rw [fullSync_hasTLS]
  simp

theorem dfltPaths_spec (w : World) : dfltPaths (fullSync w) = specDfltPaths w := by
  unfold dfltPaths specDfltPaths
  rw [fullSync_paths]


/-! ## Part D: one map lookup, through the C04 theorems -/
section
open HapVerif.C04

theorem insEntries_perm (rules : List Rule) : (insEntries rules).Perm (entriesOf rules) := by
  unfold insEntries entriesOf
  exact (sortBy_perm _ _).map _

theorem esOK_of_perm {es es' : List Entry} (h : es'.Perm es) (ok : EsOK es) : EsOK es' :=
  ⟨h.nodup_iff.2 ok.nodup, fun a ha b hb => ok.ordInj a (h.mem_iff.1 ha) b (h.mem_iff.1 hb)⟩

/-- `C04.lookup_in_best` for the entries inserted in another order than their creation order -/
theorem lookup_in_best_perm {rules : List Rule} (wf : WF rules = true) {es' : List Entry} {π : List Str}
    (hp : es'.Perm (entriesOf rules)) (hπ : HostOrderOK es' π) {mo : List MT}
    (hmo : mo.Perm [.exact, .pfx, .beg]) {h q : Str} (rq : WFReq h q = true) :
    match lookupFiles (rebuild mo es' π) (sampleOf h q) with
    | none => best rules h q = []
    | some t => t ∈ best rules h q := by
  have eok := esOK_of_perm hp (entriesOf_esOK rules)
  obtain ⟨wo, pm⟩ := layout_wellordered eok hπ.1 hπ.2 hmo
  have e : rebuild mo es' π = emit (layoutV current mo es' π) := rebuildV_eq_emit _ _ _ _
  rw [e]
  exact checkReq_none_iff.1 (lookup_of_wellordered wf rq wo (fun x => (pm.trans hp).mem_iff))

theorem mem_best_target {rules : List Rule} {h q : Str} {t : Nat} (ht : t ∈ best rules h q) :
    ∃ r ∈ rules, r.target = t := by
  unfold best at ht
  simp only at ht
  split at ht
  · obtain ⟨r, hr, rfl⟩ := mem_map.1 ht
    exact ⟨r, (mem_filter.1 (mem_filter.1 hr).1).1, rfl⟩
  · obtain ⟨r, hr, rfl⟩ := mem_map.1 ht
    exact ⟨r, (mem_filter.1 (mem_filter.1 hr).1).1, rfl⟩
end

def PathsOK (l : List HPath) : Prop := ∀ p ∈ l, C04.hostOk p.host = true ∧ C04.pathOk p.path = true

theorem rulesOf_mem {l : List HPath} {r : C04.Rule} (h : r ∈ rulesOf l) :
    ∃ p ∈ l, r.host = p.host ∧ r.path = p.path ∧ r.target < l.length := by
  unfold rulesOf at h
  obtain ⟨⟨p, i⟩, hm, rfl⟩ := mem_map.1 h
  have h1 := (of_mem_zip hm).1
  have h2 := (of_mem_zip hm).2
  exact ⟨p, h1, rfl, rfl, by simpa using h2⟩

theorem rulesOf_WF {l : List HPath} (ok : PathsOK l) : C04.WF (rulesOf l) = true := by
  unfold C04.WF
  rw [all_eq_true]
  intro r hr
  obtain ⟨p, hp, h1, h2, _⟩ := rulesOf_mem hr
  unfold C04.ruleOk
  rw [h1, h2, (ok p hp).1, (ok p hp).2]
  rfl

/-- a map lookup answers with a backend the Spec allows, and does not answer only if no path applies -/
theorem lookupIn_spec {l : List HPath} {π : List Str} {host path : Str} (ok : PathsOK l)
    (hπ : C04.HostOrderOK (insEntries (rulesOf l)) π) (rq : C04.WFReq host path = true) :
    (lookupIn (mapFiles l π) l host path = none → answers l host path = []) ∧
    (∀ b, lookupIn (mapFiles l π) l host path = some b → b.id ∈ answers l host path) := by
  have key := lookup_in_best_perm (rulesOf_WF ok) (insEntries_perm (rulesOf l)) hπ
    (Perm.refl matchOrder) rq
  unfold lookupIn mapFiles
  cases hl : C04.lookupFiles (C04.rebuild matchOrder (insEntries (rulesOf l)) π) (C04.sampleOf host path) with
  | none =>
    rw [hl] at key
    simp only at key ⊢
    refine ⟨fun _ => ?_, fun b hb => by simp at hb⟩
    unfold answers
    rw [key]
    rfl
  | some i =>
    rw [hl] at key
    simp only at key ⊢
    obtain ⟨r, hr, ht⟩ := mem_best_target key
    obtain ⟨_, _, _, _, hlt⟩ := rulesOf_mem hr
    rw [ht] at hlt
    have hget : l[i]? = some l[i] := getElem?_eq_getElem hlt
    rw [hget]
    simp only [Option.map_some]
    refine ⟨fun h => by simp at h, fun b hb => ?_⟩
    simp only [Option.some.injEq] at hb
    subst hb
    unfold answers
    exact mem_filterMap.2 ⟨i, key, by rw [hget]; rfl⟩

/-! ## Part E: the routing theorem -/

def declOk (d : Decl) : Bool := C04.hostOk d.host && C04.pathOk d.path

/-- hypothesis on the cluster state: every declared host (after `"" -> <default>`) is non-empty
without `/` and `#`; every declared path (after `"" -> /`) starts with `/`, has no `#` and no
empty segment.  (Decidable; the hypotheses of C04.) -/
def WFWorld (w : World) : Bool := (allDecls w).all declOk

theorem mem_foldl_stepH {p : HPath} : ∀ (l acc : List HPath), p ∈ l.foldl stepH acc → p ∈ acc ∨ p ∈ l
  | [], _, h => Or.inl h
  | x :: l, acc, h => by
    simp only [foldl_cons] at h
    rcases mem_foldl_stepH l _ h with h1 | h1
    · unfold stepH at h1
      split at h1
      · exact Or.inl h1
      · rcases mem_append.1 h1 with h2 | h2
        · exact Or.inl h2
        · exact Or.inr (by simp at h2; simp [h2])
    · exact Or.inr (mem_cons_of_mem _ h1)

theorem mem_effective {w : World} {p : HPath} (h : p ∈ effective w) :
    ∃ d ∈ allDecls w, toHPath w d = some p := by
  have e : effective w = ((allDecls w).filterMap (toHPath w)).foldl stepH [] := by
    rw [foldl_stepH]
    unfold effective
    rw [nil_append]
    congr 1
    exact (filter_eq_self.2 (fun _ _ => rfl)).symm
  rw [e] at h
  rcases mem_foldl_stepH _ _ h with h1 | h1
  · simp at h1
  · obtain ⟨d, hd, he⟩ := mem_filterMap.1 h1
    exact ⟨d, hd, he⟩

theorem effective_ok {w : World} (wf : WFWorld w = true) : PathsOK (effective w) := by
  intro p hp
  obtain ⟨d, hd, he⟩ := mem_effective hp
  obtain ⟨h1, h2, _⟩ := toHPath_key he
  have := all_eq_true.1 wf d hd
  unfold declOk at this
  rw [Bool.and_eq_true] at this
  rw [h1, h2]
  exact this

theorem PathsOK.filter {l : List HPath} (ok : PathsOK l) (f : HPath → Bool) : PathsOK (l.filter f) :=
  fun p hp => ok p (mem_filter.1 hp).1

theorem addDecl_dflt (w : World) (c : Cfg) (d : Decl) : (addDecl w c d).dfltBackend = c.dfltBackend := by
  unfold addDecl
  split
  · rfl
  · split <;> rfl

theorem foldl_addDecl_dflt (w : World) : ∀ (ds : List Decl) (c : Cfg),
    (ds.foldl (addDecl w) c).dfltBackend = c.dfltBackend
  | [], _ => rfl
  | d :: ds, c => by
    simp only [foldl_cons]
    rw [foldl_addDecl_dflt w ds, addDecl_dflt]

theorem foldl_syncIngress_dflt (w : World) : ∀ (l : List Ingress) (c : Cfg),
    (l.foldl (syncIngress w) c).dfltBackend = c.dfltBackend
  | [], _ => rfl
  | i :: l, c => by
    simp only [foldl_cons]
    rw [foldl_syncIngress_dflt w l]
    unfold syncIngress
    simp only
    rw [foldl_addDecl_dflt]

theorem findPort_head {s : Service} {p0 : SvcPort} (h : s.ports.head? = some p0) :
    findPort s p0.target = some p0 := by
  unfold findPort
  cases hp : s.ports with
  | nil => rw [hp] at h; simp at h
  | cons a as =>
    rw [hp] at h
    simp only [head?_cons, Option.some.injEq] at h
    subst h
    simp

theorem dfltBackend_spec (w : World) : (fullSync w).dfltId = specDefault w := by
  unfold Cfg.dfltId fullSync
  rw [foldl_syncIngress_dflt]
  unfold initCfg specDefault
  cases w.opts.defaultBackend with
  | none => rfl
  | some nn =>
    obtain ⟨ns, name⟩ := nn
    simp only
    cases w.findSvc ns name with
    | none => rfl
    | some s =>
      simp only
      cases hh : s.ports.head? with
      | none => rfl
      | some p0 =>
        simp only
        rw [findPort_head hh]

/-- admissible Go-map iteration orders of the three maps -/
structure IterOK (c : Cfg) (π : Iter) : Prop where
  http : C04.HostOrderOK (insEntries (rulesOf (httpPaths c))) π.http
  https : C04.HostOrderOK (insEntries (rulesOf (httpsPaths c))) π.https
  dflt : C04.HostOrderOK (insEntries (rulesOf (dfltPaths c))) π.dflt

theorem dfltHost_req {q : Str} (h : q.head? = some '/' ∧ '#' ∉ q) : C04.WFReq dfltHost q = true := by
  unfold C04.WFReq
  have e : (!dfltHost.contains '/' && !dfltHost.contains '#') = true := by decide
  rw [e, h.1]
  simp [h.2]

theorem specHostPaths_ok {w : World} (wf : WFWorld w = true) (tls : Bool) : PathsOK (specHostPaths w tls) :=
  (effective_ok wf).filter _
theorem specDfltPaths_ok {w : World} (wf : WFWorld w = true) : PathsOK (specDfltPaths w) :=
  (effective_ok wf).filter _

theorem route_mem_spec {w : World} (wf : WFWorld w = true) {π : Iter} (hπ : IterOK (fullSync w) π)
    {r : Req} (rq : C04.WFReq r.host r.path = true) :
    route (fullSync w) π r ∈ specRoute w r := by
  have rqd : C04.WFReq dfltHost r.path = true := by
    apply dfltHost_req
    unfold C04.WFReq at rq
    simp only [Bool.and_eq_true, Bool.not_eq_true', decide_eq_true_eq] at rq
    exact ⟨by simpa using rq.1.2, by simpa using rq.2⟩
  obtain ⟨h1, h2, h3⟩ := hπ
  rw [httpPaths_spec] at h1
  rw [httpsPaths_spec] at h2
  rw [dfltPaths_spec] at h3
  obtain ⟨n1, s1⟩ := lookupIn_spec (specHostPaths_ok wf false) h1 rq
  obtain ⟨n2, s2⟩ := lookupIn_spec (specHostPaths_ok wf true) h2 rq
  obtain ⟨n3, s3⟩ := lookupIn_spec (specDfltPaths_ok wf) h3 rqd
  have dflt := dfltBackend_spec w
  unfold route routeM buildMaps specRoute
  simp only
  rw [httpPaths_spec, httpsPaths_spec, dfltPaths_spec]
  generalize lookupIn (mapFiles (specHostPaths w false) π.http) (specHostPaths w false) r.host r.path = L1 at n1 s1
  generalize lookupIn (mapFiles (specHostPaths w true) π.https) (specHostPaths w true) r.host r.path = L2 at n2 s2
  generalize lookupIn (mapFiles (specDfltPaths w) π.dflt) (specDfltPaths w) dfltHost r.path = L3 at n3 s3
  have tail : ∀ tls, answers (specHostPaths w tls) r.host r.path = [] →
      (match L3 with
        | some b => b.id
        | none => (fullSync w).dfltId) ∈
      (match answers (specHostPaths w tls) r.host r.path with
        | a :: as => a :: as
        | [] => match answers (specDfltPaths w) dfltHost r.path with
          | a :: as => a :: as
          | [] => [specDefault w]) := by
    intro tls ha
    rw [ha]
    simp only
    cases L3 with
    | none =>
      simp only
      rw [n3 rfl, dflt]
      simp
    | some b =>
      simp only
      have := s3 b rfl
      cases ha2 : answers (specDfltPaths w) dfltHost r.path with
      | nil => rw [ha2] at this; simp at this
      | cons a as => rw [ha2] at this; exact this
  cases ht : r.tls with
  | false =>
    simp only [Bool.false_eq_true, if_false]
    cases L1 with
    | none => exact tail false (n1 rfl)
    | some b =>
      simp only
      have := s1 b rfl
      cases ha2 : answers (specHostPaths w false) r.host r.path with
      | nil => rw [ha2] at this; simp at this
      | cons a as => rw [ha2] at this; exact this
  | true =>
    simp only [if_true]
    cases L2 with
    | none => exact tail true (n2 rfl)
    | some b =>
      simp only
      have := s2 b rfl
      cases ha2 : answers (specHostPaths w true) r.host r.path with
      | nil => rw [ha2] at this; simp at this
      | cons a as => rw [ha2] at this; exact this


/-! ## Part F: servers -/

def tgt (s : Server) : Str × Nat := (s.ip, s.port)

theorem acquire_mem {l : List Server} {ip : Str} {port w : Nat} {x : Server} (h : x ∈ acquire l ip port w) :
    x ∈ l ∨ x = ⟨ip, port, w⟩ := by
  unfold acquire at h
  split at h
  · exact Or.inl h
  · rcases mem_append.1 h with h | h
    · exact Or.inl h
    · exact Or.inr (by simpa using h)

theorem acquire_has (l : List Server) (ip : Str) (port w : Nat) :
    (∀ y ∈ l, y ∈ acquire l ip port w) ∧ ∃ x ∈ acquire l ip port w, tgt x = (ip, port) := by
  unfold acquire
  split
  · rename_i h
    obtain ⟨x, hx, hp⟩ := any_eq_true.1 h
    simp only [decide_eq_true_eq] at hp
    exact ⟨fun y hy => hy, x, hx, by unfold tgt; rw [hp.1, hp.2]⟩
  · exact ⟨fun y hy => mem_append_left _ hy, ⟨ip, port, w⟩, by simp, rfl⟩

/-- ready stage: every server has weight 1 and a ready target, every ready target has a server -/
theorem ready_fold : ∀ (R : List (Str × Nat)) (l : List Server),
    (∀ x ∈ R.foldl (fun l t => acquire l t.1 t.2 1) l, x ∈ l ∨ (x.weight = 1 ∧ tgt x ∈ R)) ∧
    (∀ y ∈ l, y ∈ R.foldl (fun l t => acquire l t.1 t.2 1) l) ∧
    (∀ t ∈ R, ∃ x ∈ R.foldl (fun l t => acquire l t.1 t.2 1) l, tgt x = t)
  | [], l => ⟨fun x h => Or.inl h, fun y h => h, fun t h => by simp at h⟩
  | t :: R, l => by
    simp only [foldl_cons]
    obtain ⟨a, b, c⟩ := ready_fold R (acquire l t.1 t.2 1)
    obtain ⟨k1, x0, hx0, ht0⟩ := acquire_has l t.1 t.2 1
    refine ⟨?_, fun y hy => b y (k1 y hy), ?_⟩
    · intro x hx
      rcases a x hx with h | h
      · rcases acquire_mem h with h | h
        · exact Or.inl h
        · exact Or.inr ⟨by rw [h], by rw [h]; exact mem_cons_self⟩
      · exact Or.inr ⟨h.1, mem_cons_of_mem _ h.2⟩
    · intro u hu
      rcases mem_cons.1 hu with rfl | hu
      · exact ⟨x0, b x0 hx0, ht0⟩
      · exact c u hu

theorem acquireDrain_mem {l : List Server} {ip : Str} {port : Nat} {x : Server}
    (h : x ∈ acquireDrain l ip port) : x ∈ l ∨ (x.weight = 0 ∧ tgt x = (ip, port)) := by
  unfold acquireDrain at h
  split at h
  · obtain ⟨y, hy, rfl⟩ := mem_map.1 h
    by_cases c : y.ip = ip ∧ y.port = port
    · rw [if_pos c]
      exact Or.inr ⟨rfl, by unfold tgt; simp [c.1, c.2]⟩
    · rw [if_neg c]
      exact Or.inl hy
  · rcases mem_append.1 h with h | h
    · exact Or.inl h
    · simp only [mem_singleton] at h
      exact Or.inr ⟨by rw [h], by rw [h]; rfl⟩

/-- a server survives a drain step with its target; its weight is kept unless it is the drained target -/
theorem acquireDrain_keep {l : List Server} (ip : Str) (port : Nat) {y : Server} (hy : y ∈ l) :
    ∃ x ∈ acquireDrain l ip port, tgt x = tgt y ∧ (x.weight = y.weight ∨ (x.weight = 0 ∧ tgt y = (ip, port))) := by
  unfold acquireDrain
  split
  · by_cases c : y.ip = ip ∧ y.port = port
    · refine ⟨{ y with weight := 0 }, mem_map.2 ⟨y, hy, by simp [c]⟩, rfl, Or.inr ⟨rfl, ?_⟩⟩
      unfold tgt; rw [c.1, c.2]
    · exact ⟨y, mem_map.2 ⟨y, hy, by simp [c]⟩, rfl, Or.inl rfl⟩
  · exact ⟨y, mem_append_left _ hy, rfl, Or.inl rfl⟩

theorem drain_fold : ∀ (D : List (Str × Nat)) (l : List Server),
    (∀ x ∈ D.foldl (fun l t => acquireDrain l t.1 t.2) l, x ∈ l ∨ (x.weight = 0 ∧ tgt x ∈ D)) ∧
    (∀ y ∈ l, ∃ x ∈ D.foldl (fun l t => acquireDrain l t.1 t.2) l,
      tgt x = tgt y ∧ (x.weight = y.weight ∨ (x.weight = 0 ∧ tgt y ∈ D)))
  | [], l => ⟨fun x h => Or.inl h, fun y h => ⟨y, h, rfl, Or.inl rfl⟩⟩
  | t :: D, l => by
    simp only [foldl_cons]
    obtain ⟨a, b⟩ := drain_fold D (acquireDrain l t.1 t.2)
    constructor
    · intro x hx
      rcases a x hx with h | h
      · rcases acquireDrain_mem h with h | h
        · exact Or.inl h
        · exact Or.inr ⟨h.1, by rw [h.2]; exact mem_cons_self⟩
      · exact Or.inr ⟨h.1, mem_cons_of_mem _ h.2⟩
    · intro y hy
      obtain ⟨z, hz, hzt, hzw⟩ := acquireDrain_keep t.1 t.2 hy
      obtain ⟨x, hx, hxt, hxw⟩ := b z hz
      refine ⟨x, hx, hxt.trans hzt, ?_⟩
      rcases hxw with h | h
      · rcases hzw with h' | h'
        · exact Or.inl (h.trans h')
        · exact Or.inr ⟨h.trans h'.1, by rw [h'.2]; exact mem_cons_self⟩
      · exact Or.inr ⟨h.1, by rw [← hzt]; exact mem_cons_of_mem _ h.2⟩

/-- what `addEndpoints` guarantees -/
structure ServersOK (w : World) (s : Service) (sp : SvcPort) (l : List Server) : Prop where
  enabled : ∀ t ∈ enabledOf l, t ∈ readyTargets w s sp
  ready : ∀ t ∈ readyTargets w s sp, t ∈ enabledOf l ∨ (w.opts.drain = true ∧ t ∈ drainTargets w s sp)
  drained : ∀ t ∈ drainedOf l, w.opts.drain = true ∧ t ∈ drainTargets w s sp

theorem mem_enabledOf {l : List Server} {t : Str × Nat} : t ∈ enabledOf l ↔ ∃ x ∈ l, x.weight ≠ 0 ∧ tgt x = t := by
  unfold enabledOf
  simp only [mem_map, mem_filter, decide_eq_true_eq]
  constructor
  · rintro ⟨x, ⟨h1, h2⟩, rfl⟩; exact ⟨x, h1, h2, rfl⟩
  · rintro ⟨x, h1, h2, rfl⟩; exact ⟨x, ⟨h1, h2⟩, rfl⟩

theorem mem_drainedOf {l : List Server} {t : Str × Nat} : t ∈ drainedOf l ↔ ∃ x ∈ l, x.weight = 0 ∧ tgt x = t := by
  unfold drainedOf
  simp only [mem_map, mem_filter, decide_eq_true_eq]
  constructor
  · rintro ⟨x, ⟨h1, h2⟩, rfl⟩; exact ⟨x, h1, h2, rfl⟩
  · rintro ⟨x, h1, h2, rfl⟩; exact ⟨x, ⟨h1, h2⟩, rfl⟩

theorem mkServers_ok (w : World) (s : Service) (sp : SvcPort) : ServersOK w s sp (mkServers w s sp) := by
  unfold mkServers
  cases he : w.findEps s.ns s.name with
  | none =>
    simp only
    refine ⟨fun t h => ?_, fun t h => ?_, fun t h => ?_⟩
    · simp [enabledOf] at h
    · simp [readyTargets, he] at h
    · simp [drainedOf] at h
  | some e =>
    simp only
    have hR : readyTargets w s sp = targetsOf e sp true := by simp [readyTargets, he]
    have hD : drainTargets w s sp = targetsOf e sp false ++ terminatingTargets w s sp := by
      simp [drainTargets, he]
    obtain ⟨r1, _, r3⟩ := ready_fold (targetsOf e sp true) []
    generalize (targetsOf e sp true).foldl (fun l t => acquire l t.1 t.2 1) [] = l1 at r1 r3
    have r1' : ∀ x ∈ l1, x.weight = 1 ∧ tgt x ∈ targetsOf e sp true := by
      intro x hx
      rcases r1 x hx with h | h
      · simp at h
      · exact h
    by_cases hd : w.opts.drain = true
    · simp only [hd, if_true]
      have step := drain_fold (targetsOf e sp false ++ terminatingTargets w s sp) l1
      rw [foldl_append] at step
      obtain ⟨d1, d2⟩ := step
      generalize (terminatingTargets w s sp).foldl (fun l t => acquireDrain l t.1 t.2)
        ((targetsOf e sp false).foldl (fun l t => acquireDrain l t.1 t.2) l1) = l2 at d1 d2
      refine ⟨fun t h => ?_, fun t h => ?_, fun t h => ?_⟩
      · obtain ⟨x, hx, hw, rfl⟩ := mem_enabledOf.1 h
        rcases d1 x hx with h1 | h1
        · rw [hR]; exact (r1' x h1).2
        · exact absurd h1.1 hw
      · rw [hR] at h
        obtain ⟨y, hy, hyt⟩ := r3 t h
        obtain ⟨x, hx, hxt, hxw⟩ := d2 y hy
        rcases hxw with h1 | h1
        · exact Or.inl (mem_enabledOf.2 ⟨x, hx, by rw [h1, (r1' y hy).1]; decide, hxt.trans hyt⟩)
        · exact Or.inr ⟨hd, by rw [hD, ← hyt]; exact h1.2⟩
      · obtain ⟨x, hx, hw, rfl⟩ := mem_drainedOf.1 h
        rcases d1 x hx with h1 | h1
        · rw [(r1' x h1).1] at hw; exact absurd hw (by decide)
        · exact ⟨hd, by rw [hD]; exact h1.2⟩
    · simp only [hd]
      refine ⟨fun t h => ?_, fun t h => ?_, fun t h => ?_⟩
      · obtain ⟨x, hx, _, rfl⟩ := mem_enabledOf.1 h
        rw [hR]; exact (r1' x hx).2
      · rw [hR] at h
        obtain ⟨y, hy, hyt⟩ := r3 t h
        exact Or.inl (mem_enabledOf.2 ⟨y, hy, by rw [(r1' y hy).1]; decide, hyt⟩)
      · obtain ⟨x, hx, hw, rfl⟩ := mem_drainedOf.1 h
        rw [(r1' x hx).1] at hw; exact absurd hw (by decide)

/-- every backend of the configuration belongs to an existing Service port and carries its endpoints -/
def BackendOK (w : World) (b : Backend) : Prop :=
  ∃ s sp, w.findSvc b.key.ns b.key.svc = some s ∧ sp ∈ s.ports ∧ b.key = ⟨s.ns, s.name, sp.target⟩ ∧
    b.servers = mkServers w s sp

theorem findSvc_some {w : World} {ns name : Str} {s : Service} (h : w.findSvc ns name = some s) :
    s ∈ w.svcs ∧ s.ns = ns ∧ s.name = name := by
  unfold World.findSvc at h
  have := find?_some h
  simp only [decide_eq_true_eq] at this
  exact ⟨mem_of_find?_eq_some h, this.1, this.2⟩

theorem findPort_mem {s : Service} {x : Str} {sp : SvcPort} (h : findPort s x = some sp) : sp ∈ s.ports := by
  unfold findPort at h
  split at h
  · rename_i p hp
    simp only [Option.some.injEq] at h
    subst h
    exact mem_of_find?_eq_some hp
  · split at h
    · exact mem_of_find?_eq_some h
    · simp at h

theorem acquireBackend_ok {w : World} {bs : List Backend} {s : Service} {sp : SvcPort}
    (hs : w.findSvc s.ns s.name = some s) (hp : sp ∈ s.ports) (ok : ∀ b ∈ bs, BackendOK w b) :
    ∀ b ∈ acquireBackend w bs s sp, BackendOK w b := by
  intro b hb
  unfold acquireBackend at hb
  simp only at hb
  split at hb
  · exact ok b hb
  · rcases mem_append.1 hb with h | h
    · exact ok b h
    · simp only [mem_singleton] at h
      subst h
      exact ⟨s, sp, hs, hp, rfl, rfl⟩

theorem resolve_some {w : World} {ns svc port : Str} {s : Service} {sp : SvcPort}
    (h : resolve w ns svc port = some (s, sp)) :
    w.findSvc s.ns s.name = some s ∧ sp ∈ s.ports ∧ s.ns = ns ∧ s.name = svc ∧ findPort s port = some sp := by
  unfold resolve at h
  cases hf : w.findSvc ns svc with
  | none => rw [hf] at h; simp at h
  | some s' =>
    rw [hf] at h
    simp only at h
    cases hp : findPort s' port with
    | none => rw [hp] at h; simp at h
    | some sp' =>
      rw [hp] at h
      simp only [Option.map_some, Option.some.injEq, Prod.mk.injEq] at h
      obtain ⟨rfl, rfl⟩ := h
      obtain ⟨_, h1, h2⟩ := findSvc_some hf
      exact ⟨by rw [h1, h2]; exact hf, findPort_mem hp, h1, h2, hp⟩

theorem addDecl_backends_ok {w : World} {c : Cfg} (d : Decl) (ok : ∀ b ∈ c.backends, BackendOK w b) :
    ∀ b ∈ (addDecl w c d).backends, BackendOK w b := by
  unfold addDecl
  split
  · exact ok
  · cases hr : resolve w d.ns d.svc d.port with
    | none => exact ok
    | some x =>
      obtain ⟨s, sp⟩ := x
      obtain ⟨h1, h2, _⟩ := resolve_some hr
      exact acquireBackend_ok h1 h2 ok

theorem foldl_addDecl_backends_ok {w : World} : ∀ (ds : List Decl) (c : Cfg),
    (∀ b ∈ c.backends, BackendOK w b) → ∀ b ∈ (ds.foldl (addDecl w) c).backends, BackendOK w b
  | [], _, ok => ok
  | d :: ds, c, ok => by
    simp only [foldl_cons]
    exact foldl_addDecl_backends_ok ds _ (addDecl_backends_ok d ok)

theorem foldl_syncIngress_backends_ok {w : World} : ∀ (l : List Ingress) (c : Cfg),
    (∀ b ∈ c.backends, BackendOK w b) → ∀ b ∈ (l.foldl (syncIngress w) c).backends, BackendOK w b
  | [], _, ok => ok
  | i :: l, c, ok => by
    simp only [foldl_cons]
    apply foldl_syncIngress_backends_ok l
    unfold syncIngress
    simp only
    exact foldl_addDecl_backends_ok _ _ ok

theorem initCfg_backends_ok (w : World) : ∀ b ∈ (initCfg w).backends, BackendOK w b := by
  unfold initCfg
  cases w.opts.defaultBackend with
  | none => intro b hb; simp at hb
  | some nn =>
    obtain ⟨ns, name⟩ := nn
    simp only
    cases hf : w.findSvc ns name with
    | none => intro b hb; simp at hb
    | some s =>
      simp only
      cases hh : s.ports.head? with
      | none => intro b hb; simp at hb
      | some p0 =>
        simp only
        rw [findPort_head hh]
        simp only
        obtain ⟨_, h1, h2⟩ := findSvc_some hf
        apply acquireBackend_ok (by rw [h1, h2]; exact hf) (mem_of_mem_head? hh)
        intro b hb; simp at hb

theorem fullSync_backends_ok (w : World) : ∀ b ∈ (fullSync w).backends, BackendOK w b := by
  unfold fullSync
  exact foldl_syncIngress_backends_ok _ _ (initCfg_backends_ok w)


/-! ## the backend of every path exists -/

theorem acquireBackend_mono {w : World} {bs : List Backend} {s : Service} {sp : SvcPort} {b : Backend}
    (h : b ∈ bs) : b ∈ acquireBackend w bs s sp := by
  unfold acquireBackend
  simp only
  split
  · exact h
  · exact mem_append_left _ h

theorem acquireBackend_has (w : World) (bs : List Backend) (s : Service) (sp : SvcPort) :
    ∃ b ∈ acquireBackend w bs s sp, b.key = ⟨s.ns, s.name, sp.target⟩ := by
  unfold acquireBackend
  simp only
  split
  · rename_i h
    obtain ⟨b, hb, hk⟩ := any_eq_true.1 h
    exact ⟨b, hb, by simpa using hk⟩
  · exact ⟨_, mem_append_right _ (mem_singleton.2 rfl), rfl⟩

def PathsHaveBackend (c : Cfg) : Prop := ∀ p ∈ c.paths, ∃ b ∈ c.backends, b.key = p.bk

theorem addDecl_phb {w : World} {c : Cfg} (d : Decl) (h : PathsHaveBackend c) :
    PathsHaveBackend (addDecl w c d) := by
  unfold addDecl
  split
  · exact h
  · cases hr : resolve w d.ns d.svc d.port with
    | none => exact h
    | some x =>
      obtain ⟨s, sp⟩ := x
      intro p hp
      simp only at hp ⊢
      rcases mem_append.1 hp with hp | hp
      · obtain ⟨b, hb, hk⟩ := h p hp
        exact ⟨b, acquireBackend_mono hb, hk⟩
      · simp only [mem_singleton] at hp
        subst hp
        exact acquireBackend_has w c.backends s sp

theorem foldl_addDecl_phb {w : World} : ∀ (ds : List Decl) (c : Cfg), PathsHaveBackend c →
    PathsHaveBackend (ds.foldl (addDecl w) c)
  | [], _, h => h
  | d :: ds, c, h => by
    simp only [foldl_cons]
    exact foldl_addDecl_phb ds _ (addDecl_phb d h)

theorem foldl_syncIngress_phb {w : World} : ∀ (l : List Ingress) (c : Cfg), PathsHaveBackend c →
    PathsHaveBackend (l.foldl (syncIngress w) c)
  | [], _, h => h
  | i :: l, c, h => by
    simp only [foldl_cons]
    apply foldl_syncIngress_phb l
    have := foldl_addDecl_phb (w := w) (declsOf i) c h
    unfold syncIngress
    exact this

theorem fullSync_phb (w : World) : PathsHaveBackend (fullSync w) := by
  unfold fullSync
  apply foldl_syncIngress_phb
  intro p hp
  rw [initCfg_paths] at hp
  simp at hp

/-! ## the iteration order used by the driver is admissible -/

theorem iter0_ok (c : Cfg) : IterOK c c.iter0 :=
  ⟨C04.hostOrderOK_of_perm (Perm.refl _), C04.hostOrderOK_of_perm (Perm.refl _),
   C04.hostOrderOK_of_perm (Perm.refl _)⟩

theorem iterSorted_ok (c : Cfg) : IterOK c c.iterSorted :=
  ⟨C04.hostOrderOK_of_perm (sortBy_perm _ _), C04.hostOrderOK_of_perm (sortBy_perm _ _),
   C04.hostOrderOK_of_perm (sortBy_perm _ _)⟩

/-! ## `sortIngress`: the result is ordered by (creation, namespace/name) -/

def Sorted {α : Type} (lt : α → α → Bool) : List α → Prop
  | [] => True
  | x :: xs => (∀ y ∈ xs, lt y x = false) ∧ Sorted lt xs

/-- a comparator that is total in the sense needed by insertion sort: `¬ a < b → ¬ b < a ∨ ...`;
we only need: if `x` is not below `y` then `y` is not above... stated as asymmetry + transitivity of `≥` -/
structure TotalPre {α : Type} (lt : α → α → Bool) : Prop where
  asymm : ∀ a b, lt a b = true → lt b a = false
  ntrans : ∀ a b c, lt b a = false → lt c b = false → lt c a = false

theorem insertBy_sorted {α : Type} {lt : α → α → Bool} (tp : TotalPre lt) (x : α) :
    ∀ l : List α, Sorted lt l → Sorted lt (insertBy lt x l)
  | [], _ => ⟨fun y h => by simp at h, trivial⟩
  | y :: ys, h => by
    unfold insertBy
    split
    · rename_i hxy
      refine ⟨fun z hz => ?_, h⟩
      rcases mem_cons.1 hz with rfl | hz
      · exact tp.asymm _ _ hxy
      · exact tp.ntrans _ _ _ (tp.asymm _ _ hxy) (h.1 z hz)
    · rename_i hxy
      have hxy' : lt x y = false := by simpa using hxy
      refine ⟨fun z hz => ?_, insertBy_sorted tp x ys h.2⟩
      rcases mem_cons.1 ((insertBy_perm lt x ys).mem_iff.1 hz) with rfl | hz
      · exact hxy'
      · exact h.1 z hz

theorem sortBy_sorted {α : Type} {lt : α → α → Bool} (tp : TotalPre lt) : ∀ l : List α, Sorted lt (sortBy lt l)
  | [] => trivial
  | x :: xs => insertBy_sorted tp x _ (sortBy_sorted tp xs)

end HapVerif.C03
