/- Helper lemmas for C17: association-list maps (`find`/`insert`/`erase`), key uniqueness, and the
invariants of `AcmeStorages` through one reconciliation cycle. Core-only. -/
import HapVerif.Model.C17
namespace HapVerif.C17

theorem find_filter_key (p : String → Bool) (m : SMap) (k : String) :
    find (m.filter (fun e => p e.1)) k = if p k then find m k else none := by
  induction m with
  | nil => simp [find]
  | cons e t ih =>
    obtain ⟨a, v⟩ := e
    by_cases hp : p a
    · simp only [List.filter_cons, hp, if_true, find]
      by_cases hk : a = k
      · subst hk; simp [hp]
      · simp [hk, ih]
    · simp only [List.filter_cons, hp, find]
      by_cases hk : a = k
      · subst hk; simp [hp, ih]
      · simp [hk, ih]

theorem find_erase (m : SMap) (n k : String) :
    find (erase m n) k = if k = n then none else find m k := by
  unfold erase
  have := find_filter_key (fun a => decide (a ≠ n)) m k
  simp only [decide_not] at this ⊢
  rw [this]
  by_cases h : k = n <;> simp [h]

theorem find_insert (m : SMap) (n k : String) (c : Cert) :
    find (insert m n c) k = if k = n then some c else find m k := by
  unfold insert
  simp only [find]
  by_cases h : n = k
  · subst h; simp
  · have h' : ¬ k = n := fun e => h e.symm
    simp [h, h', find_erase]

/-- keys are unique -/
def Uniq (m : SMap) : Prop := (m.map (·.1)).Nodup

theorem uniq_nil : Uniq [] := by simp [Uniq]

theorem uniq_filter (p : String × Cert → Bool) {m : SMap} (h : Uniq m) : Uniq (m.filter p) := by
  unfold Uniq at *
  exact List.Nodup.sublist ((List.filter_sublist).map _) h

theorem mem_keys_of_find {m : SMap} {k : String} {c : Cert} (h : find m k = some c) : (k, c) ∈ m := by
  induction m with
  | nil => simp [find] at h
  | cons e t ih =>
    obtain ⟨a, v⟩ := e
    simp only [find] at h
    by_cases hk : a = k
    · subst hk; simp at h; subst h; simp
    · simp [hk] at h; exact List.mem_cons_of_mem _ (ih h)

theorem find_none_of_not_key {m : SMap} {k : String} (h : k ∉ m.map (·.1)) : find m k = none := by
  induction m with
  | nil => simp [find]
  | cons e t ih =>
    obtain ⟨a, v⟩ := e
    simp only [List.map_cons, List.mem_cons, not_or] at h
    simp only [find]
    have : ¬ a = k := fun e => h.1 e.symm
    simp [this, ih h.2]

theorem find_of_mem {m : SMap} (hu : Uniq m) {k : String} {c : Cert} (h : (k, c) ∈ m) : find m k = some c := by
  induction m with
  | nil => simp at h
  | cons e t ih =>
    obtain ⟨a, v⟩ := e
    simp only [Uniq, List.map_cons, List.nodup_cons] at hu
    simp only [List.mem_cons, Prod.mk.injEq] at h
    simp only [find]
    rcases h with ⟨h1, h2⟩ | h
    · subst h1 h2; simp
    · have hk : k ∈ t.map (·.1) := List.mem_map.mpr ⟨(k, c), h, rfl⟩
      have : ¬ a = k := fun e => hu.1 (e ▸ hk)
      simp [this]; exact ih hu.2 h

theorem mem_iff_find {m : SMap} (hu : Uniq m) (k : String) (c : Cert) : (k, c) ∈ m ↔ find m k = some c :=
  ⟨find_of_mem hu, mem_keys_of_find⟩

theorem uniq_erase {m : SMap} (h : Uniq m) (n : String) : Uniq (erase m n) := uniq_filter _ h

theorem uniq_insert {m : SMap} (h : Uniq m) (n : String) (c : Cert) : Uniq (insert m n c) := by
  unfold insert Uniq
  simp only [List.map_cons, List.nodup_cons]
  refine ⟨?_, uniq_erase h n⟩
  intro hm
  obtain ⟨⟨a, v⟩, he, ha⟩ := List.mem_map.mp hm
  simp only at ha; subst ha
  simp [erase] at he


/-! removeAll -/

theorem removeOne_add (s : Storages) (n : String) : (removeOne s n).add = s.add := by
  unfold removeOne; split <;> rfl

theorem removeOne_items (s : Storages) (n k : String) :
    find (removeOne s n).items k = if k = n then none else find s.items k := by
  unfold removeOne
  split
  · simp [find_erase]
  · rename_i h
    by_cases hk : k = n
    · subst hk; simp [h]
    · simp [hk]

theorem removeOne_del (s : Storages) (n k : String) :
    find (removeOne s n).del k =
      if k = n then (match find s.items n with | some c => some c | none => find s.del n) else find s.del k := by
  unfold removeOne
  split
  · rename_i c h
    by_cases hk : k = n
    · subst hk; simp [find_insert, h]
    · simp [find_insert, hk]
  · rename_i h
    by_cases hk : k = n
    · subst hk; simp [h]
    · simp [hk]

theorem removeOne_uniq_del {s : Storages} (h : Uniq s.del) (n : String) : Uniq (removeOne s n).del := by
  unfold removeOne; split
  · exact uniq_insert h _ _
  · exact h

theorem removeAll_add (s : Storages) (ns : List String) : (removeAll s ns).add = s.add := by
  unfold removeAll
  induction ns generalizing s with
  | nil => rfl
  | cons n t ih => simp only [List.foldl_cons]; rw [ih, removeOne_add]

theorem removeAll_uniq_del {s : Storages} (h : Uniq s.del) (ns : List String) : Uniq (removeAll s ns).del := by
  unfold removeAll
  induction ns generalizing s with
  | nil => exact h
  | cons n t ih => simp only [List.foldl_cons]; exact ih (removeOne_uniq_del h n)

theorem removeAll_items (s : Storages) (ns : List String) (k : String) :
    find (removeAll s ns).items k = if k ∈ ns then none else find s.items k := by
  unfold removeAll
  induction ns generalizing s with
  | nil => simp
  | cons n t ih =>
    simp only [List.foldl_cons, List.mem_cons]
    rw [ih, removeOne_items]
    by_cases h1 : k ∈ t <;> by_cases h2 : k = n <;> simp [h1, h2]

/-- starting without pending removals: the removed entries are exactly the dirty ones that existed -/
theorem removeAll_del (s : Storages) (ns : List String) (k : String) (hd : s.del = []) :
    find (removeAll s ns).del k = if k ∈ ns then find s.items k else none := by
  have gen : ∀ (ns : List String) (s : Storages),
      find (ns.foldl removeOne s).del k =
        if k ∈ ns then (match find s.items k with | some c => some c | none => find s.del k) else find s.del k := by
    intro ns
    induction ns with
    | nil => intro s; simp
    | cons n t ih =>
      intro s
      simp only [List.foldl_cons, List.mem_cons]
      rw [ih, removeOne_items, removeOne_del]
      by_cases h2 : k = n
      · subst h2
        by_cases h1 : k ∈ t <;> simp [h1] <;> (cases find s.items k <;> simp)
      · by_cases h1 : k ∈ t <;> simp [h1, h2]
  have := gen ns s
  unfold removeAll
  rw [this, hd]
  by_cases h : k ∈ ns <;> simp [h, find]
  cases find s.items k <;> simp


theorem mem_ops_add (a d : SMap) (n : String) (x : Cert) :
    QOp.add n x ∈ a.map (fun e => QOp.add e.1 e.2) ++ d.map (fun e => QOp.remove e.1 e.2) ↔ (n, x) ∈ a := by
  simp only [List.mem_append, List.mem_map]
  constructor
  · rintro (⟨⟨k, v⟩, he, h⟩ | ⟨e, _, h⟩)
    · simp only [QOp.add.injEq] at h; obtain ⟨rfl, rfl⟩ := h; exact he
    · cases h
  · intro h; exact Or.inl ⟨(n, x), h, rfl⟩

theorem mem_ops_remove (a d : SMap) (n : String) (x : Cert) :
    QOp.remove n x ∈ a.map (fun e => QOp.add e.1 e.2) ++ d.map (fun e => QOp.remove e.1 e.2) ↔ (n, x) ∈ d := by
  simp only [List.mem_append, List.mem_map]
  constructor
  · rintro (⟨e, _, h⟩ | ⟨⟨k, v⟩, he, h⟩)
    · cases h
    · simp only [QOp.remove.injEq] at h; obtain ⟨rfl, rfl⟩ := h; exact he
  · intro h; exact Or.inr ⟨(n, x), h, rfl⟩


theorem removeOne_cleared (s : Storages) (n : String) : (removeOne s n).cleared = s.cleared := by
  unfold removeOne; split <;> rfl

theorem removeAll_cleared (s : Storages) (ns : List String) : (removeAll s ns).cleared = s.cleared := by
  unfold removeAll
  induction ns generalizing s with
  | nil => rfl
  | cons n t ih => simp only [List.foldl_cons]; rw [ih, removeOne_cleared]

theorem acquire_cleared (s : Storages) (n ch : String) (ds : List String) :
    (acquire s n ch ds).cleared = s.cleared := by
  unfold acquire; split
  · rfl
  · split <;> rfl

theorem applyAcqs_cleared (as : List Acq) (s : Storages) : (applyAcqs s as).cleared = s.cleared := by
  unfold applyAcqs
  induction as generalizing s with
  | nil => rfl
  | cons a t ih => simp only [List.foldl_cons]; rw [ih, acquire_cleared]

theorem preUpdate_cleared (s : Storages) (c : Cycle) (h : s.cleared = false) : (preUpdate s c).cleared = c.full := by
  unfold preUpdate
  rw [applyAcqs_cleared]
  cases c.full
  · simp [removeAll_cleared, h]
  · rfl

/-! shrink -/

theorem shrink_items (s : Storages) : (shrink s).items = s.items := rfl

theorem shrink_add_partial (s : Storages) (hc : s.cleared = false) (k : String) (c : Cert) :
    find (shrink s).add k = some c ↔ find s.add k = some c ∧ find s.del k ≠ some c := by
  unfold shrink
  simp only [hc, Bool.false_eq_true, if_false]
  rw [find_filter_key (fun n => !((find s.add n).isSome && find s.add n == find s.del n))]
  constructor
  · intro h
    split at h
    · rename_i hp
      refine ⟨h, ?_⟩
      intro hd
      simp [h, hd] at hp
    · cases h
  · rintro ⟨ha, hd⟩
    have hne : (find s.add k == find s.del k) = false := by
      cases hb : (find s.add k == find s.del k) with
      | false => rfl
      | true => exact absurd ((eq_of_beq hb).symm.trans ha) hd
    simp only [hne, Bool.and_false, Bool.not_false, if_true]; exact ha

theorem shrink_add_full (s : Storages) (hc : s.cleared = true) : (shrink s).add = s.add := by
  unfold shrink; simp [hc]

theorem shrink_del (s : Storages) (k : String) (c : Cert) :
    find (shrink s).del k = some c ↔ find s.del k = some c ∧ find s.add k ≠ some c := by
  unfold shrink
  simp only
  rw [find_filter_key (fun n => !((find s.add n).isSome && find s.add n == find s.del n))]
  constructor
  · intro h
    split at h
    · rename_i hp
      refine ⟨h, ?_⟩
      intro ha
      simp [h, ha] at hp
    · cases h
  · rintro ⟨hd, ha⟩
    have hne : (find s.add k == find s.del k) = false := by
      cases hb : (find s.add k == find s.del k) with
      | false => rfl
      | true => exact absurd ((eq_of_beq hb).trans hd) ha
    simp only [hne, Bool.and_false, Bool.not_false, if_true]; exact hd

theorem shrink_uniq_add {s : Storages} (h : Uniq s.add) : Uniq (shrink s).add := by
  unfold shrink; cases s.cleared
  · exact uniq_filter _ h
  · exact h
theorem shrink_uniq_del {s : Storages} (h : Uniq s.del) : Uniq (shrink s).del := uniq_filter _ h

theorem find_append (a b : SMap) (k : String) :
    find (a ++ b) k = match find a k with | some c => some c | none => find b k := by
  induction a with
  | nil => simp [find]
  | cons e t ih =>
    obtain ⟨x, v⟩ := e
    simp only [List.cons_append, find]
    by_cases h : x = k
    · simp [h]
    · simp [h, ih]

/-- invariant of the acquisitions relative to the state `s0` they start from and the storages `P`
before the cycle -/
structure Inv (s0 : Storages) (P : SMap) (s : Storages) : Prop where
  keep : ∀ k, find s.add k = none → find s.items k = find s0.items k ∧ find s.del k = find s0.del k
  same : ∀ k c, find s.add k = some c → find s.items k = some c
  old  : ∀ k, find s.add k ≠ none → find s.del k = find P k
  uadd : Uniq s.add
  udel : Uniq s.del

/-- what the start state must satisfy w.r.t. `P` -/
structure Start (s0 : Storages) (P : SMap) : Prop where
  h0 : ∀ k, find s0.items k = none → find s0.del k = find P k
  h1 : ∀ k c, find s0.items k = some c → find s0.del k = none ∧ find P k = some c

theorem acquire_inv {s0 s : Storages} {P : SMap} (hs : Start s0 P) (h : Inv s0 P s)
    (n ch : String) (ds : List String) : Inv s0 P (acquire s n ch ds) := by
  unfold acquire
  split
  · rename_i hnone
    have hadd : find s.add n = none := by
      cases hx : find s.add n with
      | none => rfl
      | some y => have := h.same n y hx; rw [hnone] at this; cases this
    have hk := h.keep n hadd
    have hdel : find s.del n = find P n := by rw [hk.2]; exact hs.h0 n (by rw [← hk.1]; exact hnone)
    refine ⟨?_, ?_, ?_, uniq_insert h.uadd _ _, h.udel⟩
    · intro k hk
      simp only [find_insert] at hk ⊢
      by_cases e : k = n
      · simp [e] at hk
      · simp only [e, if_false] at hk ⊢; exact h.keep k hk
    · intro k c hk
      simp only [find_insert] at hk ⊢
      by_cases e : k = n
      · simp only [e, if_true] at hk ⊢; exact hk
      · simp only [e, if_false] at hk ⊢; exact h.same k c hk
    · intro k hk
      simp only [find_insert] at hk
      by_cases e : k = n
      · subst e; exact hdel
      · simp only [e, if_false] at hk; exact h.old k hk
  · rename_i cur hcur
    cases hx : find s.add n with
    | some y =>
      simp only [Option.isSome_some, if_true]
      refine ⟨?_, ?_, ?_, uniq_insert h.uadd _ _, h.udel⟩
      · intro k hk
        simp only [find_insert] at hk ⊢
        by_cases e : k = n
        · simp [e] at hk
        · simp only [e, if_false] at hk ⊢; exact h.keep k hk
      · intro k c hk
        simp only [find_insert] at hk ⊢
        by_cases e : k = n
        · simp only [e, if_true] at hk ⊢; exact hk
        · simp only [e, if_false] at hk ⊢; exact h.same k c hk
      · intro k hk
        simp only [find_insert] at hk
        by_cases e : k = n
        · subst e; exact h.old k (by rw [hx]; simp)
        · simp only [e, if_false] at hk; exact h.old k hk
    | none =>
      have hk := h.keep n hx
      have h1 := hs.h1 n cur (by rw [← hk.1]; exact hcur)
      have hdn : find s.del n = none := by rw [hk.2]; exact h1.1
      simp only [Option.isSome_none, Bool.false_eq_true, if_false, hdn]
      refine ⟨?_, ?_, ?_, uniq_insert h.uadd _ _, uniq_insert h.udel _ _⟩
      · intro k hk
        simp only [find_insert] at hk ⊢
        by_cases e : k = n
        · simp [e] at hk
        · simp only [e, if_false] at hk ⊢; exact h.keep k hk
      · intro k c hk
        simp only [find_insert] at hk ⊢
        by_cases e : k = n
        · simp only [e, if_true] at hk ⊢; exact hk
        · simp only [e, if_false] at hk ⊢; exact h.same k c hk
      · intro k hk
        simp only [find_insert] at hk ⊢
        by_cases e : k = n
        · subst e; simp only [if_true]; exact h1.2.symm
        · simp only [e, if_false] at hk ⊢; exact h.old k hk

theorem applyAcqs_inv {s0 : Storages} {P : SMap} (hs : Start s0 P) (as : List Acq) {s : Storages}
    (h : Inv s0 P s) : Inv s0 P (applyAcqs s as) := by
  unfold applyAcqs
  induction as generalizing s with
  | nil => exact h
  | cons a t ih => simp only [List.foldl_cons]; exact ih (acquire_inv hs h _ _ _)


/-- start state of a partial cycle -/
theorem start_partial (s : Storages) (dirty : List String) (hdel : s.del = []) :
    Start (removeAll s dirty) s.items := by
  constructor
  · intro k hk
    rw [removeAll_items] at hk; rw [removeAll_del s dirty k hdel]
    by_cases hd : k ∈ dirty
    · simp [hd]
    · simp only [hd, if_false] at hk ⊢; exact hk.symm
  · intro k c hk
    rw [removeAll_items] at hk; rw [removeAll_del s dirty k hdel]
    by_cases hd : k ∈ dirty
    · simp [hd] at hk
    · simp only [hd, if_false] at hk ⊢; exact ⟨trivial, hk⟩

theorem clear_del (s : Storages) (hdel : s.del = []) : (clear s).del = s.items := by
  unfold clear; simp [hdel]

theorem start_full (s : Storages) (hdel : s.del = []) : Start (clear s) s.items := by
  constructor
  · intro k _; rw [clear_del s hdel]
  · intro k c hk; simp [clear, find] at hk

theorem inv_init (s0 : Storages) (P : SMap) (ha : s0.add = []) (hu : Uniq s0.del) : Inv s0 P s0 :=
  ⟨fun _ _ => ⟨rfl, rfl⟩, fun k c h => by rw [ha] at h; simp [find] at h,
   fun k h => by rw [ha] at h; simp [find] at h, by rw [ha]; exact uniq_nil, hu⟩

theorem cycle_items (s : Storages) (c : Cycle) : (cycle s c).1.items = (preUpdate s c).items := by
  unfold cycle acmeUpdate commit
  split
  · split <;> rfl
  · rfl

theorem cycle_committed (s : Storages) (c : Cycle) :
    (cycle s c).1.add = [] ∧ (cycle s c).1.del = [] ∧ (cycle s c).1.cleared = false := by
  unfold cycle commit; exact ⟨rfl, rfl, rfl⟩

theorem cycle_ops_leader (s : Storages) (c : Cycle) (hl : c.leader = true) (ha : c.acct = true) :
    (cycle s c).2 = (shrink (preUpdate s c)).add.map (fun e => QOp.add e.1 e.2) ++
                    (shrink (preUpdate s c)).del.map (fun e => QOp.remove e.1 e.2) := by
  unfold cycle acmeUpdate; simp [hl, ha]

/-- removals, for both kinds of cycle -/
theorem removes_char {s0 s : Storages} {P : SMap} (_hs : Start s0 P) (inv : Inv s0 P s)
    (h2 : ∀ k c, find s0.del k = some c → find P k = some c ∧ find s0.items k = none)
    (h3 : ∀ k c, find P k = some c → find s0.items k = some c ∨ find s0.del k = some c)
    (k : String) (x : Cert) :
    (find s.del k = some x ∧ find s.add k ≠ some x) ↔ (find P k = some x ∧ find s.items k ≠ some x) := by
  constructor
  · rintro ⟨hd, ha⟩
    cases hx : find s.add k with
    | none =>
      have hk := inv.keep k hx
      rw [hk.2] at hd
      have := h2 k x hd
      exact ⟨this.1, by rw [hk.1, this.2]; simp⟩
    | some y =>
      have ho := inv.old k (by rw [hx]; simp)
      rw [ho] at hd
      refine ⟨hd, ?_⟩
      rw [inv.same k y hx]
      intro e; cases e; exact ha hx
  · rintro ⟨hp, hn⟩
    cases hx : find s.add k with
    | none =>
      have hk := inv.keep k hx
      rcases h3 k x hp with h | h
      · rw [hk.1] at hn; exact absurd h hn
      · exact ⟨by rw [hk.2]; exact h, by simp⟩
    | some y =>
      have ho := inv.old k (by rw [hx]; simp)
      refine ⟨by rw [ho]; exact hp, ?_⟩
      intro e; cases e
      exact hn (inv.same k x hx)

theorem removeOne_uniq_items {s : Storages} (h : Uniq s.items) (n : String) : Uniq (removeOne s n).items := by
  unfold removeOne; split
  · exact uniq_erase h _
  · exact h

theorem removeAll_uniq_items {s : Storages} (h : Uniq s.items) (ns : List String) : Uniq (removeAll s ns).items := by
  unfold removeAll
  induction ns generalizing s with
  | nil => exact h
  | cons n t ih => simp only [List.foldl_cons]; exact ih (removeOne_uniq_items h n)

theorem acquire_uniq_items {s : Storages} (h : Uniq s.items) (n ch : String) (ds : List String) :
    Uniq (acquire s n ch ds).items := by
  unfold acquire; split
  · exact uniq_insert h _ _
  · split <;> exact uniq_insert h _ _

theorem applyAcqs_uniq_items (as : List Acq) {s : Storages} (h : Uniq s.items) : Uniq (applyAcqs s as).items := by
  unfold applyAcqs
  induction as generalizing s with
  | nil => exact h
  | cons a t ih => simp only [List.foldl_cons]; exact ih (acquire_uniq_items h _ _ _)

theorem cycle_uniq_items (s : Storages) (c : Cycle) (hu : Uniq s.items) : Uniq (cycle s c).1.items := by
  rw [cycle_items]; unfold preUpdate
  apply applyAcqs_uniq_items
  cases c.full
  · exact removeAll_uniq_items hu _
  · exact uniq_nil


/-! ### controller cycles (`AcmeUpdate` ; `HAProxyUpdate` with a reload that may fail) -/

/-- the code that exists: the storages after a controller cycle are those of the storages-level cycle … -/
theorem icycle_st (i : Inst) (c : ICycle) : (icycle i c).1.st = (cycle i.st c.c).1 := rfl

/-- … and so are the queue operations: neither reads `failing`, `owed`, `chg`, `rfail` -/
theorem icycle_ops (i : Inst) (c : ICycle) : (icycle i c).2.1 = (cycle i.st c.c).2 := rfl

/-- the storages do not depend on the policy (only what is handed to the queue does) -/
theorem icycleP_st (p : AddPolicy) (i : Inst) (c : ICycle) : (icycleP p i c).1.st = (icycle i c).1.st := by
  cases p
  · rfl
  · simp only [icycle, icycleP, acmeUpdateP]
    split <;> rfl

theorem icycleP_flags (p : AddPolicy) (i : Inst) (c : ICycle) :
    (icycleP p i c).1.failing = afterReload i.failing (reloadOf i c) ∧
    (icycleP p i c).1.owed = afterReload i.owed (reloadOf i c) ∧
    (icycleP p i c).1.committed = true ∧ (icycleP p i c).2.2 = reloadOf i c := ⟨rfl, rfl, rfl, rfl⟩

/-- projection of a history of controller cycles onto the storages-level history -/
theorem runI_always_proj (cs : List ICycle) : ∀ (i : Inst),
    (runI .always i cs).2.map (·.1) = (runCycles i.st (cs.map (·.c))).2 ∧
    (runI .always i cs).1.st = (runCycles i.st (cs.map (·.c))).1 := by
  induction cs with
  | nil => intro i; exact ⟨rfl, rfl⟩
  | cons c cs ih =>
    intro i
    have h := ih (icycleP .always i c).1
    simp only [runI, runCycles, List.map_cons]
    exact ⟨by rw [h.1]; rfl, by rw [h.2]; rfl⟩

/-- while nothing fails the `skipWhileFailing` variant is the code that exists -/
theorem icycleP_skip_not_failing (i : Inst) (c : ICycle) (h : i.failing = false) :
    icycleP .skipWhileFailing i c = icycleP .always i c := by
  simp [icycleP, acmeUpdateP, h]

theorem reloadOf_not_failed (i : Inst) (c : ICycle) (h : c.rfail = false) : reloadOf i c ≠ .failed := by
  unfold reloadOf
  split
  · simp [h]
  · simp


end HapVerif.C17
