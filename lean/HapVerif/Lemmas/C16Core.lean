import HapVerif.Lemmas.C16Int
/-!
# C16 — the last loop of `RebalanceWeight`, independent of the rounding function

`newWeight` = `clampW weight (truncI (preW …))`: a rational *pre-weight* `preW` (the float
expression), Go's `int()` truncation, and the repaired `≥ 1` clamp.  This file proves, for
an arbitrary pre-weight, what the four Spec clauses need (`out_range`, `out_zero_iff`,
`out_order`, `share_core`), characterises the members of `live cls (rebalanceWith rnd …)`
(`live_rebalanceWith`) and assembles `oracle … = none` from the four clauses.
-/
namespace HapVerif.C16

/-- the repaired clamp: a configured non-zero weight is never written as 0 -/
def clampW (w pw : Int) : Int := if pw = 0 ∧ w > 0 then 1 else pw

/-- the float expression whose truncation is written -/
def preW (rnd : Rat → Rat) (lcm g : Int) (wfm wf : Rat) (cl : Cluster) : Rat :=
  let weight := rnd (rnd (wfm * rnd (cl.weight * lcm)) / rnd (cl.length * g))
  if wf > 1 then rnd (weight / wf) else weight

def wfmOf (rnd : Rat → Rat) (initial : Int) (a : Acc) : Rat := rnd (rnd (initial * a.g) / rnd a.mn)
def wfOf (rnd : Rat → Rat) (initial : Int) (a : Acc) : Rat :=
  rnd (rnd (wfmOf rnd initial a * rnd a.mx) / rnd (256 * a.g))

theorem newWeight_eq (rnd : Rat → Rat) (lcm g : Int) (wfm wf : Rat) (cl : Cluster) :
    newWeight rnd lcm g wfm wf cl =
      if cl.length = 0 then none else some (clampW cl.weight (truncI (preW rnd lcm g wfm wf cl))) := by
  unfold newWeight preW clampW
  by_cases h : cl.length = 0
  · simp [h]
  · by_cases h2 : wf > 1 <;> simp [h, h2]

theorem rebalanceWith_eq (rnd : Rat → Rat) (cls : List Cluster) (initial : Int) :
    rebalanceWith rnd cls initial =
      if lcmCount cls = 0 then cls.map (fun c => some c.weight) else
      if (accAll (lcmCount cls) cls).g = 0 then cls.map (fun c => some c.weight) else
      cls.map (newWeight rnd (lcmCount cls) (accAll (lcmCount cls) cls).g
        (wfmOf rnd initial (accAll (lcmCount cls) cls)) (wfOf rnd initial (accAll (lcmCount cls) cls))) := rfl

theorem rebalanceWith_length (rnd : Rat → Rat) (cls : List Cluster) (initial : Int) :
    (rebalanceWith rnd cls initial).length = cls.length := by
  rw [rebalanceWith_eq]; split
  · simp
  · split <;> simp

/-! ## truncation and clamp -/

theorem truncI_nonneg {x : Rat} (h : 0 ≤ x) : truncI x = ⌊x⌋ := by
  unfold truncI
  rw [if_neg (not_lt.2 h)]; rfl

theorem truncI_zero' : truncI 0 = 0 := by rw [truncI_nonneg (le_refl _)]; simp

theorem out_range {w : Int} {x : Rat} (h0 : 0 ≤ x) (h1 : x < 257) :
    0 ≤ clampW w (truncI x) ∧ clampW w (truncI x) ≤ 256 := by
  rw [truncI_nonneg h0]
  have a : 0 ≤ ⌊x⌋ := Int.floor_nonneg.2 h0
  have b : ⌊x⌋ < 257 := Int.floor_lt.2 (by exact_mod_cast h1)
  unfold clampW; split <;> omega

theorem out_zero_iff {w : Int} {x : Rat} (hw : 0 ≤ w) (h0 : 0 ≤ x) (hz : w = 0 → x = 0) :
    clampW w (truncI x) = 0 ↔ w = 0 := by
  rw [truncI_nonneg h0]
  unfold clampW
  constructor
  · intro h
    by_contra hne
    have : w > 0 := by omega
    split at h <;> simp_all
  · intro h
    have := hz h
    subst this
    simp [h]

theorem out_order {w1 w2 : Int} {x y : Rat} (hx : 0 ≤ x) (hxy : x ≤ y) (hw : 0 < w1 → 0 < w2) :
    clampW w1 (truncI x) ≤ clampW w2 (truncI y) := by
  rw [truncI_nonneg hx, truncI_nonneg (le_trans hx hxy)]
  have a : 0 ≤ ⌊x⌋ := Int.floor_nonneg.2 hx
  have b : ⌊x⌋ ≤ ⌊y⌋ := Int.floor_mono hxy
  unfold clampW
  split <;> split <;> omega

theorem clampW_pos {w pw : Int} (hw : 0 < w) (hp : 0 ≤ pw) : clampW w pw = max 1 pw := by
  unfold clampW
  split <;> omega

/-- **share, core inequality.**  `x ≤ y` are the ideal (real-valued) weights of two groups
with non-zero configured weight, `xt`, `yt` the values actually truncated, off by at most
`ex`, `ey`.  The written integers `a`, `b` satisfy `|a·y − b·x| ≤ y + (ex·y + ey·x)`;
with exact arithmetic (`ex = ey = 0`) this is the Spec clause. -/
theorem share_core {x y xt yt ex ey : Rat} {a b : Int} (hx : 0 < x) (hxy : x ≤ y)
    (hxl : x - ex ≤ xt) (hxu : xt ≤ x + ex) (hyl : y - ey ≤ yt) (hyu : yt ≤ y + ey)
    (_hex : 0 ≤ ex) (_hey : 0 ≤ ey)
    (ha : a = max 1 ⌊xt⌋) (hb : b = max 1 ⌊yt⌋) :
    |(a : Rat) * y - (b : Rat) * x| ≤ y + (ex * y + ey * x) := by
  have hy : 0 < y := lt_of_lt_of_le hx hxy
  have fa1 : (⌊xt⌋ : Rat) ≤ xt := Int.floor_le xt
  have fa2 : xt < (⌊xt⌋ : Rat) + 1 := Int.lt_floor_add_one xt
  have fb1 : (⌊yt⌋ : Rat) ≤ yt := Int.floor_le yt
  have fb2 : yt < (⌊yt⌋ : Rat) + 1 := Int.lt_floor_add_one yt
  have a1 : (1 : Rat) ≤ a := by rw [ha]; exact_mod_cast le_max_left 1 ⌊xt⌋
  have b1 : (1 : Rat) ≤ b := by rw [hb]; exact_mod_cast le_max_left 1 ⌊yt⌋
  have a2 : (⌊xt⌋ : Rat) ≤ a := by rw [ha]; exact_mod_cast le_max_right 1 ⌊xt⌋
  have b2 : (⌊yt⌋ : Rat) ≤ b := by rw [hb]; exact_mod_cast le_max_right 1 ⌊yt⌋
  have a3 : (a : Rat) = 1 ∨ (a : Rat) = ⌊xt⌋ := by
    rw [ha]; rcases max_choice (1 : Int) ⌊xt⌋ with h | h <;> rw [h] <;> simp
  have b3 : (b : Rat) = 1 ∨ (b : Rat) = ⌊yt⌋ := by
    rw [hb]; rcases max_choice (1 : Int) ⌊yt⌋ with h | h <;> rw [h] <;> simp
  rw [abs_le]
  constructor
  · -- b x - a y ≤ bound
    rcases b3 with hb1 | hbf
    · rw [hb1]; nlinarith
    · have hbu : (b : Rat) ≤ y + ey := by rw [hbf]; linarith
      have hal : x - ex - 1 ≤ (a : Rat) := by linarith
      nlinarith
  · rcases a3 with ha1 | haf
    · rw [ha1]; nlinarith
    · have hau : (a : Rat) ≤ x + ex := by rw [haf]; linarith
      have hbl : y - ey - 1 ≤ (b : Rat) := by linarith
      nlinarith

/-! ## members of `live` -/

theorem zip_self_mem {α} {l : List α} {a b : α} (h : (a, b) ∈ l.zip l) : a = b ∧ a ∈ l := by
  induction l with
  | nil => simp at h
  | cons x xs ih =>
    simp only [List.zip_cons_cons, List.mem_cons, Prod.mk.injEq] at h
    rcases h with ⟨h1, h2⟩ | h
    · subst h1 h2; simp
    · have := ih h; exact ⟨this.1, List.mem_cons_of_mem _ this.2⟩

theorem zip_map_mem {α β} {l : List α} {f : α → β} {a : α} {b : β}
    (h : (a, b) ∈ l.zip (l.map f)) : a ∈ l ∧ b = f a := by
  rw [List.zip_map_right] at h
  simp only [List.mem_map, Prod.map, id, Prod.mk.injEq] at h
  obtain ⟨⟨x, y⟩, hxy, h1, h2⟩ := h
  have := zip_self_mem hxy
  simp only at h1 h2
  obtain ⟨e, hx⟩ := this
  subst e h1; exact ⟨hx, h2.symm⟩

theorem mem_live_map {cls : List Cluster} {f : Cluster → Option Int} {p : Cluster × Int}
    (h : p ∈ live cls (cls.map f)) : p.1 ∈ cls ∧ 0 < p.1.length ∧ f p.1 = some p.2 := by
  unfold live at h
  rw [List.mem_filterMap] at h
  obtain ⟨⟨c, o⟩, hm, hv⟩ := h
  have := zip_map_mem hm
  simp only at hv
  split at hv
  · rename_i hl
    cases o with
    | none => simp at hv
    | some w =>
      simp at hv; subst hv
      exact ⟨this.1, hl, this.2.symm⟩
  · simp at hv

/-- what is known of a pair `(cluster, written weight)` of the result, for any rounding -/
theorem live_rebalanceWith {rnd : Rat → Rat} {cls : List Cluster} {initial : Int}
    (h : WFIn cls initial) {p : Cluster × Int} (hp : p ∈ live cls (rebalanceWith rnd cls initial)) :
    p.1 ∈ cls ∧ 0 < p.1.length ∧ 0 < lcmCount cls ∧ p.1.length ∣ lcmCount cls ∧
    (((accAll (lcmCount cls) cls).g = 0 ∧ p.1.weight = 0 ∧ p.2 = 0) ∨
     ((accAll (lcmCount cls) cls).g ≠ 0 ∧
       p.2 = clampW p.1.weight (truncI (preW rnd (lcmCount cls) (accAll (lcmCount cls) cls).g
        (wfmOf rnd initial (accAll (lcmCount cls) cls)) (wfOf rnd initial (accAll (lcmCount cls) cls)) p.1)))) := by
  rw [rebalanceWith_eq] at hp
  have key : p.1 ∈ cls ∧ 0 < p.1.length := by
    split at hp
    · exact ⟨(mem_live_map hp).1, (mem_live_map hp).2.1⟩
    · split at hp <;> exact ⟨(mem_live_map hp).1, (mem_live_map hp).2.1⟩
  have hd := len_dvd_lcmCount h.len key.1 (by omega)
  refine ⟨key.1, key.2, hd.2, hd.1, ?_⟩
  rw [if_neg (by omega)] at hp
  by_cases hg : (accAll (lcmCount cls) cls).g = 0
  · rw [if_pos hg] at hp
    have hm := mem_live_map hp
    have hna := accAll_g_zero h hg p.1 key.1
    have hw : p.1.weight = 0 := by
      unfold active at hna
      have := key.2
      by_contra hne
      exact hna (by omega)
    left
    refine ⟨hg, hw, ?_⟩
    have := hm.2.2; simp at this; omega
  · rw [if_neg hg] at hp
    have hm := mem_live_map hp
    right
    refine ⟨hg, ?_⟩
    have := hm.2.2
    rw [newWeight_eq, if_neg (by omega)] at this
    simp at this; exact this.symm

/-! ## assembling the oracle -/

theorem oracle_none {cls : List Cluster} {out : List (Option Int)} (hl : cls.length = out.length)
    (h1 : ∀ p ∈ live cls out, specRange p = true)
    (h2 : ∀ p ∈ live cls out, specZero p = true)
    (h3 : ∀ p ∈ live cls out, ∀ q ∈ live cls out, specOrder p q = true)
    (h4 : ∀ p ∈ live cls out, ∀ q ∈ live cls out, specShare p q = true) :
    oracle cls out = none := by
  unfold oracle
  simp only [ne_eq, hl, not_true_eq_false, if_false]
  have e1 : (live cls out).all specRange = true := List.all_eq_true.2 h1
  have e2 : (live cls out).all specZero = true := List.all_eq_true.2 h2
  have e3 : ((live cls out).all fun p => (live cls out).all fun q => specOrder p q) = true :=
    List.all_eq_true.2 fun p hp => List.all_eq_true.2 fun q hq => h3 p hp q hq
  have e4 : ((live cls out).all fun p => (live cls out).all fun q => specShare p q) = true :=
    List.all_eq_true.2 fun p hp => List.all_eq_true.2 fun q hq => h4 p hp q hq
  simp [e1, e2, e3, e4]

theorem specRange_iff (p : Cluster × Int) : specRange p = true ↔ 0 ≤ p.2 ∧ p.2 ≤ 256 := by
  simp [specRange]
theorem specZero_iff (p : Cluster × Int) : specZero p = true ↔ (p.2 = 0 ↔ p.1.weight = 0) := by
  simp [specZero]
theorem specOrder_iff (p q : Cluster × Int) :
    specOrder p q = true ↔ (ratio p.1 < ratio q.1 → p.2 ≤ q.2) := by
  unfold specOrder; simp only [decide_eq_true_eq]
theorem specShare_iff (p q : Cluster × Int) :
    specShare p q = true ↔ ((0 < ratio p.1 ∧ ratio p.1 ≤ ratio q.1) →
      |(p.2 : Rat) * ratio q.1 - (q.2 : Rat) * ratio p.1| ≤ ratio q.1 * (1 + 1 / 1024)) := by
  unfold specShare
  simp only [decide_eq_true_eq]
  constructor
  · intro h hpre
    have := h hpre
    split at this
    · rename_i hneg; rw [abs_of_neg hneg]; exact this
    · rename_i hneg; rw [abs_of_nonneg (not_lt.1 hneg)]; exact this
  · intro h hpre
    have := h hpre
    split
    · rename_i hneg; rw [abs_of_neg hneg] at this; exact this
    · rename_i hneg; rw [abs_of_nonneg (not_lt.1 hneg)] at this; exact this

theorem ratio_pos_iff {c : Cluster} (hl : 0 < c.length) : 0 < ratio c ↔ 0 < c.weight := by
  unfold ratio
  have : (0 : Rat) < c.length := by exact_mod_cast hl
  rw [div_pos_iff_of_pos_right this]
  exact_mod_cast Iff.rfl

theorem ratio_nonneg {c : Cluster} (hl : 0 < c.length) (hw : 0 ≤ c.weight) : 0 ≤ ratio c := by
  unfold ratio
  have : (0 : Rat) < c.length := by exact_mod_cast hl
  have : (0 : Rat) ≤ c.weight := by exact_mod_cast hw
  positivity

end HapVerif.C16
