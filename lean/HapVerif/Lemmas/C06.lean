import HapVerif.Model.C06
import HapVerif.Lemmas.C03
import HapVerif.Lemmas.C15
/-!
# C06 — lemmas (core Lean)

* `ltStr` is a total order; `ingLt` (creation, then namespace/name) is a total preorder whose
  unordered pairs are equal when namespace/name are unique;
* two sorted permutations are equal (`sorted_perm_eq`), hence `sortIngs_perm`;
* `find?` in a permuted list with unique keys;
* every function of the full sync reads the cluster state through lookups only (`*_congr`);
* `fullSync_eq_of_perm`.
-/
namespace HapVerif.C06
open HapVerif.Sync List
open HapVerif.C04 (Str ltStr)

/-! ## `ltStr` is total: two strings that are not ordered are equal -/

theorem char_eq_of_toNat {a b : Char} (h : a.toNat = b.toNat) : a = b := by
  apply Char.ext
  apply UInt32.toNat_inj.1
  exact h

theorem ltStr_tri : ∀ {a b : Str}, ltStr a b = false → ltStr b a = false → a = b
  | [], [], _, _ => rfl
  | [], _ :: _, h, _ => by simp [ltStr] at h
  | _ :: _, [], _, h => by simp [ltStr] at h
  | x :: xs, y :: ys, h1, h2 => by
    unfold ltStr at h1 h2
    by_cases c1 : x.toNat < y.toNat
    · simp [c1] at h1
    · by_cases c2 : y.toNat < x.toNat
      · simp [c2] at h2
      · simp only [c1, c2, if_false] at h1 h2
        have : x = y := char_eq_of_toNat (by omega)
        rw [this, ltStr_tri h1 h2]

/-- negative transitivity of `ltStr` (from totality and transitivity) -/
theorem ltStr_ntrans {a b c : Str} (h1 : ltStr b a = false) (h2 : ltStr c b = false) : ltStr c a = false := by
  cases h : ltStr c a with
  | false => rfl
  | true =>
    exfalso
    -- c < a, ¬ b < a, ¬ c < b: compare a and b
    cases hab : ltStr a b with
    | true =>
      have := C04.ltStr_trans h hab
      rw [h2] at this; exact absurd this (by decide)
    | false =>
      have := ltStr_tri hab h1
      subst this
      rw [h2] at h; exact absurd h (by decide)

/-! ## `sortIngress` -/

theorem ingLt_totalPre : C03.TotalPre ingLt where
  asymm a b h := by
    unfold ingLt at h ⊢
    simp only [Bool.or_eq_true, decide_eq_true_eq, Bool.and_eq_true] at h
    rcases h with h | ⟨h1, h2⟩
    · simp only [Bool.or_eq_false_iff, decide_eq_false_iff_not, Bool.and_eq_false_iff]
      exact ⟨by omega, Or.inl (by omega)⟩
    · simp only [Bool.or_eq_false_iff, decide_eq_false_iff_not, Bool.and_eq_false_iff]
      exact ⟨by omega, Or.inr (C04.ltStr_asymm h2)⟩
  ntrans a b c h1 h2 := by
    unfold ingLt at h1 h2 ⊢
    simp only [Bool.or_eq_false_iff, decide_eq_false_iff_not, Bool.and_eq_false_iff] at h1 h2 ⊢
    obtain ⟨a1, a2⟩ := h1
    obtain ⟨b1, b2⟩ := h2
    refine ⟨by omega, ?_⟩
    by_cases e : c.created = a.created
    · right
      have e1 : b.created = a.created := by omega
      have e2 : c.created = b.created := by omega
      rcases a2 with a2 | a2
      · exact absurd e1 a2
      · rcases b2 with b2 | b2
        · exact absurd e2 b2
        · exact ltStr_ntrans a2 b2
    · exact Or.inl e

/-- the sorted list is a permutation ordered by (creation, namespace/name) -/
theorem sortIngs_sorted (l : List Ingress) : C03.Sorted ingLt (sortIngs l) ∧ (sortIngs l).Perm l :=
  ⟨C03.sortBy_sorted ingLt_totalPre l, C03.sortBy_perm ingLt l⟩

/-- ingresses have unique `namespace/name` -/
def UniqueKeys (l : List Ingress) : Prop := ∀ a ∈ l, ∀ b ∈ l, ingKey a = ingKey b → a = b

theorem ingLt_tri {l : List Ingress} (u : UniqueKeys l) {a b : Ingress} (ha : a ∈ l) (hb : b ∈ l)
    (h1 : ingLt a b = false) (h2 : ingLt b a = false) : a = b := by
  unfold ingLt at h1 h2
  simp only [Bool.or_eq_false_iff, decide_eq_false_iff_not, Bool.and_eq_false_iff] at h1 h2
  have e : a.created = b.created := by omega
  apply u a ha b hb
  rcases h1.2 with x | x
  · exact absurd e x
  · rcases h2.2 with y | y
    · exact absurd e.symm y
    · exact ltStr_tri x y

/-- two sorted permutations of the same elements are equal when unordered elements are equal -/
theorem sorted_perm_eq {α : Type} {lt : α → α → Bool} :
    ∀ {l l' : List α}, C03.Sorted lt l → C03.Sorted lt l' → l.Perm l' →
      (∀ a ∈ l, ∀ b ∈ l, lt a b = false → lt b a = false → a = b) → l = l'
  | [], l', _, _, p, _ => by rw [p.nil_eq]
  | x :: xs, [], _, _, p, _ => by simpa using p.length_eq
  | x :: xs, y :: ys, s1, s2, p, tri => by
    have hxy : x = y := by
      have hx : x ∈ y :: ys := p.mem_iff.1 mem_cons_self
      have hy : y ∈ x :: xs := p.mem_iff.2 mem_cons_self
      rcases mem_cons.1 hx with e | hx'
      · exact e
      · rcases mem_cons.1 hy with e | hy'
        · exact e.symm
        · exact tri x mem_cons_self y (mem_cons_of_mem _ hy') (s2.1 x hx') (s1.1 y hy')
    subst hxy
    have p' : xs.Perm ys := p.cons_inv
    rw [sorted_perm_eq s1.2 s2.2 p'
      (fun a ha b hb => tri a (mem_cons_of_mem _ ha) b (mem_cons_of_mem _ hb))]

theorem sortIngs_perm {l l' : List Ingress} (p : l.Perm l') (u : UniqueKeys l) : sortIngs l = sortIngs l' := by
  obtain ⟨s1, p1⟩ := sortIngs_sorted l
  obtain ⟨s2, p2⟩ := sortIngs_sorted l'
  apply sorted_perm_eq s1 s2 (p1.trans (p.trans p2.symm))
  intro a ha b hb
  exact ingLt_tri u (p1.mem_iff.1 ha) (p1.mem_iff.1 hb)

/-! ## lookups in permuted object lists -/

theorem find?_perm {α : Type} {p : α → Bool} {l l' : List α} (h : l.Perm l')
    (u : ∀ a ∈ l, ∀ b ∈ l, p a = true → p b = true → a = b) : l.find? p = l'.find? p := by
  cases h1 : l.find? p with
  | none =>
    have hn := find?_eq_none.1 h1
    exact (find?_eq_none.2 fun x hx => hn x (h.mem_iff.2 hx)).symm
  | some a =>
    have ha := mem_of_find?_eq_some h1
    have hpa := find?_some h1
    cases h2 : l'.find? p with
    | none => exact absurd hpa (find?_eq_none.1 h2 a (h.mem_iff.1 ha))
    | some b =>
      have hb := mem_of_find?_eq_some h2
      have hpb := find?_some h2
      rw [u a ha b (h.mem_iff.2 hb) hpa hpb]

/-- two cluster states that answer every lookup of the converter in the same way -/
structure SameLookups (w w' : World) : Prop where
  svc : ∀ ns n, w.findSvc ns n = w'.findSvc ns n
  eps : ∀ ns n, w.findEps ns n = w'.findEps ns n
  sec : ∀ a n, w.secs.find? (fun s => s.ns = a ∧ s.name = n) = w'.secs.find? (fun s => s.ns = a ∧ s.name = n)
  pods : w.pods = w'.pods
  opts : w.opts = w'.opts

variable {w w' : World}

theorem resolve_congr (h : SameLookups w w') (ns svc port : Str) : resolve w ns svc port = resolve w' ns svc port := by
  unfold resolve; rw [h.svc]

theorem mkServers_congr (h : SameLookups w w') (s : Service) (sp : SvcPort) : mkServers w s sp = mkServers w' s sp := by
  unfold mkServers terminatingTargets; rw [h.eps, h.opts, h.pods]

theorem acquireBackend_congr (h : SameLookups w w') (bs : List Backend) (s : Service) (sp : SvcPort) :
    acquireBackend w bs s sp = acquireBackend w' bs s sp := by
  unfold acquireBackend; rw [mkServers_congr h]

theorem addDecl_congr (h : SameLookups w w') (c : Cfg) (d : Decl) : addDecl w c d = addDecl w' c d := by
  unfold addDecl
  rw [resolve_congr h]
  split
  · rfl
  · cases resolve w' d.ns d.svc d.port with
    | none => rfl
    | some x => obtain ⟨s, sp⟩ := x; simp only; rw [acquireBackend_congr h]

theorem crtOf_congr (h : SameLookups w w') (ns secret : Str) : crtOf w ns secret = crtOf w' ns secret := by
  unfold crtOf secretRef
  rw [h.opts]
  split
  · rfl
  · split
    · rfl
    · rw [h.sec]

theorem addTLS_congr (h : SameLookups w w') (ns : Str) (t : List (Str × Crt)) (b : TLSSpec) :
    addTLS w ns t b = addTLS w' ns t b := by
  unfold addTLS; rw [crtOf_congr h]

theorem syncIngress_congr (h : SameLookups w w') (c : Cfg) (i : Ingress) :
    syncIngress w c i = syncIngress w' c i := by
  unfold syncIngress
  have e1 : addDecl w = addDecl w' := by funext c d; exact addDecl_congr h c d
  have e2 : addTLS w i.ns = addTLS w' i.ns := by funext t b; exact addTLS_congr h i.ns t b
  rw [e1, e2]

theorem initCfg_congr (h : SameLookups w w') : initCfg w = initCfg w' := by
  unfold initCfg
  rw [h.opts]
  cases w'.opts.defaultBackend with
  | none => rfl
  | some nn =>
    obtain ⟨ns, n⟩ := nn
    simp only
    rw [h.svc]
    cases w'.findSvc ns n with
    | none => rfl
    | some s =>
      simp only
      cases s.ports.head? with
      | none => rfl
      | some p0 =>
        simp only
        cases findPort s p0.target with
        | none => rfl
        | some sp => simp only; rw [acquireBackend_congr h]

/-- unique `namespace/name` of the services, endpoints and secrets -/
structure UniqueObjs (w : World) : Prop where
  ings : UniqueKeys (w.ings.filter (·.valid))
  svcs : ∀ a ∈ w.svcs, ∀ b ∈ w.svcs, a.ns = b.ns → a.name = b.name → a = b
  eps : ∀ a ∈ w.eps, ∀ b ∈ w.eps, a.ns = b.ns → a.name = b.name → a = b
  secs : ∀ a ∈ w.secs, ∀ b ∈ w.secs, a.ns = b.ns → a.name = b.name → a = b

/-- the same cluster state with its object lists in another order -/
structure PermOf (w w' : World) : Prop where
  ings : w.ings.Perm w'.ings
  svcs : w.svcs.Perm w'.svcs
  eps : w.eps.Perm w'.eps
  secs : w.secs.Perm w'.secs
  pods : w.pods = w'.pods
  opts : w.opts = w'.opts

theorem sameLookups_of_perm (p : PermOf w w') (u : UniqueObjs w) : SameLookups w w' where
  svc ns n := by
    unfold World.findSvc
    apply find?_perm p.svcs
    intro a ha b hb h1 h2
    simp only [decide_eq_true_eq] at h1 h2
    exact u.svcs a ha b hb (h1.1.trans h2.1.symm) (h1.2.trans h2.2.symm)
  eps ns n := by
    unfold World.findEps
    apply find?_perm p.eps
    intro a ha b hb h1 h2
    simp only [decide_eq_true_eq] at h1 h2
    exact u.eps a ha b hb (h1.1.trans h2.1.symm) (h1.2.trans h2.2.symm)
  sec a n := by
    apply find?_perm p.secs
    intro x hx y hy h1 h2
    simp only [decide_eq_true_eq] at h1 h2
    exact u.secs x hx y hy (h1.1.trans h2.1.symm) (h1.2.trans h2.2.symm)
  pods := p.pods
  opts := p.opts

/-- **fullSync_perm** -/
theorem fullSync_eq_of_perm (p : PermOf w w') (u : UniqueObjs w) : fullSync w = fullSync w' := by
  have sl := sameLookups_of_perm p u
  unfold fullSync
  rw [sortIngs_perm (p.ings.filter _) u.ings, initCfg_congr sl]
  have e : syncIngress w = syncIngress w' := by funext c i; exact syncIngress_congr sl c i
  rw [e]

theorem effectiveAnn_perm (p : PermOf w w') (u : UniqueObjs w) : effectiveAnn w = effectiveAnn w' := by
  have sl := sameLookups_of_perm p u
  unfold effectiveAnn
  rw [sortIngs_perm (p.ings.filter _) u.ings]
  have e : C03.toHPath w = C03.toHPath w' := by
    funext d; unfold C03.toHPath; rw [resolve_congr sl]
  rw [e]

end HapVerif.C06
