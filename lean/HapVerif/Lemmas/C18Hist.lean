import HapVerif.Lemmas.C18
import HapVerif.Model.C18Hist
/-!
# C18, histories: the invariants of a converter run survive partial syncs

`Inv2` (Lemmas/C18.lean: the bind list is strictly sorted; a backend-path record naming `_auth_<P>`
belongs to a path with an auth-url and port `P` is bound to the backend of that URL; a
`HostPath.AuthExt` record was written from the host level auth-url and — when the clean-up keeps
frontend names — its port is bound to that URL's backend) is shown to be preserved by
`partialSync` whenever the dirty sets are `Closed`, and `ShapeInv` (every live path carries the
record `buildBackendOAuth ∘ buildBackendAuthExternal` leaves on a fresh one) as well.
-/
namespace HapVerif.C18

/-! ## closed dirty sets -/

/-- what `syncPartial` relies on (tracker closure, C01): a live path outside the dirty backends is
the path it was before the change and its auth-url does not name a dirty service backend; a live
path outside the dirty hosts likewise, with the host level values the host had before -/
structure Closed (w w' : World) (d : Dirty) : Prop where
  ext : w'.isExternal = w.isExternal
  lua : w'.hasLua = w.hasLua
  back_keep : ∀ (i : Nat) (p : PathIn), w'.paths[i]? = some p → isDead p = false →
    p.backend ∉ d.backs → w.paths[i]? = some p ∧ ∀ u : Url, p.url = .val u → u.target ∉ d.targets
  host_keep : ∀ (i : Nat) (p : PathIn), w'.paths[i]? = some p → isDead p = false →
    p.host ∉ d.hosts →
    w.paths[i]? = some p ∧ hostPlc w' p.host = hostPlc w p.host ∧
    hostUrl w' p.host = hostUrl w p.host ∧ hostSignin w' p.host = hostSignin w p.host ∧
    ∀ u : Url, hostUrl w' p.host = .val u → u.target ∉ d.targets

/-- the check the driver evaluates on every partial sync of every case is sound -/
theorem closedOk_sound {w w' : World} {d : Dirty} (h : closedOk w w' d = true) : Closed w w' d := by
  unfold closedOk at h
  simp only [Bool.and_eq_true, beq_iff_eq, List.all_eq_true, List.mem_range] at h
  obtain ⟨⟨hext, hlua⟩, hall⟩ := h
  have hat : ∀ (i : Nat) (p : PathIn), w'.paths[i]? = some p → isDead p = false →
      ((d.backs.contains p.backend = true ∨
          (w.paths[i]? = some p ∧
            (match p.url with
             | .val u => (!d.targets.contains u.target) = true
             | _ => True))) ∧
       (d.hosts.contains p.host = true ∨
          (w.paths[i]? = some p ∧ hostPlc w' p.host = hostPlc w p.host ∧
            hostUrl w' p.host = hostUrl w p.host ∧ hostSignin w' p.host = hostSignin w p.host ∧
            (match hostUrl w' p.host with
             | .val u => (!d.targets.contains u.target) = true
             | _ => True)))) := by
    intro i p hp hdead
    have := hall i (getElem?_lt hp)
    unfold closedAt at this
    rw [hp] at this
    simp only [hdead, Bool.false_or, Bool.and_eq_true, Bool.or_eq_true, beq_iff_eq] at this
    obtain ⟨h1, h2⟩ := this
    constructor
    · rcases h1 with h1 | ⟨h1, h1'⟩
      · exact Or.inl h1
      · refine Or.inr ⟨h1, ?_⟩
        cases hu : p.url with
        | val u => rw [hu] at h1'; exact h1'
        | absent => trivial
        | empty => trivial
    · rcases h2 with h2 | ⟨⟨⟨⟨h2, h3⟩, h4⟩, h5⟩, h6⟩
      · exact Or.inl h2
      · refine Or.inr ⟨h2, h3, h4, h5, ?_⟩
        cases hu : hostUrl w' p.host with
        | val u => rw [hu] at h6; exact h6
        | absent => trivial
        | empty => trivial
  refine ⟨hext, hlua, ?_, ?_⟩
  · intro i p hp hdead hnb
    obtain ⟨h1, _⟩ := hat i p hp hdead
    rcases h1 with h1 | ⟨h1, h1'⟩
    · exact absurd (List.contains_iff_mem.mp h1) hnb
    · refine ⟨h1, ?_⟩
      intro u hu
      rw [hu] at h1'
      simp only [Bool.not_eq_true'] at h1'
      intro hm
      rw [List.contains_iff_mem.mpr hm] at h1'
      cases h1'
  · intro i p hp hdead hnh
    obtain ⟨_, h2⟩ := hat i p hp hdead
    rcases h2 with h2 | ⟨h2, h3, h4, h5, h6⟩
    · exact absurd (List.contains_iff_mem.mp h2) hnh
    · refine ⟨h2, h3, h4, h5, ?_⟩
      intro u hu
      rw [hu] at h6
      simp only [Bool.not_eq_true'] at h6
      intro hm
      rw [List.contains_iff_mem.mpr hm] at h6
      cases h6

/-! ## `Inv2` over a partial sync -/

theorem mem_removeByTarget {ts : List Nat} {bs : List Bind} {b : Bind} (hb : b ∈ bs)
    (ht : b.target ∉ ts) : b ∈ removeByTarget ts bs := by
  unfold removeByTarget
  refine List.mem_filter.mpr ⟨hb, ?_⟩
  cases hc : ts.contains b.target with
  | false => rfl
  | true => exact absurd (List.contains_iff_mem.mp hc) ht

theorem resetRecs_brec_keep {w : World} {d : Dirty} {st : St} {i : Nat} {p : PathIn}
    (hp : w.paths[i]? = some p) (hdead : isDead p = false) (hb : p.backend ∉ d.backs) :
    (resetRecs w d st).brec i = st.brec i := by
  simp only [resetRecs]
  rw [hp]
  simp [hdead, hb]

theorem resetRecs_brec_fresh {w : World} {d : Dirty} {st : St} {i : Nat} {p : PathIn}
    (hp : w.paths[i]? = some p) (hb : p.backend ∈ d.backs) :
    (resetRecs w d st).brec i = {} := by
  simp only [resetRecs]
  rw [hp]
  simp [hb]

/-- a record of the state after the reset that is not the fresh one is a record kept from before,
of a live path outside the dirty backends -/
theorem resetRecs_brec_named {w : World} {d : Dirty} {st : St} {i : Nat} {P : Int}
    (hn : ((resetRecs w d st).brec i).name = .proxy P) :
    ∃ p, w.paths[i]? = some p ∧ isDead p = false ∧ p.backend ∉ d.backs ∧
      (st.brec i).name = .proxy P := by
  simp only [resetRecs] at hn
  cases hp : w.paths[i]? with
  | none => rw [hp] at hn; simp at hn
  | some p =>
    rw [hp] at hn
    simp only at hn
    cases hdead : isDead p with
    | true => simp [hdead] at hn
    | false =>
      by_cases hm : p.backend ∈ d.backs
      · simp [hdead, hm] at hn
      · simp [hdead, hm] at hn
        exact ⟨p, rfl, hdead, hm, hn⟩

theorem resetRecs_frec_some {w : World} {d : Dirty} {st : St} {i : Nat} {r : AuthRec}
    (hr : (resetRecs w d st).frec i = some r) :
    ∃ p, w.paths[i]? = some p ∧ isDead p = false ∧ p.host ∉ d.hosts ∧ st.frec i = some r := by
  simp only [resetRecs] at hr
  cases hp : w.paths[i]? with
  | none => rw [hp] at hr; cases hr
  | some p =>
    rw [hp] at hr
    simp only at hr
    cases hdead : isDead p with
    | true => simp [hdead] at hr
    | false =>
      by_cases hm : p.host ∈ d.hosts
      · simp [hdead, hm] at hr
      · simp [hdead, hm] at hr
        exact ⟨p, rfl, hdead, hm, hr⟩

/-- dropping the dirty hosts, backends and the binds of dirty targets keeps both invariants, in
the world after the change -/
theorem resetRecs_inv2 {v : Variant} {w w' : World} {d : Dirty} {st : St}
    (hc : Closed w w' d) (hi : Inv2 v w st) : Inv2 v w' (resetRecs w' d st) := by
  obtain ⟨⟨hs, hrec⟩, hfrec⟩ := hi
  refine ⟨⟨?_, ?_⟩, ?_⟩
  · exact sorted_filter _ hs
  · intro i P hn
    obtain ⟨p, hp, hdead, hnb, hn'⟩ := resetRecs_brec_named hn
    obtain ⟨p0, u, hp0, hu, hb⟩ := hrec i P hn'
    obtain ⟨hkeep, htar⟩ := hc.back_keep i p hp hdead hnb
    rw [hkeep] at hp0
    injection hp0 with hp0
    subst hp0
    exact ⟨p, u, hp, hu, mem_removeByTarget hb (htar u hu)⟩
  · intro i r hr
    obtain ⟨p, hp, hdead, hnh, hr'⟩ := resetRecs_frec_some hr
    obtain ⟨p0, u, hp0, hplc, hu, hshape⟩ := hfrec i r hr'
    obtain ⟨hkeep, hplc', hurl', hsg', htar⟩ := hc.host_keep i p hp hdead hnh
    rw [hkeep] at hp0
    injection hp0 with hp0
    subst hp0
    refine ⟨p, u, hp, by rw [hplc']; exact hplc, by rw [hurl']; exact hu, ?_⟩
    rcases hshape with hd | ⟨P, hok, hres, hb⟩
    · exact Or.inl hd
    · refine Or.inr ⟨P, by rw [hsg']; exact hok, by rw [hc.ext, hc.lua]; exact hres, ?_⟩
      intro hv
      exact mem_removeByTarget (hb hv) (htar u (by rw [hurl']; exact hu))

/-- **one partial sync keeps the invariants**, for every order in which the dirty hosts and
backends are walked, every variant of the builders, every port range -/
theorem partialSync_inv2 {v : Variant} {w w' : World} {d : Dirty} {st : St} (ho bo : List Nat)
    (hc : Closed w w' d) (hi : Inv2 v w st) : Inv2 v w' (partialSync v w' d ho bo st) := by
  unfold partialSync
  exact foldl_inv_mem (I := Inv2 v w') _ _ _ (fun st b _ => backendPhase_inv2 b)
    (foldl_inv_mem (I := Inv2 v w') _ _ _ (fun st h _ => hostPhase_inv2 h) (resetRecs_inv2 hc hi))

/-- every partial sync of the history had closed dirty sets -/
def ChainClosed : World → List Batch → Prop
  | _, [] => True
  | w, b :: r => Closed w b.w b.d ∧ ChainClosed b.w r

theorem foldl_partialSync_inv2 {v : Variant} : ∀ (bs : List Batch) (w : World) (st : St),
    Inv2 v w st → ChainClosed w bs →
    Inv2 v (lastWorld w bs) (bs.foldl (fun st b => partialSync v b.w b.d b.ho b.bo st) st) := by
  intro bs
  induction bs with
  | nil => intro w st hi _; exact hi
  | cons b r ih =>
    intro w st hi hch
    simp only [List.foldl_cons, lastWorld]
    exact ih b.w _ (partialSync_inv2 b.ho b.bo hch.1 hi) hch.2

theorem runHist_inv2 (v : Variant) (w0 : World) (ho0 bo0 : List Nat) (bs : List Batch)
    (hch : ChainClosed w0 bs) : Inv2 v (lastWorld w0 bs) (runHist v w0 ho0 bo0 bs) := by
  unfold runHist
  exact foldl_partialSync_inv2 bs w0 _ (run_inv2 v w0 ho0 bo0) hch

/-! ## the shape of the records -/

theorem postAuth_flags {w w' : World} {p : PathIn} {r : AuthRec}
    (he : w'.isExternal = w.isExternal) (hl : w'.hasLua = w.hasLua) (h : PostAuth w p r) :
    PostAuth w' p r := by
  unfold PostAuth at h ⊢
  rw [he, hl]
  exact h

theorem oauthRec_flags {w w' : World} {p : PathIn} {r : AuthRec}
    (he : w'.isExternal = w.isExternal) (hl : w'.hasLua = w.hasLua) :
    oauthRec true w' p r = oauthRec true w p r := by
  unfold oauthRec
  rw [he, hl]
  rfl

/-- every live path carries what `buildBackendOAuth ∘ buildBackendAuthExternal` leave on a fresh
record (repaired `buildBackendOAuth`) -/
def ShapeInv (w : World) (st : St) : Prop :=
  ∀ (i : Nat) (p : PathIn), w.paths[i]? = some p → isDead p = false →
    ∃ r1, PostAuth w p r1 ∧ st.brec i = oauthRec true w p r1

theorem foldl_hostPhase_brec {v : Variant} {w : World} : ∀ (ho : List Nat) (s : St),
    (ho.foldl (hostPhase v w) s).brec = s.brec := by
  intro ho
  induction ho with
  | nil => intro s; rfl
  | cons h ho ih => intro s; simp only [List.foldl_cons]; rw [ih, hostPhase_brec]

theorem foldl_backendPhase_other {v : Variant} {w : World} {i : Nat} {p : PathIn}
    (hp : w.paths[i]? = some p) : ∀ (bo : List Nat) (s : St), p.backend ∉ bo →
    (bo.foldl (backendPhase v w) s).brec i = s.brec i := by
  intro bo
  induction bo with
  | nil => intro s _; rfl
  | cons b bo ih =>
    intro s hn
    have hb : p.backend ≠ b ∧ p.backend ∉ bo := by simpa [List.mem_cons, not_or] using hn
    simp only [List.foldl_cons]
    rw [ih _ hb.2]
    exact backendPhase_other hp hb.1

/-- the record of a path whose backend is walked exactly once, from a fresh record -/
theorem foldl_backendPhase_own {v : Variant} {w : World} {i : Nat} {p : PathIn}
    (hp : w.paths[i]? = some p) : ∀ (bo : List Nat) (s : St), bo.Nodup → p.backend ∈ bo →
    s.brec i = {} →
    ∃ r1, PostAuth w p r1 ∧ (bo.foldl (backendPhase v w) s).brec i = oauthRec v.oauthOwn w p r1 := by
  intro bo
  induction bo with
  | nil => intro s _ hm; cases hm
  | cons b bo ih =>
    intro s hbo hmem hstart
    have hb : b ∉ bo ∧ bo.Nodup := by simpa [List.nodup_cons] using hbo
    simp only [List.foldl_cons]
    by_cases he : p.backend = b
    · subst he
      obtain ⟨r1, hr1, hfin⟩ := backendPhase_own (v := v) hp hstart
      refine ⟨r1, hr1, ?_⟩
      rw [← hfin]
      exact foldl_backendPhase_other hp bo _ hb.1
    · have hm : p.backend ∈ bo := by
        rcases List.mem_cons.mp hmem with h | h
        · exact absurd h he
        · exact h
      exact ih _ hb.2 hm (by rw [backendPhase_other hp he]; exact hstart)

theorem run_shape {v : Variant} (hv : v.oauthOwn = true) {w : World} {ho bo : List Nat}
    (hbo : bo.Nodup)
    (hcov : ∀ (i : Nat) (p : PathIn), w.paths[i]? = some p → isDead p = false → p.backend ∈ bo) :
    ShapeInv w (run v w ho bo) := by
  intro i p hp hdead
  obtain ⟨r1, h1, h2⟩ := run_brec (v := v) (ho := ho) hp hbo (hcov i p hp hdead)
  rw [hv] at h2
  exact ⟨r1, h1, h2⟩

/-- the order of one partial sync: every dirty backend is walked, once -/
structure OrderOk (b : Batch) : Prop where
  nodup : b.bo.Nodup
  perm : ∀ x, x ∈ b.bo ↔ x ∈ b.d.backs

theorem partialSync_shape {v : Variant} (hv : v.oauthOwn = true) {w w' : World} {d : Dirty}
    {st : St} {ho bo : List Nat} (hc : Closed w w' d) (hn : bo.Nodup)
    (hperm : ∀ x, x ∈ bo ↔ x ∈ d.backs) (hs : ShapeInv w st) :
    ShapeInv w' (partialSync v w' d ho bo st) := by
  intro i p hp hdead
  unfold partialSync
  by_cases hb : p.backend ∈ d.backs
  · have hstart : (ho.foldl (hostPhase v w') (resetRecs w' d st)).brec i = {} := by
      rw [foldl_hostPhase_brec]
      exact resetRecs_brec_fresh hp hb
    obtain ⟨r1, h1, h2⟩ := foldl_backendPhase_own (v := v) hp bo _ hn ((hperm _).mpr hb) hstart
    rw [hv] at h2
    exact ⟨r1, h1, h2⟩
  · have hnb : p.backend ∉ bo := fun h => hb ((hperm _).mp h)
    rw [foldl_backendPhase_other hp bo _ hnb, foldl_hostPhase_brec, resetRecs_brec_keep hp hdead hb]
    obtain ⟨hkeep, _⟩ := hc.back_keep i p hp hdead hb
    obtain ⟨r1, h1, h2⟩ := hs i p hkeep hdead
    exact ⟨r1, postAuth_flags hc.ext hc.lua h1, by rw [h2, oauthRec_flags hc.ext hc.lua]⟩

theorem foldl_partialSync_shape {v : Variant} (hv : v.oauthOwn = true) :
    ∀ (bs : List Batch) (w : World) (st : St), ShapeInv w st → ChainClosed w bs →
    (∀ b ∈ bs, OrderOk b) →
    ShapeInv (lastWorld w bs) (bs.foldl (fun st b => partialSync v b.w b.d b.ho b.bo st) st) := by
  intro bs
  induction bs with
  | nil => intro w st hs _ _; exact hs
  | cons b r ih =>
    intro w st hs hch hok
    simp only [List.foldl_cons, lastWorld]
    have hb := hok b List.mem_cons_self
    exact ih b.w _ (partialSync_shape hv hch.1 hb.nodup hb.perm hs) hch.2
      (fun b' hb' => hok b' (List.mem_cons_of_mem _ hb'))

end HapVerif.C18
