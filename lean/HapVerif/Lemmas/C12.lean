import HapVerif.Model.C12
import HapVerif.Lemmas.C05
/-!
Lemmas for C12: the invariant that holds between the events of every history, whatever the faults
(`JInv`: the stores are consistent in themselves; while no rewrite is owed the files follow the stores
and HAProxy follows the files unless a reload is owed or queued), and what one `HAProxyUpdate` with
any fault makes of it (`upd_outcome`); the same for the layer of the custom response files (`RInv`,
`updR_rinv`), from the control flow of the update alone (`upd_flow`).
-/
namespace HapVerif.C12
open HapVerif.C05

variable {p : Nat}

/-- what the files must hold for the tcp service -/
def TcpGood (t : Tcp) : Prop := (t.want ≠ 0 → t.map = t.want ∧ t.crt = t.want) ∧ t.main = t.want

/-- what holds whatever failed: the in-memory stores are consistent in themselves, a file never
holds a backend of another shard -/
structure SInv (sh : Sh p) (s : Store p) : Prop where
  a : ∀ x c, s.add x = some c → s.items x = some c
  s1 : sh.n ≠ 0 → ∀ k x, s.shards k x = if sh.shardOf x = k then s.items x else none

structure WInv (sh : Sh p) (w : FW p) : Prop where
  s : SInv sh w.g.w.store
  g : ∀ k x, sh.shardOf x ≠ k → w.g.w.disk k x = none
  hbc : ∀ x, w.h.bc x = w.h.bcC x

/-- what holds between events while no rewrite is owed: the files follow the stores (C05), and HAProxy
follows the files unless a reload is owed or queued -/
structure FInv (o : Opt) (sh : Sh p) (w : FW p) : Prop where
  b : Inv sh w.g.w
  h : HInv w.h
  hm : w.g.committed = true → w.h.mapsNil = false
  hbc : ∀ x, w.h.bc x = w.h.bcC x
  mh : w.g.committed = true → w.mainHosts = anyFin fun x => (w.h.maps x).isSome
  t1 : w.tcp.changed = false → w.g.committed = true → TcpGood w.tcp
  t2 : w.g.committed = false → w.tcp.changed = false → w.tcp.want = 0
  bm1 : ∀ x c, w.g.w.store.add x = none → w.g.w.store.items x = some c → o.needACL (conf c) = true →
          w.bm x = some (conf c)
  bm2 : ∀ x d, w.g.w.store.del x = some d → o.needACL (conf d) = true → w.bm x = some (conf d)
  pc1 : ∀ x, w.g.w.store.add x = none → (w.g.w.store.items x).isSome = true → w.pcI x = true ∧ w.pmI x = true
  pc2 : ∀ x, (w.g.w.store.del x).isSome = true → w.pcD x = true ∧ w.pmD x = true
  r : w.reloadOwed = true ∨ w.pending = true ∨ RunGood sh w

/-- the invariant of every history, whatever the faults -/
structure JInv (o : Opt) (sh : Sh p) (w : FW p) : Prop where
  wi : WInv sh w
  q : o.queue = false → w.pending = false
  d : w.rewriteOwed = false → FInv o sh w

theorem winv_init (sh : Sh p) : WInv sh ({} : FW p) := by
  refine ⟨⟨?_, ?_⟩, ?_, ?_⟩
  · intro x c h; simp [emp] at h
  · intro _ k x; simp [emp]
  · intro k x _; rfl
  · intro x; rfl

theorem finv_init (o : Opt) (sh : Sh p) : FInv o sh ({} : FW p) := by
  refine ⟨?_, ?_, ?_, ?_, ?_, ?_, ?_, ?_, ?_, ?_, ?_, ?_⟩
  · refine ⟨?_, ?_, ?_, ?_, ?_, ?_, ?_⟩ <;> intros <;> simp_all [emp]
  · refine ⟨?_, ?_, ?_, ?_⟩ <;> intro h <;> simp at h
  · intro h; cases h
  · intro x; rfl
  · intro h; cases h
  · intro _ h; cases h
  · intro _ _; rfl
  · intro x c _ h; simp [emp] at h
  · intro x d h; simp [emp] at h
  · intro x _ h; simp [emp] at h
  · intro x h; simp [emp] at h
  · right; right
    refine ⟨?_, ?_, ?_, rfl, rfl, rfl⟩
    · intro x c h; simp [load, emp] at h
    · intro x; simp [load]
    · intro x; rfl

theorem jinv_init (o : Opt) (sh : Sh p) : JInv o sh ({} : FW p) :=
  ⟨winv_init sh, fun _ => rfl, fun _ => finv_init o sh⟩

/-! ### events of a batch -/

theorem hacquire_maps (s : HStore p) (x : Fin p) (c : Nat) :
    (s.acquire x c).maps = s.maps ∧ (s.acquire x c).mapsNil = s.mapsNil ∧
    (s.acquire x c).bc = s.bc ∧ (s.acquire x c).bcC = s.bcC := by
  unfold HStore.acquire; cases s.items x <;> exact ⟨rfl, rfl, rfl, rfl⟩

theorem hremoveOne_maps (s : HStore p) (x : Fin p) :
    (s.removeOne x).maps = s.maps ∧ (s.removeOne x).mapsNil = s.mapsNil ∧
    (s.removeOne x).bc = s.bc ∧ (s.removeOne x).bcC = s.bcC := by
  unfold HStore.removeOne; cases s.items x <;> exact ⟨rfl, rfl, rfl, rfl⟩

theorem hremoveAll_maps (xs : List (Fin p)) : ∀ s : HStore p,
    (s.removeAll xs).maps = s.maps ∧ (s.removeAll xs).mapsNil = s.mapsNil ∧
    (s.removeAll xs).bc = s.bc ∧ (s.removeAll xs).bcC = s.bcC := by
  induction xs with
  | nil => intro s; exact ⟨rfl, rfl, rfl, rfl⟩
  | cons x xs ih =>
    intro s
    have h1 := hremoveOne_maps s x
    have h2 := ih (s.removeOne x)
    simp only [HStore.removeAll, List.foldl_cons] at h2 ⊢
    exact ⟨h2.1.trans h1.1, h2.2.1.trans h1.2.1, h2.2.2.1.trans h1.2.2.1, h2.2.2.2.trans h1.2.2.2⟩

/-- `RunGood` only looks at the files and at what HAProxy holds -/
theorem runGood_congr {sh : Sh p} {w w' : FW p} (hd : w'.g.w.disk = w.g.w.disk) (hmh : w'.mainHosts = w.mainHosts)
    (hmaps : w'.h.maps = w.h.maps) (hbm : w'.bm = w.bm) (ht1 : w'.tcp.map = w.tcp.map)
    (ht2 : w'.tcp.crt = w.tcp.crt) (ht3 : w'.tcp.main = w.tcp.main) (hr : w'.run = w.run)
    (h : RunGood sh w) : RunGood sh w' := by
  obtain ⟨h1, h2, h3, h4, h5, h6⟩ := h
  refine ⟨?_, ?_, ?_, ?_, ?_, ?_⟩
  · intro x c hx; simp only [load, hd] at hx; rw [hr]; exact h1 x c hx
  · intro x; simp only [load, hmh, hmaps, hr]; exact h2 x
  · intro x; simp only [load, hbm, hr]; exact h3 x
  · rw [hr, ht1]; exact h4
  · rw [hr, ht2]; exact h5
  · rw [hr, ht3]; exact h6

theorem removeAll_items_of_not_mem (sh : Sh p) (xs : List (Fin p)) : ∀ (s : Store p) (y : Fin p), y ∉ xs →
    (removeAll sh s xs).items y = s.items y ∧ (removeAll sh s xs).del y = s.del y := by
  induction xs with
  | nil => intro s y _; exact ⟨rfl, rfl⟩
  | cons x xs ih =>
    intro s y hy
    have hyx : y ≠ x := fun h => hy (h ▸ List.mem_cons_self)
    have hyxs : y ∉ xs := fun h => hy (List.mem_cons_of_mem _ h)
    have := ih (removeOne sh s x) y hyxs
    simp only [removeAll, List.foldl_cons] at this ⊢
    rw [this.1, this.2]
    unfold removeOne
    cases s.items x <;> simp [flag, setM, hyx]

theorem removeAll_add (sh : Sh p) (xs : List (Fin p)) : ∀ s : Store p, (removeAll sh s xs).add = s.add := by
  induction xs with
  | nil => intro s; rfl
  | cons x xs ih =>
    intro s
    have := ih (removeOne sh s x)
    simp only [removeAll, List.foldl_cons] at this ⊢
    rw [this, removeOne_add]

/-- after `RemoveAll xs` a removed name has no item and its deleted object is the one it had (or the one
already deleted before); a name that had no item keeps its deleted object -/
theorem removeAll_mem (sh : Sh p) (xs : List (Fin p)) : ∀ (s : Store p) (y : Fin p), y ∈ xs →
    (removeAll sh s xs).items y = none ∧
    (removeAll sh s xs).del y = (match s.items y with | some v => some v | none => s.del y) := by
  induction xs with
  | nil => intro s y hy; cases hy
  | cons x xs ih =>
    intro s y hy
    simp only [removeAll, List.foldl_cons]
    by_cases hyx : y = x
    · subst hyx
      by_cases hmem : y ∈ xs
      · have := ih (removeOne sh s y) y hmem
        simp only [removeAll] at this
        rw [this.1, this.2]
        refine ⟨rfl, ?_⟩
        unfold removeOne
        cases hi : s.items y <;> simp [flag, setM, hi]
      · have := removeAll_items_of_not_mem sh xs (removeOne sh s y) y hmem
        simp only [removeAll] at this
        rw [this.1, this.2]
        unfold removeOne
        cases hi : s.items y <;> simp [flag, setM, hi]
    · have hmem : y ∈ xs := by
        rcases List.mem_cons.1 hy with h | h
        · exact absurd h hyx
        · exact h
      have := ih (removeOne sh s x) y hmem
      simp only [removeAll] at this
      rw [this.1, this.2]
      refine ⟨rfl, ?_⟩
      unfold removeOne
      cases s.items x <;> simp [flag, setM, hyx]

theorem step_inv_batch {o : Opt} {sh : Sh p} (wf : sh.WF) {w : FW p} (hi : FInv o sh w) (e : Ev p)
    (hok : okEv w e = true) (hne : ∀ f, e ≠ .upd f) (hnq : ∀ f, e ≠ .qrun f) : FInv o sh (step o sh w e) := by
  obtain ⟨hb, hh, hhm, hbc, hmh, ht1, ht2, hbm1, hbm2, hpc1, hpc2, hr⟩ := hi
  cases e with
  | upd f => exact absurd rfl (hne f)
  | qrun f => exact absurd rfl (hnq f)
  | acq x c =>
    have hb' := acquire_inv hb x c
    refine ⟨hb', hh, hhm, hbc, hmh, ht1, ht2, ?_, ?_, ?_, ?_, ?_⟩
    · intro y d hy1 hy2 hy3
      simp only [step, setStore] at hy1 hy2 ⊢
      unfold acquire at hy1 hy2
      cases hix : w.g.w.store.items x with
      | some v => simp only [hix] at hy1 hy2; exact hbm1 y d hy1 hy2 hy3
      | none =>
        simp only [hix, flag, setM] at hy1 hy2
        by_cases hyx : y = x
        · simp [hyx] at hy1
        · simp only [hyx, if_false] at hy1 hy2; exact hbm1 y d hy1 hy2 hy3
    · intro y d hy1 hy2
      simp only [step, setStore] at hy1 ⊢
      unfold acquire at hy1
      cases hix : w.g.w.store.items x with
      | some v => simp only [hix] at hy1; exact hbm2 y d hy1 hy2
      | none => simp only [hix, flag] at hy1; exact hbm2 y d hy1 hy2
    · intro y hy1 hy2
      simp only [step, setStore] at hy1 hy2 ⊢
      unfold acquire at hy1 hy2
      cases hix : w.g.w.store.items x with
      | some v =>
        simp only [hix] at hy1 hy2
        have : ¬ (y = x ∧ (some v : Option Content) = none) := by simp
        simp only [this, if_false]; exact hpc1 y hy1 hy2
      | none =>
        simp only [hix, flag, setM] at hy1 hy2
        by_cases hyx : y = x
        · simp [hyx] at hy1
        · simp only [hyx, if_false] at hy1 hy2
          simp only [hyx, false_and, if_false]; exact hpc1 y hy1 hy2
    · intro y hy
      simp only [step, setStore] at hy ⊢
      unfold acquire at hy
      cases hix : w.g.w.store.items x with
      | some v => simp only [hix] at hy; exact hpc2 y hy
      | none => simp only [hix, flag] at hy; exact hpc2 y hy
    · rcases hr with hr | hr | hr
      · exact Or.inl hr
      · exact Or.inr (Or.inl hr)
      · exact Or.inr (Or.inr (runGood_congr (w := w) rfl rfl rfl rfl rfl rfl rfl rfl hr))
  | rem xs =>
    have hadd : ∀ x ∈ xs, w.g.w.store.add x = none := by
      intro x hx
      simp only [okEv, List.all_eq_true] at hok
      simpa using hok x hx
    have hb' := removeAll_inv xs hb hadd
    refine ⟨hb', hh, hhm, hbc, hmh, ht1, ht2, ?_, ?_, ?_, ?_, ?_⟩
    · intro y d hy1 hy2 hy3
      simp only [step, setStore] at hy1 hy2 ⊢
      rw [removeAll_add] at hy1
      by_cases hmem : y ∈ xs
      · rw [(removeAll_mem sh xs _ y hmem).1] at hy2; cases hy2
      · rw [(removeAll_items_of_not_mem sh xs _ y hmem).1] at hy2; exact hbm1 y d hy1 hy2 hy3
    · intro y d hy1 hy2
      simp only [step, setStore] at hy1 ⊢
      by_cases hmem : y ∈ xs
      · rw [(removeAll_mem sh xs _ y hmem).2] at hy1
        cases hiy : w.g.w.store.items y with
        | some v =>
          simp only [hiy, Option.some.injEq] at hy1
          subst hy1
          exact hbm1 y v (hadd y hmem) hiy hy2
        | none => simp only [hiy] at hy1; exact hbm2 y d hy1 hy2
      · rw [(removeAll_items_of_not_mem sh xs _ y hmem).2] at hy1; exact hbm2 y d hy1 hy2
    · intro y hy1 hy2
      simp only [step, setStore] at hy1 hy2 ⊢
      rw [removeAll_add] at hy1
      by_cases hmem : y ∈ xs
      · rw [(removeAll_mem sh xs _ y hmem).1] at hy2; cases hy2
      · rw [(removeAll_items_of_not_mem sh xs _ y hmem).1] at hy2; exact hpc1 y hy1 hy2
    · intro y hy
      simp only [step, setStore] at hy ⊢
      by_cases hmem : y ∈ xs
      · cases hiy : w.g.w.store.items y with
        | some v =>
          have hc : xs.contains y = true := by simpa using hmem
          simp only [hc, hiy, Option.isSome_some, and_self, if_true]
          exact hpc1 y (hadd y hmem) (by simp [hiy])
        | none =>
          rw [(removeAll_mem sh xs _ y hmem).2] at hy
          simp only [hiy] at hy
          simp only [hiy, Option.isSome_none, Bool.false_eq_true, and_false, if_false]
          exact hpc2 y hy
      · rw [(removeAll_items_of_not_mem sh xs _ y hmem).2] at hy
        have hc : ¬ (xs.contains y = true) := by simpa using hmem
        simp only [hc, false_and, if_false]
        exact hpc2 y hy
    · rcases hr with hr | hr | hr
      · exact Or.inl hr
      · exact Or.inr (Or.inl hr)
      · exact Or.inr (Or.inr (runGood_congr (w := w) rfl rfl rfl rfl rfl rfl rfl rfl hr))
  | hacq x c =>
    have hm := hacquire_maps w.h x c
    refine ⟨hb, hacquire_inv hh x c, ?_, ?_, ?_, ht1, ht2, hbm1, hbm2, hpc1, hpc2, ?_⟩
    · intro hc; simp only [step]; rw [hm.2.1]; exact hhm hc
    · intro y; simp only [step]; rw [hm.2.2.1, hm.2.2.2]; exact hbc y
    · intro hc; simp only [step]; rw [hm.1]; exact hmh hc
    · rcases hr with hr | hr | hr
      · exact Or.inl hr
      · exact Or.inr (Or.inl hr)
      · exact Or.inr (Or.inr (runGood_congr (w := w) rfl rfl hm.1 rfl rfl rfl rfl rfl hr))
  | hrem xs =>
    have hm := hremoveAll_maps xs w.h
    have hadd : ∀ x ∈ xs, w.h.add x = none := by
      intro x hx
      simp only [okEv, List.all_eq_true] at hok
      simpa using hok x hx
    refine ⟨hb, hremoveAll_inv xs hh hadd, ?_, ?_, ?_, ht1, ht2, hbm1, hbm2, hpc1, hpc2, ?_⟩
    · intro hc; simp only [step]; rw [hm.2.1]; exact hhm hc
    · intro y; simp only [step]; rw [hm.2.2.1, hm.2.2.2]; exact hbc y
    · intro hc; simp only [step]; rw [hm.1]; exact hmh hc
    · rcases hr with hr | hr | hr
      · exact Or.inl hr
      · exact Or.inr (Or.inl hr)
      · exact Or.inr (Or.inr (runGood_congr (w := w) rfl rfl hm.1 rfl rfl rfl rfl rfl hr))
  | tcp v =>
    refine ⟨hb, hh, hhm, hbc, hmh, ?_, ?_, hbm1, hbm2, hpc1, hpc2, ?_⟩
    · intro hc; simp [step] at hc
    · intro _ hc; simp [step] at hc
    · rcases hr with hr | hr | hr
      · exact Or.inl hr
      · exact Or.inr (Or.inl hr)
      · exact Or.inr (Or.inr (runGood_congr (w := w) rfl rfl rfl rfl rfl rfl rfl rfl hr))
  | full =>
    have hclean : ∀ x, w.g.w.store.add x = none ∧ w.g.w.store.del x = none := by
      intro x
      simp only [okEv, backChanged, Bool.not_eq_true'] at hok
      have := (anyFin_false_iff _).1 hok x
      cases ha : w.g.w.store.add x <;> cases hd : w.g.w.store.del x <;> simp_all
    have hb' := clear_inv wf hb hclean
    refine ⟨hb', hclear_inv w.h, ?_, ?_, ?_, ?_, ?_, ?_, ?_, ?_, ?_, ?_⟩
    · intro hc; simp [step] at hc
    · intro y; exact hbc y
    · intro hc; simp [step] at hc
    · intro _ hc; simp [step] at hc
    · intro _ _; rfl
    · intro y d _ hy; simp [step, clear, emp] at hy
    · intro y d hy1 hy2
      simp only [step, clear] at hy1 ⊢
      exact hbm1 y d (hclean y).1 hy1 hy2
    · intro y _ hy; simp [step, clear, emp] at hy
    · intro y hy
      simp only [step, clear] at hy ⊢
      exact hpc1 y (hclean y).1 hy
    · rcases hr with hr | hr | hr
      · exact Or.inl hr
      · exact Or.inr (Or.inl hr)
      · exact Or.inr (Or.inr (runGood_congr (w := w) rfl rfl rfl rfl rfl rfl rfl rfl hr))


/-! ### the store invariant that survives everything -/

theorem sinv_of_inv {sh : Sh p} {w : World p} (h : Inv sh w) : SInv sh w.store := ⟨h.a, h.s1⟩

theorem sinv_acquire {sh : Sh p} {s : Store p} (h : SInv sh s) (x : Fin p) (c : Content) : SInv sh (acquire sh s x c) := by
  unfold acquire
  cases hi : s.items x with
  | some v => exact h
  | none =>
    obtain ⟨ha, hs1⟩ := h
    refine ⟨?_, ?_⟩
    · intro y d hy
      simp only [flag, setM] at hy ⊢
      by_cases hyx : y = x
      · simp only [hyx, if_true] at hy ⊢; exact hy
      · simp only [hyx, if_false] at hy ⊢; exact ha y d hy
    · intro hn k y
      have := hs1 hn k y
      simp only [flag, setShard, setM]
      by_cases hyx : y = x
      · subst hyx
        by_cases hk : k = sh.shardOf y
        · simp [hn, hk]
        · have hk' : ¬ sh.shardOf y = k := fun h => hk h.symm
          simp only [hk, false_and, and_false, if_false, hk', if_true]
          rw [this]; simp [hk']
      · simp only [hyx, and_false, if_false]; exact this

theorem sinv_removeOne {sh : Sh p} {s : Store p} (h : SInv sh s) (x : Fin p) (hx : s.add x = none) :
    SInv sh (removeOne sh s x) := by
  unfold removeOne
  cases hi : s.items x with
  | none => exact h
  | some v =>
    obtain ⟨ha, hs1⟩ := h
    refine ⟨?_, ?_⟩
    · intro y d hy
      simp only [flag, setM] at hy ⊢
      by_cases hyx : y = x
      · subst hyx; rw [hx] at hy; cases hy
      · simp only [hyx, if_false]; exact ha y d hy
    · intro hn k y
      have := hs1 hn k y
      simp only [flag, setShard, setM]
      by_cases hyx : y = x
      · subst hyx
        by_cases hk : k = sh.shardOf y
        · simp [hn, hk]
        · have hk' : ¬ sh.shardOf y = k := fun h => hk h.symm
          simp only [hk, false_and, and_false, if_false, hk', if_true]
          rw [this]; simp [hk']
      · simp only [hyx, and_false, if_false]; exact this

theorem sinv_removeAll {sh : Sh p} (xs : List (Fin p)) : ∀ {s : Store p}, SInv sh s →
    (∀ x ∈ xs, s.add x = none) → SInv sh (removeAll sh s xs) := by
  induction xs with
  | nil => intro s h _; exact h
  | cons x xs ih =>
    intro s h hx
    have h1 := sinv_removeOne h x (hx x List.mem_cons_self)
    have := ih h1 (by
      intro y hy
      rw [removeOne_add]; exact hx y (List.mem_cons_of_mem _ hy))
    simpa [removeAll] using this

theorem sinv_clear (sh : Sh p) (s : Store p) : SInv sh (clear sh s) :=
  ⟨fun x c h => by simp [clear, emp] at h, fun _ k x => by simp [clear, emp]⟩

theorem sinv_shrink {sh : Sh p} {s : Store p} (h : SInv sh s) : SInv sh (shrink sh s) := by
  obtain ⟨ha, hs1⟩ := h
  refine ⟨?_, ?_⟩
  · intro x c hx
    simp only [shrink] at hx ⊢
    by_cases hm : matched s x = true
    · simp [hm] at hx
    · simp only [hm, Bool.false_eq_true, if_false] at hx ⊢; exact ha x c hx
  · intro hn k x
    have := hs1 hn k x
    simp only [shrink]
    by_cases hm : matched s x = true
    · by_cases hk : k = sh.shardOf x
      · simp [hn, hm, hk]
      · have hk' : ¬ sh.shardOf x = k := fun h => hk h.symm
        simp only [hm, hk, and_false, if_false, hk']
        rw [this]; simp [hk']
    · simp only [hm, Bool.false_eq_true, false_and, and_false, if_false]; exact this

theorem sinv_allShards {sh : Sh p} {s : Store p} (h : SInv sh s) : SInv sh (allShards sh s) := ⟨h.a, h.s1⟩

theorem sinv_commit {sh : Sh p} {s : Store p} (h : SInv sh s) : SInv sh (commit s) :=
  ⟨fun x c hx => by simp [commit, emp] at hx, h.s1⟩

/-- batch events keep the weak invariant -/
theorem winv_step_batch {o : Opt} {sh : Sh p} {w : FW p} (hi : WInv sh w) (e : Ev p)
    (hok : okEv w e = true) (hne : ∀ f, e ≠ .upd f) (hnq : ∀ f, e ≠ .qrun f) : WInv sh (step o sh w e) := by
  obtain ⟨hs, hg, hbc⟩ := hi
  cases e with
  | upd f => exact absurd rfl (hne f)
  | qrun f => exact absurd rfl (hnq f)
  | acq x c => exact ⟨sinv_acquire hs x c, hg, hbc⟩
  | rem xs =>
    refine ⟨sinv_removeAll xs hs ?_, hg, hbc⟩
    intro x hx
    simp only [okEv, List.all_eq_true] at hok
    simpa using hok x hx
  | hacq x c =>
    have hm := hacquire_maps w.h x c
    refine ⟨hs, hg, ?_⟩
    intro y; simp only [step]; rw [hm.2.2.1, hm.2.2.2]; exact hbc y
  | hrem xs =>
    have hm := hremoveAll_maps xs w.h
    refine ⟨hs, hg, ?_⟩
    intro y; simp only [step]; rw [hm.2.2.1, hm.2.2.2]; exact hbc y
  | tcp v => exact ⟨hs, hg, hbc⟩
  | full => exact ⟨sinv_clear sh _, hg, hbc⟩

theorem jinv_step_batch {o : Opt} {sh : Sh p} (wf : sh.WF) {w : FW p} (hi : JInv o sh w) (e : Ev p)
    (hok : okEv w e = true) (hne : ∀ f, e ≠ .upd f) (hnq : ∀ f, e ≠ .qrun f) : JInv o sh (step o sh w e) := by
  have hro : (step o sh w e).rewriteOwed = w.rewriteOwed ∧ (step o sh w e).pending = w.pending := by
    cases e with
    | upd f => exact absurd rfl (hne f)
    | qrun f => exact absurd rfl (hnq f)
    | _ => exact ⟨rfl, rfl⟩
  refine ⟨winv_step_batch hi.wi e hok hne hnq, ?_, ?_⟩
  · intro hq; rw [hro.2]; exact hi.q hq
  · intro hr; rw [hro.1] at hr; exact step_inv_batch wf (hi.d hr) e hok hne hnq

/-! ### stages 1 to 5 of `HAProxyUpdate` -/

/-- files and flags after stage 4 when no write fails -/
def w4Of (o : Opt) (sh : Sh p) (rw : Bool) (w : FW p) : FW p :=
  crtStage (bmStage o rw (s0Of sh rw w) (flagStage rw (s0Of sh rw w)
    { tcpStage rw (w0Of w) with h := hWrite (hs0Of rw w) }))

/-- when no write of stages 1 to 4 fails, whatever the fault -/
theorem pre_ok {o : Opt} {sh : Sh p} {w : FW p} {f : Fault} {m : Mid p} (h : pre o sh f w = .ok m) :
    m = dynStage sh f.bad (o.repaired && w.rewriteOwed) (w0Of w) (s0Of sh (o.repaired && w.rewriteOwed) w)
      (hs0Of (o.repaired && w.rewriteOwed) w) (hWrite (hs0Of (o.repaired && w.rewriteOwed) w))
      (w4Of o sh (o.repaired && w.rewriteOwed) w) := by
  unfold pre at h
  split at h
  · cases h
  unfold pre2 at h
  split at h
  · cases h
  unfold pre3 at h
  split at h
  · cases h
  unfold pre4 at h
  split at h
  · cases h
  cases h
  rfl

/-- stages 1 to 4 are not stopped by a fault that is not a write fault of theirs -/
theorem pre_isOk_of_late {o : Opt} {sh : Sh p} {w : FW p} {f : Fault}
    (h1 : (f == .tcpMaps) = false) (h2 : (f == .frontMaps) = false) (h3 : (f == .backMaps) = false)
    (h4 : (f == .crtLists) = false) : ∃ m, pre o sh f w = .ok m := by
  unfold pre pre2 pre3 pre4
  simp only [h1, h2, h3, h4, Bool.and_false, Bool.false_eq_true, if_false]
  exact ⟨_, rfl⟩

section stages
variable (o : Opt) (sh : Sh p) (rw : Bool) (s0 : Store p) (w : FW p)

@[simp] theorem tcpStage_g : (tcpStage rw w).g = w.g := by unfold tcpStage; split <;> rfl
@[simp] theorem tcpStage_h : (tcpStage rw w).h = w.h := by unfold tcpStage; split <;> rfl
@[simp] theorem tcpStage_run : (tcpStage rw w).run = w.run := by unfold tcpStage; split <;> rfl
@[simp] theorem tcpStage_pending : (tcpStage rw w).pending = w.pending := by unfold tcpStage; split <;> rfl
@[simp] theorem tcpStage_reloadOwed : (tcpStage rw w).reloadOwed = w.reloadOwed := by unfold tcpStage; split <;> rfl
@[simp] theorem tcpStage_rewriteOwed : (tcpStage rw w).rewriteOwed = w.rewriteOwed := by unfold tcpStage; split <;> rfl
@[simp] theorem tcpStage_mainHosts : (tcpStage rw w).mainHosts = w.mainHosts := by unfold tcpStage; split <;> rfl
@[simp] theorem tcpStage_bm : (tcpStage rw w).bm = w.bm := by unfold tcpStage; split <;> rfl
@[simp] theorem tcpStage_pcI : (tcpStage rw w).pcI = w.pcI := by unfold tcpStage; split <;> rfl
@[simp] theorem tcpStage_pmI : (tcpStage rw w).pmI = w.pmI := by unfold tcpStage; split <;> rfl
@[simp] theorem tcpStage_pcD : (tcpStage rw w).pcD = w.pcD := by unfold tcpStage; split <;> rfl
@[simp] theorem tcpStage_pmD : (tcpStage rw w).pmD = w.pmD := by unfold tcpStage; split <;> rfl
@[simp] theorem tcpStage_tcp_want : (tcpStage rw w).tcp.want = w.tcp.want := by unfold tcpStage; split <;> rfl
@[simp] theorem tcpStage_tcp_changed : (tcpStage rw w).tcp.changed = w.tcp.changed := by unfold tcpStage; split <;> rfl
@[simp] theorem tcpStage_tcp_main : (tcpStage rw w).tcp.main = w.tcp.main := by unfold tcpStage; split <;> rfl
@[simp] theorem tcpStage_tcp_crt : (tcpStage rw w).tcp.crt = w.tcp.crt := by unfold tcpStage; split <;> rfl
@[simp] theorem flagStage_g : (flagStage rw s0 w).g = w.g := by unfold flagStage; split <;> rfl
@[simp] theorem flagStage_h : (flagStage rw s0 w).h = w.h := by unfold flagStage; split <;> rfl
@[simp] theorem flagStage_run : (flagStage rw s0 w).run = w.run := by unfold flagStage; split <;> rfl
@[simp] theorem flagStage_pending : (flagStage rw s0 w).pending = w.pending := by unfold flagStage; split <;> rfl
@[simp] theorem flagStage_reloadOwed : (flagStage rw s0 w).reloadOwed = w.reloadOwed := by unfold flagStage; split <;> rfl
@[simp] theorem flagStage_rewriteOwed : (flagStage rw s0 w).rewriteOwed = w.rewriteOwed := by unfold flagStage; split <;> rfl
@[simp] theorem flagStage_mainHosts : (flagStage rw s0 w).mainHosts = w.mainHosts := by unfold flagStage; split <;> rfl
@[simp] theorem flagStage_bm : (flagStage rw s0 w).bm = w.bm := by unfold flagStage; split <;> rfl
@[simp] theorem flagStage_pcD : (flagStage rw s0 w).pcD = w.pcD := by unfold flagStage; split <;> rfl
@[simp] theorem flagStage_pmD : (flagStage rw s0 w).pmD = w.pmD := by unfold flagStage; split <;> rfl
@[simp] theorem flagStage_tcp_want : (flagStage rw s0 w).tcp.want = w.tcp.want := by unfold flagStage; split <;> rfl
@[simp] theorem flagStage_tcp_changed : (flagStage rw s0 w).tcp.changed = w.tcp.changed := by unfold flagStage; split <;> rfl
@[simp] theorem flagStage_tcp_main : (flagStage rw s0 w).tcp.main = w.tcp.main := by unfold flagStage; split <;> rfl
@[simp] theorem flagStage_tcp_map : (flagStage rw s0 w).tcp.map = w.tcp.map := by unfold flagStage; split <;> rfl
@[simp] theorem flagStage_tcp_crt : (flagStage rw s0 w).tcp.crt = w.tcp.crt := by unfold flagStage; split <;> rfl
@[simp] theorem bmStage_g : (bmStage o rw s0 w).g = w.g := by unfold bmStage; split <;> rfl
@[simp] theorem bmStage_h : (bmStage o rw s0 w).h = w.h := by unfold bmStage; split <;> rfl
@[simp] theorem bmStage_run : (bmStage o rw s0 w).run = w.run := by unfold bmStage; split <;> rfl
@[simp] theorem bmStage_pending : (bmStage o rw s0 w).pending = w.pending := by unfold bmStage; split <;> rfl
@[simp] theorem bmStage_reloadOwed : (bmStage o rw s0 w).reloadOwed = w.reloadOwed := by unfold bmStage; split <;> rfl
@[simp] theorem bmStage_rewriteOwed : (bmStage o rw s0 w).rewriteOwed = w.rewriteOwed := by unfold bmStage; split <;> rfl
@[simp] theorem bmStage_mainHosts : (bmStage o rw s0 w).mainHosts = w.mainHosts := by unfold bmStage; split <;> rfl
@[simp] theorem bmStage_pcI : (bmStage o rw s0 w).pcI = w.pcI := by unfold bmStage; split <;> rfl
@[simp] theorem bmStage_pmI : (bmStage o rw s0 w).pmI = w.pmI := by unfold bmStage; split <;> rfl
@[simp] theorem bmStage_pcD : (bmStage o rw s0 w).pcD = w.pcD := by unfold bmStage; split <;> rfl
@[simp] theorem bmStage_pmD : (bmStage o rw s0 w).pmD = w.pmD := by unfold bmStage; split <;> rfl
@[simp] theorem bmStage_tcp_want : (bmStage o rw s0 w).tcp.want = w.tcp.want := by unfold bmStage; split <;> rfl
@[simp] theorem bmStage_tcp_changed : (bmStage o rw s0 w).tcp.changed = w.tcp.changed := by unfold bmStage; split <;> rfl
@[simp] theorem bmStage_tcp_main : (bmStage o rw s0 w).tcp.main = w.tcp.main := by unfold bmStage; split <;> rfl
@[simp] theorem bmStage_tcp_map : (bmStage o rw s0 w).tcp.map = w.tcp.map := by unfold bmStage; split <;> rfl
@[simp] theorem bmStage_tcp_crt : (bmStage o rw s0 w).tcp.crt = w.tcp.crt := by unfold bmStage; split <;> rfl
@[simp] theorem crtStage_g : (crtStage  w).g = w.g := by unfold crtStage; split <;> rfl
@[simp] theorem crtStage_h : (crtStage  w).h = w.h := by unfold crtStage; split <;> rfl
@[simp] theorem crtStage_run : (crtStage  w).run = w.run := by unfold crtStage; split <;> rfl
@[simp] theorem crtStage_pending : (crtStage  w).pending = w.pending := by unfold crtStage; split <;> rfl
@[simp] theorem crtStage_reloadOwed : (crtStage  w).reloadOwed = w.reloadOwed := by unfold crtStage; split <;> rfl
@[simp] theorem crtStage_rewriteOwed : (crtStage  w).rewriteOwed = w.rewriteOwed := by unfold crtStage; split <;> rfl
@[simp] theorem crtStage_mainHosts : (crtStage  w).mainHosts = w.mainHosts := by unfold crtStage; split <;> rfl
@[simp] theorem crtStage_bm : (crtStage  w).bm = w.bm := by unfold crtStage; split <;> rfl
@[simp] theorem crtStage_pcI : (crtStage  w).pcI = w.pcI := by unfold crtStage; split <;> rfl
@[simp] theorem crtStage_pmI : (crtStage  w).pmI = w.pmI := by unfold crtStage; split <;> rfl
@[simp] theorem crtStage_pcD : (crtStage  w).pcD = w.pcD := by unfold crtStage; split <;> rfl
@[simp] theorem crtStage_pmD : (crtStage  w).pmD = w.pmD := by unfold crtStage; split <;> rfl
@[simp] theorem crtStage_tcp_want : (crtStage  w).tcp.want = w.tcp.want := by unfold crtStage; split <;> rfl
@[simp] theorem crtStage_tcp_changed : (crtStage  w).tcp.changed = w.tcp.changed := by unfold crtStage; split <;> rfl
@[simp] theorem crtStage_tcp_main : (crtStage  w).tcp.main = w.tcp.main := by unfold crtStage; split <;> rfl
@[simp] theorem crtStage_tcp_map : (crtStage  w).tcp.map = w.tcp.map := by unfold crtStage; split <;> rfl

@[simp] theorem tcpStage_tcp_map : (tcpStage rw w).tcp.map = if tcpWrites rw w then w.tcp.want else w.tcp.map := by
  unfold tcpStage; split <;> simp_all
@[simp] theorem crtStage_tcp_crt : (crtStage w).tcp.crt = if w.tcp.want != 0 then w.tcp.want else w.tcp.crt := by
  unfold crtStage; split <;> simp_all
@[simp] theorem flagStage_pcI (x : Fin p) : (flagStage rw s0 w).pcI x =
    (((backChanged s0 || rw) && (visOf rw s0 x).isSome) || w.pcI x) := by
  unfold flagStage mapFlags
  by_cases h : (backChanged s0 || rw) = true
  · simp [h]
  · have h' : (backChanged s0 || rw) = false := by simpa using h
    simp [h']
@[simp] theorem flagStage_pmI (x : Fin p) : (flagStage rw s0 w).pmI x =
    (((backChanged s0 || rw) && (visOf rw s0 x).isSome) || w.pmI x) := by
  unfold flagStage mapFlags
  by_cases h : (backChanged s0 || rw) = true
  · simp [h]
  · have h' : (backChanged s0 || rw) = false := by simpa using h
    simp [h']
@[simp] theorem bmStage_bm (x : Fin p) : (bmStage o rw s0 w).bm x =
    if backChanged s0 || rw then
      (match visOf rw s0 x with
        | some c => if o.needACL (conf c) then some (conf c) else w.bm x
        | none => w.bm x)
    else w.bm x := by
  unfold bmStage bmWrite
  by_cases h : (backChanged s0 || rw) = true
  · simp only [h, if_true]; cases visOf rw s0 x <;> rfl
  · have h' : (backChanged s0 || rw) = false := by simpa using h
    simp [h']

end stages

section w4
variable (o : Opt) (sh : Sh p) (rw : Bool) (w : FW p)

theorem w4Of_g : (w4Of o sh rw w).g = w.g := by simp [w4Of, w0Of, shrinkFlags]
theorem w4Of_h : (w4Of o sh rw w).h = hWrite (hs0Of rw w) := by simp [w4Of]
theorem w4Of_run : (w4Of o sh rw w).run = w.run := by simp [w4Of, w0Of, shrinkFlags]
theorem w4Of_pending : (w4Of o sh rw w).pending = w.pending := by simp [w4Of, w0Of, shrinkFlags]
theorem w4Of_reloadOwed : (w4Of o sh rw w).reloadOwed = w.reloadOwed := by simp [w4Of, w0Of, shrinkFlags]
theorem w4Of_rewriteOwed : (w4Of o sh rw w).rewriteOwed = true := by simp [w4Of, w0Of]
theorem w4Of_mainHosts : (w4Of o sh rw w).mainHosts = w.mainHosts := by simp [w4Of, w0Of, shrinkFlags]
theorem w4Of_tcp_want : (w4Of o sh rw w).tcp.want = w.tcp.want := by simp [w4Of, w0Of, shrinkFlags]
theorem w4Of_tcp_changed : (w4Of o sh rw w).tcp.changed = w.tcp.changed := by simp [w4Of, w0Of, shrinkFlags]
theorem w4Of_tcp_main : (w4Of o sh rw w).tcp.main = w.tcp.main := by simp [w4Of, w0Of, shrinkFlags]
theorem w4Of_tcp_map : (w4Of o sh rw w).tcp.map = if tcpWrites rw w then w.tcp.want else w.tcp.map := by
  simp [w4Of, w0Of, shrinkFlags, tcpWrites]
theorem w4Of_tcp_crt : (w4Of o sh rw w).tcp.crt = if w.tcp.want != 0 then w.tcp.want else w.tcp.crt := by
  simp [w4Of, w0Of, shrinkFlags]
theorem w4Of_bm (x : Fin p) : (w4Of o sh rw w).bm x =
    if backChanged (s0Of sh rw w) || rw then
      (match visOf rw (s0Of sh rw w) x with
        | some c => if o.needACL (conf c) then some (conf c) else w.bm x
        | none => w.bm x)
    else w.bm x := by
  simp [w4Of, w0Of, shrinkFlags]
theorem w4Of_pmI (x : Fin p) : (w4Of o sh rw w).pmI x =
    (((backChanged (s0Of sh rw w) || rw) && (visOf rw (s0Of sh rw w) x).isSome) ||
      (if matched w.g.w.store x then w.pmD x else w.pmI x)) := by
  simp [w4Of, w0Of, shrinkFlags]
theorem w4Of_pcI (x : Fin p) : (w4Of o sh rw w).pcI x =
    (((backChanged (s0Of sh rw w) || rw) && (visOf rw (s0Of sh rw w) x).isSome) ||
      (if matched w.g.w.store x then w.pcD x else w.pcI x)) := by
  simp [w4Of, w0Of, shrinkFlags]

end w4

/-! ### the dynamic update -/

theorem pair?_eq_some {s : Store p} {x : Fin p} {d a : Content} :
    pair? s x = some (d, a) ↔ s.del x = some d ∧ s.add x = some a ∧ a.slots ≤ d.slots := by
  unfold pair?
  cases hd : s.del x with
  | none => simp
  | some d' =>
    cases ha : s.add x with
    | none => simp
    | some a' =>
      by_cases hle : a'.slots ≤ d'.slots
      · simp only [hle, if_true, Option.some.injEq, Prod.mk.injEq]
        constructor
        · rintro ⟨rfl, rfl⟩; exact ⟨rfl, rfl, hle⟩
        · rintro ⟨rfl, rfl, _⟩; exact ⟨rfl, rfl⟩
      · simp only [hle, if_false, Option.some.injEq]
        constructor
        · intro h; cases h
        · rintro ⟨rfl, rfl, h⟩; exact absurd h hle

theorem pair?_none_of_add_none {s : Store p} {x : Fin p} (h : s.add x = none) : pair? s x = none := by
  unfold pair?; cases s.del x <;> simp [h]

theorem dynStore_items (sh : Sh p) (s : Store p) (x : Fin p) :
    (dynStore sh s).items x = match pair? s x with
      | some da => some { cfg := da.2.cfg, slots := da.1.slots }
      | none => s.items x := by
  unfold dynStore; simp only []; cases hp : pair? s x <;> simp

theorem dynStore_add (sh : Sh p) (s : Store p) (x : Fin p) :
    (dynStore sh s).add x = match pair? s x with
      | some da => some { cfg := da.2.cfg, slots := da.1.slots }
      | none => s.add x := by
  unfold dynStore; simp only []; cases hp : pair? s x <;> simp

theorem dynStore_del (sh : Sh p) (s : Store p) : (dynStore sh s).del = s.del := rfl
theorem dynStore_changed (sh : Sh p) (s : Store p) : (dynStore sh s).changed = s.changed := rfl

theorem dynStore_add_isSome (sh : Sh p) (s : Store p) (x : Fin p) :
    ((dynStore sh s).add x).isSome = (s.add x).isSome := by
  rw [dynStore_add]
  cases hp : pair? s x with
  | none => rfl
  | some da =>
    obtain ⟨d, a⟩ := da
    have := (pair?_eq_some.1 hp).2.1
    simp [this]

/-- the dynamic update keeps the C05 invariant: the added object of a pair is replaced, in `items`,
`itemsAdd` and its shard, by one that differs in the number of empty slots only -/
theorem dynStore_inv {sh : Sh p} {s : Store p} {d : Disk p} (h : Inv sh { store := s, disk := d }) :
    Inv sh { store := dynStore sh s, disk := d } := by
  obtain ⟨ha, hb, hb2, hc, he, hs1, hg⟩ := h
  refine ⟨?_, ?_, ?_, ?_, ?_, ?_, ?_⟩
  · intro x c hx
    simp only [dynStore_add, dynStore_items] at hx ⊢
    cases hp : pair? s x with
    | none => simp only [hp] at hx ⊢; exact ha x c hx
    | some da => simp only [hp] at hx ⊢; exact hx
  · intro x hx hd
    simp only [dynStore_add, dynStore_items] at hx ⊢
    cases hp : pair? s x with
    | none => simp only [hp] at hx ⊢; exact hb x hx hd
    | some da => simp [hp] at hx
  · intro x hx hd
    simp only [dynStore_add, dynStore_items] at hx ⊢
    cases hp : pair? s x with
    | none => simp only [hp] at hx ⊢; exact hb2 x hx hd
    | some da => simp [hp] at hx
  · exact hc
  · intro hn x hx
    have : ((dynStore sh s).add x).isSome = (s.add x).isSome := dynStore_add_isSome sh s x
    simp only [] at hx
    rw [this] at hx
    exact he hn x hx
  · intro hn k x
    simp only [dynStore_items]
    show (dynStore sh s).shards k x = _
    unfold dynStore
    simp only []
    cases hp : pair? s x with
    | none => simp only [Option.map_none]; exact hs1 hn k x
    | some da =>
      simp only [Option.map_some]
      by_cases hk : sh.shardOf x = k
      · simp [hk, hn]
      · have hk' : ¬ (k = sh.shardOf x) := fun h => hk h.symm
        simp only [hn, ne_eq, not_false_eq_true, hk', and_false, if_false, hk]
        have := hs1 hn k x
        simp only [hk, if_false] at this
        exact this
  · exact hg

/-- a name has an item after the dynamic update iff it had one before -/
theorem dynStore_items_isSome {sh : Sh p} {s : Store p} (h : SInv sh s)
    (x : Fin p) : ((dynStore sh s).items x).isSome = (s.items x).isSome := by
  rw [dynStore_items]
  cases hp : pair? s x with
  | none => rfl
  | some da =>
    obtain ⟨d', a⟩ := da
    have : s.items x = some a := h.a x a (pair?_eq_some.1 hp).2.1
    simp [this]

/-- and its `conf` is the same -/
theorem dynStore_items_conf {sh : Sh p} {s : Store p} (h : SInv sh s)
    {x : Fin p} {c : Content} (hx : (dynStore sh s).items x = some c) :
    ∃ c0, s.items x = some c0 ∧ conf c0 = conf c := by
  rw [dynStore_items] at hx
  cases hp : pair? s x with
  | none => rw [hp] at hx; exact ⟨c, hx, rfl⟩
  | some da =>
    obtain ⟨d', a⟩ := da
    rw [hp] at hx
    simp only [Option.some.injEq] at hx
    subst hx
    exact ⟨a, h.a x a (pair?_eq_some.1 hp).2.1, rfl⟩

theorem sinv_dynStore {sh : Sh p} {s : Store p} (h : SInv sh s) : SInv sh (dynStore sh s) := by
  obtain ⟨ha, hs1⟩ := h
  refine ⟨?_, ?_⟩
  · intro x c hx
    simp only [dynStore_add, dynStore_items] at hx ⊢
    cases hp : pair? s x with
    | none => simp only [hp] at hx ⊢; exact ha x c hx
    | some da => simp only [hp] at hx ⊢; exact hx
  · intro hn k x
    simp only [dynStore_items]
    show (dynStore sh s).shards k x = _
    unfold dynStore
    simp only []
    cases hp : pair? s x with
    | none => simp only [Option.map_none]; exact hs1 hn k x
    | some da =>
      simp only [Option.map_some]
      by_cases hk : sh.shardOf x = k
      · simp [hk, hn]
      · have hk' : ¬ (k = sh.shardOf x) := fun h => hk h.symm
        simp only [hn, ne_eq, not_false_eq_true, hk', and_false, if_false, hk]
        have := hs1 hn k x
        simp only [hk, if_false] at this
        exact this

theorem anyRange_false {f : Nat → Bool} {lo : Nat} : ∀ {n : Nat}, anyRange f lo n = false →
    ∀ i, i < n → f (lo + i) = false := by
  intro n
  induction n with
  | zero => intro _ i hi; omega
  | succ n ih =>
    intro h i hi
    simp only [anyRange, Bool.or_eq_false_iff] at h
    by_cases hin : i = n
    · subst hin; exact h.1
    · exact ih h.2 i (by omega)


/-! ### the state after the deferred `Commit()` -/

theorem updateWith_eq (s : HStore p) : s.updateWith true = hCommit (hWrite s.shrink) := by
  unfold HStore.updateWith hCommit hWrite hSkip
  simp only [Bool.true_and]

theorem want_isSome (s : HStore p) (x : Fin p) : (s.want x).isSome = (s.items x).isSome := by
  unfold HStore.want; cases s.items x <;> rfl

theorem commitAll_spec {o : Opt} {sh : Sh p} {X : FW p} {s : Store p} {hs : HStore p}
    (hs1 : sh.n ≠ 0 → ∀ k x, s.shards k x = if sh.shardOf x = k then s.items x else none)
    (hgood : ∀ k x, X.g.w.disk k x = itemsIn sh s k x)
    (hXh : X.h.maps = hs.maps)
    (hH : HInv (hCommit hs)) (hmaps : ∀ x, hs.maps x = (hCommit hs).want x) (hnil : hs.mapsNil = false)
    (hmh : X.mainHosts = anyFin fun x => (hs.maps x).isSome)
    (htcp : TcpGood X.tcp)
    (hbm : ∀ x c, s.items x = some c → o.needACL (conf c) = true → X.bm x = some (conf c))
    (hpc : ∀ x, (s.items x).isSome = true → X.pcI x = true ∧ X.pmI x = true)
    (hr : X.reloadOwed = true ∨ X.pending = true ∨ RunGood sh X) :
    FInv o sh (commitAll X s hs) ∧ DiskGood o sh (commitAll X s hs) := by
  have hrun : (commitAll X s hs).reloadOwed = true ∨ (commitAll X s hs).pending = true ∨
      RunGood sh (commitAll X s hs) := by
    rcases hr with hr | hr | hr
    · exact Or.inl hr
    · exact Or.inr (Or.inl hr)
    · exact Or.inr (Or.inr (runGood_congr (w := X) rfl rfl hXh.symm rfl rfl rfl rfl rfl hr))
  have hmh' : (commitAll X s hs).mainHosts = hasHosts (commitAll X s hs).h := by
    show X.mainHosts = hasHosts (hCommit hs)
    rw [hmh]
    unfold hasHosts
    congr 1
    funext x
    rw [hmaps x, want_isSome]
  refine ⟨⟨?_, hH, fun _ => hnil, fun _ => rfl, fun _ => hmh, fun _ _ => htcp, ?_, ?_, ?_, ?_, ?_, hrun⟩,
    ⟨hgood, hmaps, hmh', htcp.1, htcp.2, hbm⟩⟩
  · refine ⟨?_, ?_, ?_, ?_, ?_, ?_, ?_⟩
    · intro x c hx; simp [commitAll, commit, emp] at hx
    · intro x _ _
      have := hgood (sh.shardOf x) x
      simp only [itemsIn, if_true] at this
      exact this.symm
    · intro x _ hx; simp [commitAll, commit, emp] at hx
    · intro x d hx; simp [commitAll, commit, emp] at hx
    · intro _ x hx; simp [commitAll, commit, emp] at hx
    · intro hn k x; exact hs1 hn k x
    · intro k x hk
      have := hgood k x
      simp only [itemsIn, hk, if_false] at this
      exact this
  · intro h; cases h
  · intro x c _ hx hn; exact hbm x c hx hn
  · intro x d hx; simp [commitAll, commit, emp] at hx
  · intro x _ hx; exact hpc x hx
  · intro x hx; simp [commitAll, commit, emp] at hx


/-- whatever was written: after the deferred `Commit()` the stores are consistent in themselves -/
theorem winv_commitAll {sh : Sh p} {X : FW p} {s : Store p} {hs : HStore p} (hsi : SInv sh s)
    (hg : ∀ k x, sh.shardOf x ≠ k → X.g.w.disk k x = none) : WInv sh (commitAll X s hs) :=
  ⟨sinv_commit hsi, hg, fun _ => rfl⟩

theorem writeCfg_g {sh : Sh p} {s : Store p} {d : Disk p} (hsi : SInv sh s) (wf : sh.WF)
    (hg : ∀ k x, sh.shardOf x ≠ k → d k x = none) (lim : Option Nat) :
    ∀ k x, sh.shardOf x ≠ k → writeCfg sh s d lim k x = none := by
  intro k x hk
  unfold writeCfg
  by_cases hn : sh.n = 0
  · simp only [hn, if_true]
    have hwf := wf x
    simp only [hn, if_true] at hwf
    by_cases hk0 : k = 0
    · exact absurd (hk0 ▸ hwf) hk
    · simp only [hk0, if_false]; exact hg k x hk
  · simp only [hn, if_false]
    have hsk : s.shards k x = none := by rw [hsi.s1 hn k x]; simp [hk]
    cases lim with
    | none =>
      simp only []
      split
      · exact hsk
      · exact hg k x hk
    | some f =>
      simp only []
      split
      · exact hsk
      · exact hg k x hk


/-! ### stages 6 to 8 -/

theorem writeCfg_none (sh : Sh p) (s : Store p) (d : Disk p) : writeCfg sh s d none = write sh s d := by
  unfold writeCfg write
  split
  · rfl
  · funext k; simp

/-- what is known about the running HAProxy in terms of the in-memory model (used when no reload follows) -/
def RunMatches (s : Store p) (X : FW p) : Prop :=
  (∀ x c, s.items x = some c → X.run.back x = some c) ∧
  (∀ x, X.run.maps x = if X.mainHosts then X.h.maps x else none) ∧
  (∀ x, X.run.bm x = X.bm x) ∧
  X.run.tcpMap = X.tcp.map ∧ X.run.tcpCrt = X.tcp.crt ∧ X.run.tcpMain = X.tcp.main

theorem runGood_load {sh : Sh p} {X : FW p} (h : X.run = load sh X) : RunGood sh X := by
  refine ⟨?_, ?_, ?_, ?_, ?_, ?_⟩
  · intro x c hx; rw [h]; exact hx
  · intro x; rw [h]
  · intro x; rw [h]
  · rw [h]; rfl
  · rw [h]; rfl
  · rw [h]; rfl

theorem runGood_of_matches {sh : Sh p} {X : FW p} {s : Store p}
    (hgood : ∀ k x, X.g.w.disk k x = itemsIn sh s k x) (h : RunMatches s X) : RunGood sh X := by
  obtain ⟨h1, h2, h3, h4, h5, h6⟩ := h
  refine ⟨?_, h2, h3, h4, h5, h6⟩
  intro x c hx
  simp only [load] at hx
  rw [hgood] at hx
  simp only [itemsIn, if_true] at hx
  exact h1 x c hx

/-- every shard flagged: the write renders every file from the stores, whatever the files held -/
theorem forced_write_good {sh : Sh p} (wf : sh.WF) {s : Store p} {d : Disk p} (hsi : SInv sh s)
    (hall : ∀ k, k < sh.n → s.changed k = true) (hg : ∀ k x, sh.shardOf x ≠ k → d k x = none) :
    ∀ k x, write sh s d k x = itemsIn sh s k x := by
  intro k x
  have hwf := wf x
  unfold write itemsIn
  by_cases hn : sh.n = 0
  · simp only [hn, if_true] at hwf ⊢
    by_cases hk : k = 0
    · simp [hk, hwf]
    · have : sh.shardOf x ≠ k := by omega
      simp only [hk, if_false, this]; exact hg k x this
  · simp only [hn, if_false] at hwf ⊢
    by_cases hch : s.changed k = true
    · simp only [hch, if_true]; exact hsi.s1 hn k x
    · have hkn : ¬ k < sh.n := fun h => hch (hall k h)
      have hk : sh.shardOf x ≠ k := by omega
      simp only [hch, Bool.false_eq_true, if_false, hk]
      exact hg k x hk

theorem shardLim_isWrite {o : Opt} {sh : Sh p} {f : Fault} {s : Store p} {pm : Fin p → Bool}
    (hbad : ∀ x, badX o s pm x = false) (h : (shardLim o sh f s pm).isSome = true) : f.isWrite = true := by
  unfold shardLim at h
  split at h
  · cases h
  · rw [List.find?_isSome] at h
    obtain ⟨k, _, hk⟩ := h
    have h2 : (anyFin fun x => decide (sh.shardOf x = k) && badX o s pm x) = false := by
      rw [anyFin_false_iff]; intro x; simp [hbad x]
    simp only [h2, Bool.or_false, Bool.and_eq_true] at hk
    cases f <;> simp_all [Fault.isShard, Fault.isWrite]

/-- outcome of stages 6 to 8, whatever the fault: either the update stops at a file it cannot write
(error, a rewrite stays owed, the stores stay consistent), or it gets past writeConfig: the files hold
the model, nothing is owed but possibly the reload -/
theorem post_spec {o : Opt} {sh : Sh p} (wf : sh.WF) (f : Fault) {m : Mid p}
    (hsi : SInv sh m.s) (hg : ∀ k x, sh.shardOf x ≠ k → m.w.g.w.disk k x = none)
    (hro : m.w.rewriteOwed = true)
    (hW : (!m.updated || decide (0 < m.sends) || m.bchg) = true →
      ∀ k x, write sh m.s m.w.g.w.disk k x = itemsIn sh m.s k x)
    (hbad : ∀ x, badX o m.s m.w.pmI x = false)
    (hXh : m.w.h.maps = m.hs.maps)
    (hH : HInv (hCommit m.hs)) (hmaps : ∀ x, m.hs.maps x = (hCommit m.hs).want x) (hnil : m.hs.mapsNil = false)
    (htcp : m.w.tcp.want ≠ 0 → m.w.tcp.map = m.w.tcp.want ∧ m.w.tcp.crt = m.w.tcp.want)
    (hbm : ∀ x c, m.s.items x = some c → o.needACL (conf c) = true → m.w.bm x = some (conf c))
    (hpc : ∀ x, (m.s.items x).isSome = true → m.w.pcI x = true ∧ m.w.pmI x = true)
    (hq : o.queue = false → m.w.pending = false)
    (hskip : m.updated = true → m.sends = 0 → m.bchg = false → ∀ k x, m.w.g.w.disk k x = itemsIn sh m.s k x)
    (hupd : m.updated = true → m.w.tcp.main = m.w.tcp.want ∧
        m.w.mainHosts = (anyFin fun x => (m.hs.maps x).isSome) ∧
        (m.w.reloadOwed = true ∨ m.w.pending = true ∨ RunMatches m.s m.w)) :
    (f.isWrite = true ∧ (post o sh f m).err = true ∧ (post o sh f m).w.rewriteOwed = true ∧
      WInv sh (post o sh f m).w ∧ (o.queue = false → (post o sh f m).w.pending = false)) ∨
    ((post o sh f m).w.rewriteOwed = false ∧ FInv o sh (post o sh f m).w ∧ DiskGood o sh (post o sh f m).w ∧
      (o.queue = false → (post o sh f m).w.pending = false) ∧
      (f.isReload = false → (post o sh f m).err = false ∧
        (o.repaired = true → o.queue = false → RunGood sh (post o sh f m).w ∧ (post o sh f m).w.reloadOwed = false)) ∧
      (o.repaired = true → (f.isReload = false ∨ o.queue = true) →
        (post o sh f m).w.pending = true ∨ (post o sh f m).w.reloadOwed = false)) := by
  have hmb : (decide (sh.n = 0) && anyFin (badX o m.s m.w.pmI)) = false := by
    have : anyFin (badX o m.s m.w.pmI) = false := by rw [anyFin_false_iff]; exact hbad
    simp [this]
  unfold post
  simp only [hmb, Bool.or_false]
  by_cases hc1 : ((!m.updated || decide (0 < m.sends) || m.bchg) && (f == .mainCfg)) = true
  · -- haproxy.cfg cannot be written
    rw [if_pos hc1]
    have hfw : f.isWrite = true := by
      simp only [Bool.and_eq_true, beq_iff_eq] at hc1
      rw [hc1.2]; rfl
    exact Or.inl ⟨hfw, by first | rfl | trivial, hro, winv_commitAll hsi hg, hq⟩
  rw [if_neg hc1]
  by_cases hc2 : ((!m.updated || decide (0 < m.sends) || m.bchg) && (shardLim o sh f m.s m.w.pmI).isSome) = true
  · -- a shard file cannot be written: the ones before it were
    rw [if_pos hc2]
    have hdw : (!m.updated || decide (0 < m.sends) || m.bchg) = true := by
      simp only [Bool.and_eq_true] at hc2; exact hc2.1
    rw [if_pos hdw]
    have hfw : f.isWrite = true := by
      simp only [hdw, Bool.true_and] at hc2
      exact shardLim_isWrite hbad hc2
    refine Or.inl ⟨hfw, by first | rfl | trivial, hro, winv_commitAll hsi ?_, hq⟩
    exact writeCfg_g hsi wf hg _
  rw [if_neg hc2]
  right
  -- the files after stage 6
  by_cases hdw : (!m.updated || decide (0 < m.sends) || m.bchg) = true
  · have hlim : shardLim o sh f m.s m.w.pmI = none := by
      simp only [hdw, Bool.true_and] at hc2
      cases h : shardLim o sh f m.s m.w.pmI with
      | none => rfl
      | some k => rw [h] at hc2; simp at hc2
    simp only [hdw, if_true, hlim, writeCfg_none]
    have hgood := hW hdw
    have hpcI : ∀ x, (m.s.items x).isSome = true → (rendered sh m.s none x || m.w.pcI x) = true ∧ m.w.pmI x = true := by
      intro x hx; have := hpc x hx; simp [this.1, this.2]
    by_cases hu : (m.updated && !(o.repaired && m.w.reloadOwed)) = true
    · -- no reload: every change was applied at run time
      have hmu : m.updated = true := by simp only [Bool.and_eq_true] at hu; exact hu.1
      simp only [hu, if_true]
      obtain ⟨hmain, hmhs, hrun⟩ := hupd hmu
      have key := commitAll_spec (o := o) (sh := sh) (s := m.s) (hs := m.hs)
        (X := { setDisk m.w (write sh m.s m.w.g.w.disk) with
                tcp := { m.w.tcp with main := m.w.tcp.want }
                mainHosts := anyFin fun x => (m.hs.maps x).isSome
                pcI := fun x => rendered sh m.s none x || m.w.pcI x
                rewriteOwed := false })
        hsi.s1 hgood hXh hH hmaps hnil rfl ⟨htcp, rfl⟩ hbm hpcI ?_
      · have hnro : o.repaired = true → m.w.reloadOwed = false := by
          intro hrep
          simp only [Bool.and_eq_true, Bool.not_eq_true', hrep, Bool.true_and] at hu; exact hu.2
        refine ⟨by first | rfl | trivial, key.1, key.2, hq, ?_, fun hrep _ => Or.inr (hnro hrep)⟩
        intro _
        refine ⟨by first | rfl | trivial, ?_⟩
        intro hrep hqf
        have hnro := hnro hrep
        rcases key.1.r with h | h | h
        · have h' : m.w.reloadOwed = true := h
          rw [hnro] at h'; cases h'
        · have h' : m.w.pending = true := h
          rw [hq hqf] at h'; cases h'
        · exact ⟨h, hnro⟩
      · rcases hrun with hp | hp | hrm
        · exact Or.inl hp
        · exact Or.inr (Or.inl hp)
        · refine Or.inr (Or.inr (runGood_of_matches (s := m.s) hgood ?_))
          obtain ⟨h1, h2, h3, h4, h5, h6⟩ := hrm
          refine ⟨h1, ?_, h3, h4, h5, ?_⟩
          · intro x
            show m.w.run.maps x = if (anyFin fun x => (m.hs.maps x).isSome) = true then m.w.h.maps x else none
            rw [h2 x, hmhs]
          · show m.w.run.tcpMain = m.w.tcp.want
            rw [h6, hmain]
    · simp only [hu, Bool.false_eq_true, if_false]
      by_cases hqq : o.queue = true
      · -- the reload is left to the queue worker
        simp only [hqq, if_true]
        have key := commitAll_spec (o := o) (sh := sh) (s := m.s) (hs := m.hs)
          (X := { setDisk m.w (write sh m.s m.w.g.w.disk) with
                  tcp := { m.w.tcp with main := m.w.tcp.want }
                  mainHosts := anyFin fun x => (m.hs.maps x).isSome
                  pcI := fun x => rendered sh m.s none x || m.w.pcI x
                  rewriteOwed := false, pending := true })
          hsi.s1 hgood hXh hH hmaps hnil rfl ⟨htcp, rfl⟩ hbm hpcI (Or.inr (Or.inl rfl))
        refine ⟨by first | rfl | trivial, key.1, key.2, ?_, ?_, fun _ _ => Or.inl rfl⟩
        · intro hq0; cases hq0
        · intro _
          refine ⟨by first | rfl | trivial, ?_⟩
          intro _ hq0; cases hq0
      · -- direct reload
        simp only [hqq, Bool.false_eq_true, if_false]
        have hqf : o.queue = false := by cases h : o.queue <;> simp_all
        cases hrl : f.isReload with
        | true =>
          simp only [reload, hrl, if_true]
          have key := commitAll_spec (o := o) (sh := sh) (s := m.s) (hs := m.hs)
            (X := { setDisk m.w (write sh m.s m.w.g.w.disk) with
                    tcp := { m.w.tcp with main := m.w.tcp.want }
                    mainHosts := anyFin fun x => (m.hs.maps x).isSome
                    pcI := fun x => rendered sh m.s none x || m.w.pcI x
                    rewriteOwed := false, reloadOwed := true })
            hsi.s1 hgood hXh hH hmaps hnil rfl ⟨htcp, rfl⟩ hbm hpcI (Or.inl rfl)
          exact ⟨by first | rfl | trivial, key.1, key.2, fun _ => hq hqf, (fun h => by cases h),
            (fun _ h => Or.elim h (fun h => by cases h) (fun h => by first | cases h | (rw [hqf] at h; cases h)))⟩
        | false =>
          simp only [reload, hrl, Bool.false_eq_true, if_false]
          have key := commitAll_spec (o := o) (sh := sh) (s := m.s) (hs := m.hs)
            (X := { setDisk m.w (write sh m.s m.w.g.w.disk) with
                    tcp := { m.w.tcp with main := m.w.tcp.want }
                    mainHosts := anyFin fun x => (m.hs.maps x).isSome
                    pcI := fun x => rendered sh m.s none x || m.w.pcI x
                    rewriteOwed := false
                    run := load sh { setDisk m.w (write sh m.s m.w.g.w.disk) with
                      tcp := { m.w.tcp with main := m.w.tcp.want }
                      mainHosts := anyFin fun x => (m.hs.maps x).isSome }
                    reloadOwed := false })
            hsi.s1 hgood hXh hH hmaps hnil rfl ⟨htcp, rfl⟩ hbm hpcI (Or.inr (Or.inr (runGood_load rfl)))
          refine ⟨by first | rfl | trivial, key.1, key.2, fun _ => hq hqf, fun _ => ⟨by first | rfl | trivial, fun _ _ => ⟨?_, by first | rfl | trivial⟩⟩,
            fun _ _ => Or.inr rfl⟩
          rcases key.1.r with h | h | h
          · cases h
          · have h' : m.w.pending = true := h
            rw [hq hqf] at h'; cases h'
          · exact h
  · -- writeConfig was skipped
    have hmu : m.updated = true := by cases h : m.updated <;> simp_all
    have hs0 : m.sends = 0 := by cases h : m.updated <;> simp_all
    have hb0 : m.bchg = false := by cases h : m.bchg <;> simp_all
    simp only [hdw, Bool.false_eq_true, if_false]
    obtain ⟨hmain, hmhs, hrun⟩ := hupd hmu
    have hgood := hskip hmu hs0 hb0
    by_cases hu : (m.updated && !(o.repaired && m.w.reloadOwed)) = true
    · simp only [hu, if_true]
      have key := commitAll_spec (o := o) (sh := sh) (s := m.s) (hs := m.hs)
        (X := { m.w with rewriteOwed := false })
        hsi.s1 hgood hXh hH hmaps hnil hmhs ⟨htcp, hmain⟩ hbm hpc ?_
      · have hnro : o.repaired = true → m.w.reloadOwed = false := by
          intro hrep
          simp only [Bool.and_eq_true, Bool.not_eq_true', hrep, Bool.true_and] at hu; exact hu.2
        refine ⟨by first | rfl | trivial, key.1, key.2, hq, ?_, fun hrep _ => Or.inr (hnro hrep)⟩
        intro _
        refine ⟨by first | rfl | trivial, ?_⟩
        intro hrep hqf
        have hnro := hnro hrep
        rcases key.1.r with h | h | h
        · have h' : m.w.reloadOwed = true := h
          rw [hnro] at h'; cases h'
        · have h' : m.w.pending = true := h
          rw [hq hqf] at h'; cases h'
        · exact ⟨h, hnro⟩
      · rcases hrun with hp | hp | hrm
        · exact Or.inl hp
        · exact Or.inr (Or.inl hp)
        · exact Or.inr (Or.inr (runGood_of_matches (X := { m.w with rewriteOwed := false }) hgood hrm))
    · -- nothing changed, but the last reload failed: reload again
      simp only [hu, Bool.false_eq_true, if_false]
      by_cases hqq : o.queue = true
      · simp only [hqq, if_true]
        have key := commitAll_spec (o := o) (sh := sh) (s := m.s) (hs := m.hs)
          (X := { m.w with rewriteOwed := false, pending := true })
          hsi.s1 hgood hXh hH hmaps hnil hmhs ⟨htcp, hmain⟩ hbm hpc (Or.inr (Or.inl rfl))
        refine ⟨by first | rfl | trivial, key.1, key.2, ?_, ?_, fun _ _ => Or.inl rfl⟩
        · intro hq0; cases hq0
        · intro _
          refine ⟨by first | rfl | trivial, ?_⟩
          intro _ hq0; cases hq0
      · simp only [hqq, Bool.false_eq_true, if_false]
        have hqf : o.queue = false := by cases h : o.queue <;> simp_all
        cases hrl : f.isReload with
        | true =>
          simp only [reload, hrl, if_true]
          have key := commitAll_spec (o := o) (sh := sh) (s := m.s) (hs := m.hs)
            (X := { m.w with rewriteOwed := false, reloadOwed := true })
            hsi.s1 hgood hXh hH hmaps hnil hmhs ⟨htcp, hmain⟩ hbm hpc (Or.inl rfl)
          exact ⟨by first | rfl | trivial, key.1, key.2, fun _ => hq hqf, (fun h => by cases h),
            (fun _ h => Or.elim h (fun h => by cases h) (fun h => by first | cases h | (rw [hqf] at h; cases h)))⟩
        | false =>
          simp only [reload, hrl, Bool.false_eq_true, if_false]
          have key := commitAll_spec (o := o) (sh := sh) (s := m.s) (hs := m.hs)
            (X := { m.w with rewriteOwed := false, run := load sh m.w, reloadOwed := false })
            hsi.s1 hgood hXh hH hmaps hnil hmhs ⟨htcp, hmain⟩ hbm hpc (Or.inr (Or.inr (runGood_load rfl)))
          refine ⟨by first | rfl | trivial, key.1, key.2, fun _ => hq hqf, fun _ => ⟨by first | rfl | trivial, fun _ _ => ⟨?_, by first | rfl | trivial⟩⟩,
            fun _ _ => Or.inr rfl⟩
          rcases key.1.r with h | h | h
          · cases h
          · have h' : m.w.pending = true := h
            rw [hq hqf] at h'; cases h'
          · exact h

/-! ### `HAProxyUpdate` from the invariant, whatever the fault -/

theorem sinv_s0Of {sh : Sh p} {w : FW p} (h : SInv sh w.g.w.store) (rw : Bool) : SInv sh (s0Of sh rw w) := by
  unfold s0Of
  cases rw
  · exact sinv_shrink h
  · exact sinv_allShards (sinv_shrink h)

@[simp] theorem w0Of_g (w : FW p) : (w0Of w).g = w.g := rfl
@[simp] theorem w0Of_pending (w : FW p) : (w0Of w).pending = w.pending := rfl
@[simp] theorem w0Of_rewriteOwed (w : FW p) : (w0Of w).rewriteOwed = true := rfl

/-- an update that stops in stages 1 to 4: error, a rewrite stays owed, the stores stay consistent -/
theorem pre_err {o : Opt} {sh : Sh p} {w : FW p} {f : Fault} {r : Res p} (hw : WInv sh w)
    (h : pre o sh f w = .error r) :
    f.isWrite = true ∧ r.err = true ∧ r.w.rewriteOwed = true ∧ WInv sh r.w ∧ r.w.pending = w.pending := by
  have hs0 := sinv_s0Of hw.s (o.repaired && w.rewriteOwed)
  have hwr : ∀ {b : Bool} {g : Fault}, g.isWrite = true → (b && f == g) = true → f.isWrite = true := by
    intro b g hg hb
    simp only [Bool.and_eq_true, beq_iff_eq] at hb
    rw [hb.2]; exact hg
  unfold pre at h
  split at h
  · rename_i hc
    cases h
    exact ⟨hwr rfl hc, rfl, rfl, winv_commitAll hs0 hw.g, rfl⟩
  unfold pre2 at h
  split at h
  · rename_i hc
    cases h
    refine ⟨hwr rfl hc, rfl, ?_, winv_commitAll hs0 ?_, ?_⟩
    · show (tcpStage _ (w0Of w)).rewriteOwed = true
      simp
    · show ∀ k x, sh.shardOf x ≠ k → (tcpStage _ (w0Of w)).g.w.disk k x = none
      simp only [tcpStage_g, w0Of_g]; exact hw.g
    · show (tcpStage _ (w0Of w)).pending = w.pending
      simp
  unfold pre3 at h
  split at h
  · rename_i hc
    cases h
    refine ⟨hwr rfl hc, rfl, ?_, winv_commitAll hs0 ?_, ?_⟩
    · show (flagStage _ _ { tcpStage _ (w0Of w) with h := _ }).rewriteOwed = true
      simp
    · show ∀ k x, sh.shardOf x ≠ k → (flagStage _ _ { tcpStage _ (w0Of w) with h := _ }).g.w.disk k x = none
      simp only [flagStage_g, tcpStage_g, w0Of_g]; exact hw.g
    · show (flagStage _ _ { tcpStage _ (w0Of w) with h := _ }).pending = w.pending
      simp
  unfold pre4 at h
  split at h
  · rename_i hc
    cases h
    refine ⟨hwr rfl hc, rfl, ?_, winv_commitAll hs0 ?_, ?_⟩
    · show (bmStage _ _ _ (flagStage _ _ { tcpStage _ (w0Of w) with h := _ })).rewriteOwed = true
      simp
    · show ∀ k x, sh.shardOf x ≠ k →
        (bmStage _ _ _ (flagStage _ _ { tcpStage _ (w0Of w) with h := _ })).g.w.disk k x = none
      simp only [bmStage_g, flagStage_g, tcpStage_g, w0Of_g]; exact hw.g
    · show (bmStage _ _ _ (flagStage _ _ { tcpStage _ (w0Of w) with h := _ })).pending = w.pending
      simp
  cases h

theorem shrink_items (sh : Sh p) (s : Store p) (x : Fin p) :
    (shrink sh s).items x = if matched s x then s.del x else s.items x := rfl
theorem shrink_add (sh : Sh p) (s : Store p) (x : Fin p) :
    (shrink sh s).add x = if matched s x then none else s.add x := rfl
theorem shrink_del (sh : Sh p) (s : Store p) (x : Fin p) :
    (shrink sh s).del x = if matched s x then none else s.del x := rfl

theorem backChanged_of_add {s : Store p} {x : Fin p} (h : (s.add x).isSome = true) : backChanged s = true := by
  unfold backChanged; rw [anyFin_iff]; exact ⟨x, by simp [h]⟩

theorem backChanged_false {s : Store p} (h : backChanged s = false) (x : Fin p) : s.add x = none ∧ s.del x = none := by
  unfold backChanged at h
  have := (anyFin_false_iff _).1 h x
  cases ha : s.add x <;> cases hd : s.del x <;> simp_all


@[simp] theorem s0Of_false (sh : Sh p) (w : FW p) : s0Of sh false w = shrink sh w.g.w.store := by simp [s0Of]
@[simp] theorem s0Of_true (sh : Sh p) (w : FW p) : s0Of sh true w = allShards sh (shrink sh w.g.w.store) := by simp [s0Of]
@[simp] theorem hs0Of_false (w : FW p) : hs0Of false w = w.h.shrink := by simp [hs0Of]
@[simp] theorem hs0Of_true (w : FW p) : hs0Of true w = { w.h.shrink with mapsNil := true } := by simp [hs0Of]
@[simp] theorem visOf_false (s0 : Store p) : visOf false s0 = s0.add := by simp [visOf]
@[simp] theorem visOf_true (s0 : Store p) : visOf true s0 = s0.items := by simp [visOf]

/-! #### no rewrite owed: the files follow the stores -/

/-- every backend that has an item after `Shrink` has its `pathConfig` and its `PathsMap` once
WriteBackendMaps has run -/
theorem flags_after_maps {o : Opt} {sh : Sh p} {w : FW p} (hi : FInv o sh w) (x : Fin p)
    (hx : ((shrink sh w.g.w.store).items x).isSome = true) :
    (w4Of o sh false w).pcI x = true ∧ (w4Of o sh false w).pmI x = true := by
  rw [w4Of_pcI, w4Of_pmI]
  simp only [s0Of_false, visOf_false, Bool.or_false]
  cases ha : (shrink sh w.g.w.store).add x with
  | some a =>
    have := backChanged_of_add (s := shrink sh w.g.w.store) (x := x) (by simp [ha])
    simp [this]
  | none =>
    rw [shrink_items] at hx
    rw [shrink_add] at ha
    by_cases hm : matched w.g.w.store x = true
    · obtain ⟨d, a, hd, _, _⟩ := (matched_iff _ _).1 hm
      have := hi.pc2 x (by simp [hd])
      simp [hm, this.1, this.2]
    · simp only [hm, Bool.false_eq_true, if_false] at hx ha
      have := hi.pc1 x ha hx
      simp [hm, this.1, this.2]

theorem bm_after_maps {o : Opt} {sh : Sh p} {w : FW p} (hi : FInv o sh w) (x : Fin p) (c : Content)
    (hx : (shrink sh w.g.w.store).items x = some c) (hn : o.needACL (conf c) = true) :
    (w4Of o sh false w).bm x = some (conf c) := by
  have hI0 : Inv sh { store := shrink sh w.g.w.store, disk := w.g.w.disk } := shrink_inv hi.b
  rw [w4Of_bm]
  simp only [s0Of_false, visOf_false, Bool.or_false]
  cases ha : (shrink sh w.g.w.store).add x with
  | some a =>
    have hb := backChanged_of_add (s := shrink sh w.g.w.store) (x := x) (by simp [ha])
    have hca : (shrink sh w.g.w.store).items x = some a := hI0.a x a ha
    rw [hx] at hca
    cases hca
    simp [hb, hn]
  | none =>
    have hbm : w.bm x = some (conf c) := by
      rw [shrink_items] at hx
      rw [shrink_add] at ha
      by_cases hm : matched w.g.w.store x = true
      · simp only [hm, if_true] at hx
        exact hi.bm2 x c hx hn
      · simp only [hm, Bool.false_eq_true, if_false] at hx ha
        exact hi.bm1 x c ha hx hn
    split <;> exact hbm

theorem hosts_after_write {o : Opt} {sh : Sh p} {w : FW p} (hi : FInv o sh w) :
    HInv (hCommit (hWrite w.h.shrink)) ∧
    (∀ x, (hWrite w.h.shrink).maps x = (hCommit (hWrite w.h.shrink)).want x) ∧
    (hWrite w.h.shrink).mapsNil = false := by
  have := hupdate_good hi.h true (Or.inl rfl)
  rw [updateWith_eq] at this
  exact ⟨this.2.2, this.1, this.2.1⟩

theorem tcp_after_lists {o : Opt} {sh : Sh p} {w : FW p} (hi : FInv o sh w) :
    (w4Of o sh false w).tcp.want ≠ 0 →
      (w4Of o sh false w).tcp.map = (w4Of o sh false w).tcp.want ∧
      (w4Of o sh false w).tcp.crt = (w4Of o sh false w).tcp.want := by
  rw [w4Of_tcp_want, w4Of_tcp_map, w4Of_tcp_crt]
  intro hw
  have hw' : (w.tcp.want != 0) = true := by simpa using hw
  refine ⟨?_, by simp [hw']⟩
  simp only [tcpWrites, Bool.false_and, Bool.or_false]
  by_cases hc : w.tcp.changed = true
  · simp [hc]
  · have hc' : w.tcp.changed = false := by simpa using hc
    simp only [hc, Bool.false_eq_true, if_false]
    cases hcm : w.g.committed with
    | true => exact ((hi.t1 hc' hcm).1 hw).1
    | false => exact absurd (hi.t2 hcm hc') hw

/-! #### a rewrite is owed: everything is rendered again, whatever the files hold -/

theorem flags_after_rewrite (o : Opt) (sh : Sh p) (w : FW p) (x : Fin p)
    (hx : ((allShards sh (shrink sh w.g.w.store)).items x).isSome = true) :
    (w4Of o sh true w).pcI x = true ∧ (w4Of o sh true w).pmI x = true := by
  rw [w4Of_pcI, w4Of_pmI]
  simp only [s0Of_true, visOf_true, Bool.or_true, Bool.true_and, hx, Bool.true_or, and_self]

theorem bm_after_rewrite (o : Opt) (sh : Sh p) (w : FW p) (x : Fin p) (c : Content)
    (hx : (allShards sh (shrink sh w.g.w.store)).items x = some c) (hn : o.needACL (conf c) = true) :
    (w4Of o sh true w).bm x = some (conf c) := by
  rw [w4Of_bm]
  simp only [s0Of_true, visOf_true, Bool.or_true, if_true, hx, hn]

theorem hosts_after_rewrite (w : FW p) :
    HInv (hCommit (hWrite { w.h.shrink with mapsNil := true })) ∧
    (∀ x, (hWrite { w.h.shrink with mapsNil := true }).maps x =
      (hCommit (hWrite { w.h.shrink with mapsNil := true })).want x) ∧
    (hWrite { w.h.shrink with mapsNil := true }).mapsNil = false := by
  have hnil : HInv ({ w.h with mapsNil := true } : HStore p) := by
    refine ⟨?_, ?_, ?_, ?_⟩ <;> intro h <;> cases h
  have := hupdate_good hnil true (Or.inl rfl)
  rw [updateWith_eq] at this
  exact ⟨this.2.2, this.1, this.2.1⟩

theorem tcp_after_rewrite (o : Opt) (sh : Sh p) (w : FW p) :
    (w4Of o sh true w).tcp.want ≠ 0 →
      (w4Of o sh true w).tcp.map = (w4Of o sh true w).tcp.want ∧
      (w4Of o sh true w).tcp.crt = (w4Of o sh true w).tcp.want := by
  rw [w4Of_tcp_want, w4Of_tcp_map, w4Of_tcp_crt]
  intro hw
  have hw' : (w.tcp.want != 0) = true := by simpa using hw
  simp [tcpWrites, hw']

theorem setEpv_eq {d a : Content} (hc : conf a = conf d) : setEpv d (epv a) = { cfg := a.cfg, slots := d.slots } := by
  unfold setEpv epv
  unfold conf at hc
  have : 4 * (d.cfg / 4) + a.cfg % 4 % 4 = a.cfg := by omega
  rw [this]

theorem cfg_eq_of_conf_epv {d a : Content} (hc : conf a = conf d) (he : epv a = epv d) : a.cfg = d.cfg := by
  unfold conf at hc; unfold epv at he; omega

theorem dynStage_false {sh : Sh p} {bad : Nat → Bool} {rw : Bool} {w0 : FW p} {s0 : Store p} {hs0 hs1 : HStore p}
    {w4 : FW p} (h : w0.g.committed = false) :
    dynStage sh bad rw w0 s0 hs0 hs1 w4 =
      { w := w4, s := s0, hs := hs1, sends := 0, updated := false, bchg := backChanged s0 } := by
  simp [dynStage, h]

theorem dynStage_true {sh : Sh p} {bad : Nat → Bool} {rw : Bool} {w0 : FW p} {s0 : Store p} {hs0 hs1 : HStore p}
    {w4 : FW p} (h : w0.g.committed = true) :
    dynStage sh bad rw w0 s0 hs0 hs1 w4 =
      { w := { w4 with run := { w4.run with back := dynRun s0 bad w4.run.back } }, s := dynStore sh s0, hs := hs1
        sends := totalSends s0
        updated := !w0.tcp.changed && !hs0.isChanged && backendUpdated s0 bad w4.run.back w0.pcD && !rw
        bchg := backChanged s0 } := by
  simp [dynStage, h]

/-- the outcome of one `HAProxyUpdate` with any fault, from the invariant of every history -/
def UpdOutcome (o : Opt) (sh : Sh p) (f : Fault) (r : Res p) : Prop :=
  (f.isWrite = true ∧ r.err = true ∧ r.w.rewriteOwed = true ∧ WInv sh r.w ∧ (o.queue = false → r.w.pending = false)) ∨
  (r.w.rewriteOwed = false ∧ FInv o sh r.w ∧ DiskGood o sh r.w ∧ (o.queue = false → r.w.pending = false) ∧
    (f.isReload = false → r.err = false ∧
      (o.repaired = true → o.queue = false → RunGood sh r.w ∧ r.w.reloadOwed = false)) ∧
    (o.repaired = true → (f.isReload = false ∨ o.queue = true) → r.w.pending = true ∨ r.w.reloadOwed = false))

theorem upd_outcome {o : Opt} {sh : Sh p} (wf : sh.WF) (hrep : o.repaired = true) {w : FW p} (hj : JInv o sh w)
    (f : Fault) : UpdOutcome o sh f (upd o sh f w) := by
  unfold upd
  cases hpre : pre o sh f w with
  | error r =>
    obtain ⟨h0, h1, h2, h3, h4⟩ := pre_err hj.wi hpre
    exact Or.inl ⟨h0, h1, h2, h3, fun hq => by rw [h4]; exact hj.q hq⟩
  | ok m =>
    simp only []
    have hm := pre_ok hpre
    rw [hrep, Bool.true_and] at hm
    subst hm
    unfold UpdOutcome
    cases hro : w.rewriteOwed with
    | true =>
      -- a rewrite is owed: `ForceRewrite()`, nothing is assumed about the files
      have hs0 : SInv sh (allShards sh (shrink sh w.g.w.store)) := sinv_allShards (sinv_shrink hj.wi.s)
      obtain ⟨hH, hmaps, hnil⟩ := hosts_after_rewrite w
      have hall : ∀ k, k < sh.n → (allShards sh (shrink sh w.g.w.store)).changed k = true := by
        intro k hk; simp [allShards, hk]
      cases hcm : w.g.committed with
      | false =>
        have hcf : (w0Of w).g.committed = false := hcm
        rw [dynStage_false hcf]
        apply post_spec wf f
        all_goals dsimp only
        all_goals (try simp only [s0Of_true, hs0Of_true])
        · exact hs0
        · rw [w4Of_g]; exact hj.wi.g
        · exact w4Of_rewriteOwed o sh true w
        · intro _; rw [w4Of_g]; exact forced_write_good wf hs0 hall hj.wi.g
        · intro x
          unfold badX
          cases hx : (allShards sh (shrink sh w.g.w.store)).items x with
          | none => rfl
          | some c =>
            have := (flags_after_rewrite o sh w x (by simp [hx])).2
            simp [this]
        · rw [w4Of_h]; simp
        · exact hH
        · exact hmaps
        · exact hnil
        · exact tcp_after_rewrite o sh w
        · exact fun x c hx hn => bm_after_rewrite o sh w x c hx hn
        · exact fun x hx => flags_after_rewrite o sh w x hx
        · rw [w4Of_pending]; exact hj.q
        · intro h; cases h
        · intro h; cases h
      | true =>
        have hct : (w0Of w).g.committed = true := hcm
        rw [dynStage_true hct]
        apply post_spec wf f
        all_goals dsimp only
        all_goals (try simp only [s0Of_true, hs0Of_true])
        · exact sinv_dynStore hs0
        · rw [w4Of_g]; exact hj.wi.g
        · exact w4Of_rewriteOwed o sh true w
        · intro _; rw [w4Of_g]
          exact forced_write_good wf (sinv_dynStore hs0) (by simpa [dynStore_changed] using hall) hj.wi.g
        · intro x
          unfold badX
          cases hx : (dynStore sh (allShards sh (shrink sh w.g.w.store))).items x with
          | none => rfl
          | some c =>
            have hsome : ((allShards sh (shrink sh w.g.w.store)).items x).isSome = true := by
              rw [← dynStore_items_isSome hs0]; simp [hx]
            have := (flags_after_rewrite o sh w x hsome).2
            simp [this]
        · rw [w4Of_h]; simp
        · exact hH
        · exact hmaps
        · exact hnil
        · exact tcp_after_rewrite o sh w
        · intro x c hx hn
          obtain ⟨c0, hc0, hcc⟩ := dynStore_items_conf hs0 hx
          rw [← hcc] at hn ⊢
          exact bm_after_rewrite o sh w x c0 hc0 hn
        · intro x hx
          rw [dynStore_items_isSome hs0] at hx
          exact flags_after_rewrite o sh w x hx
        · rw [w4Of_pending]; exact hj.q
        · intro h; simp at h
        · intro h; simp at h
    | false =>
      -- no rewrite owed: the files follow the stores
      have hi := hj.d hro
      have hI0 : Inv sh { store := shrink sh w.g.w.store, disk := w.g.w.disk } := shrink_inv hi.b
      obtain ⟨hH, hmaps, hnil⟩ := hosts_after_write hi
      cases hcm : w.g.committed with
      | false =>
        have hcf : (w0Of w).g.committed = false := hcm
        rw [dynStage_false hcf]
        apply post_spec wf f
        all_goals dsimp only
        all_goals (try simp only [s0Of_false, hs0Of_false])
        · exact sinv_of_inv hI0
        · rw [w4Of_g]; exact hI0.g
        · exact w4Of_rewriteOwed o sh false w
        · intro _; rw [w4Of_g]; exact write_good wf hI0
        · intro x
          unfold badX
          cases hx : (shrink sh w.g.w.store).items x with
          | none => rfl
          | some c =>
            have := (flags_after_maps hi x (by simp [hx])).2
            simp [this]
        · rw [w4Of_h]; simp
        · exact hH
        · exact hmaps
        · exact hnil
        · exact tcp_after_lists hi
        · exact fun x c hx hn => bm_after_maps hi x c hx hn
        · exact fun x hx => flags_after_maps hi x hx
        · rw [w4Of_pending]; exact hj.q
        · intro h; cases h
        · intro h; cases h
      | true =>
        have hct : (w0Of w).g.committed = true := hcm
        have hIdyn : Inv sh { store := dynStore sh (shrink sh w.g.w.store), disk := w.g.w.disk } := dynStore_inv hI0
        rw [dynStage_true hct]
        apply post_spec wf f
        all_goals dsimp only
        all_goals (try simp only [s0Of_false, hs0Of_false, Bool.not_false, Bool.and_true])
        · exact sinv_of_inv hIdyn
        · rw [w4Of_g]; exact hI0.g
        · exact w4Of_rewriteOwed o sh false w
        · intro _; rw [w4Of_g]; exact write_good wf hIdyn
        · intro x
          unfold badX
          cases hx : (dynStore sh (shrink sh w.g.w.store)).items x with
          | none => rfl
          | some c =>
            have hsome : ((shrink sh w.g.w.store).items x).isSome = true := by
              rw [← dynStore_items_isSome (sinv_of_inv hI0)]; simp [hx]
            have := (flags_after_maps hi x hsome).2
            simp [this]
        · rw [w4Of_h]; simp
        · exact hH
        · exact hmaps
        · exact hnil
        · exact tcp_after_lists hi
        · intro x c hx hn
          obtain ⟨c0, hc0, hcc⟩ := dynStore_items_conf (sinv_of_inv hI0) hx
          rw [← hcc] at hn ⊢
          exact bm_after_maps hi x c0 hc0 hn
        · intro x hx
          rw [dynStore_items_isSome (sinv_of_inv hI0)] at hx
          exact flags_after_maps hi x hx
        · rw [w4Of_pending]; exact hj.q
        · -- the write is skipped: nothing is pending after Shrink, the files already hold the items
          intro _ _ hb k x
          rw [w4Of_g]
          have hn := backChanged_false hb x
          have hpn : pair? (shrink sh w.g.w.store) x = none := pair?_none_of_add_none hn.1
          simp only [itemsIn, dynStore_items, hpn]
          by_cases hk : sh.shardOf x = k
          · simp only [hk, if_true]
            have := hI0.b x hn.1 hn.2
            rw [hk] at this
            exact this.symm
          · simp only [hk, if_false]; exact hI0.g k x hk
        · -- no reload follows: every runtime command was answered, HAProxy holds what the files will hold
          intro hu
          simp only [Bool.and_eq_true, Bool.not_eq_true'] at hu
          obtain ⟨⟨htc, hhc⟩, hbu⟩ := hu
          have htg := hi.t1 htc hcm
          -- hosts are clean: WriteFrontendMaps was skipped, the maps are the ones HAProxy read
          have hrb : w.h.shrink.rootBackendChanged = false := by
            unfold HStore.rootBackendChanged
            rw [anyFin_false_iff]
            intro x
            have : (w.h.shrink.bc x != w.h.shrink.bcC x) = false := by
              have := hj.wi.hbc x
              simp only [HStore.shrink]
              simp [this]
            simp [this]
          have hskipH : hSkip w.h.shrink = true := by
            unfold hSkip
            have h1 : w.h.shrink.mapsNil = false := hi.hm hcm
            simp [h1, hhc, hrb]
          have hw : hWrite w.h.shrink = w.h.shrink := by unfold hWrite; simp [hskipH]
          refine ⟨?_, ?_, ?_⟩
          · rw [w4Of_tcp_main, w4Of_tcp_want]; exact htg.2
          · rw [w4Of_mainHosts, hw]; exact hi.mh hcm
          · rcases hi.r with hp | hp | hrg
            · left; rw [w4Of_reloadOwed]; exact hp
            · right; left; rw [w4Of_pending]; exact hp
            · right; right
              obtain ⟨r1, r2, r3, r4, r5, r6⟩ := hrg
              refine ⟨?_, ?_, ?_, ?_, ?_, ?_⟩
              · -- running servers
                intro x c hx
                show dynRun (shrink sh w.g.w.store) f.bad (w4Of o sh false w).run.back x = some c
                rw [w4Of_run]
                have hok : pairOK (shrink sh w.g.w.store) f.bad (w4Of o sh false w).run.back (w0Of w).pcD x = true := by
                  unfold backendUpdated at hbu
                  simp only [Bool.not_eq_true'] at hbu
                  have := (anyFin_false_iff _).1 hbu x
                  simpa using this
                rw [dynStore_items] at hx
                unfold dynRun
                cases hp : pair? (shrink sh w.g.w.store) x with
                | some da =>
                  obtain ⟨d, a⟩ := da
                  rw [hp] at hx
                  simp only [Option.some.injEq] at hx
                  obtain ⟨hd, ha, hle⟩ := pair?_eq_some.1 hp
                  have hrd : w.run.back x = some d := r1 x d (by simp only [load]; exact hI0.c x d hd)
                  unfold pairOK at hok
                  simp only [ha, hp, Bool.and_eq_true, beq_iff_eq, Bool.not_eq_true'] at hok
                  obtain ⟨⟨⟨hconf, _⟩, hbad⟩, _⟩ := hok
                  simp only []
                  by_cases he : epv a = epv d
                  · have hcfg := cfg_eq_of_conf_epv hconf he
                    simp only [he, ne_eq, not_true_eq_false, false_and, if_false, hrd]
                    rw [← hx, hcfg]
                  · have hns : nsend (shrink sh w.g.w.store) x = 1 + a.slots := by
                      unfold nsend; simp [hp, he]
                    have hb0 : f.bad (base (shrink sh w.g.w.store) x) = false := by
                      have := anyRange_false hbad 0 (by omega)
                      simpa using this
                    simp only [ne_eq, he, not_false_eq_true, hb0, and_self, if_true, hrd, Option.map_some]
                    rw [setEpv_eq hconf, ← hx]
                | none =>
                  rw [hp] at hx
                  have hx' : (shrink sh w.g.w.store).items x = some c := hx
                  simp only []
                  cases ha : (shrink sh w.g.w.store).add x with
                  | some a =>
                    unfold pairOK at hok
                    simp [ha, hp] at hok
                  | none =>
                    cases hd : (shrink sh w.g.w.store).del x with
                    | some d =>
                      have h2 : (shrink sh w.g.w.store).items x = none := hI0.b2 x ha (by simp [hd])
                      rw [hx'] at h2; cases h2
                    | none =>
                      have h2 : (shrink sh w.g.w.store).items x = w.g.w.disk (sh.shardOf x) x := hI0.b x ha hd
                      apply r1 x c
                      simp only [load]
                      rw [← h2]; exact hx'
              · intro x
                show (w4Of o sh false w).run.maps x = if (w4Of o sh false w).mainHosts = true then (w4Of o sh false w).h.maps x else none
                rw [w4Of_run, w4Of_mainHosts, w4Of_h, hs0Of_false, hw]
                exact r2 x
              · intro x
                show (w4Of o sh false w).run.bm x = (w4Of o sh false w).bm x
                rw [w4Of_run, r3 x, w4Of_bm]
                simp only [load, s0Of_false, visOf_false, Bool.or_false]
                split
                · cases ha : (shrink sh w.g.w.store).add x with
                  | none => rfl
                  | some a =>
                    simp only []
                    by_cases hn : o.needACL (conf a) = true
                    · simp only [hn, if_true]
                      -- the pair is updated: same `conf`, and the deleted object had its map written
                      have hok : pairOK (shrink sh w.g.w.store) f.bad (w4Of o sh false w).run.back (w0Of w).pcD x = true := by
                        unfold backendUpdated at hbu
                        simp only [Bool.not_eq_true'] at hbu
                        have := (anyFin_false_iff _).1 hbu x
                        simpa using this
                      unfold pairOK at hok
                      simp only [ha] at hok
                      cases hp : pair? (shrink sh w.g.w.store) x with
                      | none => simp [hp] at hok
                      | some da =>
                        obtain ⟨d, a'⟩ := da
                        obtain ⟨hd, ha', _⟩ := pair?_eq_some.1 hp
                        rw [ha] at ha'; cases ha'
                        simp only [hp, Bool.and_eq_true, beq_iff_eq] at hok
                        have hconf := hok.1.1.1
                        rw [shrink_del] at hd
                        by_cases hm : matched w.g.w.store x = true
                        · simp [hm] at hd
                        · simp only [hm, Bool.false_eq_true, if_false] at hd
                          rw [hconf] at hn ⊢
                          exact hi.bm2 x d hd hn
                    · simp [hn]
                · rfl
              · show (w4Of o sh false w).run.tcpMap = (w4Of o sh false w).tcp.map
                have htc' : w.tcp.changed = false := htc
                rw [w4Of_run, w4Of_tcp_map, r4]
                simp [tcpWrites, htc']
              · show (w4Of o sh false w).run.tcpCrt = (w4Of o sh false w).tcp.crt
                rw [w4Of_run, w4Of_tcp_crt, r5]
                split
                · rename_i hw0
                  have : w.tcp.want ≠ 0 := by simpa using hw0
                  exact (htg.1 this).2
                · rfl
              · show (w4Of o sh false w).run.tcpMain = (w4Of o sh false w).tcp.main
                rw [w4Of_run, w4Of_tcp_main, r6]

/-- every `HAProxyUpdate`, whatever fails in it, keeps the invariant of every history -/
theorem upd_jinv {o : Opt} {sh : Sh p} (wf : sh.WF) (hrep : o.repaired = true) {w : FW p} (hj : JInv o sh w)
    (f : Fault) : JInv o sh (upd o sh f w).w := by
  rcases upd_outcome wf hrep hj f with ⟨_, _, hro, hw, hq⟩ | ⟨hro, hf, _, hq, _⟩
  · exact ⟨hw, hq, fun h => by rw [hro] at h; cases h⟩
  · exact ⟨⟨sinv_of_inv hf.b, hf.b.g, hf.hbc⟩, hq, fun _ => hf⟩

/-! ### the reload queue worker -/

theorem qrun_jinv {o : Opt} {sh : Sh p} {w : FW p} (hj : JInv o sh w) (f : Fault) : JInv o sh (qrun sh f w).w := by
  unfold qrun
  cases hp : w.pending with
  | false => simp only [Bool.not_false, if_true]; exact hj
  | true =>
    have hqt : o.queue = true := by
      cases hqq : o.queue with
      | true => rfl
      | false => have := hj.q hqq; rw [hp] at this; cases this
    simp only [Bool.not_true, Bool.false_eq_true, if_false, reload]
    cases hf : f.isReload with
    | true =>
      simp only [if_true]
      have hq' : o.queue = false → true = false := fun h => by rw [h] at hqt; cases hqt
      refine ⟨⟨hj.wi.s, hj.wi.g, hj.wi.hbc⟩, hq', ?_⟩
      intro hro
      obtain ⟨hb, hh, hhm, hbc, hmh, ht1, ht2, hbm1, hbm2, hpc1, hpc2, _⟩ := hj.d hro
      exact ⟨hb, hh, hhm, hbc, hmh, ht1, ht2, hbm1, hbm2, hpc1, hpc2, Or.inl rfl⟩
    | false =>
      simp only [Bool.false_eq_true, if_false]
      refine ⟨⟨hj.wi.s, hj.wi.g, hj.wi.hbc⟩, fun _ => rfl, ?_⟩
      intro hro
      obtain ⟨hb, hh, hhm, hbc, hmh, ht1, ht2, hbm1, hbm2, hpc1, hpc2, _⟩ := hj.d hro
      exact ⟨hb, hh, hhm, hbc, hmh, ht1, ht2, hbm1, hbm2, hpc1, hpc2, Or.inr (Or.inr (runGood_load rfl))⟩

theorem qrun_diskGood {o : Opt} {sh : Sh p} {w : FW p} (hd : DiskGood o sh w) (f : Fault) :
    DiskGood o sh (qrun sh f w).w := by
  unfold qrun
  cases w.pending with
  | false => exact hd
  | true =>
    simp only [Bool.not_true, Bool.false_eq_true, if_false, reload]
    cases f.isReload <;> exact hd

/-- a fault-free run of the worker empties the queue and leaves HAProxy with the files, provided no reload
is owed without being queued -/
theorem qrun_settles {o : Opt} {sh : Sh p} {w : FW p} (hi : FInv o sh w) (hpo : w.pending = true ∨ w.reloadOwed = false)
    {f : Fault} (hf : f.isReload = false) :
    (qrun sh f w).err = false ∧ (qrun sh f w).w.pending = false ∧ (qrun sh f w).w.reloadOwed = false ∧
      RunGood sh (qrun sh f w).w := by
  unfold qrun
  cases hp : w.pending with
  | false =>
    simp only [Bool.not_false, if_true]
    have hro : w.reloadOwed = false := by
      rcases hpo with h | h
      · rw [hp] at h; cases h
      · exact h
    refine ⟨by first | rfl | trivial, hp, hro, ?_⟩
    rcases hi.r with h | h | h
    · rw [hro] at h; cases h
    · rw [hp] at h; cases h
    · exact h
  | true =>
    simp only [Bool.not_true, Bool.false_eq_true, if_false, reload, hf]
    exact ⟨by first | rfl | trivial, by first | rfl | trivial, by first | rfl | trivial, runGood_load rfl⟩

/-! ### control flow of one `HAProxyUpdate`: what the flags `reached` / `wroteMain` / `reloaded` of its result say -/

/-- control flow of stages 6 to 8 -/
theorem post_flow (o : Opt) (sh : Sh p) (f : Fault) (m : Mid p) (hro : m.w.rewriteOwed = true) :
    (post o sh f m).w.g.committed = true ∧
    ((post o sh f m).wroteMain = true → (post o sh f m).reached = true) ∧
    ((post o sh f m).w.rewriteOwed = false → (post o sh f m).reached = true → (post o sh f m).wroteMain = true) ∧
    ((post o sh f m).w.rewriteOwed = false → (post o sh f m).reached = false → m.updated = true) ∧
    (f = .mainCfg → (post o sh f m).reached = true → (post o sh f m).wroteMain = false) ∧
    ((post o sh f m).w.rewriteOwed = false → (post o sh f m).reloaded = false → (post o sh f m).w.pending = false →
      (post o sh f m).w.reloadOwed = false →
      m.updated = true ∧ (o.repaired = true → m.w.reloadOwed = false) ∧ m.w.pending = false) := by
  unfold post
  dsimp only
  have hnm : ∀ {b : Bool}, ¬ ((f == Fault.mainCfg || b) = true) → ¬ f = Fault.mainCfg := by
    intro b h hf; subst hf; simp at h
  by_cases hdw : (!m.updated || decide (0 < m.sends) || m.bchg) = true
  · simp only [hdw, Bool.true_and, if_true]
    split
    · simp [commitAll, hro]
    split
    · rename_i h1 h2
      simp [commitAll, hro, setDisk]
      exact hnm h1
    rename_i h1 h2
    split
    · rename_i h3
      simp only [Bool.and_eq_true, Bool.not_eq_true', Bool.and_eq_false_iff] at h3
      simp [commitAll, setDisk]
      refine ⟨hnm h1, fun hp hr => ⟨h3.1, fun _ => hr, hp⟩⟩
    split
    · simp [commitAll, setDisk]
      exact hnm h1
    · cases hrl : f.isReload <;> simp [commitAll, setDisk, reload, hrl]
      all_goals exact hnm h1
  · have hdw' : (!m.updated || decide (0 < m.sends) || m.bchg) = false := by simpa using hdw
    have hmu : m.updated = true := by cases h : m.updated <;> simp_all
    simp only [hdw', Bool.false_and, Bool.false_eq_true, if_false]
    split
    · rename_i h3
      simp only [Bool.and_eq_true, Bool.not_eq_true', Bool.and_eq_false_iff] at h3
      simp [commitAll, hmu]
      intro hp hr; exact ⟨fun _ => hr, hp⟩
    split
    · simp [commitAll, hmu]
    · cases hrl : f.isReload <;> simp [commitAll, reload, hrl, hmu]

theorem pre_err_flow {o : Opt} {sh : Sh p} {w : FW p} {f : Fault} {r : Res p} (h : pre o sh f w = .error r) :
    r.w.rewriteOwed = true ∧ r.w.g.committed = true ∧ r.reached = false ∧ r.wroteMain = false ∧ r.reloaded = false := by
  unfold pre at h
  split at h
  · cases h; exact ⟨rfl, rfl, rfl, rfl, rfl⟩
  unfold pre2 at h
  split at h
  · cases h
    refine ⟨?_, rfl, rfl, rfl, rfl⟩
    show (tcpStage _ (w0Of w)).rewriteOwed = true
    simp
  unfold pre3 at h
  split at h
  · cases h
    refine ⟨?_, rfl, rfl, rfl, rfl⟩
    show (flagStage _ _ { tcpStage _ (w0Of w) with h := _ }).rewriteOwed = true
    simp
  unfold pre4 at h
  split at h
  · cases h
    refine ⟨?_, rfl, rfl, rfl, rfl⟩
    show (bmStage _ _ _ (flagStage _ _ { tcpStage _ (w0Of w) with h := _ })).rewriteOwed = true
    simp
  cases h

/-- control flow of one `HAProxyUpdate`, whatever the fault -/
theorem upd_flow (o : Opt) (sh : Sh p) (f : Fault) (w : FW p) (hrep : o.repaired = true) :
    (upd o sh f w).w.g.committed = true ∧
    ((upd o sh f w).wroteMain = true → (upd o sh f w).reached = true) ∧
    ((upd o sh f w).w.rewriteOwed = false → (upd o sh f w).reached = true → (upd o sh f w).wroteMain = true) ∧
    ((upd o sh f w).w.rewriteOwed = false → (upd o sh f w).reached = false →
      w.rewriteOwed = false ∧ w.g.committed = true) ∧
    (f = .mainCfg → (upd o sh f w).reached = true → (upd o sh f w).wroteMain = false) ∧
    ((upd o sh f w).w.rewriteOwed = false → (upd o sh f w).reloaded = false → (upd o sh f w).w.pending = false →
      (upd o sh f w).w.reloadOwed = false →
      w.g.committed = true ∧ w.rewriteOwed = false ∧ w.reloadOwed = false ∧ w.pending = false) := by
  unfold upd
  cases hpre : pre o sh f w with
  | error r =>
    obtain ⟨h1, h2, h3, h4, h5⟩ := pre_err_flow hpre
    simp only []
    refine ⟨h2, ?_, ?_, ?_, ?_, ?_⟩
    · intro h; rw [h4] at h; cases h
    · intro h; rw [h1] at h; cases h
    · intro h; rw [h1] at h; cases h
    · intro _ h; rw [h3] at h; cases h
    · intro h; rw [h1] at h; cases h
  | ok m =>
    simp only []
    have hm := pre_ok hpre
    rw [hrep, Bool.true_and] at hm
    have hro : m.w.rewriteOwed = true := by
      rw [hm]; unfold dynStage; dsimp only
      split <;> exact w4Of_rewriteOwed o sh _ w
    have hrl : m.w.reloadOwed = w.reloadOwed := by
      rw [hm]; unfold dynStage; dsimp only
      split <;> exact w4Of_reloadOwed o sh _ w
    have hpe : m.w.pending = w.pending := by
      rw [hm]; unfold dynStage; dsimp only
      split <;> exact w4Of_pending o sh _ w
    have hup : m.updated = true → w.g.committed = true ∧ w.rewriteOwed = false := by
      rw [hm]; unfold dynStage; dsimp only
      intro h
      simp only [Bool.and_eq_true, Bool.not_eq_true'] at h
      exact ⟨h.1.1.1.1, h.2⟩
    obtain ⟨p1, p2, p3, p4, p5, p6⟩ := post_flow o sh f m hro
    refine ⟨p1, p2, p3, ?_, p5, ?_⟩
    · intro h1 h2
      have := hup (p4 h1 h2)
      exact ⟨this.2, this.1⟩
    · intro h1 h2 h3 h4
      obtain ⟨q1, q2, q3⟩ := p6 h1 h2 h3 h4
      have := hup q1
      exact ⟨this.1, this.2, by rw [← hrl]; exact q2 hrep, by rw [← hpe]; exact q3⟩

/-! ### the response files (`RW`, `updR`) -/

theorem qrun_flow (sh : Sh p) (f : Fault) (w : FW p) :
    (qrun sh f w).w.g = w.g ∧ (qrun sh f w).w.rewriteOwed = w.rewriteOwed ∧
    ((qrun sh f w).reloaded = false → (qrun sh f w).w.pending = false → (qrun sh f w).w.reloadOwed = false →
      w.pending = false ∧ w.reloadOwed = false) := by
  unfold qrun
  cases hp : w.pending with
  | false => simp [hp]
  | true => cases hrl : f.isReload <;> simp [reload, hrl]

/-- batch events leave the flags alone; only `config.Clear()` touches `hasCommittedData()` -/
theorem step_batch_flags (o : Opt) (sh : Sh p) (w : FW p) (e : Ev p) (hne : ∀ f, e ≠ .upd f) (hnq : ∀ f, e ≠ .qrun f) :
    (step o sh w e).rewriteOwed = w.rewriteOwed ∧ (step o sh w e).reloadOwed = w.reloadOwed ∧
    (step o sh w e).pending = w.pending ∧
    ((step o sh w e).g.committed = true → w.g.committed = true ∧ e ≠ .full) := by
  cases e with
  | upd f => exact absurd rfl (hne f)
  | qrun f => exact absurd rfl (hnq f)
  | full => exact ⟨rfl, rfl, rfl, fun h => by cases h⟩
  | _ => exact ⟨rfl, rfl, rfl, fun h => ⟨h, fun h' => by cases h'⟩⟩

/-- a response file cannot be written and `writeConfig` gets to it -/
def respFires (f : RFault) (g : Glob) : Bool := (f == .haResp && g.ha != 0) || f == .luaResp

theorem baseFault_fires {f : RFault} {g : Glob} (h : respFires f g = true) : baseFault f g true = .mainCfg := by
  cases f with
  | base f => simp [respFires] at h
  | haResp =>
    have : (g.ha != 0) = true := by simpa [respFires] using h
    simp [baseFault, this]
  | luaResp => simp [baseFault]

theorem writeResp_main (f : RFault) (g : Glob) (d : RFiles) : (writeResp f g d).main = d.main := by
  unfold writeResp
  dsimp only
  split
  · rfl
  split <;> split <;> rfl

theorem writeResp_mono (f : RFault) (g : Glob) (d : RFiles) :
    (d.lua.isSome = true → (writeResp f g d).lua.isSome = true) ∧
    (d.ha.isSome = true → (writeResp f g d).ha.isSome = true) := by
  unfold writeResp
  dsimp only
  split
  · exact ⟨id, id⟩
  split <;> split <;> simp

theorem writeResp_loadable (f : RFault) (g : Glob) (d : RFiles) (h : loadable d = true) :
    loadable (writeResp f g d) = true := by
  have hm := writeResp_main f g d
  have hmono := writeResp_mono f g d
  unfold loadable at h ⊢
  rw [hm]
  cases hmn : d.main with
  | none => rfl
  | some b =>
    rw [hmn] at h
    simp only [Bool.and_eq_true, Bool.or_eq_true, Bool.not_eq_true'] at h ⊢
    exact ⟨hmono.1 h.1, h.2.imp id hmono.2⟩

theorem respDisk_wrote {f : RFault} {g : Glob} {r : Res p} {d : RFiles} (hm : r.wroteMain = true)
    (hr : r.reached = true) :
    respDisk f g true r d = { writeResp f g d with main := some (g.ha != 0) } := by
  simp [respDisk, hm, hr]

theorem respDisk_notMain {f : RFault} {g : Glob} {r : Res p} {d : RFiles} (hm : r.wroteMain = false) :
    respDisk f g true r d = if r.reached then writeResp f g d else d := by
  simp [respDisk, hm]

/-- no response file fails: all of them hold the global config afterwards -/
theorem writeResp_done {f : RFault} {g : Glob} (d : RFiles) (h : respFires f g = false) :
    (writeResp f g d).lua = some g.lua ∧ (g.ha ≠ 0 → (writeResp f g d).ha = some g.ha) := by
  unfold respFires at h
  simp only [Bool.or_eq_false_iff] at h
  unfold writeResp
  dsimp only
  rw [if_neg (by simp [h.1]), if_neg (by simp [h.2])]
  refine ⟨rfl, ?_⟩
  intro hg
  have : (g.ha != 0) = true := by simpa using hg
  simp [this]

/-- files that already hold the global config are written again with the same content -/
theorem writeResp_same {f : RFault} {g : Glob} {d : RFiles} (h : respFires f g = false)
    (h1 : d.lua = some g.lua) (h2 : g.ha ≠ 0 → d.ha = some g.ha) : writeResp f g d = d := by
  unfold respFires at h
  simp only [Bool.or_eq_false_iff] at h
  unfold writeResp
  dsimp only
  rw [if_neg (by simp [h.1]), if_neg (by simp [h.2])]
  by_cases hg : g.ha = 0
  · simp [hg, ← h1]
  · have : (g.ha != 0) = true := by simpa using hg
    simp only [this, if_true]
    rw [← h2 hg, ← h1]

/-- what holds of the response files between the events of every history, whatever failed: while no rewrite
is owed they hold the global config; HAProxy read them unless a reload is owed or queued; haproxy.cfg never
names a file that does not exist -/
structure RInv (w : RW p) : Prop where
  a : w.fw.rewriteOwed = false → w.fw.g.committed = true → RespGood w
  b : w.fw.rewriteOwed = false → w.fw.g.committed = true → w.fw.reloadOwed = false → w.fw.pending = false →
        RespRunGood w
  c : loadable w.disk = true

theorem rinv_init : RInv ({} : RW p) :=
  ⟨fun _ h => (by cases h), fun _ h => (by cases h), rfl⟩

theorem respGate_real {ro : ROpt} (hg : ro.gated = false) (w : RW p) : respGate ro w = true := by
  simp [respGate, hg]

theorem updR_real {ro : ROpt} (hg : ro.gated = false) (sh : Sh p) (f : RFault) (w : RW p) :
    updR ro sh f w =
      { w := { fw := (upd ro.o sh (baseFault f w.glob true) (fwOf w)).w, glob := w.glob, globOld := w.glob
               globPrev := none
               disk := respDisk f w.glob true (upd ro.o sh (baseFault f w.glob true) (fwOf w)) w.disk
               run := if (upd ro.o sh (baseFault f w.glob true) (fwOf w)).reloaded then
                        loadR (respDisk f w.glob true (upd ro.o sh (baseFault f w.glob true) (fwOf w)) w.disk) else w.run }
        err := (upd ro.o sh (baseFault f w.glob true) (fwOf w)).err } := by
  unfold updR
  simp [respGate_real hg, hg]

/-- a forced rewrite only raises `rewriteOwed` -/
theorem fwOf_spec (w : RW p) :
    (fwOf w).g = w.fw.g ∧ (fwOf w).reloadOwed = w.fw.reloadOwed ∧ (fwOf w).pending = w.fw.pending ∧
    ((fwOf w).rewriteOwed = false → w.fw.rewriteOwed = false) := by
  unfold fwOf
  split
  · exact ⟨rfl, rfl, rfl, fun h => by cases h⟩
  · exact ⟨rfl, rfl, rfl, id⟩

theorem jinv_fwOf {o : Opt} {sh : Sh p} {w : RW p} (hj : JInv o sh w.fw) : JInv o sh (fwOf w) := by
  unfold fwOf
  split
  · exact ⟨⟨hj.wi.s, hj.wi.g, hj.wi.hbc⟩, hj.q, fun h => by cases h⟩
  · exact hj

theorem qrunR_real {ro : ROpt} (hg : ro.gated = false) (sh : Sh p) (f : Fault) (w : RW p) :
    qrunR ro sh f w =
      { w := { w with fw := (qrun sh f w.fw).w, run := if (qrun sh f w.fw).reloaded then loadR w.disk else w.run }
        err := (qrun sh f w.fw).err } := by
  unfold qrunR
  simp [hg]

/-- one `HAProxyUpdate`, whatever fails in it (a response file included), keeps the invariant -/
theorem updR_rinv {ro : ROpt} (hg : ro.gated = false) (hrep : ro.o.repaired = true) (sh : Sh p) (f : RFault)
    {w : RW p} (hi : RInv w) : RInv (updR ro sh f w).w := by
  rw [updR_real hg]
  obtain ⟨u1, u2, u3, u4, u5, u6⟩ := upd_flow ro.o sh (baseFault f w.glob true) (fwOf w) hrep
  obtain ⟨w1, w2, w3, w4⟩ := fwOf_spec w
  rw [w1] at u4 u6; rw [w2, w3] at u6
  generalize upd ro.o sh (baseFault f w.glob true) (fwOf w) = r at u1 u2 u3 u4 u5 u6 ⊢
  -- a response file that fails keeps the update from writing haproxy.cfg
  have hfire : respFires f w.glob = true → r.reached = true → r.wroteMain = false :=
    fun h => u5 (baseFault_fires h)
  have hnofire : r.wroteMain = true → respFires f w.glob = false := by
    intro hm
    cases hf : respFires f w.glob with
    | false => rfl
    | true => have := hfire hf (u2 hm); rw [hm] at this; cases this
  -- the files after an update that wrote haproxy.cfg
  have hgood : r.wroteMain = true →
      RespGood { fw := r.w, glob := w.glob, globOld := w.glob, disk := respDisk f w.glob true r w.disk, run := w.run } := by
    intro hm
    have hr := u2 hm
    have hd := writeResp_done w.disk (hnofire hm)
    unfold RespGood
    dsimp only
    rw [respDisk_wrote hm hr]
    exact ⟨hd.1, hd.2, rfl⟩
  -- the files after an update that did not call writeConfig
  have hskip : r.reached = false → respDisk f w.glob true r w.disk = w.disk := by
    intro hr
    have hm : r.wroteMain = false := by
      cases h : r.wroteMain with
      | false => rfl
      | true => have := u2 h; rw [hr] at this; cases this
    rw [respDisk_notMain hm]; simp [hr]
  refine ⟨?_, ?_, ?_⟩
  · intro hro _
    dsimp only at hro ⊢
    cases hr : r.reached with
    | true =>
      have := hgood (u3 hro hr)
      exact this
    | false =>
      obtain ⟨h1, h2⟩ := u4 hro hr
      have := hi.a (w4 h1) h2
      unfold RespGood at this ⊢
      dsimp only
      rw [hskip hr]; exact this
  · intro hro _ hrl hpe
    dsimp only at hro hrl hpe ⊢
    unfold RespRunGood
    dsimp only
    cases hre : r.reloaded with
    | true => simp
    | false =>
      obtain ⟨h1, h2, h3, h4⟩ := u6 hro hre hpe hrl
      have hg0 := hi.a (w4 h2) h1
      have hb0 := hi.b (w4 h2) h1 h3 h4
      have hsame : respDisk f w.glob true r w.disk = w.disk := by
        cases hr : r.reached with
        | false => exact hskip hr
        | true =>
          have hm := u3 hro hr
          rw [respDisk_wrote hm hr]
          rw [writeResp_same (hnofire hm) hg0.1 hg0.2.1]
          have := hg0.2.2
          cases hd : w.disk with
          | mk a l mn => rw [hd] at this; simp only at this; rw [this]
      simp only [Bool.false_eq_true, if_false]
      rw [hsame]; exact hb0
  · dsimp only
    cases hm : r.wroteMain with
    | true =>
      have hr := u2 hm
      have hd := writeResp_done w.disk (hnofire hm)
      rw [respDisk_wrote hm hr]
      unfold loadable
      dsimp only
      rw [hd.1]
      by_cases hg0 : w.glob.ha = 0
      · simp [hg0]
      · have : (w.glob.ha != 0) = true := by simpa using hg0
        simp [this, hd.2 hg0]
    | false =>
      rw [respDisk_notMain hm]
      split
      · exact writeResp_loadable _ _ _ hi.c
      · exact hi.c

theorem qrunR_rinv {ro : ROpt} (hg : ro.gated = false) (sh : Sh p) (f : Fault) {w : RW p} (hi : RInv w) :
    RInv (qrunR ro sh f w).w := by
  rw [qrunR_real hg]
  obtain ⟨q1, q2, q3⟩ := qrun_flow sh f w.fw
  refine ⟨?_, ?_, hi.c⟩
  · intro hro hc
    dsimp only at hro hc
    rw [q2] at hro; rw [q1] at hc
    exact hi.a hro hc
  · intro hro hc hrl hpe
    dsimp only at hro hc hrl hpe
    unfold RespRunGood
    dsimp only
    cases hre : (qrun sh f w.fw).reloaded with
    | true => simp
    | false =>
      obtain ⟨h1, h2⟩ := q3 hre hpe hrl
      rw [q2] at hro; rw [q1] at hc
      simp only [Bool.false_eq_true, if_false]
      exact hi.b hro hc h2 h1

/-- the invariant of every history of the two layers -/
structure RJInv (ro : ROpt) (sh : Sh p) (w : RW p) : Prop where
  j : JInv ro.o sh w.fw
  r : RInv w

theorem rjinv_init (ro : ROpt) (sh : Sh p) : RJInv ro sh ({} : RW p) := ⟨jinv_init ro.o sh, rinv_init⟩

theorem stepR_rjinv {ro : ROpt} {sh : Sh p} (wf : sh.WF) (hg : ro.gated = false) (hrep : ro.o.repaired = true)
    {w : RW p} (hi : RJInv ro sh w) (e : REv p) (hok : okEvR w e = true) : RJInv ro sh (stepR ro sh w e) := by
  have hupd : ∀ f : RFault, RJInv ro sh (updR ro sh f w).w := by
    intro f
    refine ⟨?_, updR_rinv hg hrep sh f hi.r⟩
    rw [updR_real hg]
    exact upd_jinv wf hrep (jinv_fwOf hi.j) _
  cases e with
  | updHa => exact hupd .haResp
  | updLua => exact hupd .luaResp
  | glob g =>
    have hc : w.fw.g.committed = false := by simpa [okEvR] using hok
    refine ⟨hi.j, ⟨?_, ?_, hi.r.c⟩⟩
    · intro _ h; have h' : w.fw.g.committed = true := h; rw [hc] at h'; cases h'
    · intro _ h; have h' : w.fw.g.committed = true := h; rw [hc] at h'; cases h'
  | ev e =>
    by_cases hu : ∃ f, e = .upd f
    · obtain ⟨f, rfl⟩ := hu
      exact hupd (.base f)
    by_cases hq : ∃ f, e = .qrun f
    · obtain ⟨f, rfl⟩ := hq
      refine ⟨?_, qrunR_rinv hg sh f hi.r⟩
      show JInv ro.o sh (qrunR ro sh f w).w.fw
      rw [qrunR_real hg]
      exact qrun_jinv hi.j f
    have hne : ∀ f, e ≠ .upd f := fun f h => hu ⟨f, h⟩
    have hnq : ∀ f, e ≠ .qrun f := fun f h => hq ⟨f, h⟩
    have hfw : (stepR ro sh w (.ev e)).fw = step ro.o sh w.fw e ∧ (stepR ro sh w (.ev e)).disk = w.disk ∧
        (stepR ro sh w (.ev e)).run = w.run ∧ (e ≠ .full → (stepR ro sh w (.ev e)).glob = w.glob) := by
      cases e with
      | upd f => exact absurd rfl (hne f)
      | qrun f => exact absurd rfl (hnq f)
      | full => exact ⟨rfl, rfl, rfl, fun h => absurd rfl h⟩
      | _ => exact ⟨rfl, rfl, rfl, fun _ => rfl⟩
    obtain ⟨f1, f2, f3, f4⟩ := step_batch_flags ro.o sh w.fw e hne hnq
    have hok' : okEv w.fw e = true := hok
    refine ⟨?_, ⟨?_, ?_, ?_⟩⟩
    · rw [hfw.1]; exact jinv_step_batch wf hi.j e hok' hne hnq
    · intro hro hc
      rw [hfw.1] at hro hc
      rw [f1] at hro
      obtain ⟨hc0, hnf⟩ := f4 hc
      have := hi.r.a hro hc0
      unfold RespGood at this ⊢
      rw [hfw.2.1, hfw.2.2.2 hnf]; exact this
    · intro hro hc hrl hpe
      rw [hfw.1] at hro hc hrl hpe
      rw [f1] at hro; rw [f2] at hrl; rw [f3] at hpe
      obtain ⟨hc0, hnf⟩ := f4 hc
      have := hi.r.b hro hc0 hrl hpe
      unfold RespRunGood at this ⊢
      rw [hfw.2.1, hfw.2.2.1]; exact this
    · rw [hfw.2.1]; exact hi.r.c

theorem runR_rjinv {ro : ROpt} {sh : Sh p} (wf : sh.WF) (hg : ro.gated = false) (hrep : ro.o.repaired = true)
    (evs : List (REv p)) : ∀ {w : RW p}, RJInv ro sh w → allOkR ro sh w evs = true → RJInv ro sh (runR ro sh w evs) := by
  induction evs with
  | nil => intro w h _; exact h
  | cons e evs ih =>
    intro w h hok
    simp only [allOkR, Bool.and_eq_true] at hok
    exact ih (stepR_rjinv wf hg hrep h e hok.1) hok.2

end HapVerif.C12
