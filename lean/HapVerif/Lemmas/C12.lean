import HapVerif.Model.C12
import HapVerif.Lemmas.C05
/-!
Lemmas for C12: the invariant that holds between the events of a history whose faults are all
"good" (admin-socket faults inside `HAProxyUpdate`, reload faults inside the reload-queue worker),
and what one `HAProxyUpdate` establishes from it.
-/
namespace HapVerif.C12
open HapVerif.C05

variable {p : Nat}

theorem good_cases {f : Fault} (h : f.good = true) : f = .none ∨ ∃ l, f = .admin l := by
  cases f <;> simp_all [Fault.good]

/-- what the files must hold for the tcp service -/
def TcpGood (t : Tcp) : Prop := (t.want ≠ 0 → t.map = t.want ∧ t.crt = t.want) ∧ t.main = t.want

/-- invariant between events (good faults only) -/
structure FInv (o : Opt) (sh : Sh p) (w : FW p) : Prop where
  b : Inv sh w.g.w
  h : HInv w.h
  hm : w.g.committed = true → w.h.mapsNil = false
  hbc : ∀ x, w.h.bc x = w.h.bcC x
  mh : w.g.committed = true → w.mainHosts = anyFin fun x => (w.h.maps x).isSome
  t1 : w.tcp.changed = false → w.g.committed = true → TcpGood w.tcp
  t2 : w.g.committed = false → w.tcp.changed = false → w.tcp.want = 0
  bm1 : ∀ x c, w.g.w.store.add x = none → w.g.w.store.items x = some c → o.needACL (conf c) = true →
          w.bm x = some (conf c)
  bm2 : ∀ x d, w.g.w.store.del x = some d → o.needACL (conf d) = true → w.bm x = some (conf d)
  pc1 : ∀ x, w.g.w.store.add x = none → (w.g.w.store.items x).isSome = true → w.pcI x = true ∧ w.pmI x = true
  pc2 : ∀ x, (w.g.w.store.del x).isSome = true → w.pcD x = true ∧ w.pmD x = true
  q : o.queue = false → w.pending = false
  r : w.pending = true ∨ RunGood sh w

theorem finv_init (o : Opt) (sh : Sh p) : FInv o sh ({} : FW p) := by
  refine ⟨?_, ?_, ?_, ?_, ?_, ?_, ?_, ?_, ?_, ?_, ?_, ?_, ?_⟩
  · refine ⟨?_, ?_, ?_, ?_, ?_, ?_, ?_⟩ <;> intros <;> simp_all [emp]
  · refine ⟨?_, ?_, ?_, ?_⟩ <;> intro h <;> simp at h
  · intro h; cases h
  · intro x; rfl
  · intro h; cases h
  · intro _ h; cases h
  · intro _ _; rfl
  · intro x c _ h; simp [emp] at h
  · intro x d h; simp [emp] at h
  · intro x _ h; simp [emp] at h
  · intro x h; simp [emp] at h
  · intro _; rfl
  · right
    refine ⟨?_, ?_, ?_, rfl, rfl, rfl⟩
    · intro x c h; simp [load, emp] at h
    · intro x; simp [load]
    · intro x; rfl

/-! ### events of a batch -/

theorem hacquire_maps (s : HStore p) (x : Fin p) (c : Nat) :
    (s.acquire x c).maps = s.maps ∧ (s.acquire x c).mapsNil = s.mapsNil ∧
    (s.acquire x c).bc = s.bc ∧ (s.acquire x c).bcC = s.bcC := by
  unfold HStore.acquire; cases s.items x <;> exact ⟨rfl, rfl, rfl, rfl⟩

theorem hremoveOne_maps (s : HStore p) (x : Fin p) :
    (s.removeOne x).maps = s.maps ∧ (s.removeOne x).mapsNil = s.mapsNil ∧
    (s.removeOne x).bc = s.bc ∧ (s.removeOne x).bcC = s.bcC := by
  unfold HStore.removeOne; cases s.items x <;> exact ⟨rfl, rfl, rfl, rfl⟩

theorem hremoveAll_maps (xs : List (Fin p)) : ∀ s : HStore p,
    (s.removeAll xs).maps = s.maps ∧ (s.removeAll xs).mapsNil = s.mapsNil ∧
    (s.removeAll xs).bc = s.bc ∧ (s.removeAll xs).bcC = s.bcC := by
  induction xs with
  | nil => intro s; exact ⟨rfl, rfl, rfl, rfl⟩
  | cons x xs ih =>
    intro s
    have h1 := hremoveOne_maps s x
    have h2 := ih (s.removeOne x)
    simp only [HStore.removeAll, List.foldl_cons] at h2 ⊢
    exact ⟨h2.1.trans h1.1, h2.2.1.trans h1.2.1, h2.2.2.1.trans h1.2.2.1, h2.2.2.2.trans h1.2.2.2⟩

/-- `RunGood` only looks at the files and at what HAProxy holds -/
theorem runGood_congr {sh : Sh p} {w w' : FW p} (hd : w'.g.w.disk = w.g.w.disk) (hmh : w'.mainHosts = w.mainHosts)
    (hmaps : w'.h.maps = w.h.maps) (hbm : w'.bm = w.bm) (ht1 : w'.tcp.map = w.tcp.map)
    (ht2 : w'.tcp.crt = w.tcp.crt) (ht3 : w'.tcp.main = w.tcp.main) (hr : w'.run = w.run)
    (h : RunGood sh w) : RunGood sh w' := by
  obtain ⟨h1, h2, h3, h4, h5, h6⟩ := h
  refine ⟨?_, ?_, ?_, ?_, ?_, ?_⟩
  · intro x c hx; simp only [load, hd] at hx; rw [hr]; exact h1 x c hx
  · intro x; simp only [load, hmh, hmaps, hr]; exact h2 x
  · intro x; simp only [load, hbm, hr]; exact h3 x
  · rw [hr, ht1]; exact h4
  · rw [hr, ht2]; exact h5
  · rw [hr, ht3]; exact h6

theorem removeAll_items_of_not_mem (sh : Sh p) (xs : List (Fin p)) : ∀ (s : Store p) (y : Fin p), y ∉ xs →
    (removeAll sh s xs).items y = s.items y ∧ (removeAll sh s xs).del y = s.del y := by
  induction xs with
  | nil => intro s y _; exact ⟨rfl, rfl⟩
  | cons x xs ih =>
    intro s y hy
    have hyx : y ≠ x := fun h => hy (h ▸ List.mem_cons_self)
    have hyxs : y ∉ xs := fun h => hy (List.mem_cons_of_mem _ h)
    have := ih (removeOne sh s x) y hyxs
    simp only [removeAll, List.foldl_cons] at this ⊢
    rw [this.1, this.2]
    unfold removeOne
    cases s.items x <;> simp [flag, setM, hyx]

theorem removeAll_add (sh : Sh p) (xs : List (Fin p)) : ∀ s : Store p, (removeAll sh s xs).add = s.add := by
  induction xs with
  | nil => intro s; rfl
  | cons x xs ih =>
    intro s
    have := ih (removeOne sh s x)
    simp only [removeAll, List.foldl_cons] at this ⊢
    rw [this, removeOne_add]

/-- after `RemoveAll xs` a removed name has no item and its deleted object is the one it had (or the one
already deleted before); a name that had no item keeps its deleted object -/
theorem removeAll_mem (sh : Sh p) (xs : List (Fin p)) : ∀ (s : Store p) (y : Fin p), y ∈ xs →
    (removeAll sh s xs).items y = none ∧
    (removeAll sh s xs).del y = (match s.items y with | some v => some v | none => s.del y) := by
  induction xs with
  | nil => intro s y hy; cases hy
  | cons x xs ih =>
    intro s y hy
    simp only [removeAll, List.foldl_cons]
    by_cases hyx : y = x
    · subst hyx
      by_cases hmem : y ∈ xs
      · have := ih (removeOne sh s y) y hmem
        simp only [removeAll] at this
        rw [this.1, this.2]
        refine ⟨rfl, ?_⟩
        unfold removeOne
        cases hi : s.items y <;> simp [flag, setM, hi]
      · have := removeAll_items_of_not_mem sh xs (removeOne sh s y) y hmem
        simp only [removeAll] at this
        rw [this.1, this.2]
        unfold removeOne
        cases hi : s.items y <;> simp [flag, setM, hi]
    · have hmem : y ∈ xs := by
        rcases List.mem_cons.1 hy with h | h
        · exact absurd h hyx
        · exact h
      have := ih (removeOne sh s x) y hmem
      simp only [removeAll] at this
      rw [this.1, this.2]
      refine ⟨rfl, ?_⟩
      unfold removeOne
      cases s.items x <;> simp [flag, setM, hyx]

theorem step_inv_batch {o : Opt} {sh : Sh p} (wf : sh.WF) {w : FW p} (hi : FInv o sh w) (e : Ev p)
    (hok : okEv w e = true) (hne : ∀ f, e ≠ .upd f) (hnq : ∀ f, e ≠ .qrun f) : FInv o sh (step o sh w e) := by
  obtain ⟨hb, hh, hhm, hbc, hmh, ht1, ht2, hbm1, hbm2, hpc1, hpc2, hq, hr⟩ := hi
  cases e with
  | upd f => exact absurd rfl (hne f)
  | qrun f => exact absurd rfl (hnq f)
  | acq x c =>
    have hb' := acquire_inv hb x c
    refine ⟨hb', hh, hhm, hbc, hmh, ht1, ht2, ?_, ?_, ?_, ?_, hq, ?_⟩
    · intro y d hy1 hy2 hy3
      simp only [step, setStore] at hy1 hy2 ⊢
      unfold acquire at hy1 hy2
      cases hix : w.g.w.store.items x with
      | some v => simp only [hix] at hy1 hy2; exact hbm1 y d hy1 hy2 hy3
      | none =>
        simp only [hix, flag, setM] at hy1 hy2
        by_cases hyx : y = x
        · simp [hyx] at hy1
        · simp only [hyx, if_false] at hy1 hy2; exact hbm1 y d hy1 hy2 hy3
    · intro y d hy1 hy2
      simp only [step, setStore] at hy1 ⊢
      unfold acquire at hy1
      cases hix : w.g.w.store.items x with
      | some v => simp only [hix] at hy1; exact hbm2 y d hy1 hy2
      | none => simp only [hix, flag] at hy1; exact hbm2 y d hy1 hy2
    · intro y hy1 hy2
      simp only [step, setStore] at hy1 hy2 ⊢
      unfold acquire at hy1 hy2
      cases hix : w.g.w.store.items x with
      | some v =>
        simp only [hix] at hy1 hy2
        have : ¬ (y = x ∧ (some v : Option Content) = none) := by simp
        simp only [this, if_false]; exact hpc1 y hy1 hy2
      | none =>
        simp only [hix, flag, setM] at hy1 hy2
        by_cases hyx : y = x
        · simp [hyx] at hy1
        · simp only [hyx, if_false] at hy1 hy2
          simp only [hyx, false_and, if_false]; exact hpc1 y hy1 hy2
    · intro y hy
      simp only [step, setStore] at hy ⊢
      unfold acquire at hy
      cases hix : w.g.w.store.items x with
      | some v => simp only [hix] at hy; exact hpc2 y hy
      | none => simp only [hix, flag] at hy; exact hpc2 y hy
    · rcases hr with hr | hr
      · exact Or.inl hr
      · exact Or.inr (runGood_congr (w := w) rfl rfl rfl rfl rfl rfl rfl rfl hr)
  | rem xs =>
    have hadd : ∀ x ∈ xs, w.g.w.store.add x = none := by
      intro x hx
      simp only [okEv, List.all_eq_true] at hok
      simpa using hok x hx
    have hb' := removeAll_inv xs hb hadd
    refine ⟨hb', hh, hhm, hbc, hmh, ht1, ht2, ?_, ?_, ?_, ?_, hq, ?_⟩
    · intro y d hy1 hy2 hy3
      simp only [step, setStore] at hy1 hy2 ⊢
      rw [removeAll_add] at hy1
      by_cases hmem : y ∈ xs
      · rw [(removeAll_mem sh xs _ y hmem).1] at hy2; cases hy2
      · rw [(removeAll_items_of_not_mem sh xs _ y hmem).1] at hy2; exact hbm1 y d hy1 hy2 hy3
    · intro y d hy1 hy2
      simp only [step, setStore] at hy1 ⊢
      by_cases hmem : y ∈ xs
      · rw [(removeAll_mem sh xs _ y hmem).2] at hy1
        cases hiy : w.g.w.store.items y with
        | some v =>
          simp only [hiy, Option.some.injEq] at hy1
          subst hy1
          exact hbm1 y v (hadd y hmem) hiy hy2
        | none => simp only [hiy] at hy1; exact hbm2 y d hy1 hy2
      · rw [(removeAll_items_of_not_mem sh xs _ y hmem).2] at hy1; exact hbm2 y d hy1 hy2
    · intro y hy1 hy2
      simp only [step, setStore] at hy1 hy2 ⊢
      rw [removeAll_add] at hy1
      by_cases hmem : y ∈ xs
      · rw [(removeAll_mem sh xs _ y hmem).1] at hy2; cases hy2
      · rw [(removeAll_items_of_not_mem sh xs _ y hmem).1] at hy2; exact hpc1 y hy1 hy2
    · intro y hy
      simp only [step, setStore] at hy ⊢
      by_cases hmem : y ∈ xs
      · cases hiy : w.g.w.store.items y with
        | some v =>
          have hc : xs.contains y = true := by simpa using hmem
          simp only [hc, hiy, Option.isSome_some, and_self, if_true]
          exact hpc1 y (hadd y hmem) (by simp [hiy])
        | none =>
          rw [(removeAll_mem sh xs _ y hmem).2] at hy
          simp only [hiy] at hy
          simp only [hiy, Option.isSome_none, Bool.false_eq_true, and_false, if_false]
          exact hpc2 y hy
      · rw [(removeAll_items_of_not_mem sh xs _ y hmem).2] at hy
        have hc : ¬ (xs.contains y = true) := by simpa using hmem
        simp only [hc, false_and, if_false]
        exact hpc2 y hy
    · rcases hr with hr | hr
      · exact Or.inl hr
      · exact Or.inr (runGood_congr (w := w) rfl rfl rfl rfl rfl rfl rfl rfl hr)
  | hacq x c =>
    have hm := hacquire_maps w.h x c
    refine ⟨hb, hacquire_inv hh x c, ?_, ?_, ?_, ht1, ht2, hbm1, hbm2, hpc1, hpc2, hq, ?_⟩
    · intro hc; simp only [step]; rw [hm.2.1]; exact hhm hc
    · intro y; simp only [step]; rw [hm.2.2.1, hm.2.2.2]; exact hbc y
    · intro hc; simp only [step]; rw [hm.1]; exact hmh hc
    · rcases hr with hr | hr
      · exact Or.inl hr
      · exact Or.inr (runGood_congr (w := w) rfl rfl hm.1 rfl rfl rfl rfl rfl hr)
  | hrem xs =>
    have hm := hremoveAll_maps xs w.h
    have hadd : ∀ x ∈ xs, w.h.add x = none := by
      intro x hx
      simp only [okEv, List.all_eq_true] at hok
      simpa using hok x hx
    refine ⟨hb, hremoveAll_inv xs hh hadd, ?_, ?_, ?_, ht1, ht2, hbm1, hbm2, hpc1, hpc2, hq, ?_⟩
    · intro hc; simp only [step]; rw [hm.2.1]; exact hhm hc
    · intro y; simp only [step]; rw [hm.2.2.1, hm.2.2.2]; exact hbc y
    · intro hc; simp only [step]; rw [hm.1]; exact hmh hc
    · rcases hr with hr | hr
      · exact Or.inl hr
      · exact Or.inr (runGood_congr (w := w) rfl rfl hm.1 rfl rfl rfl rfl rfl hr)
  | tcp v =>
    refine ⟨hb, hh, hhm, hbc, hmh, ?_, ?_, hbm1, hbm2, hpc1, hpc2, hq, ?_⟩
    · intro hc; simp [step] at hc
    · intro _ hc; simp [step] at hc
    · rcases hr with hr | hr
      · exact Or.inl hr
      · exact Or.inr (runGood_congr (w := w) rfl rfl rfl rfl rfl rfl rfl rfl hr)
  | full =>
    have hclean : ∀ x, w.g.w.store.add x = none ∧ w.g.w.store.del x = none := by
      intro x
      simp only [okEv, backChanged, Bool.not_eq_true'] at hok
      have := (anyFin_false_iff _).1 hok x
      cases ha : w.g.w.store.add x <;> cases hd : w.g.w.store.del x <;> simp_all
    have hb' := clear_inv wf hb hclean
    refine ⟨hb', hclear_inv w.h, ?_, ?_, ?_, ?_, ?_, ?_, ?_, ?_, ?_, hq, ?_⟩
    · intro hc; simp [step] at hc
    · intro y; exact hbc y
    · intro hc; simp [step] at hc
    · intro _ hc; simp [step] at hc
    · intro _ _; rfl
    · intro y d _ hy; simp [step, clear, emp] at hy
    · intro y d hy1 hy2
      simp only [step, clear] at hy1 ⊢
      exact hbm1 y d (hclean y).1 hy1 hy2
    · intro y _ hy; simp [step, clear, emp] at hy
    · intro y hy
      simp only [step, clear] at hy ⊢
      exact hpc1 y (hclean y).1 hy
    · rcases hr with hr | hr
      · exact Or.inl hr
      · exact Or.inr (runGood_congr (w := w) rfl rfl rfl rfl rfl rfl rfl rfl hr)

/-! ### one `HAProxyUpdate` without a write fault -/

/-- files and flags after stage 4 when no write fails -/
def w4Of (o : Opt) (sh : Sh p) (w : FW p) : FW p :=
  let s0 := shrink sh w.g.w.store
  let w := shrinkFlags w
  let w1 : FW p := if w.tcp.changed then { w with tcp := { w.tcp with map := w.tcp.want } } else w
  let w1 : FW p := { w1 with h := hWrite w.h.shrink }
  let w2 : FW p := if backChanged s0 then mapFlags s0 w1 else w1
  let w3 : FW p := if backChanged s0 then bmWrite o s0 w2 else w2
  if w.tcp.want != 0 then { w3 with tcp := { w3.tcp with crt := w.tcp.want } } else w3

theorem pre_good (o : Opt) (sh : Sh p) (w : FW p) {f : Fault} (hf : f.good = true) :
    pre o sh f w = .ok (dynStage sh f.bad (shrinkFlags w) (shrink sh w.g.w.store) w.h.shrink
      (hWrite w.h.shrink) (w4Of o sh w)) := by
  rcases good_cases hf with rfl | ⟨l, rfl⟩ <;> simp [pre, w4Of, shrinkFlags]

section w4
variable (o : Opt) (sh : Sh p) (w : FW p)

local macro "w4_cases" : tactic => `(tactic|
  (by_cases h1 : w.tcp.changed = true <;> by_cases h2 : backChanged (shrink sh w.g.w.store) = true <;>
    by_cases h3 : (w.tcp.want != 0) = true <;>
    simp [w4Of, shrinkFlags, mapFlags, bmWrite, h1, h2, h3]))

theorem w4Of_g : (w4Of o sh w).g = w.g := by w4_cases
theorem w4Of_h : (w4Of o sh w).h = hWrite w.h.shrink := by w4_cases
theorem w4Of_run : (w4Of o sh w).run = w.run := by w4_cases
theorem w4Of_pending : (w4Of o sh w).pending = w.pending := by w4_cases
theorem w4Of_mainHosts : (w4Of o sh w).mainHosts = w.mainHosts := by w4_cases
theorem w4Of_pcD : (w4Of o sh w).pcD = w.pcD := by w4_cases
theorem w4Of_pmD : (w4Of o sh w).pmD = w.pmD := by w4_cases
theorem w4Of_tcp_want : (w4Of o sh w).tcp.want = w.tcp.want := by w4_cases
theorem w4Of_tcp_changed : (w4Of o sh w).tcp.changed = w.tcp.changed := by w4_cases
theorem w4Of_tcp_main : (w4Of o sh w).tcp.main = w.tcp.main := by w4_cases
theorem w4Of_tcp_map : (w4Of o sh w).tcp.map = if w.tcp.changed then w.tcp.want else w.tcp.map := by w4_cases
theorem w4Of_tcp_crt : (w4Of o sh w).tcp.crt = if w.tcp.want != 0 then w.tcp.want else w.tcp.crt := by w4_cases
theorem w4Of_bm (x : Fin p) : (w4Of o sh w).bm x =
    if backChanged (shrink sh w.g.w.store) then
      (match (shrink sh w.g.w.store).add x with
        | some c => if o.needACL (conf c) then some (conf c) else w.bm x
        | none => w.bm x)
    else w.bm x := by
  w4_cases <;> (cases (shrink sh w.g.w.store).add x <;> rfl)
theorem w4Of_pmI (x : Fin p) : (w4Of o sh w).pmI x =
    ((backChanged (shrink sh w.g.w.store) && ((shrink sh w.g.w.store).add x).isSome) ||
      (if matched w.g.w.store x then w.pmD x else w.pmI x)) := by w4_cases
theorem w4Of_pcI (x : Fin p) : (w4Of o sh w).pcI x =
    ((backChanged (shrink sh w.g.w.store) && ((shrink sh w.g.w.store).add x).isSome) ||
      (if matched w.g.w.store x then w.pcD x else w.pcI x)) := by w4_cases

end w4

/-! ### the dynamic update -/

theorem pair?_eq_some {s : Store p} {x : Fin p} {d a : Content} :
    pair? s x = some (d, a) ↔ s.del x = some d ∧ s.add x = some a ∧ a.slots ≤ d.slots := by
  unfold pair?
  cases hd : s.del x with
  | none => simp
  | some d' =>
    cases ha : s.add x with
    | none => simp
    | some a' =>
      by_cases hle : a'.slots ≤ d'.slots
      · simp only [hle, if_true, Option.some.injEq, Prod.mk.injEq]
        constructor
        · rintro ⟨rfl, rfl⟩; exact ⟨rfl, rfl, hle⟩
        · rintro ⟨rfl, rfl, _⟩; exact ⟨rfl, rfl⟩
      · simp only [hle, if_false, Option.some.injEq]
        constructor
        · intro h; cases h
        · rintro ⟨rfl, rfl, h⟩; exact absurd h hle

theorem pair?_none_of_add_none {s : Store p} {x : Fin p} (h : s.add x = none) : pair? s x = none := by
  unfold pair?; cases s.del x <;> simp [h]

theorem dynStore_items (sh : Sh p) (s : Store p) (x : Fin p) :
    (dynStore sh s).items x = match pair? s x with
      | some da => some { cfg := da.2.cfg, slots := da.1.slots }
      | none => s.items x := by
  unfold dynStore; simp only []; cases hp : pair? s x <;> simp

theorem dynStore_add (sh : Sh p) (s : Store p) (x : Fin p) :
    (dynStore sh s).add x = match pair? s x with
      | some da => some { cfg := da.2.cfg, slots := da.1.slots }
      | none => s.add x := by
  unfold dynStore; simp only []; cases hp : pair? s x <;> simp

theorem dynStore_del (sh : Sh p) (s : Store p) : (dynStore sh s).del = s.del := rfl
theorem dynStore_changed (sh : Sh p) (s : Store p) : (dynStore sh s).changed = s.changed := rfl

theorem dynStore_add_isSome (sh : Sh p) (s : Store p) (x : Fin p) :
    ((dynStore sh s).add x).isSome = (s.add x).isSome := by
  rw [dynStore_add]
  cases hp : pair? s x with
  | none => rfl
  | some da =>
    obtain ⟨d, a⟩ := da
    have := (pair?_eq_some.1 hp).2.1
    simp [this]

/-- the dynamic update keeps the C05 invariant: the added object of a pair is replaced, in `items`,
`itemsAdd` and its shard, by one that differs in the number of empty slots only -/
theorem dynStore_inv {sh : Sh p} {s : Store p} {d : Disk p} (h : Inv sh { store := s, disk := d }) :
    Inv sh { store := dynStore sh s, disk := d } := by
  obtain ⟨ha, hb, hb2, hc, he, hs1, hg⟩ := h
  refine ⟨?_, ?_, ?_, ?_, ?_, ?_, ?_⟩
  · intro x c hx
    simp only [dynStore_add, dynStore_items] at hx ⊢
    cases hp : pair? s x with
    | none => simp only [hp] at hx ⊢; exact ha x c hx
    | some da => simp only [hp] at hx ⊢; exact hx
  · intro x hx hd
    simp only [dynStore_add, dynStore_items] at hx ⊢
    cases hp : pair? s x with
    | none => simp only [hp] at hx ⊢; exact hb x hx hd
    | some da => simp [hp] at hx
  · intro x hx hd
    simp only [dynStore_add, dynStore_items] at hx ⊢
    cases hp : pair? s x with
    | none => simp only [hp] at hx ⊢; exact hb2 x hx hd
    | some da => simp [hp] at hx
  · exact hc
  · intro hn x hx
    have : ((dynStore sh s).add x).isSome = (s.add x).isSome := dynStore_add_isSome sh s x
    simp only [] at hx
    rw [this] at hx
    exact he hn x hx
  · intro hn k x
    simp only [dynStore_items]
    show (dynStore sh s).shards k x = _
    unfold dynStore
    simp only []
    cases hp : pair? s x with
    | none => simp only [Option.map_none]; exact hs1 hn k x
    | some da =>
      simp only [Option.map_some]
      by_cases hk : sh.shardOf x = k
      · simp [hk, hn]
      · have hk' : ¬ (k = sh.shardOf x) := fun h => hk h.symm
        simp only [hn, ne_eq, not_false_eq_true, hk', and_false, if_false, hk]
        have := hs1 hn k x
        simp only [hk, if_false] at this
        exact this
  · exact hg

/-- a name has an item after the dynamic update iff it had one before -/
theorem dynStore_items_isSome {sh : Sh p} {s : Store p} {d : Disk p} (h : Inv sh { store := s, disk := d })
    (x : Fin p) : ((dynStore sh s).items x).isSome = (s.items x).isSome := by
  rw [dynStore_items]
  cases hp : pair? s x with
  | none => rfl
  | some da =>
    obtain ⟨d', a⟩ := da
    have : s.items x = some a := h.a x a (pair?_eq_some.1 hp).2.1
    simp [this]

/-- and its `conf` is the same -/
theorem dynStore_items_conf {sh : Sh p} {s : Store p} {d : Disk p} (h : Inv sh { store := s, disk := d })
    {x : Fin p} {c : Content} (hx : (dynStore sh s).items x = some c) :
    ∃ c0, s.items x = some c0 ∧ conf c0 = conf c := by
  rw [dynStore_items] at hx
  cases hp : pair? s x with
  | none => rw [hp] at hx; exact ⟨c, hx, rfl⟩
  | some da =>
    obtain ⟨d', a⟩ := da
    rw [hp] at hx
    simp only [Option.some.injEq] at hx
    subst hx
    exact ⟨a, h.a x a (pair?_eq_some.1 hp).2.1, rfl⟩

theorem anyRange_false {f : Nat → Bool} {lo : Nat} : ∀ {n : Nat}, anyRange f lo n = false →
    ∀ i, i < n → f (lo + i) = false := by
  intro n
  induction n with
  | zero => intro _ i hi; omega
  | succ n ih =>
    intro h i hi
    simp only [anyRange, Bool.or_eq_false_iff] at h
    by_cases hin : i = n
    · subst hin; exact h.1
    · exact ih h.2 i (by omega)

/-! ### the state after the deferred `Commit()` -/

theorem updateWith_eq (s : HStore p) : s.updateWith true = hCommit (hWrite s.shrink) := by
  unfold HStore.updateWith hCommit hWrite hSkip
  simp only [Bool.true_and]

theorem want_isSome (s : HStore p) (x : Fin p) : (s.want x).isSome = (s.items x).isSome := by
  unfold HStore.want; cases s.items x <;> rfl

theorem commitAll_spec {o : Opt} {sh : Sh p} {X : FW p} {s : Store p} {hs : HStore p}
    (hs1 : sh.n ≠ 0 → ∀ k x, s.shards k x = if sh.shardOf x = k then s.items x else none)
    (hgood : ∀ k x, X.g.w.disk k x = itemsIn sh s k x)
    (hXh : X.h.maps = hs.maps)
    (hH : HInv (hCommit hs)) (hmaps : ∀ x, hs.maps x = (hCommit hs).want x) (hnil : hs.mapsNil = false)
    (hmh : X.mainHosts = anyFin fun x => (hs.maps x).isSome)
    (htcp : TcpGood X.tcp)
    (hbm : ∀ x c, s.items x = some c → o.needACL (conf c) = true → X.bm x = some (conf c))
    (hpc : ∀ x, (s.items x).isSome = true → X.pcI x = true ∧ X.pmI x = true)
    (hq : o.queue = false → X.pending = false)
    (hr : X.pending = true ∨ RunGood sh X) :
    FInv o sh (commitAll X s hs) ∧ DiskGood o sh (commitAll X s hs) := by
  have hrun : (commitAll X s hs).pending = true ∨ RunGood sh (commitAll X s hs) := by
    rcases hr with hr | hr
    · exact Or.inl hr
    · exact Or.inr (runGood_congr (w := X) rfl rfl hXh.symm rfl rfl rfl rfl rfl hr)
  have hmh' : (commitAll X s hs).mainHosts = hasHosts (commitAll X s hs).h := by
    show X.mainHosts = hasHosts (hCommit hs)
    rw [hmh]
    unfold hasHosts
    congr 1
    funext x
    rw [hmaps x, want_isSome]
  refine ⟨⟨?_, hH, fun _ => hnil, fun _ => rfl, fun _ => hmh, fun _ _ => htcp, ?_, ?_, ?_, ?_, ?_, hq, hrun⟩,
    ⟨hgood, hmaps, hmh', htcp.1, htcp.2, hbm⟩⟩
  · refine ⟨?_, ?_, ?_, ?_, ?_, ?_, ?_⟩
    · intro x c hx; simp [commitAll, commit, emp] at hx
    · intro x _ _
      have := hgood (sh.shardOf x) x
      simp only [itemsIn, if_true] at this
      exact this.symm
    · intro x _ hx; simp [commitAll, commit, emp] at hx
    · intro x d hx; simp [commitAll, commit, emp] at hx
    · intro _ x hx; simp [commitAll, commit, emp] at hx
    · intro hn k x; exact hs1 hn k x
    · intro k x hk
      have := hgood k x
      simp only [itemsIn, hk, if_false] at this
      exact this
  · intro h; cases h
  · intro x c _ hx hn; exact hbm x c hx hn
  · intro x d hx; simp [commitAll, commit, emp] at hx
  · intro x _ hx; exact hpc x hx
  · intro x hx; simp [commitAll, commit, emp] at hx

/-! ### stages 6 to 8 without a fault in them -/

theorem good_not {f : Fault} (hf : f.good = true) :
    (f == .mainCfg) = false ∧ f.isReload = false ∧ (∀ k, f.isShard k = false) := by
  rcases good_cases hf with rfl | ⟨l, rfl⟩ <;> exact ⟨by simp, rfl, fun _ => rfl⟩

theorem writeCfg_none (sh : Sh p) (s : Store p) (d : Disk p) : writeCfg sh s d none = write sh s d := by
  unfold writeCfg write
  split
  · rfl
  · funext k; simp

theorem shardLim_none {o : Opt} {sh : Sh p} {f : Fault} (hf : f.good = true) {s : Store p} {pm : Fin p → Bool}
    (hbad : ∀ x, badX o s pm x = false) : shardLim o sh f s pm = none := by
  unfold shardLim
  split
  · rfl
  · rw [List.find?_eq_none]
    intro k _
    have h1 := (good_not hf).2.2 k
    have h2 : (anyFin fun x => decide (sh.shardOf x = k) && badX o s pm x) = false := by
      rw [anyFin_false_iff]; intro x; simp [hbad x]
    simp [h1, h2]

/-- what is known about the running HAProxy in terms of the in-memory model (used when no reload follows) -/
def RunMatches (s : Store p) (X : FW p) : Prop :=
  (∀ x c, s.items x = some c → X.run.back x = some c) ∧
  (∀ x, X.run.maps x = if X.mainHosts then X.h.maps x else none) ∧
  (∀ x, X.run.bm x = X.bm x) ∧
  X.run.tcpMap = X.tcp.map ∧ X.run.tcpCrt = X.tcp.crt ∧ X.run.tcpMain = X.tcp.main

theorem runGood_load {sh : Sh p} {X : FW p} (h : X.run = load sh X) : RunGood sh X := by
  refine ⟨?_, ?_, ?_, ?_, ?_, ?_⟩
  · intro x c hx; rw [h]; exact hx
  · intro x; rw [h]
  · intro x; rw [h]
  · rw [h]; rfl
  · rw [h]; rfl
  · rw [h]; rfl

theorem runGood_of_matches {sh : Sh p} {X : FW p} {s : Store p}
    (hgood : ∀ k x, X.g.w.disk k x = itemsIn sh s k x) (h : RunMatches s X) : RunGood sh X := by
  obtain ⟨h1, h2, h3, h4, h5, h6⟩ := h
  refine ⟨?_, h2, h3, h4, h5, h6⟩
  intro x c hx
  simp only [load] at hx
  rw [hgood] at hx
  simp only [itemsIn, if_true] at hx
  exact h1 x c hx

theorem post_good {o : Opt} {sh : Sh p} (wf : sh.WF) {f : Fault} (hf : f.good = true) {m : Mid p}
    (hinv : Inv sh { store := m.s, disk := m.w.g.w.disk })
    (hbad : ∀ x, badX o m.s m.w.pmI x = false)
    (hXh : m.w.h.maps = m.hs.maps)
    (hH : HInv (hCommit m.hs)) (hmaps : ∀ x, m.hs.maps x = (hCommit m.hs).want x) (hnil : m.hs.mapsNil = false)
    (htcp : m.w.tcp.want ≠ 0 → m.w.tcp.map = m.w.tcp.want ∧ m.w.tcp.crt = m.w.tcp.want)
    (hbm : ∀ x c, m.s.items x = some c → o.needACL (conf c) = true → m.w.bm x = some (conf c))
    (hpc : ∀ x, (m.s.items x).isSome = true → m.w.pcI x = true ∧ m.w.pmI x = true)
    (hq : o.queue = false → m.w.pending = false)
    (hskip : m.updated = true → m.sends = 0 → m.bchg = false → ∀ k x, m.w.g.w.disk k x = itemsIn sh m.s k x)
    (hupd : m.updated = true → m.w.tcp.main = m.w.tcp.want ∧
        m.w.mainHosts = (anyFin fun x => (m.hs.maps x).isSome) ∧ (m.w.pending = true ∨ RunMatches m.s m.w)) :
    (post o sh f m).err = false ∧ FInv o sh (post o sh f m).w ∧ DiskGood o sh (post o sh f m).w := by
  obtain ⟨hmc, hrl, _⟩ := good_not hf
  have hmb : (decide (sh.n = 0) && anyFin (badX o m.s m.w.pmI)) = false := by
    have : anyFin (badX o m.s m.w.pmI) = false := by rw [anyFin_false_iff]; exact hbad
    simp [this]
  have hlim := shardLim_none (sh := sh) hf hbad
  unfold post
  simp only [hmc, hmb, Bool.or_false, Bool.and_false, Bool.false_eq_true, if_false, hlim, Option.isSome_none,
    writeCfg_none]
  -- the files after stage 6
  by_cases hdw : (!m.updated || decide (0 < m.sends) || m.bchg) = true
  · simp only [hdw, if_true]
    have hgood : ∀ k x, write sh m.s m.w.g.w.disk k x = itemsIn sh m.s k x := write_good wf hinv
    have hpcI : ∀ x, (m.s.items x).isSome = true → (rendered sh m.s none x || m.w.pcI x) = true ∧ m.w.pmI x = true := by
      intro x hx; have := hpc x hx; simp [this.1, this.2]
    by_cases hu : m.updated = true
    · simp only [hu, if_true]
      refine ⟨by first | rfl | trivial, ?_⟩
      obtain ⟨hmain, hmhs, hrun⟩ := hupd hu
      refine commitAll_spec hinv.s1 hgood hXh hH hmaps hnil rfl ⟨htcp, rfl⟩ hbm hpcI hq ?_
      rcases hrun with hp | hrm
      · exact Or.inl hp
      · refine Or.inr (runGood_of_matches (s := m.s) hgood ?_)
        obtain ⟨h1, h2, h3, h4, h5, h6⟩ := hrm
        refine ⟨h1, ?_, h3, h4, h5, ?_⟩
        · intro x
          show m.w.run.maps x = if (anyFin fun x => (m.hs.maps x).isSome) = true then m.w.h.maps x else none
          rw [h2 x, hmhs]
        · show m.w.run.tcpMain = m.w.tcp.want
          rw [h6, hmain]
    · simp only [hu, Bool.false_eq_true, if_false]
      by_cases hqq : o.queue = true
      · simp only [hqq, if_true]
        refine ⟨by first | rfl | trivial, ?_⟩
        refine commitAll_spec hinv.s1 hgood hXh hH hmaps hnil rfl ⟨htcp, rfl⟩ hbm hpcI ?_ (Or.inl rfl)
        intro hq0; rw [hq0] at hqq; cases hqq
      · simp only [hqq, Bool.false_eq_true, if_false]
        have hqf : o.queue = false := by cases h : o.queue <;> simp_all
        simp only [reload, hrl, Bool.false_eq_true, if_false]
        refine ⟨by first | rfl | trivial, ?_⟩
        exact commitAll_spec hinv.s1 hgood hXh hH hmaps hnil rfl ⟨htcp, rfl⟩ hbm hpcI (fun _ => hq hqf)
          (Or.inr (runGood_load rfl))
  · have hu : m.updated = true := by
      cases h : m.updated <;> simp_all
    have hs0 : m.sends = 0 := by
      cases h : m.updated <;> simp_all
    have hb0 : m.bchg = false := by
      cases h : m.bchg <;> simp_all
    simp only [hdw, if_false]
    simp only [hu, if_true]
    refine ⟨by first | rfl | trivial, ?_⟩
    obtain ⟨hmain, hmhs, hrun⟩ := hupd hu
    have hgood := hskip hu hs0 hb0
    refine commitAll_spec hinv.s1 hgood hXh hH hmaps hnil hmhs ⟨htcp, hmain⟩ hbm hpc hq ?_
    rcases hrun with hp | hrm
    · exact Or.inl hp
    · exact Or.inr (runGood_of_matches hgood hrm)

/-! ### `HAProxyUpdate` from the invariant -/

theorem shrink_items (sh : Sh p) (s : Store p) (x : Fin p) :
    (shrink sh s).items x = if matched s x then s.del x else s.items x := rfl
theorem shrink_add (sh : Sh p) (s : Store p) (x : Fin p) :
    (shrink sh s).add x = if matched s x then none else s.add x := rfl
theorem shrink_del (sh : Sh p) (s : Store p) (x : Fin p) :
    (shrink sh s).del x = if matched s x then none else s.del x := rfl

theorem backChanged_of_add {s : Store p} {x : Fin p} (h : (s.add x).isSome = true) : backChanged s = true := by
  unfold backChanged; rw [anyFin_iff]; exact ⟨x, by simp [h]⟩

theorem backChanged_false {s : Store p} (h : backChanged s = false) (x : Fin p) : s.add x = none ∧ s.del x = none := by
  unfold backChanged at h
  have := (anyFin_false_iff _).1 h x
  cases ha : s.add x <;> cases hd : s.del x <;> simp_all

/-- every backend that has an item after `Shrink` has its `pathConfig` and its `PathsMap` once
WriteBackendMaps has run -/
theorem flags_after_maps {o : Opt} {sh : Sh p} {w : FW p} (hi : FInv o sh w) (x : Fin p)
    (hx : ((shrink sh w.g.w.store).items x).isSome = true) :
    (w4Of o sh w).pcI x = true ∧ (w4Of o sh w).pmI x = true := by
  rw [w4Of_pcI, w4Of_pmI]
  cases ha : (shrink sh w.g.w.store).add x with
  | some a =>
    have := backChanged_of_add (s := shrink sh w.g.w.store) (x := x) (by simp [ha])
    simp [this]
  | none =>
    rw [shrink_items] at hx
    rw [shrink_add] at ha
    by_cases hm : matched w.g.w.store x = true
    · obtain ⟨d, a, hd, _, _⟩ := (matched_iff _ _).1 hm
      have := hi.pc2 x (by simp [hd])
      simp [hm, this.1, this.2]
    · simp only [hm, Bool.false_eq_true, if_false] at hx ha
      have := hi.pc1 x ha hx
      simp [hm, this.1, this.2]

theorem bm_after_maps {o : Opt} {sh : Sh p} {w : FW p} (hi : FInv o sh w) (x : Fin p) (c : Content)
    (hx : (shrink sh w.g.w.store).items x = some c) (hn : o.needACL (conf c) = true) :
    (w4Of o sh w).bm x = some (conf c) := by
  have hI0 : Inv sh { store := shrink sh w.g.w.store, disk := w.g.w.disk } := shrink_inv hi.b
  rw [w4Of_bm]
  cases ha : (shrink sh w.g.w.store).add x with
  | some a =>
    have hb := backChanged_of_add (s := shrink sh w.g.w.store) (x := x) (by simp [ha])
    have hca : (shrink sh w.g.w.store).items x = some a := hI0.a x a ha
    rw [hx] at hca
    cases hca
    simp [hb, hn]
  | none =>
    have hbm : w.bm x = some (conf c) := by
      rw [shrink_items] at hx
      rw [shrink_add] at ha
      by_cases hm : matched w.g.w.store x = true
      · simp only [hm, if_true] at hx
        exact hi.bm2 x c hx hn
      · simp only [hm, Bool.false_eq_true, if_false] at hx ha
        exact hi.bm1 x c ha hx hn
    split <;> exact hbm

theorem hosts_after_write {o : Opt} {sh : Sh p} {w : FW p} (hi : FInv o sh w) :
    HInv (hCommit (hWrite w.h.shrink)) ∧
    (∀ x, (hWrite w.h.shrink).maps x = (hCommit (hWrite w.h.shrink)).want x) ∧
    (hWrite w.h.shrink).mapsNil = false := by
  have := hupdate_good hi.h true (Or.inl rfl)
  rw [updateWith_eq] at this
  exact ⟨this.2.2, this.1, this.2.1⟩

theorem tcp_after_lists {o : Opt} {sh : Sh p} {w : FW p} (hi : FInv o sh w) :
    (w4Of o sh w).tcp.want ≠ 0 →
      (w4Of o sh w).tcp.map = (w4Of o sh w).tcp.want ∧ (w4Of o sh w).tcp.crt = (w4Of o sh w).tcp.want := by
  rw [w4Of_tcp_want, w4Of_tcp_map, w4Of_tcp_crt]
  intro hw
  have hw' : (w.tcp.want != 0) = true := by simpa using hw
  refine ⟨?_, by simp [hw']⟩
  by_cases hc : w.tcp.changed = true
  · simp [hc]
  · have hc' : w.tcp.changed = false := by simpa using hc
    simp only [hc, Bool.false_eq_true, if_false]
    cases hcm : w.g.committed with
    | true => exact ((hi.t1 hc' hcm).1 hw).1
    | false => exact absurd (hi.t2 hcm hc') hw

theorem setEpv_eq {d a : Content} (hc : conf a = conf d) : setEpv d (epv a) = { cfg := a.cfg, slots := d.slots } := by
  unfold setEpv epv
  unfold conf at hc
  have : 4 * (d.cfg / 4) + a.cfg % 4 % 4 = a.cfg := by omega
  rw [this]

theorem cfg_eq_of_conf_epv {d a : Content} (hc : conf a = conf d) (he : epv a = epv d) : a.cfg = d.cfg := by
  unfold conf at hc; unfold epv at he; omega

theorem dynStage_false {sh : Sh p} {bad : Nat → Bool} {w0 : FW p} {s0 : Store p} {hs0 hs1 : HStore p} {w4 : FW p}
    (h : w0.g.committed = false) :
    dynStage sh bad w0 s0 hs0 hs1 w4 =
      { w := w4, s := s0, hs := hs1, sends := 0, updated := false, bchg := backChanged s0 } := by
  simp [dynStage, h]

theorem dynStage_true {sh : Sh p} {bad : Nat → Bool} {w0 : FW p} {s0 : Store p} {hs0 hs1 : HStore p} {w4 : FW p}
    (h : w0.g.committed = true) :
    dynStage sh bad w0 s0 hs0 hs1 w4 =
      { w := { w4 with run := { w4.run with back := dynRun s0 bad w4.run.back } }, s := dynStore sh s0, hs := hs1
        sends := totalSends s0
        updated := !w0.tcp.changed && !hs0.isChanged && backendUpdated s0 bad w4.run.back w0.pcD
        bchg := backChanged s0 } := by
  simp [dynStage, h]

theorem upd_good {o : Opt} {sh : Sh p} (wf : sh.WF) {w : FW p} (hi : FInv o sh w) {f : Fault} (hf : f.good = true) :
    (upd o sh f w).err = false ∧ FInv o sh (upd o sh f w).w ∧ DiskGood o sh (upd o sh f w).w := by
  unfold upd
  rw [pre_good o sh w hf]
  simp only []
  have hI0 : Inv sh { store := shrink sh w.g.w.store, disk := w.g.w.disk } := shrink_inv hi.b
  obtain ⟨hH, hmaps, hnil⟩ := hosts_after_write hi
  cases hcm : w.g.committed with
  | false =>
    have hcf : (shrinkFlags w).g.committed = false := hcm
    rw [dynStage_false hcf]
    apply post_good wf hf
    all_goals dsimp only
    · rw [w4Of_g]; exact hI0
    · intro x
      unfold badX
      cases hx : (shrink sh w.g.w.store).items x with
      | none => rfl
      | some c =>
        have := (flags_after_maps hi x (by simp [hx])).2
        simp [this]
    · rw [w4Of_h]
    · exact hH
    · exact hmaps
    · exact hnil
    · exact tcp_after_lists hi
    · exact fun x c hx hn => bm_after_maps hi x c hx hn
    · exact fun x hx => flags_after_maps hi x hx
    · rw [w4Of_pending]; exact hi.q
    · intro h; cases h
    · intro h; cases h
  | true =>
    have hIdyn : Inv sh { store := dynStore sh (shrink sh w.g.w.store), disk := w.g.w.disk } := dynStore_inv hI0
    have hct : (shrinkFlags w).g.committed = true := hcm
    rw [dynStage_true hct]
    apply post_good wf hf
    all_goals dsimp only
    · rw [w4Of_g]; exact hIdyn
    · intro x
      unfold badX
      cases hx : (dynStore sh (shrink sh w.g.w.store)).items x with
      | none => rfl
      | some c =>
        have hsome : ((shrink sh w.g.w.store).items x).isSome = true := by
          rw [← dynStore_items_isSome hI0]; simp [hx]
        have := (flags_after_maps hi x hsome).2
        simp [this]
    · rw [w4Of_h]
    · exact hH
    · exact hmaps
    · exact hnil
    · exact tcp_after_lists hi
    · intro x c hx hn
      obtain ⟨c0, hc0, hcc⟩ := dynStore_items_conf hI0 hx
      rw [← hcc] at hn ⊢
      exact bm_after_maps hi x c0 hc0 hn
    · intro x hx
      rw [dynStore_items_isSome hI0] at hx
      exact flags_after_maps hi x hx
    · rw [w4Of_pending]; exact hi.q
    · -- the write is skipped: nothing is pending after Shrink, the files already hold the items
      intro _ _ hb k x
      rw [w4Of_g]
      have hn := backChanged_false hb x
      have hpn : pair? (shrink sh w.g.w.store) x = none := pair?_none_of_add_none hn.1
      simp only [itemsIn, dynStore_items, hpn]
      by_cases hk : sh.shardOf x = k
      · simp only [hk, if_true]
        have := hI0.b x hn.1 hn.2
        rw [hk] at this
        exact this.symm
      · simp only [hk, if_false]; exact hI0.g k x hk
    · -- no reload follows: every runtime command was answered, HAProxy holds what the files will hold
      intro hu
      simp only [Bool.and_eq_true, Bool.not_eq_true'] at hu
      obtain ⟨⟨htc, hhc⟩, hbu⟩ := hu
      have htg := hi.t1 htc hcm
      -- hosts are clean: WriteFrontendMaps was skipped, the maps are the ones HAProxy read
      have hrb : w.h.shrink.rootBackendChanged = false := by
        unfold HStore.rootBackendChanged
        rw [anyFin_false_iff]
        intro x
        have : (w.h.shrink.bc x != w.h.shrink.bcC x) = false := by
          have := hi.hbc x
          simp only [HStore.shrink]
          simp [this]
        simp [this]
      have hskipH : hSkip w.h.shrink = true := by
        unfold hSkip
        have h1 : w.h.shrink.mapsNil = false := hi.hm hcm
        simp [h1, hhc, hrb]
      have hw : hWrite w.h.shrink = w.h.shrink := by unfold hWrite; simp [hskipH]
      refine ⟨?_, ?_, ?_⟩
      · rw [w4Of_tcp_main, w4Of_tcp_want]; exact htg.2
      · rw [w4Of_mainHosts, hw]; exact hi.mh hcm
      · rcases hi.r with hp | hrg
        · left; rw [w4Of_pending]; exact hp
        · right
          obtain ⟨r1, r2, r3, r4, r5, r6⟩ := hrg
          refine ⟨?_, ?_, ?_, ?_, ?_, ?_⟩
          · -- running servers
            intro x c hx
            show dynRun (shrink sh w.g.w.store) f.bad (w4Of o sh w).run.back x = some c
            rw [w4Of_run]
            have hok : pairOK (shrink sh w.g.w.store) f.bad (w4Of o sh w).run.back (shrinkFlags w).pcD x = true := by
              unfold backendUpdated at hbu
              simp only [Bool.not_eq_true'] at hbu
              have := (anyFin_false_iff _).1 hbu x
              simpa using this
            rw [dynStore_items] at hx
            unfold dynRun
            cases hp : pair? (shrink sh w.g.w.store) x with
            | some da =>
              obtain ⟨d, a⟩ := da
              rw [hp] at hx
              simp only [Option.some.injEq] at hx
              obtain ⟨hd, ha, hle⟩ := pair?_eq_some.1 hp
              have hrd : w.run.back x = some d := r1 x d (by simp only [load]; exact hI0.c x d hd)
              unfold pairOK at hok
              simp only [ha, hp, Bool.and_eq_true, beq_iff_eq, Bool.not_eq_true'] at hok
              obtain ⟨⟨⟨hconf, _⟩, hbad⟩, _⟩ := hok
              simp only []
              by_cases he : epv a = epv d
              · have hcfg := cfg_eq_of_conf_epv hconf he
                simp only [he, ne_eq, not_true_eq_false, false_and, if_false, hrd]
                rw [← hx, hcfg]
              · have hns : nsend (shrink sh w.g.w.store) x = 1 + a.slots := by
                  unfold nsend; simp [hp, he]
                have hb0 : f.bad (base (shrink sh w.g.w.store) x) = false := by
                  have := anyRange_false hbad 0 (by omega)
                  simpa using this
                simp only [ne_eq, he, not_false_eq_true, hb0, and_self, if_true, hrd, Option.map_some]
                rw [setEpv_eq hconf, ← hx]
            | none =>
              rw [hp] at hx
              have hx' : (shrink sh w.g.w.store).items x = some c := hx
              simp only []
              cases ha : (shrink sh w.g.w.store).add x with
              | some a =>
                unfold pairOK at hok
                simp [ha, hp] at hok
              | none =>
                cases hd : (shrink sh w.g.w.store).del x with
                | some d =>
                  have h2 : (shrink sh w.g.w.store).items x = none := hI0.b2 x ha (by simp [hd])
                  rw [hx'] at h2; cases h2
                | none =>
                  have h2 : (shrink sh w.g.w.store).items x = w.g.w.disk (sh.shardOf x) x := hI0.b x ha hd
                  apply r1 x c
                  simp only [load]
                  rw [← h2]; exact hx'
          · intro x
            show (w4Of o sh w).run.maps x = if (w4Of o sh w).mainHosts = true then (w4Of o sh w).h.maps x else none
            rw [w4Of_run, w4Of_mainHosts, w4Of_h, hw]
            exact r2 x
          · intro x
            show (w4Of o sh w).run.bm x = (w4Of o sh w).bm x
            rw [w4Of_run, r3 x, w4Of_bm]
            simp only [load]
            split
            · cases ha : (shrink sh w.g.w.store).add x with
              | none => rfl
              | some a =>
                simp only []
                by_cases hn : o.needACL (conf a) = true
                · simp only [hn, if_true]
                  -- the pair is updated: same `conf`, and the deleted object had its map written
                  have hok : pairOK (shrink sh w.g.w.store) f.bad (w4Of o sh w).run.back (shrinkFlags w).pcD x = true := by
                    unfold backendUpdated at hbu
                    simp only [Bool.not_eq_true'] at hbu
                    have := (anyFin_false_iff _).1 hbu x
                    simpa using this
                  unfold pairOK at hok
                  simp only [ha] at hok
                  cases hp : pair? (shrink sh w.g.w.store) x with
                  | none => simp [hp] at hok
                  | some da =>
                    obtain ⟨d, a'⟩ := da
                    obtain ⟨hd, ha', _⟩ := pair?_eq_some.1 hp
                    rw [ha] at ha'; cases ha'
                    simp only [hp, Bool.and_eq_true, beq_iff_eq] at hok
                    have hconf := hok.1.1.1
                    rw [shrink_del] at hd
                    by_cases hm : matched w.g.w.store x = true
                    · simp [hm] at hd
                    · simp only [hm, Bool.false_eq_true, if_false] at hd
                      rw [hconf] at hn ⊢
                      exact hi.bm2 x d hd hn
                · simp [hn]
            · rfl
          · show (w4Of o sh w).run.tcpMap = (w4Of o sh w).tcp.map
            have htc' : w.tcp.changed = false := htc
            rw [w4Of_run, w4Of_tcp_map, r4]
            simp [htc']
          · show (w4Of o sh w).run.tcpCrt = (w4Of o sh w).tcp.crt
            rw [w4Of_run, w4Of_tcp_crt, r5]
            split
            · rename_i hw0
              have : w.tcp.want ≠ 0 := by simpa using hw0
              exact (htg.1 this).2
            · rfl
          · show (w4Of o sh w).run.tcpMain = (w4Of o sh w).tcp.main
            rw [w4Of_run, w4Of_tcp_main, r6]

/-! ### the reload queue worker -/

theorem qrun_inv {o : Opt} {sh : Sh p} {w : FW p} (hi : FInv o sh w) (f : Fault) : FInv o sh (qrun sh f w).w := by
  obtain ⟨hb, hh, hhm, hbc, hmh, ht1, ht2, hbm1, hbm2, hpc1, hpc2, hq, hr⟩ := hi
  unfold qrun
  cases hp : w.pending with
  | false => simp only [Bool.not_false, if_true]; exact ⟨hb, hh, hhm, hbc, hmh, ht1, ht2, hbm1, hbm2, hpc1, hpc2, hq, hr⟩
  | true =>
    have hqt : o.queue = true := by
      cases hqq : o.queue with
      | true => rfl
      | false => have := hq hqq; rw [hp] at this; cases this
    simp only [Bool.not_true, Bool.false_eq_true, if_false, reload]
    cases hf : f.isReload with
    | true =>
      simp only [if_true]
      have hq' : o.queue = false → true = false := fun h => by rw [h] at hqt; cases hqt
      exact ⟨hb, hh, hhm, hbc, hmh, ht1, ht2, hbm1, hbm2, hpc1, hpc2, hq', Or.inl rfl⟩
    | false =>
      simp only [Bool.false_eq_true, if_false]
      exact ⟨hb, hh, hhm, hbc, hmh, ht1, ht2, hbm1, hbm2, hpc1, hpc2, fun _ => rfl, Or.inr (runGood_load rfl)⟩

theorem qrun_diskGood {o : Opt} {sh : Sh p} {w : FW p} (hd : DiskGood o sh w) (f : Fault) :
    DiskGood o sh (qrun sh f w).w := by
  unfold qrun
  cases w.pending with
  | false => exact hd
  | true =>
    simp only [Bool.not_true, Bool.false_eq_true, if_false, reload]
    cases f.isReload <;> exact hd

/-- a fault-free run of the worker empties the queue and leaves HAProxy with the files -/
theorem qrun_settles {o : Opt} {sh : Sh p} {w : FW p} (hi : FInv o sh w) {f : Fault} (hf : f.isReload = false) :
    (qrun sh f w).err = false ∧ (qrun sh f w).w.pending = false ∧ RunGood sh (qrun sh f w).w := by
  unfold qrun
  cases hp : w.pending with
  | false =>
    simp only [Bool.not_false, if_true]
    refine ⟨by first | rfl | trivial, hp, ?_⟩
    rcases hi.r with h | h
    · rw [hp] at h; cases h
    · exact h
  | true =>
    simp only [Bool.not_true, Bool.false_eq_true, if_false, reload, hf]
    exact ⟨by first | rfl | trivial, by first | rfl | trivial, runGood_load rfl⟩

end HapVerif.C12
