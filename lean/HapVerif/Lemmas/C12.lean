import HapVerif.Model.C12
import HapVerif.Lemmas.C05
/-!
Lemmas for C12: the invariant that holds between the events of a history whose faults are all
"good" (admin-socket faults inside `HAProxyUpdate`, reload faults inside the reload-queue worker),
and what one `HAProxyUpdate` establishes from it.
-/
namespace HapVerif.C12
open HapVerif.C05

variable {p : Nat}

theorem good_cases {f : Fault} (h : f.good = true) : f = .none ∨ ∃ l, f = .admin l := by
  cases f <;> simp_all [Fault.good]

/-- what the files must hold for the tcp service -/
def TcpGood (t : Tcp) : Prop := (t.want ≠ 0 → t.map = t.want ∧ t.crt = t.want) ∧ t.main = t.want

/-- what holds whatever failed: the in-memory stores are consistent in themselves, a file never
holds a backend of another shard -/
structure SInv (sh : Sh p) (s : Store p) : Prop where
  a : ∀ x c, s.add x = some c → s.items x = some c
  s1 : sh.n ≠ 0 → ∀ k x, s.shards k x = if sh.shardOf x = k then s.items x else none

structure WInv (sh : Sh p) (w : FW p) : Prop where
  s : SInv sh w.g.w.store
  g : ∀ k x, sh.shardOf x ≠ k → w.g.w.disk k x = none
  hbc : ∀ x, w.h.bc x = w.h.bcC x

/-- what holds between events while no rewrite is owed: the files follow the stores (C05), and HAProxy
follows the files unless a reload is owed or queued -/
structure FInv (o : Opt) (sh : Sh p) (w : FW p) : Prop where
  b : Inv sh w.g.w
  h : HInv w.h
  hm : w.g.committed = true → w.h.mapsNil = false
  mh : w.g.committed = true → w.mainHosts = anyFin fun x => (w.h.maps x).isSome
  t1 : w.tcp.changed = false → w.g.committed = true → TcpGood w.tcp
  t2 : w.g.committed = false → w.tcp.changed = false → w.tcp.want = 0
  bm1 : ∀ x c, w.g.w.store.add x = none → w.g.w.store.items x = some c → o.needACL (conf c) = true →
          w.bm x = some (conf c)
  bm2 : ∀ x d, w.g.w.store.del x = some d → o.needACL (conf d) = true → w.bm x = some (conf d)
  pc1 : ∀ x, w.g.w.store.add x = none → (w.g.w.store.items x).isSome = true → w.pcI x = true ∧ w.pmI x = true
  pc2 : ∀ x, (w.g.w.store.del x).isSome = true → w.pcD x = true ∧ w.pmD x = true
  r : w.reloadOwed = true ∨ w.pending = true ∨ RunGood sh w

/-- the invariant of every history, whatever the faults -/
structure JInv (o : Opt) (sh : Sh p) (w : FW p) : Prop where
  wi : WInv sh w
  q : o.queue = false → w.pending = false
  d : w.rewriteOwed = false → FInv o sh w

theorem winv_init (sh : Sh p) : WInv sh ({} : FW p) := by
  refine ⟨⟨?_, ?_⟩, ?_, ?_⟩
  · intro x c h; simp [emp] at h
  · intro _ k x; simp [emp]
  · intro k x _; rfl
  · intro x; rfl

theorem finv_init (o : Opt) (sh : Sh p) : FInv o sh ({} : FW p) := by
  refine ⟨?_, ?_, ?_, ?_, ?_, ?_, ?_, ?_, ?_, ?_, ?_⟩
  · refine ⟨?_, ?_, ?_, ?_, ?_, ?_, ?_⟩ <;> intros <;> simp_all [emp]
  · refine ⟨?_, ?_, ?_, ?_⟩ <;> intro h <;> simp at h
  · intro h; cases h
  · intro h; cases h
  · intro _ h; cases h
  · intro _ _; rfl
  · intro x c _ h; simp [emp] at h
  · intro x d h; simp [emp] at h
  · intro x _ h; simp [emp] at h
  · intro x h; simp [emp] at h
  · right; right
    refine ⟨?_, ?_, ?_, rfl, rfl, rfl⟩
    · intro x c h; simp [load, emp] at h
    · intro x; simp [load]
    · intro x; rfl

theorem jinv_init (o : Opt) (sh : Sh p) : JInv o sh ({} : FW p) :=
  ⟨winv_init sh, fun _ => rfl, fun _ => finv_init o sh⟩

/-! ### events of a batch -/

theorem hacquire_maps (s : HStore p) (x : Fin p) (c : Nat) :
    (s.acquire x c).maps = s.maps ∧ (s.acquire x c).mapsNil = s.mapsNil ∧
    (s.acquire x c).bc = s.bc ∧ (s.acquire x c).bcC = s.bcC := by
  unfold HStore.acquire; cases s.items x <;> exact ⟨rfl, rfl, rfl, rfl⟩

theorem hremoveOne_maps (s : HStore p) (x : Fin p) :
    (s.removeOne x).maps = s.maps ∧ (s.removeOne x).mapsNil = s.mapsNil ∧
    (s.removeOne x).bc = s.bc ∧ (s.removeOne x).bcC = s.bcC := by
  unfold HStore.removeOne; cases s.items x <;> exact ⟨rfl, rfl, rfl, rfl⟩

theorem hremoveAll_maps (xs : List (Fin p)) : ∀ s : HStore p,
    (s.removeAll xs).maps = s.maps ∧ (s.removeAll xs).mapsNil = s.mapsNil ∧
    (s.removeAll xs).bc = s.bc ∧ (s.removeAll xs).bcC = s.bcC := by
  induction xs with
  | nil => intro s; exact ⟨rfl, rfl, rfl, rfl⟩
  | cons x xs ih =>
    intro s
    have h1 := hremoveOne_maps s x
    have h2 := ih (s.removeOne x)
    simp only [HStore.removeAll, List.foldl_cons] at h2 ⊢
    exact ⟨h2.1.trans h1.1, h2.2.1.trans h1.2.1, h2.2.2.1.trans h1.2.2.1, h2.2.2.2.trans h1.2.2.2⟩

/-- `RunGood` only looks at the files and at what HAProxy holds -/
theorem runGood_congr {sh : Sh p} {w w' : FW p} (hd : w'.g.w.disk = w.g.w.disk) (hmh : w'.mainHosts = w.mainHosts)
    (hmaps : w'.h.maps = w.h.maps) (hbm : w'.bm = w.bm) (ht1 : w'.tcp.map = w.tcp.map)
    (ht2 : w'.tcp.crt = w.tcp.crt) (ht3 : w'.tcp.main = w.tcp.main) (hr : w'.run = w.run)
    (h : RunGood sh w) : RunGood sh w' := by
  obtain ⟨h1, h2, h3, h4, h5, h6⟩ := h
  refine ⟨?_, ?_, ?_, ?_, ?_, ?_⟩
  · intro x c hx; simp only [load, hd] at hx; rw [hr]; exact h1 x c hx
  · intro x; simp only [load, hmh, hmaps, hr]; exact h2 x
  · intro x; simp only [load, hbm, hr]; exact h3 x
  · rw [hr, ht1]; exact h4
  · rw [hr, ht2]; exact h5
  · rw [hr, ht3]; exact h6

theorem removeAll_items_of_not_mem (sh : Sh p) (xs : List (Fin p)) : ∀ (s : Store p) (y : Fin p), y ∉ xs →
    (removeAll sh s xs).items y = s.items y ∧ (removeAll sh s xs).del y = s.del y := by
  induction xs with
  | nil => intro s y _; exact ⟨rfl, rfl⟩
  | cons x xs ih =>
    intro s y hy
    have hyx : y ≠ x := fun h => hy (h ▸ List.mem_cons_self)
    have hyxs : y ∉ xs := fun h => hy (List.mem_cons_of_mem _ h)
    have := ih (removeOne sh s x) y hyxs
    simp only [removeAll, List.foldl_cons] at this ⊢
    rw [this.1, this.2]
    unfold removeOne
    cases s.items x <;> simp [flag, setM, hyx]

theorem removeAll_add (sh : Sh p) (xs : List (Fin p)) : ∀ s : Store p, (removeAll sh s xs).add = s.add := by
  induction xs with
  | nil => intro s; rfl
  | cons x xs ih =>
    intro s
    have := ih (removeOne sh s x)
    simp only [removeAll, List.foldl_cons] at this ⊢
    rw [this, removeOne_add]

/-- after `RemoveAll xs` a removed name has no item and its deleted object is the one it had (or the one
already deleted before); a name that had no item keeps its deleted object -/
theorem removeAll_mem (sh : Sh p) (xs : List (Fin p)) : ∀ (s : Store p) (y : Fin p), y ∈ xs →
    (removeAll sh s xs).items y = none ∧
    (removeAll sh s xs).del y = (match s.items y with | some v => some v | none => s.del y) := by
  induction xs with
  | nil => intro s y hy; cases hy
  | cons x xs ih =>
    intro s y hy
    simp only [removeAll, List.foldl_cons]
    by_cases hyx : y = x
    · subst hyx
      by_cases hmem : y ∈ xs
      · have := ih (removeOne sh s y) y hmem
        simp only [removeAll] at this
        rw [this.1, this.2]
        refine ⟨rfl, ?_⟩
        unfold removeOne
        cases hi : s.items y <;> simp [flag, setM, hi]
      · have := removeAll_items_of_not_mem sh xs (removeOne sh s y) y hmem
        simp only [removeAll] at this
        rw [this.1, this.2]
        unfold removeOne
        cases hi : s.items y <;> simp [flag, setM, hi]
    · have hmem : y ∈ xs := by
        rcases List.mem_cons.1 hy with h | h
        · exact absurd h hyx
        · exact h
      have := ih (removeOne sh s x) y hmem
      simp only [removeAll] at this
      rw [this.1, this.2]
      refine ⟨rfl, ?_⟩
      unfold removeOne
      cases s.items x <;> simp [flag, setM, hyx]

theorem step_inv_batch {o : Opt} {sh : Sh p} (wf : sh.WF) {w : FW p} (hi : FInv o sh w) (e : Ev p)
    (hok : okEv w e = true) (hne : ∀ f, e ≠ .upd f) (hnq : ∀ f, e ≠ .qrun f) : FInv o sh (step o sh w e) := by
  obtain ⟨hb, hh, hhm, hmh, ht1, ht2, hbm1, hbm2, hpc1, hpc2, hr⟩ := hi
  cases e with
  | upd f => exact absurd rfl (hne f)
  | qrun f => exact absurd rfl (hnq f)
  | acq x c =>
    have hb' := acquire_inv hb x c
    refine ⟨hb', hh, hhm, hmh, ht1, ht2, ?_, ?_, ?_, ?_, ?_⟩
    · intro y d hy1 hy2 hy3
      simp only [step, setStore] at hy1 hy2 ⊢
      unfold acquire at hy1 hy2
      cases hix : w.g.w.store.items x with
      | some v => simp only [hix] at hy1 hy2; exact hbm1 y d hy1 hy2 hy3
      | none =>
        simp only [hix, flag, setM] at hy1 hy2
        by_cases hyx : y = x
        · simp [hyx] at hy1
        · simp only [hyx, if_false] at hy1 hy2; exact hbm1 y d hy1 hy2 hy3
    · intro y d hy1 hy2
      simp only [step, setStore] at hy1 ⊢
      unfold acquire at hy1
      cases hix : w.g.w.store.items x with
      | some v => simp only [hix] at hy1; exact hbm2 y d hy1 hy2
      | none => simp only [hix, flag] at hy1; exact hbm2 y d hy1 hy2
    · intro y hy1 hy2
      simp only [step, setStore] at hy1 hy2 ⊢
      unfold acquire at hy1 hy2
      cases hix : w.g.w.store.items x with
      | some v =>
        simp only [hix] at hy1 hy2
        have : ¬ (y = x ∧ (some v : Option Content) = none) := by simp
        simp only [this, if_false]; exact hpc1 y hy1 hy2
      | none =>
        simp only [hix, flag, setM] at hy1 hy2
        by_cases hyx : y = x
        · simp [hyx] at hy1
        · simp only [hyx, if_false] at hy1 hy2
          simp only [hyx, false_and, if_false]; exact hpc1 y hy1 hy2
    · intro y hy
      simp only [step, setStore] at hy ⊢
      unfold acquire at hy
      cases hix : w.g.w.store.items x with
      | some v => simp only [hix] at hy; exact hpc2 y hy
      | none => simp only [hix, flag] at hy; exact hpc2 y hy
    · rcases hr with hr | hr | hr
      · exact Or.inl hr
      · exact Or.inr (Or.inl hr)
      · exact Or.inr (Or.inr (runGood_congr (w := w) rfl rfl rfl rfl rfl rfl rfl rfl hr))
  | rem xs =>
    have hadd : ∀ x ∈ xs, w.g.w.store.add x = none := by
      intro x hx
      simp only [okEv, List.all_eq_true] at hok
      simpa using hok x hx
    have hb' := removeAll_inv xs hb hadd
    refine ⟨hb', hh, hhm, hmh, ht1, ht2, ?_, ?_, ?_, ?_, ?_⟩
    · intro y d hy1 hy2 hy3
      simp only [step, setStore] at hy1 hy2 ⊢
      rw [removeAll_add] at hy1
      by_cases hmem : y ∈ xs
      · rw [(removeAll_mem sh xs _ y hmem).1] at hy2; cases hy2
      · rw [(removeAll_items_of_not_mem sh xs _ y hmem).1] at hy2; exact hbm1 y d hy1 hy2 hy3
    · intro y d hy1 hy2
      simp only [step, setStore] at hy1 ⊢
      by_cases hmem : y ∈ xs
      · rw [(removeAll_mem sh xs _ y hmem).2] at hy1
        cases hiy : w.g.w.store.items y with
        | some v =>
          simp only [hiy, Option.some.injEq] at hy1
          subst hy1
          exact hbm1 y v (hadd y hmem) hiy hy2
        | none => simp only [hiy] at hy1; exact hbm2 y d hy1 hy2
      · rw [(removeAll_items_of_not_mem sh xs _ y hmem).2] at hy1; exact hbm2 y d hy1 hy2
    · intro y hy1 hy2
      simp only [step, setStore] at hy1 hy2 ⊢
      rw [removeAll_add] at hy1
      by_cases hmem : y ∈ xs
      · rw [(removeAll_mem sh xs _ y hmem).1] at hy2; cases hy2
      · rw [(removeAll_items_of_not_mem sh xs _ y hmem).1] at hy2; exact hpc1 y hy1 hy2
    · intro y hy
      simp only [step, setStore] at hy ⊢
      by_cases hmem : y ∈ xs
      · cases hiy : w.g.w.store.items y with
        | some v =>
          have hc : xs.contains y = true := by simpa using hmem
          simp only [hc, hiy, Option.isSome_some, and_self, if_true]
          exact hpc1 y (hadd y hmem) (by simp [hiy])
        | none =>
          rw [(removeAll_mem sh xs _ y hmem).2] at hy
          simp only [hiy] at hy
          simp only [hiy, Option.isSome_none, Bool.false_eq_true, and_false, if_false]
          exact hpc2 y hy
      · rw [(removeAll_items_of_not_mem sh xs _ y hmem).2] at hy
        have hc : ¬ (xs.contains y = true) := by simpa using hmem
        simp only [hc, false_and, if_false]
        exact hpc2 y hy
    · rcases hr with hr | hr | hr
      · exact Or.inl hr
      · exact Or.inr (Or.inl hr)
      · exact Or.inr (Or.inr (runGood_congr (w := w) rfl rfl rfl rfl rfl rfl rfl rfl hr))
  | hacq x c =>
    have hm := hacquire_maps w.h x c
    refine ⟨hb, hacquire_inv hh x c, ?_, ?_, ht1, ht2, hbm1, hbm2, hpc1, hpc2, ?_⟩
    · intro hc; simp only [step]; rw [hm.2.1]; exact hhm hc
    · intro hc; simp only [step]; rw [hm.1]; exact hmh hc
    · rcases hr with hr | hr | hr
      · exact Or.inl hr
      · exact Or.inr (Or.inl hr)
      · exact Or.inr (Or.inr (runGood_congr (w := w) rfl rfl hm.1 rfl rfl rfl rfl rfl hr))
  | hrem xs =>
    have hm := hremoveAll_maps xs w.h
    have hadd : ∀ x ∈ xs, w.h.add x = none := by
      intro x hx
      simp only [okEv, List.all_eq_true] at hok
      simpa using hok x hx
    refine ⟨hb, hremoveAll_inv xs hh hadd, ?_, ?_, ht1, ht2, hbm1, hbm2, hpc1, hpc2, ?_⟩
    · intro hc; simp only [step]; rw [hm.2.1]; exact hhm hc
    · intro hc; simp only [step]; rw [hm.1]; exact hmh hc
    · rcases hr with hr | hr | hr
      · exact Or.inl hr
      · exact Or.inr (Or.inl hr)
      · exact Or.inr (Or.inr (runGood_congr (w := w) rfl rfl hm.1 rfl rfl rfl rfl rfl hr))
  | tcp v =>
    refine ⟨hb, hh, hhm, hmh, ?_, ?_, hbm1, hbm2, hpc1, hpc2, ?_⟩
    · intro hc; simp [step] at hc
    · intro _ hc; simp [step] at hc
    · rcases hr with hr | hr | hr
      · exact Or.inl hr
      · exact Or.inr (Or.inl hr)
      · exact Or.inr (Or.inr (runGood_congr (w := w) rfl rfl rfl rfl rfl rfl rfl rfl hr))
  | full =>
    have hclean : ∀ x, w.g.w.store.add x = none ∧ w.g.w.store.del x = none := by
      intro x
      simp only [okEv, backChanged, Bool.not_eq_true'] at hok
      have := (anyFin_false_iff _).1 hok x
      cases ha : w.g.w.store.add x <;> cases hd : w.g.w.store.del x <;> simp_all
    have hb' := clear_inv wf hb hclean
    refine ⟨hb', hclear_inv w.h, ?_, ?_, ?_, ?_, ?_, ?_, ?_, ?_, ?_⟩
    · intro hc; simp [step] at hc
    · intro hc; simp [step] at hc
    · intro _ hc; simp [step] at hc
    · intro _ _; rfl
    · intro y d _ hy; simp [step, clear, emp] at hy
    · intro y d hy1 hy2
      simp only [step, clear] at hy1 ⊢
      exact hbm1 y d (hclean y).1 hy1 hy2
    · intro y _ hy; simp [step, clear, emp] at hy
    · intro y hy
      simp only [step, clear] at hy ⊢
      exact hpc1 y (hclean y).1 hy
    · rcases hr with hr | hr | hr
      · exact Or.inl hr
      · exact Or.inr (Or.inl hr)
      · exact Or.inr (Or.inr (runGood_congr (w := w) rfl rfl rfl rfl rfl rfl rfl rfl hr))


/-! ### the store invariant that survives everything -/

theorem sinv_of_inv {sh : Sh p} {w : World p} (h : Inv sh w) : SInv sh w.store := ⟨h.a, h.s1⟩

theorem sinv_acquire {sh : Sh p} {s : Store p} (h : SInv sh s) (x : Fin p) (c : Content) : SInv sh (acquire sh s x c) := by
  unfold acquire
  cases hi : s.items x with
  | some v => exact h
  | none =>
    obtain ⟨ha, hs1⟩ := h
    refine ⟨?_, ?_⟩
    · intro y d hy
      simp only [flag, setM] at hy ⊢
      by_cases hyx : y = x
      · simp only [hyx, if_true] at hy ⊢; exact hy
      · simp only [hyx, if_false] at hy ⊢; exact ha y d hy
    · intro hn k y
      have := hs1 hn k y
      simp only [flag, setShard, setM]
      by_cases hyx : y = x
      · subst hyx
        by_cases hk : k = sh.shardOf y
        · simp [hn, hk]
        · have hk' : ¬ sh.shardOf y = k := fun h => hk h.symm
          simp only [hk, false_and, and_false, if_false, hk', if_true]
          rw [this]; simp [hk']
      · simp only [hyx, and_false, if_false]; exact this

theorem sinv_removeOne {sh : Sh p} {s : Store p} (h : SInv sh s) (x : Fin p) (hx : s.add x = none) :
    SInv sh (removeOne sh s x) := by
  unfold removeOne
  cases hi : s.items x with
  | none => exact h
  | some v =>
    obtain ⟨ha, hs1⟩ := h
    refine ⟨?_, ?_⟩
    · intro y d hy
      simp only [flag, setM] at hy ⊢
      by_cases hyx : y = x
      · subst hyx; rw [hx] at hy; cases hy
      · simp only [hyx, if_false]; exact ha y d hy
    · intro hn k y
      have := hs1 hn k y
      simp only [flag, setShard, setM]
      by_cases hyx : y = x
      · subst hyx
        by_cases hk : k = sh.shardOf y
        · simp [hn, hk]
        · have hk' : ¬ sh.shardOf y = k := fun h => hk h.symm
          simp only [hk, false_and, and_false, if_false, hk', if_true]
          rw [this]; simp [hk']
      · simp only [hyx, and_false, if_false]; exact this

theorem sinv_removeAll {sh : Sh p} (xs : List (Fin p)) : ∀ {s : Store p}, SInv sh s →
    (∀ x ∈ xs, s.add x = none) → SInv sh (removeAll sh s xs) := by
  induction xs with
  | nil => intro s h _; exact h
  | cons x xs ih =>
    intro s h hx
    have h1 := sinv_removeOne h x (hx x List.mem_cons_self)
    have := ih h1 (by
      intro y hy
      rw [removeOne_add]; exact hx y (List.mem_cons_of_mem _ hy))
    simpa [removeAll] using this

theorem sinv_clear (sh : Sh p) (s : Store p) : SInv sh (clear sh s) :=
  ⟨fun x c h => by simp [clear, emp] at h, fun _ k x => by simp [clear, emp]⟩

theorem sinv_shrink {sh : Sh p} {s : Store p} (h : SInv sh s) : SInv sh (shrink sh s) := by
  obtain ⟨ha, hs1⟩ := h
  refine ⟨?_, ?_⟩
  · intro x c hx
    simp only [shrink] at hx ⊢
    by_cases hm : matched s x = true
    · simp [hm] at hx
    · simp only [hm, Bool.false_eq_true, if_false] at hx ⊢; exact ha x c hx
  · intro hn k x
    have := hs1 hn k x
    simp only [shrink]
    by_cases hm : matched s x = true
    · by_cases hk : k = sh.shardOf x
      · simp [hn, hm, hk]
      · have hk' : ¬ sh.shardOf x = k := fun h => hk h.symm
        simp only [hm, hk, and_false, if_false, hk']
        rw [this]; simp [hk']
    · simp only [hm, Bool.false_eq_true, false_and, and_false, if_false]; exact this

theorem sinv_allShards {sh : Sh p} {s : Store p} (h : SInv sh s) : SInv sh (allShards sh s) := ⟨h.a, h.s1⟩

theorem sinv_commit {sh : Sh p} {s : Store p} (h : SInv sh s) : SInv sh (commit s) :=
  ⟨fun x c hx => by simp [commit, emp] at hx, h.s1⟩

/-- batch events keep the weak invariant -/
theorem winv_step_batch {o : Opt} {sh : Sh p} {w : FW p} (hi : WInv sh w) (e : Ev p)
    (hok : okEv w e = true) (hne : ∀ f, e ≠ .upd f) (hnq : ∀ f, e ≠ .qrun f) : WInv sh (step o sh w e) := by
  obtain ⟨hs, hg, hbc⟩ := hi
  cases e with
  | upd f => exact absurd rfl (hne f)
  | qrun f => exact absurd rfl (hnq f)
  | acq x c => exact ⟨sinv_acquire hs x c, hg, hbc⟩
  | rem xs =>
    refine ⟨sinv_removeAll xs hs ?_, hg, hbc⟩
    intro x hx
    simp only [okEv, List.all_eq_true] at hok
    simpa using hok x hx
  | hacq x c =>
    have hm := hacquire_maps w.h x c
    refine ⟨hs, hg, ?_⟩
    intro y; simp only [step]; rw [hm.2.2.1, hm.2.2.2]; exact hbc y
  | hrem xs =>
    have hm := hremoveAll_maps xs w.h
    refine ⟨hs, hg, ?_⟩
    intro y; simp only [step]; rw [hm.2.2.1, hm.2.2.2]; exact hbc y
  | tcp v => exact ⟨hs, hg, hbc⟩
  | full => exact ⟨sinv_clear sh _, hg, hbc⟩

theorem jinv_step_batch {o : Opt} {sh : Sh p} (wf : sh.WF) {w : FW p} (hi : JInv o sh w) (e : Ev p)
    (hok : okEv w e = true) (hne : ∀ f, e ≠ .upd f) (hnq : ∀ f, e ≠ .qrun f) : JInv o sh (step o sh w e) := by
  have hro : (step o sh w e).rewriteOwed = w.rewriteOwed ∧ (step o sh w e).pending = w.pending := by
    cases e with
    | upd f => exact absurd rfl (hne f)
    | qrun f => exact absurd rfl (hnq f)
    | _ => exact ⟨rfl, rfl⟩
  refine ⟨winv_step_batch hi.wi e hok hne hnq, ?_, ?_⟩
  · intro hq; rw [hro.2]; exact hi.q hq
  · intro hr; rw [hro.1] at hr; exact step_inv_batch wf (hi.d hr) e hok hne hnq

/-! ### stages 1 to 5 of `HAProxyUpdate` -/

/-- files and flags after stage 4 when no write fails -/
def w4Of (o : Opt) (sh : Sh p) (rw : Bool) (w : FW p) : FW p :=
  crtStage (bmStage o rw (s0Of sh rw w) (flagStage rw (s0Of sh rw w)
    { tcpStage rw (w0Of w) with h := hWrite (hs0Of rw w) }))

/-- when no write of stages 1 to 4 fails, whatever the fault -/
theorem pre_ok {o : Opt} {sh : Sh p} {w : FW p} {f : Fault} {m : Mid p} (h : pre o sh f w = .ok m) :
    m = dynStage sh f.bad (o.repaired && w.rewriteOwed) (w0Of w) (s0Of sh (o.repaired && w.rewriteOwed) w)
      (hs0Of (o.repaired && w.rewriteOwed) w) (hWrite (hs0Of (o.repaired && w.rewriteOwed) w))
      (w4Of o sh (o.repaired && w.rewriteOwed) w) := by
  unfold pre at h
  split at h
  · cases h
  unfold pre2 at h
  split at h
  · cases h
  unfold pre3 at h
  split at h
  · cases h
  unfold pre4 at h
  split at h
  · cases h
  cases h
  rfl

/-- stages 1 to 4 are not stopped by a fault that is not a write fault of theirs -/
theorem pre_isOk_of_late {o : Opt} {sh : Sh p} {w : FW p} {f : Fault}
    (h1 : (f == .tcpMaps) = false) (h2 : (f == .frontMaps) = false) (h3 : (f == .backMaps) = false)
    (h4 : (f == .crtLists) = false) : ∃ m, pre o sh f w = .ok m := by
  unfold pre pre2 pre3 pre4
  simp only [h1, h2, h3, h4, Bool.and_false, Bool.false_eq_true, if_false]
  exact ⟨_, rfl⟩

section stages
variable (o : Opt) (sh : Sh p) (rw : Bool) (s0 : Store p) (w : FW p)

@[simp] theorem tcpStage_g : (tcpStage rw w).g = w.g := by unfold tcpStage; split <;> rfl
@[simp] theorem tcpStage_h : (tcpStage rw w).h = w.h := by unfold tcpStage; split <;> rfl
@[simp] theorem tcpStage_run : (tcpStage rw w).run = w.run := by unfold tcpStage; split <;> rfl
@[simp] theorem tcpStage_pending : (tcpStage rw w).pending = w.pending := by unfold tcpStage; split <;> rfl
@[simp] theorem tcpStage_reloadOwed : (tcpStage rw w).reloadOwed = w.reloadOwed := by unfold tcpStage; split <;> rfl
@[simp] theorem tcpStage_rewriteOwed : (tcpStage rw w).rewriteOwed = w.rewriteOwed := by unfold tcpStage; split <;> rfl
@[simp] theorem tcpStage_mainHosts : (tcpStage rw w).mainHosts = w.mainHosts := by unfold tcpStage; split <;> rfl
@[simp] theorem tcpStage_bm : (tcpStage rw w).bm = w.bm := by unfold tcpStage; split <;> rfl
@[simp] theorem tcpStage_pcI : (tcpStage rw w).pcI = w.pcI := by unfold tcpStage; split <;> rfl
@[simp] theorem tcpStage_pmI : (tcpStage rw w).pmI = w.pmI := by unfold tcpStage; split <;> rfl
@[simp] theorem tcpStage_pcD : (tcpStage rw w).pcD = w.pcD := by unfold tcpStage; split <;> rfl
@[simp] theorem tcpStage_pmD : (tcpStage rw w).pmD = w.pmD := by unfold tcpStage; split <;> rfl
@[simp] theorem tcpStage_tcp_want : (tcpStage rw w).tcp.want = w.tcp.want := by unfold tcpStage; split <;> rfl
@[simp] theorem tcpStage_tcp_changed : (tcpStage rw w).tcp.changed = w.tcp.changed := by unfold tcpStage; split <;> rfl
@[simp] theorem tcpStage_tcp_main : (tcpStage rw w).tcp.main = w.tcp.main := by unfold tcpStage; split <;> rfl
@[simp] theorem tcpStage_tcp_crt : (tcpStage rw w).tcp.crt = w.tcp.crt := by unfold tcpStage; split <;> rfl
@[simp] theorem flagStage_g : (flagStage rw s0 w).g = w.g := by unfold flagStage; split <;> rfl
@[simp] theorem flagStage_h : (flagStage rw s0 w).h = w.h := by unfold flagStage; split <;> rfl
@[simp] theorem flagStage_run : (flagStage rw s0 w).run = w.run := by unfold flagStage; split <;> rfl
@[simp] theorem flagStage_pending : (flagStage rw s0 w).pending = w.pending := by unfold flagStage; split <;> rfl
@[simp] theorem flagStage_reloadOwed : (flagStage rw s0 w).reloadOwed = w.reloadOwed := by unfold flagStage; split <;> rfl
@[simp] theorem flagStage_rewriteOwed : (flagStage rw s0 w).rewriteOwed = w.rewriteOwed := by unfold flagStage; split <;> rfl
@[simp] theorem flagStage_mainHosts : (flagStage rw s0 w).mainHosts = w.mainHosts := by unfold flagStage; split <;> rfl
@[simp] theorem flagStage_bm : (flagStage rw s0 w).bm = w.bm := by unfold flagStage; split <;> rfl
@[simp] theorem flagStage_pcD : (flagStage rw s0 w).pcD = w.pcD := by unfold flagStage; split <;> rfl
@[simp] theorem flagStage_pmD : (flagStage rw s0 w).pmD = w.pmD := by unfold flagStage; split <;> rfl
@[simp] theorem flagStage_tcp_want : (flagStage rw s0 w).tcp.want = w.tcp.want := by unfold flagStage; split <;> rfl
@[simp] theorem flagStage_tcp_changed : (flagStage rw s0 w).tcp.changed = w.tcp.changed := by unfold flagStage; split <;> rfl
@[simp] theorem flagStage_tcp_main : (flagStage rw s0 w).tcp.main = w.tcp.main := by unfold flagStage; split <;> rfl
@[simp] theorem flagStage_tcp_map : (flagStage rw s0 w).tcp.map = w.tcp.map := by unfold flagStage; split <;> rfl
@[simp] theorem flagStage_tcp_crt : (flagStage rw s0 w).tcp.crt = w.tcp.crt := by unfold flagStage; split <;> rfl
@[simp] theorem bmStage_g : (bmStage o rw s0 w).g = w.g := by unfold bmStage; split <;> rfl
@[simp] theorem bmStage_h : (bmStage o rw s0 w).h = w.h := by unfold bmStage; split <;> rfl
@[simp] theorem bmStage_run : (bmStage o rw s0 w).run = w.run := by unfold bmStage; split <;> rfl
@[simp] theorem bmStage_pending : (bmStage o rw s0 w).pending = w.pending := by unfold bmStage; split <;> rfl
@[simp] theorem bmStage_reloadOwed : (bmStage o rw s0 w).reloadOwed = w.reloadOwed := by unfold bmStage; split <;> rfl
@[simp] theorem bmStage_rewriteOwed : (bmStage o rw s0 w).rewriteOwed = w.rewriteOwed := by unfold bmStage; split <;> rfl
@[simp] theorem bmStage_mainHosts : (bmStage o rw s0 w).mainHosts = w.mainHosts := by unfold bmStage; split <;> rfl
@[simp] theorem bmStage_pcI : (bmStage o rw s0 w).pcI = w.pcI := by unfold bmStage; split <;> rfl
@[simp] theorem bmStage_pmI : (bmStage o rw s0 w).pmI = w.pmI := by unfold bmStage; split <;> rfl
@[simp] theorem bmStage_pcD : (bmStage o rw s0 w).pcD = w.pcD := by unfold bmStage; split <;> rfl
@[simp] theorem bmStage_pmD : (bmStage o rw s0 w).pmD = w.pmD := by unfold bmStage; split <;> rfl
@[simp] theorem bmStage_tcp_want : (bmStage o rw s0 w).tcp.want = w.tcp.want := by unfold bmStage; split <;> rfl
@[simp] theorem bmStage_tcp_changed : (bmStage o rw s0 w).tcp.changed = w.tcp.changed := by unfold bmStage; split <;> rfl
@[simp] theorem bmStage_tcp_main : (bmStage o rw s0 w).tcp.main = w.tcp.main := by unfold bmStage; split <;> rfl
@[simp] theorem bmStage_tcp_map : (bmStage o rw s0 w).tcp.map = w.tcp.map := by unfold bmStage; split <;> rfl
@[simp] theorem bmStage_tcp_crt : (bmStage o rw s0 w).tcp.crt = w.tcp.crt := by unfold bmStage; split <;> rfl
@[simp] theorem crtStage_g : (crtStage  w).g = w.g := by unfold crtStage; split <;> rfl
@[simp] theorem crtStage_h : (crtStage  w).h = w.h := by unfold crtStage; split <;> rfl
@[simp] theorem crtStage_run : (crtStage  w).run = w.run := by unfold crtStage; split <;> rfl
@[simp] theorem crtStage_pending : (crtStage  w).pending = w.pending := by unfold crtStage; split <;> rfl
@[simp] theorem crtStage_reloadOwed : (crtStage  w).reloadOwed = w.reloadOwed := by unfold crtStage; split <;> rfl
@[simp] theorem crtStage_rewriteOwed : (crtStage  w).rewriteOwed = w.rewriteOwed := by unfold crtStage; split <;> rfl
@[simp] theorem crtStage_mainHosts : (crtStage  w).mainHosts = w.mainHosts := by unfold crtStage; split <;> rfl
@[simp] theorem crtStage_bm : (crtStage  w).bm = w.bm := by unfold crtStage; split <;> rfl
@[simp] theorem crtStage_pcI : (crtStage  w).pcI = w.pcI := by unfold crtStage; split <;> rfl
@[simp] theorem crtStage_pmI : (crtStage  w).pmI = w.pmI := by unfold crtStage; split <;> rfl
@[simp] theorem crtStage_pcD : (crtStage  w).pcD = w.pcD := by unfold crtStage; split <;> rfl
@[simp] theorem crtStage_pmD : (crtStage  w).pmD = w.pmD := by unfold crtStage; split <;> rfl
@[simp] theorem crtStage_tcp_want : (crtStage  w).tcp.want = w.tcp.want := by unfold crtStage; split <;> rfl
@[simp] theorem crtStage_tcp_changed : (crtStage  w).tcp.changed = w.tcp.changed := by unfold crtStage; split <;> rfl
@[simp] theorem crtStage_tcp_main : (crtStage  w).tcp.main = w.tcp.main := by unfold crtStage; split <;> rfl
@[simp] theorem crtStage_tcp_map : (crtStage  w).tcp.map = w.tcp.map := by unfold crtStage; split <;> rfl

@[simp] theorem tcpStage_tcp_map : (tcpStage rw w).tcp.map = if tcpWrites rw w then w.tcp.want else w.tcp.map := by
  unfold tcpStage; split <;> simp_all
@[simp] theorem crtStage_tcp_crt : (crtStage w).tcp.crt = if w.tcp.want != 0 then w.tcp.want else w.tcp.crt := by
  unfold crtStage; split <;> simp_all
@[simp] theorem flagStage_pcI (x : Fin p) : (flagStage rw s0 w).pcI x =
    (((backChanged s0 || rw) && (visOf rw s0 x).isSome) || w.pcI x) := by
  unfold flagStage mapFlags
  by_cases h : (backChanged s0 || rw) = true
  · simp [h]
  · have h' : (backChanged s0 || rw) = false := by simpa using h
    simp [h']
@[simp] theorem flagStage_pmI (x : Fin p) : (flagStage rw s0 w).pmI x =
    (((backChanged s0 || rw) && (visOf rw s0 x).isSome) || w.pmI x) := by
  unfold flagStage mapFlags
  by_cases h : (backChanged s0 || rw) = true
  · simp [h]
  · have h' : (backChanged s0 || rw) = false := by simpa using h
    simp [h']
@[simp] theorem bmStage_bm (x : Fin p) : (bmStage o rw s0 w).bm x =
    if backChanged s0 || rw then
      (match visOf rw s0 x with
        | some c => if o.needACL (conf c) then some (conf c) else w.bm x
        | none => w.bm x)
    else w.bm x := by
  unfold bmStage bmWrite
  by_cases h : (backChanged s0 || rw) = true
  · simp only [h, if_true]; cases visOf rw s0 x <;> rfl
  · have h' : (backChanged s0 || rw) = false := by simpa using h
    simp [h']

end stages

section w4
variable (o : Opt) (sh : Sh p) (rw : Bool) (w : FW p)

theorem w4Of_g : (w4Of o sh rw w).g = w.g := by simp [w4Of, w0Of, shrinkFlags]
theorem w4Of_h : (w4Of o sh rw w).h = hWrite (hs0Of rw w) := by simp [w4Of]
theorem w4Of_run : (w4Of o sh rw w).run = w.run := by simp [w4Of, w0Of, shrinkFlags]
theorem w4Of_pending : (w4Of o sh rw w).pending = w.pending := by simp [w4Of, w0Of, shrinkFlags]
theorem w4Of_reloadOwed : (w4Of o sh rw w).reloadOwed = w.reloadOwed := by simp [w4Of, w0Of, shrinkFlags]
theorem w4Of_rewriteOwed : (w4Of o sh rw w).rewriteOwed = true := by simp [w4Of, w0Of]
theorem w4Of_mainHosts : (w4Of o sh rw w).mainHosts = w.mainHosts := by simp [w4Of, w0Of, shrinkFlags]
theorem w4Of_tcp_want : (w4Of o sh rw w).tcp.want = w.tcp.want := by simp [w4Of, w0Of, shrinkFlags]
theorem w4Of_tcp_changed : (w4Of o sh rw w).tcp.changed = w.tcp.changed := by simp [w4Of, w0Of, shrinkFlags]
theorem w4Of_tcp_main : (w4Of o sh rw w).tcp.main = w.tcp.main := by simp [w4Of, w0Of, shrinkFlags]
theorem w4Of_tcp_map : (w4Of o sh rw w).tcp.map = if tcpWrites rw w then w.tcp.want else w.tcp.map := by
  simp [w4Of, w0Of, shrinkFlags, tcpWrites]
theorem w4Of_tcp_crt : (w4Of o sh rw w).tcp.crt = if w.tcp.want != 0 then w.tcp.want else w.tcp.crt := by
  simp [w4Of, w0Of, shrinkFlags]
theorem w4Of_bm (x : Fin p) : (w4Of o sh rw w).bm x =
    if backChanged (s0Of sh rw w) || rw then
      (match visOf rw (s0Of sh rw w) x with
        | some c => if o.needACL (conf c) then some (conf c) else w.bm x
        | none => w.bm x)
    else w.bm x := by
  simp [w4Of, w0Of, shrinkFlags]
theorem w4Of_pmI (x : Fin p) : (w4Of o sh rw w).pmI x =
    (((backChanged (s0Of sh rw w) || rw) && (visOf rw (s0Of sh rw w) x).isSome) ||
      (if matched w.g.w.store x then w.pmD x else w.pmI x)) := by
  simp [w4Of, w0Of, shrinkFlags]
theorem w4Of_pcI (x : Fin p) : (w4Of o sh rw w).pcI x =
    (((backChanged (s0Of sh rw w) || rw) && (visOf rw (s0Of sh rw w) x).isSome) ||
      (if matched w.g.w.store x then w.pcD x else w.pcI x)) := by
  simp [w4Of, w0Of, shrinkFlags]

end w4

/-! ### the dynamic update -/

theorem pair?_eq_some {s : Store p} {x : Fin p} {d a : Content} :
    pair? s x = some (d, a) ↔ s.del x = some d ∧ s.add x = some a ∧ a.slots ≤ d.slots := by
  unfold pair?
  cases hd : s.del x with
  | none => simp
  | some d' =>
    cases ha : s.add x with
    | none => simp
    | some a' =>
      by_cases hle : a'.slots ≤ d'.slots
      · simp only [hle, if_true, Option.some.injEq, Prod.mk.injEq]
        constructor
        · rintro ⟨rfl, rfl⟩; exact ⟨rfl, rfl, hle⟩
        · rintro ⟨rfl, rfl, _⟩; exact ⟨rfl, rfl⟩
      · simp only [hle, if_false, Option.some.injEq]
        constructor
        · intro h; cases h
        · rintro ⟨rfl, rfl, h⟩; exact absurd h hle

theorem pair?_none_of_add_none {s : Store p} {x : Fin p} (h : s.add x = none) : pair? s x = none := by
  unfold pair?; cases s.del x <;> simp [h]

theorem dynStore_items (sh : Sh p) (s : Store p) (x : Fin p) :
    (dynStore sh s).items x = match pair? s x with
      | some da => some { cfg := da.2.cfg, slots := da.1.slots }
      | none => s.items x := by
  unfold dynStore; simp only []; cases hp : pair? s x <;> simp

theorem dynStore_add (sh : Sh p) (s : Store p) (x : Fin p) :
    (dynStore sh s).add x = match pair? s x with
      | some da => some { cfg := da.2.cfg, slots := da.1.slots }
      | none => s.add x := by
  unfold dynStore; simp only []; cases hp : pair? s x <;> simp

theorem dynStore_del (sh : Sh p) (s : Store p) : (dynStore sh s).del = s.del := rfl
theorem dynStore_changed (sh : Sh p) (s : Store p) : (dynStore sh s).changed = s.changed := rfl

theorem dynStore_add_isSome (sh : Sh p) (s : Store p) (x : Fin p) :
    ((dynStore sh s).add x).isSome = (s.add x).isSome := by
  rw [dynStore_add]
  cases hp : pair? s x with
  | none => rfl
  | some da =>
    obtain ⟨d, a⟩ := da
    have := (pair?_eq_some.1 hp).2.1
    simp [this]

/-- the dynamic update keeps the C05 invariant: the added object of a pair is replaced, in `items`,
`itemsAdd` and its shard, by one that differs in the number of empty slots only -/
theorem dynStore_inv {sh : Sh p} {s : Store p} {d : Disk p} (h : Inv sh { store := s, disk := d }) :
    Inv sh { store := dynStore sh s, disk := d } := by
  obtain ⟨ha, hb, hb2, hc, he, hs1, hg⟩ := h
  refine ⟨?_, ?_, ?_, ?_, ?_, ?_, ?_⟩
  · intro x c hx
    simp only [dynStore_add, dynStore_items] at hx ⊢
    cases hp : pair? s x with
    | none => simp only [hp] at hx ⊢; exact ha x c hx
    | some da => simp only [hp] at hx ⊢; exact hx
  · intro x hx hd
    simp only [dynStore_add, dynStore_items] at hx ⊢
    cases hp : pair? s x with
    | none => simp only [hp] at hx ⊢; exact hb x hx hd
    | some da => simp [hp] at hx
  · intro x hx hd
    simp only [dynStore_add, dynStore_items] at hx ⊢
    cases hp : pair? s x with
    | none => simp only [hp] at hx ⊢; exact hb2 x hx hd
    | some da => simp [hp] at hx
  · exact hc
  · intro hn x hx
    have : ((dynStore sh s).add x).isSome = (s.add x).isSome := dynStore_add_isSome sh s x
    simp only [] at hx
    rw [this] at hx
    exact he hn x hx
  · intro hn k x
    simp only [dynStore_items]
    show (dynStore sh s).shards k x = _
    unfold dynStore
    simp only []
    cases hp : pair? s x with
    | none => simp only [Option.map_none]; exact hs1 hn k x
    | some da =>
      simp only [Option.map_some]
      by_cases hk : sh.shardOf x = k
      · simp [hk, hn]
      · have hk' : ¬ (k = sh.shardOf x) := fun h => hk h.symm
        simp only [hn, ne_eq, not_false_eq_true, hk', and_false, if_false, hk]
        have := hs1 hn k x
        simp only [hk, if_false] at this
        exact this
  · exact hg

/-- a name has an item after the dynamic update iff it had one before -/
theorem dynStore_items_isSome {sh : Sh p} {s : Store p} (h : SInv sh s)
    (x : Fin p) : ((dynStore sh s).items x).isSome = (s.items x).isSome := by
  rw [dynStore_items]
  cases hp : pair? s x with
  | none => rfl
  | some da =>
    obtain ⟨d', a⟩ := da
    have : s.items x = some a := h.a x a (pair?_eq_some.1 hp).2.1
    simp [this]

/-- and its `conf` is the same -/
theorem dynStore_items_conf {sh : Sh p} {s : Store p} (h : SInv sh s)
    {x : Fin p} {c : Content} (hx : (dynStore sh s).items x = some c) :
    ∃ c0, s.items x = some c0 ∧ conf c0 = conf c := by
  rw [dynStore_items] at hx
  cases hp : pair? s x with
  | none => rw [hp] at hx; exact ⟨c, hx, rfl⟩
  | some da =>
    obtain ⟨d', a⟩ := da
    rw [hp] at hx
    simp only [Option.some.injEq] at hx
    subst hx
    exact ⟨a, h.a x a (pair?_eq_some.1 hp).2.1, rfl⟩

theorem sinv_dynStore {sh : Sh p} {s : Store p} (h : SInv sh s) : SInv sh (dynStore sh s) := by
  obtain ⟨ha, hs1⟩ := h
  refine ⟨?_, ?_⟩
  · intro x c hx
    simp only [dynStore_add, dynStore_items] at hx ⊢
    cases hp : pair? s x with
    | none => simp only [hp] at hx ⊢; exact ha x c hx
    | some da => simp only [hp] at hx ⊢; exact hx
  · intro hn k x
    simp only [dynStore_items]
    show (dynStore sh s).shards k x = _
    unfold dynStore
    simp only []
    cases hp : pair? s x with
    | none => simp only [Option.map_none]; exact hs1 hn k x
    | some da =>
      simp only [Option.map_some]
      by_cases hk : sh.shardOf x = k
      · simp [hk, hn]
      · have hk' : ¬ (k = sh.shardOf x) := fun h => hk h.symm
        simp only [hn, ne_eq, not_false_eq_true, hk', and_false, if_false, hk]
        have := hs1 hn k x
        simp only [hk, if_false] at this
        exact this

theorem anyRange_false {f : Nat → Bool} {lo : Nat} : ∀ {n : Nat}, anyRange f lo n = false →
    ∀ i, i < n → f (lo + i) = false := by
  intro n
  induction n with
  | zero => intro _ i hi; omega
  | succ n ih =>
    intro h i hi
    simp only [anyRange, Bool.or_eq_false_iff] at h
    by_cases hin : i = n
    · subst hin; exact h.1
    · exact ih h.2 i (by omega)


end HapVerif.C12
