import HapVerif.Lemmas.C05
import HapVerif.Model.C05Align
/-! Lemmas for C05 / alignSlots: the invariant that holds from `Shrink` to `writeConfig`, while the dynamic
updater changes stored objects in place. -/
namespace HapVerif.C05A
open HapVerif.C05
variable {p : Nat}

/-- what `writeConfig` relies on: the shard maps are the items; a backend whose shard is NOT flagged is on
disk as it is in memory -/
structure WInv (sh : Sh p) (s : Store p) (disk : Disk p) : Prop where
  s1 : sh.n ≠ 0 → ∀ k x, s.shards k x = if sh.shardOf x = k then s.items x else none
  g : ∀ k x, sh.shardOf x ≠ k → disk k x = none
  u : sh.n ≠ 0 → ∀ x, s.changed (sh.shardOf x) = false → s.items x = disk (sh.shardOf x) x

theorem winv_of_inv {sh : Sh p} {w : World p} (h : Inv sh w) : WInv sh w.store w.disk := by
  obtain ⟨ha, hb, hb2, hc, he, hs1, hg⟩ := h
  refine ⟨hs1, hg, ?_⟩
  intro hn x hch
  have := he hn x
  rw [hch] at this
  have hnone : w.store.add x = none ∧ w.store.del x = none := by
    cases hadd : w.store.add x <;> cases hdel : w.store.del x <;> simp_all
  exact hb x hnone.1 hnone.2

/-- an in-place change keeps the write-time invariant as long as the shard of every object that really
changed is flagged -/
theorem mutate_winv {sh : Sh p} {s : Store p} {disk : Disk p} (h : WInv sh s disk)
    (f : Fin p → Content → Content) (ch : Nat → Bool)
    (hmono : ∀ k, s.changed k = true → ch k = true)
    (hflag : sh.n ≠ 0 → ∀ x c, s.items x = some c → f x c ≠ c → ch (sh.shardOf x) = true) :
    WInv sh { mutate s f with changed := ch } disk := by
  obtain ⟨hs1, hg, hu⟩ := h
  refine ⟨?_, hg, ?_⟩
  · intro hn k x
    simp only [mutate]
    rw [hs1 hn k x]
    by_cases hk : sh.shardOf x = k <;> simp [hk]
  · intro hn x hch
    simp only [mutate] at hch ⊢
    have hold : s.changed (sh.shardOf x) = false := by
      cases hc : s.changed (sh.shardOf x) with
      | false => rfl
      | true => rw [hmono _ hc] at hch; cases hch
    rw [← hu hn x hold]
    cases hi : s.items x with
    | none => rfl
    | some c =>
      simp only [Option.map_some, Option.some.injEq]
      by_cases hf : f x c = c
      · exact hf
      · rw [hflag hn x c hi hf] at hch; cases hch

theorem write_good_w {sh : Sh p} (wf : sh.WF) {s : Store p} {disk : Disk p} (h : WInv sh s disk) :
    ∀ k x, write sh s disk k x = itemsIn sh s k x := by
  obtain ⟨hs1, hg, hu⟩ := h
  intro k x
  have hwf := wf x
  unfold write itemsIn
  by_cases hn : sh.n = 0
  · simp only [hn, if_true] at hwf ⊢
    by_cases hk : k = 0
    · simp [hk, hwf]
    · have : sh.shardOf x ≠ k := by omega
      simp only [hk, if_false, this]; exact hg k x this
  · simp only [hn, if_false]
    by_cases hch : s.changed k = true
    · simp only [hch, if_true]; exact hs1 hn k x
    · simp only [hch]
      by_cases hk : sh.shardOf x = k
      · simp only [hk, if_true]
        have : s.changed (sh.shardOf x) = false := by rw [hk]; simpa using hch
        rw [← hk]; exact (hu hn x this).symm
      · simp only [hk, if_false]; exact hg k x hk

/-- files written from a state that satisfies the write-time invariant, then `Commit` -/
theorem written_good {sh : Sh p} (wf : sh.WF) {s : Store p} {disk : Disk p} (h : WInv sh s disk) :
    Good sh { store := commit s, disk := write sh s disk } ∧ Clean { store := commit s, disk := write sh s disk } ∧
      Inv sh { store := commit s, disk := write sh s disk } := by
  have hg := write_good_w wf h
  have good : Good sh { store := commit s, disk := write sh s disk } := by
    intro k x; exact hg k x
  refine ⟨good, ⟨fun x => ⟨rfl, rfl⟩, fun k => rfl⟩, ?_⟩
  refine ⟨?_, ?_, ?_, ?_, ?_, ?_, ?_⟩
  · intro x c hx; simp [commit, emp] at hx
  · intro x _ _
    have := good (sh.shardOf x) x
    simp only [itemsIn, if_true] at this
    exact this.symm
  · intro x _ hx; simp [commit, emp] at hx
  · intro x d hx; simp [commit, emp] at hx
  · intro _ x hx; simp [commit, emp] at hx
  · intro hn k x; exact h.s1 hn k x
  · intro k x hk
    have := good k x
    simp only [itemsIn, hk, if_false] at this
    exact this

theorem mutate_id (s : Store p) (f : Fin p → Content → Content) (hf : ∀ x c, f x c = c) : mutate s f = s := by
  have : ∀ x, (fun c => f x c) = id := by intro x; funext c; exact hf x c
  cases s
  simp only [mutate, Store.mk.injEq]
  refine ⟨?_, ?_, trivial, ?_, trivial⟩
  · funext x; show Option.map (fun c => f x c) _ = _; rw [this]; simp
  · funext x; show Option.map (fun c => f x c) _ = _; rw [this]; simp
  · funext k x; show Option.map (fun c => f x c) _ = _; rw [this]; simp

theorem pending_false_iff (s : Store p) : pending s = false ↔ ∀ x, s.add x = none ∧ s.del x = none := by
  unfold pending
  rw [anyFin_false_iff]
  constructor
  · intro h x
    have := h x
    cases ha : s.add x <;> cases hd : s.del x <;> simp_all
  · intro h x; simp [(h x).1, (h x).2]

/-- the pair step changes only objects that are in `itemsAdd`: their shard is already flagged -/
theorem dyn_winv {sh : Sh p} {w : World p} (h : Inv sh w) (d : Dyn p) :
    WInv sh (mutate w.store (dynF d w.store)) w.disk := by
  have hw := winv_of_inv h
  refine mutate_winv hw (dynF d w.store) w.store.changed (fun _ hk => hk) ?_
  intro hn x c _ hne
  apply h.e hn x
  unfold dynF at hne
  cases hd : w.store.del x with
  | none => rw [hd] at hne; exact absurd rfl hne
  | some o =>
    cases ha : w.store.add x with
    | none => rw [hd, ha] at hne; exact absurd rfl hne
    | some a => left; rfl

/-- `alignSlots` of the code: every object it grows has its shard flagged -/
theorem align_winv {sh : Sh p} {s : Store p} {disk : Disk p} (h : WInv sh s disk) (d : Dyn p) :
    WInv sh (align .real d sh s) disk := by
  refine mutate_winv h (alignF d) _ ?_ ?_
  · intro k hk; simp [hk]
  · intro _ x c hi hne
    simp only [Bool.or_eq_true]
    right
    rw [anyFin_iff]
    refine ⟨x, ?_⟩
    simp only [hi, alignFlag, Bool.and_eq_true, beq_self_eq_true, and_true, bne_iff_ne, ne_eq]
    intro h0
    apply hne
    simp [alignF, h0]

end HapVerif.C05A
