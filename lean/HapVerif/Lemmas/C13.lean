import HapVerif.Model.C13
/-! Invariant of the limiter + delaying queue model and its preservation. -/
namespace HapVerif.C13

theorem reloadWhen_eq (i : Int) : reloadWhen i = ingressWhen i 0 := by
  funext last now
  unfold reloadWhen ingressWhen
  cases last <;> simp

theorem setPend_same (f : Bool → Option Int) (b : Bool) (p : Option Int) : setPend f b p b = p := by
  simp [setPend]

theorem setPend_other (f : Bool → Option Int) (b x : Bool) (p : Option Int) (h : x ≠ b) :
    setPend f b p x = f x := by
  simp [setPend, h]

/-- "the run/deadline `r` of an arrival at `t` is as early as the limits allow" -/
def Good (δ w : Int) (runs : List (Int × Bool)) (r t : Int) : Prop :=
  r ≤ t + w ∨ ∃ p b, (p, b) ∈ runs ∧ r = p + δ

theorem Good.mono {δ w : Int} {runs runs' : List (Int × Bool)} {r t : Int}
    (h : Good δ w runs r t) (hs : ∀ x, x ∈ runs → x ∈ runs') : Good δ w runs' r t := by
  rcases h with h | ⟨p, b, hp, e⟩
  · exact Or.inl h
  · exact Or.inr ⟨p, b, hs _ hp, e⟩

theorem runsOf_cons_same (r : Int) (b : Bool) (rs : List (Int × Bool)) :
    runsOf b ((r, b) :: rs) = r :: runsOf b rs := by
  simp [runsOf]

theorem runsOf_cons_other (r : Int) (b x : Bool) (rs : List (Int × Bool)) (h : b ≠ x) :
    runsOf x ((r, b) :: rs) = runsOf x rs := by
  simp [runsOf, h]

theorem mem_runsOf {b : Bool} {rs : List (Int × Bool)} {r : Int} :
    r ∈ runsOf b rs ↔ (r, b) ∈ rs := by
  simp [runsOf]

def pc (o : Option Int) : Nat := match o with | some _ => 1 | none => 0
@[simp] theorem pc_some (d : Int) : pc (some d) = 1 := rfl
@[simp] theorem pc_none : pc none = 0 := rfl

structure Inv (δ w : Int) (s : St) (lo hi : Int) (done : List (Int × Bool)) : Prop where
  pendLast : ∀ b d, s.pend b = some d → s.last = some d ∧ lo < d
  pendGap : ∀ b d, s.pend b = some d → ∀ r, (r, b) ∈ s.runs → r + δ ≤ d
  runLast : ∀ r b, (r, b) ∈ s.runs → ∃ l, s.last = some l ∧ (r = l ∨ r + δ ≤ l)
  runClock : ∀ r b, (r, b) ∈ s.runs → r ≤ hi
  spaced : ∀ b, (runsOf b s.runs).Pairwise (fun a r => r + δ ≤ a)
  lastServed : ∀ l, s.last = some l → (∃ b, s.pend b = some l) ∨ (∃ b, (l, b) ∈ s.runs)
  origin : ∀ l, s.last = some l → l ≤ lo + w ∨ ∃ p b, (p, b) ∈ s.runs ∧ l = p + δ
  served : ∀ t b, (t, b) ∈ done →
    (∃ r, (r, b) ∈ s.runs ∧ t ≤ r ∧ Good δ w s.runs r t) ∨
    (∃ d, s.pend b = some d ∧ t ≤ d ∧ Good δ w s.runs d t)
  count : ∀ b, (runsOf b s.runs).length + pc (s.pend b) ≤ (runsOf b done).length

theorem inv_init (δ w c : Int) : Inv δ w {} c c [] := by
  constructor <;> simp [runsOf]

/-- one item fires -/
theorem fire1_inv {δ w : Int} {s : St} {lo hi t : Int} {done : List (Int × Bool)} (b : Bool)
    (h : Inv δ w s lo hi done) (hle : hi ≤ t) :
    Inv δ w (fire1 s t b) lo t done ∧ (∀ d, (fire1 s t b).pend b = some d → t < d) ∧
    (∀ x d, x ≠ b → (fire1 s t b).pend x = some d → s.pend x = some d) := by
  unfold fire1
  cases hp : s.pend b with
  | none =>
    simp only
    refine ⟨?_, ?_, ?_⟩
    · exact { h with runClock := fun r b' hr => Int.le_trans (h.runClock r b' hr) hle }
    · intro d hd; rw [hp] at hd; cases hd
    · intro x d _ hx; exact hx
  | some d =>
    simp only
    by_cases hd : d ≤ t
    · simp only [hd, if_true]
      have hl := (h.pendLast b d hp).1
      refine ⟨?_, ?_, ?_⟩
      · constructor <;> (try dsimp only)
        · intro x e hx
          by_cases hxb : x = b
          · subst hxb; simp [setPend_same] at hx
          · rw [setPend_other _ _ _ _ hxb] at hx; exact h.pendLast x e hx
        · intro x e hx r hr
          by_cases hxb : x = b
          · subst hxb; simp [setPend_same] at hx
          · rw [setPend_other _ _ _ _ hxb] at hx
            simp only [List.mem_cons, Prod.mk.injEq] at hr
            rcases hr with ⟨_, hbx⟩ | hr
            · exact absurd hbx hxb
            · exact h.pendGap x e hx r hr
        · intro r x hr
          simp only [List.mem_cons, Prod.mk.injEq] at hr
          rcases hr with ⟨hr, _⟩ | hr
          · exact ⟨d, hl, Or.inl hr⟩
          · exact h.runLast r x hr
        · intro r x hr
          simp only [List.mem_cons, Prod.mk.injEq] at hr
          rcases hr with ⟨hr, _⟩ | hr
          · omega
          · exact Int.le_trans (h.runClock r x hr) hle
        · intro x
          by_cases hxb : x = b
          · subst hxb
            rw [runsOf_cons_same]
            refine List.Pairwise.cons ?_ (h.spaced x)
            intro r hr
            exact h.pendGap x d hp r (mem_runsOf.mp hr)
          · rw [runsOf_cons_other _ _ _ _ (Ne.symm hxb)]; exact h.spaced x
        · intro l hl'
          rw [hl] at hl'; cases hl'
          exact Or.inr ⟨b, List.mem_cons_self⟩
        · intro l hl'
          rcases h.origin l hl' with h1 | ⟨p, b', hp', e⟩
          · exact Or.inl h1
          · exact Or.inr ⟨p, b', List.mem_cons_of_mem _ hp', e⟩
        · intro t' x hx
          rcases h.served t' x hx with ⟨r, hr, h1, h2⟩ | ⟨e, he, h1, h2⟩
          · exact Or.inl ⟨r, List.mem_cons_of_mem _ hr, h1, h2.mono (fun _ => List.mem_cons_of_mem _)⟩
          · by_cases hxb : x = b
            · subst hxb
              rw [hp] at he; cases he
              exact Or.inl ⟨d, List.mem_cons_self, h1, h2.mono (fun _ => List.mem_cons_of_mem _)⟩
            · refine Or.inr ⟨e, ?_, h1, h2.mono (fun _ => List.mem_cons_of_mem _)⟩
              rw [setPend_other _ _ _ _ hxb]; exact he
        · intro x
          have := h.count x
          by_cases hxb : x = b
          · subst hxb
            rw [runsOf_cons_same]; simp only [setPend_same, List.length_cons]
            rw [hp] at this; simp at this ⊢; omega
          · rw [runsOf_cons_other _ _ _ _ (Ne.symm hxb), setPend_other _ _ _ _ hxb]; exact this
      · intro e he; simp [setPend_same] at he
      · intro x e hxb hx; rw [setPend_other _ _ _ _ hxb] at hx; exact hx
    · simp only [hd, if_false]
      refine ⟨?_, ?_, ?_⟩
      · exact { h with runClock := fun r b' hr => Int.le_trans (h.runClock r b' hr) hle }
      · intro e he; rw [hp] at he; cases he; omega
      · intro x e _ hx; exact hx

/-- after `fire s t` the invariant holds with both clocks at `t` -/
theorem fire_inv {δ w : Int} {s : St} {c t : Int} {done : List (Int × Bool)}
    (h : Inv δ w s c c done) (hle : c ≤ t) (hw : 0 ≤ w) : Inv δ w (fire s t) t t done := by
  unfold fire
  obtain ⟨h1, p1, _⟩ := fire1_inv (t := t) false h hle
  obtain ⟨h2, p2, q2⟩ := fire1_inv (t := t) true h1 (Int.le_refl t)
  have hp : ∀ b d, (fire1 (fire1 s t false) t true).pend b = some d → t < d := by
    intro b d hb
    cases b
    · exact p1 d (q2 false d (by decide) hb)
    · exact p2 d hb
  exact { h2 with
    pendLast := fun b d hb => ⟨(h2.pendLast b d hb).1, hp b d hb⟩
    origin := fun l hl => by
      rcases h2.origin l hl with h' | h'
      · exact Or.inl (by omega)
      · exact Or.inr h' }

/-- one arrival through `ingressWhen δ w` -/
theorem arrive_inv {δ w : Int} {s : St} {c t : Int} {done : List (Int × Bool)} (b : Bool)
    (h : Inv δ w s c c done) (hle : c ≤ t) (hδ : 0 < δ) (hw : 0 ≤ w) :
    Inv δ w (arrive (ingressWhen δ w) s t b) t t ((t, b) :: done) := by
  have hf := fire_inv h hle hw
  unfold arrive
  simp only
  generalize fire s t = s' at hf
  -- all pending deadlines are in the future and equal `last`
  cases hl : s'.last with
  | none =>
    have nopend : ∀ x, s'.pend x = none := by
      intro x; cases hx : s'.pend x with
      | none => rfl
      | some d => have := (hf.pendLast x d hx).1; rw [hl] at this; cases this
    have noruns : s'.runs = [] := by
      cases hr : s'.runs with
      | nil => rfl
      | cons a as =>
        obtain ⟨l, hl', _⟩ := hf.runLast a.1 a.2 (by rw [hr]; exact List.mem_cons_self)
        rw [hl] at hl'; cases hl'
    simp only [ingressWhen]
    by_cases hw0 : w ≤ 0
    · have : w = 0 := by omega
      subst this
      simp only [Int.le_refl, if_true, Int.add_zero]
      constructor <;> (try dsimp only)
      · intro x d hx; rw [nopend x] at hx; cases hx
      · intro x d hx; rw [nopend x] at hx; cases hx
      · intro r x hr; rw [noruns] at hr; simp at hr; exact ⟨t, rfl, Or.inl hr.1⟩
      · intro r x hr; rw [noruns] at hr; simp at hr; omega
      · intro x; rw [noruns]
        by_cases hxb : b = x
        · subst hxb; rw [runsOf_cons_same]; simp [runsOf]
        · rw [runsOf_cons_other _ _ _ _ hxb]; simp [runsOf]
      · intro l hl'; cases hl'; exact Or.inr ⟨b, List.mem_cons_self⟩
      · intro l hl'; cases hl'; exact Or.inl (by omega)
      · intro t' x hx
        simp only [List.mem_cons, Prod.mk.injEq] at hx
        rcases hx with ⟨e1, e2⟩ | hx
        · subst e1 e2
          exact Or.inl ⟨t', List.mem_cons_self, Int.le_refl _, Or.inl (by omega)⟩
        · rcases hf.served t' x hx with ⟨r, hr, _⟩ | ⟨d, hd, _⟩
          · rw [noruns] at hr; cases hr
          · rw [nopend x] at hd; cases hd
      · intro x
        have := hf.count x
        rw [noruns, nopend x] at this ⊢
        by_cases hxb : b = x
        · subst hxb; simp [runsOf]
        · rw [runsOf_cons_other _ _ _ _ hxb, runsOf_cons_other _ _ _ _ hxb]; simpa using this
    · simp only [hw0, if_false]
      have e : minOpt (s'.pend b) (t + w) = t + w := by rw [nopend b]; rfl
      rw [e]
      constructor <;> (try dsimp only)
      · intro x d hx
        by_cases hxb : x = b
        · subst hxb; simp [setPend_same] at hx; subst hx; exact ⟨rfl, by omega⟩
        · rw [setPend_other _ _ _ _ hxb, nopend x] at hx; cases hx
      · intro x d hx r hr; rw [noruns] at hr; cases hr
      · intro r x hr; rw [noruns] at hr; cases hr
      · intro r x hr; rw [noruns] at hr; cases hr
      · intro x; rw [noruns]; simp [runsOf]
      · intro l hl'; cases hl'; exact Or.inl ⟨b, setPend_same _ _ _⟩
      · intro l hl'; cases hl'; exact Or.inl (Int.le_refl _)
      · intro t' x hx
        simp only [List.mem_cons, Prod.mk.injEq] at hx
        rcases hx with ⟨e1, e2⟩ | hx
        · subst e1 e2
          exact Or.inr ⟨t' + w, setPend_same _ _ _, by omega, Or.inl (Int.le_refl _)⟩
        · rcases hf.served t' x hx with ⟨r, hr, _⟩ | ⟨d, hd, _⟩
          · rw [noruns] at hr; cases hr
          · rw [nopend x] at hd; cases hd
      · intro x
        rw [noruns]
        by_cases hxb : x = b
        · subst hxb; simp [setPend_same, runsOf_cons_same, runsOf]
        · rw [setPend_other _ _ _ _ hxb, nopend x, runsOf_cons_other _ _ _ _ (Ne.symm hxb)]
          simp [runsOf]
  | some l =>
    simp only [ingressWhen]
    by_cases hlt : l > t
    · -- already scheduled: coalesce into the scheduled run
      simp only [hlt, if_true]
      have hd0 : ¬ (l - t ≤ 0) := by omega
      simp only [hd0, if_false]
      have e : minOpt (s'.pend b) (t + (l - t)) = l := by
        cases hpb : s'.pend b with
        | none => simp [minOpt]; omega
        | some d =>
          have := (hf.pendLast b d hpb).1; rw [hl] at this; cases this
          simp [minOpt]; omega
      rw [e]
      have runlt : ∀ r x, (r, x) ∈ s'.runs → r + δ ≤ l := by
        intro r x hr
        obtain ⟨l', hl', h'⟩ := hf.runLast r x hr
        rw [hl] at hl'; cases hl'
        have := hf.runClock r x hr
        rcases h' with h' | h'
        · omega
        · exact h'
      constructor <;> (try dsimp only)
      · intro x d hx
        by_cases hxb : x = b
        · subst hxb; simp [setPend_same] at hx; subst hx; exact ⟨rfl, by omega⟩
        · rw [setPend_other _ _ _ _ hxb] at hx
          have := hf.pendLast x d hx; rw [hl] at this; exact this
      · intro x d hx r hr
        by_cases hxb : x = b
        · subst hxb; simp [setPend_same] at hx; subst hx; exact runlt r x hr
        · rw [setPend_other _ _ _ _ hxb] at hx; exact hf.pendGap x d hx r hr
      · intro r x hr
        obtain ⟨l', hl', h'⟩ := hf.runLast r x hr
        rw [hl] at hl'; cases hl'
        exact ⟨l, rfl, h'⟩
      · exact hf.runClock
      · exact hf.spaced
      · intro l' hl'; cases hl'; exact Or.inl ⟨b, setPend_same _ _ _⟩
      · intro l' hl'; cases hl'
        exact hf.origin l hl
      · intro t' x hx
        simp only [List.mem_cons, Prod.mk.injEq] at hx
        rcases hx with ⟨e1, e2⟩ | hx
        · subst e1 e2
          refine Or.inr ⟨l, setPend_same _ _ _, by omega, ?_⟩
          rcases hf.origin l hl with h' | h'
          · exact Or.inl h'
          · exact Or.inr h'
        · rcases hf.served t' x hx with h' | ⟨d, hd, h1, h2⟩
          · exact Or.inl h'
          · refine Or.inr ⟨d, ?_, h1, h2⟩
            by_cases hxb : x = b
            · subst hxb
              have := (hf.pendLast x d hd).1; rw [hl] at this; cases this
              exact setPend_same _ _ _
            · rw [setPend_other _ _ _ _ hxb]; exact hd
      · intro x
        have := hf.count x
        by_cases hxb : x = b
        · subst hxb
          rw [runsOf_cons_same, setPend_same]; simp only [List.length_cons, pc_some]
          cases hq : s'.pend x <;> rw [hq] at this <;> simp at this <;> omega
        · rw [setPend_other _ _ _ _ hxb, runsOf_cons_other _ _ _ _ (Ne.symm hxb)]; exact this
    · -- `last` is not in the future: every pending item has fired, a run at `l` exists
      simp only [hlt, if_false]
      have nopend : ∀ x, s'.pend x = none := by
        intro x; cases hx : s'.pend x with
        | none => rfl
        | some d =>
          have := hf.pendLast x d hx; rw [hl] at this
          obtain ⟨e, h'⟩ := this; cases e; omega
      obtain ⟨bl, hbl⟩ : ∃ bl, (l, bl) ∈ s'.runs := by
        rcases hf.lastServed l hl with ⟨x, hx⟩ | h'
        · rw [nopend x] at hx; cases hx
        · exact h'
      have runle : ∀ r x, (r, x) ∈ s'.runs → r ≤ l := by
        intro r x hr
        obtain ⟨l', hl', h'⟩ := hf.runLast r x hr
        rw [hl] at hl'; cases hl'
        rcases h' with h' | h' <;> omega
      -- the new value of `last` and the delay
      have key : ∀ (l' d : Int), l + δ ≤ l' → d = l' - t → 0 ≤ d →
          (l' ≤ t + w ∨ l' = l + δ) →
          Inv δ w
            (if d ≤ 0 then { s' with last := some l', tie := (s.tie || s.pend false == some t || s.pend true == some t), runs := (t, b) :: s'.runs }
             else { s' with last := some l', tie := (s.tie || s.pend false == some t || s.pend true == some t),
                            pend := setPend s'.pend b (some (minOpt (s'.pend b) (t + d))) })
            t t ((t, b) :: done) := by
        intro l' d hl' hd hd0 hor
        have good : Good δ w s'.runs l' t := by
          rcases hor with h' | h'
          · exact Or.inl h'
          · exact Or.inr ⟨l, bl, hbl, h'⟩
        by_cases hz : d ≤ 0
        · have ht : l' = t := by omega
          simp only [hz, if_true]
          constructor <;> (try dsimp only)
          · intro x e hx; rw [nopend x] at hx; cases hx
          · intro x e hx; rw [nopend x] at hx; cases hx
          · intro r x hr
            simp only [List.mem_cons, Prod.mk.injEq] at hr
            rcases hr with ⟨hr, _⟩ | hr
            · exact ⟨l', rfl, Or.inl (by omega)⟩
            · exact ⟨l', rfl, Or.inr (by have := runle r x hr; omega)⟩
          · intro r x hr
            simp only [List.mem_cons, Prod.mk.injEq] at hr
            rcases hr with ⟨hr, _⟩ | hr
            · omega
            · exact hf.runClock r x hr
          · intro x
            by_cases hxb : b = x
            · subst hxb
              rw [runsOf_cons_same]
              refine List.Pairwise.cons ?_ (hf.spaced b)
              intro r hr
              have := runle r b (mem_runsOf.mp hr); omega
            · rw [runsOf_cons_other _ _ _ _ hxb]; exact hf.spaced x
          · intro l'' hl''; cases hl''
            exact Or.inr ⟨b, by rw [ht]; exact List.mem_cons_self⟩
          · intro l'' hl''; cases hl''
            rcases hor with h' | h'
            · exact Or.inl h'
            · exact Or.inr ⟨l, bl, List.mem_cons_of_mem _ hbl, h'⟩
          · intro t' x hx
            simp only [List.mem_cons, Prod.mk.injEq] at hx
            rcases hx with ⟨e1, e2⟩ | hx
            · subst e1 e2
              exact Or.inl ⟨t', List.mem_cons_self, Int.le_refl _, Or.inl (by omega)⟩
            · rcases hf.served t' x hx with ⟨r, hr, h1, h2⟩ | ⟨e, he, _⟩
              · exact Or.inl ⟨r, List.mem_cons_of_mem _ hr, h1, h2.mono (fun _ => List.mem_cons_of_mem _)⟩
              · rw [nopend x] at he; cases he
          · intro x
            have := hf.count x
            rw [nopend x] at this ⊢
            by_cases hxb : b = x
            · subst hxb; simp only [runsOf_cons_same, List.length_cons]; simp at this ⊢; omega
            · simp only [runsOf_cons_other _ _ _ _ hxb]; exact this
        · simp only [hz, if_false]
          have e : minOpt (s'.pend b) (t + d) = l' := by rw [nopend b]; simp [minOpt]; omega
          rw [e]
          constructor <;> (try dsimp only)
          · intro x e' hx
            by_cases hxb : x = b
            · subst hxb; simp [setPend_same] at hx; subst hx; exact ⟨rfl, by omega⟩
            · rw [setPend_other _ _ _ _ hxb, nopend x] at hx; cases hx
          · intro x e' hx r hr
            by_cases hxb : x = b
            · subst hxb; simp [setPend_same] at hx; subst hx
              have := runle r x hr; omega
            · rw [setPend_other _ _ _ _ hxb, nopend x] at hx; cases hx
          · intro r x hr
            exact ⟨l', rfl, Or.inr (by have := runle r x hr; omega)⟩
          · exact hf.runClock
          · exact hf.spaced
          · intro l'' hl''; cases hl''; exact Or.inl ⟨b, setPend_same _ _ _⟩
          · intro l'' hl''; cases hl''
            rcases hor with h' | h'
            · exact Or.inl h'
            · exact Or.inr ⟨l, bl, hbl, h'⟩
          · intro t' x hx
            simp only [List.mem_cons, Prod.mk.injEq] at hx
            rcases hx with ⟨e1, e2⟩ | hx
            · subst e1 e2
              exact Or.inr ⟨l', setPend_same _ _ _, by omega, good⟩
            · rcases hf.served t' x hx with h' | ⟨e', he, _⟩
              · exact Or.inl h'
              · rw [nopend x] at he; cases he
          · intro x
            have := hf.count x
            by_cases hxb : x = b
            · subst hxb
              rw [nopend x] at this
              rw [runsOf_cons_same, setPend_same]; simp at this ⊢; omega
            · rw [setPend_other _ _ _ _ hxb, runsOf_cons_other _ _ _ _ (Ne.symm hxb)]; exact this
      by_cases hfar : l + δ < t
      · simp only [hfar, if_true]
        exact key (t + w) w (by omega) (by omega) hw (Or.inl (Int.le_refl _))
      · simp only [hfar, if_false]
        exact key (l + δ) (l + δ - t) (Int.le_refl _) rfl (by omega) (Or.inr rfl)

end HapVerif.C13
