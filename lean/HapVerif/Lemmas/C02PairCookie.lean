import HapVerif.Lemmas.C02PairSound3
/-!
# M-Dyn soundness with the cookie column (additive layer on top of `pairLoop_sound`)

1. what the preserve guard gives: every current endpoint that received a server name through the pairing loop of
   a successful update carries the cookie of the OLD endpoint of that name (`pairLoop_cookie`);
2. the running table with cookies (`tableC`) projects onto the plain one (`tbl`) and keeps the loaded cookies;
3. both together: running table = loaded table, cookies included (`pairLoop_soundC`).
-/
namespace HapVerif.C02

/-! ### `copyEmpty` appends disabled endpoints that keep name and cookie of their slot -/

theorem cpFold_eps (slots : List EP) : ∀ b : Back,
    ∃ l, (slots.foldl cpStep b).eps = b.eps ++ l ∧
      ∀ x ∈ l, x.enabled = false ∧ ∃ sl ∈ slots, x.name = sl.name ∧ x.cookie = sl.cookie := by
  induction slots with
  | nil => intro b; exact ⟨[], by simp, by simp⟩
  | cons sl rest ih =>
    intro b
    obtain ⟨nm, h1, _⟩ := cpStep_eps b sl
    obtain ⟨l, h2, h3⟩ := ih (cpStep b sl)
    refine ⟨{ mkEmpty nm b.initialWeight with name := sl.name, cookie := sl.cookie } :: l, ?_, ?_⟩
    · rw [List.foldl_cons, h2, h1]; simp
    · intro x hx
      rcases List.mem_cons.1 hx with rfl | hx
      · exact ⟨rfl, sl, by simp, rfl, rfl⟩
      · obtain ⟨h4, sl', hsl', h5⟩ := h3 x hx
        exact ⟨h4, sl', List.mem_cons_of_mem _ hsl', h5⟩

theorem copyEmpty_eps (pr : Bool) (iw : Int) (cur slots : List EP) :
    ∃ l, copyEmpty pr iw cur slots = cur ++ l ∧
      ∀ x ∈ l, x.enabled = false ∧ ∃ sl ∈ slots, x.name = sl.name ∧ x.cookie = sl.cookie :=
  cpFold_eps slots _

/-! ### what the guards say -/

theorem chk_cookie (s : PairSt) (o c : EP)
    (hu : (finish (checkEndpointPair s true o c)).updated = true) : o.cookie = c.cookie := by
  revert hu
  unfold checkEndpointPair finish
  split
  · next h => intro _; rw [h]
  · split
    · intro hu; simp at hu
    · next h => intro _; simpa using h

theorem slot_cookie (s : PairSt) (a : Nat) (slot : EP) (hu : (slotSt true s a slot).updated = true) :
    ((setName s.cur a slot.name).getD a default).cookie = slot.cookie := by
  revert hu
  unfold slotSt
  simp only
  split
  · intro hu; simp at hu
  · next h => intro _; simpa using h

theorem slot_updated (pr : Bool) (s : PairSt) (a : Nat) (slot : EP) (hu : (slotSt pr s a slot).updated = true) :
    s.updated = true := (slot_sound pr s a slot hu).1

/-! ### the cookie invariant of the walk and of stage 4 (preserve on) -/

section
variable {old cur0 : List EP}

/-- visited pairs with a successor: the successor has the old cookie -/
def CInv (cur0 : List EP) (w : Walk) (ts : List String) : Prop :=
  w.s.updated = true →
    ∀ p ∈ w.pairs, ∀ j, p.cur = some j → p.target ∉ ts → (cur0.getD j default).cookie = p.old.cookie

/-- stage 4: all pairs, and the added endpoints already placed have the cookie of their slot -/
def DInv (cur0 : List EP) (W : Walk) (s : PairSt) (done : List Nat) : Prop :=
  s.updated = true →
    (∀ p ∈ W.pairs, ∀ j, p.cur = some j → (cur0.getD j default).cookie = p.old.cookie) ∧
    (∀ (m x : Nat) (slot : EP), done[m]? = some x → W.empty[m]? = some slot → (cur0.getD x default).cookie = slot.cookie)

theorem cookie_of_clr {cur : List EP} (hc : cur.map clr = cur0.map clr) (j : Nat) :
    (cur.getD j default).cookie = (cur0.getD j default).cookie :=
  (clr_fields (clr_getD hc j)).2.2.2.2.1

theorem walk0_cookie (same : Bool) (sc : List Resp) (hO : hasDupTarget old = false) :
    CInv cur0 (walk0 old cur0 same sc) (sortStrs (splitOld old).targets) := by
  intro _ p hp j _ hnt
  have hW := walk0_inv (cur0 := cur0) same sc hO
  have hsp := splitOld_eq old hO
  refine absurd ?_ hnt
  apply (sortStrs_perm _).symm.subset
  rw [hsp]
  show p.target ∈ (enOf old).map (·.target)
  rw [← hW.p.tg]; exact List.mem_map_of_mem hp

theorem walkStep_cookie (hO : hasDupTarget old = false) (w : Walk) (t : String) (ts : List String)
    (hW : WInv old cur0 ((cur0.map (·.target)).Nodup) w (t :: ts)) (hS : CInv cur0 w (t :: ts)) :
    CInv cur0 (walkStep true w t) ts := by
  have hT := (hasDupTarget_false_iff old).1 hO
  have hn : (w.pairs.map (·.target)).Nodup := by rw [hW.p.tg]; exact hT
  obtain ⟨p, hf⟩ := find_of_mem (hW.tsin t (by simp))
  obtain ⟨hp, l1, l2, hps, h1, h2⟩ := find_split hn hf
  have hpm : p ∈ w.pairs := List.mem_of_find?_eq_some hf
  have huq : ∀ q ∈ w.pairs, q.target = t → q = p :=
    fun q hq hqt => eq_of_nodup_map (·.target) w.pairs hn q hq p hpm (by rw [hqt, hp])
  cases hc : p.cur with
  | some ci =>
    rw [walkStep_cur true w t p ci hf hc]
    intro hu q hq j hj hnt
    have hu' : (finish (checkEndpointPair w.s true p.old (w.s.cur.getD ci default))).updated = true := hu
    obtain ⟨hu0, _⟩ := chk_sound _ _ _ _ hu'
    by_cases hqt : q.target = t
    · have := huq q hq hqt
      subst this
      rw [hc] at hj; injection hj with hj; subst hj
      rw [← cookie_of_clr hW.p.clr ci]
      exact (chk_cookie _ _ _ hu').symm
    · exact hS hu0 q hq j hj (by simp [hqt, hnt])
  | none =>
    cases ha : w.added with
    | nil =>
      rw [walkStep_disable true w t p hf hc ha]
      intro hu q hq j hj hnt
      have hu' : (disableSt w.s p.old).updated = true := hu
      obtain ⟨hu0, _⟩ := disable_sound _ _ hu'
      have hqt : q.target ≠ t := by
        intro hqt
        have := huq q hq hqt
        subst this
        rw [hc] at hj; cases hj
      exact hS hu0 q hq j hj (by simp [hqt, hnt])
    | cons a rest =>
      rw [walkStep_take true w t p a rest hf hc ha]
      intro hu q hq j hj hnt
      have hu' : (finish (checkEndpointPair { w.s with cur := setName w.s.cur a p.old.name } true p.old
          ((setName w.s.cur a p.old.name).getD a default))).updated = true := hu
      obtain ⟨hu0, _⟩ := chk_sound _ _ _ _ hu'
      have hu0' : w.s.updated = true := hu0
      have hq' : q ∈ l1 ++ { p with cur := some a } :: l2 := by
        have : q ∈ setCur w.pairs t a := hq
        rwa [hps, setCur_split l1 l2 p t a hp h1 h2] at this
      have hcl : (setName w.s.cur a p.old.name).map clr = cur0.map clr := (map_clr_setName _ _ _).trans hW.p.clr
      rcases List.mem_append.1 hq' with hq1 | hq1
      · have hqt : q.target ≠ t := h1 q hq1
        exact hS hu0' q (by rw [hps]; simp [hq1]) j hj (by simp [hqt, hnt])
      · rcases List.mem_cons.1 hq1 with rfl | hq2
        · simp only at hj
          injection hj with hj; subst hj
          rw [← cookie_of_clr hcl a]
          exact (chk_cookie _ _ _ hu').symm
        · have hqt : q.target ≠ t := h2 q hq2
          exact hS hu0' q (by rw [hps]; simp [hq2]) j hj (by simp [hqt, hnt])

theorem stage4_cookie_init {W : Walk} (hS : CInv cur0 W []) : DInv cur0 W W.s [] := by
  intro hu
  refine ⟨fun p hp j hj => hS hu p hp j hj (by simp), ?_⟩
  intro m x slot hm; simp at hm

theorem stage4_cookie {W : Walk} (s : PairSt) (done : List Nat) (a : Nat) (r : List Nat) (slot : EP)
    (h4 : A4 cur0 W s done (a :: r)) (hslot : W.empty[done.length]? = some slot) (hD : DInv cur0 W s done) :
    DInv cur0 W (slotSt true s a slot) (done ++ [a]) := by
  intro hu
  have hu0 := slot_updated true s a slot hu
  obtain ⟨d1, d2⟩ := hD hu0
  refine ⟨d1, ?_⟩
  intro m x slot' hm hs'
  rw [List.getElem?_append] at hm
  split at hm
  · exact d2 m x slot' hm hs'
  · next hge =>
    have hm0 : m = done.length := by
      rcases Nat.lt_or_ge (m - done.length) 1 with h | h
      · omega
      · rw [List.getElem?_eq_none (by simpa using h)] at hm; cases hm
    subst hm0
    simp only [Nat.sub_self, List.getElem?_cons_zero, Option.some.injEq] at hm
    subst hm
    rw [hslot] at hs'
    injection hs' with hs'
    subst hs'
    have hcl : (setName s.cur a slot.name).map clr = cur0.map clr := (map_clr_setName _ _ _).trans h4.clr
    rw [← cookie_of_clr hcl a]
    exact slot_cookie s a slot hu

/-- **the preserve guards + the copy of the free slots**: after a successful update with `preserve`, EVERY endpoint
of the result — free slots included — carries the cookie of the old endpoint whose server name it has -/
theorem pairLoop_cookie_all (iw : Int) (same : Bool) (sc : List Resp)
    (hO : hasDupTarget old = false) (hC : (cur0.map (·.target)).Nodup)
    (hN : (old.map (·.name)).Nodup) (hlen : cur0.length ≤ old.length)
    (s : PairSt) (hs : pairLoop old cur0 true iw same sc = some s) (hu : s.updated = true) :
    ∀ e ∈ s.cur, ∃ o ∈ old, o.name = e.name ∧ o.cookie = e.cookie := by
  obtain ⟨W, s', hWe, hW, _, h4, hY, hle, he⟩ := pairLoop_shape (old := old) (cur0 := cur0) true iw same sc hO hlen
    (CInv cur0) (walk0_cookie same sc hO)
    (fun w t ts hW hS => walkStep_cookie hO w t ts hW hS)
    (fun s done _ => DInv cur0 (walkEnd old cur0 true same sc) s done)
    (fun W hWe _ hX => by subst hWe; exact stage4_cookie_init hX)
    (fun W hWe _ _ s done a r slot h4 hslot hD => by
      subst hWe; exact stage4_cookie s done a r slot h4 hslot hD)
  rw [he] at hs
  simp only [Option.some.injEq] at hs
  subst hs
  have hT := (hasDupTarget_false_iff old).1 hO
  have hL := led_of_winv hW hT hN
  have hD : (∀ p ∈ W.pairs, ∀ j, p.cur = some j → (cur0.getD j default).cookie = p.old.cookie) ∧
      (∀ (m x : Nat) (slot : EP), W.added[m]? = some x → W.empty[m]? = some slot →
        (cur0.getD x default).cookie = slot.cookie) := by
    have := hY hu
    rw [← hWe] at this
    exact this
  have hcl : s'.cur.length = cur0.length := length_of_clr h4.clr
  intro e he'
  obtain ⟨l, hcp, hdis⟩ := copyEmpty_eps true iw s'.cur (W.empty.drop W.added.length)
  have he'' : e ∈ s'.cur ++ l := by
    have h : e ∈ copyEmpty true iw s'.cur (W.empty.drop W.added.length) := he'
    rwa [hcp] at h
  rcases List.mem_append.1 he'' with hc | hc
  · obtain ⟨i, hi, rfl⟩ := List.getElem_of_mem hc
    have hgd : s'.cur.getD i default = s'.cur[i] := by
      rw [List.getD_eq_getElem?_getD, List.getElem?_eq_getElem hi]; rfl
    have hck : (s'.cur[i]).cookie = (cur0.getD i default).cookie := by
      rw [← hgd]; exact cookie_of_clr h4.clr i
    rcases hW.cov hC i (by omega) with hi' | hi'
    · obtain ⟨p, hp, hpc⟩ := mem_asg.1 hi'
      have hnm : (s'.cur.getD i default).name = p.old.name := h4.nm p hp i hpc
      rw [hgd] at hnm
      exact ⟨p.old, hL.pm p hp, hnm.symm, ((hD.1 p hp i hpc).symm.trans hck.symm)⟩
    · obtain ⟨m, hm, hmi⟩ := List.getElem_of_mem hi'
      have hm' : m < W.empty.length := by omega
      have hdn := congrArg (fun l => l[m]?) h4.dn
      simp only [List.getElem?_map, List.getElem?_eq_getElem hm, List.getElem?_take,
        List.getElem?_eq_getElem hm', hm, if_true, Option.map_some, Option.some.injEq] at hdn
      rw [hmi] at hdn
      unfold nameAt at hdn
      rw [hgd] at hdn
      have hcc := hD.2 m i W.empty[m] (by rw [List.getElem?_eq_getElem hm, hmi]) (List.getElem?_eq_getElem hm')
      exact ⟨W.empty[m], hL.em _ (List.getElem_mem hm'), hdn.symm, hcc.symm.trans hck.symm⟩
  · obtain ⟨_, sl, hsl, hn, hck⟩ := hdis e hc
    exact ⟨sl, hL.em sl (List.mem_of_mem_drop hsl), hn.symm, hck.symm⟩

/-- the enabled endpoints (what `pairLoop_soundC` needs) -/
theorem pairLoop_cookie (iw : Int) (same : Bool) (sc : List Resp)
    (hO : hasDupTarget old = false) (hC : (cur0.map (·.target)).Nodup)
    (hN : (old.map (·.name)).Nodup) (hlen : cur0.length ≤ old.length)
    (s : PairSt) (hs : pairLoop old cur0 true iw same sc = some s) (hu : s.updated = true) :
    ∀ e ∈ s.cur, e.enabled = true → ∃ o ∈ old, o.name = e.name ∧ o.cookie = e.cookie :=
  fun e he _ => pairLoop_cookie_all iw same sc hO hC hN hlen s hs hu e he

end
end HapVerif.C02
