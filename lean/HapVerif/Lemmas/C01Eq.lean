import HapVerif.Lemmas.C01Facts
/-
The equality proof of one partial sync: under `StepCtx` the items (host entries, backend traces) after
`syncPartial` are the items of `syncFull` on the new cluster.
-/
set_option linter.unusedSectionVars false
set_option linter.unusedSimpArgs false
set_option linter.unusedVariables false
namespace HapVerif.C01

theorem mem_logM {rev : Rev} {w : World} {ds : List Decl} {hm : HM} {x : Decl × Outcome}
    (hx : x ∈ logM rev w ds hm) : x.1 ∈ ds ∧ ∃ cur, x.2 = outcome rev w cur x.1 := by
  induction ds generalizing hm with
  | nil => cases hx
  | cons d ds ih =>
    simp only [logM, List.mem_cons] at hx
    rcases hx with h | h
    · subst h; exact ⟨List.mem_cons_self .., _, rfl⟩
    · obtain ⟨h1, h2⟩ := ih h
      exact ⟨List.mem_cons_of_mem _ h1, h2⟩

theorem backTouches_split (b : String) (p : Decl × Outcome → Bool) (L : List (Decl × Outcome))
    (h : backTouches b (L.filter (fun x => !p x)) = []) : backTouches b L = backTouches b (L.filter p) := by
  apply backTouches_filter
  intro x hx hp t hb
  have : t ∈ backTouches b (L.filter (fun x => !p x)) :=
    mem_backTouches.mpr ⟨x, List.mem_filter.mpr ⟨hx, by simp [hp]⟩, hb⟩
  rw [h] at this
  cases this

theorem resolve_noPort_findSvc {w : World} {ns svc port : String} {s : Service}
    (h : resolve w ns svc port = .noPort s) : w.findSvc (ns ++ "/" ++ svc) = some s := by
  unfold resolve at h
  cases hf : w.findSvc (ns ++ "/" ++ svc) with
  | none => simp [hf] at h
  | some s0 =>
    simp [hf] at h
    cases hfp : portOf s0 port with
    | none => simp [hfp] at h; rw [h]
    | some _ => simp [hfp] at h

theorem resolve_ok_findSvc {w : World} {ns svc port : String} {s : Service} {tg : String}
    (h : resolve w ns svc port = .ok s tg) : w.findSvc (ns ++ "/" ++ svc) = some s := by
  unfold resolve at h
  cases hf : w.findSvc (ns ++ "/" ++ svc) with
  | none => simp [hf] at h
  | some s0 =>
    simp [hf] at h
    cases hfp : portOf s0 port with
    | none => simp [hfp] at h
    | some _ => simp [hfp] at h; rw [h.1]

theorem resolve_noSvc_findSvc {w : World} {ns svc port : String}
    (h : resolve w ns svc port = .noSvc) : w.findSvc (ns ++ "/" ++ svc) = none := by
  unfold resolve at h
  cases hf : w.findSvc (ns ++ "/" ++ svc) with
  | none => rfl
  | some s0 =>
    simp [hf] at h
    cases hfp : portOf s0 port with
    | none => simp [hfp] at h
    | some _ => simp [hfp] at h

/-- the reads a touch records are the values of the cluster of the run -/
def FreshT (w : World) (t : Touch) : Prop := ∀ r ∈ t.reads, w.read r.1 = r.2

theorem addBackend_reads_fresh (w : World) (hdr : w.drain = false) (d : Decl) (svc port : String) :
    ∀ r ∈ (addBackend w d svc port).2.1, w.read r.1 = r.2 := by
  unfold addBackend
  cases hres : resolve w d.ing.ns svc port with
  | noSvc =>
    intro r hr
    simp at hr; subst hr
    simp [World.read, resolve_noSvc_findSvc hres]
  | noPort s =>
    intro r hr
    simp at hr; subst hr
    simp [World.read, resolve_noPort_findSvc hres]
  | ok s tg =>
    intro r hr
    simp [matchingPods_nil hdr] at hr
    rcases hr with hr | hr
    · subst hr; simp [World.read, resolve_ok_findSvc hres]
    · subst hr; simp [World.read]

theorem outcome_reads_fresh (rev : Rev) (w : World) (hdr : w.drain = false) (cur : Option Host) (d : Decl) :
    ∀ tch, (outcome rev w cur d).host.trace = (cur.getD { name := d.host }).trace ++ [tch] → FreshT w tch := by
  obtain ⟨ing, host, k⟩ := d
  intro tch h
  cases k with
  | ruleHost =>
    unfold outcome at h
    simp only [] at h
    cases hc : ing.className with
    | none =>
      simp only [hc] at h
      have := List.append_cancel_left h
      simp at this; subst this
      intro r hr; simp at hr
    | some c =>
      simp only [hc] at h
      have := List.append_cancel_left h
      simp at this; subst this
      intro r hr; simp at hr
  | tlsHost secret =>
    unfold outcome at h
    simp only [] at h
    by_cases hs : secret = ""
    · simp only [hs, if_true] at h
      have := List.append_cancel_left h
      simp at this; subst this
      intro r hr; simp at hr
    · simp only [hs, if_false] at h
      cases hk : secretKey ing.ns secret with
      | none =>
        simp only [hk] at h
        have := List.append_cancel_left h
        simp at this; subst this
        intro r hr; simp at hr
      | some sk =>
        simp only [hk] at h
        have := List.append_cancel_left h
        simp at this; subst this
        intro r hr; simp at hr; subst hr; simp [World.read]
  | path p =>
    unfold outcome at h
    simp only [] at h
    by_cases hp : (cur.getD { name := host }).hasPath (if p.path = "" then "/" else p.path) (matchOf p.ptype) = true
    · simp only [hp, if_true] at h
      have := List.append_cancel_left h
      simp at this; subst this
      intro r hr; simp at hr
    · simp only [hp] at h
      have hfr := addBackend_reads_fresh w hdr ⟨ing, host, .path p⟩ p.svc p.port
      rcases hab : addBackend w ⟨ing, host, .path p⟩ p.svc p.port with ⟨edges, reads, oid⟩
      rw [hab] at h hfr
      cases oid with
      | none =>
        simp only [] at h
        have := List.append_cancel_left h
        simp at this; subst this
        exact hfr
      | some id =>
        simp only [] at h
        have := List.append_cancel_left h
        simp at this; subst this
        exact hfr
  | defBack svc port =>
    unfold outcome at h
    simp only [] at h
    by_cases hps : ing.pseudo = true
    · simp only [hps, if_true] at h
      have hfr := addBackend_reads_fresh w hdr ⟨ing, host, .defBack svc port⟩ svc port
      rcases hab : addBackend w ⟨ing, host, .defBack svc port⟩ svc port with ⟨edges, reads, oid⟩
      rw [hab] at h hfr
      cases oid with
      | none =>
        simp only [] at h
        have := List.append_cancel_left h
        simp at this; subst this
        exact hfr
      | some id =>
        simp only [] at h
        have := List.append_cancel_left h
        simp at this; subst this
        exact hfr
    simp only [hps, if_false] at h
    by_cases hp : (cur.getD { name := host }).hasPath "/" "begin" = true
    · simp only [hp, if_true] at h
      have := List.append_cancel_left h
      simp at this; subst this
      intro r hr; simp at hr
    · simp only [hp] at h
      have hfr := addBackend_reads_fresh w hdr ⟨ing, host, .defBack svc port⟩ svc port
      rcases hab : addBackend w ⟨ing, host, .defBack svc port⟩ svc port with ⟨edges, reads, oid⟩
      rw [hab] at h hfr
      cases oid with
      | none =>
        simp only [] at h
        have := List.append_cancel_left h
        simp at this; subst this
        exact hfr
      | some id =>
        simp only [] at h
        have := List.append_cancel_left h
        simp at this; subst this
        exact hfr

theorem finalHM_fresh (rev : Rev) (w : World) (hdr : w.drain = false) (ds : List Decl) (hm : HM)
    (h0 : ∀ h x, hm h = some x → ∀ t ∈ x.trace, FreshT w t) :
    ∀ h x, finalHM rev w ds hm h = some x → ∀ t ∈ x.trace, FreshT w t := by
  induction ds generalizing hm with
  | nil => exact h0
  | cons d ds ih =>
    simp only [finalHM]
    apply ih
    intro h x hx t ht
    unfold HM.set at hx
    by_cases hh : h = d.host
    · simp only [hh, if_true] at hx
      cases hx
      obtain ⟨tch, htr, _⟩ := outcome_trace_append rev w (hm d.host) d
      rw [htr] at ht
      rcases List.mem_append.mp ht with ht | ht
      · cases hc : hm d.host with
        | none => simp [hc] at ht
        | some x0 => simp only [hc, Option.getD_some] at ht; exact h0 d.host x0 hc t ht
      · simp at ht; subst ht
        exact outcome_reads_fresh rev w hdr (hm d.host) d t htr
    · simp only [hh, if_false] at hx
      exact h0 h x hx t ht

theorem bm_ne_nil_backLive {st : St} {id : String} (h : st.bm id ≠ []) : st.backLive id = true := by
  unfold St.bm at h
  unfold St.backLive
  cases hf : st.findBack id with
  | none => simp [hf] at h
  | some _ => rfl

/-! ### the step -/

section
variable {rev : Rev} {w w' : World} {b : Batch} {st : St}

/-- the re-synced ingresses, as a predicate -/
def pA (w' : World) (b : Batch) (st : St) (i : Ingress) : Bool :=
  decide (i.key ∈ resyncKeys b (namesOf .ing (dirty w' b st)))

/-- the kept ingresses: valid after the change and not re-synced -/
def pB (w' : World) (b : Batch) (st : St) (i : Ingress) : Bool :=
  !pA w' b st i && decide (i ∈ w'.validSorted)

theorem resyncList_eq (w' : World) (b : Batch) (st : St) :
    resyncList w' b (dirty w' b st) = w'.validSorted.filter (pA w' b st) := rfl

theorem mem_R_iff {i : Ingress} :
    i ∈ resyncList w' b (dirty w' b st) ↔ i ∈ w'.validSorted ∧ pA w' b st i = true := by
  rw [resyncList_eq, List.mem_filter]

/-- the kept ingresses are the same list before and after the change -/
theorem kept_lists_eq (c : StepCtx rev w w' b st) :
    w'.validSorted.filter (pB w' b st) = w.validSorted.filter (pB w' b st) := by
  apply sorted_unique
  · exact (validSorted_pairwise w').sublist List.filter_sublist
  · exact (validSorted_pairwise w).sublist List.filter_sublist
  · exact (validSorted_nodup c.hwf').sublist List.filter_sublist
  · exact (validSorted_nodup c.hwf).sublist List.filter_sublist
  · intro i
    simp only [List.mem_filter]
    constructor
    · rintro ⟨hi, hp⟩
      have hnA : pA w' b st i = false := by
        unfold pB at hp
        cases h : pA w' b st i <;> simp [h] at hp ⊢
      have hnR : i ∉ resyncList w' b (dirty w' b st) := fun h => by
        have := (mem_R_iff.mp h).2; rw [hnA] at this; cases this
      exact ⟨(not_resynced c.hd c.hwf c.hwf' hi hnR).1, hp⟩
    · rintro ⟨_, hp⟩
      refine ⟨?_, hp⟩
      unfold pB at hp
      simp at hp
      exact hp.2
  · intro a ha x hx hk
    exact key_inj_of_wf c.hwf' (List.mem_filter.mp ha).1 (List.mem_filter.mp hx).1 hk

/-- PARTIAL = FULL for one step: host entries and backend traces -/
theorem partial_eq_full_step (c : StepCtx rev w w' b st) :
    (∀ h, (syncPartial rev w' b st).hm h = (syncFull rev w').hm h) ∧
    (∀ x, (syncPartial rev w' b st).bm x = (syncFull rev w').bm x) := by
  -- the three runs
  let R := resyncList w' b (dirty w' b st)
  let ds' := w'.validSorted.flatMap declsOf
  let dsW := w.validSorted.flatMap declsOf
  let isA : Decl → Bool := fun d => pA w' b st d.ing
  let isB : Decl → Bool := fun d => pB w' b st d.ing
  let st2 := (afterRemove w' b st).1
  let e0 : HM := fun _ => none
  have hdsA : R.flatMap declsOf = ds'.filter isA := by
    show (resyncList w' b (dirty w' b st)).flatMap declsOf = _
    rw [resyncList_eq]
    exact (filter_flatMap_declsOf (pA w' b st) w'.validSorted).symm
  have hP_hm : (syncPartial rev w' b st).hm = finalHM rev w' (ds'.filter isA) st2.hm := by
    rw [syncPartial_eq, syncList_eq_procs, procs_hm, hdsA]
  have hP_bm : ∀ x, (syncPartial rev w' b st).bm x =
      st2.bm x ++ backTouches x (logM rev w' (ds'.filter isA) st2.hm) := by
    intro x
    rw [syncPartial_eq, syncList_eq_procs, procs_bm, hdsA]
  have hdr := c.hd.drain.1
  have hdr' := c.hd.drain.2
  -- membership helpers
  have mem_ds' : ∀ d ∈ ds', ∃ i ∈ w'.validSorted, d ∈ declsOf i ∧ d.ing = i := by
    intro d hd
    obtain ⟨i, hi, hdi⟩ := List.mem_flatMap.mp hd
    exact ⟨i, hi, hdi, declsOf_ing hdi⟩
  have mem_dsW : ∀ d ∈ dsW, ∃ i ∈ w.validSorted, d ∈ declsOf i ∧ d.ing = i := by
    intro d hd
    obtain ⟨i, hi, hdi⟩ := List.mem_flatMap.mp hd
    exact ⟨i, hi, hdi, declsOf_ing hdi⟩
  have inR : ∀ i ∈ w'.validSorted, pA w' b st i = true → i ∈ R := fun i hi hp => mem_R_iff.mpr ⟨hi, hp⟩
  have notR : ∀ i, pA w' b st i = false → i ∉ R := by
    intro i hp h
    have := (mem_R_iff.mp h).2; rw [hp] at this; cases this
  -- (A) hosts named by re-synced declarations
  let HA : String → Prop := fun h => ∃ d ∈ ds', isA d = true ∧ d.host = h
  have hAexcl : ∀ d ∈ ds', isA d = false → ¬ HA d.host := by
    rintro d hd hnA ⟨d2, hd2, hA2, hh⟩
    obtain ⟨j, hj, hdj, hje⟩ := mem_ds' d hd
    obtain ⟨i, hi, hdi, hie⟩ := mem_ds' d2 hd2
    have hiR : i ∈ R := inR i hi (by simpa [isA, hie] using hA2)
    have hjn : j ∉ R := notR j (by simpa [isA, hje] using hnA)
    exact resynced_host_exclusive c hiR hj hjn hdi hdj hh.symm
  have hAremoved : ∀ h, HA h → e0 h = st2.hm h := by
    rintro h ⟨d, hd, hA, rfl⟩
    obtain ⟨i, hi, hdi, hie⟩ := mem_ds' d hd
    have hiR : i ∈ R := inR i hi (by simpa [isA, hie] using hA)
    exact (resynced_host_removed c hiR hdi).symm
  obtain ⟨simA_log, simA_hm⟩ := sim_filter rev w' isA HA ds' e0 st2.hm
    (fun d hd hk => ⟨d, hd, hk, rfl⟩) hAexcl hAremoved
  obtain ⟨simA2_log, simA2_hm⟩ := sim_filter rev w' (fun d => !isA d) (fun h => ¬ HA h) ds' e0 e0
    (fun d hd hk => hAexcl d hd (by simpa using hk))
    (fun d hd hk hn => hn ⟨d, hd, by simpa using hk, rfl⟩)
    (fun _ _ => rfl)
  -- on ds' "not re-synced" is "kept"
  have hfiltB : ds'.filter (fun d => !isA d) = ds'.filter isB := by
    apply List.filter_congr
    intro d hd
    obtain ⟨i, hi, _, hie⟩ := mem_ds' d hd
    simp [isA, isB, pB, hie, hi]
  have hdsB' : ds'.filter isB = (w'.validSorted.filter (pB w' b st)).flatMap declsOf :=
    filter_flatMap_declsOf (pB w' b st) w'.validSorted
  have hdsBW : dsW.filter isB = (w.validSorted.filter (pB w' b st)).flatMap declsOf :=
    filter_flatMap_declsOf (pB w' b st) w.validSorted
  have hBeq : ds'.filter (fun d => !isA d) = dsW.filter isB := by
    rw [hfiltB, hdsB', hdsBW, kept_lists_eq c]
  -- (C) the old full run, restricted to the kept declarations
  let HB : String → Prop := fun h => ∃ d ∈ dsW, isB d = true ∧ d.host = h
  have keptOf : ∀ d ∈ dsW, isB d = true → ∃ j, j ∈ w'.validSorted ∧ j ∉ R ∧ d ∈ declsOf j := by
    intro d hd hB
    obtain ⟨j, hj, hdj, hje⟩ := mem_dsW d hd
    have hB' : pB w' b st j = true := by simpa [isB, hje] using hB
    unfold pB at hB'
    simp at hB'
    exact ⟨j, hB'.2, notR j (by simpa using hB'.1), hdj⟩
  have goneOf : ∀ d ∈ dsW, isB d = false → ∃ i, i ∈ w.validSorted ∧ d ∈ declsOf i ∧
      (⟨.ing, i.key⟩ : Node) ∈ reach (preTr w' b st) b.links := by
    intro d hd hB
    obtain ⟨i, hi, hdi, hie⟩ := mem_dsW d hd
    refine ⟨i, hi, hdi, old_in_reach c hi ?_⟩
    have hB' : pB w' b st i = false := by simpa [isB, hie] using hB
    unfold pB at hB'
    by_cases hiw' : i ∈ w'.validSorted
    · right
      apply inR i hiw'
      cases hA : pA w' b st i
      · simp [hA, hiw'] at hB'
      · rfl
    · exact Or.inl hiw'
  have hBexcl : ∀ d ∈ dsW, isB d = false → ¬ HB d.host := by
    rintro d hd hnB ⟨dj, hdj, hBj, hh⟩
    obtain ⟨i, hi, hdi, hir⟩ := goneOf d hd hnB
    obtain ⟨j, hj, hjn, hdjj⟩ := keptOf dj hdj hBj
    exact kept_host_not_reach c hj hjn hdjj (hh ▸ old_host_in_reach c hi hir hdi)
  obtain ⟨simC_log, simC_hm⟩ := sim_filter rev w isB HB dsW e0 e0
    (fun d hd hk => ⟨d, hd, hk, rfl⟩) hBexcl (fun _ _ => rfl)
  -- kept hosts are not connected to a seed
  have HB_clean : ∀ h, HB h → (⟨.host, h⟩ : Node) ∉ reach (preTr w' b st) b.links := by
    rintro h ⟨d, hd, hB, rfl⟩
    obtain ⟨j, hj, hjn, hdj⟩ := keptOf d hd hB
    exact kept_host_not_reach c hj hjn hdj
  -- the old state is the old full run
  have hF_hm : ∀ h, st.hm h = finalHM rev w dsW e0 h := fun h => by rw [c.hobsH, syncFull_hm]
  have hF_bm : ∀ x, st.bm x = backTouches x (logM rev w dsW e0) := fun x => by rw [c.hobsB, syncFull_bm]
  -- (B) the kept declarations have the same outcomes in the new cluster
  have hsameB : ∀ h x, finalHM rev w (dsW.filter isB) e0 h = some x → ∀ t ∈ x.trace, ReadsSame w' t := by
    intro h x hx t ht
    have hHB : HB h := by
      apply Classical.byContradiction
      intro hn
      have := finalHM_untouched rev w (dsW.filter isB) e0 h (by
        intro d hd hdh
        obtain ⟨hd1, hd2⟩ := List.mem_filter.mp hd
        exact hn ⟨d, hd1, hd2, hdh⟩)
      rw [this] at hx
      cases hx
    have hst : st.hm h = some x := by rw [hF_hm, simC_hm h hHB]; exact hx
    have hfresh := finalHM_fresh rev w hdr (dsW.filter isB) e0 (by intro h x hx; cases hx) h x hx t ht
    intro r hr
    apply Classical.byContradiction
    intro hne
    have hseed : r.1 ∈ b.links := c.hd.obj r.1 (by rw [hfresh r hr]; exact fun e => hne e.symm)
    have hconn := (c.hl.tc.host h x hst t ht).2 r hr
    exact HB_clean h hHB (reach_closed (seed_in_reach hseed) (hconn.mono (preTr_sub w' b st)).symm)
  obtain ⟨wc_hm, wc_bm⟩ := world_congr rev w w' hdr hdr' (dsW.filter isB) e0 hsameB
  -- ===== hosts =====
  have hosts : ∀ h, (syncPartial rev w' b st).hm h = (syncFull rev w').hm h := by
    intro h
    rw [hP_hm, syncFull_hm]
    by_cases hA : HA h
    · exact (simA_hm h hA).symm
    · -- not touched by the re-synced declarations
      have hPun : finalHM rev w' (ds'.filter isA) st2.hm h = st2.hm h := by
        apply finalHM_untouched
        intro d hd hdh
        obtain ⟨hd1, hd2⟩ := List.mem_filter.mp hd
        exact hA ⟨d, hd1, hd2, hdh⟩
      rw [hPun, simA2_hm h hA, hBeq, wc_hm]
      show (afterRemove w' b st).1.hm h = _
      rw [afterRemove_hm]
      by_cases hB : HB h
      · have hnd : (⟨.host, h⟩ : Node) ∉ dirty w' b st := fun hd => HB_clean h hB (dirty_iff.mp hd).2
        simp only [hnd, if_false]
        rw [hF_hm, simC_hm h hB]
      · have hun : finalHM rev w (dsW.filter isB) e0 h = none := by
          apply finalHM_untouched
          intro d hd hdh
          obtain ⟨hd1, hd2⟩ := List.mem_filter.mp hd
          exact hB ⟨d, hd1, hd2, hdh⟩
        rw [hun]
        by_cases hd : (⟨.host, h⟩ : Node) ∈ dirty w' b st
        · simp [hd]
        · simp only [hd, if_false]
          -- no old declaration names h: the kept ones would put it in HB, the others make it dirty
          rw [hF_hm]
          apply finalHM_untouched
          intro d hdW hdh
          cases hBd : isB d with
          | true => exact hB ⟨d, hdW, hBd, hdh⟩
          | false =>
            obtain ⟨i, hi, hdi, hir⟩ := goneOf d hdW hBd
            have hr := old_host_in_reach c hi hir hdi
            have h1 := (c.hl.ing i hi d hdi).1
            have hedge : HasEdge (preTr w' b st) ⟨.host, d.host⟩ :=
              (hasEdge_of_conn_ne h1.symm (by intro e; cases e)).mono (preTr_sub w' b st)
            exact hd (hdh ▸ dirty_iff.mpr ⟨hedge, hr⟩)
  -- ===== backends =====
  have backs : ∀ x, (syncPartial rev w' b st).bm x = (syncFull rev w').bm x := by
    intro x
    rw [hP_bm, syncFull_bm]
    -- the log of the new full run splits into the re-synced part (= the partial run) and the kept part
    have hApart : backTouches x ((logM rev w' ds' e0).filter (fun y => isA y.1)) =
        backTouches x (logM rev w' (ds'.filter isA) st2.hm) := by rw [simA_log]
    have hBpart : backTouches x ((logM rev w' ds' e0).filter (fun y => !isA y.1)) =
        backTouches x ((logM rev w dsW e0).filter (fun y => isB y.1)) := by
      rw [simA2_log, hBeq, wc_bm x, simC_log]
    -- (Bk2)/(Bk3): who touches a backend in the old full run
    have oldTouch : ∀ y ∈ logM rev w dsW e0, ∀ t, y.2.back = some (x, t) →
        (isB y.1 = true → (⟨.back, x⟩ : Node) ∉ dirty w' b st) ∧
        (isB y.1 = false → (⟨.back, x⟩ : Node) ∈ dirty w' b st) := by
      intro y hy t hyb
      obtain ⟨hy1, cur, hy2⟩ := mem_logM hy
      have hting : t.ing = y.1.ing := (outcome_back_spec rev w cur y.1 x t (hy2 ▸ hyb)).1
      have htm : t ∈ st.bm x := by rw [hF_bm]; exact mem_backTouches.mpr ⟨y, hy, hyb⟩
      have hconn := (c.hl.tc.back x t htm).1
      rw [hting] at hconn
      have hedge : HasEdge (preTr w' b st) ⟨.back, x⟩ :=
        (hasEdge_of_conn_ne hconn (by intro e; cases e)).mono (preTr_sub w' b st)
      constructor
      · intro hB hd
        obtain ⟨j, hj, hjn, hdj⟩ := keptOf y.1 hy1 hB
        have := (kept_not_reach c hj hjn hdj).2
        rw [← declsOf_ing hdj] at this
        exact this (reach_closed (dirty_iff.mp hd).2 (hconn.mono (preTr_sub w' b st)))
      · intro hB
        obtain ⟨i, hi, hdi, hir⟩ := goneOf y.1 hy1 hB
        rw [← declsOf_ing hdi] at hir
        exact dirty_iff.mpr ⟨hedge, reach_closed hir (hconn.mono (preTr_sub w' b st)).symm⟩
    -- (Bk1): a re-synced declaration never lands on a surviving backend
    have noLate : ∀ y ∈ logM rev w' (ds'.filter isA) st2.hm, ∀ t, y.2.back = some (x, t) → st2.bm x = [] := by
      intro y hy t hyb
      obtain ⟨hy1, cur, hy2⟩ := mem_logM hy
      obtain ⟨hyd, hyA⟩ := List.mem_filter.mp hy1
      obtain ⟨i, hi, hdi, hie⟩ := mem_ds' y.1 hyd
      have hiR : i ∈ R := inR i hi (by simpa [isA, hie] using hyA)
      obtain ⟨_, s, p, sv, tg, hsvc, hres, hid, _⟩ := outcome_back_spec rev w' cur y.1 x t (hy2 ▸ hyb)
      rw [hie] at hres hid
      show (afterRemove w' b st).1.bm x = []
      rw [afterRemove_bm]
      by_cases hd : (⟨.back, x⟩ : Node) ∈ dirty w' b st
      · simp [hd]
      · simp only [hd, if_false]
        apply Classical.byContradiction
        intro hne
        obtain ⟨t0, ht0⟩ := List.exists_mem_of_ne_nil _ hne
        have hedge : HasEdge (preTr w' b st) ⟨.back, x⟩ :=
          (hasEdge_of_conn_ne (c.hl.tc.back x t0 ht0).1 (by intro e; cases e)).mono (preTr_sub w' b st)
        apply hd
        refine dirty_iff.mpr ⟨hedge, ?_⟩
        by_cases hl : (⟨.ing, i.key⟩ : Node) ∈ b.links
        · -- carried by the batch: pre-tracked to the live backend
          have hcar := c.hd.carried i.key i hl (validIng_of_mem c.hwf' hi)
          have he := mem_preTr hcar (preEdges_back (w' := w') (st := st) hdi hsvc hres
            (by rw [← hid]; exact bm_ne_nil_backLive hne))
          rw [← hid] at he
          exact reach_closed (seed_in_reach hl) (Conn.single (Or.inl he))
        · -- the same valid object as before
          have hv : w.validIng i.key = some i := by
            by_cases h : w.validIng i.key = w'.validIng i.key
            · rw [h]; exact validIng_of_mem c.hwf' hi
            · exact absurd (c.hd.ing i.key h) hl
          have hiw := (mem_of_validIng hv).1
          have hir := old_in_reach c hiw (Or.inr hiR)
          have hlk := c.hl.ing i hiw y.1 hdi
          unfold DeclLinked at hlk
          rw [hie] at hlk
          by_cases hsame : w.findSvc (i.ns ++ "/" ++ s) = w'.findSvc (i.ns ++ "/" ++ s)
          · have hres' : resolve w i.ns s p = .ok sv tg := by
              rw [← hres]; exact (resolve_congr hsame.symm).symm
            have := hlk.2.2 s p sv tg hsvc hres'
            rw [← hid] at this
            exact reach_closed hir (this.mono (preTr_sub w' b st))
          · -- the service changed: it is a seed, and the surviving backend read it
            have hseed : (⟨.svc, i.ns ++ "/" ++ s⟩ : Node) ∈ b.links := by
              apply c.hd.obj
              simp only [World.read]
              intro e
              injection e with e
              exact hsame e
            have ht0' : t0 ∈ backTouches x (logM rev w dsW e0) := by rw [← hF_bm]; exact ht0
            obtain ⟨y0, hy0, hy0b⟩ := mem_backTouches.mp ht0'
            obtain ⟨hy01, cur0, hy02⟩ := mem_logM hy0
            obtain ⟨i0, hi0, hdi0, hie0⟩ := mem_dsW y0.1 hy01
            obtain ⟨_, s0, p0, sv0, tg0, _, _, hid0, hrd0⟩ := outcome_back_spec rev w cur0 y0.1 x t0 (hy02 ▸ hy0b)
            rw [hie0] at hid0 hrd0
            have hinj := c.hinj i (List.mem_append_right _ (mem_validSorted.mp hi).1)
              i0 (List.mem_append_left _ (mem_validSorted.mp hi0).1) s tg s0 tg0 (hid.symm.trans hid0)
            have hconn := (c.hl.tc.back x t0 ht0).2 _ hrd0
            simp only [] at hconn
            rw [← hinj.1, ← hinj.2] at hconn
            exact reach_closed (seed_in_reach hseed) (hconn.mono (preTr_sub w' b st)).symm
    -- assemble
    by_cases hcase : st2.bm x = []
    · -- dirty or absent: only the re-synced declarations contribute
      rw [hcase, List.nil_append]
      have hBnil : backTouches x ((logM rev w' ds' e0).filter (fun y => !isA y.1)) = [] := by
        rw [hBpart]
        apply backTouches_nil_of
        intro y hy t hyb
        obtain ⟨hy1, hy2⟩ := List.mem_filter.mp hy
        have hnd := (oldTouch y hy1 t hyb).1 hy2
        -- not dirty and touched in the old run: then it survives, contradiction with `hcase`
        have : st2.bm x = st.bm x := by
          show (afterRemove w' b st).1.bm x = _
          rw [afterRemove_bm]; simp [hnd]
        rw [this, hF_bm] at hcase
        have : t ∈ backTouches x (logM rev w dsW e0) := mem_backTouches.mpr ⟨y, hy1, hyb⟩
        rw [hcase] at this
        cases this
      rw [backTouches_split x (fun y => isA y.1) (logM rev w' ds' e0) hBnil, hApart]
    · -- survives: no re-synced declaration touches it, the kept ones rebuild the same trace
      have hAnil : backTouches x (logM rev w' (ds'.filter isA) st2.hm) = [] := by
        apply backTouches_nil_of
        intro y hy t hyb
        exact hcase (noLate y hy t hyb)
      have hnd : (⟨.back, x⟩ : Node) ∉ dirty w' b st := by
        intro hd
        apply hcase
        show (afterRemove w' b st).1.bm x = []
        rw [afterRemove_bm]; simp [hd]
      have hst2 : st2.bm x = st.bm x := by
        show (afterRemove w' b st).1.bm x = _
        rw [afterRemove_bm]; simp [hnd]
      rw [hAnil, List.append_nil, hst2, hF_bm]
      have hAnil' : backTouches x ((logM rev w' ds' e0).filter (fun y => !(fun y => !isA y.1) y)) = [] := by
        simp only [Bool.not_not]
        rw [hApart]; exact hAnil
      rw [backTouches_split x (fun y => !isA y.1) (logM rev w' ds' e0) hAnil', hBpart]
      apply backTouches_filter
      intro y hy hB t hyb
      exact absurd ((oldTouch y hy t hyb).2 (by simpa using hB)) hnd
  exact ⟨hosts, backs⟩

end
end HapVerif.C01
